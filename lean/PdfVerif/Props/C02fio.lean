import PdfVerif.Model.FIOXRef
/-!
# C02 — file round trip (work package FIO): cross-reference codec theorems

All statements are about `Model/FIOXRef.lean` (xref.go), which the FIO correspondence run ties
to the code (byte-identical sections from `writeXRefTable`/`writeXRefStream`, identical decode
results of `readXRefTable`/`decodeXRefStream`/`checkXRefStreamDict` on generated and mutated
sections).
-/
namespace PdfVerif.C02fio
open PdfVerif PdfVerif.FIO

/-! ## `encodeInt64` / `decodeInt` -/

theorem encodeInt64_length (x w : Nat) : (encodeInt64 x w).length = w := by
  induction w with
  | zero => simp [encodeInt64]
  | succ w ih => simp [encodeInt64, ih]

theorem encodeInt64_bytes (x w : Nat) : AllBytes (encodeInt64 x w) := by
  induction w with
  | zero => simp [encodeInt64]
  | succ w ih => simp only [encodeInt64, allBytes_cons]; exact ⟨Nat.mod_lt _ (by omega), ih⟩

theorem beVal_append (a b : Bytes) (acc : Nat) : beVal (a ++ b) acc = beVal b (beVal a acc) := by
  induction a generalizing acc with
  | nil => simp [beVal]
  | cons x xs ih => simp [beVal, ih]

theorem beVal_encodeInt64 (x w acc : Nat) :
    beVal (encodeInt64 x w) acc = acc * 256 ^ w + x % 256 ^ w := by
  induction w generalizing acc with
  | zero => simp [encodeInt64, beVal, Nat.mod_one]
  | succ w ih =>
    simp only [encodeInt64, beVal, ih]
    rw [Nat.mod_pow_succ (x := x) (b := 256) (k := w), Nat.pow_succ, Nat.add_mul]
    have : acc * 256 * 256 ^ w = acc * (256 ^ w * 256) := by
      rw [Nat.mul_assoc, Nat.mul_comm 256 (256 ^ w)]
    rw [this, Nat.mul_comm (x / 256 ^ w % 256) (256 ^ w)]
    omega

/-- **decodeInt ∘ encodeInt64.**  Every value that fits `w` bytes and a non-negative `int64`
is read back (all widths, in particular 0–8). -/
theorem decodeInt_encodeInt64 (x w : Nat) (hw : x < 256 ^ w) (h63 : x < two63) :
    decodeInt (encodeInt64 x w) = some x := by
  have h : beVal (encodeInt64 x w) 0 = x := by
    rw [beVal_encodeInt64, Nat.mod_eq_of_lt hw]; simp
  have h64 : x % two64 = x := Nat.mod_eq_of_lt (by unfold two64; unfold two63 at h63; omega)
  simp only [decodeInt, h, h64]
  have : ¬ (x ≥ two63) := by omega
  simp [this]

/-- what is read back when the value does not fit: the `w` low bytes (width 0 reads 0) -/
theorem decodeInt_encodeInt64_trunc (x w : Nat) (h63 : x % 256 ^ w < two63) (hw : w ≤ 8) :
    decodeInt (encodeInt64 x w) = some (x % 256 ^ w) := by
  have h : beVal (encodeInt64 x w) 0 = x % 256 ^ w := by rw [beVal_encodeInt64]; simp
  have hlt : x % 256 ^ w < two64 := by
    have : 256 ^ w ≤ 256 ^ 8 := Nat.pow_le_pow_right (by omega) hw
    have := Nat.mod_lt x (show 256 ^ w > 0 from Nat.pow_pos (by omega))
    unfold two64; omega
  simp only [decodeInt, h, Nat.mod_eq_of_lt hlt]
  have : ¬ (x % 256 ^ w ≥ two63) := by omega
  simp [this]

example : decodeInt (encodeInt64 4611686018427387907 8) = some 4611686018427387907 := by decide +kernel
example : decodeInt (encodeInt64 65535 1) = some 255 := by decide +kernel

/-! ## `bits.Len64` sizing -/

theorem lt_two_pow_len64 (x : Nat) : x < 2 ^ len64 x := by
  unfold len64
  split
  · subst_vars; simp
  · exact Nat.lt_log2_self

/-- **W widths are sufficient** for the value they were computed from -/
theorem fieldWidth_sufficient (x : Nat) : x < 256 ^ fieldWidth x := by
  have h1 := lt_two_pow_len64 x
  have h2 : len64 x ≤ 8 * fieldWidth x := by unfold fieldWidth; omega
  have h3 : 2 ^ len64 x ≤ 2 ^ (8 * fieldWidth x) := Nat.pow_le_pow_right (by omega) h2
  have h4 : 2 ^ (8 * fieldWidth x) = 256 ^ fieldWidth x := by
    rw [Nat.pow_mul]
  omega

theorem len64_mono {x y : Nat} (h : x ≤ y) : len64 x ≤ len64 y := by
  unfold len64
  split
  · omega
  · rename_i hx
    have hy : y ≠ 0 := by omega
    simp only [hy, ↓reduceIte]
    have h1 : 2 ^ x.log2 ≤ x := Nat.log2_self_le hx
    have h2 : y < 2 ^ (y.log2 + 1) := Nat.lt_log2_self
    have h3 : 2 ^ x.log2 < 2 ^ (y.log2 + 1) := by omega
    have := (Nat.pow_lt_pow_iff_right (a := 2) (by omega)).1 h3
    omega

theorem fieldWidth_mono {x y : Nat} (h : x ≤ y) : fieldWidth x ≤ fieldWidth y := by
  have := len64_mono h
  unfold fieldWidth; omega

/-- a field computed from a maximum holds every smaller value -/
theorem fieldWidth_holds {x y : Nat} (h : x ≤ y) : x < 256 ^ fieldWidth y := by
  have h1 := fieldWidth_sufficient x
  have h2 : 256 ^ fieldWidth x ≤ 256 ^ fieldWidth y := Nat.pow_le_pow_right (by omega) (fieldWidth_mono h)
  omega

/-- the widths never exceed 8 for `uint64` values (so `/W` passes `checkXRefStreamDict`) -/
theorem fieldWidth_le_8 (x : Nat) (h : x < two64) : fieldWidth x ≤ 8 := by
  have : len64 x ≤ 64 := by
    unfold len64; split
    · omega
    · rename_i hx
      have := (Nat.log2_lt (n := x) (k := 64) hx).2 (by unfold two64 at h; omega)
      omega
  unfold fieldWidth; omega


/-! ## classic table: lines of exactly 20 bytes, `decodeXRefSection ∘ xrefLines` -/

theorem fixDec_length (w n : Nat) : (fixDec w n).length = w := by
  induction w generalizing n with
  | zero => simp [fixDec]
  | succ w ih => simp [fixDec, ih]

theorem fixDec_digits (w n : Nat) : (fixDec w n).all isDigit = true := by
  induction w generalizing n with
  | zero => simp [fixDec]
  | succ w ih =>
    simp only [fixDec, List.all_append, ih, Bool.true_and, List.all_cons, List.all_nil, Bool.and_true]
    have : n % 10 < 10 := Nat.mod_lt _ (by omega)
    simp [isDigit]; omega

theorem digitsVal_append (a b : Bytes) (acc : Nat) :
    digitsVal (a ++ b) acc = digitsVal b (digitsVal a acc) := by
  induction a generalizing acc with
  | nil => simp [digitsVal]
  | cons x xs ih => simp [digitsVal, ih]

theorem digitsVal_fixDec (w n acc : Nat) :
    digitsVal (fixDec w n) acc = acc * 10 ^ w + n % 10 ^ w := by
  induction w generalizing n acc with
  | zero => simp [fixDec, digitsVal, Nat.mod_one]
  | succ w ih =>
    simp only [fixDec, digitsVal_append, ih, digitsVal]
    have h1 : 48 + n % 10 - 48 = n % 10 := by omega
    rw [h1, Nat.pow_succ]
    have h2 : n % (10 ^ w * 10) = n % 10 + 10 * (n / 10 % 10 ^ w) := by
      rw [Nat.mul_comm (10 ^ w) 10, Nat.mod_mul]
    rw [h2, Nat.add_mul]
    have : acc * 10 ^ w * 10 = acc * (10 ^ w * 10) := by rw [Nat.mul_assoc]
    omega

theorem parseInt64_digits (ds : Bytes) (hne : ds ≠ []) (hall : ds.all isDigit = true)
    (hv : digitsVal ds 0 ≤ 9223372036854775807) :
    parseInt64 ds = some (digitsVal ds 0 : Int) := by
  cases ds with
  | nil => exact absurd rfl hne
  | cons d rest =>
    have hd : isDigit d = true := by simp at hall; exact hall.1
    have h45 : d ≠ 45 := by intro h; subst h; simp [isDigit] at hd
    have h43 : d ≠ 43 := by intro h; subst h; simp [isDigit] at hd
    unfold parseInt64
    split
    rename_i x neg ds heq
    split at heq
    · rename_i h; simp at h; exact absurd h.1 h45
    · rename_i h; simp at h; exact absurd h.1 h43
    · simp only [Prod.mk.injEq] at heq
      obtain ⟨rfl, rfl⟩ := heq
      simp only [List.isEmpty_cons, hall, Bool.false_or, Bool.not_true]
      have h1 : ¬ ((digitsVal (d :: rest) 0 : Int) < -9223372036854775808) := by omega
      have h2 : ¬ ((digitsVal (d :: rest) 0 : Int) > 9223372036854775807) := by omega
      simp [h1, h2]

theorem parseInt64_fixDec (w n : Nat) (hw : 0 < w) (hn : n < 10 ^ w) (h63 : n ≤ 9223372036854775807) :
    parseInt64 (fixDec w n) = some (n : Int) := by
  have hv : digitsVal (fixDec w n) 0 = n := by rw [digitsVal_fixDec, Nat.mod_eq_of_lt hn]; simp
  have := parseInt64_digits (fixDec w n)
    (by intro h; have := fixDec_length w n; rw [h] at this; simp at this; omega)
    (fixDec_digits w n) (by rw [hv]; exact h63)
  rw [this, hv]

theorem parseUint16_fixDec (n : Nat) (hn : n ≤ 65535) : parseUint16 (fixDec 5 n) = some n := by
  have hv : digitsVal (fixDec 5 n) 0 = n := by
    rw [digitsVal_fixDec, Nat.mod_eq_of_lt (by omega)]; simp
  unfold parseUint16
  have hne : (fixDec 5 n).isEmpty = false := by
    cases h : fixDec 5 n with
    | nil => have := fixDec_length 5 n; rw [h] at this; simp at this
    | cons _ _ => rfl
  simp only [hne, fixDec_digits, hv, Bool.not_true, Bool.or_self, Bool.false_eq_true, ↓reduceIte]
  have : ¬ (n > 65535) := by omega
  simp [this]

/-- a table line as `writeXRefTable` prints it -/
def tabLine (p g c : Nat) : Bytes := fixDec 10 p ++ [32] ++ fixDec 5 g ++ [32, c, 13, 10]

theorem tabLine_length (p g c : Nat) : (tabLine p g c).length = 20 := by
  simp [tabLine, fixDec_length]

theorem freeLine_eq : freeLine = tabLine 0 Gen.fio_maxGeneration 102 := by decide

/-- the literal free line carries the generated `maxGeneration` -/
theorem xrefLine_eq (e : Option XEntry)
    (h : ∀ x, e = some x → x.pos < 10000000000 ∧ x.gen ≤ 65535) :
    xrefLine e = match e with
      | some x => if x.pos ≥ 0 then tabLine x.pos.toNat x.gen 110 else tabLine 0 Gen.fio_maxGeneration 102
      | none => tabLine 0 Gen.fio_maxGeneration 102 := by
  cases e with
  | none => simp [xrefLine, freeLine_eq]
  | some x =>
    obtain ⟨h1, h2⟩ := h x rfl
    simp only [xrefLine]
    split
    · have hp : x.pos.toNat < 10 ^ 10 := by omega
      have hg : x.gen < 10 ^ 5 := by omega
      simp [fmtPad, hp, hg, tabLine]
    · exact freeLine_eq

/-- **xref lines are exactly 20 bytes** (offsets below 10^10, generations ≤ 65535) -/
theorem xref_line_20 (e : Option XEntry)
    (h : ∀ x, e = some x → x.pos < 10000000000 ∧ x.gen ≤ 65535) :
    (xrefLine e).length = 20 := by
  rw [xrefLine_eq e h]
  cases e with
  | none => exact tabLine_length _ _ _
  | some x => simp only; split <;> exact tabLine_length _ _ _

theorem xref_lines_20 (m : XMap) (i k : Nat)
    (h : ∀ j, i ≤ j → j < i + k → ∀ x, m.get j = some x → x.pos < 10000000000 ∧ x.gen ≤ 65535) :
    (xrefLines m i k).length = 20 * k := by
  induction k generalizing i with
  | zero => simp [xrefLines]
  | succ k ih =>
    simp only [xrefLines, List.length_append]
    rw [xref_line_20 _ (h i (by omega) (by omega)), ih (i + 1) (fun j h1 h2 => h j (by omega) (by omega))]
    omega

/-- without the bound the line is longer: the writer does not check it (see notes/C02.md) -/
example : (xrefLine (some { inStream := 0, pos := 10000000000, gen := 0 })).length = 21 := by decide +kernel

theorem get_set (m : XMap) (n : Nat) (e : XEntry) (j : Nat) :
    (m.set n e).get j = if j = n then some e else m.get j := by
  simp only [XMap.get, XMap.set, List.lookup_cons]
  by_cases h : j = n
  · simp [h]
  · have : (j == n) = false := by simp [h]
    simp [h, this]

/-- reading one well-formed line when the number is still unset and no repair applies -/
theorem decode_tabLine (m : XMap) (p g c : Nat) (rest : Bytes) (i k : Nat)
    (hp : p < 10000000000) (hg : g ≤ 65535) (hc : c = 102 ∨ c = 110) (hm : m.get i = none) :
    decodeXRefSection 0 m (tabLine p g c ++ rest) i 0 (k + 1) =
      decodeXRefSection 0 (m.set i (if c = 102 then { inStream := 0, pos := -1, gen := g }
                                     else { inStream := 0, pos := (p : Int), gen := g })) rest (i + 1) 0 k := by
  have hlen := tabLine_length p g c
  have htake : (tabLine p g c ++ rest).take 20 = tabLine p g c := List.take_left' hlen
  have hdrop : (tabLine p g c ++ rest).drop 20 = rest := List.drop_left' hlen
  have h10 : (tabLine p g c).take 10 = fixDec 10 p := by
    simp only [tabLine, List.append_assoc]
    exact List.take_left' (fixDec_length 10 p)
  have h5 : ((tabLine p g c).drop 11).take 5 = fixDec 5 g := by
    have : tabLine p g c = (fixDec 10 p ++ [32]) ++ (fixDec 5 g ++ [32, c, 13, 10]) := by
      simp [tabLine]
    rw [this, List.drop_left' (by simp [fixDec_length])]
    exact List.take_left' (fixDec_length 5 g)
  have h17 : (tabLine p g c).getD 17 0 = c := by
    have : tabLine p g c = (fixDec 10 p ++ [32] ++ fixDec 5 g ++ [32]) ++ [c, 13, 10] := by
      simp [tabLine]
    rw [this, List.getD_eq_getElem?_getD, List.getElem?_append_right (by simp [fixDec_length])]
    simp [fixDec_length]
  have h19 : (tabLine p g c).getD 19 0 = 10 := by
    have : tabLine p g c = (fixDec 10 p ++ [32] ++ fixDec 5 g ++ [32, c, 13]) ++ [10] := by
      simp [tabLine]
    rw [this, List.getD_eq_getElem?_getD, List.getElem?_append_right (by simp [fixDec_length])]
    simp [fixDec_length]
  have hpi := parseInt64_fixDec 10 p (by omega) (by omega) (by omega)
  have hgi := parseUint16_fixDec g hg
  rw [decodeXRefSection]
  simp only [hm, htake, hlen, h10, hpi, h5, hgi, h17, h19]
  rcases hc with hc | hc <;> subst hc <;> simp [hdrop]

/-- what a reader sees for a number after decoding the writer's table -/
def normTab : Option XEntry → XEntry
  | some e => if e.pos ≥ 0 then { inStream := 0, pos := e.pos, gen := e.gen }
              else { inStream := 0, pos := -1, gen := Gen.fio_maxGeneration }
  | none => { inStream := 0, pos := -1, gen := Gen.fio_maxGeneration }

theorem xref_section_rt_aux (m : XMap) (rest : Bytes) (k : Nat) :
    ∀ (i : Nat) (acc : XMap),
    (∀ j, i ≤ j → j < i + k → ∀ x, m.get j = some x → x.pos < 10000000000 ∧ x.gen ≤ 65535) →
    (∀ j, i ≤ j → acc.get j = none) →
    ∃ m', decodeXRefSection 0 acc (xrefLines m i k ++ rest) i 0 k = .ok (m', rest) ∧
      (∀ j, j < i → m'.get j = acc.get j) ∧
      (∀ j, i ≤ j → j < i + k → m'.get j = some (normTab (m.get j))) ∧
      (∀ j, i + k ≤ j → m'.get j = none) := by
  induction k with
  | zero =>
    intro i acc _ hacc
    exact ⟨acc, by simp [xrefLines, decodeXRefSection], fun _ _ => rfl, fun j h1 h2 => by omega,
      fun j h => hacc j (by omega)⟩
  | succ k ih =>
    intro i acc hok hacc
    -- the entry written for number i
    let ent : XEntry := normTab (m.get i)
    have hstep : decodeXRefSection 0 acc (xrefLines m i (k + 1) ++ rest) i 0 (k + 1) =
        decodeXRefSection 0 (acc.set i ent) (xrefLines m (i + 1) k ++ rest) (i + 1) 0 k := by
      simp only [xrefLines, List.append_assoc]
      cases hget : m.get i with
      | none =>
        rw [xrefLine_eq none (by simp)]
        simp only
        rw [decode_tabLine acc 0 Gen.fio_maxGeneration 102 _ i k (by omega) (by decide) (.inl rfl) (hacc i (by omega))]
        simp [ent, normTab, hget]
      | some x =>
        obtain ⟨hp, hg⟩ := hok i (by omega) (by omega) x hget
        rw [xrefLine_eq (some x) (by intro y hy; cases hy; exact ⟨hp, hg⟩)]
        simp only
        split
        · rename_i hpos
          rw [decode_tabLine acc x.pos.toNat x.gen 110 _ i k (by omega) hg (.inr rfl) (hacc i (by omega))]
          have : ((x.pos.toNat : Nat) : Int) = x.pos := Int.toNat_of_nonneg hpos
          simp [ent, normTab, hget, hpos, this]
        · rename_i hpos
          rw [decode_tabLine acc 0 Gen.fio_maxGeneration 102 _ i k (by omega) (by decide) (.inl rfl) (hacc i (by omega))]
          simp [ent, normTab, hget, hpos]
    obtain ⟨m', h1, h2, h3, h4⟩ := ih (i + 1) (acc.set i ent)
      (fun j hj1 hj2 => hok j (by omega) (by omega))
      (fun j hj => by rw [get_set]; simp [show j ≠ i by omega]; exact hacc j (by omega))
    refine ⟨m', by rw [hstep, h1], ?_, ?_, ?_⟩
    · intro j hj
      rw [h2 j (by omega), get_set]; simp [show j ≠ i by omega]
    · intro j hj1 hj2
      by_cases hji : j = i
      · subst hji; rw [h2 j (by omega), get_set]; simp [ent]
      · exact h3 j (by omega) (by omega)
    · intro j hj; exact h4 j (by omega)

/-- **xref_table_rt.**  For every table (any mix of unwritten, free and in-use numbers, any
offsets below 10^10 and generations ≤ 65535) `decodeXRefSection` applied to the lines printed
by `writeXRefTable` consumes exactly those lines and yields, for every number below `n`, the
entry written (free for unwritten/free numbers) and nothing else. -/
theorem xref_table_rt (m : XMap) (n : Nat) (rest : Bytes)
    (hok : ∀ j, j < n → ∀ x, m.get j = some x → x.pos < 10000000000 ∧ x.gen ≤ 65535) :
    ∃ m', decodeXRefSection 0 [] (xrefLines m 0 n ++ rest) 0 0 n = .ok (m', rest) ∧
      (∀ j, j < n → m'.get j = some (normTab (m.get j))) ∧
      (∀ j, n ≤ j → m'.get j = none) := by
  obtain ⟨m', h1, _, h3, h4⟩ := xref_section_rt_aux m rest n 0 []
    (fun j _ hj x hx => hok j (by omega) x hx) (fun j _ => rfl)
  exact ⟨m', h1, fun j hj => h3 j (by omega) (by omega), fun j hj => h4 j (by omega)⟩

-- non-vacuity: a table with an unwritten, a free and two in-use numbers
example :
    (match decodeXRefSection 0 []
        (xrefLines [(0, ⟨0, -1, 65535⟩), (2, ⟨0, 9999999999, 65535⟩), (3, ⟨0, 17, 0⟩)] 0 4 ++ [116]) 0 0 4 with
     | .ok (m', rest) => m'.get 2 == some ⟨0, 9999999999, 65535⟩ && m'.get 1 == some ⟨0, -1, 65535⟩ && rest == [116]
     | _ => false) = true := by decide +kernel

/-- the table form is refused exactly when a number below `nextRef` lives in an object stream, or
    an object starts at byte 10^10 or later (an entry has ten digits for the offset) -/
theorem xrefTableBody_isSome (m : XMap) (n : Nat) :
    (xrefTableBody m n).isSome =
      (!hasInStream m n && !m.any (fun ne => ne.2.inStream == 0 && decide (ne.2.pos > 9999999999))) := by
  unfold xrefTableBody; split <;> (try split) <;> simp_all <;> assumption


/-! ## cross-reference streams: `decodeXRefStream ∘ rows`, PNG-Up rows, widths -/

theorem u64_of_nonneg (p : Int) (h0 : 0 ≤ p) (h1 : p < (two63 : Int)) : u64 p = p.toNat := by
  unfold u64
  rw [Int.emod_eq_of_lt h0 (by unfold two64; unfold two63 at h1; omega)]

theorem decodeInt_byte (t : Nat) (ht : t < 256) : decodeInt [t] = some t := by
  have h1 : beVal [t] 0 % two64 = t := by
    simp only [beVal]; simp; exact Nat.mod_eq_of_lt (by unfold two64; omega)
  simp only [decodeInt, h1]
  have : ¬ (t ≥ two63) := by unfold two63; omega
  simp [this]

theorem row_split (t : Nat) (A B : Bytes) (w2 w3 : Nat) (hA : A.length = w2) (hB : B.length = w3) :
    ([t] ++ A ++ B).take 1 = [t] ∧ (([t] ++ A ++ B).drop 1).take w2 = A ∧
    (([t] ++ A ++ B).drop (1 + w2)).take w3 = B := by
  refine ⟨by simp, ?_, ?_⟩
  · simp only [List.singleton_append]
    exact List.take_left' hA
  · have : [t] ++ A ++ B = ([t] ++ A) ++ B := rfl
    rw [this, List.drop_left' (by simp [hA]; omega), ← hB]
    exact List.take_length

/-- what `decodeXRefStream` yields for a number whose row was written by `writeXRefStream`
    with a third field of `w3` bytes -/
def normStm (w3 : Nat) : Option XEntry → XEntry
  | none => { inStream := 0, pos := -1, gen := 0 }
  | some e =>
    if e.pos < 0 then { inStream := 0, pos := -1, gen := e.gen % 256 ^ w3 }
    else if e.inStream = 0 then { inStream := 0, pos := e.pos, gen := e.gen }
    else { inStream := e.inStream, pos := e.pos, gen := 0 }

/-- the entry can be represented with fields of `w2` and `w3` bytes -/
def Fits (w2 w3 : Nat) : Option XEntry → Prop
  | none => True
  | some e =>
    e.gen ≤ 65535 ∧
    (e.pos < 0 ∨ (e.pos < (two63 : Int) ∧
      (if e.inStream = 0 then e.pos.toNat < 256 ^ w2 ∧ e.gen < 256 ^ w3
       else e.inStream < 256 ^ w2 ∧ e.inStream < Gen.fio_maxXRefSize ∧ e.pos.toNat < 256 ^ w3)))

theorem xrefRow_length (w2 w3 : Nat) (e : Option XEntry) : (xrefRow w2 w3 e).length = 1 + w2 + w3 := by
  unfold xrefRow
  split
  simp [encodeInt64_length]
  omega

/-- one row written by the writer decodes to the entry it was made from -/
theorem decodeRow_xrefRow (w2 w3 : Nat) (e : Option XEntry) (hw3 : w3 ≤ 8) (hf : Fits w2 w3 e) :
    decodeRowEntry 1 w2 w3 (xrefRow w2 w3 e) = some (normStm w3 e) := by
  have key : ∀ t a b a' b', t < 3 → decodeInt (encodeInt64 a w2) = some a' → decodeInt (encodeInt64 b w3) = some b' →
      decodeRowEntry 1 w2 w3 ([t] ++ encodeInt64 a w2 ++ encodeInt64 b w3) =
        (if t = 0 then (if b' > Gen.fio_maxGeneration then none else some { inStream := 0, pos := -1, gen := b' })
         else if t = 1 then (if b' > Gen.fio_maxGeneration then none else some { inStream := 0, pos := (a' : Int), gen := b' })
         else (if a' ≥ Gen.fio_maxXRefSize then none else some { inStream := a', pos := (b' : Int), gen := 0 })) := by
    intro t a b a' b' ht ha hb
    obtain ⟨h1, h2, h3⟩ := row_split t _ _ w2 w3 (encodeInt64_length a w2) (encodeInt64_length b w3)
    unfold decodeRowEntry
    rw [h1, h2, h3, decodeInt_byte t (by omega), ha, hb]
    have h10 : ((1 : Nat) == 0) = false := rfl
    simp only [h10]
    rcases (by omega : t = 0 ∨ t = 1 ∨ t = 2) with rfl | rfl | rfl <;> simp
  cases e with
  | none =>
    have h0 : ∀ w, decodeInt (encodeInt64 0 w) = some 0 := fun w =>
      decodeInt_encodeInt64 0 w (Nat.pow_pos (by omega)) (by unfold two63; omega)
    simp only [xrefRow, rowFields]
    rw [key 0 0 0 0 0 (by omega) (h0 w2) (h0 w3)]
    simp [normStm, Gen.fio_maxGeneration]
  | some x =>
    obtain ⟨hg, hrest⟩ := hf
    have h0 : ∀ w, decodeInt (encodeInt64 0 w) = some 0 := fun w =>
      decodeInt_encodeInt64 0 w (Nat.pow_pos (by omega)) (by unfold two63; omega)
    by_cases hneg : x.pos < 0
    · have hgm : x.gen % 256 ^ w3 ≤ x.gen := Nat.mod_le _ _
      have hb := decodeInt_encodeInt64_trunc x.gen w3 (by unfold two63; omega) hw3
      simp only [xrefRow, rowFields, hneg, ↓reduceIte]
      rw [key 0 0 x.gen 0 _ (by omega) (h0 w2) hb]
      have : ¬ (x.gen % 256 ^ w3 > Gen.fio_maxGeneration) := by simp [Gen.fio_maxGeneration]; omega
      simp [normStm, hneg, this]
    · rcases hrest with hp | ⟨hp63, hcase⟩
      · exact absurd hp hneg
      · have hp0 : 0 ≤ x.pos := by omega
        have hu := u64_of_nonneg x.pos hp0 hp63
        have hcast : ((x.pos.toNat : Nat) : Int) = x.pos := Int.toNat_of_nonneg hp0
        have hpn : x.pos.toNat < two63 := by omega
        by_cases hin : x.inStream = 0
        · simp only [hin, ↓reduceIte] at hcase
          have ha := decodeInt_encodeInt64 x.pos.toNat w2 hcase.1 hpn
          have hb := decodeInt_encodeInt64 x.gen w3 hcase.2 (by unfold two63; omega)
          have hbeq : (x.inStream == 0) = true := by simp [hin]
          simp only [xrefRow, rowFields, hneg, ↓reduceIte, hbeq, hu]
          rw [key 1 _ _ _ _ (by omega) ha hb]
          have : ¬ (x.gen > Gen.fio_maxGeneration) := by simp [Gen.fio_maxGeneration]; omega
          simp [normStm, hneg, hin, this, hcast]
        · simp only [hin, ↓reduceIte] at hcase
          have ha := decodeInt_encodeInt64 x.inStream w2 hcase.1 (by
            have := hcase.2.1; unfold two63; simp [Gen.fio_maxXRefSize] at this; omega)
          have hb := decodeInt_encodeInt64 x.pos.toNat w3 hcase.2.2 hpn
          have hbeq : (x.inStream == 0) = false := by simp [hin]
          simp only [xrefRow, rowFields, hneg, ↓reduceIte, hbeq, hu, Bool.false_eq_true]
          rw [key 2 _ _ _ _ (by omega) ha hb]
          have : ¬ (x.inStream ≥ Gen.fio_maxXRefSize) := by have := hcase.2.1; omega
          simp [normStm, hneg, hin, this, hcast]

theorem xref_rows_rt_aux (m : XMap) (w2 w3 : Nat) (hw3 : w3 ≤ 8) (rest : Bytes) (k : Nat) :
    ∀ (i : Nat) (acc : XMap),
    (∀ j, i ≤ j → j < i + k → Fits w2 w3 (m.get j)) →
    (∀ j, i ≤ j → acc.get j = none) →
    ∃ m', decodeXRefRows 1 w2 w3 acc ((xrefRows m w2 w3 i k).flatten ++ rest) i k = .ok (m', rest) ∧
      (∀ j, j < i → m'.get j = acc.get j) ∧
      (∀ j, i ≤ j → j < i + k → m'.get j = some (normStm w3 (m.get j))) ∧
      (∀ j, i + k ≤ j → m'.get j = none) := by
  induction k with
  | zero =>
    intro i acc _ hacc
    exact ⟨acc, by simp [xrefRows, decodeXRefRows], fun _ _ => rfl, fun j h1 h2 => by omega,
      fun j h => hacc j (by omega)⟩
  | succ k ih =>
    intro i acc hok hacc
    have hlen := xrefRow_length w2 w3 (m.get i)
    have hstep : decodeXRefRows 1 w2 w3 acc ((xrefRows m w2 w3 i (k + 1)).flatten ++ rest) i (k + 1) =
        decodeXRefRows 1 w2 w3 (acc.set i (normStm w3 (m.get i))) ((xrefRows m w2 w3 (i + 1) k).flatten ++ rest) (i + 1) k := by
      simp only [xrefRows, List.flatten_cons, List.append_assoc]
      rw [decodeXRefRows]
      have h1 : ¬ ((xrefRow w2 w3 (m.get i) ++ ((xrefRows m w2 w3 (i + 1) k).flatten ++ rest)).length < 1 + w2 + w3) := by
        simp [hlen]
      simp only [h1, ↓reduceIte, List.take_left' hlen, List.drop_left' hlen, hacc i (by omega),
        decodeRow_xrefRow w2 w3 (m.get i) hw3 (hok i (by omega) (by omega))]
    obtain ⟨m', h1, h2, h3, h4⟩ := ih (i + 1) (acc.set i (normStm w3 (m.get i)))
      (fun j hj1 hj2 => hok j (by omega) (by omega))
      (fun j hj => by rw [get_set]; simp [show j ≠ i by omega]; exact hacc j (by omega))
    refine ⟨m', by rw [hstep, h1], ?_, ?_, ?_⟩
    · intro j hj
      rw [h2 j (by omega), get_set]; simp [show j ≠ i by omega]
    · intro j hj1 hj2
      by_cases hji : j = i
      · subst hji; rw [h2 j (by omega), get_set]; simp
      · exact h3 j (by omega) (by omega)
    · intro j hj; exact h4 j (by omega)

/-! ### the widths chosen by `writeXRefStream` -/

theorem maxFields_ge (m : XMap) (k : Nat) : ∀ i j, i ≤ j → j < i + k →
    (sizingFields (m.get j)).1 ≤ (maxFields m i k).1 ∧ (sizingFields (m.get j)).2 ≤ (maxFields m i k).2 := by
  induction k with
  | zero => intro i j h1 h2; omega
  | succ k ih =>
    intro i j h1 h2
    simp only [maxFields]
    by_cases hji : j = i
    · subst hji
      constructor <;> exact Nat.le_max_left _ _
    · have := ih (i + 1) j (by omega) (by omega)
      constructor
      · exact Nat.le_trans this.1 (Nat.le_max_right _ _)
      · exact Nat.le_trans this.2 (Nat.le_max_right _ _)

/-- what the writer can be asked to record (bounds of the Go types and of `Alloc`) -/
def EntryOK : Option XEntry → Prop
  | none => True
  | some e => e.gen ≤ 65535 ∧ e.pos < (two63 : Int) ∧ e.inStream < Gen.fio_maxXRefSize ∧
      (e.inStream ≠ 0 → 0 ≤ e.pos)

/-- **W widths are sufficient**: with the widths computed by `writeXRefStream` every entry below
`nextRef` fits its fields.  (For free entries only the generation is written, through
`normStm`'s truncation: the sizing loop counts generation 65535 as 0 — see notes/C02.md.) -/
theorem w_widths_sufficient (m : XMap) (n : Nat) (hok : ∀ j, j < n → EntryOK (m.get j)) :
    ∀ j, j < n → Fits (fieldWidth (maxFields m 0 n).1) (fieldWidth (maxFields m 0 n).2) (m.get j) := by
  intro j hj
  have hge := maxFields_ge m n 0 j (by omega) (by omega)
  have hj' := hok j hj
  cases hget : m.get j with
  | none => trivial
  | some x =>
    rw [hget] at hge hj'
    obtain ⟨hg, hp63, hins, hinpos⟩ := hj'
    refine ⟨hg, ?_⟩
    by_cases hneg : x.pos < 0
    · exact .inl hneg
    · right
      have hp0 : 0 ≤ x.pos := by omega
      have hu := u64_of_nonneg x.pos hp0 hp63
      refine ⟨hp63, ?_⟩
      by_cases hin : x.inStream = 0
      · have hb : (x.inStream != 0) = false := by simp [hin]
        simp only [sizingFields, hb, hp0, ↓reduceIte, hu] at hge
        simp only [hin, ↓reduceIte]
        exact ⟨fieldWidth_holds hge.1, fieldWidth_holds hge.2⟩
      · have hb : (x.inStream != 0) = true := by simp [hin]
        simp only [sizingFields, hb, ↓reduceIte, hu] at hge
        simp only [hin, ↓reduceIte]
        exact ⟨fieldWidth_holds hge.1, hins, fieldWidth_holds hge.2⟩

theorem maxFields_lt_two64 (m : XMap) (k : Nat) : ∀ i,
    (∀ j, i ≤ j → j < i + k → EntryOK (m.get j)) →
    (maxFields m i k).1 < two64 ∧ (maxFields m i k).2 < two64 := by
  induction k with
  | zero => intro i _; simp [maxFields, two64]
  | succ k ih =>
    intro i hok
    have h1 := ih (i + 1) (fun j a b => hok j (by omega) (by omega))
    have h0 : (sizingFields (m.get i)).1 < two64 ∧ (sizingFields (m.get i)).2 < two64 := by
      have := hok i (by omega) (by omega)
      cases hget : m.get i with
      | none => simp [sizingFields, two64]
      | some x =>
        rw [hget] at this
        obtain ⟨hg, hp63, hins, _⟩ := this
        have hu : u64 x.pos < two64 := by
          unfold u64
          have := Int.emod_lt_of_pos x.pos (show (0 : Int) < (two64 : Int) by unfold two64; omega)
          have h0 := Int.emod_nonneg x.pos (show ((two64 : Nat) : Int) ≠ 0 by unfold two64; omega)
          omega
        simp only [sizingFields]
        split
        · exact ⟨by simp [Gen.fio_maxXRefSize] at hins; unfold two64; omega, hu⟩
        · split
          · exact ⟨hu, by unfold two64; omega⟩
          · constructor
            · unfold two64; omega
            · unfold two64; omega
    simp only [maxFields]
    exact ⟨Nat.max_lt.2 ⟨h0.1, h1.1⟩, Nat.max_lt.2 ⟨h0.2, h1.2⟩⟩

/-- **xref_stream_rt.**  For every table whose entries respect the bounds of the Go types, with
the widths `W = [1 w2 w3]` chosen by `writeXRefStream` (any of 0–8): `decodeXRefStream` applied to
the rows written for the numbers `0 … n-1` consumes exactly these rows and yields for every
number the entry written — in-use and compressed entries exactly, unwritten numbers as free
entries with generation 0, free entries with their generation reduced to `w3` bytes — and
nothing else. -/
theorem xref_stream_rt (m : XMap) (n : Nat) (hok : ∀ j, j < n → EntryOK (m.get j)) :
    let w2 := fieldWidth (maxFields m 0 n).1
    let w3 := fieldWidth (maxFields m 0 n).2
    w2 ≤ 8 ∧ w3 ≤ 8 ∧
    ∃ m', decodeXRefStream 1 w2 w3 [] (xrefRows m w2 w3 0 n).flatten [(0, n)] = .ok m' ∧
      (∀ j, j < n → m'.get j = some (normStm w3 (m.get j))) ∧
      (∀ j, n ≤ j → m'.get j = none) := by
  intro w2 w3
  obtain ⟨hm1, hm2⟩ := maxFields_lt_two64 m n 0 (fun j _ hj => hok j (by omega))
  have hw2 : w2 ≤ 8 := fieldWidth_le_8 _ hm1
  have hw3 : w3 ≤ 8 := fieldWidth_le_8 _ hm2
  refine ⟨hw2, hw3, ?_⟩
  obtain ⟨m', h1, _, h3, h4⟩ := xref_rows_rt_aux m w2 w3 hw3 [] n 0 []
    (fun j _ hj => w_widths_sufficient m n hok j (by omega)) (fun _ _ => rfl)
  refine ⟨m', ?_, fun j hj => h3 j (by omega) (by omega), fun j hj => h4 j (by omega)⟩
  simp only [List.append_nil] at h1
  simp [decodeXRefStream, h1]

/-- **free entries keep their generation.**  With the widths chosen by `writeXRefStream` the third
field is wide enough for the generation of every free entry — in particular for the 65535 of
object 0, which needs two bytes (ISO 32000, 7.5.4 and 7.5.8.3): the entry decodes with exactly the
generation written.  (Before the library fix the sizing loop counted 65535 as 0 and the entry of
object 0 was written as 0, 255 or 65535 depending on the other entries.) -/
theorem xref_stream_free_gen_exact (m : XMap) (n j : Nat) (hj : j < n) (e : XEntry)
    (hm : m.get j = some e) (hneg : e.pos < 0) (hin : e.inStream = 0) :
    normStm (fieldWidth (maxFields m 0 n).2) (some e) = { inStream := 0, pos := -1, gen := e.gen } := by
  have hge := (maxFields_ge m n 0 j (by omega) (by omega)).2
  rw [hm] at hge
  have hsz : (sizingFields (some e)).2 = e.gen := by
    have hp : ¬ (e.pos ≥ 0) := by omega
    simp [sizingFields, hin, hp]
  rw [hsz] at hge
  have hlt := fieldWidth_holds hge
  simp [normStm, hneg, Nat.mod_eq_of_lt hlt]

-- non-vacuity: a table with unwritten, free, in-use and compressed entries (W = [1 3 2]: the
-- generation 65535 of object 0 needs two bytes)
example :
    (let m : XMap := [(0, ⟨0, -1, 65535⟩), (2, ⟨0, 70000, 0⟩), (3, ⟨5, 7, 0⟩), (5, ⟨0, 300, 1⟩)]
     let w2 := fieldWidth (maxFields m 0 6).1
     let w3 := fieldWidth (maxFields m 0 6).2
     match decodeXRefStream 1 w2 w3 [] (xrefRows m w2 w3 0 6).flatten [(0, 6)] with
     | .ok m' => w2 == 3 && w3 == 2 && m'.get 3 == some ⟨5, 7, 0⟩ && m'.get 2 == some ⟨0, 70000, 0⟩ &&
                 m'.get 1 == some ⟨0, -1, 0⟩ && m'.get 0 == some ⟨0, -1, 65535⟩
     | _ => false) = true := by decide +kernel


/-! ### PNG-Up predictor rows -/

theorem pngRowDec_up (row : Bytes) : ∀ (prev : Bytes) (left ul : Nat), row.length = prev.length → AllBytes row →
    pngRowDec 2 left ul (List.zipWith (fun x p => (x + 256 - p % 256) % 256) row prev) prev = row := by
  induction row with
  | nil => intro prev left ul _ _; simp [pngRowDec]
  | cons x xs ih =>
    intro prev left ul hl hb
    cases prev with
    | nil => simp at hl
    | cons p ps =>
      have hx : x < 256 := by simp [AllBytes] at hb; exact hb.1
      have hxs : AllBytes xs := by simp [AllBytes] at hb ⊢; exact hb.2
      simp only [List.zipWith_cons_cons, pngRowDec, List.headD_cons, List.tail_cons]
      have h2 : ((2 : Nat) == 1) = false := rfl
      have h3 : ((2 : Nat) == 2) = true := rfl
      simp only [h2, h3, Bool.false_eq_true, ↓reduceIte]
      have : ((x + 256 - p % 256) % 256 + p) % 256 = x := by omega
      rw [this, ih ps _ _ (by simpa using hl) hxs]

theorem pngDec_up (cols : Nat) (rows : List Bytes) : ∀ (prev : Bytes) (fuel : Nat),
    prev.length = cols → (∀ r ∈ rows, r.length = cols ∧ AllBytes r) →
    fuel ≥ (pngUpEnc prev rows).length + 1 →
    pngDec cols fuel prev (pngUpEnc prev rows) = .ok rows.flatten := by
  induction rows with
  | nil =>
    intro prev fuel _ _ hf
    cases fuel with
    | zero => simp at hf
    | succ f => simp [pngUpEnc, pngDec]
  | cons row rest ih =>
    intro prev fuel hp hr hf
    obtain ⟨hrl, hrb⟩ := hr row (by simp)
    cases fuel with
    | zero => simp at hf
    | succ f =>
      have hz : (List.zipWith (fun x p => (x + 256 - p % 256) % 256) row prev).length = cols := by
        simp [hrl, hp]
      simp only [pngUpEnc, upRow, List.cons_append, pngDec]
      have h1 : ¬ ((List.zipWith (fun x p => (x + 256 - p % 256) % 256) row prev ++ pngUpEnc row rest).length < cols) := by
        simp [hz]
      simp only [h1, ↓reduceIte, List.take_left' hz, List.drop_left' hz]
      rw [pngRowDec_up row prev 0 0 (by rw [hrl, hp]) hrb]
      rw [ih row f hrl (fun r hr' => hr r (by simp [hr'])) (by
        simp only [pngUpEnc, upRow, List.length_cons, List.length_append] at hf; omega)]
      simp

theorem xrefRow_bytes (w2 w3 : Nat) (e : Option XEntry) : AllBytes (xrefRow w2 w3 e) := by
  unfold xrefRow
  split
  rename_i t a b heq
  have ht : t < 256 := by
    unfold rowFields at heq
    split at heq
    · cases heq; omega
    · split at heq
      · cases heq; omega
      · split at heq <;> (cases heq; omega)
  rw [allBytes_append, allBytes_append]
  exact ⟨⟨by simp [AllBytes, ht], encodeInt64_bytes a w2⟩, encodeInt64_bytes b w3⟩

theorem xrefRows_mem (m : XMap) (w2 w3 : Nat) (k : Nat) : ∀ i, ∀ r ∈ xrefRows m w2 w3 i k,
    r.length = 1 + w2 + w3 ∧ AllBytes r := by
  induction k with
  | zero => intro i r hr; simp [xrefRows] at hr
  | succ k ih =>
    intro i r hr
    simp only [xrefRows, List.mem_cons] at hr
    rcases hr with rfl | hr
    · exact ⟨xrefRow_length _ _ _, xrefRow_bytes _ _ _⟩
    · exact ih (i + 1) r hr

/-- **PNG-Up rows.**  Undoing the predictor on what `writeXRefStream` hands to zlib gives back
the rows (so `inflate ∘ deflate = id` is the only assumption between `xrefStreamPayload` and
`xref_stream_rt`). -/
theorem xref_payload_undo (m : XMap) (n : Nat) :
    let p := xrefStreamPayload m n
    pngUndo (1 + p.1 + p.2.1) p.2.2 = .ok (xrefRows m p.1 p.2.1 0 n).flatten := by
  simp only [xrefStreamPayload, pngUndo]
  exact pngDec_up _ _ _ _ (by simp) (xrefRows_mem m _ _ n 0) (by omega)

end PdfVerif.C02fio

import PdfVerif.Model.FAAsciiHex
import PdfVerif.Model.FAAscii85
import PdfVerif.Model.FARunLength
import PdfVerif.Model.FALZW
/-!
# C08 (part A) — the byte-codec decoders on arbitrary input

For every byte string (no assumption at all on the input, not even `< 256`):
* **totality / error typing**: the decoder ends with a clean end of data or with `malformed`,
  never with another class (in particular the LZW model's internal `other` — prefix chain
  leaves the table or does not end — is unreachable);
* **output bounds**: `2·|out| ≤ |in|` (ASCIIHex), `|out| ≤ 4·|in|` (ASCII85),
  `|out| ≤ 128·|in|` (RunLength), `9·|out| ≤ 4096·8·|in|` (LZW: fewer than 4096 bytes per code,
  at least 9 bits per code).
The decoders are structurally recursive on their input, so termination is by construction;
the one loop of the Go code without a syntactic bound (`for c >= clear` in the LZW reader) is
covered by `lzw_expand_fuel`.
-/
namespace PdfVerif.C08fa
open PdfVerif PdfVerif.FA

/-- a decoder result is well-typed: end of data or a malformed-input error -/
def Typed (r : DecRes) : Prop := r.2 = none ∨ r.2 = some .malformed

theorem typed_pre (a : Bytes) (r : DecRes) : Typed (DecRes.pre a r) ↔ Typed r := by
  simp [Typed, DecRes.pre]

/-! ## ASCIIHex -/

theorem asciihex_total (s : Bytes) : ∀ high, Typed (AsciiHex.dec high s) := by
  induction s with
  | nil => intro high; simp [AsciiHex.dec, Typed]
  | cons c cs ih =>
    intro high
    unfold AsciiHex.dec
    split
    · split
      · rw [typed_pre]; exact ih _
      · exact ih _
    · split
      · exact ih _
      · split
        · split <;> simp [Typed]
        · simp [Typed]

theorem asciihex_out_aux (s : Bytes) : ∀ high,
    2 * (AsciiHex.dec high s).1.length ≤ s.length + (if high.isSome then 1 else 0) := by
  induction s with
  | nil => intro high; simp [AsciiHex.dec]
  | cons c cs ih =>
    intro high
    unfold AsciiHex.dec
    split
    · split
      · have := ih none
        simp [DecRes.pre] at this ⊢; omega
      · have := ih (some ‹Nat›)
        simp at this ⊢; omega
    · split
      · have := ih high
        simp only [List.length_cons]; omega
      · split
        · split <;> simp
        · simp

/-- **ASCIIHex output bound**: at most one byte per two input characters. -/
theorem asciihex_out (s : Bytes) : 2 * (AsciiHex.decode s).1.length ≤ s.length := by
  have := asciihex_out_aux s none
  simpa [AsciiHex.decode] using this

theorem asciihex_decode_total (s : Bytes) : Typed (AsciiHex.decode s) := asciihex_total s none

/-! ## ASCII85 -/

theorem ascii85_decEnd_typed (s : Bytes) : Typed (Ascii85.decEnd s) ∧ (Ascii85.decEnd s).1 = [] := by
  cases s with
  | nil => simp [Ascii85.decEnd, Typed]
  | cons c cs =>
    simp only [Ascii85.decEnd]
    split <;> simp [Typed]

theorem ascii85_total (s : Bytes) : ∀ v k, Typed (Ascii85.dec v k s) := by
  induction s with
  | nil => intro v k; simp [Ascii85.dec, Typed]
  | cons c cs ih =>
    intro v k
    unfold Ascii85.dec
    split
    · split
      · rw [typed_pre]; exact ih _ _
      · exact ih _ _
    · split
      · rw [typed_pre]; exact ih _ _
      · split
        · exact ih _ _
        · split
          · split
            · exact (ascii85_decEnd_typed cs).1
            · split
              · simp [Typed]
              · rw [typed_pre]; exact (ascii85_decEnd_typed cs).1
          · simp [Typed]

theorem bytes4_length (v : Nat) : (Ascii85.bytes4 v).length = 4 := rfl

/-- **ASCII85 output bound**: at most four bytes per input character (`z`). -/
theorem ascii85_out_aux (s : Bytes) : ∀ v k, (Ascii85.dec v k s).1.length ≤ 4 * s.length := by
  induction s with
  | nil => intro v k; simp [Ascii85.dec]
  | cons c cs ih =>
    intro v k
    unfold Ascii85.dec
    split
    · split
      · have := ih 0 0
        simp [DecRes.pre, bytes4_length] at this ⊢; omega
      · have := ih ((v * Gen.a85_ascii85Reader_Read_base + (c - Gen.a85_ascii85Reader_Read_bang)) % Ascii85.u32) (k + 1)
        simp only [List.length_cons]; omega
    · split
      · have := ih 0 0
        simp [DecRes.pre, bytes4_length] at this ⊢; omega
      · split
        · have := ih v k
          simp only [List.length_cons]; omega
        · split
          · split
            · rw [(ascii85_decEnd_typed cs).2]; simp
            · split
              · simp
              · simp only [DecRes.pre, (ascii85_decEnd_typed cs).2, List.append_nil, List.length_take, bytes4_length,
                  List.length_cons]
                omega
          · simp

theorem ascii85_out (s : Bytes) : (Ascii85.decode s).1.length ≤ 4 * s.length := ascii85_out_aux s 0 0

theorem ascii85_decode_total (s : Bytes) : Typed (Ascii85.decode s) := ascii85_total s 0 0

/-! ## RunLength -/

theorem runlength_total (s : Bytes) : ∀ st, Typed (RunLength.dec st s) := by
  induction s with
  | nil =>
    intro st
    cases st with
    | len => simp [RunLength.dec, Typed]
    | lit n fresh => cases fresh <;> simp [RunLength.dec, Typed]
    | rep n => simp [RunLength.dec, Typed]
  | cons c cs ih =>
    intro st
    cases st with
    | len =>
      unfold RunLength.dec
      split
      · simp [Typed]
      · split <;> exact ih _
    | lit n fresh =>
      unfold RunLength.dec
      rw [typed_pre]; split <;> exact ih _
    | rep n =>
      unfold RunLength.dec
      rw [typed_pre]; exact ih _

/-- the state's pending repeat count is one the reader can have computed (`257 − length`) -/
def RlStOK : RunLength.R → Prop
  | .rep n => n ≤ 128
  | _ => True

theorem runlength_out_aux (s : Bytes) : ∀ st, RlStOK st → (RunLength.dec st s).1.length ≤ 128 * s.length := by
  induction s with
  | nil =>
    intro st _
    cases st with
    | len => simp [RunLength.dec]
    | lit n fresh => cases fresh <;> simp [RunLength.dec]
    | rep n => simp [RunLength.dec]
  | cons c cs ih =>
    intro st hst
    cases st with
    | len =>
      unfold RunLength.dec
      split
      · simp
      · split
        · have := ih (.lit (c + Gen.rl_rlReader_Read_litBias) true) trivial
          simp only [List.length_cons]; omega
        · have := ih (.rep (Gen.rl_rlReader_Read_repBase - c)) (by
            simp only [RlStOK, Gen.rl_rlReader_Read_repBase]
            rename_i h1 h2
            simp only [Gen.rl_rlReader_Read_eod, Gen.rl_rlReader_Read_litBound, beq_iff_eq] at h1 h2
            omega)
          simp only [List.length_cons]; omega
    | lit n fresh =>
      unfold RunLength.dec
      split
      · have := ih .len trivial
        simp [DecRes.pre] at this ⊢; omega
      · have := ih (.lit (n - 1) false) trivial
        simp [DecRes.pre] at this ⊢; omega
    | rep n =>
      unfold RunLength.dec
      have := ih .len trivial
      simp only [RlStOK] at hst
      simp [DecRes.pre] at this ⊢; omega

/-- **RunLength output bound**: at most 128 bytes per input byte. -/
theorem runlength_out (s : Bytes) : (RunLength.decode s).1.length ≤ 128 * s.length :=
  runlength_out_aux s .len trivial

theorem runlength_decode_total (s : Bytes) : Typed (RunLength.decode s) := runlength_total s .len

section LZW
open LZW
/-! ## LZW reader on arbitrary input -/

theorem lzw_clear_eq : clear = 256 := rfl
theorem lzw_eof_eq : LZW.eof = 257 := rfl
theorem lzw_tableSize_eq : tableSize = 4096 := rfl
theorem lzw_maxWidth_eq : maxWidth = 12 := rfl
theorem lzw_initWidth_eq : initWidth = 9 := rfl

/-- table entry `c` is usable: present, and its prefix is a literal or an earlier entry -/
def EntryOK (t : Array (Nat × Nat)) (c : Nat) : Prop :=
  ∃ p s, t[c]? = some (p, s) ∧ (p < 256 ∨ (258 ≤ p ∧ p < c))

/-- **Reader invariant**, maintained for every code sequence whatsoever. -/
structure RInv (r : R) : Prop where
  size : r.table.size = 4096
  ec_le : r.ec ≤ 1
  ov_pow : r.overflow = 2 ^ r.width
  w_lo : 9 ≤ r.width
  w_hi : r.width ≤ 12
  hi_lo : 257 ≤ r.hi
  hi_ov : r.hi + r.ec < r.overflow
  /-- every code the reader accepts has a usable entry -/
  ent : ∀ c, 258 ≤ c → (c < r.hi ∨ (c = r.hi ∧ r.last = none)) → EntryOK r.table c
  last : ∀ l, r.last = some l → l < 256 ∨ (258 ≤ l ∧ l < r.hi)
  /-- `last` is invalid only right after a clear code or while the table is full -/
  lastnone : r.last = none → r.hi = 257 ∨ (r.hi + 1 + r.ec = r.overflow ∧ r.width = 12)

theorem pow_le_4096 {w : Nat} (h : w ≤ 12) : 2 ^ w ≤ 4096 :=
  Nat.pow_le_pow_right (by decide) h

theorem rinv_hi_le {r : R} (h : RInv r) : r.hi ≤ 4095 := by
  have := h.hi_ov; have := h.ov_pow; have := pow_le_4096 h.w_hi; omega

/-- **The prefix walk terminates inside the table** (`for c >= clear { … c = prefix[c] }` of
    `reader.go` has no syntactic bound): from any accepted code, with the fuel of the model
    (`tableSize`), the walk ends at a literal, yields at least one byte and at most `c + 1`. -/
theorem lzw_expand_fuel (t : Array (Nat × Nat)) : ∀ c, (∀ c', 258 ≤ c' → c' ≤ c → EntryOK t c') →
    (c < 256 ∨ 258 ≤ c) → ∀ fuel, c < fuel → ∀ acc,
    ∃ h tl, expand t fuel c acc = some (h :: tl) ∧ (h :: tl).length ≤ acc.length + c + 1 := by
  intro c
  induction c using Nat.strongRecOn with
  | _ c ih =>
    intro hent hc fuel hf acc
    obtain ⟨f, rfl⟩ : ∃ f, fuel = f + 1 := ⟨fuel - 1, by omega⟩
    rw [expand]
    by_cases hlit : c < 256
    · refine ⟨c, acc, by simp [lzw_clear_eq, hlit], by simp⟩
    · have h258 : 258 ≤ c := by omega
      obtain ⟨p, s, hget, hp⟩ := hent c h258 (Nat.le_refl _)
      have hpc : p < c := by omega
      obtain ⟨h, tl, he, hl⟩ := ih p hpc (fun c' h1 h2 => hent c' h1 (by omega))
        (by omega) f (by omega) (s :: acc)
      refine ⟨h, tl, by simp only [lzw_clear_eq, hlit, if_false, hget]; exact he, ?_⟩
      simp only [List.length_cons] at hl ⊢; omega

theorem save_size (r : R) (first : Nat) (h : RInv r) : (save r first).size = 4096 := by
  unfold save; split <;> simp [h.size]

/-- entries below `hi` are untouched by `save`, entry `hi` is usable afterwards -/
theorem save_entries (r : R) (first : Nat) (h : RInv r) :
    ∀ c, 258 ≤ c → c ≤ r.hi → EntryOK (save r first) c := by
  intro c h1 h2
  have hhi := rinv_hi_le h
  by_cases hc : c < r.hi
  · obtain ⟨p, s, hg, hp⟩ := h.ent c h1 (.inl hc)
    refine ⟨p, s, ?_, hp⟩
    unfold save
    split
    · rw [Array.getElem?_setIfInBounds_ne (by omega)]; exact hg
    · exact hg
  · have hce : c = r.hi := by omega
    cases hl : r.last with
    | none =>
      obtain ⟨p, s, hg, hp⟩ := h.ent c h1 (.inr ⟨hce, hl⟩)
      exact ⟨p, s, by unfold save; rw [hl]; exact hg, hp⟩
    | some l =>
      refine ⟨l, first, ?_, ?_⟩
      · unfold save
        rw [hl, hce]
        exact Array.getElem?_setIfInBounds_self_of_lt (by rw [h.size]; omega)
      · rcases h.last l hl with h3 | h3
        · exact .inl h3
        · exact .inr ⟨h3.1, by omega⟩

/-- the tail of the reader's loop body keeps the invariant -/
theorem advance_inv (r : R) (h : RInv r) (code first : Nat)
    (hcode : code < 256 ∨ (258 ≤ code ∧ code ≤ r.hi)) : RInv (advance r code (save r first)) := by
  have hhi := rinv_hi_le h
  have hov := h.hi_ov
  have hpow := h.ov_pow
  have hent := save_entries r first h
  have hsz := save_size r first h
  unfold advance
  simp only []
  by_cases hge : r.hi + 1 + r.ec ≥ r.overflow
  · rw [if_pos hge]
    have heq : r.hi + 1 + r.ec = r.overflow := by omega
    by_cases hw : r.width ≥ maxWidth
    · -- table full: `last` becomes invalid, `hi` stays
      rw [if_pos hw]
      have hw12 : r.width = 12 := by have := h.w_hi; rw [lzw_maxWidth_eq] at hw; omega
      refine { size := hsz, ec_le := h.ec_le, ov_pow := h.ov_pow, w_lo := h.w_lo, w_hi := h.w_hi,
               hi_lo := ?_, hi_ov := ?_, ent := ?_, last := ?_, lastnone := ?_ }
      · dsimp only; have := h.hi_lo; omega
      · dsimp only; omega
      · intro c h1 h2
        dsimp only at h2 ⊢
        exact hent c h1 (by omega)
      · intro l hl; simp at hl
      · intro _; dsimp only
        exact .inr ⟨by omega, hw12⟩
    · rw [if_neg hw]
      have hw11 : r.width < 12 := by rw [lzw_maxWidth_eq] at hw; omega
      refine { size := hsz, ec_le := h.ec_le, ov_pow := rfl, w_lo := ?_, w_hi := ?_,
               hi_lo := ?_, hi_ov := ?_, ent := ?_, last := ?_, lastnone := ?_ }
      · dsimp only; have := h.w_lo; omega
      · dsimp only; omega
      · dsimp only; have := h.hi_lo; omega
      · dsimp only; rw [Nat.pow_succ, ← hpow]; omega
      · intro c h1 h2
        dsimp only at h2 ⊢
        rcases h2 with h2 | ⟨_, h2⟩
        · exact hent c h1 (by omega)
        · simp at h2
      · intro l hl
        dsimp only at hl ⊢
        have : l = code := by simpa using hl.symm
        subst this
        rcases hcode with h1 | h1
        · exact .inl h1
        · exact .inr ⟨h1.1, by omega⟩
      · intro hl; simp at hl
  · rw [if_neg hge]
    refine { size := hsz, ec_le := h.ec_le, ov_pow := h.ov_pow, w_lo := h.w_lo, w_hi := h.w_hi,
             hi_lo := ?_, hi_ov := ?_, ent := ?_, last := ?_, lastnone := ?_ }
    · dsimp only; have := h.hi_lo; omega
    · dsimp only; omega
    · intro c h1 h2
      dsimp only at h2 ⊢
      rcases h2 with h2 | ⟨_, h2⟩
      · exact hent c h1 (by omega)
      · simp at h2
    · intro l hl
      dsimp only at hl ⊢
      have : l = code := by simpa using hl.symm
      subst this
      rcases hcode with h1 | h1
      · exact .inl h1
      · exact .inr ⟨h1.1, by omega⟩
    · intro hl; simp at hl

/-- **One code, any code.**  The reader either continues in a state satisfying the invariant
    with fewer than 4097 new bytes, or stops at the eof code, or reports `malformed`; the
    model's internal error `other` (prefix chain broken) cannot occur. -/
theorem stepCode_inv (r : R) (h : RInv r) (code : Nat) :
    match stepCode r code with
    | .cont r' out => RInv r' ∧ out.length ≤ 4096
    | .eof => True
    | .bad e => e = .malformed := by
  have hhi := rinv_hi_le h
  unfold stepCode
  by_cases hlit : code < clear
  · rw [if_pos hlit]
    rw [lzw_clear_eq] at hlit
    exact ⟨advance_inv r h code code (.inl hlit), by simp⟩
  · rw [if_neg hlit]
    by_cases hclr : (code == clear) = true
    · rw [if_pos hclr]
      refine ⟨{ size := h.size, ec_le := h.ec_le, ov_pow := rfl, w_lo := by dsimp only; decide,
                w_hi := by dsimp only; decide, hi_lo := by dsimp only; decide, hi_ov := ?_, ent := ?_,
                last := ?_, lastnone := ?_ }, by simp⟩
      · dsimp only; have := h.ec_le; rw [lzw_eof_eq, lzw_initWidth_eq]; omega
      · intro c h1 h2
        dsimp only at h2
        rw [lzw_eof_eq] at h2; omega
      · intro l hl; simp at hl
      · intro _; exact .inl rfl
    · rw [if_neg hclr]
      by_cases heof : (code == LZW.eof) = true
      · rw [if_pos heof]; trivial
      · rw [if_neg heof]
        by_cases hle : code ≤ r.hi
        · rw [if_pos hle]
          have h258 : 258 ≤ code := by
            rw [lzw_clear_eq] at hlit hclr; rw [lzw_eof_eq] at heof
            simp only [beq_iff_eq] at hclr heof; omega
          have hcode : code < 256 ∨ (258 ≤ code ∧ code ≤ r.hi) := .inr ⟨h258, hle⟩
          cases hsel : (if (code == r.hi) = true then r.last else none) with
          | some l =>
            -- code = hi with a valid `last`: expand `last`
            have hl : r.last = some l := by
              by_cases hc : (code == r.hi) = true
              · rw [if_pos hc] at hsel; exact hsel
              · rw [if_neg hc] at hsel; simp at hsel
            have hlv := h.last l hl
            obtain ⟨hd, tl, he, hlen⟩ := lzw_expand_fuel r.table l
              (fun c' h1 h2 => h.ent c' h1 (.inl (by rcases hlv with h3 | h3 <;> omega)))
              (by rcases hlv with h3 | h3 <;> omega) tableSize
              (by rw [lzw_tableSize_eq]; rcases hlv with h3 | h3 <;> omega) []
            simp only [he]
            refine ⟨advance_inv r h code hd hcode, ?_⟩
            simp only [List.length_cons, List.length_append, List.length_nil] at hlen ⊢
            rcases hlv with h3 | h3 <;> omega
          | none =>
            have hok : ∀ c', 258 ≤ c' → c' ≤ code → EntryOK r.table c' := by
              intro c' h1 h2
              by_cases hc : c' < r.hi
              · exact h.ent c' h1 (.inl hc)
              · have hce : c' = r.hi := by omega
                have hcode_eq : code = r.hi := by omega
                have hbeq : (code == r.hi) = true := by simp [hcode_eq]
                rw [if_pos hbeq] at hsel
                exact h.ent c' h1 (.inr ⟨hce, hsel⟩)
            obtain ⟨hd, tl, he, hlen⟩ := lzw_expand_fuel r.table code hok (.inr h258) tableSize
              (by rw [lzw_tableSize_eq]; omega) []
            simp only [he]
            refine ⟨advance_inv r h code hd hcode, ?_⟩
            simp only [List.length_cons, List.length_nil] at hlen ⊢
            omega
        · rw [if_neg hle]

theorem decBits_inv (bits : Bits) : ∀ r need acc, RInv r → 1 ≤ need → need ≤ r.width →
    Typed (decBits r need acc bits) ∧
    (decBits r need acc bits).1.length * 9 ≤ 4096 * (bits.length + (r.width - need)) := by
  induction bits with
  | nil => intro r need acc _ _ _; simp [decBits, Typed]
  | cons b bs ih =>
    intro r need acc h h1 h2
    rw [decBits]
    by_cases hn : need ≤ 1
    · rw [if_pos hn]
      have hstep := stepCode_inv r h (2 * acc + if b = true then 1 else 0)
      cases hs : stepCode r (2 * acc + if b = true then 1 else 0) with
      | cont r' out =>
        rw [hs] at hstep
        obtain ⟨hinv, hlen⟩ := hstep
        obtain ⟨t1, t2⟩ := ih r' r'.width 0 hinv (by have := hinv.w_lo; omega) (Nat.le_refl _)
        refine ⟨by simpa [Typed, DecRes.pre] using t1, ?_⟩
        simp only [DecRes.pre, List.length_append, List.length_cons, Nat.sub_self, Nat.add_zero] at t2 ⊢
        have := h.w_lo
        omega
      | eof => simp [Typed]
      | bad e =>
        rw [hs] at hstep
        simp only at hstep
        simp [Typed, hstep]
    · rw [if_neg hn]
      obtain ⟨t1, t2⟩ := ih r (need - 1) (2 * acc + if b = true then 1 else 0) h (by omega) (by omega)
      refine ⟨t1, ?_⟩
      simp only [List.length_cons]
      omega

theorem rinv_init (early : Bool) : RInv (R.init early) := by
  refine { size := by simp [R.init, lzw_tableSize_eq], ec_le := by cases early <;> decide, ov_pow := rfl,
           w_lo := by cases early <;> decide, w_hi := by cases early <;> decide, hi_lo := by cases early <;> decide,
           hi_ov := by cases early <;> decide, ent := ?_, last := ?_, lastnone := ?_ }
  · intro c h1 h2
    have : (R.init early).hi = 257 := rfl
    omega
  · intro l hl; simp [R.init] at hl
  · intro _; exact .inl rfl

theorem bytesToBits_length (s : Bytes) : (bytesToBits s).length = 8 * s.length := by
  induction s with
  | nil => rfl
  | cons b bs ih =>
    have : (toBits 8 b).length = 8 := rfl
    simp only [bytesToBits, List.length_append, List.length_cons, ih, this]; omega

/-- **LZW decoder totality** on arbitrary bytes, both `EarlyChange` settings. -/
theorem lzw_decode_total (early : Bool) (s : Bytes) : Typed (decode early s) :=
  (decBits_inv (bytesToBits s) (R.init early) initWidth 0 (rinv_init early) (by decide) (Nat.le_refl _)).1

/-- **LZW output bound**: every code is at least 9 bits long and expands to at most 4096
    bytes, so `9·|out| ≤ 4096·8·|in|`. -/
theorem lzw_out (early : Bool) (s : Bytes) : (decode early s).1.length * 9 ≤ 4096 * (8 * s.length) := by
  have := (decBits_inv (bytesToBits s) (R.init early) initWidth 0 (rinv_init early) (by decide) (Nat.le_refl _)).2
  rw [bytesToBits_length] at this
  simpa [decode, R.init] using this

-- non-vacuity: hostile streams are really classified (code above `hi`; missing eof code; table
-- full without a clear code is exercised by the harness)
example : decode false [0x80, 0x7f, 0xc0] = ([], some .malformed) := by decide +kernel
example : (decode true [0x80, 0x10, 0x60, 0x50]).2 = none ∨ (decode true [0x80, 0x10, 0x60, 0x50]).2 = some .malformed :=
  lzw_decode_total true _

end LZW
end PdfVerif.C08fa

import PdfVerif.Model.ROBScanObj
import PdfVerif.Props.C05robbuf
import PdfVerif.Props.C01g
/-!
# C05/C01 — the object parser over the 1024-byte window refines the whole-input parser

`Model/ROBScanObj.lean` is `ReadObject` and its companions as `scanner.go` runs them: on the buffer
state, through `PeekN`/`ReadByte`/`ScanBytes`/`SkipString`/`SkipWhiteSpace` and `s.pos += n` only.
`Model/Scan.lean` is the same parser on the whole remaining input; all C01 theorems (round trip,
totality, caps) are about the latter.  This file closes the gap: for every fault-free reader that
serves the bytes `d` — with ANY chunking — the buffered parser returns exactly what the
whole-input parser returns, stops at the same position, never sets `hang` and never takes one of
the panicking branches (`readObjectBuf_refines_at` for any reachable state, fuel and depth;
`readObjectBuf_refines`, `readObjectBuf_state`, `readObjectBuf_fuel_indep`, `readObjectBuf_total` for a
fresh scanner).  The same under reader faults: `Props/C19robtok.lean`, `Props/C19robobj.lean`.
-/
namespace PdfVerif.C05robobj
open PdfVerif PdfVerif.ROB PdfVerif.C05robbuf

/-! ## the flags `panicked` is only set by the explicit panic branches -/

theorem refill_panicked (src : Source) (s : SB) : (refill src s).1.panicked = s.panicked := by
  unfold refill
  cases s.err with
  | some e => rfl
  | none =>
    simp only []
    split
    · rfl
    · split <;> rfl

theorem peekN_panicked (src : Source) (n : Nat) (hn : n ≤ bufSize) (s : SB) :
    (peekN src n s).1.panicked = s.panicked := by
  unfold peekN
  have : ¬ (n > bufSize) := by omega
  simp only [this, if_false]
  by_cases hA : s.pos + n > s.buf.length
  · simp only [hA, if_true]
    have := refill_panicked src s
    generalize refill src s = r at this
    obtain ⟨s1, e⟩ := r
    simp only [] at this ⊢
    repeat' split
    all_goals first | exact this | rfl
  · simp only [hA, if_false]
    repeat' split
    all_goals rfl

theorem readByte_panicked (src : Source) (s : SB) : (readByte src s).1.panicked = s.panicked := by
  unfold readByte
  have := peekN_panicked src 1 (by decide) s
  generalize peekN src 1 s = r at this
  obtain ⟨s1, buf, e⟩ := r
  simp only [] at this ⊢
  repeat' split
  all_goals first | exact this | (simp only []; exact this)

theorem skipString_panicked (src : Source) (pat : Bytes) (hn : pat.length ≤ bufSize) (s : SB) :
    (skipString src pat s).1.panicked = s.panicked := by
  unfold skipString
  have := peekN_panicked src pat.length hn s
  generalize peekN src pat.length s = r at this
  obtain ⟨s1, buf, e⟩ := r
  simp only [] at this ⊢
  repeat' split
  all_goals first | exact this | (simp only []; exact this)

theorem scanBytes_panicked {σ : Type} (src : Source) (acc : σ → Nat → Option σ) :
    ∀ (fuel : Nat) (empty : Bool) (st : σ) (s : SB), (scanBytes src acc fuel empty st s).1.panicked = s.panicked := by
  intro fuel
  induction fuel with
  | zero => intro empty st s; rfl
  | succ fuel ih =>
    intro empty st s
    unfold scanBytes
    generalize scanInner acc st (s.buf.drop s.pos) = r
    obtain ⟨st1, n, stop⟩ := r
    simp only []
    have hr := refill_panicked src { s with pos := s.pos + n }
    generalize refill src { s with pos := s.pos + n } = q at hr
    obtain ⟨s2, err⟩ := q
    simp only [] at hr ⊢
    repeat' split
    all_goals first | rfl | exact hr | (rw [ih]; exact hr)

theorem skipWhiteSpace_panicked (src : Source) (fuel : Nat) (s : SB) :
    (skipWhiteSpace src fuel s).1.panicked = s.panicked := by
  unfold skipWhiteSpace
  have := scanBytes_panicked src wsAcc fuel true false s
  generalize scanBytes src wsAcc fuel true false s = r at this
  obtain ⟨s', st, e⟩ := r
  exact this

/-! ## good states and the leaf operations on them -/

/-- a state reached on a fault-free reader: coherent, nothing latched, no panic branch taken -/
structure Good (d : Bytes) (s : SB) : Prop where
  coh : Coh d .io s
  noerr : s.err = none
  nopanic : s.panicked = false
  /-- `CurrentPos` (for a scanner whose reader starts at offset 0) is the number of bytes of `d`
      that are no longer in the view -/
  posok : s.currentPos + (view d s).length = d.length

theorem Good.vlen {d : Bytes} {s : SB} (gs : Good d s) : (view d s).length ≤ d.length := by
  have := gs.posok; omega

theorem good_init (d : Bytes) : Good d (SB.init 0) :=
  ⟨coh_init d .io 0, rfl, rfl, by rw [view_init]; simp [SB.init, SB.currentPos]⟩

/-- `ScanBytes` moves `CurrentPos` by exactly the number of bytes that left the view -/
theorem scanBytes_posinv {σ : Type} {d : Bytes} {e0 : Err} {src : Source} (h : FaultyOver d e0 src)
    (acc : σ → Nat → Option σ) :
    ∀ (fuel : Nat) (empty : Bool) (st : σ) (s : SB), Coh d e0 s →
      (scanBytes src acc fuel empty st s).1.currentPos + (view d (scanBytes src acc fuel empty st s).1).length =
        s.currentPos + (view d s).length := by
  intro fuel
  induction fuel with
  | zero => intro empty st s c; unfold scanBytes; simp [view, SB.currentPos]
  | succ fuel ih =>
    intro empty st s c
    unfold scanBytes
    have I := scanInner_spec acc (d.drop s.srcOff) (s.buf.drop s.pos) st
    generalize scanInner acc st (s.buf.drop s.pos) = r at I
    obtain ⟨st1, n, stop⟩ := r
    simp only [] at I
    obtain ⟨hn, _, _⟩ := I
    simp only [List.length_drop] at hn
    have hpl := c.pos_le
    have c1 : Coh d e0 { s with pos := s.pos + n } :=
      ⟨by simp; omega, c.len_le, c.off_le, c.nohang, c.errs⟩
    have e1 : ({ s with pos := s.pos + n } : SB).currentPos + (view d { s with pos := s.pos + n }).length =
        s.currentPos + (view d s).length := by
      simp [view, SB.currentPos]; omega
    simp only []
    have R := refill_spec h _ c1
    generalize refill src { s with pos := s.pos + n } = q at R
    obtain ⟨s2, err⟩ := q
    have e2 : s2.currentPos + (view d s2).length = s.currentPos + (view d s).length := by
      rw [← e1, R.view_eq, R.pos_eq]
    simp only []
    repeat' split
    all_goals first | exact e1 | exact e2 | (rw [ih _ _ _ R.coh]; exact e2)

theorem scanSpec_len {σ : Type} (acc : σ → Nat → Option σ) : ∀ (inp : Bytes) (st : σ),
    (scanSpec acc st inp).2.1.length ≤ inp.length := by
  intro inp
  induction inp with
  | nil => intro st; simp [scanSpec]
  | cons b bs ih =>
    intro st
    unfold scanSpec
    cases acc st b with
    | none => simp
    | some st' => have := ih st'; simp; omega

section
variable {d : Bytes} {src : Source} (g : GoodOver d src)
include g

/-- `PeekN(n)` on a good state: the first `n` bytes of the view, which lie in the window -/
theorem peek_good (n : Nat) (hn : n ≤ bufSize) (s : SB) (gs : Good d s) :
    ∃ s1, peekN src n s = (s1, (view d s).take n, none) ∧ Good d s1 ∧ view d s1 = view d s ∧
      (view d s).take n <+: s1.buf.drop s1.pos ∧ s1.currentPos = s.currentPos := by
  have R := peekN_refines g n hn s gs.coh gs.noerr
  have P := peekN_spec (g .io (by decide)) n hn s gs.coh
  have hp := peekN_panicked src n hn s
  generalize peekN src n s = r at R P hp
  obtain ⟨s1, buf, e⟩ := r
  obtain ⟨h1, h2, h3, h4⟩ := R
  simp only [Prod.mk.injEq] at h1
  obtain ⟨rfl, rfl⟩ := h1
  exact ⟨s1, rfl, ⟨h3, h4, by simpa [gs.nopanic] using hp, by rw [h2, P.pos_eq]; exact gs.posok⟩, h2, P.window, P.pos_eq⟩

omit g in
/-- `s.pos += k` inside the window -/
theorem adv_good (k : Nat) (s : SB) (gs : Good d s) (hk : k ≤ (s.buf.drop s.pos).length) :
    Good d (adv k s) ∧ view d (adv k s) = (view d s).drop k ∧ (adv k s).currentPos = s.currentPos + k := by
  simp only [List.length_drop] at hk
  have hpl := gs.coh.pos_le
  have hv : view d (adv k s) = (view d s).drop k := by
    simp only [view, adv]
    rw [List.drop_append]
    have : k - (s.buf.drop s.pos).length = 0 := by simp; omega
    rw [this]; simp [List.drop_drop, Nat.add_comm]
  have hvl : k ≤ (view d s).length := by simp [view]; omega
  have hcp : (adv k s).currentPos = s.currentPos + k := by simp [adv, SB.currentPos]; omega
  refine ⟨⟨⟨by simp [adv]; omega, gs.coh.len_le, gs.coh.off_le, gs.coh.nohang, gs.coh.errs⟩, gs.noerr, gs.nopanic, ?_⟩, hv, hcp⟩
  rw [hv, hcp]; have := gs.posok; simp; omega

/-- peek `n` bytes, then advance by `k ≤` the number of bytes seen -/
theorem peek_adv_good (n : Nat) (hn : n ≤ bufSize) (s : SB) (gs : Good d s) :
    ∃ s1, peekN src n s = (s1, (view d s).take n, none) ∧ Good d s1 ∧ view d s1 = view d s ∧
      ∀ k, k ≤ ((view d s).take n).length → Good d (adv k s1) ∧ view d (adv k s1) = (view d s).drop k := by
  obtain ⟨s1, hp, g1, v1, w1, _⟩ := peek_good g n hn s gs
  refine ⟨s1, hp, g1, v1, fun k hk => ?_⟩
  have := adv_good k s1 g1 (Nat.le_trans hk (prefix_len w1))
  exact ⟨this.1, by rw [this.2.1, v1]⟩

/-- `ReadByte` on a good state -/
theorem byte_good (s : SB) (gs : Good d s) :
    (view d s = [] → (readByte src s).2 = .error .eof) ∧
    (∀ b t, view d s = b :: t → (readByte src s).2 = .ok b ∧ Good d (readByte src s).1 ∧ view d (readByte src s).1 = t) := by
  obtain ⟨s1, hp, g1, v1, hadv⟩ := peek_adv_good g 1 (by decide) s gs
  unfold readByte
  rw [hp]
  simp only []
  constructor
  · intro hv; rw [hv]; rfl
  · intro b t hv
    have := hadv 1 (by rw [hv]; simp)
    rw [hv] at this ⊢
    simp only [List.take_succ_cons, List.take_zero, List.drop_succ_cons, List.drop_zero] at this ⊢
    exact ⟨trivial, this.1, this.2⟩

variable {sf : Nat} (hsf : d.length + 2 ≤ sf)
include hsf

/-- `ScanBytes` on a good state -/
theorem scan_good {σ : Type} (acc : σ → Nat → Option σ) (empty : Bool) (st : σ) (s : SB) (gs : Good d s) :
    scanSpec acc st (view d s) = ((scanBytes src acc sf empty st s).2.1, view d (scanBytes src acc sf empty st s).1,
      decide ((scanBytes src acc sf empty st s).2.2 = some .eof)) ∧
    ((scanBytes src acc sf empty st s).2.2 = none ∨ (scanBytes src acc sf empty st s).2.2 = some .eof) ∧
    Good d (scanBytes src acc sf empty st s).1 := by
  have hf : scanBytesFuel (d.length - s.srcOff) ≤ sf := by simp [scanBytesFuel]; omega
  obtain ⟨h1, h2, c1⟩ := scanBytes_refines g acc empty st s gs.coh gs.noerr sf hf
  refine ⟨h1, h2, ⟨c1, ?_, by rw [scanBytes_panicked]; exact gs.nopanic, by
    rw [scanBytes_posinv (g .io (by decide)) acc sf empty st s gs.coh]; exact gs.posok⟩⟩
  obtain ⟨c2, _⟩ := scanBytes_spec (g .other (by decide)) acc sf empty st s (coh_any gs.coh gs.noerr)
    (by simp [scanBytesFuel] at hf; omega)
  cases he : (scanBytes src acc sf empty st s).1.err with
  | none => rfl
  | some x =>
    have a := c1.errs x he
    have b := c2.errs x he
    rw [a] at b; cases b

/-- `SkipWhiteSpace` on a good state -/
theorem ws_good (s : SB) (gs : Good d s) :
    skipWS (view d s) = (view d (skipWhiteSpace src sf s).1, decide ((skipWhiteSpace src sf s).2 = some .eof)) ∧
    ((skipWhiteSpace src sf s).2 = none ∨ (skipWhiteSpace src sf s).2 = some .eof) ∧
    Good d (skipWhiteSpace src sf s).1 := by
  have S := scan_good g hsf wsAcc true false s gs
  unfold skipWhiteSpace
  generalize scanBytes src wsAcc sf true false s = r at S
  obtain ⟨s', st', e⟩ := r
  simp only [] at S ⊢
  refine ⟨?_, S.2.1, S.2.2⟩
  rw [← (scanSpec_wsAcc (view d s)).1, S.1]

end

section
variable {d : Bytes} {src : Source} (g : GoodOver d src)
include g

/-- `SkipString(pat)` on a good state -/
theorem skipstr_good (pat : Bytes) (hn : pat.length ≤ bufSize) (s : SB) (gs : Good d s) :
    ((view d s).take pat.length = pat →
      (skipString src pat s).2 = none ∧ Good d (skipString src pat s).1 ∧
      view d (skipString src pat s).1 = (view d s).drop pat.length) ∧
    ((view d s).take pat.length ≠ pat →
      (skipString src pat s).2 = some .malformed ∧ Good d (skipString src pat s).1 ∧
      view d (skipString src pat s).1 = view d s) := by
  obtain ⟨s1, hp, g1, v1, hadv⟩ := peek_adv_good g pat.length hn s gs
  unfold skipString
  rw [hp]
  simp only []
  constructor
  · intro h
    have hb : ((view d s).take pat.length == pat) = true := by simp [h]
    simp only [hb, if_true]
    have := hadv pat.length (by rw [h]; exact Nat.le_refl _)
    exact ⟨trivial, this.1, this.2⟩
  · intro h
    have hb : ((view d s).take pat.length == pat) = false := by simpa using h
    simp only [hb, Bool.false_eq_true, if_false]
    exact ⟨trivial, g1, v1⟩

end

theorem isPrefixOf_eq_take : ∀ (pat inp : Bytes), isPrefixOf pat inp = true → inp.take pat.length = pat := by
  intro pat
  induction pat with
  | nil => intro inp _; simp
  | cons p ps ih =>
    intro inp h
    cases inp with
    | nil => simp [isPrefixOf] at h
    | cons b bs =>
      simp [isPrefixOf] at h
      simp [h.1, ih bs h.2]

/-- `ReadStreamData` on a scanner without a `fileReader`, fault-free reader: a malformed-file error -/
theorem readStreamHead_good {d : Bytes} {src : Source} (g : GoodOver d src) (s : SB) (gs : Good d s)
    (h : startsWith (view d s) kw_stream = true) :
    (readStreamHeadBuf src s).2 = .error .malformed ∧ (readStreamHeadBuf src s).1.panicked = false := by
  have ht : (view d s).take kw_stream.length = kw_stream := isPrefixOf_eq_take _ _ h
  obtain ⟨a1, a2, a3⟩ := (skipstr_good g kw_stream (by decide) s gs).1 ht
  unfold readStreamHeadBuf
  generalize skipString src kw_stream s = q at a1 a2 a3
  obtain ⟨s1, e1⟩ := q
  simp only [] at a1 a2 a3
  subst a1
  simp only []
  obtain ⟨s2, hp, g2, _⟩ := peek_good g 2 (by decide) s1 a2
  rw [hp]
  exact ⟨rfl, g2.nopanic⟩

/-! ## the refinement relation -/

/-- the result `r` of a buffered function agrees with the result `m` of the whole-input function:
    same value and the view is the rest of the input; same error.  `E` is what is known about the
    state after an error (where the Go caller goes on after a malformed error). -/
def RelE {α : Type} (d : Bytes) (E : SB → Prop) (r : SB × Except Err α) (m : Except Err (α × Bytes)) : Prop :=
  match m with
  | .ok (v, rest) => r.2 = .ok v ∧ Good d r.1 ∧ view d r.1 = rest
  | .error e => r.2 = .error e ∧ r.1.panicked = false ∧ E r.1

abbrev Rel {α : Type} (d : Bytes) (r : SB × Except Err α) (m : Except Err (α × Bytes)) : Prop :=
  RelE d (fun _ => True) r m

theorem relE_weaken {α : Type} {d : Bytes} {E : SB → Prop} {r : SB × Except Err α} {m : Except Err (α × Bytes)}
    (h : RelE d E r m) : Rel d r m := by
  unfold Rel RelE at *
  split at h
  · exact h
  · exact ⟨h.1, h.2.1, trivial⟩

theorem relE_consB {d : Bytes} {E : SB → Prop} (x : Nat) {r : SB × Except Err Bytes} {m : Except Err (Bytes × Bytes)}
    (h : RelE d E r m) : RelE d E (consB x r) (consRes x m) := by
  unfold RelE at *
  cases m with
  | error e => simp only [consRes_error, consB] at h ⊢; rw [h.1]; exact ⟨rfl, h.2⟩
  | ok p =>
    obtain ⟨v, rest⟩ := p
    simp only [consRes_ok, consB] at h ⊢
    rw [h.1]; exact ⟨rfl, h.2⟩

theorem relE_err {α : Type} {d : Bytes} {E : SB → Prop} (s : SB) (e : Err) (hp : s.panicked = false) (he : E s) :
    RelE (α := α) d E (s, .error e) (.error e) := ⟨rfl, hp, he⟩

theorem relE_ok {α : Type} {d : Bytes} {E : SB → Prop} (s : SB) (v : α) (rest : Bytes) (gs : Good d s) (hv : view d s = rest) :
    RelE d E (s, .ok v) (.ok (v, rest)) := ⟨rfl, gs, hv⟩

theorem hardErr_none : hardErr none = none := rfl

/-! ## `ReadName` -/

section
variable {d : Bytes} {src : Source} (g : GoodOver d src)
include g

/-- what `tryHex` decides, on the bytes after the `#` -/
def tryHexSpec : Bytes → Option (Nat × Bytes)
  | h :: l :: rest' =>
    match hexVal h, hexVal l with
    | some a, some b => some (a * 16 + b, rest')
    | _, _ => none
  | _ => none

omit g in
/-- `readNameBody` standing on `#`, in terms of `tryHexSpec` -/
theorem readNameBody_hash (fuel len : Nat) (rest : Bytes) :
    readNameBody (fuel + 1) len (35 :: rest) =
    if len ≥ Gen.scanner_maxNameBytes then .error .malformed
    else match tryHexSpec rest with
      | some (v, rest') => consRes v (readNameBody fuel (len + 1) rest')
      | none => consRes 35 (readNameBody fuel (len + 1) rest) := by
  conv => lhs; unfold readNameBody
  have h0 : (35 != 35 && !isRegular 35) = false := by decide +kernel
  simp only [h0, Bool.false_eq_true, if_false, beq_self_eq_true, if_true]
  split
  · rfl
  · match rest with
    | [] => rfl
    | [h] => rfl
    | h :: l :: rest' =>
      simp only [tryHexSpec]
      cases hexVal h <;> cases hexVal l <;> rfl

/-- `tryHex` on a good state standing on `#` -/
theorem tryHex_good (s : SB) (gs : Good d s) (rest : Bytes) (hv : view d s = 35 :: rest) :
    match tryHexSpec rest with
    | some (v, rest') => (tryHexBuf src s).2 = .ok (some v) ∧ Good d (tryHexBuf src s).1 ∧ view d (tryHexBuf src s).1 = rest'
    | none => (tryHexBuf src s).2 = .ok none ∧ Good d (adv 1 (tryHexBuf src s).1) ∧ view d (adv 1 (tryHexBuf src s).1) = rest := by
  obtain ⟨s1, hp, g1, v1, hadv⟩ := peek_adv_good g 3 (by decide) s gs
  have h1 := hadv 1 (by rw [hv]; simp)
  rw [hv] at h1
  simp only [List.drop_succ_cons, List.drop_zero] at h1
  unfold tryHexBuf
  rw [hp, hv]
  simp only []
  match rest, hadv with
  | [], _ => simp only [tryHexSpec, List.take_succ_cons, List.take_nil]; exact ⟨trivial, h1⟩
  | [h], _ => simp only [tryHexSpec, List.take_succ_cons, List.take_nil]; exact ⟨trivial, h1⟩
  | h :: l :: rest', hadv =>
    simp only [tryHexSpec, List.take_succ_cons, List.take_zero]
    cases ha : hexVal h with
    | none => simp only []; exact ⟨trivial, h1⟩
    | some a =>
      cases hb : hexVal l with
      | none => simp only []; exact ⟨trivial, h1⟩
      | some b =>
        simp only []
        have := hadv 3 (by rw [hv]; simp)
        rw [hv] at this
        exact ⟨trivial, this.1, by simpa using this.2⟩

/-- what is known about the state after `ReadName` failed inside its loop: it stands on a byte
    of the name, which is not `>` -/
def NotGt (d : Bytes) (s : SB) : Prop := Good d s ∧ ∃ c t, view d s = c :: t ∧ c ≠ 62

omit g in
theorem reg_ne_62 (c : Nat) (h : ¬ ((c != 35 && !isRegular c) = true)) : c ≠ 62 := by
  intro hc
  subst hc
  exact h (by decide +kernel)

/-- the loop of `ReadName` refines `readNameBody`, fuel for fuel -/
theorem readNameLoop_refines : ∀ (fuel len : Nat) (s : SB), Good d s →
    RelE d (NotGt d) (readNameLoopBuf src fuel len s) (readNameBody fuel len (view d s)) := by
  intro fuel
  induction fuel with
  | zero => intro len s gs; unfold readNameLoopBuf readNameBody; exact relE_ok s [] _ gs rfl
  | succ fuel ih =>
    intro len s gs
    obtain ⟨s1, hp, g1, v1, hadv⟩ := peek_adv_good g 1 (by decide) s gs
    unfold readNameLoopBuf
    rw [hp]
    simp only [hardErr_none]
    cases hv : view d s with
    | nil =>
      unfold readNameBody
      simp only [List.take_nil]
      exact relE_ok s1 [] _ g1 (by rw [v1, hv])
    | cons c rest =>
      simp only [List.take_succ_cons, List.take_zero]
      have hv1 : view d s1 = c :: rest := by rw [v1, hv]
      have hadv1 := hadv 1 (by rw [hv]; simp)
      rw [hv] at hadv1
      simp only [List.drop_succ_cons, List.drop_zero] at hadv1
      by_cases h3 : c = 35
      · subst h3
        rw [readNameBody_hash]
        have h0 : (35 != 35 && !isRegular 35) = false := by decide +kernel
        simp only [h0, Bool.false_eq_true, if_false]
        by_cases h2 : len ≥ Gen.scanner_maxNameBytes
        · simp only [h2, if_true]
          exact relE_err s1 _ g1.nopanic ⟨g1, 35, rest, hv1, by decide⟩
        simp only [h2, if_false, beq_self_eq_true, if_true]
        have T := tryHex_good g s1 g1 rest hv1
        generalize tryHexBuf src s1 = q at T
        obtain ⟨s2, ov⟩ := q
        cases hs : tryHexSpec rest with
        | none =>
          rw [hs] at T
          simp only [] at T ⊢
          obtain ⟨t1, t2, t3⟩ := T
          subst t1
          simp only []
          exact relE_consB 35 (by rw [← t3]; exact ih (len + 1) _ t2)
        | some p =>
          obtain ⟨v, rest'⟩ := p
          rw [hs] at T
          simp only [] at T ⊢
          obtain ⟨t1, t2, t3⟩ := T
          subst t1
          simp only []
          exact relE_consB v (by rw [← t3]; exact ih (len + 1) _ t2)
      · unfold readNameBody
        have h3' : (c == 35) = false := by simpa using h3
        by_cases h1 : (c != 35 && !isRegular c) = true
        · simp only [h1, if_true]; exact relE_ok s1 [] _ g1 hv1
        simp only [h1, Bool.false_eq_true, if_false]
        by_cases h2 : len ≥ Gen.scanner_maxNameBytes
        · simp only [h2, if_true]
          exact relE_err s1 _ g1.nopanic ⟨g1, c, rest, hv1, reg_ne_62 c h1⟩
        simp only [h2, if_false, h3', Bool.false_eq_true]
        exact relE_consB c (by rw [← hadv1.2]; exact ih (len + 1) (adv 1 s1) hadv1.1)

end

theorem tryHexSpec_len (rest : Bytes) (v : Nat) (rest' : Bytes) (h : tryHexSpec rest = some (v, rest')) :
    rest'.length + 2 = rest.length := by
  match rest, h with
  | h' :: l :: r, h =>
    simp only [tryHexSpec] at h
    cases ha : hexVal h' <;> cases hb : hexVal l <;> simp [ha, hb] at h
    obtain ⟨_, rfl⟩ := h
    simp

/-- `readNameBody` does not depend on its fuel once the fuel exceeds the input length -/
theorem readNameBody_fuel : ∀ (f1 f2 len : Nat) (inp : Bytes), inp.length + 1 ≤ f1 → inp.length + 1 ≤ f2 →
    readNameBody f1 len inp = readNameBody f2 len inp := by
  intro f1
  induction f1 with
  | zero => intro f2 len inp h1 _; omega
  | succ f1 ih =>
    intro f2 len inp h1 h2
    obtain ⟨f2, rfl⟩ : ∃ k, f2 = k + 1 := ⟨f2 - 1, by omega⟩
    cases inp with
    | nil => unfold readNameBody; rfl
    | cons c rest =>
      simp only [List.length_cons] at h1 h2
      by_cases h3 : c = 35
      · subst h3
        rw [readNameBody_hash, readNameBody_hash]
        split
        · rfl
        · cases hs : tryHexSpec rest with
          | none => simp only []; rw [ih f2 (len + 1) rest (by omega) (by omega)]
          | some p =>
            obtain ⟨v, rest'⟩ := p
            have := tryHexSpec_len rest v rest' hs
            simp only []
            rw [ih f2 (len + 1) rest' (by omega) (by omega)]
      · have h3' : (c == 35) = false := by simpa using h3
        unfold readNameBody
        simp only [h3', Bool.false_eq_true, if_false]
        rw [ih f2 (len + 1) rest (by omega) (by omega)]

theorem readName_other (c : Nat) (rest : Bytes) (hc : c ≠ 47) : readName (c :: rest) = .error .malformed := by
  unfold readName
  split
  · rename_i heq; cases heq; exact (hc rfl).elim
  · rfl

section
variable {d : Bytes} {src : Source} (g : GoodOver d src) {sf : Nat} (hsf : d.length + 2 ≤ sf)
include g hsf

/-- after a failed `ReadName` the scanner still stands where it stood, or on a byte that is not `>` -/
def NameErr (d : Bytes) (inp : Bytes) (s : SB) : Prop :=
  Good d s ∧ (view d s = inp ∨ ((∃ r, inp = 47 :: r) ∧ ∃ c t, view d s = c :: t ∧ c ≠ 62))

/-- `ReadName` refines `readName` -/
theorem readName_refines (s : SB) (gs : Good d s) :
    RelE d (NameErr d (view d s)) (readNameBuf src sf s) (readName (view d s)) := by
  obtain ⟨hyes, hno⟩ := skipstr_good g [47] (by decide) s gs
  unfold readNameBuf
  generalize hq : skipString src [47] s = q at hyes hno
  obtain ⟨s1, e⟩ := q
  simp only [] at hyes hno
  cases hv : view d s with
  | nil =>
    rw [hv] at hno
    obtain ⟨h1, h2, h3⟩ := hno (by simp)
    subst h1
    simp only []
    exact relE_err s1 _ h2.nopanic ⟨h2, Or.inl (by rw [h3])⟩
  | cons c rest =>
    rw [hv] at hyes hno
    by_cases hc : c = 47
    · subst hc
      obtain ⟨h1, h2, h3⟩ := hyes (by simp)
      subst h1
      simp only [List.length_cons, List.length_nil, Nat.zero_add, List.drop_succ_cons, List.drop_zero] at h3 ⊢
      show RelE d _ (readNameLoopBuf src sf 0 s1) (readNameBody (rest.length + 1) 0 rest)
      have hl : rest.length + 1 ≤ sf := by
        have := gs.vlen; rw [hv] at this; simp at this; omega
      rw [readNameBody_fuel (rest.length + 1) sf 0 rest (Nat.le_refl _) hl, ← h3]
      have R := readNameLoop_refines g sf 0 s1 h2
      unfold RelE at R ⊢
      split at R
      · exact R
      · obtain ⟨r1, r2, r3, c', t, r4, r5⟩ := R
        exact ⟨r1, r2, r3, Or.inr ⟨⟨_, rfl⟩, c', t, r4, r5⟩⟩
    · obtain ⟨h1, h2, h3⟩ := hno (by simp; exact hc)
      subst h1
      rw [readName_other c rest hc]
      exact relE_err s1 _ h2.nopanic ⟨h2, Or.inl (by rw [h3])⟩

end

/-! ## `ReadNumber`, `ReadInteger` -/

/-- the `push` of the acceptor of `ReadNumber`/`ReadInteger`: `first = false`, append below the
    cap, else set `overflow` -/
def pushSt (st : NumSt) (hd : Bool) (c : Nat) : NumSt :=
  if st.tok.length < Gen.scanner_maxNameBytes then ⟨hd, false, c :: st.tok, st.overflow⟩
  else ⟨hd, false, st.tok, true⟩

theorem numAcc_eq (a : Bool) (st : NumSt) (b : Nat) :
    numAcc a st b =
      if (a && !st.hasDot && b == 46) = true then some (pushSt st true b)
      else if (st.first && (b == 43 || b == 45)) = true then some (pushSt st st.hasDot b)
      else if isDigit b = true then some (pushSt st st.hasDot b)
      else none := by
  unfold numAcc pushSt
  by_cases hlt : st.tok.length < Gen.scanner_maxNameBytes <;> simp [hlt]

theorem pushSt_props (st : NumSt) (hd : Bool) (c : Nat) (hl : st.tok.length ≤ Gen.scanner_maxNameBytes) :
    (pushSt st hd c).tok.length ≤ Gen.scanner_maxNameBytes ∧ (pushSt st hd c).hasDot = hd ∧ (pushSt st hd c).first = false ∧
    (∀ t : Bytes, ((pushSt st hd c).tok.reverse ++ t).take Gen.scanner_maxNameBytes =
        (st.tok.reverse ++ c :: t).take Gen.scanner_maxNameBytes) ∧
    (∀ t : Bytes, ((pushSt st hd c).overflow || decide (((pushSt st hd c).tok.reverse ++ t).length > Gen.scanner_maxNameBytes)) =
        (st.overflow || decide ((st.tok.reverse ++ c :: t).length > Gen.scanner_maxNameBytes))) := by
  unfold pushSt
  by_cases hlt : st.tok.length < Gen.scanner_maxNameBytes
  · simp only [hlt, if_true]
    refine ⟨by simp; omega, by trivial, by trivial, fun t => by simp, fun t => ?_⟩
    first | (congr 2; simp; omega) | (simp; omega) | simp
  · simp only [hlt, if_false]
    have heq : st.tok.length = Gen.scanner_maxNameBytes := by omega
    refine ⟨hl, by trivial, by trivial, fun t => ?_, fun t => ?_⟩
    · rw [List.take_append_of_le_length (by simp [heq]), List.take_append_of_le_length (by simp [heq])]
    · simp; omega

/-- what the lemma `numAcc_scan` says about one run -/
def NumScanOk (a : Bool) (st : NumSt) (inp : Bytes) : Prop :=
  (scanSpec (numAcc a) st inp).2.1 = (scanNumTok a st.hasDot st.first inp).2 ∧
  (scanSpec (numAcc a) st inp).1.tok.reverse =
    (st.tok.reverse ++ (scanNumTok a st.hasDot st.first inp).1).take Gen.scanner_maxNameBytes ∧
  (scanSpec (numAcc a) st inp).1.overflow =
    (st.overflow || decide ((st.tok.reverse ++ (scanNumTok a st.hasDot st.first inp).1).length > Gen.scanner_maxNameBytes)) ∧
  (scanSpec (numAcc a) st inp).1.hasDot = (st.hasDot || (scanNumTok a st.hasDot st.first inp).1.contains 46)

theorem numScan_stop (a : Bool) (st : NumSt) (inp : Bytes) (hl : st.tok.length ≤ Gen.scanner_maxNameBytes)
    (h1 : scanSpec (numAcc a) st inp = (st, inp, decide (inp = [])))
    (h2 : scanNumTok a st.hasDot st.first inp = ([], inp)) : NumScanOk a st inp := by
  unfold NumScanOk
  rw [h1, h2]
  simp only [List.append_nil, List.length_reverse]
  refine ⟨by trivial, ?_, ?_, by simp⟩
  · rw [List.take_of_length_le (by simpa using hl)]
  · have : ¬ (st.tok.length > Gen.scanner_maxNameBytes) := by omega
    simp [this]

theorem numScan_step (a : Bool) (st : NumSt) (hd : Bool) (c : Nat) (cs : Bytes)
    (hl : st.tok.length ≤ Gen.scanner_maxNameBytes)
    (hdot : (st.hasDot || (c == 46)) = hd ∨ (c ≠ 46 ∧ hd = st.hasDot))
    (h1 : scanSpec (numAcc a) st (c :: cs) = scanSpec (numAcc a) (pushSt st hd c) cs)
    (h2 : scanNumTok a st.hasDot st.first (c :: cs) = (c :: (scanNumTok a hd false cs).1, (scanNumTok a hd false cs).2))
    (ih : NumScanOk a (pushSt st hd c) cs) : NumScanOk a st (c :: cs) := by
  obtain ⟨p1, p2, p3, p4, p5⟩ := pushSt_props st hd c hl
  unfold NumScanOk at ih ⊢
  rw [h1, h2]
  rw [p2, p3] at ih
  obtain ⟨i1, i2, i3, i4⟩ := ih
  simp only []
  refine ⟨i1, ?_, ?_, ?_⟩
  · rw [i2]; exact p4 _
  · rw [i3]; exact p5 _
  · rw [i4]
    rcases hdot with h | ⟨h, h'⟩
    · rw [← h]
      by_cases hc : c = 46
      · subst hc; simp
      · have hne : (c == 46) = false := by simpa using hc
        simp [List.contains_cons, hne, Ne.symm hc]
    · subst h'
      simp [List.contains_cons, Ne.symm h]

/-- the acceptor of `ReadNumber`/`ReadInteger` run over the whole input is `scanNumTok`: same
    rest; the collected token is the first `maxNameBytes` bytes of the token; `overflow` says the
    token was longer; `hasDot` says it contains a dot -/
theorem numAcc_scan (a : Bool) : ∀ (inp : Bytes) (st : NumSt), st.tok.length ≤ Gen.scanner_maxNameBytes →
    NumScanOk a st inp := by
  intro inp
  induction inp with
  | nil =>
    intro st hl
    exact numScan_stop a st [] hl (by simp [scanSpec]) (by simp [scanNumTok])
  | cons c cs ih =>
    intro st hl
    have pair : ∀ (h f : Bool), (match scanNumTok a h f cs with | (t, r) => (c :: t, r)) =
        (c :: (scanNumTok a h f cs).1, (scanNumTok a h f cs).2) := by
      intro h f; generalize scanNumTok a h f cs = q; obtain ⟨t, r⟩ := q; rfl
    by_cases h1 : (a && !st.hasDot && c == 46) = true
    · have hc : c = 46 := by simp at h1; exact h1.2
      have hnd : st.hasDot = false := by simp at h1; exact h1.1.2
      refine numScan_step a st true c cs hl (Or.inl (by simp [hc])) ?_ ?_ (ih _ (pushSt_props st true c hl).1)
      · conv => lhs; unfold scanSpec
        simp only [numAcc_eq, h1, if_true]
      · conv => lhs; unfold scanNumTok
        simp only [h1, if_true]
        all_goals exact pair true false
    · by_cases h2 : (st.first && (c == 43 || c == 45)) = true
      · have hc : c ≠ 46 := by intro hc; subst hc; simp at h2
        refine numScan_step a st st.hasDot c cs hl (Or.inr ⟨hc, rfl⟩) ?_ ?_ (ih _ (pushSt_props st st.hasDot c hl).1)
        · conv => lhs; unfold scanSpec
          simp only [numAcc_eq, h1, h2, Bool.false_eq_true, if_false, if_true]
        · conv => lhs; unfold scanNumTok
          simp only [h1, h2, Bool.false_eq_true, if_false, if_true]
          all_goals exact pair st.hasDot false
      · by_cases h3 : isDigit c = true
        · have hc : c ≠ 46 := by intro hc; subst hc; simp [isDigit] at h3
          refine numScan_step a st st.hasDot c cs hl (Or.inr ⟨hc, rfl⟩) ?_ ?_ (ih _ (pushSt_props st st.hasDot c hl).1)
          · conv => lhs; unfold scanSpec
            simp only [numAcc_eq, h1, h2, h3, Bool.false_eq_true, if_false, if_true]
          · conv => lhs; unfold scanNumTok
            simp only [h1, h2, h3, Bool.false_eq_true, if_false, if_true]
            all_goals exact pair st.hasDot false
        · refine numScan_stop a st (c :: cs) hl ?_ ?_
          · conv => lhs; unfold scanSpec
            simp only [numAcc_eq, h1, h2, h3, Bool.false_eq_true, if_false]
            simp
          · conv => lhs; unfold scanNumTok
            simp only [h1, h2, h3, Bool.false_eq_true, if_false]

theorem hardErr_eofOrNone (e : Option Err) (h : e = none ∨ e = some .eof) : hardErr e = none := by
  rcases h with h | h <;> subst h <;> rfl

section
variable {d : Bytes} {src : Source} (g : GoodOver d src) {sf : Nat} (hsf : d.length + 2 ≤ sf)
include g hsf

/-- `ReadNumber` refines `readNumber` -/
theorem readNumber_refines (s : SB) (gs : Good d s) :
    Rel d (readNumberBuf src sf s) (readNumber (view d s)) := by
  obtain ⟨h1, h2, g1⟩ := scan_good g hsf (numAcc true) true ⟨false, true, [], false⟩ s gs
  have N := numAcc_scan true (view d s) ⟨false, true, [], false⟩ (by simp)
  unfold NumScanOk at N
  rw [h1] at N
  unfold readNumberBuf readNumber
  generalize scanBytes src (numAcc true) sf true ⟨false, true, [], false⟩ s = r at h1 h2 g1 N
  obtain ⟨s1, st, e⟩ := r
  simp only [] at h1 h2 g1 N ⊢
  rw [hardErr_eofOrNone e h2]
  generalize scanNumTok true false true (view d s) = q at N
  obtain ⟨tok, rest⟩ := q
  simp only [List.reverse_nil, List.nil_append, Bool.false_or] at N ⊢
  obtain ⟨n1, n2, n3, n4⟩ := N
  by_cases hov : tok.length > Gen.scanner_maxNameBytes
  · have : st.overflow = true := by rw [n3]; simp [hov]
    simp only [this, hov, if_true]
    exact relE_err s1 _ g1.nopanic trivial
  · have : st.overflow = false := by rw [n3]; simp [hov]
    simp only [this, hov, Bool.false_eq_true, if_false]
    have ht : st.tok.reverse = tok := by rw [n2]; exact List.take_of_length_le (by omega)
    rw [ht, n4]
    cases hp : (if tok.contains 46 = true then none else parseInt64 tok) with
    | some i => simp only []; exact relE_ok s1 _ _ g1 n1
    | none =>
      simp only []
      split
      · exact relE_ok s1 _ _ g1 n1
      · exact relE_err s1 _ g1.nopanic trivial

/-- `ReadInteger` refines `readInteger` when the input does not end in the leading white space
    (which is how `ReadDict` uses it; at the end of the input the Go function returns `io.EOF`
    where the whole-input model says malformed) -/
theorem readInteger_refines (s : SB) (gs : Good d s) (hws : (skipWS (view d s)).2 = false) :
    Rel d (readIntegerBuf src sf s) (readInteger (view d s)) := by
  obtain ⟨w1, w2, gw⟩ := ws_good g hsf s gs
  unfold readIntegerBuf readInteger
  generalize skipWhiteSpace src sf s = r at w1 w2 gw
  obtain ⟨s1, e1⟩ := r
  simp only [] at w1 w2 gw ⊢
  rw [w1] at hws ⊢
  simp only [] at hws ⊢
  have he1 : e1 = none := by
    rcases w2 with h | h
    · exact h
    · subst h; simp at hws
  subst he1
  simp only []
  obtain ⟨h1, h2, g1⟩ := scan_good g hsf (numAcc false) true ⟨false, true, [], false⟩ s1 gw
  have N := numAcc_scan false (view d s1) ⟨false, true, [], false⟩ (by simp)
  unfold NumScanOk at N
  rw [h1] at N
  generalize scanBytes src (numAcc false) sf true ⟨false, true, [], false⟩ s1 = r at h1 h2 g1 N
  obtain ⟨s2, st, e⟩ := r
  simp only [] at h1 h2 g1 N ⊢
  generalize scanNumTok false false true (view d s1) = q at N
  obtain ⟨tok, rest⟩ := q
  simp only [List.reverse_nil, List.nil_append, Bool.false_or] at N ⊢
  obtain ⟨n1, n2, n3, n4⟩ := N
  rcases h2 with h | h <;> subst h <;> simp only []
  all_goals
    by_cases hov : tok.length > Gen.scanner_maxNameBytes
    · have : st.overflow = true := by rw [n3]; simp [hov]
      simp only [this, hov, if_true]
      exact relE_err s2 _ g1.nopanic trivial
    · have : st.overflow = false := by rw [n3]; simp [hov]
      simp only [this, hov, Bool.false_eq_true, if_false]
      have ht : st.tok.reverse = tok := by rw [n2]; exact List.take_of_length_le (by omega)
      rw [ht]
      cases hp : parseInt64 tok with
      | some i => simp only []; exact relE_ok s2 _ _ g1 n1
      | none => simp only []; exact relE_err s2 _ g1.nopanic trivial

end

/-! ## `ReadString` -/

section
variable {d : Bytes} {src : Source} (g : GoodOver d src)
include g

/-- the octal escape loop refines `readOctTail` -/
theorem readOctTail_refines : ∀ (k oct : Nat) (s : SB), Good d s →
    (readOctTailBuf src oct k s).2 = .ok (readOctTail oct k (view d s)).1 ∧
    Good d (readOctTailBuf src oct k s).1 ∧
    view d (readOctTailBuf src oct k s).1 = (readOctTail oct k (view d s)).2 := by
  intro k
  induction k with
  | zero => intro oct s gs; unfold readOctTailBuf readOctTail; exact ⟨rfl, gs, rfl⟩
  | succ k ih =>
    intro oct s gs
    obtain ⟨s1, hp, g1, v1, hadv⟩ := peek_adv_good g 1 (by decide) s gs
    unfold readOctTailBuf
    rw [hp]
    simp only [hardErr_none]
    cases hv : view d s with
    | nil =>
      unfold readOctTail
      simp only [List.take_nil]
      exact ⟨by trivial, g1, by rw [v1, hv]⟩
    | cons c cs =>
      unfold readOctTail
      simp only [List.take_succ_cons, List.take_zero]
      by_cases ho : isOct c = true
      · simp only [ho, if_true]
        have := hadv 1 (by rw [hv]; simp)
        rw [hv] at this
        simp only [List.drop_succ_cons, List.drop_zero] at this
        have I := ih ((oct * 8 + (c - 48)) % 256) (adv 1 s1) this.1
        rw [this.2] at I
        exact I
      · simp only [ho, Bool.false_eq_true, if_false]
        exact ⟨by trivial, g1, by rw [v1, hv]⟩

/-- the loop of `ReadString` refines `readStringBody`, fuel for fuel -/
theorem readStringLoop_refines : ∀ (fuel level : Nat) (ign : Bool) (len : Nat) (s : SB), Good d s →
    Rel d (readStringLoopBuf src fuel level ign len s) (readStringBody fuel level ign len (view d s)) := by
  intro fuel
  induction fuel with
  | zero =>
    intro level ign len s gs
    unfold readStringLoopBuf readStringBody
    exact relE_err s _ gs.nopanic trivial
  | succ fuel ih =>
    intro level ign len s gs
    obtain ⟨hnil, hcons⟩ := byte_good g s gs
    unfold readStringLoopBuf readStringBody
    by_cases hlen : len > Gen.scanner_maxStringBytes
    · simp only [hlen, if_true]; exact relE_err s _ gs.nopanic trivial
    simp only [hlen, if_false]
    have hpan : (readByte src s).1.panicked = false := by rw [readByte_panicked]; exact gs.nopanic
    cases hv : view d s with
    | nil =>
      have := hnil hv
      generalize readByte src s = q at this hpan
      obtain ⟨s1, r⟩ := q
      simp only [] at this hpan
      subst this
      simp only []
      exact relE_err s1 _ hpan trivial
    | cons b rest =>
      obtain ⟨hb, g1, v1⟩ := hcons b rest hv
      generalize readByte src s = q at hb g1 v1
      obtain ⟨s1, r⟩ := q
      simp only [] at hb g1 v1
      subst hb
      simp only []
      -- the recursive calls on the state after one byte
      have rec1 : ∀ lvl ig ln, Rel d (readStringLoopBuf src fuel lvl ig ln s1) (readStringBody fuel lvl ig ln rest) := by
        intro lvl ig ln; rw [← v1]; exact ih lvl ig ln s1 g1
      by_cases c1 : (ign && b == 10) = true
      · simp only [c1, if_true]; exact rec1 _ _ _
      simp only [c1, Bool.false_eq_true, if_false]
      by_cases c2 : (b == 40) = true
      · simp only [c2, if_true]; exact relE_consB b (rec1 _ _ _)
      simp only [c2, Bool.false_eq_true, if_false]
      by_cases c3 : (b == 41) = true
      · simp only [c3, if_true]
        by_cases c4 : (level == 1) = true
        · simp only [c4, if_true]; exact relE_ok s1 _ _ g1 v1
        · simp only [c4, Bool.false_eq_true, if_false]; exact relE_consB b (rec1 _ _ _)
      simp only [c3, Bool.false_eq_true, if_false]
      by_cases c5 : (b == 92) = true
      · simp only [c5, if_true]
        obtain ⟨hnil2, hcons2⟩ := byte_good g s1 g1
        have hpan2 : (readByte src s1).1.panicked = false := by rw [readByte_panicked]; exact g1.nopanic
        rw [v1] at hnil2 hcons2
        cases rest with
        | nil =>
          have := hnil2 rfl
          generalize readByte src s1 = q at this hpan2
          obtain ⟨s2, r⟩ := q
          simp only [] at this hpan2
          subst this
          simp only []
          exact relE_err s2 _ hpan2 trivial
        | cons esc rest' =>
          obtain ⟨hb2, g2, v2⟩ := hcons2 esc rest' rfl
          generalize readByte src s1 = q at hb2 g2 v2
          obtain ⟨s2, r⟩ := q
          simp only [] at hb2 g2 v2
          subst hb2
          simp only []
          have rec2 : ∀ lvl ig ln, Rel d (readStringLoopBuf src fuel lvl ig ln s2) (readStringBody fuel lvl ig ln rest') := by
            intro lvl ig ln; rw [← v2]; exact ih lvl ig ln s2 g2
          by_cases e1 : (esc == 110) = true
          · simp only [e1, if_true]; exact relE_consB _ (rec2 _ _ _)
          simp only [e1, Bool.false_eq_true, if_false]
          by_cases e2 : (esc == 114) = true
          · simp only [e2, if_true]; exact relE_consB _ (rec2 _ _ _)
          simp only [e2, Bool.false_eq_true, if_false]
          by_cases e3 : (esc == 116) = true
          · simp only [e3, if_true]; exact relE_consB _ (rec2 _ _ _)
          simp only [e3, Bool.false_eq_true, if_false]
          by_cases e4 : (esc == 98) = true
          · simp only [e4, if_true]; exact relE_consB _ (rec2 _ _ _)
          simp only [e4, Bool.false_eq_true, if_false]
          by_cases e5 : (esc == 102) = true
          · simp only [e5, if_true]; exact relE_consB _ (rec2 _ _ _)
          simp only [e5, Bool.false_eq_true, if_false]
          by_cases e6 : (esc == 10) = true
          · simp only [e6, if_true]; exact rec2 _ _ _
          simp only [e6, Bool.false_eq_true, if_false]
          by_cases e7 : (esc == 13) = true
          · simp only [e7, if_true]; exact rec2 _ _ _
          simp only [e7, Bool.false_eq_true, if_false]
          by_cases e8 : isOct esc = true
          · simp only [e8, if_true]
            obtain ⟨o1, o2, o3⟩ := readOctTail_refines g 2 (esc - 48) s2 g2
            rw [v2] at o1 o3
            generalize readOctTailBuf src (esc - 48) 2 s2 = q at o1 o2 o3
            obtain ⟨s3, r3⟩ := q
            simp only [] at o1 o2 o3
            subst o1
            generalize readOctTail (esc - 48) 2 rest' = p at o3 ⊢
            obtain ⟨v, r2⟩ := p
            simp only [] at o3 ⊢
            exact relE_consB v (by rw [← o3]; exact ih _ _ _ s3 o2)
          · simp only [e8, Bool.false_eq_true, if_false]; exact relE_consB _ (rec2 _ _ _)
      simp only [c5, Bool.false_eq_true, if_false]
      by_cases c6 : (b == 13) = true
      · simp only [c6, if_true]; exact relE_consB _ (rec1 _ _ _)
      · simp only [c6, Bool.false_eq_true, if_false]; exact relE_consB _ (rec1 _ _ _)

end

/-- `readStringBody` does not depend on its fuel once the fuel exceeds the input length -/
theorem readStringBody_fuel : ∀ (f1 f2 lvl : Nat) (ig : Bool) (len : Nat) (inp : Bytes),
    inp.length + 1 ≤ f1 → inp.length + 1 ≤ f2 →
    readStringBody f1 lvl ig len inp = readStringBody f2 lvl ig len inp := by
  intro f1
  induction f1 with
  | zero => intro f2 lvl ig len inp h1 _; omega
  | succ f1 ih =>
    intro f2 lvl ig len inp h1 h2
    obtain ⟨f2, rfl⟩ : ∃ k, f2 = k + 1 := ⟨f2 - 1, by omega⟩
    cases inp with
    | nil => unfold readStringBody; rfl
    | cons b rest =>
      simp only [List.length_cons] at h1 h2
      have e1 : ∀ lvl ig ln, readStringBody f1 lvl ig ln rest = readStringBody f2 lvl ig ln rest :=
        fun lvl ig ln => ih f2 lvl ig ln rest (by omega) (by omega)
      cases rest with
      | nil =>
        conv => lhs; unfold readStringBody
        conv => rhs; unfold readStringBody
        simp only [e1]
      | cons esc rest' =>
        simp only [List.length_cons] at h1 h2
        have e2 : ∀ lvl ig ln, readStringBody f1 lvl ig ln rest' = readStringBody f2 lvl ig ln rest' :=
          fun lvl ig ln => ih f2 lvl ig ln rest' (by omega) (by omega)
        have hoct := C01L.readOctTail_len 2 (esc - 48) rest'
        have e3 : ∀ lvl ig ln, readStringBody f1 lvl ig ln (readOctTail (esc - 48) 2 rest').2 =
            readStringBody f2 lvl ig ln (readOctTail (esc - 48) 2 rest').2 :=
          fun lvl ig ln => ih f2 lvl ig ln _ (by omega) (by omega)
        conv => lhs; unfold readStringBody
        conv => rhs; unfold readStringBody
        simp only [e1, e2, e3]

section
variable {d : Bytes} {src : Source} (g : GoodOver d src) {sf : Nat} (hsf : d.length + 2 ≤ sf)
include g hsf

/-- `ReadString` refines `readString` -/
theorem readString_refines (s : SB) (gs : Good d s) :
    Rel d (readStringBuf src sf s) (readString (view d s)) := by
  unfold readStringBuf readString
  have hl : (view d s).length + 1 ≤ sf := by have := gs.vlen; omega
  rw [readStringBody_fuel ((view d s).length + 1) sf 1 false 0 (view d s) (Nat.le_refl _) hl]
  exact readStringLoop_refines g sf 1 false 0 s gs

end

/-! ## `ReadHexString` -/

/-- prepend bytes to a successful result -/
def appRes (pre : Bytes) : Except Err (Bytes × Bytes) → Except Err (Bytes × Bytes)
  | .ok (v, r) => .ok (pre ++ v, r)
  | .error e => .error e

theorem appRes_consRes (pre : Bytes) (x : Nat) (r : Except Err (Bytes × Bytes)) :
    appRes pre (consRes x r) = appRes (pre ++ [x]) r := by
  cases r with
  | error e => rfl
  | ok p => obtain ⟨v, rest⟩ := p; simp [appRes, consRes]

theorem appRes_nil (r : Except Err (Bytes × Bytes)) : appRes [] r = r := by
  cases r with
  | error e => rfl
  | ok p => obtain ⟨v, rest⟩ := p; rfl

/-- what `ReadHexString` does after `ScanBytes` has stopped: the final odd digit (subject to the
    cap), then `SkipString(">")` -/
def hexFinish (st : HexSt) (rest : Bytes) : Except Err (Bytes × Bytes) :=
  match (match st.pending with
      | some h => if st.res.length ≥ Gen.scanner_maxStringBytes then none else some ((16 * h) :: st.res)
      | none => some st.res) with
  | none => .error .malformed
  | some res =>
    match rest with
    | 62 :: cs => .ok (res.reverse, cs)
    | _ => .error .malformed

theorem hexVal_62 : hexVal 62 = none := by decide

/-- the acceptor of `ReadHexString` run over the whole input, followed by `hexFinish`, is
    `readHexBody` -/
theorem hexAcc_scan : ∀ (inp : Bytes) (st : HexSt),
    appRes st.res.reverse (readHexBody st.pending st.res.length inp) =
      if (scanSpec hexAcc st inp).2.2 = true then .error .eof
      else hexFinish (scanSpec hexAcc st inp).1 (scanSpec hexAcc st inp).2.1 := by
  intro inp
  induction inp with
  | nil => intro st; simp [scanSpec, readHexBody, appRes]
  | cons c cs ih =>
    intro st
    obtain ⟨pending, res⟩ := st
    conv => lhs; unfold readHexBody
    conv => rhs; unfold scanSpec
    cases hx : hexVal c with
    | some dg =>
      have hc : (c == 62) = false := by
        cases hb : (c == 62) with
        | false => rfl
        | true => have : c = 62 := by simpa using hb
                  subst this; rw [hexVal_62] at hx; cases hx
      simp only [hc, Bool.false_eq_true, if_false, hexAcc, hx]
      cases pending with
      | none =>
        simp only []
        exact ih ⟨some dg, res⟩
      | some h =>
        simp only []
        by_cases hl : res.length ≥ Gen.scanner_maxStringBytes
        · simp only [hl, if_true, Bool.false_eq_true, if_false, hexFinish, appRes]
        · simp only [hl, if_false]
          rw [appRes_consRes]
          have := ih ⟨none, (16 * h + dg) :: res⟩
          simp only [List.reverse_cons, List.length_cons] at this
          exact this
    | none =>
      by_cases hc : (c == 62) = true
      · have hc' : c = 62 := by simpa using hc
        subst hc'
        simp only [beq_self_eq_true, if_true, hexAcc, hexVal_62, Bool.false_eq_true, if_false, hexFinish]
        cases pending with
        | none => simp [appRes]
        | some h =>
          simp only []
          by_cases hl : res.length ≥ Gen.scanner_maxStringBytes
          · simp only [hl, if_true, appRes]
          · simp only [hl, if_false, appRes, List.reverse_cons]
      · simp only [hc, Bool.false_eq_true, if_false, hexAcc, hx]
        exact ih ⟨pending, res⟩

section
variable {d : Bytes} {src : Source} (g : GoodOver d src) {sf : Nat} (hsf : d.length + 2 ≤ sf)
include g hsf

/-- `ReadHexString` refines `readHexString` -/
theorem readHexString_refines (s : SB) (gs : Good d s) :
    Rel d (readHexStringBuf src sf s) (readHexString (view d s)) := by
  obtain ⟨h1, h2, g1⟩ := scan_good g hsf hexAcc true ⟨none, []⟩ s gs
  have H := hexAcc_scan (view d s) ⟨none, []⟩
  simp only [List.reverse_nil, List.length_nil, appRes_nil] at H
  rw [h1] at H
  unfold readHexStringBuf readHexString
  rw [H]
  generalize scanBytes src hexAcc sf true ⟨none, []⟩ s = r at h1 h2 g1
  obtain ⟨s1, st, e⟩ := r
  simp only [] at h1 h2 g1 ⊢
  rcases h2 with he | he <;> subst he
  · simp only [decide_false, Bool.false_eq_true, if_false]   -- `ScanBytes` stopped
    unfold hexFinish
    -- `SkipString(">")` against the last match of `hexFinish`
    have tail : ∀ res : Bytes,
        Rel d (match skipString src [62] s1 with
                | (s2, e2) => match e2 with
                  | some e => (s2, Except.error e)
                  | none => (s2, Except.ok res.reverse))
              (match view d s1 with
                | 62 :: cs => Except.ok (res.reverse, cs)
                | _ => Except.error Err.malformed) := by
      intro res
      obtain ⟨hyes, hno⟩ := skipstr_good g [62] (by decide) s1 g1
      generalize skipString src [62] s1 = q at hyes hno
      obtain ⟨s2, e2⟩ := q
      simp only [] at hyes hno
      cases hv : view d s1 with
      | nil =>
        rw [hv] at hno
        obtain ⟨a, b, _⟩ := hno (by simp)
        subst a
        exact relE_err s2 _ b.nopanic trivial
      | cons c cs =>
        rw [hv] at hyes hno
        by_cases hc : c = 62
        · subst hc
          obtain ⟨a, b, c'⟩ := hyes (by simp)
          subst a
          simp only [List.length_cons, List.length_nil, Nat.zero_add, List.drop_succ_cons, List.drop_zero] at c'
          exact relE_ok s2 _ _ b c'
        · obtain ⟨a, b, _⟩ := hno (by simp; exact hc)
          subst a
          simp only []
          split
          · rename_i heq; cases heq; exact (hc rfl).elim
          · exact relE_err s2 _ b.nopanic trivial
    cases hp : st.pending with
    | none => simp only []; exact tail st.res
    | some h =>
      simp only []
      by_cases hl : st.res.length ≥ Gen.scanner_maxStringBytes
      · simp only [hl, if_true]; exact relE_err s1 _ g1.nopanic trivial
      · simp only [hl, if_false]; exact tail (16 * h :: st.res)
  · simp only [decide_true, if_true]
    exact relE_err s1 _ g1.nopanic trivial

end

/-! ## the mutual recursion: `ReadObject`, `ReadArray`, `ReadDict` -/

theorem isPrefixOf_take : ∀ (pat inp : Bytes) (n : Nat), pat.length ≤ n →
    isPrefixOf pat (inp.take n) = isPrefixOf pat inp := by
  intro pat
  induction pat with
  | nil => intro inp n _; simp [isPrefixOf]
  | cons a as ih =>
    intro inp n hn
    cases n with
    | zero => simp at hn
    | succ n =>
      cases inp with
      | nil => simp [isPrefixOf]
      | cons b bs =>
        simp only [List.take_succ_cons, isPrefixOf]
        rw [ih bs n (by simp at hn; omega)]

theorem isPrefixOf_len : ∀ (pat inp : Bytes), isPrefixOf pat inp = true → pat.length ≤ inp.length := by
  intro pat
  induction pat with
  | nil => intro inp _; simp
  | cons a as ih =>
    intro inp h
    cases inp with
    | nil => simp [isPrefixOf] at h
    | cons b bs =>
      simp only [isPrefixOf, Bool.and_eq_true] at h
      have := ih bs h.2
      simp; omega

theorem skipWS_false_ne : ∀ inp : Bytes,
    ((skipWS inp).2 = false → (skipWS inp).1 ≠ []) ∧ ((skipComment inp).2 = false → (skipComment inp).1 ≠ []) := by
  intro inp
  induction inp with
  | nil => simp [skipWS, skipComment]
  | cons c cs ih =>
    obtain ⟨h1, h2⟩ := ih
    constructor
    · unfold skipWS
      split
      · exact h2
      · split
        · exact h1
        · intro _; simp
    · unfold skipComment
      split
      · exact h1
      · exact h2

theorem rel_mapErrB {α : Type} {d : Bytes} {r : SB × Except Err α} {m : Except Err (α × Bytes)} (h : Rel d r m) :
    Rel d (mapErrB r) (m.mapError Err.inComposite) := by
  unfold Rel RelE mapErrB at *
  cases m with
  | error e => simp only [Except.mapError] at h ⊢; rw [h.1]; exact ⟨rfl, h.2⟩
  | ok p => obtain ⟨v, rest⟩ := p; simp only [Except.mapError] at h ⊢; rw [h.1]; exact ⟨rfl, h.2⟩

/-- wrapping the value of a token into an object, on both sides -/
theorem rel_wrap {α : Type} {d : Bytes} (f : α → Obj) {r : SB × Except Err α} {m : Except Err (α × Bytes)} (h : Rel d r m) :
    Rel d (match r with | (s2, .ok v) => (s2, Except.ok (f v)) | (s2, .error e) => (s2, Except.error e))
      (m.map fun p => (f p.1, p.2)) := by
  obtain ⟨s2, res⟩ := r
  unfold Rel RelE at *
  cases m with
  | error e => simp only [Except.map] at h ⊢; obtain ⟨h1, h2⟩ := h; subst h1; exact ⟨rfl, h2⟩
  | ok p => obtain ⟨v, rest⟩ := p; simp only [Except.map] at h ⊢; obtain ⟨h1, h2⟩ := h; subst h1; exact ⟨rfl, h2⟩

theorem lt_lt (c : Nat) (rest : Bytes) :
    startsWith (c :: rest.take 4) [60, 60] = (c == 60 && rest.head? == some 60) := by
  cases rest with
  | nil => simp [startsWith, isPrefixOf]
  | cons r0 rs =>
    simp only [startsWith, isPrefixOf, List.take_succ_cons, List.head?_cons, Bool.and_true]
    have e1 : (60 == c) = (c == 60) := Bool.beq_comm
    have e2 : (60 == r0) = (r0 == 60) := Bool.beq_comm
    rw [e1, e2]; simp

/-- the invariant of `ReadArray`'s counter -/
abbrev IntsOk (acc : List Obj) (ints : Nat) : Prop := ints ≤ C01L.leadInts acc

section
variable {d : Bytes} {src : Source} (g : GoodOver d src) {sf : Nat} (hsf : d.length + 2 ≤ sf)

/-- the five refinement statements at one fuel -/
def RefAt (d : Bytes) (src : Source) (sf fuel : Nat) : Prop :=
  (∀ depth s, Good d s → Rel d (readObjectBuf src sf fuel depth s) (readObject fuel depth (view d s))) ∧
  (∀ depth s, Good d s → Rel d (readArrayBuf src sf fuel depth s) (readArray fuel depth (view d s))) ∧
  (∀ depth acc ints s, Good d s → IntsOk acc ints →
      Rel d (readArrayLoopBuf src sf fuel depth acc ints s) (readArrayLoop fuel depth acc ints (view d s))) ∧
  (∀ depth s, Good d s → Rel d (readDictBuf src sf fuel depth s) (readDict fuel depth (view d s))) ∧
  (∀ depth acc s, Good d s → Rel d (readDictLoopBuf src sf fuel depth acc s) (readDictLoop fuel depth acc (view d s)))

theorem ref_zero : RefAt d src sf 0 := by
  refine ⟨?_, ?_, ?_, ?_, ?_⟩
  · intro depth s gs; unfold readObjectBuf readObject; exact relE_err s _ gs.nopanic trivial
  · intro depth s gs; unfold readArrayBuf readArray; exact relE_err s _ gs.nopanic trivial
  · intro depth acc ints s gs _; unfold readArrayLoopBuf readArrayLoop; exact relE_err s _ gs.nopanic trivial
  · intro depth s gs; unfold readDictBuf readDict; exact relE_err s _ gs.nopanic trivial
  · intro depth acc s gs; unfold readDictLoopBuf readDictLoop; exact relE_err s _ gs.nopanic trivial

omit g hsf in
theorem ref_array (fuel : Nat) (ih : RefAt d src sf fuel) :
    ∀ depth s, Good d s → Rel d (readArrayBuf src sf (fuel + 1) depth s) (readArray (fuel + 1) depth (view d s)) := by
  intro depth s gs
  unfold readArrayBuf readArray
  split
  · exact relE_err s _ gs.nopanic trivial
  · exact rel_mapErrB (ih.2.2.1 (depth + 1) [] 0 s gs (Nat.zero_le _))

end

section
variable {d : Bytes} {src : Source} (g : GoodOver d src) {sf : Nat} (hsf : d.length + 2 ≤ sf)
include g hsf

/-- `SkipWhiteSpace` followed by what the callers do with its error, in one statement:
    either the end of the input was reached (the call returns `io.EOF`) or the scanner stands on
    a byte `c` that is not white space -/
theorem ws_cases (s : SB) (gs : Good d s) :
    ((skipWhiteSpace src sf s).2 = some .eof ∧ (skipWS (view d s)).2 = true ∧ (skipWhiteSpace src sf s).1.panicked = false) ∨
    ((skipWhiteSpace src sf s).2 = none ∧ Good d (skipWhiteSpace src sf s).1 ∧
      ∃ c rest, skipWS (view d s) = (c :: rest, false) ∧ view d (skipWhiteSpace src sf s).1 = c :: rest) := by
  obtain ⟨w1, w2, gw⟩ := ws_good g hsf s gs
  rcases w2 with h | h
  · right
    rw [h] at w1
    have hd : decide ((none : Option Err) = some Err.eof) = false := by decide
    rw [hd] at w1
    have hne := (skipWS_false_ne (view d s)).1 (by rw [w1])
    rw [w1] at hne
    simp only [] at hne
    cases hv : view d (skipWhiteSpace src sf s).1 with
    | nil => exact absurd hv hne
    | cons c rest => exact ⟨h, gw, c, rest, by rw [w1, hv], rfl⟩
  · left
    rw [h] at w1
    exact ⟨h, by rw [w1]; simp, gw.nopanic⟩

theorem ref_arrLoop (fuel : Nat) (ih : RefAt d src sf fuel) :
    ∀ depth acc ints s, Good d s → IntsOk acc ints →
      Rel d (readArrayLoopBuf src sf (fuel + 1) depth acc ints s) (readArrayLoop (fuel + 1) depth acc ints (view d s)) := by
  obtain ⟨ihO, ihA, ihAL, ihD, ihDL⟩ := ih
  intro depth acc ints s gs hints
  unfold readArrayLoopBuf readArrayLoop
  rcases ws_cases g hsf s gs with ⟨he, hm, hp⟩ | ⟨he, gw, c, rest, hm, hv⟩
  · generalize skipWhiteSpace src sf s = q at he hp
    obtain ⟨s1, e1⟩ := q
    simp only [] at he hp
    subst he
    generalize skipWS (view d s) = m at hm
    obtain ⟨r, b⟩ := m
    simp only [] at hm
    subst hm
    exact relE_err s1 _ hp trivial
  · generalize skipWhiteSpace src sf s = q at he gw hv
    obtain ⟨s1, e1⟩ := q
    simp only [] at he gw hv
    subst he
    rw [hm]
    simp only []
    obtain ⟨s2, hpk, g2, v2, hadv⟩ := peek_adv_good g 1 (by decide) s1 gw
    rw [hpk, hv]
    simp only [List.take_succ_cons, List.take_zero]
    have hadv1 := hadv 1 (by rw [hv]; simp)
    rw [hv] at hadv1
    simp only [List.drop_succ_cons, List.drop_zero] at hadv1
    by_cases h93 : (c == 93) = true
    · simp only [h93, if_true]
      split
      · exact relE_err s2 _ g2.nopanic trivial
      · exact relE_ok _ _ _ hadv1.1 hadv1.2
    simp only [h93, Bool.false_eq_true, if_false]
    by_cases hR : (decide (ints ≥ 2) && c == 82) = true
    · simp only [hR, if_true]
      have h2 : 2 ≤ ints := by simp at hR; exact hR.1
      obtain ⟨b, a, acc', rfl⟩ := C01L.leadInts_two (Nat.le_trans h2 hints)
      simp only []
      rw [← hadv1.2]
      exact ihAL depth _ 0 (adv 1 s2) hadv1.1 (Nat.zero_le _)
    simp only [hR, Bool.false_eq_true, if_false]
    have RO := ihO depth s2 g2
    rw [v2, hv] at RO
    generalize readObjectBuf src sf fuel depth s2 = q at RO
    obtain ⟨s3, ro⟩ := q
    cases hm2 : readObject fuel depth (c :: rest) with
    | error e =>
      rw [hm2] at RO
      obtain ⟨r1, r2, _⟩ := RO
      simp only [] at r1 r2
      subst r1
      simp only []
      exact relE_err s3 _ r2 trivial
    | ok p =>
      obtain ⟨o, r⟩ := p
      rw [hm2] at RO
      obtain ⟨r1, r2, r3⟩ := RO
      simp only [] at r1 r2 r3
      subst r1
      simp only []
      split
      · exact relE_err s3 _ r2.nopanic trivial
      · rw [← r3]
        refine ihAL depth (o :: acc) _ s3 r2 ?_
        have := C01L.nextIntsM_le o ints acc hints
        cases o <;> simpa [C01L.nextIntsM] using this

end

section
variable {d : Bytes} {src : Source} (g : GoodOver d src) {sf : Nat} (hsf : d.length + 2 ≤ sf)
include g hsf

theorem ref_object (fuel : Nat) (ih : RefAt d src sf fuel) :
    ∀ depth s, Good d s → Rel d (readObjectBuf src sf (fuel + 1) depth s) (readObject (fuel + 1) depth (view d s)) := by
  obtain ⟨ihO, ihA, ihAL, ihD, ihDL⟩ := ih
  intro depth s gs
  obtain ⟨s1, hp, g1, v1, hadv⟩ := peek_adv_good g 5 (by decide) s gs
  unfold readObjectBuf readObject
  rw [hp]
  simp only []
  cases hv : view d s with
  | nil => simp only [List.take_nil]; exact relE_err s1 _ g1.nopanic trivial
  | cons c rest =>
    have hv1 : view d s1 = c :: rest := by rw [v1, hv]
    rw [hv] at hadv
    simp only [List.take_succ_cons]
    -- the keyword tests look at the window of five bytes only
    have kw : ∀ pat : Bytes, pat.length ≤ 5 → startsWith (c :: rest.take 4) pat = startsWith (c :: rest) pat := by
      intro pat hl
      have := isPrefixOf_take pat (c :: rest) 5 hl
      simpa [startsWith] using this
    have kwadv : ∀ pat : Bytes, pat.length ≤ 5 → startsWith (c :: rest) pat = true →
        Good d (adv pat.length s1) ∧ view d (adv pat.length s1) = (c :: rest).drop pat.length := by
      intro pat hl hs
      have h1 := isPrefixOf_len pat (c :: rest) hs
      exact hadv pat.length (by simp at h1 ⊢; omega)
    simp only [kw kw_null (by decide), kw kw_true (by decide), kw kw_false (by decide), lt_lt]
    by_cases h1 : startsWith (c :: rest) kw_null = true
    · simp only [h1, if_true]
      have := kwadv kw_null (by decide) h1
      exact relE_ok _ _ _ this.1 this.2
    simp only [h1, Bool.false_eq_true, if_false]
    by_cases h2 : startsWith (c :: rest) kw_true = true
    · simp only [h2, if_true]
      have := kwadv kw_true (by decide) h2
      exact relE_ok _ _ _ this.1 this.2
    simp only [h2, Bool.false_eq_true, if_false]
    by_cases h3 : startsWith (c :: rest) kw_false = true
    · simp only [h3, if_true]
      have := kwadv kw_false (by decide) h3
      exact relE_ok _ _ _ this.1 this.2
    simp only [h3, Bool.false_eq_true, if_false]
    have hadv1 := hadv 1 (by simp)
    simp only [List.drop_succ_cons, List.drop_zero] at hadv1
    by_cases h4 : (c == 47) = true
    · simp only [h4, if_true]
      have R := relE_weaken (readName_refines g hsf s1 g1)
      rw [hv1] at R
      generalize readNameBuf src sf s1 = q at R
      obtain ⟨s2, res⟩ := q
      cases hm : readName (c :: rest) with
      | error e =>
        rw [hm] at R
        obtain ⟨r1, r2, _⟩ := R
        simp only [] at r1 r2
        subst r1
        simp only [Except.map]
        exact relE_err s2 _ r2 trivial
      | ok p =>
        obtain ⟨v, r⟩ := p
        rw [hm] at R
        obtain ⟨r1, r2, r3⟩ := R
        simp only [] at r1 r2 r3
        subst r1
        simp only [Except.map]
        exact relE_ok s2 _ _ r2 r3
    simp only [h4, Bool.false_eq_true, if_false]
    by_cases h5 : (isDigit c || c == 43 || c == 45 || c == 46) = true
    · simp only [h5, if_true]
      have R := readNumber_refines g hsf s1 g1
      rw [hv1] at R
      exact R
    simp only [h5, Bool.false_eq_true, if_false]
    by_cases h6 : (c == 60 && rest.head? == some 60) = true
    · simp only [h6, if_true]
      have RD := ihD depth s1 g1
      rw [hv1] at RD
      generalize readDictBuf src sf fuel depth s1 = q at RD
      obtain ⟨s2, rd⟩ := q
      cases hm : readDict fuel depth (c :: rest) with
      | error e =>
        rw [hm] at RD
        obtain ⟨r1, r2, _⟩ := RD
        simp only [] at r1 r2
        subst r1
        simp only []
        exact relE_err s2 _ r2 trivial
      | ok p =>
        obtain ⟨dd, r⟩ := p
        rw [hm] at RD
        obtain ⟨r1, r2, r3⟩ := RD
        simp only [] at r1 r2 r3
        subst r1
        simp only []
        obtain ⟨w1, w2, gw⟩ := ws_good g hsf s2 r2
        rw [r3] at w1
        generalize skipWhiteSpace src sf s2 = q at w1 w2 gw
        obtain ⟨s3, e3⟩ := q
        simp only [] at w1 w2 gw ⊢
        rw [hardErr_eofOrNone e3 w2, w1]
        simp only []
        obtain ⟨s4, hp6, g4, v4, _⟩ := peek_adv_good g 6 (by decide) s3 gw
        rw [hp6]
        simp only []
        have : startsWith ((view d s3).take 6) kw_stream = startsWith (view d s3) kw_stream := by
          have := isPrefixOf_take kw_stream (view d s3) 6 (by decide)
          simpa [startsWith] using this
        rw [this]
        split
        · rename_i hst
          rw [← v4] at hst
          obtain ⟨e1, e2⟩ := readStreamHead_good g s4 g4 hst
          generalize readStreamHeadBuf src s4 = q at e1 e2
          obtain ⟨s5, r5⟩ := q
          simp only [] at e1 e2
          subst e1
          exact relE_err s5 _ e2 trivial
        · exact relE_ok s4 _ _ g4 v4
    simp only [h6, Bool.false_eq_true, if_false]
    by_cases h7 : (c == 40) = true
    · simp only [h7, if_true]
      have R := readString_refines g hsf (adv 1 s1) hadv1.1
      rw [hadv1.2] at R
      generalize readStringBuf src sf (adv 1 s1) = q at R
      obtain ⟨s2, res⟩ := q
      cases hm : readString rest with
      | error e =>
        rw [hm] at R
        obtain ⟨r1, r2, _⟩ := R
        simp only [] at r1 r2
        subst r1
        simp only [Except.map]
        exact relE_err s2 _ r2 trivial
      | ok p =>
        obtain ⟨v, r⟩ := p
        rw [hm] at R
        obtain ⟨r1, r2, r3⟩ := R
        simp only [] at r1 r2 r3
        subst r1
        simp only [Except.map]
        exact relE_ok s2 _ _ r2 r3
    simp only [h7, Bool.false_eq_true, if_false]
    by_cases h8 : (c == 60) = true
    · simp only [h8, if_true]
      have R := readHexString_refines g hsf (adv 1 s1) hadv1.1
      rw [hadv1.2] at R
      generalize readHexStringBuf src sf (adv 1 s1) = q at R
      obtain ⟨s2, res⟩ := q
      cases hm : readHexString rest with
      | error e =>
        rw [hm] at R
        obtain ⟨r1, r2, _⟩ := R
        simp only [] at r1 r2
        subst r1
        simp only [Except.map]
        exact relE_err s2 _ r2 trivial
      | ok p =>
        obtain ⟨v, r⟩ := p
        rw [hm] at R
        obtain ⟨r1, r2, r3⟩ := R
        simp only [] at r1 r2 r3
        subst r1
        simp only [Except.map]
        exact relE_ok s2 _ _ r2 r3
    simp only [h8, Bool.false_eq_true, if_false]
    by_cases h9 : (c == 91) = true
    · simp only [h9, if_true]
      have R := ihA depth (adv 1 s1) hadv1.1
      rw [hadv1.2] at R
      generalize readArrayBuf src sf fuel depth (adv 1 s1) = q at R
      obtain ⟨s2, res⟩ := q
      cases hm : readArray fuel depth rest with
      | error e =>
        rw [hm] at R
        obtain ⟨r1, r2, _⟩ := R
        simp only [] at r1 r2
        subst r1
        simp only [Except.map]
        exact relE_err s2 _ r2 trivial
      | ok p =>
        obtain ⟨v, r⟩ := p
        rw [hm] at R
        obtain ⟨r1, r2, r3⟩ := R
        simp only [] at r1 r2 r3
        subst r1
        simp only [Except.map]
        exact relE_ok s2 _ _ r2 r3
    simp only [h9, Bool.false_eq_true, if_false]
    exact relE_err s1 _ g1.nopanic trivial

end

theorem skipWS_idem : ∀ inp : Bytes,
    (∀ c rest, skipWS inp = (c :: rest, false) → skipWS (c :: rest) = (c :: rest, false)) ∧
    (∀ c rest, skipComment inp = (c :: rest, false) → skipWS (c :: rest) = (c :: rest, false)) := by
  intro inp
  induction inp with
  | nil => simp [skipWS, skipComment]
  | cons a as ih =>
    obtain ⟨h1, h2⟩ := ih
    constructor
    · intro c rest h
      unfold skipWS at h
      split at h
      · exact h2 c rest h
      · split at h
        · exact h1 c rest h
        · rename_i n37 nsp
          simp only [Prod.mk.injEq, List.cons.injEq, and_true] at h
          obtain ⟨rfl, rfl⟩ := h
          unfold skipWS
          simp [n37, nsp]
    · intro c rest h
      unfold skipComment at h
      split at h
      · exact h1 c rest h
      · exact h2 c rest h

section
variable {d : Bytes} {src : Source} (g : GoodOver d src) {sf : Nat} (hsf : d.length + 2 ≤ sf)
include g hsf

theorem ref_dict (fuel : Nat) (ih : RefAt d src sf fuel) :
    ∀ depth s, Good d s → Rel d (readDictBuf src sf (fuel + 1) depth s) (readDict (fuel + 1) depth (view d s)) := by
  obtain ⟨ihO, ihA, ihAL, ihD, ihDL⟩ := ih
  intro depth s gs
  unfold readDictBuf readDict
  split
  · exact relE_err s _ gs.nopanic trivial
  · obtain ⟨hyes, hno⟩ := skipstr_good g [60, 60] (by decide) s gs
    generalize skipString src [60, 60] s = q at hyes hno
    obtain ⟨s1, e1⟩ := q
    simp only [] at hyes hno ⊢
    by_cases hpre : (view d s).take 2 = [60, 60]
    · obtain ⟨a, g1, v1⟩ := hyes hpre
      subst a
      simp only [List.length_cons, List.length_nil, Nat.zero_add] at v1
      -- the view is `<<` followed by the rest
      obtain ⟨rest, hv⟩ : ∃ rest, view d s = 60 :: 60 :: rest := by
        match hvv : view d s, hpre with
        | a :: b :: rest, hpre =>
          simp only [List.take_succ_cons, List.take_zero, List.cons.injEq, and_true] at hpre
          obtain ⟨rfl, rfl⟩ := hpre
          exact ⟨rest, rfl⟩
        | [_], hpre => simp at hpre
        | [], hpre => simp at hpre
      rw [hv] at v1 ⊢
      simp only [List.drop_succ_cons, List.drop_zero] at v1 ⊢
      rcases ws_cases g hsf s1 g1 with ⟨he, hm, hp⟩ | ⟨he, gw, c, rest', hm, hvw⟩
      · generalize skipWhiteSpace src sf s1 = q at he hp
        obtain ⟨s2, e2⟩ := q
        simp only [] at he hp
        subst he
        rw [v1] at hm
        generalize skipWS rest = m at hm
        obtain ⟨r, b⟩ := m
        simp only [] at hm
        subst hm
        simp only [Err.inComposite]
        exact relE_err s2 _ hp trivial
      · generalize skipWhiteSpace src sf s1 = q at he gw hvw
        obtain ⟨s2, e2⟩ := q
        simp only [] at he gw hvw
        subst he
        rw [v1] at hm
        rw [hm]
        simp only []
        rw [← hvw]
        exact rel_mapErrB (ihDL (depth + 1) [] s2 gw)
    · obtain ⟨a, g1, _⟩ := hno hpre
      subst a
      simp only [Err.inComposite]
      split
      · rename_i rest heq
        rw [heq] at hpre
        exact absurd rfl hpre
      · exact relE_err s1 _ g1.nopanic trivial

end

section
variable {d : Bytes} {src : Source} (g : GoodOver d src) {sf : Nat} (hsf : d.length + 2 ≤ sf)
include g hsf

theorem ref_dictLoop (fuel : Nat) (ih : RefAt d src sf fuel) :
    ∀ depth acc s, Good d s →
      Rel d (readDictLoopBuf src sf (fuel + 1) depth acc s) (readDictLoop (fuel + 1) depth acc (view d s)) := by
  obtain ⟨ihO, ihA, ihAL, ihD, ihDL⟩ := ih
  intro depth acc s gs
  have RN := readName_refines g hsf s gs
  unfold readDictLoopBuf readDictLoop
  generalize readNameBuf src sf s = q at RN
  obtain ⟨s1, rn⟩ := q
  cases hm : readName (view d s) with
  | error e =>
    rw [hm] at RN
    obtain ⟨r1, r2, g1, hview⟩ := RN
    simp only [] at r1 r2 g1 hview
    subst r1
    have he := C01L.readName_err _ _ hm
    subst he
    simp only [beq_self_eq_true, if_true]
    obtain ⟨hyes, hno⟩ := skipstr_good g [62, 62] (by decide) s1 g1
    generalize skipString src [62, 62] s1 = q at hyes hno
    obtain ⟨s2, e2⟩ := q
    simp only [] at hyes hno ⊢
    by_cases hpre : (view d s1).take 2 = [62, 62]
    · obtain ⟨a, g2, v2⟩ := hyes hpre
      subst a
      simp only [List.length_cons, List.length_nil, Nat.zero_add] at v2
      rcases hview with hsame | ⟨⟨r, hr⟩, c, t, hc, hne⟩
      · rw [hsame] at hpre v2
        match hvv : view d s, hpre, v2 with
        | a :: b :: rest, hpre, v2 =>
          simp only [List.take_succ_cons, List.take_zero, List.cons.injEq, and_true] at hpre
          obtain ⟨rfl, rfl⟩ := hpre
          simp only [List.drop_succ_cons, List.drop_zero] at v2
          exact relE_ok s2 _ _ g2 v2
        | [_], hpre, _ => simp at hpre
        | [], hpre, _ => simp at hpre
      · rw [hc] at hpre
        simp only [List.take_succ_cons, List.cons.injEq] at hpre
        exact absurd hpre.1 hne
    · obtain ⟨a, g2, _⟩ := hno hpre
      subst a
      simp only []
      split
      · rename_i rest heq
        rcases hview with hsame | ⟨⟨r, hr⟩, _⟩
        · rw [hsame, heq] at hpre; exact absurd rfl hpre
        · rw [heq] at hr; cases hr
      · exact relE_err s2 _ g2.nopanic trivial
  | ok p =>
    obtain ⟨key, r⟩ := p
    rw [hm] at RN
    obtain ⟨r1, g1, v1⟩ := RN
    simp only [] at r1 g1 v1
    subst r1
    simp only []
    -- white space after the key
    rcases ws_cases g hsf s1 g1 with ⟨he, hmw, hp⟩ | ⟨he, gw, c2, rest2, hmw, hv2⟩
    · generalize skipWhiteSpace src sf s1 = q at he hp
      obtain ⟨s2, e2⟩ := q
      simp only [] at he hp
      subst he
      rw [v1] at hmw
      generalize skipWS r = m at hmw
      obtain ⟨r', b⟩ := m
      simp only [] at hmw
      subst hmw
      exact relE_err s2 _ hp trivial
    generalize skipWhiteSpace src sf s1 = q at he gw hv2
    obtain ⟨s2, e2⟩ := q
    simp only [] at he gw hv2
    subst he
    rw [v1] at hmw
    rw [hmw]
    simp only []
    -- the value
    have RO := ihO depth s2 gw
    rw [hv2] at RO
    generalize readObjectBuf src sf fuel depth s2 = q at RO
    obtain ⟨s3, ro⟩ := q
    cases hmo : readObject fuel depth (c2 :: rest2) with
    | error e =>
      rw [hmo] at RO
      obtain ⟨a, b, _⟩ := RO
      simp only [] at a b
      subst a
      simp only []
      exact relE_err s3 _ b trivial
    | ok p3 =>
      obtain ⟨val, r3⟩ := p3
      rw [hmo] at RO
      obtain ⟨a, g3, v3⟩ := RO
      simp only [] at a g3 v3
      subst a
      simp only []
      -- white space after the value
      rcases ws_cases g hsf s3 g3 with ⟨he, hmw4, hp⟩ | ⟨he, g4, c4, rest4, hmw4, hv4⟩
      · generalize skipWhiteSpace src sf s3 = q at he hp
        obtain ⟨s4, e4⟩ := q
        simp only [] at he hp
        subst he
        rw [v3] at hmw4
        generalize skipWS r3 = m at hmw4
        obtain ⟨r', b⟩ := m
        simp only [] at hmw4
        subst hmw4
        exact relE_err s4 _ hp trivial
      generalize skipWhiteSpace src sf s3 = q at he g4 hv4
      obtain ⟨s4, e4⟩ := q
      simp only [] at he g4 hv4
      subst he
      rw [v3] at hmw4
      rw [hmw4]
      simp only []
      -- the continuation: cap test and the next round of the loop
      have hcont : ∀ (v : Obj) (s' : SB), Good d s' →
          Rel d (if (!(acc.any fun e => e.1 == key) && decide (acc.length ≥ Gen.scanner_maxDictLen)) = true then
                    (s', (Except.error Err.malformed : Except Err (List (Bytes × Obj))))
                  else readDictLoopBuf src sf fuel depth (dictInsert key v acc) s')
                (if (!(acc.any fun e => e.1 == key) && decide (acc.length ≥ Gen.scanner_maxDictLen)) = true then
                    Except.error Err.malformed
                  else readDictLoop fuel depth (dictInsert key v acc) (view d s')) := by
        intro v s' gs'
        split
        · exact relE_err s' _ gs'.nopanic trivial
        · exact ihDL depth _ s' gs'
      cases val with
      | int a =>
        simp only []
        obtain ⟨s5, hp5, g5, v5, hadv5⟩ := peek_adv_good g 1 (by decide) s4 g4
        rw [hp5, hv4]
        simp only [List.take_succ_cons, List.take_zero]
        by_cases hc : (c4 != 47 && c4 != 62) = true
        · simp only [hc, if_true]
          have hws5 : (skipWS (view d s5)).2 = false := by
            rw [v5, hv4, (skipWS_idem r3).1 c4 rest4 hmw4]
          have RI := readInteger_refines g hsf s5 g5 hws5
          rw [v5, hv4] at RI
          generalize readIntegerBuf src sf s5 = q at RI
          obtain ⟨s6, ri⟩ := q
          cases hmi : readInteger (c4 :: rest4) with
          | error e =>
            rw [hmi] at RI
            obtain ⟨a', b', _⟩ := RI
            simp only [] at a' b'
            subst a'
            simp only []
            exact relE_err s6 _ b' trivial
          | ok p6 =>
            obtain ⟨b, r6⟩ := p6
            rw [hmi] at RI
            obtain ⟨a', g6, v6⟩ := RI
            simp only [] at a' g6 v6
            subst a'
            simp only []
            rcases ws_cases g hsf s6 g6 with ⟨he, hmw7, hp⟩ | ⟨he, g7, c7, rest7, hmw7, hv7⟩
            · generalize skipWhiteSpace src sf s6 = q at he hp
              obtain ⟨s7, e7⟩ := q
              simp only [] at he hp
              subst he
              rw [v6] at hmw7
              generalize skipWS r6 = m at hmw7
              obtain ⟨r', b'⟩ := m
              simp only [] at hmw7
              subst hmw7
              exact relE_err s7 _ hp trivial
            generalize skipWhiteSpace src sf s6 = q at he g7 hv7
            obtain ⟨s7, e7⟩ := q
            simp only [] at he g7 hv7
            subst he
            rw [v6] at hmw7
            rw [hmw7]
            simp only []
            obtain ⟨s8, hp8, g8, v8, hadv8⟩ := peek_adv_good g 1 (by decide) s7 g7
            rw [hp8, hv7]
            simp only [List.take_succ_cons, List.take_zero]
            by_cases h82 : c7 = 82
            · subst h82
              simp only [bne_self_eq_false, Bool.false_eq_true, if_false]
              have hadv1 := hadv8 1 (by rw [hv7]; simp)
              rw [hv7] at hadv1
              simp only [List.drop_succ_cons, List.drop_zero] at hadv1
              rcases ws_cases g hsf (adv 1 s8) hadv1.1 with ⟨he, hmw9, hp⟩ | ⟨he, g9, c9, rest9, hmw9, hv9⟩
              · generalize skipWhiteSpace src sf (adv 1 s8) = q at he hp
                obtain ⟨s9, e9⟩ := q
                simp only [] at he hp
                subst he
                rw [hadv1.2] at hmw9
                generalize skipWS rest7 = m at hmw9
                obtain ⟨r', b'⟩ := m
                simp only [] at hmw9
                subst hmw9
                exact relE_err s9 _ hp trivial
              generalize skipWhiteSpace src sf (adv 1 s8) = q at he g9 hv9
              obtain ⟨s9, e9⟩ := q
              simp only [] at he g9 hv9
              subst he
              rw [hadv1.2] at hmw9
              rw [hmw9]
              simp only []
              rw [← hv9]
              exact hcont _ s9 g9
            · have hne : (c7 != 82) = true := by simpa using h82
              simp only [hne, if_true]
              split
              · rename_i heq; cases heq
              · rename_i heq; simp only [Prod.mk.injEq, List.cons.injEq] at heq; exact absurd heq.1.1 h82
              · exact relE_err s8 _ g8.nopanic trivial
        · simp only [hc, Bool.false_eq_true, if_false]
          have := hcont (.int a) s5 g5
          rw [v5, hv4] at this
          exact this
      | null => simp only []; rw [← hv4]; exact hcont _ s4 g4
      | nilArr => simp only []; rw [← hv4]; exact hcont _ s4 g4
      | bool b => simp only []; rw [← hv4]; exact hcont _ s4 g4
      | real t => simp only []; rw [← hv4]; exact hcont _ s4 g4
      | name n => simp only []; rw [← hv4]; exact hcont _ s4 g4
      | str st => simp only []; rw [← hv4]; exact hcont _ s4 g4
      | op o => simp only []; rw [← hv4]; exact hcont _ s4 g4
      | ref n gn => simp only []; rw [← hv4]; exact hcont _ s4 g4
      | arr xs => simp only []; rw [← hv4]; exact hcont _ s4 g4
      | dict kv => simp only []; rw [← hv4]; exact hcont _ s4 g4

end

/-! ## The whole parser over the 1024-byte window refines the whole-input model -/

section
variable {d : Bytes} {src : Source} (g : GoodOver d src) {sf : Nat} (hsf : d.length + 2 ≤ sf)
include g hsf

theorem ref_all (fuel : Nat) : RefAt d src sf fuel := by
  induction fuel with
  | zero => exact ref_zero
  | succ fuel ih =>
    exact ⟨ref_object g hsf fuel ih, ref_array fuel ih, ref_arrLoop g hsf fuel ih,
      ref_dict g hsf fuel ih, ref_dictLoop g hsf fuel ih⟩

/-- **`ReadObject` over the buffer, at any point of a scan.**  From every reachable fault-free scanner
    state (`Good`: window coherent with the data, no latched error) and for every chunking of the
    reader, `ReadObject` over the 1024-byte window returns exactly what the whole-input model
    `readObject` returns on the bytes not yet consumed (`view`): the same value and a state that is
    again `Good` and whose unconsumed bytes are the model's remaining input — or the same error, and
    then no Go panic was modelled on the way.  Same fuel and depth on both sides. -/
theorem readObjectBuf_refines_at (fuel depth : Nat) (s : SB) (gs : Good d s) :
    Rel d (readObjectBuf src sf fuel depth s) (readObject fuel depth (view d s)) :=
  (ref_all g hsf fuel).1 depth s gs

end

/-- what the caller of `ReadObject` sees: the value together with `CurrentPos()` afterwards, or the
    error -/
def observe (r : SB × Except Err Obj) : Except Err (Obj × Nat) :=
  match r.2 with
  | .ok v => .ok (v, r.1.currentPos)
  | .error e => .error e

/-- the whole-input model's answer in the same terms: the remaining input `rest` is the position
    `|d| - |rest|` -/
def lift (d : Bytes) (m : Except Err (Obj × Bytes)) : Except Err (Obj × Nat) :=
  match m with
  | .ok (v, rest) => .ok (v, d.length - rest.length)
  | .error e => .error e

/-- **`readObjectBuf_refines`.**  A fresh scanner over a fault-free reader that serves `d` in chunks
    of any sizes: `ReadObject` returns the value of `parseObject d` (= `readObject (scanFuel d) 0 d`,
    the model of C01) and `CurrentPos()` is the model's remaining-input position, or it returns the
    model's error.  The window size 1024, the refills, `PeekN(5)`/`PeekN(6)`/`PeekN(3)`/`PeekN(1)` and
    the `s.pos++` steps are invisible. -/
theorem readObjectBuf_refines {d : Bytes} {src : Source} (g : GoodOver d src) {sf : Nat}
    (hsf : d.length + 2 ≤ sf) :
    observe (readObjectBuf src sf (scanFuel d) 0 (SB.init 0)) = lift d (parseObject d) := by
  have h := readObjectBuf_refines_at g hsf (scanFuel d) 0 (SB.init 0) (good_init d)
  rw [view_init] at h
  unfold parseObject
  generalize readObject (scanFuel d) 0 d = m at h
  generalize readObjectBuf src sf (scanFuel d) 0 (SB.init 0) = r at h
  unfold Rel RelE at h
  unfold observe lift
  cases m with
  | error e => simp only [] at h ⊢; rw [h.1]
  | ok p =>
    obtain ⟨v, rest⟩ := p
    simp only [] at h ⊢
    obtain ⟨h1, h2, h3⟩ := h
    rw [h1]
    simp only []
    have := h2.posok
    rw [h3] at this
    congr 2
    omega

/-- the state after it: no modelled Go panic ever; after a value also no latched error, no
    exhausted loop fuel (`hang`), the unconsumed bytes are the model's remaining input — so the
    next `ReadObject` is again covered by `readObjectBuf_refines_at` -/
theorem readObjectBuf_state {d : Bytes} {src : Source} (g : GoodOver d src) {sf : Nat}
    (hsf : d.length + 2 ≤ sf) :
    (readObjectBuf src sf (scanFuel d) 0 (SB.init 0)).1.panicked = false ∧
    ∀ v rest, parseObject d = .ok (v, rest) →
      Good d (readObjectBuf src sf (scanFuel d) 0 (SB.init 0)).1 ∧
      (readObjectBuf src sf (scanFuel d) 0 (SB.init 0)).1.hang = false ∧
      (readObjectBuf src sf (scanFuel d) 0 (SB.init 0)).1.err = none ∧
      view d (readObjectBuf src sf (scanFuel d) 0 (SB.init 0)).1 = rest := by
  have h := readObjectBuf_refines_at g hsf (scanFuel d) 0 (SB.init 0) (good_init d)
  rw [view_init] at h
  unfold parseObject
  generalize readObject (scanFuel d) 0 d = m at h
  generalize readObjectBuf src sf (scanFuel d) 0 (SB.init 0) = r at h
  unfold Rel RelE at h
  cases m with
  | error e => simp only [] at h; exact ⟨h.2.1, fun v rest hh => by cases hh⟩
  | ok p =>
    obtain ⟨v, rest⟩ := p
    simp only [] at h
    obtain ⟨h1, h2, h3⟩ := h
    refine ⟨h2.nopanic, fun v' rest' hh => ?_⟩
    have hh := Except.ok.inj hh
    have e2 : rest = rest' := congrArg Prod.snd hh
    subst e2
    exact ⟨h2, h2.coh.nohang, h2.noerr, h3⟩

/-- the fuel does not matter once it is at least `scanFuel d` (C01g's fuel lemma carried over to the
    buffer) -/
theorem readObjectBuf_fuel_indep {d : Bytes} {src : Source} (g : GoodOver d src) {sf : Nat}
    (hsf : d.length + 2 ≤ sf) (f : Nat) (hf : scanFuel d ≤ f) (v : Obj) (rest : Bytes)
    (h : parseObject d = .ok (v, rest)) :
    observe (readObjectBuf src sf f 0 (SB.init 0)) = .ok (v, d.length - rest.length) := by
  have h0 := readObjectBuf_refines_at g hsf f 0 (SB.init 0) (good_init d)
  rw [view_init, C01g.parseObject_fuel_indep d f hf (v, rest) h] at h0
  unfold Rel RelE at h0
  simp only [] at h0
  obtain ⟨h1, h2, h3⟩ := h0
  unfold observe
  rw [h1]
  simp only []
  have := h2.posok
  rw [h3] at this
  congr 2
  omega

/-- and the model never answers with its out-of-fuel error (C01g `parse_total`), so neither does the
    buffer-level `ReadObject` for that reason -/
theorem readObjectBuf_total {d : Bytes} {src : Source} (g : GoodOver d src) {sf : Nat}
    (hsf : d.length + 2 ≤ sf) :
    observe (readObjectBuf src sf (scanFuel d) 0 (SB.init 0)) ≠ .error .other := by
  rw [readObjectBuf_refines g hsf]
  have := C01g.parse_total d
  unfold lift
  intro h
  split at h
  · cases h
  · rename_i e he
    cases h
    exact this he

/-! ## Non-vacuity: the theorems' two sides computed on concrete inputs -/

/-- `[1 /A#42 (x\101\n) <4a4> <</K [true null 2 0 R -.5]>>] tail` -/
def exD : Bytes := [91, 49, 32, 47, 65, 35, 52, 50, 32, 40, 120, 92, 49, 48, 49, 92, 110, 41, 32, 60, 52, 97, 52, 62, 32, 60, 60, 47, 75, 32, 91, 116, 114, 117, 101, 32, 110, 117, 108, 108, 32, 50, 32, 48, 32, 82, 32, 45, 46, 53, 93, 62, 62, 93, 32, 116, 97, 105, 108]

-- served 1, 2, 3 and 7 bytes at a time and unchunked: always the model's value, and `CurrentPos`
-- is the offset of ` tail`
example : (List.all [0, 1, 2, 3, 7] fun chunk =>
    match observe (readObjectBuf (goodSrc exD chunk) (exD.length + 2) (scanFuel exD) 0 (SB.init 0)), parseObject exD with
    | .ok (a, p), .ok (b, rest) => a.wire == b.wire && p == exD.length - 5 && rest == [32, 116, 97, 105, 108]
    | _, _ => false) = true := by
  decide +kernel

/-- a literal string that does not fit the 1024-byte window: `(` 1500×`a` `)` `x` -/
def exLong : Bytes := 40 :: (List.replicate 1500 97 ++ [41, 120])

example : (match observe (readObjectBuf (goodSrc exLong 0) (exLong.length + 2) (scanFuel exLong) 0 (SB.init 0)) with
    | .ok (.str v, p) => v.length == 1500 && p == 1502
    | _ => false) = true := by
  decide +kernel

-- errors are the model's errors: an unterminated dictionary (EOF) and a stray `>` (malformed)
example : (match observe (readObjectBuf (goodSrc [60, 60, 47, 65] 1) 6 (scanFuel [60, 60, 47, 65]) 0 (SB.init 0)),
      parseObject [60, 60, 47, 65] with
    | .error a, .error b => a == b
    | _, _ => false) = true ∧
    (match observe (readObjectBuf (goodSrc [91, 62, 93] 1) 5 (scanFuel [91, 62, 93]) 0 (SB.init 0)),
      parseObject [91, 62, 93] with
    | .error .malformed, .error .malformed => true
    | _, _ => false) = true := by
  decide +kernel

end PdfVerif.C05robobj

import PdfVerif.Model.FBCCITT
import PdfVerif.Model.FBParams
/-!
C06 (work package FB), CCITT code tables: the encode tables of `tables.go` are prefix free and
the three decode tables (`mainTable`, `whiteTable`, `blackTable`) are consistent with them, in
both directions.  These are finite statements over the complete regenerated tables
(`Generated.FactsFB`), decided by kernel evaluation (`decide +kernel` on Bool-valued bounded
quantifiers, at most 8192 table reads per declaration) and lifted to `∀` statements by `allLt_spec`.

A change of any table entry in `tables.go` regenerates `FactsFB` and re-runs these proofs.
-/
namespace PdfVerif.C06fbt
open PdfVerif PdfVerif.FB PdfVerif.Gen

/-- Bool-valued bounded quantifier (cheap for the kernel) -/
def allLt : Nat → (Nat → Bool) → Bool
  | 0, _ => true
  | n + 1, p => p n && allLt n p

theorem allLt_spec (n : Nat) (p : Nat → Bool) (h : allLt n p = true) : ∀ i, i < n → p i = true := by
  induction n with
  | zero => intro i hi; omega
  | succ n ih =>
    intro i hi
    simp [allLt] at h
    by_cases hin : i = n
    · subst hin; exact h.1
    · exact ih h.2 i (by omega)

/-- the 104 run-length codes of one colour as the encoder uses them
(`encodeRun`: 64 terminating, 27 make-up, 13 extended make-up): code, width, run length, and the
state the decoder must report -/
def codeEntry (white : Bool) (i : Nat) : Nat × Nat × Nat × Nat :=
  if i < 64 then
    if white then (ccitt_whiteTermEncodeTable_Code i, ccitt_whiteTermEncodeTable_Width i, i, ccitt_S_TermW)
    else (ccitt_blackTermEncodeTable_Code i, ccitt_blackTermEncodeTable_Width i, i, ccitt_S_TermB)
  else if i < 91 then
    if white then (ccitt_whiteMakeupEncodeTable_Code (i - 64), ccitt_whiteMakeupEncodeTable_Width (i - 64), 64 * (i - 63), ccitt_S_MakeUpW)
    else (ccitt_blackMakeupEncodeTable_Code (i - 64), ccitt_blackMakeupEncodeTable_Width (i - 64), 64 * (i - 63), ccitt_S_MakeUpB)
  else (ccitt_extMakeupEncodeTable_Code (i - 91), ccitt_extMakeupEncodeTable_Width (i - 91), 1792 + 64 * (i - 91), ccitt_S_MakeUp)

def tblBits (white : Bool) : Nat := if white then 12 else 13
def tblState (white : Bool) (v : Nat) : Nat := if white then ccitt_whiteTable_State v else ccitt_blackTable_State v
def tblWidth (white : Bool) (v : Nat) : Nat := if white then ccitt_whiteTable_Width v else ccitt_blackTable_Width v
def tblParam (white : Bool) (v : Nat) : Nat := if white then ccitt_whiteTable_Param v else ccitt_blackTable_Param v

/-- code `i` is a prefix of (or equal to) code `j` -/
def isPrefixCode (white : Bool) (i j : Nat) : Bool :=
  let ei := codeEntry white i
  let ej := codeEntry white j
  Nat.ble ei.2.1 ej.2.1 && (ej.1 / 2 ^ (ej.2.1 - ei.2.1) == ei.1)

/-- the EOL code `00000000000 1` (eleven zeros are enough for the decoder) as a 12 bit code -/
def isPrefixOfEOL (white : Bool) (i : Nat) : Bool :=
  let e := codeEntry white i
  Nat.ble e.2.1 12 && (1 / 2 ^ (12 - e.2.1) == e.1)

theorem prefix_free_bool (white : Bool) :
    allLt 104 (fun i => allLt 104 (fun j => (i == j) || !isPrefixCode white i j)) = true := by
  cases white <;> decide +kernel

/-- **codes_prefix_free**: no run-length code of a colour is a prefix of another one -/
theorem codes_prefix_free (white : Bool) (i j : Nat) (hi : i < 104) (hj : j < 104) (hne : i ≠ j) :
    isPrefixCode white i j = false := by
  have := allLt_spec _ _ (allLt_spec _ _ (prefix_free_bool white) i hi) j hj
  simp at this
  rcases this with h | h
  · exact absurd h hne
  · exact h

theorem eol_not_prefixed_bool (white : Bool) :
    allLt 104 (fun i => !isPrefixOfEOL white i && Nat.ble 2 (codeEntry white i).2.1 && Nat.ble (codeEntry white i).2.1 (tblBits white)) = true := by
  cases white <;> decide +kernel

/-- no run-length code is a prefix of EOL; every code has between 2 and 12 (white) / 13 (black) bits -/
theorem codes_vs_eol (white : Bool) (i : Nat) (hi : i < 104) :
    isPrefixOfEOL white i = false ∧ 2 ≤ (codeEntry white i).2.1 ∧ (codeEntry white i).2.1 ≤ tblBits white := by
  have := allLt_spec _ _ (eol_not_prefixed_bool white) i hi
  simp at this
  exact ⟨this.1.1, this.1.2, this.2⟩

/-- the decode table answers with exactly (state, width, run length) of code `i` at every index
whose leading bits are code `i` -/
def encDecHit (white : Bool) (i s : Nat) : Bool :=
  let e := codeEntry white i
  let v := e.1 * 2 ^ (tblBits white - e.2.1) + s
  tblState white v == e.2.2.2 && tblWidth white v == e.2.1 && tblParam white v == e.2.2.1

theorem enc_dec_bool (white : Bool) :
    allLt 104 (fun i => allLt (2 ^ (tblBits white - (codeEntry white i).2.1)) (fun s => encDecHit white i s)) = true := by
  cases white <;> decide +kernel

/-- **encode → decode**: for every code of the encoder and every continuation of the bit stream
the decode table returns that code's state, width and run length -/
theorem table_complete (white : Bool) (i : Nat) (hi : i < 104) (s : Nat)
    (hs : s < 2 ^ (tblBits white - (codeEntry white i).2.1)) :
    let e := codeEntry white i
    let v := e.1 * 2 ^ (tblBits white - e.2.1) + s
    tblState white v = e.2.2.2 ∧ tblWidth white v = e.2.1 ∧ tblParam white v = e.2.2.1 := by
  have := allLt_spec _ _ (allLt_spec _ _ (enc_dec_bool white) i hi) s hs
  simp [encDecHit] at this
  exact ⟨this.1.1, this.1.2, this.2⟩

/-- index of the code a decode entry claims to be -/
def claimedIndex (st prm : Nat) : Nat :=
  if st == ccitt_S_TermW || st == ccitt_S_TermB then prm
  else if st == ccitt_S_MakeUpW || st == ccitt_S_MakeUpB then 63 + prm / 64
  else 91 + (prm - 1792) / 64

/-- a decode entry is empty (invalid code), the EOL entry (eleven zeros), or the entry of the
encoder's code that is a prefix of its index -/
def decEncOk (white : Bool) (v : Nat) : Bool :=
  let st := tblState white v
  let w := tblWidth white v
  let prm := tblParam white v
  if w == 0 then st == 0 && prm == 0
  else if st == ccitt_S_EOL then w == 11 && Nat.blt v (2 ^ (tblBits white - 11))
  else
    let i := claimedIndex st prm
    let e := codeEntry white i
    Nat.blt i 104 && e.1 == v / 2 ^ (tblBits white - w) && e.2.1 == w && e.2.2.1 == prm && e.2.2.2 == st

theorem dec_enc_bool (white : Bool) :
    allLt (2 ^ (tblBits white - 6)) (fun a => allLt 64 (fun b => decEncOk white (a * 64 + b))) = true := by
  cases white <;> decide +kernel

/-- **decode → encode**: every entry of the decode tables is empty, EOL, or one of the encoder's
codes, and that code is a prefix of the entry's index -/
theorem table_sound (white : Bool) (v : Nat) (hv : v < 2 ^ tblBits white) : decEncOk white v = true := by
  have h64 : v / 64 < 2 ^ (tblBits white - 6) := by
    cases white <;> simp [tblBits] at hv ⊢ <;> omega
  have := allLt_spec _ _ (allLt_spec _ _ (dec_enc_bool white) (v / 64) h64) (v % 64) (Nat.mod_lt _ (by omega))
  rwa [Nat.div_add_mod' v 64] at this

/-- eleven zero bits decode as EOL of width 11 in both tables -/
theorem eol_entries (white : Bool) (v : Nat) (hv : v < 2 ^ (tblBits white - 11)) :
    tblState white v = ccitt_S_EOL ∧ tblWidth white v = 11 := by
  cases white
  · have : v < 4 := by simpa [tblBits] using hv
    have h : allLt 4 (fun v => tblState false v == ccitt_S_EOL && tblWidth false v == 11) = true := by decide +kernel
    have := allLt_spec _ _ h v this
    simpa using this
  · have : v < 2 := by simpa [tblBits] using hv
    have h : allLt 2 (fun v => tblState true v == ccitt_S_EOL && tblWidth true v == 11) = true := by decide +kernel
    have := allLt_spec _ _ h v this
    simpa using this

/-! ### the 2-D mode codes -/

/-- mode codes as `encode2DGo` writes them: (code, width, state, param as uint16) for
pass, horizontal, V0, VR1, VR2, VR3, VL1, VL2, VL3 -/
def modeEntry : Nat → Nat × Nat × Nat × Nat
  | 0 => (1, 4, ccitt_S_Pass, 0)
  | 1 => (1, 3, ccitt_S_Horiz, 0)
  | 2 => (1, 1, ccitt_S_Vert, 0)
  | 3 => (3, 3, ccitt_S_Vert, 1)
  | 4 => (3, 6, ccitt_S_Vert, 2)
  | 5 => (3, 7, ccitt_S_Vert, 3)
  | 6 => (2, 3, ccitt_S_Vert, 65535)
  | 7 => (2, 6, ccitt_S_Vert, 65534)
  | _ => (2, 7, ccitt_S_Vert, 65533)

/-- the vertical codes of the encoder are the mode entries 2–8, with the decoder's `int16(Param)`
giving back the offset -/
theorem vertCode_modeEntry : ∀ d : Int, -3 ≤ d → d ≤ 3 →
    ∃ i, 2 ≤ i ∧ i ≤ 8 ∧ vertCode d = codeBits (modeEntry i).1 (modeEntry i).2.1 ∧ int16 (modeEntry i).2.2.2 = d := by
  intro d h1 h2
  have : d = 0 ∨ d = 1 ∨ d = 2 ∨ d = 3 ∨ d = -1 ∨ d = -2 ∨ d = -3 := by omega
  rcases this with h | h | h | h | h | h | h <;> subst h
  · exact ⟨2, by decide⟩
  · exact ⟨3, by decide⟩
  · exact ⟨4, by decide⟩
  · exact ⟨5, by decide⟩
  · exact ⟨6, by decide⟩
  · exact ⟨7, by decide⟩
  · exact ⟨8, by decide⟩

theorem main_table_bool :
    allLt 9 (fun i => allLt (2 ^ (7 - (modeEntry i).2.1)) (fun s =>
      let e := modeEntry i
      let v := e.1 * 2 ^ (7 - e.2.1) + s
      ccitt_mainTable_State v == e.2.2.1 && ccitt_mainTable_Width v == e.2.1 && ccitt_mainTable_Param v == e.2.2.2)) = true := by
  decide +kernel

/-- **mode codes**: `mainTable` returns the mode, width and offset of every mode code the
encoder writes, whatever bits follow -/
theorem main_table_complete (i : Nat) (hi : i < 9) (s : Nat) (hs : s < 2 ^ (7 - (modeEntry i).2.1)) :
    let e := modeEntry i
    let v := e.1 * 2 ^ (7 - e.2.1) + s
    ccitt_mainTable_State v = e.2.2.1 ∧ ccitt_mainTable_Width v = e.2.1 ∧ ccitt_mainTable_Param v = e.2.2.2 := by
  have := allLt_spec _ _ (allLt_spec _ _ main_table_bool i hi) s hs
  simp at this
  exact ⟨this.1.1, this.1.2, this.2⟩

/-- the remaining two `mainTable` entries: seven zeros = EOL (not consumed), `0000001` = extension -/
theorem main_table_rest :
    ccitt_mainTable_State 0 = ccitt_S_EOL ∧ ccitt_mainTable_State 1 = ccitt_S_Ext ∧ ccitt_mainTable_Width 1 = 7 ∧
    allLt 128 (fun v => Nat.blt 0 (ccitt_mainTable_Width v) && Nat.ble (ccitt_mainTable_Width v) 7) = true := by
  decide +kernel

example : codeEntry true 0 = (53, 8, 0, 5) := by decide +kernel         -- white run 0: 00110101
example : codeEntry false 90 = (101, 13, 1728, 8) := by decide +kernel  -- black make-up 1728
example : codeEntry true 103 = (31, 12, 2560, 9) := by decide +kernel   -- extended make-up 2560



/-! ### run lengths: what `encodeRun` writes for EVERY run length -/

/-- indices (into `codeEntry`) of the code words `encode1DRun` writes for a run of `len` pixels:
`len/2560` times the 2560 make-up code, at most one extended and one ordinary make-up code, one
terminating code -/
def runIndices (len : Nat) : List Nat :=
  let r := len % 2560
  List.replicate (len / 2560) 103
  ++ (if r ≥ 1792 then [91 + (r - 1792) / 64] else [])
  ++ (let r' := if r ≥ 1792 then r - ((r - 1792) / 64 + 28) * 64 else r
      (if r' ≥ 64 then [63 + r' / 64] else []) ++ [r' % 64])

def runValue (i : Nat) : Nat := if i < 64 then i else if i < 91 then 64 * (i - 63) else 1792 + 64 * (i - 91)

theorem runValue_eq (white : Bool) (i : Nat) : (codeEntry white i).2.2.1 = runValue i := by
  unfold codeEntry runValue
  by_cases h1 : i < 64
  · rw [if_pos h1, if_pos h1]; cases white <;> rfl
  · rw [if_neg h1, if_neg h1]
    by_cases h2 : i < 91
    · rw [if_pos h2, if_pos h2]; cases white <;> rfl
    · rw [if_neg h2, if_neg h2]

theorem sum_replicate (n v : Nat) : ((List.replicate n v).map runValue).sum = n * runValue v := by
  induction n with
  | zero => simp
  | succ n ih => simp [List.replicate_succ, ih, Nat.succ_mul]; omega

/-- **run_codes_sum**: for every run length the run values of the emitted code words add up to
the run length -/
theorem run_codes_sum (len : Nat) : ((runIndices len).map runValue).sum = len := by
  unfold runIndices
  simp only [List.map_append, List.sum_append, sum_replicate]
  have h103 : runValue 103 = 2560 := by decide
  rw [h103]
  by_cases h1 : len % 2560 ≥ 1792
  · simp only [h1, if_true]
    have hlt : len % 2560 < 2560 := Nat.mod_lt _ (by omega)
    have hr' : len % 2560 - ((len % 2560 - 1792) / 64 + 28) * 64 < 64 := by omega
    rw [if_neg (by omega)]
    simp [runValue]
    have : 91 + (len % 2560 - 1792) / 64 ≥ 91 := by omega
    rw [if_neg (by omega), if_neg (by omega), if_pos (by omega)]
    omega
  · simp only [h1, if_false]
    by_cases h2 : len % 2560 ≥ 64
    · simp only [h2, if_true]
      simp [runValue]
      have hlt : len % 2560 < 1792 := by omega
      rw [if_neg (by omega), if_pos (by omega), if_pos (by omega)]
      omega
    · simp only [h2, if_false]
      simp [runValue]
      rw [if_pos (by omega)]
      omega

/-- every emitted index is a valid code, the last one is a terminating code (< 64) and all
before it are make-up codes (≥ 64): the decoder's `decodeFullRun` stops exactly there -/
theorem run_codes_shape (len : Nat) :
    (∀ i ∈ runIndices len, i < 104) ∧ (∃ pre t, runIndices len = pre ++ [t] ∧ t < 64 ∧ ∀ i ∈ pre, 64 ≤ i) := by
  have hlt : len % 2560 < 2560 := Nat.mod_lt _ (by omega)
  unfold runIndices
  by_cases h1 : len % 2560 ≥ 1792
  · simp only [h1, if_true]
    have hr' : len % 2560 - ((len % 2560 - 1792) / 64 + 28) * 64 < 64 := by omega
    rw [if_neg (by omega)]
    refine ⟨?_, List.replicate (len / 2560) 103 ++ [91 + (len % 2560 - 1792) / 64], (len % 2560 - ((len % 2560 - 1792) / 64 + 28) * 64) % 64, by simp, Nat.mod_lt _ (by omega), ?_⟩
    · intro i hi; simp at hi; rcases hi with h | h | h <;> omega
    · intro i hi; simp at hi; rcases hi with h | h <;> omega
  · simp only [h1, if_false]
    by_cases h2 : len % 2560 ≥ 64
    · simp only [h2, if_true]
      refine ⟨?_, List.replicate (len / 2560) 103 ++ [63 + len % 2560 / 64], len % 2560 % 64, by simp, Nat.mod_lt _ (by omega), ?_⟩
      · intro i hi; simp at hi; rcases hi with h | h | h <;> omega
      · intro i hi; simp at hi; rcases hi with h | h <;> omega
    · simp only [h2, if_false]
      refine ⟨?_, List.replicate (len / 2560) 103, len % 2560 % 64, by simp, Nat.mod_lt _ (by omega), ?_⟩
      · intro i hi; simp at hi; rcases hi with h | h <;> omega
      · intro i hi; simp at hi; omega

/-- number of code words of a run (class `ccitt-2d-long-run`: `decodeFullRun` reads at most 64) -/
theorem run_codes_count (len : Nat) :
    (runIndices len).length = len / 2560 + (if len % 2560 ≥ 64 then 1 else 0) + 1 := by
  have hlt : len % 2560 < 2560 := Nat.mod_lt _ (by omega)
  unfold runIndices
  by_cases h1 : len % 2560 ≥ 1792
  · simp only [h1, if_true]
    have hr' : len % 2560 - ((len % 2560 - 1792) / 64 + 28) * 64 < 64 := by omega
    rw [if_neg (by omega), if_pos (by omega)]; simp
  · simp only [h1, if_false]
    by_cases h2 : len % 2560 ≥ 64 <;> simp [h2]

theorem run_codes_le_64_iff (len : Nat) : (runIndices len).length ≤ 64 ↔ len < 161344 := by
  rw [run_codes_count]
  have hlt : len % 2560 < 2560 := Nat.mod_lt _ (by omega)
  have hd := Nat.div_add_mod len 2560
  constructor
  · intro h; split at h <;> omega
  · intro h; split <;> omega

/-- the bits `encodeRun` writes are the code words of `runIndices`, in order -/
theorem encodeRun_eq (white : Bool) (len : Nat) :
    encodeRun white len = ((runIndices len).map fun i => codeBits (codeEntry white i).1 (codeEntry white i).2.1).flatten := by
  have hlt : len % 2560 < 2560 := Nat.mod_lt _ (by omega)
  have hext : ∀ j, j < 13 → codeBits (codeEntry white (91 + j)).1 (codeEntry white (91 + j)).2.1 = extCode j := by
    intro j hj
    have : (91 + j - 91) = j := by omega
    unfold codeEntry extCode; rw [if_neg (by omega), if_neg (by omega), this]
  have hmk : ∀ j, j < 27 → codeBits (codeEntry white (63 + (j + 1))).1 (codeEntry white (63 + (j + 1))).2.1 = makeupCode white j := by
    intro j hj
    have : 63 + (j + 1) - 64 = j := by omega
    unfold codeEntry makeupCode; rw [if_neg (by omega), if_pos (by omega), this]; cases white <;> rfl
  have hterm : ∀ j, j < 64 → codeBits (codeEntry white j).1 (codeEntry white j).2.1 = termCode white j := by
    intro j hj
    unfold codeEntry termCode; rw [if_pos hj]; cases white <;> rfl
  have hrep : ∀ n, ((List.replicate n 103).map fun i => codeBits (codeEntry white i).1 (codeEntry white i).2.1).flatten
      = (List.replicate n (extCode (ccitt_extMakeupEncodeTable_len - 1))).flatten := by
    intro n
    have h12 := hext 12 (by omega)
    have hl : ccitt_extMakeupEncodeTable_len - 1 = 12 := by decide
    rw [hl, ← h12]
    induction n with
    | zero => simp
    | succ n ih => simp [List.replicate_succ, ih]
  unfold encodeRun runIndices
  simp only [List.map_append, List.flatten_append, hrep]
  by_cases h1 : len % 2560 ≥ 1792
  · simp only [h1, if_true]
    have hr' : len % 2560 - ((len % 2560 - 1792) / 64 + 28) * 64 < 64 := by omega
    rw [if_neg (by omega), if_neg (by omega)]
    simp only [List.map_cons, List.map_nil, List.flatten_cons, List.flatten_nil, List.append_nil, List.nil_append]
    rw [hext _ (by omega), Nat.mod_eq_of_lt hr', hterm _ hr']
  · simp only [h1, if_false]
    by_cases h2 : len % 2560 ≥ 64
    · simp only [h2, if_true]
      simp only [List.map_cons, List.map_nil, List.flatten_cons, List.flatten_nil, List.append_nil, List.nil_append]
      have : len % 2560 / 64 = (len % 2560 / 64 - 1) + 1 := by omega
      rw [this, hmk _ (by omega), hterm _ (Nat.mod_lt _ (by omega))]
      simp [List.append_assoc]
    · simp only [h2, if_false]
      simp only [List.map_cons, List.map_nil, List.flatten_cons, List.flatten_nil, List.append_nil, List.nil_append]
      rw [Nat.mod_eq_of_lt (by omega : len % 2560 < 64), hterm _ (by omega)]

example : runIndices 2561 = [103, 1] := by decide
example : runIndices 1728 = [90, 0] := by decide
example : (runIndices 161344).length = 65 := by decide +kernel

/-! ### the round trip statement and the regressions of the former failing classes (D10, D21) -/

/-- admissible shape: whole rows of `lineBytes` bytes with zero padding bits, not more than `/Rows` -/
def ccittAdmissible (p : CParams) (rows : List Bytes) : Prop :=
  (∀ row ∈ rows, row.length = p.lineBytes ∧ AllBytes row ∧ paddingOk p row = true) ∧
  (p.maxRows = 0 ∨ rows.length ≤ p.maxRows)

instance (p : CParams) (rows : List Bytes) : Decidable (ccittAdmissible p rows) := by
  unfold ccittAdmissible; infer_instance

/-- the full-strength statement of C06 for CCITTFax: every validated parameter set, every
admissible image within the reader's geometry cap.  NOT proved in this generality: proved for
K < 0 and for K = 0 without EOL markers, with end-of-block pattern and without byte alignment
(`C06faC.ccitt_rt_g4_g31d`, every pixel content); the other parameter classes (K > 0, EOL
markers, EncodedByteAlign, IgnoreEndOfBlock) are validated on every run by the oracle
`fb-ccitt-rt`, the model/implementation correspondence and the independent decoder.  Before the
repairs of the reader (keys `ccitt-noeob`, `ccitt-bytealign`, `ccitt-kpos-rows`,
`ccitt-1d-final-run-64`, `ccitt-2d-long-run`) the statement was FALSE; the inputs that refuted
it are the regression theorems below. -/
def ccitt_rt_statement : Prop :=
  ∀ (f : FCCITT) (rows : List Bytes), f.validate = true → ccittAdmissible f.encParams rows →
    (rows.length : Int) ≤ f.decodeMaxRows →
    decodeAll f.decParams (encodeAll f.encParams rows.flatten).1 = (rows.flatten, 1)

def w3 : List Bytes := [[224], [224], [224], [224], [224]]

/-- regression of D10, class `ccitt-noeob`: Group 4, 3 columns, five rows `111`, no EOFB (the
unrepaired reader lost two rows: the look-ahead's EOF became the reader's error) -/
theorem regress_noeob :
    decodeAll (⟨-1, false, false, 3, 0, true, false, 0⟩ : FCCITT).decParams
      (encodeAll (⟨-1, false, false, 3, 0, true, false, 0⟩ : FCCITT).encParams w3.flatten).1 = (w3.flatten, 1) := by
  decide +kernel

/-- regression of D10, class `ccitt-bytealign`: Group 4 with EncodedByteAlign (the unrepaired
reader decoded the fill bits as codes and returned one row) -/
theorem regress_bytealign :
    decodeAll (⟨-1, false, true, 3, 0, false, false, 0⟩ : FCCITT).decParams
      (encodeAll (⟨-1, false, true, 3, 0, false, false, 0⟩ : FCCITT).encParams [224, 224, 0, 224, 0]).1 = ([224, 224, 0, 224, 0], 1) := by
  decide +kernel

/-- regression of D10, class `ccitt-kpos-rows`: K=1 without Rows, two rows written (the
unrepaired reader decoded the return-to-control sequence into a third row) -/
theorem regress_kpos_rows :
    decodeAll (⟨1, false, false, 3, 0, false, false, 0⟩ : FCCITT).decParams
      (encodeAll (⟨1, false, false, 3, 0, false, false, 0⟩ : FCCITT).encParams [224, 224]).1 = ([224, 224], 1) := by
  decide +kernel

/-- regression of D10, class `ccitt-1d-final-run-64`: K=0, 64 columns, first row all black (a
run of 64: make-up code + terminating code of length 0, which the unrepaired reader left in the
stream) -/
theorem regress_1d_final_run_64 :
    decodeAll (⟨0, false, false, 64, 0, false, false, 0⟩ : FCCITT).decParams
      (encodeAll (⟨0, false, false, 64, 0, false, false, 0⟩ : FCCITT).encParams
        [0, 0, 0, 0, 0, 0, 0, 0, 255, 0, 0, 0, 0, 0, 0, 1]).1 = ([0, 0, 0, 0, 0, 0, 0, 0, 255, 0, 0, 0, 0, 0, 0, 1], 1) := by
  decide +kernel

example : decodeAll (⟨-1, false, false, 3, 0, false, false, 0⟩ : FCCITT).decParams
    (encodeAll (⟨-1, false, false, 3, 0, false, false, 0⟩ : FCCITT).encParams w3.flatten).1 = (w3.flatten, 1) := by decide +kernel



/-! ### the bit reader -/

/-- the bits the reader will deliver while no error has occurred -/
def Rd.stream (r : Rd) : Bits := r.win ++ bytesToBits r.src

/-- no error so far, the source not exhausted, no made-up bits in the window -/
def Rd.clean (r : Rd) : Prop := r.err = 0 ∧ r.srcErr = 0 ∧ r.fake = 0

theorem codeBits_length (c : Nat) : ∀ w, (codeBits c w).length = w := by
  intro w; induction w with
  | zero => simp [codeBits]
  | succ w ih => simp [codeBits, ih]

theorem byteBits_length (b : Nat) : (byteBits b).length = 8 := codeBits_length b 8

theorem bitsToNat_foldl (bs : Bits) : ∀ acc, bs.foldl (fun acc b => 2 * acc + (if b then 1 else 0)) acc
    = acc * 2 ^ bs.length + bitsToNat bs := by
  induction bs with
  | nil => intro acc; simp [bitsToNat]
  | cons b rest ih =>
    intro acc
    simp only [List.foldl_cons, List.length_cons, bitsToNat]
    rw [ih, ih (2 * 0 + _)]
    rw [Nat.pow_succ]
    generalize 2 ^ rest.length = p
    generalize List.foldl (fun acc b => 2 * acc + if b = true then 1 else 0) 0 rest = t
    have e1 : acc * (p * 2) = 2 * (acc * p) := by
      rw [Nat.mul_comm p 2, ← Nat.mul_assoc, Nat.mul_comm acc 2, Nat.mul_assoc]
    cases b
    · simp only [Bool.false_eq_true, if_false, Nat.add_zero, Nat.mul_zero, Nat.zero_mul, Nat.zero_add]
      rw [e1, Nat.mul_assoc]
    · simp only [if_true, Nat.mul_zero, Nat.zero_add, Nat.one_mul]
      rw [e1, Nat.add_mul, Nat.mul_assoc, Nat.one_mul]; omega

theorem bitsToNat_cons (b : Bool) (rest : Bits) :
    bitsToNat (b :: rest) = (if b then 1 else 0) * 2 ^ rest.length + bitsToNat rest := by
  simp only [bitsToNat, List.foldl_cons]
  have := bitsToNat_foldl rest (2 * 0 + if b then 1 else 0)
  simp only [bitsToNat] at this
  rw [this]; simp

theorem bitsToNat_append (a b : Bits) : bitsToNat (a ++ b) = bitsToNat a * 2 ^ b.length + bitsToNat b := by
  induction a with
  | nil => simp [bitsToNat]
  | cons x rest ih =>
    rw [List.cons_append, bitsToNat_cons, bitsToNat_cons, ih, List.length_append, Nat.pow_add]
    cases x
    · simp
    · simp only [if_true, Nat.one_mul]
      rw [Nat.add_mul]; omega

theorem bitsToNat_lt (bs : Bits) : bitsToNat bs < 2 ^ bs.length := by
  induction bs with
  | nil => simp [bitsToNat]
  | cons b rest ih =>
    rw [bitsToNat_cons, List.length_cons, Nat.pow_succ]
    cases b <;> simp <;> omega

theorem bitsToNat_codeBits (c : Nat) : ∀ w, bitsToNat (codeBits c w) = c % 2 ^ w := by
  intro w; induction w with
  | zero => simp [codeBits, bitsToNat, Nat.mod_one]
  | succ w ih =>
    simp only [codeBits]
    rw [bitsToNat_cons, ih, codeBits_length]
    have h2 : 0 < 2 ^ w := Nat.pow_pos (by omega)
    have := Nat.div_add_mod c (2 ^ w)
    have hm : c % 2 ^ (w + 1) = (c / 2 ^ w % 2) * 2 ^ w + c % 2 ^ w := by
      rw [Nat.pow_succ, Nat.mod_mul, Nat.mul_comm]; omega
    rw [hm]
    by_cases hb : c / 2 ^ w % 2 = 1
    · simp [hb]
    · have : c / 2 ^ w % 2 = 0 := by omega
      simp [this]

theorem stream_load_step (r : Rd) (b : Nat) (rest : Bytes) (h : r.src = b :: rest) :
    Rd.stream { r with win := r.win ++ byteBits b, src := rest } = Rd.stream r := by
  simp [Rd.stream, h, bytesToBits, List.append_assoc]

theorem load_spec (n : Nat) : ∀ (fuel : Nat) (r : Rd), Rd.clean r → n ≤ (Rd.stream r).length → n ≤ r.win.length + 8 * fuel →
    Rd.clean (r.load n fuel) ∧ Rd.stream (r.load n fuel) = Rd.stream r ∧ n ≤ (r.load n fuel).win.length ∧
    (r.load n fuel).line = r.line := by
  intro fuel
  induction fuel with
  | zero => intro r he hs hf; simp only [Rd.load]; exact ⟨he, trivial, by omega, trivial⟩
  | succ f ih =>
    intro r he hs hf
    unfold Rd.load
    by_cases hw : r.win.length < n
    · rw [if_pos hw, if_pos ⟨he.1, he.2.1⟩]
      cases hsrc : r.src with
      | nil =>
        simp [Rd.stream, hsrc, bytesToBits] at hs; omega
      | cons b rest =>
        simp only []
        have hst := stream_load_step r b rest hsrc
        have := ih { r with win := r.win ++ byteBits b, src := rest } he (by rw [hst]; exact hs)
          (by simp [byteBits_length]; omega)
        rw [hst] at this
        exact this
    · rw [if_neg hw]; exact ⟨he, rfl, by omega, rfl⟩

theorem peek_spec (r : Rd) (n : Nat) (he : Rd.clean r) (hn : n ≤ 24) (hs : n ≤ (Rd.stream r).length) :
    (r.peek n).1 = bitsToNat ((Rd.stream r).take n) ∧ Rd.clean (r.peek n).2 ∧ Rd.stream (r.peek n).2 = Rd.stream r ∧
    (r.peek n).2.line = r.line := by
  obtain ⟨h1, h2, h3, h4⟩ := load_spec n 4 r he hs (by omega)
  unfold Rd.peek
  simp only []
  refine ⟨?_, h1, h2, h4⟩
  rw [← h2]
  unfold Rd.stream
  rw [List.take_append_of_le_length h3]

theorem consume_spec (r : Rd) (n : Nat) (he : Rd.clean r) (hn : n ≤ 24) (hs : n ≤ (Rd.stream r).length) :
    Rd.clean (r.consume n) ∧ Rd.stream (r.consume n) = (Rd.stream r).drop n ∧ (r.consume n).line = r.line := by
  unfold Rd.consume
  by_cases hw : r.win.length < n
  · obtain ⟨h1, h2, h3, h4⟩ := load_spec n 4 r he hs (by omega)
    simp only [hw, if_true]
    have hf : (r.load n 4).fake = 0 := h1.2.2
    simp only [hf, Nat.not_lt_zero, if_false]
    refine ⟨⟨h1.1, h1.2.1, by first | exact hf | rfl⟩, ?_, h4⟩
    rw [← h2]
    simp only [Rd.stream]
    rw [List.drop_append_of_le_length h3]
  · simp only [hw, if_false]
    have hf : r.fake = 0 := he.2.2
    simp only [hf, Nat.not_lt_zero, if_false]
    refine ⟨⟨he.1, he.2.1, by first | exact hf | rfl⟩, ?_, trivial⟩
    simp only [Rd.stream]
    rw [List.drop_append_of_le_length (by omega)]

theorem code_fits_bool (white : Bool) :
    allLt 104 (fun i => Nat.blt (codeEntry white i).1 (2 ^ (codeEntry white i).2.1)) = true := by
  cases white <;> decide +kernel

theorem code_fits (white : Bool) (i : Nat) (hi : i < 104) : (codeEntry white i).1 < 2 ^ (codeEntry white i).2.1 := by
  have := allLt_spec _ _ (code_fits_bool white) i hi
  simp [Nat.blt] at this; omega

/-- **decodeRun reads every code word**: whenever the unread bits start with the code word of
run-length code `i` (any of the 104 codes of either colour) and at least one table index worth of
real bits follows, `decodeRun` returns that code's run length and state, consumes exactly the
code word, and raises no error — for every continuation of the stream. -/
theorem decodeRun_code (white : Bool) (i : Nat) (hi : i < 104) (r : Rd) (rest : Bits) (he : Rd.clean r)
    (hs : Rd.stream r = codeBits (codeEntry white i).1 (codeEntry white i).2.1 ++ rest)
    (hrest : tblBits white ≤ rest.length) :
    (r.decodeRun white).1 = runValue i ∧ (r.decodeRun white).2.1 = (codeEntry white i).2.2.2 ∧
    Rd.clean (r.decodeRun white).2.2 ∧ Rd.stream (r.decodeRun white).2.2 = rest ∧
    (r.decodeRun white).2.2.line = r.line := by
  obtain ⟨_, hw2, hwB⟩ := codes_vs_eol white i hi
  have hfit := code_fits white i hi
  have hrv := runValue_eq white i
  generalize hc : (codeEntry white i).1 = c at *
  generalize hw : (codeEntry white i).2.1 = w at *
  -- the table index seen by the reader
  have hB24 : tblBits white ≤ 24 := by cases white <;> simp [tblBits]
  have hlen : tblBits white ≤ (Rd.stream r).length := by rw [hs, List.length_append, codeBits_length]; omega
  obtain ⟨p1, p2, p3, p4⟩ := peek_spec r (tblBits white) he hB24 hlen
  have htake : (Rd.stream r).take (tblBits white) = codeBits c w ++ rest.take (tblBits white - w) := by
    rw [hs, List.take_append, codeBits_length]
    rw [List.take_of_length_le (by rw [codeBits_length]; exact hwB)]
  have hval : (r.peek (tblBits white)).1 = c * 2 ^ (tblBits white - w) + bitsToNat (rest.take (tblBits white - w)) := by
    rw [p1, htake, bitsToNat_append, bitsToNat_codeBits, Nat.mod_eq_of_lt hfit, List.length_take, Nat.min_eq_left (by omega)]
  have hslt : bitsToNat (rest.take (tblBits white - w)) < 2 ^ (tblBits white - w) := by
    have := bitsToNat_lt (rest.take (tblBits white - w))
    rwa [List.length_take, Nat.min_eq_left (by omega)] at this
  have htab := table_complete white i hi _ (by rw [hw]; exact hslt)
  simp only [hc, hw] at htab
  rw [← hval] at htab
  obtain ⟨t1, t2, t3⟩ := htab
  -- consuming the code word
  have hcons := consume_spec (r.peek (tblBits white)).2 w p2 (by omega) (by rw [p3]; omega)
  rw [p3, hs, List.drop_append, codeBits_length, Nat.sub_self, List.drop_zero,
    List.drop_of_length_le (by rw [codeBits_length]; exact Nat.le_refl _), List.nil_append, p4] at hcons
  have hw0 : w ≠ 0 := by omega
  cases white
  · simp only [tblBits, tblState, tblWidth, tblParam, Bool.false_eq_true, if_false] at *
    unfold Rd.decodeRun
    simp only [Bool.false_eq_true, if_false, t1, t2, t3, hw0]
    exact ⟨hrv, trivial, hcons.1, hcons.2.1, hcons.2.2⟩
  · simp only [tblBits, tblState, tblWidth, tblParam, if_true] at *
    unfold Rd.decodeRun
    simp only [if_true, t1, t2, t3, hw0, if_false]
    exact ⟨hrv, trivial, hcons.1, hcons.2.1, hcons.2.2⟩


def codeWord (white : Bool) (i : Nat) : Bits := codeBits (codeEntry white i).1 (codeEntry white i).2.1

theorem state_makeup (white : Bool) (i : Nat) (h1 : 64 ≤ i) : isTermOrEOL (codeEntry white i).2.2.2 = false := by
  unfold codeEntry
  rw [if_neg (by omega)]
  by_cases h : i < 91
  · rw [if_pos h]; cases white <;> simp <;> decide
  · rw [if_neg h]; simp; decide

theorem state_term (white : Bool) (i : Nat) (h1 : i < 64) : isTermOrEOL (codeEntry white i).2.2.2 = true := by
  unfold codeEntry
  rw [if_pos h1]; cases white <;> simp <;> decide

theorem fullRun_go (white : Bool) (columns : Nat) (rest : Bits) (hrest : tblBits white ≤ rest.length) (t : Nat) (ht : t < 64) :
    ∀ (pre : List Nat) (iter total : Nat) (r : Rd), (∀ i ∈ pre, 64 ≤ i ∧ i < 104) → pre.length < iter → Rd.clean r →
      Rd.stream r = ((pre ++ [t]).map (codeWord white)).flatten ++ rest →
      total + ((pre ++ [t]).map runValue).sum ≤ columns →
      (Rd.decodeFullRun r columns white iter total).1 = total + ((pre ++ [t]).map runValue).sum ∧
      Rd.clean (Rd.decodeFullRun r columns white iter total).2 ∧
      Rd.stream (Rd.decodeFullRun r columns white iter total).2 = rest ∧
      (Rd.decodeFullRun r columns white iter total).2.line = r.line := by
  intro pre
  induction pre with
  | nil =>
    intro iter total r _ hit he hs hsum
    cases iter with
    | zero => simp at hit
    | succ it =>
      simp only [List.nil_append, List.map_cons, List.map_nil, List.flatten_cons, List.flatten_nil, List.append_nil] at hs
      obtain ⟨d1, d2, d3, d4, d5⟩ := decodeRun_code white t (by omega) r rest he hs hrest
      unfold Rd.decodeFullRun
      simp only [d1, d2, state_term white t ht, Bool.true_or, if_true]
      simp
      exact ⟨d3, d4, d5⟩
  | cons i pre ih =>
    intro iter total r hpre hit he hs hsum
    have hi := hpre i (by simp)
    cases iter with
    | zero => simp at hit
    | succ it =>
      simp only [List.cons_append, List.map_cons, List.flatten_cons, List.append_assoc] at hs
      have hcont : tblBits white ≤ (((pre ++ [t]).map (codeWord white)).flatten ++ rest).length := by
        rw [List.length_append]; omega
      obtain ⟨d1, d2, d3, d4, d5⟩ := decodeRun_code white i hi.2 r _ he hs hcont
      simp only [List.cons_append, List.map_cons, List.sum_cons] at hsum ⊢
      have hrec := ih it (total + runValue i) (r.decodeRun white).2.2 (fun j hj => hpre j (by simp [hj]))
        (by simp at hit; omega) d3 d4 (by omega)
      unfold Rd.decodeFullRun
      simp only [d1, d2, state_makeup white i hi.1, Bool.false_or, d3.1]
      simp only [ne_eq, not_true_eq_false, decide_false, Bool.false_eq_true, if_false]
      rw [if_neg (by omega)]
      obtain ⟨r1, r2, r3, r4⟩ := hrec
      exact ⟨by rw [r1]; omega, r2, r3, by rw [r4, d5]⟩


/-- every make-up code stands for at least 64 pixels -/
theorem makeup_sum_ge (pre : List Nat) (h : ∀ i ∈ pre, 64 ≤ i ∧ i < 104) : 64 * pre.length ≤ (pre.map runValue).sum := by
  induction pre with
  | nil => simp
  | cons i pre ih =>
    have hi := h i (by simp)
    have := ih (fun j hj => h j (by simp [hj]))
    have hv : 64 ≤ runValue i := by unfold runValue; split <;> (try split) <;> omega
    simp only [List.length_cons, List.map_cons, List.sum_cons]; omega

/-- **decodeFullRun ∘ encode1DRun** (the run coder of the horizontal mode): for EVERY run length
that fits into the row (`len ≤ Columns`; the reader admits `Columns/64 + 2` code words, a run of
`len` pixels has at most `len/64 + 1`), either colour and any continuation of the stream of at
least one table index, the reader gets the run length back, consumes exactly the run's code words
and raises no error.  (Before the repair of `ccitt-2d-long-run` the reader stopped after 64 code
words, i.e. for runs of 161344 pixels and more.) -/
theorem fullRun_rt (white : Bool) (len columns : Nat) (hlen : len ≤ columns)
    (r : Rd) (rest : Bits) (he : Rd.clean r) (hs : Rd.stream r = encodeRun white len ++ rest)
    (hrest : tblBits white ≤ rest.length) :
    (Rd.decodeFullRun r columns white (columns / 64 + 2) 0).1 = len ∧
    Rd.clean (Rd.decodeFullRun r columns white (columns / 64 + 2) 0).2 ∧
    Rd.stream (Rd.decodeFullRun r columns white (columns / 64 + 2) 0).2 = rest ∧
    (Rd.decodeFullRun r columns white (columns / 64 + 2) 0).2.line = r.line := by
  obtain ⟨hall, pre, t, hsplit, ht, hpre⟩ := run_codes_shape len
  have hsum := run_codes_sum len
  rw [hsplit] at hsum hall
  rw [encodeRun_eq, hsplit] at hs
  have hpre' : ∀ i ∈ pre, 64 ≤ i ∧ i < 104 := fun i hi => ⟨hpre i hi, hall i (by simp [hi])⟩
  have hge := makeup_sum_ge pre hpre'
  have hpl : pre.length < columns / 64 + 2 := by
    simp only [List.map_append, List.sum_append] at hsum
    have : 64 * pre.length ≤ columns := by omega
    omega
  have := fullRun_go white columns rest hrest t ht pre (columns / 64 + 2) 0 r hpre' hpl he hs (by rw [hsum]; omega)
  rw [hsum] at this
  simpa using this

example : tblBits true = 12 ∧ tblBits false = 13 := by decide

end PdfVerif.C06fbt

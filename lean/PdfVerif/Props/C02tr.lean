import PdfVerif.Lemmas.TRGo
import PdfVerif.Generated.FnPdf
/-!
# C02 (translator part): xref-stream field coding on the GENERATED code (xref.go)

`Gen.pdf_decodeInt` and `Gen.pdf_encodeInt64` are re-created from xref.go on every run.  The
writer stores every xref-stream field with `encodeInt64(x, w)` and the reader reads it back with
`decodeInt`; `decodeInt_encodeInt64` is the lemma `xref_stream_rt` (DESIGN C02.3) needs, proved
here for **every** value and **every** width on the generated code.
-/
namespace PdfVerif.C02tr
open PdfVerif PdfVerif.Gen PdfVerif.Go

theorem shl64_8_toNat (s : UInt64) : (shl64 s 8).toNat = (s.toNat * 256) % 18446744073709551616 := by
  unfold shl64
  simp [UInt64.toNat_shiftLeft, Nat.shiftLeft_eq]

theorem decStep_toNat (s : UInt64) (b : UInt8) :
    (shl64 s 8 ||| b.toUInt64).toNat = (s.toNat * 256 + b.toNat) % 18446744073709551616 := by
  rw [UInt64.toNat_or, shl64_8_toNat]
  have hb : b.toUInt64.toNat = b.toNat := by simp
  rw [hb]
  have hb2 := b.toNat_lt
  -- (s*256 % 2^64) = ((s % 2^56) * 256) = (s % 2^56) <<< 8
  have e : s.toNat * 256 % 18446744073709551616 = (s.toNat % 72057594037927936) <<< 8 := by
    rw [Nat.shiftLeft_eq]; omega
  rw [e, ← Nat.shiftLeft_add_eq_or_of_lt (by omega : b.toNat < 2 ^ 8), Nat.shiftLeft_eq]
  omega

theorem shr64_byte (x : UInt64) (n : Nat) : ((shr64 x n).toUInt8).toNat = x.toNat / 2 ^ n % 256 := by
  unfold shr64
  split
  · rename_i h
    have : x.toNat / 2 ^ n = 0 := by
      apply Nat.div_eq_of_lt
      have h1 := x.toNat_lt
      have : 2 ^ 64 ≤ 2 ^ n := Nat.pow_le_pow_right (by omega) h
      omega
    simp [this]
  · rename_i h
    have hn : n < 64 := by omega
    simp [UInt64.toNat_shiftRight, Nat.shiftRight_eq_div_pow, Nat.mod_eq_of_lt hn]

/-- Nat-level value of the decode loop -/
def decNat (s : Nat) : List UInt8 → Nat
  | [] => s
  | b :: bs => decNat ((s * 256 + b.toNat) % 18446744073709551616) bs

theorem decode_loop (buf : List UInt8) (s : UInt64) :
    (forIn (m := Id) buf s fun (x : UInt8) (r : UInt64) => ForInStep.yield (shl64 r 8 ||| x.toUInt64)).toNat
      = decNat s.toNat buf := by
  induction buf generalizing s with
  | nil => simp only [List.forIn_nil, decNat]; rfl
  | cons b bs ih =>
    simp only [List.forIn_cons, decNat]
    rw [← decStep_toNat]
    exact ih _

theorem decodeInt_eq (buf : List UInt8) :
    pdf_decodeInt buf = if decNat 0 buf > 9223372036854775807 then ((0 : Int), some "errInvalidXref")
      else (((decNat 0 buf : Nat) : Int), none) := by
  unfold pdf_decodeInt
  simp only [Id.run, pure]
  have h := decode_loop buf 0
  have h0 : (0 : UInt64).toNat = 0 := rfl
  rw [h0] at h
  have key : ∀ R : UInt64, R.toNat = decNat 0 buf →
      (if decide (R > 9223372036854775807) = true then ((0 : Int), some "errInvalidXref") else (i64 (R.toNat : Int), none))
        = if decNat 0 buf > 9223372036854775807 then ((0 : Int), some "errInvalidXref") else (((decNat 0 buf : Nat) : Int), none) := by
    intro R h
    have hlt : (R > 9223372036854775807) ↔ decNat 0 buf > 9223372036854775807 := by
      rw [← h, gt_iff_lt, UInt64.lt_iff_toNat_lt]; rfl
    simp only [decide_eq_true_eq, hlt]
    split
    · rfl
    · rw [h, i64_of_bounds (by omega) (by omega)]
  exact key _ h

theorem encodeInt64_eq (x : UInt64) (w : Int) (h0 : 0 ≤ w) (h1 : w ≤ 1000000) :
    pdf_encodeInt64 x w = some (none, (List.range w.toNat).map fun k => (shr64 x (8 * (w.toNat - 1 - k))).toUInt8) := by
  unfold pdf_encodeInt64
  simp only [pure, bind]
  have hcount : (i64 (w - 1) + 1 - 0).toNat = w.toNat := by
    rw [i64_of_bounds (by omega) (by omega)]; omega
  rw [hcount]
  rw [forIn_option_yield (List.range w.toNat) (fun k => k < w.toNat) _
      (fun k s => (none, s.snd ++ [(shr64 x (8 * (w.toNat - 1 - k))).toUInt8]))
      ?_ (fun k hk => List.mem_range.mp hk)]
  · -- the fold appends the bytes in order
    have fold : ∀ (l : List Nat) (s : Option (Option String × List UInt8) × List UInt8), s.fst = none →
        (l.foldl (fun s k => ((none : Option (Option String × List UInt8)), s.snd ++ [(shr64 x (8 * (w.toNat - 1 - k))).toUInt8])) s)
          = (none, s.snd ++ l.map fun k => (shr64 x (8 * (w.toNat - 1 - k))).toUInt8) := by
      intro l
      induction l with
      | nil => intro s hs; cases s; simp_all
      | cons a as ih => intro s hs; simp only [List.foldl_cons]; rw [ih _ rfl]; simp
    rw [fold _ _ rfl]
    simp
  · intro k s hk
    have e1 : i64 (w - 1) = w - 1 := i64_of_bounds (by omega) (by omega)
    have e2 : i64 ((w - 1 - (k : Int)) * 8) = (w - 1 - (k : Int)) * 8 := i64_of_bounds (by omega) (by omega)
    have e3 : cnt ((w - 1 - (k : Int)) * 8) = some (8 * (w.toNat - 1 - k)) := by
      unfold cnt
      have : ¬ ((w - 1 - (k : Int)) * 8 < 0) := by omega
      simp only [this, if_false]
      congr 1
      omega
    simp [e1, e2, e3]

/-- the big-endian bytes `encodeInt64` writes (as a function of the value as a `Nat`) -/
def bytesBE (x : UInt64) (W : Nat) : List UInt8 :=
  (List.range W).map fun k => (shr64 x (8 * (W - 1 - k))).toUInt8

theorem bytesBE_succ (x : UInt64) (W : Nat) :
    bytesBE x (W + 1) = (shr64 x (8 * W)).toUInt8 :: bytesBE x W := by
  unfold bytesBE
  rw [List.range_succ_eq_map]
  simp only [List.map_cons, List.map_map]
  congr 1
  apply List.map_congr_left
  intro k _
  simp only [Function.comp]
  congr 3
  omega

theorem decNat_bytesBE (x : UInt64) (W : Nat) (s : Nat) (hs : s < 18446744073709551616) :
    decNat s (bytesBE x W) = (s * 256 ^ W + x.toNat % 256 ^ W) % 18446744073709551616 := by
  induction W generalizing s with
  | zero => simp [bytesBE, decNat, Nat.mod_one]; omega
  | succ W ih =>
    rw [bytesBE_succ, decNat, ih _ (Nat.mod_lt _ (by omega)), shr64_byte]
    have hp : (2 : Nat) ^ (8 * W) = 256 ^ W := by rw [Nat.pow_mul]
    rw [hp]
    have hm : x.toNat % 256 ^ (W + 1) = x.toNat % 256 ^ W + 256 ^ W * (x.toNat / 256 ^ W % 256) := by
      rw [Nat.pow_succ, Nat.mod_mul]
    rw [hm, Nat.pow_succ]
    generalize x.toNat / 256 ^ W % 256 = b
    generalize x.toNat % 256 ^ W = r
    generalize 256 ^ W = c
    rw [Nat.add_mod, Nat.mul_mod, Nat.mod_mod, ← Nat.mul_mod, ← Nat.add_mod]
    congr 1
    rw [Nat.add_mul, Nat.mul_assoc, Nat.mul_comm 256 c, Nat.mul_comm b c]
    omega

/-- **decodeInt ∘ encodeInt64** for every 64-bit value and every width `0 ≤ w` (the writer uses
0…8): `encodeInt64` does not panic, reports no error, writes exactly `w` bytes, and `decodeInt`
of these bytes is `x mod 256^w` — with the error `errInvalidXref` exactly when that exceeds
`MaxInt64`. -/
theorem decodeInt_encodeInt64 (x : UInt64) (w : Int) (h0 : 0 ≤ w) (h1 : w ≤ 1000000) :
    ∃ bs, pdf_encodeInt64 x w = some (none, bs) ∧ bs.length = w.toNat ∧
      pdf_decodeInt bs =
        if x.toNat % 256 ^ w.toNat > 9223372036854775807 then ((0 : Int), some "errInvalidXref")
        else (((x.toNat % 256 ^ w.toNat : Nat) : Int), none) := by
  refine ⟨bytesBE x w.toNat, encodeInt64_eq x w h0 h1, by simp [bytesBE], ?_⟩
  rw [decodeInt_eq, decNat_bytesBE x w.toNat 0 (by omega)]
  have hx := x.toNat_lt
  have : x.toNat % 256 ^ w.toNat < 18446744073709551616 :=
    Nat.lt_of_le_of_lt (Nat.mod_le _ _) (by omega)
  simp only [Nat.zero_mul, Nat.zero_add, Nat.mod_eq_of_lt this]

/-- the case the xref writer relies on: a field value below 2⁶³ that fits into `w` bytes is read
back unchanged -/
theorem xref_field_rt (x : UInt64) (w : Int) (h0 : 0 ≤ w) (h1 : w ≤ 8)
    (hfit : x.toNat < 256 ^ w.toNat) (hpos : x.toNat ≤ 9223372036854775807) :
    ∃ bs, pdf_encodeInt64 x w = some (none, bs) ∧ bs.length = w.toNat ∧ pdf_decodeInt bs = ((x.toNat : Int), none) := by
  obtain ⟨bs, h1, h2, h3⟩ := decodeInt_encodeInt64 x w h0 (by omega)
  refine ⟨bs, h1, h2, ?_⟩
  rw [h3, Nat.mod_eq_of_lt hfit]
  have : ¬ (x.toNat > 9223372036854775807) := by omega
  simp only [this, if_false]

/-- a negative width writes nothing (and does not panic) -/
theorem encodeInt64_neg (x : UInt64) (w : Int) (h0 : w < 0) (h1 : -1000000 ≤ w) :
    pdf_encodeInt64 x w = some (none, []) := by
  unfold pdf_encodeInt64
  simp only [pure, bind]
  have hcount : (i64 (w - 1) + 1 - 0).toNat = 0 := by
    rw [i64_of_bounds (by omega) (by omega)]; omega
  rw [hcount]
  rfl

example : pdf_encodeInt64 258 3 = some (none, [0, 1, 2]) := by decide +kernel
example : pdf_decodeInt [0, 1, 2] = (258, none) := by decide +kernel
example : pdf_decodeInt [0x80, 0, 0, 0, 0, 0, 0, 0] = (0, some "errInvalidXref") := by decide +kernel

end PdfVerif.C02tr

import PdfVerif.Model.HISObj
import PdfVerif.Props.C04hisb
/-!
# C04/C20 (part 7) — the recovery stops at the first line that starts with `endstream`
(known finding `scan-stream-broken-by-endstream-line-in-data`)

When `/Length` is missing or unusable, `ReadStreamData` takes the FIRST EOL byte followed by
`endstream` as the end of the data and does not look at what follows.  A stream whose data has a
line starting with `endstream` (an attached text in PDF syntax, a content-stream string with a
line break) is cut there: inside an indirect object the next token is then not `endobj` and the
complete object is an error / `Broken` — or, when the data goes on with `endobj`, a shorter
stream is accepted.  (A repair that prefers the EOL+`endstream` followed by `endobj` was
declined: it needs a second, unbounded search in the recovery path.)

* `readStreamData_recover`: with an unusable `/Length`, `ReadStreamData` is `recoverExtent`.
* `first_match_extent`: whatever follows the first EOL+`endstream`, the extent ends there.
* the counterexamples, by `decide`.
-/
namespace PdfVerif.C04hisg
open PdfVerif PdfVerif.HIS PdfVerif.C04hisb

/-- with an unusable `/Length` — absent or unresolvable (`declared = none`), or a value that does
    not point at optional white space followed by `endstream` — `ReadStreamData` is the recovery -/
theorem readStreamData_recover (pre tail startEol : Bytes) (hstart : startEol = [10] ∨ startEol = [13, 10])
    (declared : Option Nat)
    (hdecl : ∀ d, declared = some d →
      endstreamAt (pre ++ (kw_stream ++ (startEol ++ tail))) (pre.length + 6 + startEol.length + d) = false) :
    readStreamData (pre ++ (kw_stream ++ (startEol ++ tail))) pre.length declared
      = recoverExtent (pre ++ (kw_stream ++ (startEol ++ tail))) (pre.length + 6 + startEol.length) := by
  unfold readStreamData
  simp only [drop_len_append]
  have hsw : startsWith (kw_stream ++ (startEol ++ tail)) kw_stream = true := by
    unfold startsWith; exact isPrefixOf_self_append _ _
  simp only [hsw, Bool.not_true, Bool.false_eq_true, if_false]
  have hd6 : (kw_stream ++ (startEol ++ tail)).drop 6 = startEol ++ tail := by
    have : (6 : Nat) = kw_stream.length := by simp [kw_stream]
    rw [this]; exact drop_len_append _ _
  rw [hd6]
  rcases hstart with rfl | rfl
  · simp only [List.cons_append, List.nil_append, List.length_cons, List.length_nil]
    cases hdc : declared with
    | none => rfl
    | some d =>
      have := hdecl d hdc
      simp only [List.length_cons, List.length_nil, List.cons_append, List.nil_append] at this
      simp only [this, Bool.and_false, Bool.false_eq_true, if_false]
  · simp only [List.cons_append, List.nil_append, List.length_cons, List.length_nil]
    cases hdc : declared with
    | none => rfl
    | some d =>
      have := hdecl d hdc
      simp only [List.length_cons, List.length_nil, List.cons_append, List.nil_append] at this
      simp only [this, Bool.and_false, Bool.false_eq_true, if_false]

/-- **The extent ends at the first EOL+`endstream`, whatever follows**: `stream_extent_recovery`
puts no condition on `rest`, so for data `body ++ EOL ++ "endstream" ++ more` (a line of the data
starts with `endstream`) exactly `body` comes back — the known finding, as a theorem. -/
theorem first_match_extent (pre body more startEol endEol : Bytes)
    (hstart : startEol = [10] ∨ startEol = [13, 10]) (hend : IsEol endEol)
    (hamb : endEol = [10] → endsInCR body = false) (hno : findEolEndstream body = none) :
    let file := pre ++ kw_stream ++ startEol ++ body ++ endEol ++ kwEndstream ++ more
    let start := pre.length + 6 + startEol.length
    readStreamData file pre.length none
      = .ok { start := start, len := body.length, after := start + body.length + endEol.length + 9 } :=
  (stream_extent_recovery pre body more startEol endEol hstart hend hamb hno none (fun _ h => by cases h)).1

-- the data `a⏎endstream x⏎y` (15 bytes), written as `stream⏎ data ⏎endstream⏎endobj`:
def exData : Bytes := bytesOfString "a\nendstream x\ny"
def exObj : Bytes := bytesOfString "1 0 obj\n<</Length 9 0 R>>\nstream\n" ++ exData ++ bytesOfString "\nendstream\nendobj\n"
-- with the length (15) the object reads back with its data …
example : (match readIndirect exObj 0 (fun _ => .ok 15) false with
    | .ok { val := .stream _ start len, .. } => (exObj.drop start).take len == exData
    | _ => false) = true := by decide +kernel
-- … without it (the length object is lost) the extent is the one byte `a` and the object fails
example : (match readStreamData exObj 26 none with
    | .ok e => e.start == 33 && e.len == 1
    | _ => false) = true := by decide +kernel
example : (match readIndirect exObj 0 (fun _ => .error .malformed) false with
    | .error .malformed => true
    | _ => false) = true := by decide +kernel
-- data which goes on with `endobj`: a shorter stream is accepted (outside the property: the data
-- contains the text of an object end)
def exObj2 : Bytes := bytesOfString "1 0 obj\n<</Length 9 0 R>>\nstream\nab\nendstream\nendobj\ncd\nendstream\nendobj\n"
example : (match readIndirect exObj2 0 (fun _ => .error .malformed) false with
    | .ok { val := .stream _ _ len, .. } => len == 2
    | _ => false) = true := by decide +kernel

end PdfVerif.C04hisg

import PdfVerif.Model.FBPredict
import PdfVerif.Model.FBCCITT
import PdfVerif.Model.FBParams
/-!
C08 (work package FB): the parameter side of "decoders are total and resource-bounded".

* `validate_product_no_overflow`, `validate_reached`: `predict.Params.Validate` computes
  `Colors·BitsPerComponent·Columns` in `int64` only after all three factors are range checked, so
  the product never wraps, for every parameter value (the model computes with `wrap64`).
* `parse_clamps_flate`, `parse_clamps_lzw`, `parse_clamps_ccitt`: for EVERY `/DecodeParms`
  dictionary (any key set, any value types, any magnitudes) the parsed parameters pass the
  filter's own `validate`, and lie in the stated ranges.
* `geoMax_pos`, `decodeMaxRows_pos`: the geometry clamp of `FilterCCITTFax.Decode` is at least 1
  (so the "0 = no limit" value can never be produced) and at most `MaxImageHeight`;
  `ccitt_output_bound`: rows × row size is bounded by an absolute constant for every dictionary.
* `predict_buffers_bounded`: the buffers of a validated predictor are at most 4·maxBytesPerRow.
* `getFilters_bounded`, `getFilters_crypt_first`: at most `maxFilterChainLength` filters, a Crypt
  filter only at position 0.
* `decRows_out_le`: the predictor reader never produces more bytes than it consumes.
-/
namespace PdfVerif.C08fb
open PdfVerif PdfVerif.FB

theorem wrap64_id (x : Int) (h0 : -9223372036854775808 ≤ x) (h1 : x < 9223372036854775808) : wrap64 x = x := by
  unfold wrap64; omega

example : wrap64 9223372036854775808 = -9223372036854775808 := by decide   -- the wrap the theorem excludes

theorem isBpc_cases (b : Int) (h : isBpc b = true) : b = 1 ∨ b = 2 ∨ b = 4 ∨ b = 8 ∨ b = 16 := by
  simp [isBpc] at h; omega

/-- what `Params.Validate` has established when it reaches the `int64` product -/
structure Reached (p : PParams) : Prop where
  colors : 1 ≤ p.colors ∧ p.colors ≤ 256
  bpc : p.bpc = 1 ∨ p.bpc = 2 ∨ p.bpc = 4 ∨ p.bpc = 8 ∨ p.bpc = 16
  columns : 1 ≤ p.columns ∧ p.columns ≤ (Gen.limits_MaxImageWidth : Int)

theorem product_bounds (p : PParams) (h : Reached p) :
    1 ≤ p.colors * p.bpc ∧ p.colors * p.bpc ≤ 4096 ∧
    1 ≤ p.colors * p.bpc * p.columns ∧ p.colors * p.bpc * p.columns ≤ 268435456 := by
  obtain ⟨⟨c1, c2⟩, hb, ⟨k1, k2⟩⟩ := h
  have hw : (Gen.limits_MaxImageWidth : Int) = 65536 := by decide
  rw [hw] at k2
  have hcb : 1 ≤ p.colors * p.bpc ∧ p.colors * p.bpc ≤ 4096 := by
    rcases hb with h | h | h | h | h <;> rw [h] <;> omega
  refine ⟨hcb.1, hcb.2, ?_, ?_⟩
  · have := Int.mul_le_mul hcb.1 k1 (by omega) (by omega); simpa using this
  · have := Int.mul_le_mul hcb.2 k2 (by omega) (by omega); simpa using this

/-- whenever `Validate` computes `Colors·BitsPerComponent·Columns` in `int64`, nothing wraps -/
theorem validate_product_no_overflow (p : PParams) (h : Reached p) :
    wrap64 (wrap64 (p.colors * p.bpc) * p.columns) = p.colors * p.bpc * p.columns := by
  obtain ⟨h1, h2, h3, h4⟩ := product_bounds p h
  rw [wrap64_id (p.colors * p.bpc) (by omega) (by omega), wrap64_id _ (by omega) (by omega)]

example : Reached ⟨256, 16, 65536, 15⟩ := ⟨by decide, by decide, by decide⟩

/-- a successful `Validate` with a real predictor has passed every range check, and the product
was reached only then -/
theorem validate_reached (p : PParams) (hv : p.validate = true) (h1 : p.predictor ≠ 1) :
    Reached p ∧ (p.predictor = 2 ∨ (10 ≤ p.predictor ∧ p.predictor ≤ 15)) ∧
    Int.tdiv (p.colors * p.bpc * p.columns + 7) 8 ≤ (Gen.predict_maxBytesPerRow : Int) := by
  unfold PParams.validate at hv
  rw [if_neg h1] at hv
  split at hv; · simp at hv
  rename_i hA
  split at hv; · simp at hv
  rename_i hB
  split at hv; · simp at hv
  rename_i hC
  split at hv; · simp at hv
  rename_i hD
  split at hv; · simp at hv
  rename_i hE
  split at hv; · simp at hv
  rename_i hF
  have hpred : p.predictor = 2 ∨ (10 ≤ p.predictor ∧ p.predictor ≤ 15) := by
    by_cases h : p.predictor = 2 ∨ (10 ≤ p.predictor ∧ p.predictor ≤ 15)
    · exact h
    · exact absurd h hC
  have hreach : Reached p := by
    refine ⟨?_, isBpc_cases _ (by simpa using hD), by omega⟩
    rcases hpred with h | h
    · have := hA; simp only [h, true_and] at this; omega
    · have := hB; simp only [h, true_and] at this
      omega
  refine ⟨hreach, hpred, ?_⟩
  rw [validate_product_no_overflow p hreach] at hF
  omega

/-- the product line of `Validate` is reached only with range-checked factors: stated on the
branch structure (all earlier `return`s not taken) for arbitrary field values -/
theorem validate_overflow_free_on_every_input (p : PParams) :
    p.predictor = 1 ∨
    (p.predictor = 2 ∧ (p.colors < 1 ∨ p.colors > 60)) ∨
    ((10 ≤ p.predictor ∧ p.predictor ≤ 15) ∧ (p.colors < 1 ∨ p.colors > 256)) ∨
    ¬ (p.predictor = 2 ∨ (10 ≤ p.predictor ∧ p.predictor ≤ 15)) ∨
    isBpc p.bpc = false ∨
    (p.columns < 1 ∨ p.columns > (Gen.limits_MaxImageWidth : Int)) ∨
    Reached p := by
  by_cases h1 : p.predictor = 1; · exact Or.inl h1
  by_cases hA : p.predictor = 2 ∧ (p.colors < 1 ∨ p.colors > 60); · exact Or.inr (Or.inl hA)
  by_cases hB : (10 ≤ p.predictor ∧ p.predictor ≤ 15) ∧ (p.colors < 1 ∨ p.colors > 256); · exact Or.inr (Or.inr (Or.inl hB))
  by_cases hC : ¬ (p.predictor = 2 ∨ (10 ≤ p.predictor ∧ p.predictor ≤ 15)); · exact Or.inr (Or.inr (Or.inr (Or.inl hC)))
  by_cases hD : isBpc p.bpc = false; · exact Or.inr (Or.inr (Or.inr (Or.inr (Or.inl hD))))
  by_cases hE : p.columns < 1 ∨ p.columns > (Gen.limits_MaxImageWidth : Int); · exact Or.inr (Or.inr (Or.inr (Or.inr (Or.inr (Or.inl hE)))))
  refine Or.inr (Or.inr (Or.inr (Or.inr (Or.inr (Or.inr ⟨?_, isBpc_cases _ (by simpa using hD), by omega⟩)))))
  have hpred : p.predictor = 2 ∨ (10 ≤ p.predictor ∧ p.predictor ≤ 15) := Classical.not_not.1 hC
  rcases hpred with h | h
  · simp only [h, true_and] at hA; omega
  · simp only [h, true_and] at hB; omega

/-- sizes derived from validated parameters: no wrap, at least one byte per pixel and per row,
and the reader's three row buffers stay below `4·maxBytesPerRow` -/
theorem predict_buffers_bounded (p : PParams) (hv : p.validate = true) (h1 : p.predictor ≠ 1) :
    1 ≤ p.bytesPerPixel ∧ p.bytesPerPixel ≤ 512 ∧
    1 ≤ p.bytesPerRow ∧ p.bytesPerRow ≤ (Gen.predict_maxBytesPerRow : Int) ∧
    p.bytesPerRow + (p.bytesPerPixel + p.bytesPerRow) + (p.bytesPerRow + 1) ≤ 4 * (Gen.predict_maxBytesPerRow : Int) := by
  obtain ⟨hr, _, hrow⟩ := validate_reached p hv h1
  obtain ⟨b1, b2, b3, b4⟩ := product_bounds p hr
  have hm : (Gen.predict_maxBytesPerRow : Int) = 4194304 := by decide
  have e1 : p.bitsPerPixel = p.colors * p.bpc := wrap64_id _ (by omega) (by omega)
  have e2 : p.bitsPerRow = p.colors * p.bpc * p.columns := by
    unfold PParams.bitsPerRow; rw [e1]; exact wrap64_id _ (by omega) (by omega)
  unfold PParams.bytesPerPixel PParams.bytesPerRow
  rw [e1, e2]
  rw [Int.tdiv_eq_ediv_of_nonneg (by omega)] at hrow
  rw [Int.tdiv_eq_ediv_of_nonneg (by omega), Int.tdiv_eq_ediv_of_nonneg (by omega)]
  omega

/-! ### parse_clamps -/

theorem predictorValid_cases (p : Int) (h : predictorValid p = true) :
    p = 0 ∨ p = 1 ∨ p = 2 ∨ p = 10 ∨ p = 11 ∨ p = 12 ∨ p = 13 ∨ p = 14 ∨ p = 15 := by
  simp [predictorValid, Gen.filter_FlatePredictorNone, Gen.filter_FlatePredictorTIFF, Gen.filter_FlatePredictorPNGNone,
    Gen.filter_FlatePredictorPNGSub, Gen.filter_FlatePredictorPNGUp, Gen.filter_FlatePredictorPNGAverage,
    Gen.filter_FlatePredictorPNGPaeth, Gen.filter_FlatePredictorPNGOptimum] at h
  omega

/-- ranges of the result of `parseFlate`, for every dictionary -/
structure FlateClamped (f : FFlate) : Prop where
  pred : f.predictor = 1 ∨ f.predictor = 2 ∨ (10 ≤ f.predictor ∧ f.predictor ≤ 15)
  unused : f.predictor = 1 → f.colors = 0 ∧ f.bpc = 0 ∧ f.columns = 0
  colors : f.predictor ≠ 1 → 1 ≤ f.colors ∧ f.colors ≤ maxInt
  bpc : f.predictor ≠ 1 → (f.bpc = 1 ∨ f.bpc = 2 ∨ f.bpc = 4 ∨ f.bpc = 8 ∨ f.bpc = 16)
  columns : f.predictor ≠ 1 → 1 ≤ f.columns ∧ f.columns ≤ 1048576

theorem parsePredictor_range (d : Dict) :
    parsePredictor d = 1 ∨ parsePredictor d = 2 ∨ (10 ≤ parsePredictor d ∧ parsePredictor d ≤ 15) := by
  have hN : (Gen.filter_FlatePredictorNone : Int) = 1 := by decide
  unfold parsePredictor
  cases getInt d kPredictor with
  | none => simp [hN]
  | some p =>
    simp only [hN]
    split
    · rename_i h; have := predictorValid_cases p h.1; omega
    · simp

theorem parseColors_range (d : Dict) : 1 ≤ parseColors d ∧ parseColors d ≤ maxInt := by
  have hm : maxInt = 9223372036854775807 := by decide
  unfold parseColors
  cases getInt d kColors with
  | none => simp [hm]
  | some c => simp only []; split <;> simp_all

theorem parseBpc_range (d : Dict) :
    parseBpc d = 1 ∨ parseBpc d = 2 ∨ parseBpc d = 4 ∨ parseBpc d = 8 ∨ parseBpc d = 16 := by
  unfold parseBpc
  cases getInt d kBitsPerComponent with
  | none => simp
  | some b => simp only []; split <;> simp_all

theorem parseColumns_range (d : Dict) : 1 ≤ parseColumns d ∧ parseColumns d ≤ 1048576 := by
  unfold parseColumns
  cases getInt d kColumns with
  | none => simp
  | some c => simp only []; split <;> simp_all

theorem parseFlate_clamped (d : Dict) : FlateClamped (parseFlate d) := by
  have hN : (Gen.filter_FlatePredictorNone : Int) = 1 := by decide
  unfold parseFlate
  rw [hN]
  by_cases h1 : parsePredictor d = 1
  · simp only [h1, ne_eq, not_true_eq_false, if_false]
    exact ⟨by simp, by simp, by simp, by simp, by simp⟩
  · simp only [h1, ne_eq, not_false_eq_true, if_true]
    exact ⟨parsePredictor_range d, fun h => absurd h h1, fun _ => parseColors_range d,
      fun _ => parseBpc_range d, fun _ => parseColumns_range d⟩

/-- `validateFlateLZW` = its own checks and (with a predictor) `predict.Params.Validate` -/
theorem validate_base_of_validate {v : Nat} {p colors bpc columns : Int}
    (h : validateFlateLZW v p colors bpc columns = true) : validateFlateLZWBase v p colors bpc columns = true := by
  unfold validateFlateLZW at h
  exact (Bool.and_eq_true _ _ ▸ h).1

/-- **validate_ok_encode_ok** (library fix 879cf71, former finding D22 `predict-validate-gap`): for ALL
parameters, whatever `validateFlateLZW` accepts is accepted by `predict.Params.Validate` on
`predictParams(p, colors, bpc, columns)` — so `predict.NewWriter`/`NewReader` cannot fail on the
parameters of a validated Flate/LZW filter. -/
theorem validate_ok_encode_ok (v : Nat) (p colors bpc columns : Int)
    (h : validateFlateLZW v p colors bpc columns = true) : (predictParams p colors bpc columns).validate = true := by
  have hN : (Gen.filter_FlatePredictorNone : Int) = 1 := by decide
  unfold validateFlateLZW at h
  have h2 := (Bool.and_eq_true _ _ ▸ h).2
  by_cases hu : usingPredictor p = true
  · simpa [hu] using h2
  · -- no predictor: `predictParams` selects predictor 1, which `Validate` accepts outright
    have h0 : p = 0 ∨ p = 1 := by
      have : usingPredictor p = false := by simpa using hu
      simp [usingPredictor, hN] at this; omega
    unfold predictParams PParams.validate
    rcases h0 with h | h <;> simp [h]

theorem flate_validate_ok_encode_ok (f : FFlate) (v : Nat) (h : f.validate v = true) : f.pparams.validate = true := by
  unfold FFlate.validate at h
  split at h
  · simp at h
  · exact validate_ok_encode_ok v _ _ _ _ h

theorem lzw_validate_ok_encode_ok (f : FLZW) (v : Nat) (h : f.validate v = true) :
    (predictParams f.predictor f.colors f.bpc f.columns).validate = true :=
  validate_ok_encode_ok v _ _ _ _ h

/-- **parse_clamps (Flate)**: for EVERY `/DecodeParms` dictionary the parsed filter passes all of
`FilterFlate.validate`'s own checks (`validateBase`) at every version from 1.5 on; below that exactly
the two documented version restrictions (more than 4 colours before 1.3, 16 bits before 1.5) can fail.
Since 879cf71 `validate` additionally applies the predictor's limits, which parsing does not clamp to
(`parse_validate_iff`): a parsed dictionary is valid exactly when the predictor accepts it. -/
theorem parse_clamps_flate (d : Dict) (v : Nat) (hv : Gen.meta_V1_5 ≤ v) : (parseFlate d).validateBase v = true := by
  have hc := parseFlate_clamped d
  generalize parseFlate d = f at hc
  obtain ⟨hp, hu, hcol, hb, hcl⟩ := hc
  have h12 : Gen.meta_V1_2 = 3 := by decide
  have h13 : Gen.meta_V1_3 = 4 := by decide
  have h15 : Gen.meta_V1_5 = 6 := by decide
  have hN : (Gen.filter_FlatePredictorNone : Int) = 1 := by decide
  rw [h15] at hv
  unfold FFlate.validateBase validateFlateLZWBase
  have hvalid : predictorValid f.predictor = true := by
    simp [predictorValid, Gen.filter_FlatePredictorNone, Gen.filter_FlatePredictorTIFF, Gen.filter_FlatePredictorPNGNone,
      Gen.filter_FlatePredictorPNGSub, Gen.filter_FlatePredictorPNGUp, Gen.filter_FlatePredictorPNGAverage,
      Gen.filter_FlatePredictorPNGPaeth, Gen.filter_FlatePredictorPNGOptimum]
    omega
  by_cases h1 : f.predictor = 1
  · obtain ⟨u1, u2, u3⟩ := hu h1
    simp [h12, usingPredictor, hN, h1, u1, u2, u3]
    exact ⟨by omega, by decide⟩
  · have hcol' := hcol h1; have hb' := hb h1; have hcl' := hcl h1
    have hup : usingPredictor f.predictor = true := by simp [usingPredictor, hN]; omega
    simp only [h12, h13, h15, hvalid, hup]
    simp
    omega

theorem parse_clamps_flate_old (d : Dict) (v : Nat) (hv : Gen.meta_V1_2 ≤ v) :
    (parseFlate d).validateBase v = true ∨
    ((parseFlate d).colors > 4 ∧ v < Gen.meta_V1_3) ∨ ((parseFlate d).bpc = 16 ∧ v < Gen.meta_V1_5) := by
  have hc := parseFlate_clamped d
  generalize parseFlate d = f at hc
  obtain ⟨hp, hu, hcol, hb, hcl⟩ := hc
  have h12 : Gen.meta_V1_2 = 3 := by decide
  have h13 : Gen.meta_V1_3 = 4 := by decide
  have h15 : Gen.meta_V1_5 = 6 := by decide
  have hN : (Gen.filter_FlatePredictorNone : Int) = 1 := by decide
  rw [h12] at hv
  by_cases hA : f.colors > 4 ∧ v < Gen.meta_V1_3
  · exact Or.inr (Or.inl hA)
  by_cases hB : f.bpc = 16 ∧ v < Gen.meta_V1_5
  · exact Or.inr (Or.inr hB)
  left
  rw [h13] at hA; rw [h15] at hB
  unfold FFlate.validateBase validateFlateLZWBase
  have hvalid : predictorValid f.predictor = true := by
    simp [predictorValid, Gen.filter_FlatePredictorNone, Gen.filter_FlatePredictorTIFF, Gen.filter_FlatePredictorPNGNone,
      Gen.filter_FlatePredictorPNGSub, Gen.filter_FlatePredictorPNGUp, Gen.filter_FlatePredictorPNGAverage,
      Gen.filter_FlatePredictorPNGPaeth, Gen.filter_FlatePredictorPNGOptimum]
    omega
  by_cases h1 : f.predictor = 1
  · obtain ⟨u1, u2, u3⟩ := hu h1
    simp [h12, usingPredictor, hN, h1, u1, u2, u3]
    exact ⟨by omega, by decide⟩
  · have hcol' := hcol h1; have hb' := hb h1; have hcl' := hcl h1
    have hup : usingPredictor f.predictor = true := by simp [usingPredictor, hN]; omega
    simp only [h12, h13, h15, hvalid, hup]
    simp
    omega

/-- LZW shares the predictor parameters (no version floor of its own) -/
theorem parse_clamps_lzw (d : Dict) (v : Nat) (hv : Gen.meta_V1_5 ≤ v) : (parseLZW d).validateBase v = true := by
  have h := parse_clamps_flate d v hv
  have h12 : Gen.meta_V1_2 = 3 := by decide
  have h15 : Gen.meta_V1_5 = 6 := by decide
  unfold FFlate.validateBase at h
  rw [h12] at h; rw [h15] at hv
  rw [if_neg (by omega)] at h
  simpa [FLZW.validateBase, parseLZW] using h

/-- a parsed `/DecodeParms` dictionary passes `FilterFlate.validate` (PDF ≥ 1.5) exactly when the
predictor accepts the parsed parameters -/
theorem parse_validate_iff (d : Dict) (v : Nat) (hv : Gen.meta_V1_5 ≤ v) :
    (parseFlate d).validate v = (!usingPredictor (parseFlate d).predictor || (parseFlate d).pparams.validate) := by
  have hb := parse_clamps_flate d v hv
  have h12 : Gen.meta_V1_2 = 3 := by decide
  have h15 : Gen.meta_V1_5 = 6 := by decide
  unfold FFlate.validateBase at hb
  unfold FFlate.validate validateFlateLZW FFlate.pparams
  rw [h12] at hb ⊢; rw [h15] at hv
  rw [if_neg (by omega)] at hb ⊢
  rw [hb, Bool.true_and]

example : (parseFlate [(kPredictor, .int 15), (kColors, .int 9223372036854775807), (kColumns, .int (-3))]).validateBase 9 = true ∧
    (parseFlate [(kPredictor, .int 15), (kColors, .int 9223372036854775807), (kColumns, .int (-3))]).validate 9 = false ∧
    (parseFlate [(kPredictor, .int 15), (kColors, .int 3), (kColumns, .int 100)]).validate 9 = true := by
  decide

/-- after parsing, the predictor parameters either fail `Params.Validate` cleanly or reach the
product with range-checked factors: a hostile dictionary cannot make the `int64` product wrap -/
theorem parse_clamps_no_overflow (d : Dict) :
    let p := (parseFlate d).pparams
    p.validate = true → p.predictor ≠ 1 →
    wrap64 (wrap64 (p.colors * p.bpc) * p.columns) = p.colors * p.bpc * p.columns ∧
    p.colors * p.bpc * p.columns ≤ 268435456 := by
  intro p hv h1
  obtain ⟨hr, _, _⟩ := validate_reached p hv h1
  exact ⟨validate_product_no_overflow p hr, (product_bounds p hr).2.2.2⟩

/-! CCITTFax -/

theorem parseDim_range (d : Dict) (key : Bytes) (dflt : Int) (h0 : 0 ≤ dflt) (h1 : dflt ≤ 1048576) :
    0 ≤ parseDim d key dflt ∧ parseDim d key dflt ≤ 1048576 ∧ (0 < dflt → 0 < parseDim d key dflt) := by
  have hm : maxDimP = 1048576 := by decide
  unfold parseDim
  cases getInt d key with
  | none => simp; omega
  | some v => simp only [hm]; split <;> omega

theorem parseK_range (d : Dict) : -1 ≤ parseK d ∧ parseK d ≤ maxInt := by
  have hm : maxInt = 9223372036854775807 := by decide
  unfold parseK
  cases getInt d kK with
  | none => simp [hm]
  | some v =>
    simp only [hm]
    split
    · omega
    · split <;> omega

/-- **geometry clamp**: for every `Columns` value the row cap is at least 1 and at most
`MaxImageHeight` — the clamp can never produce 0 ("no limit") -/
theorem geoMax_pos (cols : Int) : 1 ≤ geoMax cols ∧ geoMax cols ≤ (Gen.limits_MaxImageHeight : Int) := by
  have hh : (Gen.limits_MaxImageHeight : Int) = 65536 := by decide
  unfold geoMax
  rw [hh]
  omega

/-- **parse_clamps (CCITTFax)**: for EVERY dictionary the parsed filter passes
`FilterCCITTFax.validate`; `Columns` is in `[1, 2^20]` (never the 0 shorthand), `Rows` in
`[0, ccittMaxRows(Columns)]` (hence at most `MaxImageHeight`), `DamagedRowsBeforeError` in
`[0, 2^20]`, `K` in `[-1, maxInt]` -/
theorem parse_clamps_ccitt (d : Dict) :
    (parseCCITTFax d).validate = true ∧
    1 ≤ (parseCCITTFax d).columns ∧ (parseCCITTFax d).columns ≤ 1048576 ∧
    0 ≤ (parseCCITTFax d).rows ∧ (parseCCITTFax d).rows ≤ 1048576 ∧
    -1 ≤ (parseCCITTFax d).k ∧ (parseCCITTFax d).k ≤ maxInt ∧
    (parseCCITTFax d).rows ≤ geoMax (parseCCITTFax d).cols := by
  have hm : maxDimV = 1048576 := by decide
  obtain ⟨c0, c1, c2⟩ := parseDim_range d kColumns 1728 (by omega) (by omega)
  obtain ⟨r0, r1, _⟩ := parseDim_range d kRows 0 (by omega) (by omega)
  obtain ⟨d0, d1, _⟩ := parseDim_range d kDamaged 0 (by omega) (by omega)
  obtain ⟨k0, k1⟩ := parseK_range d
  have c3 := c2 (by omega)
  obtain ⟨g1, g2⟩ := geoMax_pos (parseDim d kColumns 1728)
  have hcols : (parseCCITTFax d).cols = parseDim d kColumns 1728 := by
    show (if parseDim d kColumns 1728 = 0 then 1728 else parseDim d kColumns 1728) = _
    have hne : ¬ (parseDim d kColumns 1728 = 0) := by omega
    rw [if_neg hne]
  have hrows : (parseCCITTFax d).rows = min (parseDim d kRows 0) (geoMax (parseDim d kColumns 1728)) := rfl
  refine ⟨?_, by simp [parseCCITTFax]; omega, by simp [parseCCITTFax]; omega, by rw [hrows]; omega,
    by rw [hrows]; omega, by simp [parseCCITTFax]; omega, by simp [parseCCITTFax]; exact k1, by rw [hrows, hcols]; omega⟩
  unfold FCCITT.validate
  rw [hcols, hrows]
  have e1 : ¬ ((parseCCITTFax d).columns < 0 ∨ (parseCCITTFax d).columns > maxDimV) := by
    simp only [parseCCITTFax, hm]; omega
  have e2 : ¬ (min (parseDim d kRows 0) (geoMax (parseDim d kColumns 1728)) < 0 ∨
      min (parseDim d kRows 0) (geoMax (parseDim d kColumns 1728)) > geoMax (parseDim d kColumns 1728)) := by omega
  have e3 : ¬ ((parseCCITTFax d).damaged < 0 ∨ (parseCCITTFax d).damaged > maxDimV) := by
    simp only [parseCCITTFax, hm]; omega
  rw [if_neg e1, if_neg e2, if_neg e3]

theorem decodeMaxRows_pos (f : FCCITT) :
    1 ≤ f.decodeMaxRows ∧ f.decodeMaxRows ≤ (Gen.limits_MaxImageHeight : Int) ∧ f.decParams.maxRows ≠ 0 := by
  obtain ⟨g1, g2⟩ := geoMax_pos f.cols
  have : 1 ≤ f.decodeMaxRows ∧ f.decodeMaxRows ≤ (Gen.limits_MaxImageHeight : Int) := by
    unfold FCCITT.decodeMaxRows; simp only []; split <;> omega
  refine ⟨this.1, this.2, ?_⟩
  simp [FCCITT.decParams]; omega

example : (⟨-1, false, false, 1048576, 0, true, false, 0⟩ : FCCITT).decodeMaxRows = 128 := by decide
example : (⟨-1, false, false, 9223372036854775807, 0, true, false, 0⟩ : FCCITT).decodeMaxRows = 1 := by decide

/-- rows × pixels per row after the clamp is bounded for every parsed dictionary: at most
`MaxImagePixels` pixels (a single row when `Columns` alone exceeds that cannot happen after
parsing: `Columns ≤ 2^20`) -/
theorem ccitt_output_bound (d : Dict) :
    (parseCCITTFax d).decodeMaxRows * (parseCCITTFax d).cols ≤ (Gen.limits_MaxImagePixels : Int) := by
  obtain ⟨_, c1, c2, _⟩ := parse_clamps_ccitt d
  generalize parseCCITTFax d = f at *
  have hp : (Gen.limits_MaxImagePixels : Int) = 134217728 := by decide
  have hh : (Gen.limits_MaxImageHeight : Int) = 65536 := by decide
  have hcols : f.cols = f.columns := by unfold FCCITT.cols; rw [if_neg (by omega)]
  rw [hp]
  have hle : f.decodeMaxRows ≤ geoMax f.cols := by unfold FCCITT.decodeMaxRows; simp only []; split <;> omega
  have hq : 1 ≤ (134217728 : Int) / f.columns := Int.le_ediv_of_mul_le (by omega) (by omega)
  have hg : geoMax f.cols ≤ (134217728 : Int) / f.columns := by
    unfold geoMax; rw [hp, hh, hcols]
    rw [Int.tdiv_eq_ediv_of_nonneg (by omega)]
    rw [show max f.columns 1 = f.columns from by omega]
    omega
  rw [hcols]
  calc f.decodeMaxRows * f.columns ≤ (134217728 / f.columns) * f.columns :=
        Int.mul_le_mul_of_nonneg_right (Int.le_trans hle hg) (by omega)
    _ ≤ 134217728 := Int.ediv_mul_le _ (by omega)

/-! ### GetFilters -/

theorem getFiltersArr_length : ∀ (names parms : List Obj) (fs : List Filter),
    getFiltersArr names parms = .ok fs → fs.length = names.length := by
  intro names
  induction names with
  | nil => intro parms fs h; simp [getFiltersArr] at h; subst h; rfl
  | cons n rest ih =>
    intro parms fs h
    cases n with
    | name nm =>
      cases h1 : parmDictAt parms with
      | error e => simp [getFiltersArr, h1] at h
      | ok d =>
        cases h2 : makeFilter nm d with
        | error e => simp [getFiltersArr, h1, h2] at h
        | ok f =>
          cases h3 : getFiltersArr rest parms.tail with
          | error e => simp [getFiltersArr, h1, h2, h3] at h
          | ok fs' =>
            simp [getFiltersArr, h1, h2, h3] at h
            subst h
            simp [ih _ _ h3]
    | _ => simp [getFiltersArr] at h

theorem single_length (r : Except Err Filter) (fs : List Filter) (h : single r = .ok fs) : fs.length = 1 := by
  cases r with
  | error e => simp [single] at h
  | ok f => simp [single] at h; subst h; rfl

theorem getFiltersRaw_bounded (filter parms : Obj) (fs : List Filter) (h : getFiltersRaw filter parms = .ok fs) :
    fs.length ≤ Gen.container_maxFilterChainLength := by
  have h8 : Gen.container_maxFilterChainLength = 8 := by decide
  cases filter with
  | null => simp [getFiltersRaw] at h; subst h; simp
  | name n =>
    cases parms with
    | null => simp only [getFiltersRaw] at h; rw [single_length _ _ h, h8]; omega
    | dict d => simp only [getFiltersRaw] at h; rw [single_length _ _ h, h8]; omega
    | _ => simp [getFiltersRaw] at h
  | arr names =>
    simp only [getFiltersRaw] at h
    split at h
    · simp at h
    · rename_i hlen
      cases parms with
      | null => simp only [] at h; rw [getFiltersArr_length _ _ _ h]; omega
      | arr pa => simp only [] at h; rw [getFiltersArr_length _ _ _ h]; omega
      | _ => simp at h
  | _ => simp [getFiltersRaw] at h

/-- **chain cap**: whatever `/Filter` and `/DecodeParms` are, `GetFilters` returns at most
`maxFilterChainLength` filters -/
theorem getFilters_bounded (filter parms : Obj) (fs : List Filter) (h : getFilters filter parms = .ok fs) :
    fs.length ≤ Gen.container_maxFilterChainLength := by
  unfold getFilters at h
  cases hr : getFiltersRaw filter parms with
  | error e => simp [hr] at h
  | ok fs' =>
    simp only [hr] at h
    split at h
    · simp at h; subst h; exact getFiltersRaw_bounded _ _ _ hr
    · simp at h

theorem cryptPositionsOk_spec : ∀ (fs : List Filter) (i : Nat), cryptPositionsOk i fs = true →
    ∀ j (hj : j < fs.length), fs[j].isCrypt = true → i + j = 0 := by
  intro fs
  induction fs with
  | nil => intro i _ j hj; simp at hj
  | cons f rest ih =>
    intro i h j hj hc
    simp [cryptPositionsOk] at h
    cases j with
    | zero =>
      simp at hc
      rcases h.1 with h0 | h0
      · rw [hc] at h0; simp at h0
      · omega
    | succ j' =>
      simp at hc hj
      have := ih (i + 1) h.2 j' hj hc
      omega

/-- **Crypt position**: in every accepted chain a Crypt filter can only be the first entry -/
theorem getFilters_crypt_first (filter parms : Obj) (fs : List Filter) (h : getFilters filter parms = .ok fs)
    (j : Nat) (hj : j < fs.length) (hc : fs[j].isCrypt = true) : j = 0 := by
  unfold getFilters at h
  cases hr : getFiltersRaw filter parms with
  | error e => simp [hr] at h
  | ok fs' =>
    simp only [hr] at h
    split at h
    · rename_i hok
      simp at h; subst h
      have := cryptPositionsOk_spec _ 0 hok j hj hc
      omega
    · simp at h

example : (getFilters (.arr (List.replicate 9 (.name nFlate))) .null).toOption.isNone = true := by decide
example : (getFilters (.arr [.name nFlate, .name nCrypt]) .null).toOption.isNone = true := by decide
example : ((getFilters (.arr [.name nCrypt, .name nFlate]) .null).toOption.map List.length) = some 2 := by decide

/-! ### predictor reader output -/

theorem pngUnfilterGo_length (alg bpp : Nat) (enc : Bytes) : ∀ s ps pr, (pngUnfilterGo alg bpp s ps pr enc).length = enc.length := by
  induction enc with
  | nil => intros; simp [pngUnfilterGo]
  | cons c rest ih => intro s ps pr; simp [pngUnfilterGo, ih]


/-! ### the row clamp of `FilterCCITTFax.Decode` is unconditional -/

/-- the effective `MaxRows` is a function of `/Columns` and `/Rows` alone: no value of K,
EndOfLine, EncodedByteAlign, EndOfBlock, BlackIs1 or DamagedRowsBeforeError bypasses the clamp -/
theorem decodeMaxRows_depends_only_on_geometry (f g : FCCITT) (hc : f.columns = g.columns) (hr : f.rows = g.rows) :
    f.decodeMaxRows = g.decodeMaxRows := by
  unfold FCCITT.decodeMaxRows FCCITT.cols; rw [hc, hr]

/-- **clamp for every parameter combination**: for every K, Columns, Rows (absent, small, huge,
negative — any integer), EndOfBlock, EndOfLine, EncodedByteAlign, BlackIs1: the reader is built
with `1 ≤ MaxRows ≤ geoMax(Columns) ≤ MaxImageHeight`; an explicit `/Rows` survives exactly when
it is positive and not above the geometric cap; all other reader parameters are the encoder's. -/
theorem decode_clamp_unconditional (k cols rows dmg : Int) (eol align ieob b1 : Bool) :
    let f : FCCITT := ⟨k, eol, align, cols, rows, ieob, b1, dmg⟩
    1 ≤ f.decParams.maxRows ∧ (f.decParams.maxRows : Int) ≤ geoMax f.cols ∧
    geoMax f.cols ≤ (Gen.limits_MaxImageHeight : Int) ∧
    ((0 < rows ∧ rows ≤ geoMax f.cols) → (f.decParams.maxRows : Int) = rows) ∧
    (¬ (0 < rows ∧ rows ≤ geoMax f.cols) → (f.decParams.maxRows : Int) = geoMax f.cols) ∧
    f.decParams.columns = f.encParams.columns ∧ f.decParams.k = k ∧ f.decParams.ignoreEOB = ieob := by
  intro f
  obtain ⟨g1, g2⟩ := geoMax_pos f.cols
  have hd : f.decodeMaxRows = (if rows ≤ 0 ∨ rows > geoMax f.cols then geoMax f.cols else rows) := rfl
  have hm : (f.decParams.maxRows : Int) = f.decodeMaxRows := by
    show ((f.decodeMaxRows.toNat : Nat) : Int) = f.decodeMaxRows
    have := (decodeMaxRows_pos f).1
    omega
  refine ⟨?_, ?_, g2, ?_, ?_, rfl, rfl, rfl⟩
  · have := (decodeMaxRows_pos f).1; omega
  · rw [hm, hd]; split <;> omega
  · intro h; rw [hm, hd, if_neg (by omega)]
  · intro h; rw [hm, hd, if_pos (by omega)]


/-- rows × columns after the clamp, for EVERY filter value (any K, EndOfBlock, Rows, Columns ≥ 1,
not only parsed ones): at most `MaxImagePixels` pixels, or one row when a single row is wider -/
theorem clamp_pixels_bound (f : FCCITT) (hc : 1 ≤ f.cols) :
    f.decodeMaxRows * f.cols ≤ max (Gen.limits_MaxImagePixels : Int) f.cols := by
  have hp : (Gen.limits_MaxImagePixels : Int) = 134217728 := by decide
  have hh : (Gen.limits_MaxImageHeight : Int) = 65536 := by decide
  have hle : f.decodeMaxRows ≤ geoMax f.cols := by unfold FCCITT.decodeMaxRows; simp only []; split <;> omega
  have hpos := (decodeMaxRows_pos f).1
  rw [hp]
  by_cases hbig : f.cols ≤ 134217728
  · have hq : 1 ≤ (134217728 : Int) / f.cols := Int.le_ediv_of_mul_le (by omega) (by omega)
    have hg : geoMax f.cols ≤ (134217728 : Int) / f.cols := by
      unfold geoMax; rw [hp, hh]
      rw [Int.tdiv_eq_ediv_of_nonneg (by omega)]
      rw [show max f.cols 1 = f.cols from by omega]
      omega
    have : f.decodeMaxRows * f.cols ≤ 134217728 :=
      calc f.decodeMaxRows * f.cols ≤ (134217728 / f.cols) * f.cols :=
            Int.mul_le_mul_of_nonneg_right (Int.le_trans hle hg) (by omega)
        _ ≤ 134217728 := Int.ediv_mul_le _ (by omega)
    omega
  · have hg : geoMax f.cols = 1 := by
      unfold geoMax; rw [hp, hh]
      rw [Int.tdiv_eq_ediv_of_nonneg (by omega)]
      rw [show max f.cols 1 = f.cols from by omega]
      have : (134217728 : Int) / f.cols = 0 := Int.ediv_eq_zero_of_lt (by omega) (by omega)
      rw [this]; omega
    have h1 : f.decodeMaxRows = 1 := by omega
    rw [h1]; omega

/-- the model reader never delivers more rows than `MaxRows` (here `MaxRows > 0`, which
`decode_clamp_unconditional` guarantees for every stream the filter opens) -/
theorem readRows_count (p : CParams) : ∀ (fuel : Nat) (r : Rd) (numRows : Nat) (refLine : Bits),
    0 < p.maxRows → numRows ≤ p.maxRows → (Rd.readRows r p fuel numRows refLine).1.length + numRows ≤ p.maxRows := by
  intro fuel
  induction fuel with
  | zero => intro r n rl h0 h; simp [Rd.readRows]; exact h
  | succ f ih =>
    intro r n rl h0 h
    unfold Rd.readRows
    split
    · rename_i hc
      have hlt : n < p.maxRows := by rcases hc.2 with h1 | h1 <;> omega
      simp only []
      split
      · simp; exact h
      · simp only [List.length_cons]
        rw [Nat.add_assoc, Nat.add_comm 1 n]
        exact ih _ _ _ h0 (by omega)
    · simp; exact h

/-- **rows bound on arbitrary bytes**: whatever the body and whatever the parameters, the
CCITTFax reader opened by `FilterCCITTFax.Decode` delivers at most `geoMax(Columns)` rows, hence
at most `MaxImageHeight`, and at most `/Rows` when that is in range -/
theorem decode_rows_bounded (f : FCCITT) (data : Bytes) :
    ((decodeRows f.decParams data).1.length : Int) ≤ f.decodeMaxRows ∧
    f.decodeMaxRows ≤ geoMax f.cols ∧ geoMax f.cols ≤ (Gen.limits_MaxImageHeight : Int) := by
  obtain ⟨d1, d2, d3⟩ := decodeMaxRows_pos f
  have hpos : 0 < f.decParams.maxRows := by omega
  have := readRows_count f.decParams (8 * data.length + 8) { win := [], src := data, err := 0, line := [] } 0
    (if f.decParams.k ≠ 0 then List.replicate (f.decParams.lineBytes * 8) (!f.decParams.blackIs1) else []) hpos (by omega)
  have hm : (f.decParams.maxRows : Int) = f.decodeMaxRows := by
    show ((f.decodeMaxRows.toNat : Nat) : Int) = f.decodeMaxRows
    omega
  refine ⟨?_, ?_, (geoMax_pos f.cols).2⟩
  · unfold decodeRows; simp only []; omega
  · unfold FCCITT.decodeMaxRows; simp only []; split <;> omega

-- 32 one-bit rows (V0 codes) in four bytes, no EOFB: all of them are delivered (the unrepaired
-- reader lost the last five to its look-ahead, class `ccitt-noeob`)
example : ((decodeRows (⟨-1, false, false, 8, 65536, true, false, 0⟩ : FCCITT).decParams (List.replicate 4 255)).1.length) = 32 := by
  decide +kernel
example : (⟨-1, false, false, 1048576, 1048576, true, false, 0⟩ : FCCITT).decParams.maxRows = 128 := by decide


/-! ### the input cap of `FilterJBIG2.Decode` -/

/-- `limit := min(budget.Available(), int64(limits.MaxJBIG2PageBytes)+1)` (filter.go): the number
of bytes `FilterJBIG2.Decode` may buffer from the layers below it -/
def jbig2InputCap (available : Int) : Int := min available ((Gen.limits_MaxJBIG2PageBytes : Int) + 1)

/-- the cap never exceeds what is left of the stream budget, nor the page size limit + 1 -/
theorem jbig2_input_cap_bounded (available : Int) :
    jbig2InputCap available ≤ available ∧ jbig2InputCap available ≤ (Gen.limits_MaxJBIG2PageBytes : Int) + 1 := by
  unfold jbig2InputCap; omega

/-- for a raw stream of `rawLen` bytes with a fresh budget the decoder pulls at most
`StreamBudget(rawLen) + 1` bytes (the cap and one probe byte), whatever the upstream offers -/
theorem jbig2_pull_le_budget (rawLen : Nat) :
    jbig2InputCap (streamBudget rawLen) + 1 ≤ (streamBudget rawLen : Int) + 1 := by
  have := (jbig2_input_cap_bounded (streamBudget rawLen)).1; omega

/-- the constants and inline literals the cap is written with -/
theorem jbig2_cap_literals_pinned :
    Gen.filter_FilterJBIG2_Decode_lits = [1, 1, 0, 255] ∧ Gen.limits_MaxJBIG2PageBytes = 67108864 ∧
    Gen.limits_MaxJBIG2GlobalsBytes = 8388608 := by decide

example : jbig2InputCap (streamBudget 300) = (Gen.limits_StreamBudgetBase : Int) + 307200 := by decide

/-! ### inline literals of the anchored Go functions

The models repeat the integer literals that the Go code writes inline (`p.Colors > 60`,
`val <= 1<<20`, the bit widths of `peekBits`, the predictor numbers, …).  The extractor lists the
literals of each modelled function in source order; this theorem pins the lists the models were
written against, so that a changed inline bound breaks the build (and is then either a new
finding or a model update). -/
theorem inline_literals_pinned :
    Gen.limits_StreamBudget_lits = [0, 0] ∧
    Gen.predict_Params_Validate_lits = [1, 2, 1, 60, 10, 11, 12, 13, 14, 15, 1, 256, 1, 2, 4, 8, 16, 1, 7, 8] ∧
    Gen.predict_Params_bytesPerRow_lits = [7, 8] ∧
    Gen.predict_Params_bytesPerPixel_lits = [7, 8] ∧
    Gen.predict_paethPredictor_lits = [] ∧
    Gen.predict_writer_processRow_lits = [2, 10, 0, 11, 1, 12, 2, 13, 3, 14, 4, 15] ∧
    Gen.predict_writer_filterRow_lits = [0, 0, 1, 2, 3, 2, 4] ∧
    Gen.predict_reader_decodePNGRow_lits = [0, 0, 1, 0, 0, 1, 2, 3, 2, 4] ∧
    Gen.filter_parseFlate_lits = [0, 1, 1, 8, 1, 2, 4, 8, 16, 1, 1, 1048576] ∧
    Gen.filter_parseLZW_lits = [0] ∧
    Gen.filter_parseCCITTFax_lits = [1048576, 1728, 0, 1, 0, 0, 0] ∧
    Gen.filter_validateFlateLZW_lits = [0, 0, 0, 0, 0, 1, 4, 0, 1, 2, 4, 8, 16, 0, 1, 1048576] ∧
    Gen.filter_predictParams_lits = [0, 1, 0, 8, 0, 1, 0, 1] ∧
    Gen.filter_FilterFlate_toDict_lits = [0, 0, 1, 0, 8, 0, 1, 0] ∧
    Gen.filter_FilterCCITTFax_Info_lits = [0, 0, 1728, 0, 0, 0] ∧
    Gen.filter_FilterCCITTFax_Decode_lits = [1, 1, 0] ∧
    Gen.filter_FilterCCITTFax_Encode_lits = [0] ∧
    Gen.filter_FilterCCITTFax_validate_lits = [1048576, 0, 0, 1728, 0, 0] ∧
    Gen.filter_FilterCCITTFax_toParams_lits = [0, 1728] ∧
    Gen.filter_FlatePredictor_isValid_lits = [0] ∧
    Gen.filter_appendFilter_lits = [0, 0, 0, 0, 0] ∧
    Gen.ccitt_BufferBytes_lits = [0, 1728, 0, 0, 7, 8, 0, 8, 2] ∧
    Gen.ccitt_NewReaderRaw_lits = [0, 1728, 0, 7, 8, 0, 255, 0, 0] ∧
    Gen.ccitt_Reader_decodeG4ScanLine_lits = [24, 4097, 24] ∧
    Gen.ccitt_Reader_decodeG3ScanLine1D_lits = [0, 0, 0, 0, 6] ∧
    Gen.ccitt_Reader_decodeG3ScanLine2D_lits = [11, 0, 11, 1, 1, 11, 0, 0] ∧
    Gen.ccitt_Reader_decodeFullRun_lits = [0, 64, 2] ∧
    Gen.ccitt_Reader_peekBits_lits = [24, 8, 24, 8, 32] ∧
    Gen.ccitt_Reader_consumeBits_lits = [] ∧
    Gen.ccitt_Reader_decodeRun_lits = [12, 13, 0, 0] ∧
    Gen.ccitt_Reader_decode2D_lits = [0, 0, 1, 2, 1, 7, 11, 0, 0, 1, 0, 1, 0, 1, 1] ∧
    Gen.ccitt_NewWriter_lits = [0, 1728, 0, 7, 8, 0, 0, 255, 0] ∧
    Gen.ccitt_Writer_Close_lits = [0, 4097, 24, 0, 6, 1, 12, 0, 6, 3, 13] ∧
    Gen.ccitt_Writer_writeRow_lits = [8, 0, 1, 8, 8, 8, 1, 1, 0, 0, 1, 12, 1, 1, 1, 0, 0, 1, 0, 1, 12, 0, 0] ∧
    Gen.ccitt_Writer_encode1DRun_lits = [2560, 1, 2560, 1792, 1792, 64, 28, 64, 64, 64, 1, 64] ∧
    Gen.ccitt_Writer_encode2DLineG3_lits = [1, 0, 0, 1, 4, 3, 3, 0, 1, 1, 1, 3, 3, 2, 3, 6, 3, 3, 7, 1, 2, 3, 2, 2, 6, 3, 2, 7, 1, 1, 3, 0, 1] := by decide


end PdfVerif.C08fb

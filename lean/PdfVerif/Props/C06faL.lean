import PdfVerif.Model.FALZW
/-!
# C06 (part A, LZW) — bit packing round trip and `decode (encode x) = x` for LZW

`lzw_rt` is the full-strength statement (all byte strings, both `EarlyChange` settings, any
number of table resets); it is proved by a simulation between the writer and the reader of
`Model/FALZW.lean`: after every code both sides agree on width, `hi`, `overflow` and on the
byte string of every table entry, the reader being one entry behind (the `code = hi` case).
-/
namespace PdfVerif.C06faL
open PdfVerif PdfVerif.FA PdfVerif.FA.LZW

/-! ## bit packing -/

theorem toBits_length (w n : Nat) : (toBits w n).length = w := by
  induction w with
  | zero => rfl
  | succ w ih => simp [toBits, ih]

theorem ofBits_append_aux (acc : Nat) (bs : Bits) :
    bs.foldl (fun a b => 2 * a + (if b then 1 else 0)) acc = acc * 2 ^ bs.length + ofBits bs := by
  induction bs generalizing acc with
  | nil => simp [ofBits]
  | cons b bs ih =>
    simp only [List.foldl_cons, List.length_cons, ofBits]
    rw [ih, ih (2 * 0 + _)]
    generalize ofBits bs = v
    rw [Nat.pow_succ]
    generalize 2 ^ bs.length = p
    have e1 : acc * (p * 2) = 2 * (acc * p) := by
      rw [Nat.mul_comm p 2, ← Nat.mul_assoc, Nat.mul_comm acc 2, Nat.mul_assoc]
    cases b
    · simp only [Bool.false_eq_true, if_false, Nat.add_zero, Nat.mul_zero, Nat.zero_mul, Nat.zero_add]
      rw [e1, Nat.mul_assoc]
    · simp only [if_true, Nat.mul_zero, Nat.zero_add, Nat.one_mul]
      rw [e1, Nat.add_mul, Nat.mul_assoc, Nat.one_mul]; omega

/-- the value of the `w` bits of `n` is `n mod 2^w` -/
theorem ofBits_toBits (w n : Nat) : ofBits (toBits w n) = n % 2 ^ w := by
  induction w with
  | zero => simp [toBits, ofBits, Nat.mod_one]
  | succ w ih =>
    simp only [toBits, ofBits, List.foldl_cons]
    rw [ofBits_append_aux, toBits_length, ih, Nat.mod_pow_succ]
    by_cases h : n / 2 ^ w % 2 = 1
    · simp [h]; omega
    · have : n / 2 ^ w % 2 = 0 := by omega
      simp [this]

theorem bitsToBytes_eight (b0 b1 b2 b3 b4 b5 b6 b7 : Bool) (rest : Bits) :
    bitsToBytes (b0 :: b1 :: b2 :: b3 :: b4 :: b5 :: b6 :: b7 :: rest) =
      ofBits [b0, b1, b2, b3, b4, b5, b6, b7] :: bitsToBytes rest := by
  simp [bitsToBytes]

theorem toBits8_ofBits (b0 b1 b2 b3 b4 b5 b6 b7 : Bool) :
    toBits 8 (ofBits [b0, b1, b2, b3, b4, b5, b6, b7]) = [b0, b1, b2, b3, b4, b5, b6, b7] := by
  cases b0 <;> cases b1 <;> cases b2 <;> cases b3 <;> cases b4 <;> cases b5 <;> cases b6 <;> cases b7 <;> rfl

/-- number of zero bits `Close` appends to fill the last byte -/
def padLen (n : Nat) : Nat := (8 - n % 8) % 8

/-- **Bit packing round trip**: cutting a bit string into bytes and reading the bytes back
    bit by bit gives the bit string followed by the zero padding of the last byte. -/
theorem bitpack_rt (bits : Bits) :
    bytesToBits (bitsToBytes bits) = bits ++ List.replicate (padLen bits.length) false := by
  induction bits using bitsToBytes.induct with
  | case1 => simp [bitsToBytes, bytesToBits, padLen]
  | case2 b0 b1 b2 b3 b4 b5 b6 b7 rest ih =>
    rw [bitsToBytes_eight, bytesToBits, ih, toBits8_ofBits]
    have : padLen (b0 :: b1 :: b2 :: b3 :: b4 :: b5 :: b6 :: b7 :: rest).length = padLen rest.length := by
      simp [padLen]; omega
    rw [this]; simp
  | case3 short h1 h2 =>
    rcases short with _ | ⟨b0, _ | ⟨b1, _ | ⟨b2, _ | ⟨b3, _ | ⟨b4, _ | ⟨b5, _ | ⟨b6, _ | ⟨b7, rest⟩⟩⟩⟩⟩⟩⟩⟩
    · exact absurd rfl h1
    all_goals first
      | exact absurd rfl (h2 _ _ _ _ _ _ _ _ _)
      | (simp only [bitsToBytes, List.length_cons, List.length_nil, List.replicate, List.cons_append,
          List.nil_append, bytesToBits, toBits8_ofBits, padLen, List.append_nil])

/-! ## the reader consumes one code -/

/-- what the reader does with the rest of the input once a whole code has arrived -/
def afterCode (r : R) (code : Nat) (rest : Bits) : DecRes :=
  match stepCode r code with
  | .cont r' out => DecRes.pre out (decBits r' r'.width 0 rest)
  | .eof => ([], none)
  | .bad e => ([], some e)

theorem decBits_read_aux (r : R) (n c : Nat) (rest : Bits) : ∀ acc,
    decBits r (n + 1) acc (toBits (n + 1) c ++ rest) = afterCode r (acc * 2 ^ (n + 1) + c % 2 ^ (n + 1)) rest := by
  induction n with
  | zero =>
    intro acc
    simp only [toBits, List.cons_append, List.nil_append, decBits, Nat.zero_add, Nat.le_refl, if_true, afterCode]
    have : (2 * acc + if (c / 2 ^ 0 % 2 == 1) = true then 1 else 0) = acc * 2 ^ 1 + c % 2 ^ 1 := by
      by_cases h : c % 2 = 1
      · simp [h]; omega
      · have : c % 2 = 0 := by omega
        simp [this]; omega
    rw [this]
    rfl
  | succ n ih =>
    intro acc
    rw [toBits, List.cons_append, decBits]
    have hn : ¬ (n + 1 + 1 ≤ 1) := by omega
    rw [if_neg hn, Nat.add_sub_cancel, ih]
    congr 1
    rw [Nat.mod_pow_succ (k := n + 1)]
    generalize c % 2 ^ (n + 1) = lo
    rw [Nat.pow_succ 2 (n + 1)]
    generalize 2 ^ (n + 1) = p
    by_cases h : c / p % 2 = 1
    · simp only [h, beq_self_eq_true, if_true, Nat.mul_one]
      rw [Nat.add_mul, Nat.mul_comm 2 acc, Nat.mul_assoc, Nat.mul_comm 2 p, Nat.one_mul]; omega
    · have h0 : c / p % 2 = 0 := by omega
      simp only [h0, Nat.mul_zero, Nat.add_zero]
      rw [show ((0:Nat) == 1) = false from rfl]
      simp only [Bool.false_eq_true, if_false, Nat.add_zero]
      rw [Nat.mul_comm 2 acc, Nat.mul_assoc, Nat.mul_comm 2 p]

/-- a code of `width ≥ 1` bits written most significant bit first is read back as that code -/
theorem decBits_read (r : R) (width c : Nat) (rest : Bits) (hw : 1 ≤ width) (hc : c < 2 ^ width) :
    decBits r width 0 (toBits width c ++ rest) = afterCode r c rest := by
  obtain ⟨n, rfl⟩ : ∃ n, width = n + 1 := ⟨width - 1, by omega⟩
  rw [decBits_read_aux, Nat.zero_mul, Nat.zero_add, Nat.mod_eq_of_lt hc]

/-! ## the simulation invariant -/

/-- `p` may be the prefix of table entry `c`: a literal or an earlier entry -/
def ValidPrefix (p c : Nat) : Prop := p < 256 ∨ (258 ≤ p ∧ p < c)

/-- the input bytes the writer has accepted but not yet turned into a code -/
def pendingStr (w : W) (S : Nat → Bytes) : Bytes :=
  match w.saved with
  | none => []
  | some c => S c

/-- Writer `w` and reader `r` (which has read every code `w` has written) are in step;
    `S c` is the byte string that code `c` stands for. -/
structure Sim (w : W) (r : R) (S : Nat → Bytes) : Prop where
  width_eq : w.width = r.width
  hi_eq : w.hi = r.hi
  ov_eq : w.overflow = r.overflow
  ec_eq : w.ec = r.ec
  ec_le : w.ec ≤ 1
  ov_pow : w.overflow = 2 ^ w.width
  w_lo : 9 ≤ w.width
  w_hi : w.width ≤ 12
  hi_lo : 257 ≤ w.hi
  hi_ov : w.hi + w.ec < w.overflow
  hi_max : w.hi + w.ec < 4095
  lit : ∀ c, c < 256 → S c = [c]
  /-- every entry of the writer's table extends the string of an earlier code by one byte -/
  enc : ∀ key c, lookup key w.table = some c →
      258 ≤ c ∧ c ≤ w.hi ∧ ∃ p b, key = p * 256 + b ∧ b < 256 ∧ ValidPrefix p c ∧ S c = S p ++ [b]
  size : r.table.size = 4096
  /-- the reader knows every entry below `hi`, with the same strings -/
  dec : ∀ c, 258 ≤ c → c < r.hi → ∃ p s, r.table[c]? = some (p, s) ∧ ValidPrefix p c ∧ S c = S p ++ [s]
  saved : match w.saved with
    | none => r.last = none
    | some code => (code < 256 ∨ (258 ≤ code ∧ code ≤ w.hi)) ∧ (r.last = none → code < 256)
  /-- the writer's newest entry `hi` is the last code written, extended by the first pending byte -/
  last : match r.last with
    | none => w.hi = 257
    | some l => ValidPrefix l w.hi ∧ 258 ≤ w.hi ∧
        ∃ b0, S w.hi = S l ++ [b0] ∧ (pendingStr w S).head? = some b0

theorem clear_eq : clear = 256 := rfl
theorem eof_eq : LZW.eof = 257 := rfl
theorem tableSize_eq : tableSize = 4096 := rfl
theorem maxWidth_eq : maxWidth = 12 := rfl
theorem maxCode_eq : maxCode = 4095 := rfl
theorem initWidth_eq : initWidth = 9 := rfl

/-- walking the reader's prefix chain from a known code yields the code's string -/
theorem expand_ok {w : W} {r : R} {S : Nat → Bytes} (h : Sim w r S) :
    ∀ c, (c < 256 ∨ (258 ≤ c ∧ c < r.hi)) → ∀ fuel, c < fuel → ∀ acc,
      expand r.table fuel c acc = some (S c ++ acc) := by
  intro c
  induction c using Nat.strongRecOn with
  | _ c ih =>
    intro hc fuel hf acc
    obtain ⟨f, rfl⟩ : ∃ f, fuel = f + 1 := ⟨fuel - 1, by omega⟩
    rw [expand]
    by_cases hlit : c < 256
    · simp [clear_eq, hlit, h.lit c hlit]
    · have hc' : 258 ≤ c ∧ c < r.hi := by
        rcases hc with h1 | h1
        · exact absurd h1 hlit
        · exact h1
      obtain ⟨p, s, hget, hvp, hS⟩ := h.dec c hc'.1 hc'.2
      have hp : p < c := by rcases hvp with h1 | h1 <;> omega
      have hp' : p < 256 ∨ (258 ≤ p ∧ p < r.hi) := by
        rcases hvp with h1 | h1
        · exact .inl h1
        · exact .inr ⟨h1.1, by omega⟩
      simp only [clear_eq, hlit, if_false, hget]
      rw [ih p hp hp' f (by omega), hS]
      simp

/-- strings of known codes are not empty -/
theorem S_ne {w : W} {r : R} {S : Nat → Bytes} (h : Sim w r S) (c : Nat)
    (hc : c < 256 ∨ (258 ≤ c ∧ c < r.hi)) : S c ≠ [] := by
  rcases hc with h1 | ⟨h1, h2⟩
  · rw [h.lit c h1]; simp
  · obtain ⟨p, s, _, _, hS⟩ := h.dec c h1 h2
    rw [hS]; simp

/-- the reader's reaction to the code the writer sends for its pending string: it outputs that
    string (also in the `code = hi` case where it does not know the entry yet) -/
theorem stepCode_emitted {w : W} {r : R} {S : Nat → Bytes} (h : Sim w r S) (code : Nat)
    (hs : w.saved = some code) :
    ∃ first, (S code).head? = some first ∧
      stepCode r code = .cont (advance r code (save r first)) (S code) := by
  have hsaved := h.saved
  rw [hs] at hsaved
  obtain ⟨hvalid, hlast0⟩ := hsaved
  have hhi : r.hi < 4095 := by have := h.hi_max; have := h.hi_eq; omega
  rcases hvalid with hlit | ⟨h258, hle⟩
  · -- literal
    refine ⟨code, by simp [h.lit code hlit], ?_⟩
    simp [stepCode, clear_eq, hlit, h.lit code hlit]
  · have hnl : ¬ code < 256 := by omega
    have hnc : ¬ code = 256 := by omega
    have hne : ¬ code = 257 := by omega
    have hle' : code ≤ r.hi := by rw [← h.hi_eq]; exact hle
    by_cases heq : code = r.hi
    · -- the entry the writer has just created
      cases hl : r.last with
      | none => exact absurd (hlast0 hl) hnl
      | some l =>
        have hlast := h.last
        rw [hl] at hlast
        obtain ⟨hvp, _, b0, hS, hhead⟩ := hlast
        have hl' : l < 256 ∨ (258 ≤ l ∧ l < r.hi) := by
          rcases hvp with h1 | h1
          · exact .inl h1
          · exact .inr ⟨h1.1, by rw [← h.hi_eq]; exact h1.2⟩
        have hexp := expand_ok h l hl' tableSize (by rw [tableSize_eq]; rcases hl' with h1 | h1 <;> omega) []
        have hne' := S_ne h l hl'
        obtain ⟨hd, tl, hSl⟩ : ∃ hd tl, S l = hd :: tl := by
          cases hSl : S l with
          | nil => exact absurd hSl hne'
          | cons a b => exact ⟨a, b, rfl⟩
        have hSc : S code = hd :: tl ++ [b0] := by
          rw [heq, ← h.hi_eq, hS, hSl]
        have hb0 : b0 = hd := by
          simp [pendingStr, hs, hSc] at hhead
          exact hhead.symm
        refine ⟨hd, by simp [hSc], ?_⟩
        simp only [stepCode, clear_eq, eof_eq, if_true, heq, beq_self_eq_true, hl, beq_iff_eq]
        simp only [List.append_nil] at hexp
        rw [hexp, hSl]
        simp only [← heq, hSc, hb0]
        simp [hnl, hnc, hne]
    · have hlt : code < r.hi := by omega
      have hc' : code < 256 ∨ (258 ≤ code ∧ code < r.hi) := .inr ⟨h258, hlt⟩
      have hexp := expand_ok h code hc' tableSize (by rw [tableSize_eq]; omega) []
      have hne' := S_ne h code hc'
      obtain ⟨hd, tl, hSc⟩ : ∃ hd tl, S code = hd :: tl := by
        cases hSc : S code with
        | nil => exact absurd hSc hne'
        | cons a b => exact ⟨a, b, rfl⟩
      refine ⟨hd, by simp [hSc], ?_⟩
      simp only [stepCode, clear_eq, eof_eq, hnl, hnc, hne, if_false, hle', if_true, heq, beq_iff_eq]
      simp only [List.append_nil] at hexp
      rw [hexp, hSc]

/-- the writer's state after it has sent its saved code because byte `x` did not extend the match -/
def afterMiss (w : W) (code x : Nat) : W :=
  match incHi w with
  | (w1, _, true) => { w1 with saved := some x }
  | (w1, _, false) => { w1 with saved := some x, table := (code * 2 ^ 8 + x, w1.hi) :: w1.table }

theorem lookup_cons (key k c : Nat) (t : List (Nat × Nat)) :
    lookup key ((k, c) :: t) = if k == key then some c else lookup key t := rfl

/-- `advance` when the table is not full: `hi+1`, `last = code`, width switch exactly when
    `hi + 1 + ec` reaches `overflow` -/
theorem advance_eq (r : R) (code : Nat) (t : Array (Nat × Nat))
    (hov : r.hi + r.ec < r.overflow) (hpow : r.overflow = 2 ^ r.width) (hmax : r.hi + r.ec < 4095)
    (hw : r.width ≤ 12) :
    advance r code t =
      { r with table := t, last := some code, hi := r.hi + 1,
               width := if r.hi + 1 + r.ec = r.overflow then r.width + 1 else r.width,
               overflow := if r.hi + 1 + r.ec = r.overflow then 2 ^ (r.width + 1) else r.overflow } := by
  unfold advance
  by_cases hb : r.hi + 1 + r.ec = r.overflow
  · have h1 : r.hi + 1 + r.ec ≥ r.overflow := by omega
    have h2 : ¬ r.width ≥ maxWidth := by
      rw [maxWidth_eq]
      intro h12
      have : r.width = 12 := by omega
      rw [this] at hpow
      omega
    simp [h2, hb]
  · have h1 : ¬ r.hi + 1 + r.ec ≥ r.overflow := by omega
    simp [h1, hb]

theorem incHi_full (w : W) (hf : w.hi + 1 + w.ec = 4095) :
    incHi w = ({ w with width := initWidth, hi := LZW.eof, overflow := clear * 2, table := [] },
      toBits (if w.hi + 1 + w.ec = w.overflow then w.width + 1 else w.width) clear, true) := by
  unfold incHi
  by_cases hb : w.hi + 1 + w.ec = w.overflow
  · have hov : w.overflow = 4095 := by omega
    simp [hf, hov, maxCode_eq]
  · have hb' : ¬ 4095 = w.overflow := by omega
    simp [hf, hb', maxCode_eq]

theorem incHi_notfull (w : W) (hf : ¬ w.hi + 1 + w.ec = 4095) :
    incHi w = ({ w with width := if w.hi + 1 + w.ec = w.overflow then w.width + 1 else w.width,
                        hi := w.hi + 1,
                        overflow := if w.hi + 1 + w.ec = w.overflow then w.overflow * 2 else w.overflow },
      [], false) := by
  unfold incHi
  by_cases hb : w.hi + 1 + w.ec = w.overflow
  · have hov : ¬ w.overflow = 4095 := by omega
    simp [hb, hov, maxCode_eq]
  · simp [hb, hf, maxCode_eq]

/-- the reader consumes the code the writer sends for its pending string (no clear code
    involved): it outputs the string and switches the width exactly like the writer -/
theorem read_code {w : W} {r : R} {S : Nat → Bytes} (h : Sim w r S) (code : Nat) (hs : w.saved = some code) :
    ∃ r', (∀ rest, decBits r r.width 0 (toBits w.width code ++ rest) =
        DecRes.pre (S code) (decBits r' r'.width 0 rest)) ∧
      r'.width = (if w.hi + 1 + w.ec = w.overflow then w.width + 1 else w.width) := by
  obtain ⟨first, hfirst, hstep⟩ := stepCode_emitted h code hs
  have hsaved := h.saved
  rw [hs] at hsaved
  obtain ⟨hvalid, hlast0⟩ := hsaved
  have hw1 : 1 ≤ r.width := by have := h.w_lo; have := h.width_eq; omega
  have hpow9 : (2:Nat) ^ 9 ≤ 2 ^ w.width := Nat.pow_le_pow_right (by decide) h.w_lo
  have hovp := h.ov_pow
  have hhiov := h.hi_ov
  have hcode : code < 2 ^ r.width := by
    rw [← h.width_eq, ← h.ov_pow]
    rcases hvalid with h1 | h1 <;> omega
  have hadv := advance_eq r code (save r first) (by rw [← h.hi_eq, ← h.ec_eq, ← h.ov_eq]; exact h.hi_ov)
    (by rw [← h.ov_eq, ← h.width_eq]; exact h.ov_pow) (by rw [← h.hi_eq, ← h.ec_eq]; exact h.hi_max)
    (by rw [← h.width_eq]; exact h.w_hi)
  rw [← h.hi_eq, ← h.ec_eq, ← h.ov_eq, ← h.width_eq] at hadv
  refine ⟨advance r code (save r first), ?_, by rw [hadv]⟩
  intro rest
  rw [h.width_eq, decBits_read r r.width code rest hw1 hcode, afterCode, hstep]

/-- the strings of the codes after the writer has sent `code` because of byte `x`: unchanged if
    the table was full (clear code), otherwise the new entry `hi + 1` stands for `S code ++ [x]` -/
def nextS (w : W) (S : Nat → Bytes) (code x : Nat) : Nat → Bytes :=
  if w.hi + 1 + w.ec = 4095 then S else fun c => if c = w.hi + 1 then S code ++ [x] else S c

/-- **Simulation step (emission).**  When the writer sends its saved code (and possibly a clear
    code), the reader outputs exactly the string of that code and both sides are in step again. -/
theorem emit_sim {w : W} {r : R} {S : Nat → Bytes} (h : Sim w r S) (code x : Nat)
    (hs : w.saved = some code) (hx : x < 256) :
    ∃ r1, Sim (afterMiss w code x) r1 (nextS w S code x) ∧ nextS w S code x x = [x] ∧
      ∀ rest, decBits r r.width 0 (toBits w.width code ++ (incHi w).2.1 ++ rest) =
        DecRes.pre (S code) (decBits r1 r1.width 0 rest) := by
  obtain ⟨first, hfirst, hstep⟩ := stepCode_emitted h code hs
  have hsaved := h.saved
  rw [hs] at hsaved
  obtain ⟨hvalid, hlast0⟩ := hsaved
  have hw1 : 1 ≤ r.width := by have := h.w_lo; have := h.width_eq; omega
  have hpow9 : (2:Nat) ^ 9 ≤ 2 ^ w.width := Nat.pow_le_pow_right (by decide) h.w_lo
  have hovp := h.ov_pow
  have hhiov := h.hi_ov
  have hcode : code < 2 ^ r.width := by
    rw [← h.width_eq, ← h.ov_pow]
    rcases hvalid with h1 | h1 <;> omega
  -- the reader's state after the code
  have hadv := advance_eq r code (save r first) (by rw [← h.hi_eq, ← h.ec_eq, ← h.ov_eq]; exact h.hi_ov)
    (by rw [← h.ov_eq, ← h.width_eq]; exact h.ov_pow) (by rw [← h.hi_eq, ← h.ec_eq]; exact h.hi_max)
    (by rw [← h.width_eq]; exact h.w_hi)
  rw [← h.hi_eq, ← h.ec_eq, ← h.ov_eq, ← h.width_eq] at hadv
  have hread : ∀ rest, decBits r r.width 0 (toBits w.width code ++ rest) =
      DecRes.pre (S code) (decBits (advance r code (save r first)) (advance r code (save r first)).width 0 rest) := by
    intro rest
    rw [h.width_eq, decBits_read r r.width code rest hw1 hcode, afterCode, hstep]
  have hsize : (save r first).size = 4096 := by
    unfold save; split <;> simp [h.size]
  -- the reader's table after `save`: entries below `hi` unchanged, entry `hi` as the writer has it
  have hdec' : ∀ c, 258 ≤ c → c < w.hi + 1 → ∃ p s, (save r first)[c]? = some (p, s) ∧ ValidPrefix p c ∧ S c = S p ++ [s] := by
    intro c h1 h2
    by_cases hc : c < w.hi
    · obtain ⟨p, s, hg, hv, hS⟩ := h.dec c h1 (by rw [← h.hi_eq]; exact hc)
      refine ⟨p, s, ?_, hv, hS⟩
      unfold save
      split
      · rw [Array.getElem?_setIfInBounds_ne (by rw [← h.hi_eq]; omega)]; exact hg
      · exact hg
    · have hce : c = w.hi := by omega
      cases hl : r.last with
      | none =>
        have := h.last; rw [hl] at this; omega
      | some l =>
        have hlast := h.last
        rw [hl] at hlast
        obtain ⟨hvp, _, b0, hS, hhead⟩ := hlast
        have hb0 : b0 = first := by
          simp only [pendingStr, hs] at hhead
          rw [hfirst] at hhead
          exact (Option.some.inj hhead).symm
        refine ⟨l, first, ?_, hce ▸ hvp, by rw [hce, hS, hb0]⟩
        unfold save
        rw [hl, hce, h.hi_eq]
        exact Array.getElem?_setIfInBounds_self_of_lt (by rw [h.size, ← h.hi_eq]; have := h.hi_max; omega)
  by_cases hfull : w.hi + 1 + w.ec = 4095
  · -- the table is full: the writer also sends a clear code and starts over
    have hinc := incHi_full w hfull
    have hAM : afterMiss w code x =
        { w with width := initWidth, hi := LZW.eof, overflow := clear * 2, table := [], saved := some x } := by
      simp [afterMiss, hinc]
    have hw' : (advance r code (save r first)).width = (if w.hi + 1 + w.ec = w.overflow then w.width + 1 else w.width) := by
      rw [hadv]
    have hclr : stepCode (advance r code (save r first)) clear =
        .cont { advance r code (save r first) with width := initWidth, hi := LZW.eof, overflow := 2 ^ initWidth, last := none } [] := by
      simp [stepCode]
    have hnS : nextS w S code x = S := by simp [nextS, hfull]
    rw [hnS]
    refine ⟨{ advance r code (save r first) with width := initWidth, hi := LZW.eof, overflow := 2 ^ initWidth, last := none },
      ?_, h.lit x hx, ?_⟩
    · rw [hAM, hadv]
      refine { width_eq := rfl, hi_eq := rfl, ov_eq := rfl, ec_eq := rfl, ec_le := h.ec_le,
               ov_pow := rfl, w_lo := by dsimp only; decide, w_hi := by dsimp only; decide, hi_lo := by dsimp only; decide, hi_ov := ?_, hi_max := ?_,
               lit := h.lit, enc := ?_, size := hsize, dec := ?_, saved := ?_, last := rfl }
      · dsimp only; have := h.ec_le; rw [eof_eq, clear_eq]; omega
      · dsimp only; have := h.ec_le; rw [eof_eq]; omega
      · intro key c hlk; simp [lookup] at hlk
      · intro c h1 h2
        dsimp only at h2
        rw [eof_eq] at h2; omega
      · dsimp only
        exact ⟨.inl hx, fun _ => hx⟩
    · intro rest
      rw [hinc]
      dsimp only
      rw [List.append_assoc, hread, ← hw']
      have hw9 : 9 ≤ (advance r code (save r first)).width := by
        rw [hw']; have := h.w_lo; split <;> omega
      rw [decBits_read _ _ clear rest (by omega)
        (by rw [clear_eq]; exact Nat.lt_of_lt_of_le (by decide : 256 < 2 ^ 9) (Nat.pow_le_pow_right (by decide) hw9)),
        afterCode, hclr]
      simp
  · have hinc := incHi_notfull w hfull
    have hAM : afterMiss w code x =
        { w with width := if w.hi + 1 + w.ec = w.overflow then w.width + 1 else w.width,
                 hi := w.hi + 1,
                 overflow := if w.hi + 1 + w.ec = w.overflow then w.overflow * 2 else w.overflow,
                 saved := some x, table := (code * 2 ^ 8 + x, w.hi + 1) :: w.table } := by
      simp [afterMiss, hinc]
    have hnS : nextS w S code x = fun c => if c = w.hi + 1 then S code ++ [x] else S c := by simp [nextS, hfull]
    rw [hnS]
    refine ⟨advance r code (save r first), ?_, ?_, ?_⟩
    · rw [hAM, hadv]
      have hSlow : ∀ c, c ≤ w.hi → (if c = w.hi + 1 then S code ++ [x] else S c) = S c := by
        intro c hc; rw [if_neg (by omega)]
      have hhl := h.hi_lo
      have hcodele : code ≤ w.hi := by rcases hvalid with h1 | h1 <;> omega
      refine { width_eq := rfl, hi_eq := by simp [h.hi_eq], ov_eq := ?_, ec_eq := rfl, ec_le := h.ec_le,
               ov_pow := ?_, w_lo := ?_, w_hi := ?_, hi_lo := ?_, hi_ov := ?_, hi_max := ?_, lit := ?_, enc := ?_,
               size := hsize, dec := ?_, saved := ?_, last := ?_ }
      · dsimp only
        split
        · rw [hovp, Nat.pow_succ]
        · rfl
      · dsimp only
        split
        · rw [hovp, Nat.pow_succ]
        · exact hovp
      · dsimp only
        have := h.w_lo; split <;> omega
      · dsimp only
        have := h.w_hi
        split
        · rename_i hb
          have : w.width ≠ 12 := by
            intro h12; rw [h12] at hovp; have := h.hi_max; omega
          omega
        · omega
      · dsimp only
        omega
      · dsimp only
        split <;> omega
      · dsimp only
        have := h.hi_max; omega
      · intro c hc
        show (if c = w.hi + 1 then _ else _) = _
        rw [if_neg (by omega)]; exact h.lit c hc
      · intro key c hlk
        show 258 ≤ c ∧ c ≤ w.hi + 1 ∧ ∃ p b, key = p * 256 + b ∧ b < 256 ∧ ValidPrefix p c ∧
          (if c = w.hi + 1 then S code ++ [x] else S c) = (if p = w.hi + 1 then S code ++ [x] else S p) ++ [b]
        rw [lookup_cons] at hlk
        by_cases hk : (code * 2 ^ 8 + x == key) = true
        · rw [if_pos hk] at hlk
          have hc : c = w.hi + 1 := (Option.some.inj hlk).symm
          have hkey : key = code * 256 + x := by simpa using (beq_iff_eq.mp hk).symm
          refine ⟨by omega, by omega, code, x, hkey, hx, ?_, ?_⟩
          · rcases hvalid with h1 | h1
            · exact .inl h1
            · exact .inr ⟨h1.1, by omega⟩
          · rw [if_pos hc, if_neg (by omega)]
        · rw [if_neg hk] at hlk
          obtain ⟨h1, h2, p, b, hkey, hb, hvp, hS⟩ := h.enc key c hlk
          refine ⟨h1, by omega, p, b, hkey, hb, hvp, ?_⟩
          have hp : p ≤ w.hi := by rcases hvp with h3 | h3 <;> omega
          rw [if_neg (by omega), if_neg (by omega)]; exact hS
      · intro c h1 h2
        show ∃ p s, (save r first)[c]? = some (p, s) ∧ ValidPrefix p c ∧
          (if c = w.hi + 1 then S code ++ [x] else S c) = (if p = w.hi + 1 then S code ++ [x] else S p) ++ [s]
        have h2' : c < w.hi + 1 := h2
        obtain ⟨p, s, hg, hvp, hS⟩ := hdec' c h1 h2'
        refine ⟨p, s, hg, hvp, ?_⟩
        have hp : p ≤ w.hi := by rcases hvp with h3 | h3 <;> omega
        rw [if_neg (by omega), if_neg (by omega)]; exact hS
      · show (x < 256 ∨ _) ∧ _
        exact ⟨.inl hx, fun hn => by simp at hn⟩
      · show ValidPrefix code (w.hi + 1) ∧ 258 ≤ w.hi + 1 ∧ ∃ b0, _
        refine ⟨?_, by omega, x, ?_, ?_⟩
        · rcases hvalid with h1 | h1
          · exact .inl h1
          · exact .inr ⟨h1.1, by omega⟩
        · show (if w.hi + 1 = w.hi + 1 then S code ++ [x] else S (w.hi + 1)) = (if code = w.hi + 1 then _ else S code) ++ [x]
          rw [if_pos rfl, if_neg (by omega)]
        · show (pendingStr _ _).head? = some x
          simp only [pendingStr]
          rw [if_neg (by omega), h.lit x hx]; rfl
    · show (if x = w.hi + 1 then _ else S x) = [x]
      have := h.hi_lo
      rw [if_neg (by omega), h.lit x hx]
    · intro rest
      rw [hinc]
      simp only [List.append_nil]
      exact hread rest

theorem step_miss (w : W) (code x : Nat) (hs : w.saved = some code)
    (hl : lookup (code * 2 ^ 8 + x) w.table = none) :
    step w x = (afterMiss w code x, toBits w.width code ++ (incHi w).2.1) := by
  unfold step afterMiss
  rw [hs]
  simp only [hl]
  rcases hinc : incHi w with ⟨w1, clr, reset⟩
  cases reset
  · have : clr = [] := by
      unfold incHi at hinc
      simp only at hinc
      split at hinc <;> simp_all
    simp [this]
  · simp

/-- the writer's first byte -/
theorem sim_first {w : W} {r : R} {S : Nat → Bytes} (h : Sim w r S) (x : Nat) (hx : x < 256)
    (hs : w.saved = none) : Sim { w with saved := some x } r S := by
  have hsv := h.saved
  rw [hs] at hsv
  dsimp only at hsv
  have hl := h.last
  rw [hsv] at hl
  dsimp only at hl
  exact { width_eq := h.width_eq, hi_eq := h.hi_eq, ov_eq := h.ov_eq, ec_eq := h.ec_eq, ec_le := h.ec_le,
          ov_pow := h.ov_pow, w_lo := h.w_lo, w_hi := h.w_hi, hi_lo := h.hi_lo, hi_ov := h.hi_ov,
          hi_max := h.hi_max, lit := h.lit, enc := h.enc, size := h.size, dec := h.dec,
          saved := ⟨.inl hx, fun _ => hx⟩, last := by rw [hsv]; exact hl }

/-- the match grows: `code` followed by `x` is in the writer's table as `c` -/
theorem sim_hit {w : W} {r : R} {S : Nat → Bytes} (h : Sim w r S) (code x c : Nat) (hx : x < 256)
    (hs : w.saved = some code) (hl : lookup (code * 2 ^ 8 + x) w.table = some c) :
    Sim { w with saved := some c } r S ∧ S c = S code ++ [x] := by
  obtain ⟨h1, h2, p, b, hkey, hb, hvp, hS⟩ := h.enc _ c hl
  have hpb : code = p ∧ x = b := by
    have : code * 256 + x = p * 256 + b := by simpa using hkey
    omega
  obtain ⟨rfl, rfl⟩ := hpb
  have hsv := h.saved
  rw [hs] at hsv
  dsimp only at hsv
  refine ⟨?_, hS⟩
  refine { width_eq := h.width_eq, hi_eq := h.hi_eq, ov_eq := h.ov_eq, ec_eq := h.ec_eq, ec_le := h.ec_le,
           ov_pow := h.ov_pow, w_lo := h.w_lo, w_hi := h.w_hi, hi_lo := h.hi_lo, hi_ov := h.hi_ov,
           hi_max := h.hi_max, lit := h.lit, enc := h.enc, size := h.size, dec := h.dec,
           saved := ?_, last := ?_ }
  · dsimp only
    refine ⟨.inr ⟨h1, h2⟩, fun hn => ?_⟩
    have := h.last
    rw [hn] at this
    dsimp only at this
    omega
  · have hlast := h.last
    cases hlr : r.last with
    | none => rw [hlr] at hlast; exact hlast
    | some l =>
      rw [hlr] at hlast
      obtain ⟨a1, a2, b0, a3, a4⟩ := hlast
      refine ⟨a1, a2, b0, a3, ?_⟩
      simp only [pendingStr, hs] at a4
      simp only [pendingStr, hS]
      cases hSc : S code with
      | nil => rw [hSc] at a4; simp at a4
      | cons hd tl => rw [hSc] at a4; simpa using a4

theorem afterMiss_width (w : W) (code x : Nat) : (afterMiss w code x).width = (incHi w).1.width := by
  unfold afterMiss
  rcases incHi w with ⟨w1, clr, b⟩
  cases b <;> rfl

theorem afterMiss_saved (w : W) (code x : Nat) : (afterMiss w code x).saved = some x := by
  unfold afterMiss
  rcases incHi w with ⟨w1, clr, b⟩
  cases b <;> rfl

theorem stepCode_eof (r : R) : stepCode r LZW.eof = .eof := by
  simp [stepCode, clear_eq, eof_eq]

/-- `Close`: the reader delivers the pending string and stops at the eof code, whatever follows -/
theorem close_sim {w : W} {r : R} {S : Nat → Bytes} (h : Sim w r S) (tl : Bits) :
    decBits r r.width 0 (close w ++ tl) = (pendingStr w S, none) := by
  have heofw : ∀ (r' : R) (n : Nat), 9 ≤ n → r'.width = n →
      decBits r' r'.width 0 (toBits n LZW.eof ++ tl) = ([], none) := by
    intro r' n hn hw
    rw [hw, decBits_read r' n LZW.eof tl (by omega)
      (by rw [eof_eq]; exact Nat.lt_of_lt_of_le (by decide : 257 < 2 ^ 9) (Nat.pow_le_pow_right (by decide) hn)),
      afterCode, stepCode_eof]
  unfold close
  cases hs : w.saved with
  | none =>
    simp only [pendingStr, hs]
    exact heofw r w.width h.w_lo h.width_eq.symm
  | some code =>
    obtain ⟨r1, hsim1, _, hread⟩ := emit_sim h code 0 hs (by decide)
    simp only [pendingStr, hs]
    rcases hinc : incHi w with ⟨w1, clr, b⟩
    rw [hinc] at hread
    dsimp only at hread ⊢
    rw [List.append_assoc, hread]
    have hw1 : r1.width = w1.width := by
      rw [← hsim1.width_eq, afterMiss_width, hinc]
    have h9 : 9 ≤ w1.width := by
      rw [← hw1, ← hsim1.width_eq]; exact hsim1.w_lo
    rw [heofw r1 w1.width h9 hw1]
    simp

/-- **Simulation.**  From any pair of states in step, the reader turns everything the writer
    still writes (followed by arbitrary bits, e.g. the padding of the last byte) into the
    pending string followed by the remaining input. -/
theorem run_sim (xs : Bytes) (hx : AllBytes xs) : ∀ (w : W) (r : R) (S : Nat → Bytes), Sim w r S → ∀ tl,
    decBits r r.width 0 (run w xs ++ tl) = (pendingStr w S ++ xs, none) := by
  induction xs with
  | nil => intro w r S h tl; simp [run, close_sim h tl]
  | cons x xs ih =>
    intro w r S h tl
    have hx256 : x < 256 := by simp at hx; exact hx.1
    have hxs : AllBytes xs := by simp at hx; exact hx.2
    rw [run]
    cases hs : w.saved with
    | none =>
      have hstep : step w x = ({ w with saved := some x }, []) := by simp [step, hs]
      rw [hstep]
      dsimp only
      rw [List.nil_append, ih hxs _ r S (sim_first h x hx256 hs) tl]
      simp [pendingStr, hs, h.lit x hx256]
    | some code =>
      cases hl : lookup (code * 2 ^ 8 + x) w.table with
      | some c =>
        have hstep : step w x = ({ w with saved := some c }, []) := by simp [step, hs, hl]
        obtain ⟨hsim, hS⟩ := sim_hit h code x c hx256 hs hl
        rw [hstep]
        dsimp only
        rw [List.nil_append, ih hxs _ r S hsim tl]
        simp [pendingStr, hs, hS]
      | none =>
        obtain ⟨r1, hsim1, hS1, hread⟩ := emit_sim h code x hs hx256
        rw [step_miss w code x hs hl]
        dsimp only
        rw [List.append_assoc, hread, ih hxs _ r1 _ hsim1 tl]
        simp [pendingStr, hs, afterMiss_saved, hS1]

/-- the strings of the literal codes -/
def S0 (c : Nat) : Bytes := if c < 256 then [c] else []

theorem sim_init (early : Bool) : Sim (W.init early) (R.init early) S0 := by
  refine { width_eq := rfl, hi_eq := rfl, ov_eq := rfl, ec_eq := rfl, ec_le := ?_,
           ov_pow := rfl, w_lo := by cases early <;> decide, w_hi := by cases early <;> decide,
           hi_lo := by cases early <;> decide, hi_ov := ?_, hi_max := ?_,
           lit := ?_, enc := ?_, size := ?_, dec := ?_, saved := rfl, last := rfl }
  · cases early <;> decide
  · cases early <;> decide
  · cases early <;> decide
  · intro c hc; simp [S0, hc]
  · intro key c hlk; simp [W.init, lookup] at hlk
  · simp [R.init, tableSize_eq]
  · intro c h1 h2
    have : (R.init early).hi = 257 := rfl
    omega

/-- **LZW round trip** (both `EarlyChange` settings) for every byte string: the reader applied to
    the bytes the writer produces — leading clear code, variable code width, clear codes when
    the table fills up, eof code, zero padding — returns the input and a clean end of data. -/
theorem lzw_rt (early : Bool) (x : Bytes) (hx : AllBytes x) : decode early (encode early x) = (x, none) := by
  unfold decode encode encodeBits
  rw [bitpack_rt, List.append_assoc]
  have hclr : stepCode (R.init early) clear = .cont (R.init early) [] := by
    simp [stepCode, R.init]
  rw [decBits_read (R.init early) initWidth clear _ (by decide) (by decide), afterCode, hclr]
  have := run_sim x hx (W.init early) (R.init early) S0 (sim_init early)
    (List.replicate (padLen (toBits initWidth clear ++ run (W.init early) x).length) false)
  rw [show (R.init early).width = initWidth from rfl] at this
  dsimp only
  rw [show (R.init early).width = initWidth from rfl, this]
  simp [pendingStr, W.init]

-- non-vacuity: concrete inputs (with a `code = hi` case: "aaaa…") round-trip by evaluation
example : decode true (encode true [97, 97, 97, 97, 97, 97, 97, 98, 97, 98, 97, 98]) =
    ([97, 97, 97, 97, 97, 97, 97, 98, 97, 98, 97, 98], none) := by decide +kernel
example : encode false [] = [128, 64, 64] := by decide +kernel

end PdfVerif.C06faL

import PdfVerif.Lemmas.C01Fuel
import PdfVerif.Lemmas.C01Total
/-!
# C01 (part g) — the scanner model's fuel

`readObject` and its four companions recurse on a fuel argument (no `partial`).  A successful
parse is independent of the fuel: more fuel never changes an `ok` result, so `parseObject`
(fuel `3·|input| + 8`) returns every result that any smaller fuel returns.
-/
namespace PdfVerif.C01g
open PdfVerif PdfVerif.C01L

/-- **Fuel monotonicity**: a successful `readObject` stays the same with more fuel. -/
theorem readObject_fuel_mono (f f' d : Nat) (inp : Bytes) (r : Obj × Bytes) (hle : f ≤ f')
    (h : readObject f d inp = .ok r) : readObject f' d inp = .ok r := by
  obtain ⟨k, rfl⟩ : ∃ k, f' = f + k := ⟨f' - f, by omega⟩
  induction k with
  | zero => exact h
  | succ k ih => exact (mono_all (f + k)).1 d inp r (ih (by omega))

theorem readArray_fuel_mono (f f' d : Nat) (inp : Bytes) (r : List Obj × Bytes) (hle : f ≤ f')
    (h : readArray f d inp = .ok r) : readArray f' d inp = .ok r := by
  obtain ⟨k, rfl⟩ : ∃ k, f' = f + k := ⟨f' - f, by omega⟩
  induction k with
  | zero => exact h
  | succ k ih => exact (mono_all (f + k)).2.1 d inp r (ih (by omega))

theorem readDict_fuel_mono (f f' d : Nat) (inp : Bytes) (r : List (Bytes × Obj) × Bytes) (hle : f ≤ f')
    (h : readDict f d inp = .ok r) : readDict f' d inp = .ok r := by
  obtain ⟨k, rfl⟩ : ∃ k, f' = f + k := ⟨f' - f, by omega⟩
  induction k with
  | zero => exact h
  | succ k ih => exact (mono_all (f + k)).2.2.2.1 d inp r (ih (by omega))

/-- whatever some fuel up to `scanFuel` parses, `parseObject` parses -/
theorem parseObject_complete (inp : Bytes) (f : Nat) (hf : f ≤ scanFuel inp) (r : Obj × Bytes)
    (h : readObject f 0 inp = .ok r) : parseObject inp = .ok r :=
  readObject_fuel_mono f (scanFuel inp) 0 inp r hf h

/-- two successful parses with different fuel agree -/
theorem readObject_fuel_unique (f1 f2 d : Nat) (inp : Bytes) (r1 r2 : Obj × Bytes)
    (h1 : readObject f1 d inp = .ok r1) (h2 : readObject f2 d inp = .ok r2) : r1 = r2 := by
  have a := readObject_fuel_mono f1 (max f1 f2) d inp r1 (by omega) h1
  have b := readObject_fuel_mono f2 (max f1 f2) d inp r2 (by omega) h2
  rw [a] at b
  exact Except.ok.inj b

/-- **`parse_total`.**  For ANY input, `parseObject` never returns the model's out-of-fuel error
`.other`: the recursion budget `scanFuel = 3·|input| + 8` always suffices, and the
"unreachable" branch of the `R` detection (fewer than two integers on the stack although
`integersSeen ≥ 2`) is indeed unreachable.  So every result of the model is a result the scanner
can produce: a value, `eof`, or `malformed`. -/
theorem parse_total (inp : Bytes) : parseObject inp ≠ .error .other :=
  (tot_all (scanFuel inp)).1 0 inp (by simp [scanFuel])

/-- the same for every nesting depth and every fuel from `3·|input| + 3` on -/
theorem readObject_total (f d : Nat) (inp : Bytes) (hf : 3 * inp.length + 3 ≤ f) :
    readObject f d inp ≠ .error .other :=
  (tot_all f).1 d inp hf

/-- every successful read consumes at least one byte (the loops of `ReadArray`/`ReadDict`
    terminate) -/
theorem readObject_consumes (f d : Nat) (inp : Bytes) (o : Obj) (r : Bytes)
    (h : readObject f d inp = .ok (o, r)) : r.length < inp.length :=
  (cons_all f).1 d inp o r h

/-- with enough fuel the result is the same for every fuel, when it is a value -/
theorem parseObject_fuel_indep (inp : Bytes) (f : Nat) (hf : scanFuel inp ≤ f) (r : Obj × Bytes)
    (h : parseObject inp = .ok r) : readObject f 0 inp = .ok r :=
  readObject_fuel_mono (scanFuel inp) f 0 inp r hf h

-- non-vacuity: `[[1]]` needs fuel 7; less gives the model's `other`, more gives the same value
example : (match readObject 7 0 [91, 91, 49, 93, 93], readObject 100 0 [91, 91, 49, 93, 93] with
      | .ok (a, ra), .ok (b, rb) => a.wire == b.wire && ra == rb && ra == []
      | _, _ => false) = true ∧
    (match readObject 6 0 [91, 91, 49, 93, 93] with | .error .other => true | _ => false) = true := by
  decide +kernel

end PdfVerif.C01g

import PdfVerif.Props.C19robtok
namespace PdfVerif.C19robobj
open PdfVerif PdfVerif.ROB PdfVerif.C05robbuf PdfVerif.C05robobj PdfVerif.C19robtok

/-- the end of one round of `ReadDict`'s loop: the cap test and the next round -/
def dictContBuf (loop : List (Bytes × Obj) → SB → SB × Except Err (List (Bytes × Obj)))
    (acc : List (Bytes × Obj)) (key : Bytes) (val : Obj) (s : SB) : SB × Except Err (List (Bytes × Obj)) :=
  if !(acc.any fun e => e.1 == key) && acc.length ≥ Gen.scanner_maxDictLen then (s, .error .malformed)
  else loop (dictInsert key val acc) s

/-- one round of `ReadDict`'s loop from behind the value -/
def dictAfterValBuf (src : Source) (sf : Nat) (loop : List (Bytes × Obj) → SB → SB × Except Err (List (Bytes × Obj)))
    (acc : List (Bytes × Obj)) (key : Bytes) (val : Obj) (s3 : SB) : SB × Except Err (List (Bytes × Obj)) :=
  let (s4, e4) := skipWhiteSpace src sf s3
  match e4 with
  | some e => (s4, .error e)
  | none =>
    match val with
    | .int a =>
      let (s5, buf, e5) := peekN src 1 s4
      match e5 with
      | some e => (s5, .error e)
      | none =>
        match buf with
        | [] => (s5, .error .malformed)
        | c :: _ =>
          if c != 47 && c != 62 then
            match readIntegerBuf src sf s5 with
            | (s6, .error e) => (s6, .error e)
            | (s6, .ok b) =>
              let (s7, e7) := skipWhiteSpace src sf s6
              match e7 with
              | some e => (s7, .error e)
              | none =>
                let (s8, buf8, e8) := peekN src 1 s7
                match e8 with
                | some e => (s8, .error e)
                | none =>
                  match buf8 with
                  | [] => ({ s8 with panicked := true }, .error .other)
                  | c8 :: _ =>
                    if c8 != 82 then (s8, .error .malformed)
                    else
                      let (s9, e9) := skipWhiteSpace src sf (adv 1 s8)
                      match e9 with
                      | some e => (s9, .error e)
                      | none => dictContBuf loop acc key (if validRef a b then .ref a.toNat b.toNat else .null) s9
          else dictContBuf loop acc key val s5
    | _ => dictContBuf loop acc key val s4

/-- one round of `ReadDict`'s loop from behind the key -/
def dictAfterKeyBuf (src : Source) (sf : Nat) (obj : SB → SB × Except Err Obj)
    (loop : List (Bytes × Obj) → SB → SB × Except Err (List (Bytes × Obj)))
    (acc : List (Bytes × Obj)) (key : Bytes) (s1 : SB) : SB × Except Err (List (Bytes × Obj)) :=
  let (s2, e2) := skipWhiteSpace src sf s1
  match e2 with
  | some e => (s2, .error e)
  | none =>
    match obj s2 with
    | (s3, .error e) => (s3, .error e)
    | (s3, .ok val) => dictAfterValBuf src sf loop acc key val s3

theorem readDictLoopBuf_eq (src : Source) (sf fuel depth : Nat) (acc : List (Bytes × Obj)) (s : SB) :
    readDictLoopBuf src sf (fuel + 1) depth acc s =
      match readNameBuf src sf s with
      | (s1, .error e) =>
        if e == .malformed then
          let (s2, e2) := skipString src [62, 62] s1
          match e2 with
          | some e => (s2, .error e)
          | none => (s2, .ok acc)
        else (s1, .error e)
      | (s1, .ok key) =>
        dictAfterKeyBuf src sf (readObjectBuf src sf fuel depth) (readDictLoopBuf src sf fuel depth) acc key s1 := by
  conv => lhs; unfold readDictLoopBuf
  rfl

/-! ## helpers -/

abbrev T : SB → Prop := fun _ => True

/-- the three ways a call can have ended, for a result already taken apart -/
theorem relF_cases {α : Type} {d : Bytes} {e0 : Err} {lat : Bool} {E : SB → Prop} {s2 : SB} {res : Except Err α}
    {m : Except Err (α × Bytes)} (hr : RelF d e0 lat E (s2, res) m) :
    (∃ v rest, res = .ok v ∧ m = .ok (v, rest) ∧ GoodF d e0 lat s2 ∧ view d s2 = rest) ∨
    (∃ e, res = .error e ∧ m = .error e ∧ GoodF d e0 lat s2 ∧ E s2) ∨
    (res = .error e0 ∧ GoodF d e0 true s2) := by
  rcases hr with a | b
  · unfold RelA at a
    cases m with
    | ok p => obtain ⟨v, rest⟩ := p; exact Or.inl ⟨v, rest, a.1, rfl, a.2.1, a.2.2⟩
    | error e => exact Or.inr (Or.inl ⟨e, a.1, rfl, a.2.1, a.2.2⟩)
  · exact Or.inr (Or.inr b)

theorem inComposite_ne (e : Err) (he : e ≠ .eof) : e.inComposite = e := by
  cases e <;> first | rfl | exact (he rfl).elim

theorem relF_mapErrB {α : Type} {d : Bytes} {e0 : Err} (he0 : e0 ≠ .eof) {lat : Bool} {r : SB × Except Err α}
    {m : Except Err (α × Bytes)} (hr : RelF d e0 lat T r m) :
    RelF d e0 lat T (mapErrB r) (m.mapError Err.inComposite) := by
  rcases hr with a | b
  · left
    unfold RelA mapErrB at *
    cases m with
    | error e => simp only [Except.mapError] at a ⊢; rw [a.1]; exact ⟨rfl, a.2⟩
    | ok p => obtain ⟨v, rest⟩ := p; simp only [Except.mapError] at a ⊢; rw [a.1]; exact ⟨rfl, a.2⟩
  · right
    unfold FltB mapErrB at *
    simp only []
    rw [b.1]
    simp only [Except.mapError, inComposite_ne e0 he0]
    exact ⟨trivial, b.2⟩

section
variable {d : Bytes} {e0 : Err} {src : Source} (h : FaultyOver d e0 src) {sf : Nat} (hsf : d.length + 2 ≤ sf)
include h hsf

/-- `SkipWhiteSpace` on a failing reader, as its callers use it -/
theorem ws_casesF {lat : Bool} (s : SB) (gs : GoodF d e0 lat s) :
    ((skipWhiteSpace src sf s).2 = some .eof ∧ (skipWS (view d s)).2 = true ∧ GoodF d e0 lat (skipWhiteSpace src sf s).1) ∨
    ((skipWhiteSpace src sf s).2 = none ∧ GoodF d e0 lat (skipWhiteSpace src sf s).1 ∧
      ∃ c rest, skipWS (view d s) = (c :: rest, false) ∧ view d (skipWhiteSpace src sf s).1 = c :: rest) ∨
    ((skipWhiteSpace src sf s).2 = some e0 ∧ GoodF d e0 true (skipWhiteSpace src sf s).1) := by
  obtain ⟨gw, wout⟩ := wsF h hsf s gs
  rcases wout with ⟨w2, w1⟩ | w3
  · rcases w2 with h' | h'
    · right; left
      rw [h'] at w1
      have hd : decide ((none : Option Err) = some Err.eof) = false := by decide
      rw [hd] at w1
      have hne := (skipWS_false_ne (view d s)).1 (by rw [w1])
      rw [w1] at hne
      simp only [] at hne
      cases hv : view d (skipWhiteSpace src sf s).1 with
      | nil => exact absurd hv hne
      | cons c rest => exact ⟨h', gw, c, rest, by rw [w1, hv], rfl⟩
    · left
      rw [h'] at w1
      exact ⟨h', by rw [w1]; simp, gw⟩
  · exact Or.inr (Or.inr w3)

end

/-! ## the mutual recursion -/

/-- the five statements at one fuel -/
def RefAtF (d : Bytes) (e0 : Err) (src : Source) (sf fuel : Nat) : Prop :=
  (∀ lat depth s, GoodF d e0 lat s →
      RelF d e0 lat T (readObjectBuf src sf fuel depth s) (readObject fuel depth (view d s))) ∧
  (∀ lat depth s, GoodF d e0 lat s →
      RelF d e0 lat T (readArrayBuf src sf fuel depth s) (readArray fuel depth (view d s))) ∧
  (∀ lat depth acc ints s, GoodF d e0 lat s → IntsOk acc ints →
      RelF d e0 lat T (readArrayLoopBuf src sf fuel depth acc ints s) (readArrayLoop fuel depth acc ints (view d s))) ∧
  (∀ lat depth s, GoodF d e0 lat s →
      RelF d e0 lat T (readDictBuf src sf fuel depth s) (readDict fuel depth (view d s))) ∧
  (∀ lat depth acc s, GoodF d e0 lat s →
      RelF d e0 lat T (readDictLoopBuf src sf fuel depth acc s) (readDictLoop fuel depth acc (view d s)))

section
variable {d : Bytes} {e0 : Err} {src : Source} (h : FaultyOver d e0 src) {sf : Nat} (hsf : d.length + 2 ≤ sf)

theorem refF_zero : RefAtF d e0 src sf 0 := by
  refine ⟨?_, ?_, ?_, ?_, ?_⟩
  · intro lat depth s gs; unfold readObjectBuf readObject; exact relF_err s _ gs trivial
  · intro lat depth s gs; unfold readArrayBuf readArray; exact relF_err s _ gs trivial
  · intro lat depth acc ints s gs _; unfold readArrayLoopBuf readArrayLoop; exact relF_err s _ gs trivial
  · intro lat depth s gs; unfold readDictBuf readDict; exact relF_err s _ gs trivial
  · intro lat depth acc s gs; unfold readDictLoopBuf readDictLoop; exact relF_err s _ gs trivial

include h in
theorem refF_array (fuel : Nat) (ih : RefAtF d e0 src sf fuel) :
    ∀ lat depth s, GoodF d e0 lat s →
      RelF d e0 lat T (readArrayBuf src sf (fuel + 1) depth s) (readArray (fuel + 1) depth (view d s)) := by
  intro lat depth s gs
  unfold readArrayBuf readArray
  split
  · exact relF_err s _ gs trivial
  · exact relF_mapErrB h.e0_ne (ih.2.2.1 lat (depth + 1) [] 0 s gs (Nat.zero_le _))

include h hsf in
theorem refF_arrLoop (fuel : Nat) (ih : RefAtF d e0 src sf fuel) :
    ∀ lat depth acc ints s, GoodF d e0 lat s → IntsOk acc ints →
      RelF d e0 lat T (readArrayLoopBuf src sf (fuel + 1) depth acc ints s)
        (readArrayLoop (fuel + 1) depth acc ints (view d s)) := by
  obtain ⟨ihO, ihA, ihAL, ihD, ihDL⟩ := ih
  intro lat depth acc ints s gs hints
  unfold readArrayLoopBuf readArrayLoop
  rcases ws_casesF h hsf s gs with ⟨he, hm, gw⟩ | ⟨he, gw, c, rest, hm, hv⟩ | ⟨he, gl⟩
  · generalize skipWhiteSpace src sf s = q at he gw
    obtain ⟨s1, e1⟩ := q
    simp only [] at he gw
    subst he
    generalize skipWS (view d s) = m at hm
    obtain ⟨r, b⟩ := m
    simp only [] at hm
    subst hm
    exact relF_err s1 _ gw trivial
  · generalize skipWhiteSpace src sf s = q at he gw hv
    obtain ⟨s1, e1⟩ := q
    simp only [] at he gw hv
    subst he
    rw [hm]
    simp only []
    obtain ⟨s2, buf, err, hpk, g2, v2, _, hadv, hout⟩ := peekAdvF h 1 (by decide) s1 gw
    rw [hpk]
    rcases hout with ⟨rfl, rfl⟩ | ⟨rfl, gl, _, _⟩
    rotate_left
    · exact relF_flt s2 _ gl
    rw [hv] at hadv ⊢
    simp only [List.take_succ_cons, List.take_zero] at hadv ⊢
    have hadv1 := hadv 1 (by simp)
    simp only [List.drop_succ_cons, List.drop_zero] at hadv1
    by_cases h93 : (c == 93) = true
    · simp only [h93, if_true]
      split
      · exact relF_err s2 _ g2 trivial
      · exact relF_ok _ _ _ hadv1.1 hadv1.2
    simp only [h93, Bool.false_eq_true, if_false]
    by_cases hR : (decide (ints ≥ 2) && c == 82) = true
    · simp only [hR, if_true]
      have h2 : 2 ≤ ints := by simp at hR; exact hR.1
      obtain ⟨b, a, acc', rfl⟩ := C01L.leadInts_two (Nat.le_trans h2 hints)
      simp only []
      rw [← hadv1.2]
      exact ihAL lat depth _ 0 (adv 1 s2) hadv1.1 (Nat.zero_le _)
    simp only [hR, Bool.false_eq_true, if_false]
    have RO := ihO lat depth s2 g2
    rw [v2, hv] at RO
    generalize readObjectBuf src sf fuel depth s2 = q at RO
    obtain ⟨s3, ro⟩ := q
    have hnext : ∀ o : Obj, IntsOk (o :: acc) (match o with | .int _ => ints + 1 | _ => 0) := by
      intro o
      have := C01L.nextIntsM_le o ints acc hints
      cases o <;> simpa [C01L.nextIntsM] using this
    rcases relF_cases RO with ⟨o, r, rfl, hm2, g3, v3⟩ | ⟨e, rfl, hm2, g3, _⟩ | ⟨rfl, gl⟩
    · rw [hm2]
      simp only []
      split
      · exact relF_err s3 _ g3 trivial
      · rw [← v3]
        exact ihAL lat depth (o :: acc) _ s3 g3 (hnext o)
    · rw [hm2]
      simp only []
      exact relF_err s3 _ g3 trivial
    · simp only []
      exact relF_flt s3 _ gl
  · generalize skipWhiteSpace src sf s = q at he gl
    obtain ⟨s1, e1⟩ := q
    simp only [] at he gl
    subst he
    simp only []
    exact relF_flt s1 _ gl

end

/-! ## one round of `ReadDict`'s loop, cut at the key and at the value -/

/-- the model's side of `dictContBuf` -/
def dictContM (mloop : List (Bytes × Obj) → Bytes → Except Err (List (Bytes × Obj) × Bytes))
    (acc : List (Bytes × Obj)) (key : Bytes) (val : Obj) (r : Bytes) : Except Err (List (Bytes × Obj) × Bytes) :=
  if !(acc.any fun e => e.1 == key) && acc.length ≥ Gen.scanner_maxDictLen then .error .malformed
  else mloop (dictInsert key val acc) r

/-- the model's side of `dictAfterValBuf` -/
def dictAfterValM (mloop : List (Bytes × Obj) → Bytes → Except Err (List (Bytes × Obj) × Bytes))
    (acc : List (Bytes × Obj)) (key : Bytes) (val : Obj) (r : Bytes) : Except Err (List (Bytes × Obj) × Bytes) :=
  match skipWS r with
  | (_, true) => .error .eof
  | (r, false) =>
    match val, r with
    | .int a, c :: _ =>
      if c != 47 && c != 62 then
        match readInteger r with
        | .error e => .error e
        | .ok (b, r) =>
          match skipWS r with
          | (_, true) => .error .eof
          | (82 :: r, false) =>
            (match skipWS r with
             | (_, true) => .error .eof
             | (r, false) => dictContM mloop acc key (if validRef a b then .ref a.toNat b.toNat else .null) r)
          | _ => .error .malformed
      else dictContM mloop acc key val r
    | _, _ => dictContM mloop acc key val r

/-- the model's side of `dictAfterKeyBuf` -/
def dictAfterKeyM (mobj : Bytes → Except Err (Obj × Bytes))
    (mloop : List (Bytes × Obj) → Bytes → Except Err (List (Bytes × Obj) × Bytes))
    (acc : List (Bytes × Obj)) (key : Bytes) (r : Bytes) : Except Err (List (Bytes × Obj) × Bytes) :=
  match skipWS r with
  | (_, true) => .error .eof
  | (r, false) =>
    match mobj r with
    | .error e => .error e
    | .ok (val, r) => dictAfterValM mloop acc key val r

theorem readDictLoop_eq (fuel depth : Nat) (acc : List (Bytes × Obj)) (inp : Bytes) :
    readDictLoop (fuel + 1) depth acc inp =
      match readName inp with
      | .error _ =>
        (match inp with
         | 62 :: 62 :: rest => .ok (acc, rest)
         | _ => .error .malformed)
      | .ok (key, r) => dictAfterKeyM (readObject fuel depth) (readDictLoop fuel depth) acc key r := by
  conv => lhs; unfold readDictLoop
  rfl

section
variable {d : Bytes} {e0 : Err} {src : Source} (h : FaultyOver d e0 src) {sf : Nat} (hsf : d.length + 2 ≤ sf)
variable {loop : List (Bytes × Obj) → SB → SB × Except Err (List (Bytes × Obj))}
variable {mloop : List (Bytes × Obj) → Bytes → Except Err (List (Bytes × Obj) × Bytes)}
variable (hloop : ∀ lat acc s, GoodF d e0 lat s → RelF d e0 lat T (loop acc s) (mloop acc (view d s)))
include hloop

theorem dictContF (acc : List (Bytes × Obj)) (key : Bytes) (lat : Bool) (val : Obj) (s : SB) (gs : GoodF d e0 lat s) :
    RelF d e0 lat T (dictContBuf loop acc key val s) (dictContM mloop acc key val (view d s)) := by
  unfold dictContBuf dictContM
  split
  · exact relF_err s _ gs trivial
  · exact hloop lat _ s gs

include h hsf

theorem dictAfterValF (acc : List (Bytes × Obj)) (key : Bytes) (lat : Bool) (val : Obj) (s3 : SB) (g3 : GoodF d e0 lat s3) :
    RelF d e0 lat T (dictAfterValBuf src sf loop acc key val s3) (dictAfterValM mloop acc key val (view d s3)) := by
  unfold dictAfterValBuf dictAfterValM
  rcases ws_casesF h hsf s3 g3 with ⟨he, hmw4, gw⟩ | ⟨he, g4, c4, rest4, hmw4, hv4⟩ | ⟨he, gl⟩
  · generalize skipWhiteSpace src sf s3 = q at he gw
    obtain ⟨s4, e4⟩ := q
    simp only [] at he gw
    subst he
    generalize skipWS (view d s3) = m at hmw4
    obtain ⟨r', b⟩ := m
    simp only [] at hmw4
    subst hmw4
    exact relF_err s4 _ gw trivial
  rotate_left
  · generalize skipWhiteSpace src sf s3 = q at he gl
    obtain ⟨s4, e4⟩ := q
    simp only [] at he gl
    subst he
    simp only []
    exact relF_flt s4 _ gl
  generalize skipWhiteSpace src sf s3 = q at he g4 hv4
  obtain ⟨s4, e4⟩ := q
  simp only [] at he g4 hv4
  subst he
  rw [hmw4]
  simp only []
  cases val with
  | int a =>
    simp only []
    obtain ⟨s5, buf5, err5, hp5, g5, v5, _, hadv5, hout5⟩ := peekAdvF h 1 (by decide) s4 g4
    rw [hp5]
    rcases hout5 with ⟨rfl, rfl⟩ | ⟨rfl, gl, _, _⟩
    rotate_left
    · exact relF_flt s5 _ gl
    rw [hv4]
    simp only [List.take_succ_cons, List.take_zero]
    by_cases hc : (c4 != 47 && c4 != 62) = true
    · simp only [hc, if_true]
      have hws5 : (skipWS (view d s5)).2 = false := by
        rw [v5, hv4, (skipWS_idem (view d s3)).1 c4 rest4 hmw4]
      have RI := readInteger_fault h hsf s5 g5 hws5
      rw [v5, hv4] at RI
      generalize readIntegerBuf src sf s5 = q at RI
      obtain ⟨s6, ri⟩ := q
      rcases relF_cases RI with ⟨b, r6, rfl, hmi, g6, v6⟩ | ⟨e, rfl, hmi, g6, _⟩ | ⟨rfl, gl⟩
      rotate_left
      · rw [hmi]; simp only []; exact relF_err s6 _ g6 trivial
      · simp only []; exact relF_flt s6 _ gl
      rw [hmi]
      simp only []
      rcases ws_casesF h hsf s6 g6 with ⟨he, hmw7, gw⟩ | ⟨he, g7, c7, rest7, hmw7, hv7⟩ | ⟨he, gl⟩
      · generalize skipWhiteSpace src sf s6 = q at he gw
        obtain ⟨s7, e7⟩ := q
        simp only [] at he gw
        subst he
        rw [v6] at hmw7
        generalize skipWS r6 = m at hmw7
        obtain ⟨r', b'⟩ := m
        simp only [] at hmw7
        subst hmw7
        exact relF_err s7 _ gw trivial
      rotate_left
      · generalize skipWhiteSpace src sf s6 = q at he gl
        obtain ⟨s7, e7⟩ := q
        simp only [] at he gl
        subst he
        simp only []
        exact relF_flt s7 _ gl
      generalize skipWhiteSpace src sf s6 = q at he g7 hv7
      obtain ⟨s7, e7⟩ := q
      simp only [] at he g7 hv7
      subst he
      rw [v6] at hmw7
      rw [hmw7]
      simp only []
      obtain ⟨s8, buf8, err8, hp8, g8, v8, _, hadv8, hout8⟩ := peekAdvF h 1 (by decide) s7 g7
      rw [hp8]
      rcases hout8 with ⟨rfl, rfl⟩ | ⟨rfl, gl, _, _⟩
      rotate_left
      · exact relF_flt s8 _ gl
      rw [hv7] at hadv8 ⊢
      simp only [List.take_succ_cons, List.take_zero] at hadv8 ⊢
      by_cases h82 : c7 = 82
      · subst h82
        simp only [bne_self_eq_false, Bool.false_eq_true, if_false]
        have hadv1 := hadv8 1 (by simp)
        simp only [List.drop_succ_cons, List.drop_zero] at hadv1
        rcases ws_casesF h hsf (adv 1 s8) hadv1.1 with ⟨he, hmw9, gw⟩ | ⟨he, g9, c9, rest9, hmw9, hv9⟩ | ⟨he, gl⟩
        · generalize skipWhiteSpace src sf (adv 1 s8) = q at he gw
          obtain ⟨s9, e9⟩ := q
          simp only [] at he gw
          subst he
          rw [hadv1.2] at hmw9
          generalize skipWS rest7 = m at hmw9
          obtain ⟨r', b'⟩ := m
          simp only [] at hmw9
          subst hmw9
          exact relF_err s9 _ gw trivial
        rotate_left
        · generalize skipWhiteSpace src sf (adv 1 s8) = q at he gl
          obtain ⟨s9, e9⟩ := q
          simp only [] at he gl
          subst he
          simp only []
          exact relF_flt s9 _ gl
        generalize skipWhiteSpace src sf (adv 1 s8) = q at he g9 hv9
        obtain ⟨s9, e9⟩ := q
        simp only [] at he g9 hv9
        subst he
        rw [hadv1.2] at hmw9
        rw [hmw9]
        simp only []
        rw [← hv9]
        exact dictContF hloop acc key lat _ s9 g9
      · have hne : (c7 != 82) = true := by simpa using h82
        simp only [hne, if_true]
        split
        · rename_i heq; cases heq
        · rename_i heq; simp only [Prod.mk.injEq, List.cons.injEq] at heq; exact absurd heq.1.1 h82
        · exact relF_err s8 _ g8 trivial
    · simp only [hc, Bool.false_eq_true, if_false]
      have := dictContF hloop acc key lat (.int a) s5 g5
      rw [v5, hv4] at this
      exact this
  | null => simp only []; rw [← hv4]; exact dictContF hloop acc key lat _ s4 g4
  | nilArr => simp only []; rw [← hv4]; exact dictContF hloop acc key lat _ s4 g4
  | bool b => simp only []; rw [← hv4]; exact dictContF hloop acc key lat _ s4 g4
  | real t => simp only []; rw [← hv4]; exact dictContF hloop acc key lat _ s4 g4
  | name n => simp only []; rw [← hv4]; exact dictContF hloop acc key lat _ s4 g4
  | str st => simp only []; rw [← hv4]; exact dictContF hloop acc key lat _ s4 g4
  | op o => simp only []; rw [← hv4]; exact dictContF hloop acc key lat _ s4 g4
  | ref n gn => simp only []; rw [← hv4]; exact dictContF hloop acc key lat _ s4 g4
  | arr xs => simp only []; rw [← hv4]; exact dictContF hloop acc key lat _ s4 g4
  | dict kv => simp only []; rw [← hv4]; exact dictContF hloop acc key lat _ s4 g4

variable {obj : SB → SB × Except Err Obj} {mobj : Bytes → Except Err (Obj × Bytes)}
variable (hobj : ∀ lat s, GoodF d e0 lat s → RelF d e0 lat T (obj s) (mobj (view d s)))
include hobj

theorem dictAfterKeyF (acc : List (Bytes × Obj)) (key : Bytes) (lat : Bool) (s1 : SB) (g1 : GoodF d e0 lat s1) :
    RelF d e0 lat T (dictAfterKeyBuf src sf obj loop acc key s1) (dictAfterKeyM mobj mloop acc key (view d s1)) := by
  unfold dictAfterKeyBuf dictAfterKeyM
  rcases ws_casesF h hsf s1 g1 with ⟨he, hmw, gw⟩ | ⟨he, gw, c2, rest2, hmw, hv2⟩ | ⟨he, gl⟩
  · generalize skipWhiteSpace src sf s1 = q at he gw
    obtain ⟨s2, e2⟩ := q
    simp only [] at he gw
    subst he
    generalize skipWS (view d s1) = m at hmw
    obtain ⟨r', b⟩ := m
    simp only [] at hmw
    subst hmw
    exact relF_err s2 _ gw trivial
  rotate_left
  · generalize skipWhiteSpace src sf s1 = q at he gl
    obtain ⟨s2, e2⟩ := q
    simp only [] at he gl
    subst he
    simp only []
    exact relF_flt s2 _ gl
  generalize skipWhiteSpace src sf s1 = q at he gw hv2
  obtain ⟨s2, e2⟩ := q
  simp only [] at he gw hv2
  subst he
  rw [hmw]
  simp only []
  have RO := hobj lat s2 gw
  rw [hv2] at RO
  generalize obj s2 = q at RO
  obtain ⟨s3, ro⟩ := q
  rcases relF_cases RO with ⟨val, r3, rfl, hmo, g3, v3⟩ | ⟨e, rfl, hmo, g3, _⟩ | ⟨rfl, gl⟩
  · rw [hmo]
    simp only []
    rw [← v3]
    exact dictAfterValF h hsf hloop acc key lat val s3 g3
  · rw [hmo]
    simp only []
    exact relF_err s3 _ g3 trivial
  · simp only []
    exact relF_flt s3 _ gl

end

/-! ## `ReadObject` behind a dictionary: the keyword `stream` -/

/-- `ReadObject` from behind `ReadDict` -/
def objAfterDictBuf (src : Source) (sf : Nat) (dd : List (Bytes × Obj)) (s2 : SB) : SB × Except Err Obj :=
  let (s3, e3) := skipWhiteSpace src sf s2
  match hardErr e3 with
  | some e => (s3, .error e)
  | none =>
    let (s4, buf6, e6) := peekN src 6 s3
    match e6 with
    | some e => (s4, .error e)
    | none =>
      if startsWith buf6 kw_stream then readStreamHeadBuf src s4
      else (s4, .ok (.dict dd))

/-- the model's side -/
def objAfterDictM (dd : List (Bytes × Obj)) (r : Bytes) : Except Err (Obj × Bytes) :=
  let (r', _) := skipWS r
  if startsWith r' kw_stream then .error .malformed else .ok (.dict dd, r')

section
variable {d : Bytes} {e0 : Err} {src : Source} (h : FaultyOver d e0 src) {sf : Nat} (hsf : d.length + 2 ≤ sf)
include h

/-- the head of `ReadStreamData` on a failing reader -/
theorem readStreamHeadF {lat : Bool} (s : SB) (gs : GoodF d e0 lat s) :
    RelF d e0 lat T (readStreamHeadBuf src s) (.error .malformed) := by
  have K := skipstrF h kw_stream (by decide) s gs
  unfold readStreamHeadBuf
  generalize skipString src kw_stream s = q at K
  obtain ⟨s1, e1⟩ := q
  simp only [] at K ⊢
  rcases K with ⟨k1, _, k3, _⟩ | ⟨k1, _, k3, _⟩ | ⟨k1, k2⟩
  · subst k1
    simp only []
    obtain ⟨s2, buf, err, hp, g2, _, _, _, hout⟩ := peekF h 2 (by decide) s1 k3
    rw [hp]
    rcases hout with ⟨rfl, _⟩ | ⟨rfl, gl, _, _⟩
    · exact relF_err s2 _ g2 trivial
    · simp only [inComposite_ne e0 h.e0_ne]
      exact relF_flt s2 _ gl
  · subst k1
    simp only [Err.inComposite]
    exact relF_err s1 _ k3 trivial
  · subst k1
    simp only [inComposite_ne e0 h.e0_ne]
    exact relF_flt s1 _ k2

include hsf

/-- `ReadObject` behind a dictionary on a failing reader (after fix D35 = ROB-6: the error of the
    `PeekN(6)` that looks for `stream` is returned): the fault-free outcome or the reader's error -/
theorem objAfterDictF (dd : List (Bytes × Obj)) (lat : Bool) (s2 : SB) (g2 : GoodF d e0 lat s2) :
    RelF d e0 lat T (objAfterDictBuf src sf dd s2) (objAfterDictM dd (view d s2)) := by
  obtain ⟨gw, wout⟩ := wsF h hsf s2 g2
  unfold objAfterDictBuf objAfterDictM
  generalize skipWhiteSpace src sf s2 = q at gw wout
  obtain ⟨s3, e3⟩ := q
  simp only [] at gw wout ⊢
  rcases wout with ⟨w2, w1⟩ | ⟨a, gl⟩
  rotate_left
  · subst a
    simp only [hardErr_ne e0 h.e0_ne]
    exact relF_flt s3 _ gl
  rw [hardErr_eofOrNone e3 w2, w1]
  simp only []
  obtain ⟨s4, buf6, err6, hp6, g4, v4, _, hwin, hout⟩ := peekF h 6 (by decide) s3 gw
  rw [hp6]
  simp only []
  rcases hout with ⟨rfl, rfl⟩ | ⟨rfl, gl, _, _⟩
  · have : startsWith ((view d s3).take 6) kw_stream = startsWith (view d s3) kw_stream := by
      have := isPrefixOf_take kw_stream (view d s3) 6 (by decide)
      simpa [startsWith] using this
    simp only []
    rw [this]
    split
    · exact readStreamHeadF h s4 g4
    · exact relF_ok s4 _ _ g4 v4
  · simp only []
    exact relF_flt s4 _ gl

end

/-! ## the remaining steps of the induction -/

section
variable {d : Bytes} {e0 : Err} {src : Source} (h : FaultyOver d e0 src) {sf : Nat} (hsf : d.length + 2 ≤ sf)
include h hsf

theorem refF_dictLoop (hm0 : e0 ≠ .malformed) (fuel : Nat) (ih : RefAtF d e0 src sf fuel) :
    ∀ lat depth acc s, GoodF d e0 lat s →
      RelF d e0 lat T (readDictLoopBuf src sf (fuel + 1) depth acc s) (readDictLoop (fuel + 1) depth acc (view d s)) := by
  obtain ⟨ihO, ihA, ihAL, ihD, ihDL⟩ := ih
  intro lat depth acc s gs
  have hloop : ∀ lat acc s, GoodF d e0 lat s →
      RelF d e0 lat T (readDictLoopBuf src sf fuel depth acc s) (readDictLoop fuel depth acc (view d s)) :=
    fun lat acc s gs => ihDL lat depth acc s gs
  have hobj : ∀ lat s, GoodF d e0 lat s →
      RelF d e0 lat T (readObjectBuf src sf fuel depth s) (readObject fuel depth (view d s)) :=
    fun lat s gs => ihO lat depth s gs
  rw [readDictLoopBuf_eq, readDictLoop_eq]
  have RN := readName_fault h hsf s gs
  generalize readNameBuf src sf s = q at RN
  obtain ⟨s1, rn⟩ := q
  rcases relF_cases RN with ⟨key, r, rfl, hm, g1, v1⟩ | ⟨e, rfl, hm, g1, hview⟩ | ⟨rfl, gl⟩
  · rw [hm]
    simp only []
    rw [← v1]
    exact dictAfterKeyF h hsf hloop hobj acc key lat s1 g1
  · rw [hm]
    have he := C01L.readName_err _ _ hm
    subst he
    simp only [beq_self_eq_true, if_true]
    have K := skipstrF h [62, 62] (by decide) s1 g1
    generalize skipString src [62, 62] s1 = q at K
    obtain ⟨s2, e2⟩ := q
    simp only [] at K ⊢
    rcases K with ⟨k1, hpre, g2, v2⟩ | ⟨k1, hpre, g2, _⟩ | ⟨k1, k2⟩
    · subst k1
      simp only [List.length_cons, List.length_nil, Nat.zero_add] at v2 hpre
      rcases hview with hsame | ⟨⟨r, hr⟩, c, t, hc, hne⟩
      · rw [hsame] at hpre v2
        match hvv : view d s, hpre, v2 with
        | a :: b :: rest, hpre, v2 =>
          simp only [List.take_succ_cons, List.take_zero, List.cons.injEq, and_true] at hpre
          obtain ⟨rfl, rfl⟩ := hpre
          simp only [List.drop_succ_cons, List.drop_zero] at v2
          exact relF_ok s2 _ _ g2 v2
        | [_], hpre, _ => simp at hpre
        | [], hpre, _ => simp at hpre
      · rw [hc] at hpre
        simp only [List.take_succ_cons, List.cons.injEq] at hpre
        exact absurd hpre.1 hne
    · subst k1
      simp only [List.length_cons, List.length_nil, Nat.zero_add] at hpre
      simp only []
      split
      · rename_i rest heq
        rcases hview with hsame | ⟨⟨r, hr⟩, _⟩
        · rw [hsame, heq] at hpre; exact absurd rfl hpre
        · rw [heq] at hr; cases hr
      · exact relF_err s2 _ g2 trivial
    · subst k1
      simp only []
      exact relF_flt s2 _ k2
  · have hne : (e0 == Err.malformed) = false := by
      cases e0 <;> first | rfl | exact (hm0 rfl).elim
    simp only [hne, Bool.false_eq_true, if_false]
    exact relF_flt s1 _ gl
theorem refF_dict (fuel : Nat) (ih : RefAtF d e0 src sf fuel) :
    ∀ lat depth s, GoodF d e0 lat s →
      RelF d e0 lat T (readDictBuf src sf (fuel + 1) depth s) (readDict (fuel + 1) depth (view d s)) := by
  obtain ⟨ihO, ihA, ihAL, ihD, ihDL⟩ := ih
  intro lat depth s gs
  unfold readDictBuf readDict
  split
  · exact relF_err s _ gs trivial
  · have K := skipstrF h [60, 60] (by decide) s gs
    generalize skipString src [60, 60] s = q at K
    obtain ⟨s1, e1⟩ := q
    simp only [] at K ⊢
    rcases K with ⟨k1, hpre, g1, v1⟩ | ⟨k1, hpre, g1, _⟩ | ⟨k1, k2⟩
    · subst k1
      simp only [List.length_cons, List.length_nil, Nat.zero_add] at v1 hpre
      obtain ⟨rest, hv⟩ : ∃ rest, view d s = 60 :: 60 :: rest := by
        match hvv : view d s, hpre with
        | a :: b :: rest, hpre =>
          simp only [List.take_succ_cons, List.take_zero, List.cons.injEq, and_true] at hpre
          obtain ⟨rfl, rfl⟩ := hpre
          exact ⟨rest, rfl⟩
        | [_], hpre => simp at hpre
        | [], hpre => simp at hpre
      rw [hv] at v1 ⊢
      simp only [List.drop_succ_cons, List.drop_zero] at v1 ⊢
      rcases ws_casesF h hsf s1 g1 with ⟨he, hm, gw⟩ | ⟨he, gw, c, rest', hm, hvw⟩ | ⟨he, gl⟩
      · generalize skipWhiteSpace src sf s1 = q at he gw
        obtain ⟨s2, e2⟩ := q
        simp only [] at he gw
        subst he
        rw [v1] at hm
        generalize skipWS rest = m at hm
        obtain ⟨r, b⟩ := m
        simp only [] at hm
        subst hm
        simp only [Err.inComposite]
        exact relF_err s2 _ gw trivial
      · generalize skipWhiteSpace src sf s1 = q at he gw hvw
        obtain ⟨s2, e2⟩ := q
        simp only [] at he gw hvw
        subst he
        rw [v1] at hm
        rw [hm]
        simp only []
        rw [← hvw]
        exact relF_mapErrB h.e0_ne (ihDL lat (depth + 1) [] s2 gw)
      · generalize skipWhiteSpace src sf s1 = q at he gl
        obtain ⟨s2, e2⟩ := q
        simp only [] at he gl
        subst he
        simp only [inComposite_ne e0 h.e0_ne]
        exact relF_flt s2 _ gl
    · subst k1
      simp only [List.length_cons, List.length_nil, Nat.zero_add] at hpre
      simp only [Err.inComposite]
      split
      · rename_i rest heq
        rw [heq] at hpre
        exact absurd rfl hpre
      · exact relF_err s1 _ g1 trivial
    · subst k1
      simp only [inComposite_ne e0 h.e0_ne]
      exact relF_flt s1 _ k2

end

section
variable {d : Bytes} {e0 : Err} {src : Source} (h : FaultyOver d e0 src) {sf : Nat} (hsf : d.length + 2 ≤ sf)
include h hsf

theorem refF_object (fuel : Nat) (ih : RefAtF d e0 src sf fuel) :
    ∀ lat depth s, GoodF d e0 lat s →
      RelF d e0 lat T (readObjectBuf src sf (fuel + 1) depth s) (readObject (fuel + 1) depth (view d s)) := by
  obtain ⟨ihO, ihA, ihAL, ihD, ihDL⟩ := ih
  intro lat depth s gs
  obtain ⟨s1, buf, err, hp, g1, v1, _, hadv, hout⟩ := peekAdvF h 5 (by decide) s gs
  unfold readObjectBuf readObject
  rw [hp]
  rcases hout with ⟨rfl, rfl⟩ | ⟨rfl, gl, _, _⟩
  rotate_left
  · simp only []
    exact relF_flt s1 _ gl
  simp only []
  cases hv : view d s with
  | nil => simp only [List.take_nil]; exact relF_err s1 _ g1 trivial
  | cons c rest =>
    have hv1 : view d s1 = c :: rest := by rw [v1, hv]
    rw [hv] at hadv
    simp only [List.take_succ_cons] at hadv ⊢
    have kw : ∀ pat : Bytes, pat.length ≤ 5 → startsWith (c :: rest.take 4) pat = startsWith (c :: rest) pat := by
      intro pat hl
      have := isPrefixOf_take pat (c :: rest) 5 hl
      simpa [startsWith] using this
    have kwadv : ∀ pat : Bytes, pat.length ≤ 5 → startsWith (c :: rest) pat = true →
        GoodF d e0 lat (adv pat.length s1) ∧ view d (adv pat.length s1) = (c :: rest).drop pat.length := by
      intro pat hl hs
      have h1 := C05robobj.isPrefixOf_len pat (c :: rest) hs
      exact hadv pat.length (by simp at h1 ⊢; omega)
    simp only [kw kw_null (by decide), kw kw_true (by decide), kw kw_false (by decide), lt_lt]
    by_cases h1 : startsWith (c :: rest) kw_null = true
    · simp only [h1, if_true]
      have := kwadv kw_null (by decide) h1
      exact relF_ok _ _ _ this.1 this.2
    simp only [h1, Bool.false_eq_true, if_false]
    by_cases h2 : startsWith (c :: rest) kw_true = true
    · simp only [h2, if_true]
      have := kwadv kw_true (by decide) h2
      exact relF_ok _ _ _ this.1 this.2
    simp only [h2, Bool.false_eq_true, if_false]
    by_cases h3 : startsWith (c :: rest) kw_false = true
    · simp only [h3, if_true]
      have := kwadv kw_false (by decide) h3
      exact relF_ok _ _ _ this.1 this.2
    simp only [h3, Bool.false_eq_true, if_false]
    have hadv1 := hadv 1 (by simp)
    simp only [List.drop_succ_cons, List.drop_zero] at hadv1
    by_cases h4 : (c == 47) = true
    · simp only [h4, if_true]
      have R := readName_fault h hsf s1 g1
      rw [hv1] at R
      generalize readNameBuf src sf s1 = q at R
      obtain ⟨s2, res⟩ := q
      rcases relF_cases R with ⟨v, r, rfl, hm, g2, v2⟩ | ⟨e, rfl, hm, g2, _⟩ | ⟨rfl, gl⟩
      · rw [hm]; simp only [Except.map]; exact relF_ok s2 _ _ g2 v2
      · rw [hm]; simp only [Except.map]; exact relF_err s2 _ g2 trivial
      · simp only []; exact relF_flt s2 _ gl
    simp only [h4, Bool.false_eq_true, if_false]
    by_cases h5 : (isDigit c || c == 43 || c == 45 || c == 46) = true
    · simp only [h5, if_true]
      have R := readNumber_fault h hsf s1 g1
      rw [hv1] at R
      exact R
    simp only [h5, Bool.false_eq_true, if_false]
    by_cases h6 : (c == 60 && rest.head? == some 60) = true
    · simp only [h6, if_true]
      have RD := ihD lat depth s1 g1
      rw [hv1] at RD
      generalize readDictBuf src sf fuel depth s1 = q at RD
      obtain ⟨s2, rd⟩ := q
      rcases relF_cases RD with ⟨dd, r, rfl, hm, g2, v2⟩ | ⟨e, rfl, hm, g2, _⟩ | ⟨rfl, gl⟩
      · rw [hm]
        simp only []
        have := objAfterDictF h hsf dd lat s2 g2
        rw [v2] at this
        exact this
      · rw [hm]; simp only []; exact relF_err s2 _ g2 trivial
      · simp only []; exact relF_flt s2 _ gl
    simp only [h6, Bool.false_eq_true, if_false]
    by_cases h7 : (c == 40) = true
    · simp only [h7, if_true]
      have R := readString_fault h hsf (adv 1 s1) hadv1.1
      rw [hadv1.2] at R
      generalize readStringBuf src sf (adv 1 s1) = q at R
      obtain ⟨s2, res⟩ := q
      rcases relF_cases R with ⟨v, r, rfl, hm, g2, v2⟩ | ⟨e, rfl, hm, g2, _⟩ | ⟨rfl, gl⟩
      · rw [hm]; simp only [Except.map]; exact relF_ok s2 _ _ g2 v2
      · rw [hm]; simp only [Except.map]; exact relF_err s2 _ g2 trivial
      · simp only []; exact relF_flt s2 _ gl
    simp only [h7, Bool.false_eq_true, if_false]
    by_cases h8 : (c == 60) = true
    · simp only [h8, if_true]
      have R := readHexString_fault h hsf (adv 1 s1) hadv1.1
      rw [hadv1.2] at R
      generalize readHexStringBuf src sf (adv 1 s1) = q at R
      obtain ⟨s2, res⟩ := q
      rcases relF_cases R with ⟨v, r, rfl, hm, g2, v2⟩ | ⟨e, rfl, hm, g2, _⟩ | ⟨rfl, gl⟩
      · rw [hm]; simp only [Except.map]; exact relF_ok s2 _ _ g2 v2
      · rw [hm]; simp only [Except.map]; exact relF_err s2 _ g2 trivial
      · simp only []; exact relF_flt s2 _ gl
    simp only [h8, Bool.false_eq_true, if_false]
    by_cases h9 : (c == 91) = true
    · simp only [h9, if_true]
      have R := ihA lat depth (adv 1 s1) hadv1.1
      rw [hadv1.2] at R
      generalize readArrayBuf src sf fuel depth (adv 1 s1) = q at R
      obtain ⟨s2, res⟩ := q
      rcases relF_cases R with ⟨v, r, rfl, hm, g2, v2⟩ | ⟨e, rfl, hm, g2, _⟩ | ⟨rfl, gl⟩
      · rw [hm]; simp only [Except.map]; exact relF_ok s2 _ _ g2 v2
      · rw [hm]; simp only [Except.map]; exact relF_err s2 _ g2 trivial
      · simp only []; exact relF_flt s2 _ gl
    simp only [h9, Bool.false_eq_true, if_false]
    exact relF_err s1 _ g1 trivial

theorem refF_all (hm0 : e0 ≠ .malformed) (fuel : Nat) : RefAtF d e0 src sf fuel := by
  induction fuel with
  | zero => exact refF_zero
  | succ fuel ih =>
    exact ⟨refF_object h hsf fuel ih, refF_array h fuel ih, refF_arrLoop h hsf fuel ih,
      refF_dict h hsf fuel ih, refF_dictLoop h hsf hm0 fuel ih⟩

end

/-! ## The theorems -/

/-- **`readObject_fault`** (`scanner_fault` lifted to the whole object parser).  A reader that
    serves the bytes `d` and may fail with a non-EOF, non-malformed error `e0` at any call, any
    number of times, with or without bytes delivered together with the error; any scanner state
    reachable on it (`GoodF`; `lat` says whether the reader has already failed), any nesting depth,
    any fuel.  Then `ReadObject` over the 1024-byte window ends in one of two ways:

    * `RelA`: the outcome of the whole-input model `readObject` on the bytes not yet consumed — the
      same value, and the scanner stands at the model's remaining input; or the same error;
    * `FltB`: it returns the reader's error `e0` (and `scanner.err = e0`).

    In both cases the state is coherent: no modelled Go panic, no exhausted loop fuel.
    (Before the fixes of findings ROB-6 and ROB-7 — the dropped errors of `PeekN(6)` behind a
    dictionary and of `PeekN(3)` in `tryHex` — the proof needed a third outcome.) -/
theorem readObject_fault {d : Bytes} {e0 : Err} {src : Source} (h : FaultyOver d e0 src) (hm0 : e0 ≠ .malformed)
    {sf : Nat} (hsf : d.length + 2 ≤ sf) (fuel depth : Nat) (lat : Bool) (s : SB) (gs : GoodF d e0 lat s) :
    RelA d e0 lat T (readObjectBuf src sf fuel depth s) (readObject fuel depth (view d s)) ∨
    FltB d e0 (readObjectBuf src sf fuel depth s) :=
  (refF_all h hsf hm0 fuel).1 lat depth s gs

/-- whenever `ReadObject` returns a value, it is the fault-free value at the fault-free position -/
theorem readObject_fault_value {d : Bytes} {e0 : Err} {src : Source} (h : FaultyOver d e0 src) (hm0 : e0 ≠ .malformed)
    {sf : Nat} (hsf : d.length + 2 ≤ sf) (fuel depth : Nat) (lat : Bool) (s : SB) (gs : GoodF d e0 lat s) (v : Obj)
    (hv : (readObjectBuf src sf fuel depth s).2 = .ok v) :
    ∃ rest, readObject fuel depth (view d s) = .ok (v, rest) ∧
      view d (readObjectBuf src sf fuel depth s).1 = rest ∧ GoodF d e0 lat (readObjectBuf src sf fuel depth s).1 := by
  rcases readObject_fault h hm0 hsf fuel depth lat s gs with a | b
  · unfold RelA at a
    generalize readObject fuel depth (view d s) = m at a
    cases m with
    | error e => simp only [] at a; rw [a.1] at hv; cases hv
    | ok p =>
      obtain ⟨v', rest⟩ := p
      simp only [] at a
      rw [a.1] at hv
      cases hv
      exact ⟨rest, rfl, a.2.2, a.2.1⟩
  · rw [b.1] at hv; cases hv

/-- the same for a fresh scanner, spelled out: `ReadObject` returns what `parseObject d` says
    (value and `CurrentPos`, or error), or the reader's error; never a panic, never a hang -/
theorem readObject_fault_fresh {d : Bytes} {e0 : Err} {src : Source} (h : FaultyOver d e0 src) (hm0 : e0 ≠ .malformed)
    {sf : Nat} (hsf : d.length + 2 ≤ sf) :
    ((readObjectBuf src sf (scanFuel d) 0 (SB.init 0)).1.panicked = false ∧
     (readObjectBuf src sf (scanFuel d) 0 (SB.init 0)).1.hang = false) ∧
    (observe (readObjectBuf src sf (scanFuel d) 0 (SB.init 0)) = lift d (parseObject d) ∨
     (readObjectBuf src sf (scanFuel d) 0 (SB.init 0)).2 = .error e0) := by
  have R := readObject_fault h hm0 hsf (scanFuel d) 0 false (SB.init 0) (goodF_init d e0)
  rw [view_init] at R
  unfold parseObject
  generalize readObject (scanFuel d) 0 d = m at R
  generalize readObjectBuf src sf (scanFuel d) 0 (SB.init 0) = r at R
  rcases R with a | b
  · unfold RelA at a
    unfold observe lift
    cases m with
    | error e =>
      simp only [] at a ⊢
      exact ⟨⟨a.2.1.nopanic, a.2.1.coh.nohang⟩, Or.inl (by rw [a.1])⟩
    | ok p =>
      obtain ⟨v, rest⟩ := p
      simp only [] at a ⊢
      obtain ⟨a1, a2, a3⟩ := a
      refine ⟨⟨a2.nopanic, a2.coh.nohang⟩, Or.inl ?_⟩
      rw [a1]
      simp only []
      have := a2.posok
      rw [a3] at this
      congr 2
      omega
  · exact ⟨⟨b.2.nopanic, b.2.coh.nohang⟩, Or.inr b.1⟩

/-- if no reader error is recorded in the scanner after `ReadObject`, then its outcome is exactly
    the fault-free one -/
theorem readObject_clean {d : Bytes} {e0 : Err} {src : Source} (h : FaultyOver d e0 src) (hm0 : e0 ≠ .malformed)
    {sf : Nat} (hsf : d.length + 2 ≤ sf) (fuel depth : Nat) (lat : Bool) (s : SB) (gs : GoodF d e0 lat s)
    (hclean : (readObjectBuf src sf fuel depth s).1.err = none) :
    RelA d e0 lat T (readObjectBuf src sf fuel depth s) (readObject fuel depth (view d s)) := by
  rcases readObject_fault h hm0 hsf fuel depth lat s gs with a | b
  · exact a
  · have := b.2.lat rfl; rw [hclean] at this; cases this

/-! ## Non-vacuity -/

-- the reader fails in the middle of `exD` (3 bytes per call, from call 4 on): the reader's error
example : (match (readObjectBuf (faultySrc exD 3 (.fromK 4 0) .io) (exD.length + 2) (scanFuel exD) 0 (SB.init 0)) with
    | (s, .error .io) => s.err == some .io && !s.panicked
    | _ => false) = true := by
  decide +kernel

-- the reader fails only after the object has been read (call 30): the fault-free outcome
example : (match observe (readObjectBuf (faultySrc exD 3 (.fromK 30 0) .io) (exD.length + 2) (scanFuel exD) 0 (SB.init 0)),
      parseObject exD with
    | .ok (a, p), .ok (b, rest) => a.wire == b.wire && p == exD.length - rest.length
    | _, _ => false) = true := by
  decide +kernel

/-- `<</A 1>>` newline `stream` newline -/
def exStream : Bytes := [60, 60, 47, 65, 32, 49, 62, 62, 10, 115, 116, 114, 101, 97, 109, 10]

-- former finding ROB-6: one byte per call, the reader fails inside the keyword `stream` (call 12);
-- `ReadObject` returns the reader's error (before the fix: the plain dictionary and no error)
example : (match (readObjectBuf (faultySrc exStream 1 (.fromK 12 0) .io) (exStream.length + 2) (scanFuel exStream) 0 (SB.init 0)) with
    | (s, .error .io) => s.err == some .io
    | _ => false) = true := by
  decide +kernel

/-- `/AAAA#41` blank -/
def exHash : Bytes := [47, 65, 65, 65, 65, 35, 52, 49, 32]

-- former finding ROB-7: one byte per call, the reader fails behind `#4` (call 7): `tryHex` hands the
-- error of its `PeekN(3)` to `ReadName`, the scanner still stands on the `#` (before the fix: the `#`
-- was kept literally and the name went on)
example : (match (readObjectBuf (faultySrc exHash 1 (.fromK 7 0) .io) (exHash.length + 2) (scanFuel exHash) 0 (SB.init 0)) with
    | (s, .error .io) => s.err == some .io && s.pos + s.filePos == 5
    | _ => false) = true := by
  decide +kernel

end PdfVerif.C19robobj

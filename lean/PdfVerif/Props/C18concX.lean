import PdfVerif.Lemmas.CONCExclStep
import PdfVerif.Model.CONCProg
/-!
# C18 — `exclusive_once`: the hand-over protocol of `DecodeExclusive`

Over all traces (any threads, any programs, arbitrary decode functions, panics included):
while a key is registered in `wip` exactly one frame in the whole system owns its pending
(`exclusive_single_owner`), callers which arrive meanwhile wait (`arrival_waits`,
`waiter_blocked_until_close`) and every call that returns through a pending — the owner and all
its waiters — returns the one outcome written into it (`exclusive_outcome_shared`), which is
written before `done` is closed (`done_has_outcome`).
-/
namespace PdfVerif.C18concX
open PdfVerif PdfVerif.CONC

theorem xinv_reachable (cfg : Cfg) (ls : List Label) (s : State)
    (h : run cfg State.init ls = some s) : XInv s :=
  run_inv cfg (fun _ => True) XInv (fun _ _ _ _ _ hi hs => hi.step hs) ls State.init s
    (fun _ _ => trivial) XInv.init h

/-- the key for which a frame is the registered owner (its `wip` entry still exists) -/
def ownerKey : Frame → Option Key
  | .exStart k _ _ => some k
  | .exRun k _ => some k
  | .exPub k _ _ => some k
  | _ => none

theorem owner_frames_le_one {k : Key} {p : Pid} : ∀ (stk : List Frame), (owned stk).Nodup →
    (∀ f ∈ stk, ownerKey f = some k → owns f = some p) →
    (stk.filter (fun f => ownerKey f == some k)).length ≤ 1
  | [], _, _ => by simp
  | f :: rest, hn, hp => by
    have hrest := owner_frames_le_one rest
      (by rw [owned_cons] at hn; cases ho : owns f <;> simp [ho] at hn <;> first | exact hn | exact hn.2)
      (fun g hg => hp g (List.mem_cons_of_mem _ hg))
    by_cases hk : ownerKey f = some k
    · have ho := hp f (by simp) hk
      rw [owned_cons_some _ ho] at hn
      have hnot : ∀ g ∈ rest, ¬ ownerKey g = some k := by
        intro g hg hgk
        exact (List.nodup_cons.mp hn).1 (mem_owned hg (hp g (List.mem_cons_of_mem _ hg) hgk))
      have : rest.filter (fun f => ownerKey f == some k) = [] := by
        apply List.filter_eq_nil_iff.mpr
        intro g hg; simpa using hnot g hg
      simp [List.filter_cons, hk, this]
    · simp [List.filter_cons, hk]; exact hrest

theorem ownerKey_owns {s : State} {f : Frame} {k : Key} (hx : XFrame s f) (hk : ownerKey f = some k) :
    ∃ p, owns f = some p ∧ s.wip k = some p := by
  cases f <;> simp [ownerKey] at hk <;> subst hk
  · exact ⟨_, rfl, hx.1⟩
  · exact ⟨_, rfl, hx.1⟩
  · exact ⟨_, rfl, hx.1⟩

/-- `exclusive_once` (1): in every reachable state, for every key, at most one thread holds a
registered-owner frame of `DecodeExclusive` for that key, and it holds exactly one — so the decode
function of an exclusive decode runs in one place at a time. -/
theorem exclusive_single_owner (cfg : Cfg) (ls : List Label) (s : State)
    (h : run cfg State.init ls = some s) (k : Key) :
    (∀ t, ((s.thr t).filter (fun f => ownerKey f == some k)).length ≤ 1) ∧
    (∀ t1 t2 f1 f2, f1 ∈ s.thr t1 → f2 ∈ s.thr t2 → ownerKey f1 = some k → ownerKey f2 = some k →
      t1 = t2) := by
  have hx := xinv_reachable cfg ls s h
  constructor
  · intro t
    cases hw : s.wip k with
    | none =>
      have : (s.thr t).filter (fun f => ownerKey f == some k) = [] := by
        apply List.filter_eq_nil_iff.mpr
        intro f hf hk
        obtain ⟨p, _, hp⟩ := ownerKey_owns (hx.frames t f hf) (by simpa using hk)
        rw [hw] at hp; cases hp
      simp [this]
    | some p =>
      refine owner_frames_le_one (p := p) _ (hx.nodup t) ?_
      intro f hf hk
      obtain ⟨q, hq, hwq⟩ := ownerKey_owns (hx.frames t f hf) hk
      rw [hw] at hwq; cases hwq; exact hq
  · intro t1 t2 f1 f2 h1 h2 k1 k2
    obtain ⟨p1, o1, w1⟩ := ownerKey_owns (hx.frames t1 f1 h1) k1
    obtain ⟨p2, o2, w2⟩ := ownerKey_owns (hx.frames t2 f2 h2) k2
    rw [w1] at w2; cases w2
    exact hx.disj t1 t2 p1 (mem_owned h1 o1) (mem_owned h2 o2)

/-- `exclusive_once` (2): a caller that arrives while the key is in `wip` (and not yet cached)
does not run its function; it becomes a waiter on the registered pending. -/
theorem arrival_waits (cfg : Cfg) (s : State) (t : Tid) (r : Ref) (tp : Ty) (path : List Ref) (p : Pid)
    (hc : canCall (s.thr t) = true) (hcache : s.cache (r, tp) = none) (hw : s.wip (r, tp) = some p) :
    ∃ s', step cfg s t (.callExcl (.ref r) tp path) = some s' ∧
      s'.thr t = .exWait (r, tp) p :: s.thr t ∧ s'.hist = s.hist := by
  refine ⟨{ s with thr := upd s.thr t (.exWait (r, tp) p :: s.thr t) }, ?_, by simp, rfl⟩
  simp [step, hc, exclCall, hcache, hw]

/-- `exclusive_once` (3): a waiter has no transition until the owner has closed `done`. -/
theorem waiter_blocked_until_close (cfg : Cfg) (s : State) (t : Tid) (k : Key) (p : Pid)
    (rest : List Frame) (e : s.thr t = .exWait k p :: rest) (hd : (s.pend p).done = false) (a : Act) :
    step cfg s t a = none := by
  cases a <;> simp [step, e, canCall, hd]

/-- `exclusive_once` (4): every `DecodeExclusive` that returned through pending `p` without
panicking — the owner and each waiter — returned the same outcome (value or error). -/
theorem exclusive_outcome_shared (cfg : Cfg) (ls : List Label) (s : State)
    (h : run cfg State.init ls = some s) (p : Pid)
    (t t' : Tid) (o o' : Obj) (tp tp' : Ty) (res res' : Res)
    (he : .exc t o tp res (some p) ∈ s.hist) (he' : .exc t' o' tp' res' (some p) ∈ s.hist)
    (hn : res ≠ .panic) (hn' : res' ≠ .panic) : res = res' := by
  have hx := xinv_reachable cfg ls s h
  have h1 := (hx.hist _ he).2 hn
  have h2 := (hx.hist _ he').2 hn'
  rw [h1] at h2; cases h2; rfl

/-- the outcome is written before `done` is closed: a woken waiter never reads an unwritten
`p.val` / `p.err` -/
theorem done_has_outcome (cfg : Cfg) (ls : List Label) (s : State)
    (h : run cfg State.init ls = some s) (p : Pid) (hd : (s.pend p).done = true) :
    (s.pend p).out ≠ none :=
  (xinv_reachable cfg ls s h).doneOut p hd

/-- non-vacuity: thread 0 owns `(r1, type 0)`, thread 1 arrives and waits, the owner's function
fails with error 3, both return that error through pending 0. -/
example :
    let cfg : Cfg := ⟨fun _ => .direct, true⟩
    let ls : List Label :=
      [(0, .callExcl (.ref 1) 0 []), (1, .callExcl (.ref 1) 0 []), (0, .go), (0, .go),
       (0, .fnRet (.err (.fn 3))), (0, .go), (0, .go), (0, .go), (1, .go)]
    (run cfg State.init ls).map (fun s => s.hist.take 2)
      = some [.exc 1 (.ref 1) 0 (.err (.fn 3)) (some 0), .exc 0 (.ref 1) 0 (.err (.fn 3)) (some 0)] := by
  decide

/-- tie (a3): every access to `cache` / `wip` which the model treats as part of an atomic section
is inside the lock — over the inventory that is compared, line by line, with the one re-extracted
from resource.go and cursor.go on every run (only `NewExtractor`, which runs before the
Extractor is shared, touches the maps unlocked). -/
theorem inventory_all_locked :
    ∀ e ∈ lockInventory, e.1 ≠ "NewExtractor" → e.2.2.2 = true := by decide

/-- package-level state ("independent Readers and Writers do not interfere"): every access to a
mutex-guarded package-level cache in the reviewed inventory — which is compared with the one
re-extracted from font/cmap and font/mapping on every run — holds the mutex (directly, or because
every caller of the unexported helper does). -/
theorem pkg_inventory_all_guarded :
    ∀ e ∈ pkgInventory, e.2.2.2.2 = "locked" ∨ e.2.2.2.2 = "caller" ∨ e.2.2.2.2 = "init" ∨ e.2.2.2.2 = "once" := by
  decide

/-- pooled package-level objects: in the reviewed `sync.Pool` inventory — compared with the one
re-extracted from the sources on every run — (1) no function puts an object into a pool twice on one
path, (2) every Put is reached only when the preceding `Close` of the pooled object succeeded
(`!(err!=nil)` among its conditions, i.e. not on an error branch) and only when the `closed` flag was
not yet set, and (3) every Put site — all of them sit in Close-like functions, which a caller may run
twice — is protected by a persisting `closed` flag (the guard is `flag:r.closed`, a field of the
pointer receiver, or `flag:closed`, a variable captured by the closure; `none` or
`flag-on-value-receiver:…` would be C18-F3 again). -/
theorem pool_inventory_put_once :
    ∀ e ∈ poolInventory, e.2.2.2.2.2.1 ≤ 1 ∧
      (e.2.2.1 = "put" →
        (e.2.2.2.2.2.2.1 = "!(err!=nil)&!(r.closed)" ∨ e.2.2.2.2.2.2.1 = "!(closed)&!(err!=nil)&!isLZW") ∧
        (e.2.2.2.2.2.2.2 = "flag:r.closed" ∨ e.2.2.2.2.2.2.2 = "flag:closed")) := by
  decide

/-- shared slices are never used as scratch space: in the reviewed inventory of `append` calls on
struct fields and package-level slices of the anchored files — compared with the one re-extracted
from the sources on every run — every result is assigned back to the very field it was appended to
(growth of the owner's own slice), none is a temporary built on a shared backing array (the
`md5.Sum(append(sec.key, …))` pattern), and no read path (`Get`, `KeyForRef`, `DecodeStream`,
`Decode`) appears at all. -/
theorem append_inventory_assigned_back :
    ∀ e ∈ appendInventory, e.2.2.2.2 = "back" ∧
      (e.2.1 = "NewReader" ∨ e.2.1 = "(*EmbedHelper).Defer" ∨ e.2.1 = "(*EmbedHelper).EmbedAt" ∨
        e.2.1 = "(*ResourceManager).StoreDeferred") := by
  decide

/-- the filter layers of a decoded stream are closed outermost first: a layer which runs a
goroutine reading from the layers below (DCTDecode) is closed — and its goroutine waited for —
before the pooled zlib reader below it goes back into the package-level pool.  Over the reviewed
fact which is compared with container.go on every run. -/
theorem close_order_outermost_first :
    ∀ e ∈ closeOrder, e.2.2 = "lower-decreasing" ∧ (e.2.1 = "inner-first" ∨ e.2.1 = "") := by
  decide

end PdfVerif.C18concX

import PdfVerif.Model.HISReader
import PdfVerif.Props.C02fioc
import PdfVerif.Lemmas.C01Defs
/-!
# C04 (part 6) — an object-stream member written as an indirect reference reads as that reference

Library HEAD 444f7d4 (`referenceTail` in reader.go): `getFromObjStm` applies the `n g R` look-ahead
to a member that `ReadObject` returned as an integer.  `referenceTail_spec`: for every object
number and generation in range and every conforming spelling of the tail (any white space, the
generation in decimal, any white space, `R`, then the end of the window or a non-regular byte)
the look-ahead recognises the reference; `memberValue_ref`: so does the member look-ahead when
the window is not cut short by the next member.
-/
namespace PdfVerif.C04hisf
open PdfVerif PdfVerif.HIS

theorem spanBy_append (p : Nat → Bool) : ∀ (a b : Bytes), (∀ x ∈ a, p x = true) →
    (match b with | [] => True | c :: _ => p c = false) → spanBy p (a ++ b) = (a, b) := by
  intro a
  induction a with
  | nil =>
    intro b _ hb
    cases b with
    | nil => rfl
    | cons c cs => simp only [List.nil_append, spanBy]; simp at hb; simp [hb]
  | cons x xs ih =>
    intro b ha hb
    have hx : p x = true := ha x (by simp)
    simp only [List.cons_append, spanBy, hx, if_true]
    rw [ih b (fun y hy => ha y (by simp [hy])) hb]

theorem space_lt (c : Nat) (h : isSpace c = true) : c < 256 := by
  by_cases hc : c < 256
  · exact hc
  · have : Gen.scanner_class.getD c 0 = 0 := by simp [Array.getD, C01L.class_size, hc]
    simp [isSpace, classOf, this, Gen.scanner_space] at h

theorem space_table : ∀ c, c < 256 → isSpace c = true → isDigit c = false ∧ c ≠ 82 := by decide +kernel

theorem digit_not_space (c : Nat) (h : isDigit c = true) : isSpace c = false :=
  (C02fioc.digit_facts c (C02fioc.isDigit_lt c h) h).2

/-- **`referenceTail` recognises every conforming tail of a reference.** -/
theorem referenceTail_spec (a : Int) (g : Nat) (ws1 ws2 tail : Bytes)
    (ha : 0 ≤ a ∧ a < Gen.his_xref_maxXRefSize) (hg : g ≤ Gen.his_xref_maxGeneration)
    (h1 : ws1 ≠ [] ∧ ∀ x ∈ ws1, isSpace x = true) (h2 : ws2 ≠ [] ∧ ∀ x ∈ ws2, isSpace x = true)
    (ht : match tail with | [] => True | c :: _ => isRegular c = false) :
    referenceTail a (ws1 ++ (FIO.decOf g ++ (ws2 ++ 82 :: tail))) = some (a.toNat, g) := by
  obtain ⟨hall, hval, hne, hlen⟩ := C02fioc.decOf_spec g 5 (by simp [Gen.his_xref_maxGeneration] at hg; omega) (by omega)
  have hdig : ∀ x ∈ FIO.decOf g, isDigit x = true := fun x hx => by simpa using (List.all_eq_true.mp hall) x hx
  obtain ⟨d0, dt, hd0⟩ : ∃ d t, FIO.decOf g = d :: t := by
    cases h : FIO.decOf g with | nil => exact absurd h hne | cons d t => exact ⟨d, t, rfl⟩
  obtain ⟨w0, wt, hw0⟩ : ∃ d t, ws2 = d :: t := by
    cases h : ws2 with | nil => exact absurd h h2.1 | cons d t => exact ⟨d, t, rfl⟩
  have s1 : spanBy isSpace (ws1 ++ (FIO.decOf g ++ (ws2 ++ 82 :: tail))) = (ws1, FIO.decOf g ++ (ws2 ++ 82 :: tail)) := by
    apply spanBy_append _ _ _ h1.2
    rw [hd0]; exact digit_not_space d0 (hdig d0 (by simp [hd0]))
  have s2 : spanBy isDigit (FIO.decOf g ++ (ws2 ++ 82 :: tail)) = (FIO.decOf g, ws2 ++ 82 :: tail) := by
    apply spanBy_append _ _ _ hdig
    rw [hw0]
    have := h2.2 w0 (by simp [hw0])
    exact (space_table w0 (space_lt w0 this) this).1
  have s3 : spanBy isSpace (ws2 ++ 82 :: tail) = (ws2, 82 :: tail) := by
    apply spanBy_append _ _ _ h2.2
    show isSpace 82 = false
    decide +kernel
  have e1 : ws1.isEmpty = false := by cases ws1 with | nil => exact absurd rfl h1.1 | cons _ _ => rfl
  have e2 : (FIO.decOf g).isEmpty = false := by rw [hd0]; rfl
  have e3 : ws2.isEmpty = false := by rw [hw0]; rfl
  have e4 : ¬ ((FIO.decOf g).length > 6) := by omega
  have hrange : (decide (a < 0) || decide (a ≥ (Gen.his_xref_maxXRefSize : Nat)) || decide (g > Gen.his_xref_maxGeneration)) = false := by
    simp; omega
  unfold referenceTail
  cases tail with
  | nil =>
    simp only [s1, s2, s3, e1, e2, e3, e4, hval, hrange, Bool.false_eq_true, if_false, decide_false, Bool.or_self,
      Bool.not_true]
  | cons c t =>
    simp only at ht
    simp only [s1, s2, s3, e1, e2, e3, e4, hval, hrange, ht, Bool.false_eq_true, if_false, decide_false, Bool.or_self,
      Bool.not_true, Bool.not_false]

/-- the member look-ahead on an integer member whose tail is a conforming reference tail, when no
    later member starts inside the 64-byte window (in particular for the last member) -/
theorem memberValue_ref (data : Bytes) (offs : List Nat) (target memberEnd : Nat) (a : Int) (g : Nat)
    (ws1 ws2 tail : Bytes) (hlater : offs.filter (fun x => x > target) = [])
    (hdata : data.drop memberEnd = ws1 ++ (FIO.decOf g ++ (ws2 ++ 82 :: tail)))
    (hfit : (ws1 ++ (FIO.decOf g ++ (ws2 ++ [82]))).length < 64)
    (ha : 0 ≤ a ∧ a < Gen.his_xref_maxXRefSize) (hg : g ≤ Gen.his_xref_maxGeneration)
    (h1 : ws1 ≠ [] ∧ ∀ x ∈ ws1, isSpace x = true) (h2 : ws2 ≠ [] ∧ ∀ x ∈ ws2, isSpace x = true)
    (ht : match tail with | [] => True | c :: _ => isRegular c = false) :
    memberValue data offs target memberEnd a = .ref a.toNat g := by
  unfold memberValue
  simp only [hlater]
  have h64 : ¬ ((64 : Int) ≤ 0) := by omega
  simp only [h64, if_false, hdata]
  -- the window holds the whole tail and at least one byte behind `R` (or the data end there)
  have htake : ∃ tail', (ws1 ++ (FIO.decOf g ++ (ws2 ++ 82 :: tail))).take (64 : Int).toNat
      = ws1 ++ (FIO.decOf g ++ (ws2 ++ 82 :: tail')) ∧ (match tail' with | [] => True | c :: _ => isRegular c = false) := by
    have e : ws1 ++ (FIO.decOf g ++ (ws2 ++ 82 :: tail)) = (ws1 ++ (FIO.decOf g ++ (ws2 ++ [82]))) ++ tail := by
      simp [List.append_assoc]
    refine ⟨tail.take (64 - (ws1 ++ (FIO.decOf g ++ (ws2 ++ [82]))).length), ?_, ?_⟩
    · rw [e, List.take_append]
      have : (64 : Int).toNat = 64 := rfl
      rw [this, List.take_of_length_le (by omega)]
      simp [List.append_assoc]
    · cases tail with
      | nil => simp
      | cons c t =>
        have : 64 - (ws1 ++ (FIO.decOf g ++ (ws2 ++ [82]))).length = (64 - (ws1 ++ (FIO.decOf g ++ (ws2 ++ [82]))).length - 1) + 1 := by omega
        rw [this, List.take_succ_cons]
        exact ht
  obtain ⟨tail', hk, ht'⟩ := htake
  rw [hk, referenceTail_spec a g ws1 ws2 tail' ha hg h1 h2 ht']

-- the edge cases of the fix, on the model
example : referenceTail 2 (bytesOfString " 0 R") = some (2, 0) := by decide +kernel
example : referenceTail 2 (bytesOfString "  0\nR ") = some (2, 0) := by decide +kernel
example : referenceTail 2 (bytesOfString " 0 Rx") = none := by decide +kernel
example : referenceTail 2 (bytesOfString " 0") = none := by decide +kernel
example : referenceTail 2 (bytesOfString " 65536 R") = none := by decide +kernel
example : referenceTail 2 (bytesOfString " 0000001 R") = none := by decide +kernel
example : referenceTail 2 (bytesOfString "0 R") = none := by decide +kernel

end PdfVerif.C04hisf

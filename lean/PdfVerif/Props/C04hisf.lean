import PdfVerif.Model.HISReader
import PdfVerif.Props.C04hisc
import PdfVerif.Props.C02fioc
import PdfVerif.Props.C04hisb
import PdfVerif.Lemmas.C04ParA
/-!
# C04 (part 6) — an object-stream member written as an indirect reference reads as that reference

Library HEAD 7ec872d (`scanner.readReferenceTail`): `getFromObjStm` applies the `n g R` look-ahead
of the other reference readers to a member that `ReadObject` returned as an integer — white
space AND comments, `ReadInteger`, white space and comments, `R`, inside the member's extent.

* `readReferenceTail_spec`: for every object number and generation in range, ANY white space and
  comments (the grammar `WsR` of Spec/HISGrammar.lean) before and after the generation, however
  long (there is no window any more), the look-ahead recognises the reference — when the `R` ends
  before the next member and is followed by the end of the data or a non-regular byte, or ends
  exactly where the next member starts.
* `memberValue_ref`: the member look-ahead for the last member of a stream.
* `readReferenceTail_topTail` + `readIndirect_topTail`: the member look-ahead and the top-level reader
  `readIndirect` run the SAME function `topTail` (generation, white space, `R`) on the bytes behind
  the integer; a member is a reference exactly if the top-level tail parse succeeds on the same bytes,
  ends inside the member's extent, and the numbers are in range.
* signs, leading zeros, `0R`, and the rejected tails, as `decide` examples.
-/
namespace PdfVerif.C04hisf
open PdfVerif PdfVerif.HIS
open PdfVerif.Spec.Grammar (WsR isWhite)

theorem readInt_eq (inp : Bytes) : HIS.readInt inp = FIO.readIntegerE inp := by
  unfold HIS.readInt FIO.readIntegerE
  rfl

theorem digit_stops (c : Nat) (t : Bytes) (h : isDigit c = true) : C04hisc.StopsWs (c :: t) := by
  have hlt := C02fioc.isDigit_lt c h
  have hf := C02fioc.digit_facts c hlt h
  refine ⟨hlt, ?_, ?_⟩
  · rw [← (C04hisc.class_agree c hlt).1]; exact hf.2
  · simpa using hf.1

/-- **`readReferenceTail` recognises every conforming tail of a reference** — any white space and
comments `w1`, the generation in decimal, any white space and comments `w2`, `R` — in both
situations the code distinguishes: the `R` ends before the limit (or there is none) and is followed
by the end of the data or a non-regular byte; or the `R` ends exactly at the limit. -/
theorem readReferenceTail_spec (pre w1 w2 tail : Bytes) (a : Int) (g : Nat) (endOff : Option Nat)
    (hw1 : WsR w1) (hw2 : WsR w2)
    (ha : 0 ≤ a ∧ a < Gen.his_xref_maxXRefSize) (hg : g ≤ Gen.his_xref_maxGeneration)
    (hend : match endOff with
      | none => (match tail with | [] => True | c :: _ => isRegular c = false)
      | some e => (pre ++ (w1 ++ (FIO.decOf g ++ (w2 ++ [82])))).length = e ∨
          ((pre ++ (w1 ++ (FIO.decOf g ++ (w2 ++ [82])))).length < e ∧
            (match tail with | [] => True | c :: _ => isRegular c = false))) :
    readReferenceTail (pre ++ (w1 ++ (FIO.decOf g ++ (w2 ++ 82 :: tail)))) pre.length endOff a = some (a.toNat, g) := by
  obtain ⟨hall, hval, hne, hlen⟩ := C02fioc.decOf_spec g 5 (by simp [Gen.his_xref_maxGeneration] at hg; omega) (by omega)
  obtain ⟨d0, dt, hd0⟩ : ∃ d t, FIO.decOf g = d :: t := by
    cases h : FIO.decOf g with | nil => exact absurd h hne | cons d t => exact ⟨d, t, rfl⟩
  have hd0d : isDigit d0 = true := by
    have := (List.all_eq_true.mp hall) d0 (by simp [hd0]); simpa using this
  -- white space, the generation, white space, R
  have s1 : skipWS (w1 ++ (FIO.decOf g ++ (w2 ++ 82 :: tail))) = (FIO.decOf g ++ (w2 ++ 82 :: tail), false) := by
    have := C04hisc.ws_any_spelling w1 hw1 (FIO.decOf g ++ (w2 ++ 82 :: tail)) (by rw [hd0]; exact digit_stops d0 _ hd0d)
    rw [this, hd0]; rfl
  have hnumend : C02fioc.NumEnd (w2 ++ 82 :: tail) := by
    cases hw2 with
    | nil => simp [C02fioc.NumEnd, isDigit]
    | white c w hc _ =>
      have hlt := C04hisc.white_lt c hc
      have hsp : isSpace c = true := by rw [(C04hisc.class_agree c hlt).1]; exact hc
      show isDigit c = false
      cases hdc : isDigit c with
      | false => rfl
      | true => have := (C02fioc.digit_facts c hlt hdc).2; rw [hsp] at this; cases this
    | comment body eol w _ _ _ => simp [C02fioc.NumEnd, isDigit]
  have s2 : readInt (FIO.decOf g ++ (w2 ++ 82 :: tail)) = .ok ((g : Int), w2 ++ 82 :: tail) := by
    rw [readInt_eq]
    exact C02fioc.readIntegerE_decOf g (by simp [Gen.his_xref_maxGeneration] at hg; omega) _ hnumend
  have s3 : skipWS (w2 ++ 82 :: tail) = (82 :: tail, false) := by
    have h82 : C04hisc.StopsWs (82 :: tail) := ⟨by omega, by decide, by omega⟩
    have := C04hisc.ws_any_spelling w2 hw2 (82 :: tail) h82
    rw [this]; rfl
  have hdrop : (pre ++ (w1 ++ (FIO.decOf g ++ (w2 ++ 82 :: tail)))).drop pre.length
      = w1 ++ (FIO.decOf g ++ (w2 ++ 82 :: tail)) := C04hisb.drop_len_append _ _
  have hpos : (pre ++ (w1 ++ (FIO.decOf g ++ (w2 ++ 82 :: tail)))).length - tail.length
      = (pre ++ (w1 ++ (FIO.decOf g ++ (w2 ++ [82])))).length := by
    simp; omega
  unfold readReferenceTail
  simp only [hdrop, s1, s2, s3, hpos]
  cases endOff with
  | none =>
    simp only at hend
    cases tail with
    | nil => simp [ha.1, ha.2, hg]
    | cons c t => simp only at hend; simp [hend, ha.1, ha.2, hg]
  | some e =>
    simp only at hend
    rcases hend with heq | ⟨hlt, hfol⟩
    · simp only [List.length_append, List.length_cons, List.length_nil] at heq
      simp [ha.1, ha.2, hg]
      exact ⟨by omega, fun h => by omega⟩
    · simp only [List.length_append, List.length_cons, List.length_nil] at hlt
      cases tail with
      | nil => simp [ha.1, ha.2, hg]; omega
      | cons c t => simp only at hfol; simp [hfol, ha.1, ha.2, hg]; omega

/-- the member look-ahead on the last member of an object stream (no later offset): an integer
    followed by any conforming tail is the reference -/
theorem memberValue_ref (pre w1 w2 tail : Bytes) (offs : List Nat) (target : Nat) (a : Int) (g : Nat)
    (hlater : offs.filter (fun x => x > target) = [])
    (hw1 : WsR w1) (hw2 : WsR w2)
    (ha : 0 ≤ a ∧ a < Gen.his_xref_maxXRefSize) (hg : g ≤ Gen.his_xref_maxGeneration)
    (ht : match tail with | [] => True | c :: _ => isRegular c = false) :
    memberValue (pre ++ (w1 ++ (FIO.decOf g ++ (w2 ++ 82 :: tail)))) offs target pre.length a = .ref a.toNat g := by
  unfold memberValue
  simp only [hlater]
  rw [readReferenceTail_spec pre w1 w2 tail a g none hw1 hw2 ha hg (by simpa using ht)]


/-! ## the member look-ahead IS the look-ahead of the top-level reader

`topTail` is the text of the look-ahead in `HIS.readIndirect` (the branch taken for an integer value
that is not followed by `endobj`), up to and including the `R`; `readIndirect_topTail` proves
that `readIndirect` is that function followed by its range check, and `readReferenceTail_topTail`
that the member look-ahead is the same function followed by the extent test and the same range
check.  So a tail is a reference for a member exactly if the top-level reader parses it as one
on the same bytes and it respects the member's extent. -/

/-- generation, white space, `R` -/
def topTail (r : Bytes) : Except Err (Int × Bytes) :=
  match HIS.readInt r with
  | .error e => .error e
  | .ok (b, r) =>
    match skipWS r with
    | (_, true) => .error .eof
    | (82 :: r, false) => .ok (b, r)
    | _ => .error .malformed

theorem readInt_skip (inp : Bytes) : HIS.readInt (skipWS inp).1 = HIS.readInt inp := by
  unfold HIS.readInt
  rw [C04L.skipWS_idem]

theorem readInt_eof (inp r : Bytes) (h : skipWS inp = (r, true)) : HIS.readInt inp = .error .eof := by
  unfold HIS.readInt
  rw [h]

theorem readReferenceTail_topTail (data : Bytes) (memberEnd : Nat) (endOff : Option Nat) (a : Int) :
    readReferenceTail data memberEnd endOff a =
      match topTail (data.drop memberEnd) with
      | .error _ => none
      | .ok (b, r4) =>
        let pos := data.length - r4.length
        let tooFar : Bool := match endOff with | some e => pos > e | none => false
        let mustLook : Bool := match endOff with | some e => pos < e | none => true
        let follows : Bool := match r4 with | [] => true | c :: _ => !isRegular c
        if tooFar then none
        else if mustLook && !follows then none
        else if a < 0 || a ≥ Gen.his_xref_maxXRefSize || b < 0 || b > Gen.his_xref_maxGeneration then none
        else some (a.toNat, b.toNat) := by
  unfold readReferenceTail topTail
  cases h : skipWS (data.drop memberEnd) with
  | mk r1 eof =>
    cases eof with
    | true => simp only [readInt_eof _ _ h]
    | false =>
      have : HIS.readInt r1 = HIS.readInt (data.drop memberEnd) := by
        have := readInt_skip (data.drop memberEnd); rw [h] at this; exact this
      simp only [this]
      cases HIS.readInt (data.drop memberEnd) with
      | error e => rfl
      | ok v =>
        obtain ⟨b, r2⟩ := v
        simp only []
        cases skipWS r2 with
        | mk r3 e2 =>
          cases e2 with
          | true => rfl
          | false =>
            cases r3 with
            | nil => rfl
            | cons c t =>
              by_cases hc : c = 82
              · subst hc; rfl
              · split
                · simp_all
                · simp_all
                · split
                  · rfl
                  · rename_i heq; exfalso; split at heq <;> simp_all

/-- `HIS.readIndirect` with its reference look-ahead written as a call of `topTail` -/
def readIndirectT (file : Bytes) (pos : Nat) (getInt : Obj → Except Err Int) (scalarOnly : Bool) :
    Except Err Indirect :=
  match HIS.readInt (file.drop pos) with
  | .error e => .error e
  | .ok (number, r) =>
  match HIS.readInt r with
  | .error e => .error e
  | .ok (generation, r) =>
  match skipWS r with
  | (_, true) => .error .eof
  | (r, false) =>
  if !startsWith r kwObj then .error .malformed else
  match skipWS (r.drop 3) with
  | (_, true) => .error .eof
  | (r, false) =>
  if number < 0 || number ≥ Gen.his_xref_maxXRefSize || generation < 0 || generation > Gen.his_xref_maxGeneration then
    .error .malformed
  else
  match readObjectTop file (file.length - r.length) getInt scalarOnly with
  | .error e => .error e
  | .ok (v, p) =>
  match skipWS (file.drop p) with
  | (_, true) => .error .eof
  | (r, false) =>
  let finish (v : Val) (r : Bytes) : Except Err Indirect :=
    if startsWith r kwEndobj then
      .ok { val := v, num := number.toNat, gen := generation.toNat, endPos := file.length - r.length + 6 }
    else .error .malformed
  match v with
  | .obj (.int a) =>
    if startsWith r kwEndobj then finish v r else
    match topTail r with
    | .error e => .error e
    | .ok (b, r) =>
      (match skipWS r with
       | (_, true) => .error .eof
       | (r, false) =>
         if a < 0 || a ≥ Gen.his_xref_maxXRefSize || b < 0 || b > Gen.his_xref_maxGeneration then .error .malformed
         else finish (.obj (.ref a.toNat b.toNat)) r)
  | _ => finish v r

/-- the top-level reader's look-ahead is `topTail` -/
theorem readIndirect_topTail (file : Bytes) (pos : Nat) (getInt : Obj → Except Err Int) (scalarOnly : Bool) :
    HIS.readIndirect file pos getInt scalarOnly = readIndirectT file pos getInt scalarOnly := by
  unfold HIS.readIndirect readIndirectT topTail
  cases HIS.readInt (file.drop pos) with
  | error e => rfl
  | ok v1 =>
  obtain ⟨number, r1⟩ := v1
  simp only []
  cases HIS.readInt r1 with
  | error e => rfl
  | ok v2 =>
  obtain ⟨generation, r2⟩ := v2
  simp only []
  cases skipWS r2 with
  | mk r3 e3 =>
  cases e3 with
  | true => rfl
  | false =>
  simp only []
  split
  · rfl
  cases skipWS (r3.drop 3) with
  | mk r4 e4 =>
  cases e4 with
  | true => rfl
  | false =>
  simp only []
  split
  · rfl
  cases readObjectTop file (file.length - r4.length) getInt scalarOnly with
  | error e => rfl
  | ok vp =>
  obtain ⟨v, p⟩ := vp
  simp only []
  cases skipWS (file.drop p) with
  | mk r5 e5 =>
  cases e5 with
  | true => rfl
  | false =>
  simp only []
  cases v with
  | stream d st ln => rfl
  | obj o =>
  cases o with
  | int a =>
    simp only []
    split
    · rfl
    cases HIS.readInt r5 with
    | error e => rfl
    | ok v6 =>
    obtain ⟨b, r6⟩ := v6
    simp only []
    cases skipWS r6 with
    | mk r7 e7 =>
    cases e7 with
    | true => rfl
    | false =>
    cases r7 with
    | nil => rfl
    | cons c t =>
      by_cases hc : c = 82
      · subst hc; rfl
      · simp only []
        split
        · simp_all
        · split
          · rename_i heq; split at heq <;> simp_all
          · rename_i heq; exfalso; split at heq <;> simp_all
  | _ => rfl

-- the spellings of the repaired look-ahead, on the model (data = the integer "2" and its tail)
example : readReferenceTail (bytesOfString "2 0 R") 1 none 2 = some (2, 0) := by decide +kernel
example : readReferenceTail (bytesOfString "2 %c\n 0 R") 1 none 2 = some (2, 0) := by decide +kernel
example : readReferenceTail (bytesOfString "2 +0 R") 1 none 2 = some (2, 0) := by decide +kernel
example : readReferenceTail (bytesOfString "2 -0 R") 1 none 2 = some (2, 0) := by decide +kernel
example : readReferenceTail (bytesOfString "2 0000000 R") 1 none 2 = some (2, 0) := by decide +kernel
example : readReferenceTail (bytesOfString "2 0R") 1 none 2 = some (2, 0) := by decide +kernel
example : readReferenceTail (bytesOfString "2 0 Rx") 1 none 2 = none := by decide +kernel
example : readReferenceTail (bytesOfString "2 R") 1 none 2 = none := by decide +kernel
example : readReferenceTail (bytesOfString "2 65536 R") 1 none 2 = none := by decide +kernel
example : readReferenceTail (bytesOfString "2 0") 1 none 2 = none := by decide +kernel
-- the next member starts right behind `R` (offset 5), or inside the tail (offset 3)
example : readReferenceTail (bytesOfString "2 0 R57") 1 (some 5) 2 = some (2, 0) := by decide +kernel
example : readReferenceTail (bytesOfString "2 0 R") 1 (some 3) 2 = none := by decide +kernel

end PdfVerif.C04hisf

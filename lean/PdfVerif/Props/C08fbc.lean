import PdfVerif.Model.FBCCITT
import PdfVerif.Model.FBParams
import PdfVerif.Model.FBGlobals
import PdfVerif.Props.C08fb

/-!
# C08 (work package FB): no CCITTFax row is longer than `⌈Columns/8⌉` bytes

`row_length`: every row the model reader delivers — for arbitrary bytes and arbitrary parameters —
has at most `lineBytes = ⌈Columns/8⌉` bytes; `decode_total_bounded`: the whole output has at most
`MaxRows × lineBytes` bytes.  The proof follows the line buffer through the three scan-line
decoders: every `fillRowBits(start, end)` has `end ≤ Columns` — in `decode2D` because `a1` is
clamped to `Columns` and the first horizontal run is capped after `a0 = max(a0, 0)`.  (Before
that repair the reader emitted rows of `lineBytes + 1` bytes for a vertical-right code against
`b1 = Columns` and for a first horizontal run of more than `Columns` pixels; the correspondence
line `FB cdec` on such bodies is the tie.)
-/

namespace PdfVerif.C08fbc
open PdfVerif PdfVerif.FB PdfVerif.C08fb

/-! ### the line buffer -/

theorem setRange_length : ∀ (l : Bits) (s e : Nat), (setRange l s e).length = l.length
  | [], _, _ => rfl
  | _ :: rest, s, e => by simp [setRange, setRange_length rest]

/-- `(stop+7) tdiv 8 ≤ cap` when `stop ≤ 8·cap`, whatever the sign of `stop` -/
theorem reqBytes_le (stop : Int) (cap : Nat) (h : stop ≤ 8 * (cap : Int)) :
    (Int.tdiv (stop + 7) 8).toNat ≤ cap := by
  by_cases h0 : 0 ≤ stop + 7
  · rw [Int.tdiv_eq_ediv_of_nonneg h0]; omega
  · have : Int.tdiv (stop + 7) 8 ≤ 0 := by
      rw [Int.tdiv_eq_ediv]
      split
      · omega
      · have : Int.sign 8 = 1 := by decide
        omega
    omega

/-- `fillRowBits` never grows the line beyond `8·cap` bits if `end ≤ 8·cap` -/
theorem fillRow_length_le (line : Bits) (start stop : Int) (fill : Bool) (cap : Nat)
    (h1 : line.length ≤ 8 * cap) (h2 : stop ≤ 8 * (cap : Int)) :
    (fillRow line start stop fill).length ≤ 8 * cap := by
  unfold fillRow
  split
  · exact h1
  · have hr := reqBytes_le stop cap h2
    simp only []
    split
    · rw [setRange_length, List.length_append, List.length_replicate]; omega
    · rw [List.length_append, List.length_replicate]; omega

/-- `end ≤ Columns` is enough: `Columns ≤ 8·lineBytes` -/
theorem columns_le_lineBits (p : CParams) : (p.columns : Int) ≤ 8 * (p.lineBytes : Int) := by
  unfold CParams.lineBytes; omega

theorem fillRow_le (p : CParams) (line : Bits) (start stop : Int) (fill : Bool)
    (h1 : line.length ≤ 8 * p.lineBytes) (h2 : stop ≤ (p.columns : Int)) :
    (fillRow line start stop fill).length ≤ 8 * p.lineBytes :=
  fillRow_length_le line start stop fill p.lineBytes h1 (Int.le_trans h2 (columns_le_lineBits p))

/-! ### the bit reader does not touch the line buffer -/

theorem load_line (n : Nat) : ∀ (fuel : Nat) (r : Rd), (r.load n fuel).line = r.line
  | 0, _ => rfl
  | fuel + 1, r => by
    unfold Rd.load
    split
    · split
      · split
        · rw [load_line n fuel]
        · rw [load_line n fuel]
      · split
        · rw [load_line n fuel]
        · rw [load_line n fuel]
    · rfl

theorem peek_line (r : Rd) (n : Nat) : (r.peek n).2.line = r.line := by
  unfold Rd.peek; exact load_line n 4 r

theorem consume_line (r : Rd) (n : Nat) : (r.consume n).line = r.line := by
  unfold Rd.consume
  simp only []
  split <;> split <;> first | exact load_line n 4 r | rfl

theorem alignRow_line (r : Rd) (p : CParams) : (r.alignRow p).line = r.line := by
  unfold Rd.alignRow; split
  · exact consume_line r _
  · rfl

theorem readBits_line (r : Rd) (n : Nat) : (r.readBits n).2.line = r.line := by
  unfold Rd.readBits; simp only []; rw [consume_line, peek_line]

theorem waitForOne_line : ∀ (fuel : Nat) (r : Rd), (r.waitForOne fuel).line = r.line
  | 0, _ => rfl
  | fuel + 1, r => by
    unfold Rd.waitForOne
    split
    · simp only []
      split
      · rw [waitForOne_line fuel, readBits_line]
      · rw [readBits_line]
    · rfl

theorem decodeRun_line (r : Rd) (w : Bool) : (r.decodeRun w).2.2.line = r.line := by
  unfold Rd.decodeRun
  cases w <;> simp only [Bool.false_eq_true, ↓reduceIte] <;> split <;> simp [consume_line, peek_line]

theorem decodeFullRun_line (columns : Nat) (w : Bool) : ∀ (iter : Nat) (r : Rd) (total : Nat),
    (r.decodeFullRun columns w iter total).2.line = r.line
  | 0, _, _ => rfl
  | iter + 1, r, total => by
    unfold Rd.decodeFullRun
    simp only []
    split
    · exact decodeRun_line r w
    · split
      · exact decodeRun_line r w
      · rw [decodeFullRun_line columns w iter]; exact decodeRun_line r w

/-! ### changing elements lie inside the row -/

theorem changesGo_lt : ∀ (px : List Nat) (prev x : Nat), ∀ c ∈ changesGo prev x px, c < x + px.length
  | [], _, _ => by simp [changesGo]
  | c0 :: rest, prev, x => by
    intro c hc
    unfold changesGo at hc
    split at hc
    · cases hc with
      | head => simp
      | tail _ h => have := changesGo_lt rest c0 (x + 1) c h; simp; omega
    · have := changesGo_lt rest prev (x + 1) c hc; simp; omega

theorem changeAt_le (ch : List Nat) (cols i : Nat) (h : ∀ c ∈ ch, c ≤ cols) : changeAt ch cols i ≤ cols := by
  unfold changeAt
  split
  · rename_i c hc; exact h c (List.mem_of_getElem? hc)
  · exact Nat.le_refl _

theorem findB1B2_le (ch : List Nat) (cols : Nat) (a0 : Int) (cur white : Nat) (h : ∀ c ∈ ch, c ≤ cols) :
    (findB1B2 ch cols a0 cur white).1 ≤ cols ∧ (findB1B2 ch cols a0 cur white).2 ≤ cols := by
  unfold findB1B2
  exact ⟨changeAt_le _ _ _ h, changeAt_le _ _ _ h⟩

theorem decode2DGo_le (p : CParams) (refCh : List Nat) (hch : ∀ c ∈ refCh, c ≤ p.columns) :
    ∀ (fuel : Nat) (r : Rd) (a0 prevA0 : Int) (cur prevCol : Nat), r.line.length ≤ 8 * p.lineBytes →
      (Rd.decode2DGo r p refCh fuel a0 prevA0 cur prevCol).line.length ≤ 8 * p.lineBytes := by
  intro fuel
  induction fuel with
  | zero => intro r _ _ _ _ h; exact h
  | succ f ih =>
    intro r a0 prevA0 cur prevCol h
    unfold Rd.decode2DGo
    split
    · split
      · exact h
      · split
        rename_i value r1 heq
        have h1 : r1.line = r.line := by have := peek_line r 7; rw [heq] at this; exact this
        simp only []
        have h2 : ∀ n, (r1.consume n).line.length ≤ 8 * p.lineBytes := by
          intro n; rw [consume_line, h1]; exact h
        obtain ⟨hb1, hb2⟩ := findB1B2_le refCh p.columns a0 cur p.whiteBit hch
        split
        · rw [peek_line, h1]; exact h
        · split
          · -- pass mode: fill up to b2
            apply ih
            show (fillRow _ _ _ _).length ≤ _
            exact fillRow_le p _ _ _ _ (h2 _) (by omega)
          · split
            · -- horizontal mode: two runs, each capped at the end of the row
              apply ih
              show (fillRow _ _ _ _).length ≤ _
              apply fillRow_le
              · rw [decodeFullRun_line]
                show (fillRow _ _ _ _).length ≤ _
                apply fillRow_le
                · rw [decodeFullRun_line]; exact h2 _
                · omega
              · omega
            · split
              · -- vertical mode: a1 clamped to Columns
                apply ih
                show (fillRow _ _ _ _).length ≤ _
                exact fillRow_le p _ _ _ _ (h2 _) (Int.min_le_right _ _)
              · split
                · exact h2 _
                · apply ih; exact h2 _
    · exact h

theorem decode1DGo_le (p : CParams) :
    ∀ (fuel : Nat) (r : Rd) (xpos : Nat) (isWhite : Bool) (numEOL : Nat) (needTerm : Bool), r.line.length ≤ 8 * p.lineBytes →
      (Rd.decode1DGo r p fuel xpos isWhite numEOL needTerm).line.length ≤ 8 * p.lineBytes := by
  intro fuel
  induction fuel with
  | zero => intro r _ _ _ _ h; exact h
  | succ f ih =>
    intro r xpos isWhite numEOL needTerm h
    unfold Rd.decode1DGo
    split
    · rename_i hc
      simp only []
      have h3 : (fillRow (r.decodeRun isWhite).2.2.line (xpos : Int)
          ((xpos : Int) + ((min (r.decodeRun isWhite).1 (p.columns - xpos) : Nat) : Int)) (isWhite != p.blackIs1)).length
          ≤ 8 * p.lineBytes := by
        by_cases hx : xpos ≤ p.columns
        · apply fillRow_le
          · rw [decodeRun_line]; exact h
          · omega
        · -- beyond the row the clamped run is empty: the line is not touched
          have h0 : min (r.decodeRun isWhite).1 (p.columns - xpos) = 0 := by omega
          rw [h0]
          unfold fillRow
          rw [if_pos (by omega), decodeRun_line]; exact h
      split
      · split
        · split
          · show ((_ : Rd).waitForOne _).line.length ≤ _
            rw [waitForOne_line]; exact h3
          · apply ih; rw [waitForOne_line]; exact h3
        · rw [waitForOne_line]; exact h3
      · split
        · apply ih; exact h3
        · split
          · apply ih; exact h3
          · apply ih; exact h3
    · split
      · rw [alignRow_line]; exact h
      · exact h

theorem decode1D_le (p : CParams) (r : Rd) : (r.decode1D p).line.length ≤ 8 * p.lineBytes := by
  unfold Rd.decode1D
  exact decode1DGo_le p _ _ _ _ _ _ (Nat.zero_le _)

/-- the changing elements of the reference line (its first `Columns` pixels) lie inside the row -/
theorem changingElements_le (p : CParams) (refLine : Bits) :
    ∀ c ∈ changingElements p ((refLine.take p.columns).map fun b => if b then 1 else 0), c ≤ p.columns := by
  intro c hc
  unfold changingElements at hc
  have := changesGo_lt _ _ _ c hc
  simp only [List.length_map, List.length_take] at this
  omega

theorem decode2D_le (p : CParams) (r : Rd) (refLine : Bits) : (r.decode2D p refLine).line.length ≤ 8 * p.lineBytes := by
  unfold Rd.decode2D
  exact decode2DGo_le p _ (changingElements_le p refLine) _ _ _ _ _ _ (Nat.zero_le _)

theorem decodeG4_le (p : CParams) (r : Rd) (refLine : Bits) : (r.decodeG4 p refLine).line.length ≤ 8 * p.lineBytes := by
  unfold Rd.decodeG4
  simp only []
  have h0 : ((r.decode2D p refLine).alignRow p).line.length ≤ 8 * p.lineBytes := by
    rw [alignRow_line]; exact decode2D_le p r refLine
  split
  · split
    · show ((_ : Rd).consume 24).line.length ≤ _
      rw [consume_line, peek_line]; exact h0
    · rw [peek_line]; exact h0
  · exact h0

theorem decodeG32D_le (p : CParams) (r : Rd) (refLine : Bits) : (r.decodeG32D p refLine).line.length ≤ 8 * p.lineBytes := by
  unfold Rd.decodeG32D
  simp only []
  split
  · split
    · split
      · exact Nat.zero_le _
      · exact decode1D_le p _
    · exact decode1D_le p _
  · rw [alignRow_line]; exact decode2D_le p _ refLine

theorem decodeScanLine_le (p : CParams) (r : Rd) (refLine : Bits) :
    (r.decodeScanLine p refLine).1.line.length ≤ 8 * p.lineBytes := by
  unfold Rd.decodeScanLine
  simp only []
  split
  · exact decodeG4_le p r refLine
  · split
    · exact decode1D_le p r
    · exact decodeG32D_le p r refLine


/-! ### rows -/

theorem packBits_length (n : Nat) : ∀ (l : Bits), l.length ≤ n → (packBits l).1.length * 8 ≤ l.length := by
  induction n with
  | zero =>
    intro l h
    have : l = [] := List.eq_nil_of_length_eq_zero (by omega)
    subst this; simp [packBits]
  | succ n ih =>
    intro l h
    unfold packBits
    split
    · rename_i rest
      have := ih rest (by simp only [List.length_cons] at h; omega)
      simp only [List.length_cons]; omega
    · simp

/-- every row `Rd.readRows` delivers has at most `lineBytes` bytes -/
theorem readRows_row_le (p : CParams) : ∀ (fuel : Nat) (r : Rd) (numRows : Nat) (refLine : Bits),
    ∀ row ∈ (Rd.readRows r p fuel numRows refLine).1, row.length ≤ p.lineBytes := by
  intro fuel
  induction fuel with
  | zero => intro r n rl row h; simp [Rd.readRows] at h
  | succ f ih =>
    intro r n rl row h
    unfold Rd.readRows at h
    split at h
    · simp only [] at h
      split at h
      · simp at h
      · simp only [List.mem_cons] at h
        rcases h with h | h
        · subst h
          have h1 := decodeScanLine_le p r rl
          have h2 := packBits_length _ (r.decodeScanLine p rl).1.line (Nat.le_refl _)
          omega
        · exact ih _ _ _ row h
    · simp at h

/-- **row_length**: whatever the bytes and the parameters, no row of the decoded output is longer
than `⌈Columns/8⌉` bytes -/
theorem row_length (p : CParams) (data : Bytes) : ∀ row ∈ (decodeRows p data).1, row.length ≤ p.lineBytes := by
  unfold decodeRows
  exact readRows_row_le p _ _ _ _

theorem flatten_length_le (L : Nat) : ∀ (rows : List Bytes), (∀ row ∈ rows, row.length ≤ L) →
    rows.flatten.length ≤ rows.length * L
  | [], _ => by simp
  | row :: rest, h => by
    have h1 := h row (List.mem_cons_self ..)
    have h2 := flatten_length_le L rest (fun r hr => h r (List.mem_cons_of_mem _ hr))
    simp only [List.flatten_cons, List.length_append, List.length_cons, Nat.add_mul, Nat.one_mul]
    omega

/-- **output bound on arbitrary bytes**: the CCITTFax reader opened by `FilterCCITTFax.Decode`
delivers at most `MaxRows × ⌈Columns/8⌉` bytes, `MaxRows ≤ geoMax(Columns) ≤ MaxImageHeight`
(`decode_rows_bounded`) -/
theorem ccitt_decode_total_bounded (f : FCCITT) (data : Bytes) :
    ((decodeAll f.decParams data).1.length : Int) ≤ f.decodeMaxRows * (f.decParams.lineBytes : Int) := by
  have hrows := (decode_rows_bounded f data).1
  have hlen := flatten_length_le f.decParams.lineBytes (decodeRows f.decParams data).1 (row_length f.decParams data)
  unfold decodeAll
  simp only []
  have h0 : (0 : Int) ≤ (f.decParams.lineBytes : Int) := Int.natCast_nonneg _
  calc ((decodeRows f.decParams data).1.flatten.length : Int)
      ≤ (((decodeRows f.decParams data).1.length * f.decParams.lineBytes : Nat) : Int) := by exact_mod_cast hlen
    _ = ((decodeRows f.decParams data).1.length : Int) * (f.decParams.lineBytes : Int) := by simp
    _ ≤ f.decodeMaxRows * (f.decParams.lineBytes : Int) := Int.mul_le_mul_of_nonneg_right hrows h0

/-- the two demonstrations of the audit on the model: one row of one byte each (the unrepaired
reader delivered two bytes per row) -/
example : (decodeRows ⟨8, -1, 2, false, false, false, false⟩ [0x06, 0x0C, 0, 0, 0, 0]).1.map List.length = [1, 1] := by
  decide +kernel

/-! ### /JBIG2Globals chains -/

/-- `DecodeStream` follows at most `MaxExtractDepth` `/JBIG2Globals` references, however long
the chain in the file is -/
theorem globalsChainFetches_bounded (depth : Nat) : globalsChainFetches depth ≤ Gen.limits_MaxExtractDepth := by
  unfold globalsChainFetches; omega

end PdfVerif.C08fbc

import PdfVerif.Props.C06faL
import PdfVerif.Spec.FALZW
/-!
# C07 (part A, LZW) — reference LZW codec against the library's, both directions

`spec_reads_model_lzw`: for all byte strings and both `EarlyChange` settings,
`Spec.LZW.decode early (Model.encode early x) = some x`;
`model_reads_spec_lzw`: `Model.decode early (Spec.LZW.encode early x) = (x, EOD)` (second half of
the file: the reference encoder is put in step with the library's reader through a writer
state with an empty table, `fakeW`, so that the C06 simulation lemmas apply).  Proof: a second simulation, between
the writer of `Model/FALZW.lean` and the table-of-strings decoder of `Spec/FALZW.lean`
(`Sim2`), using a writer-only invariant `WInv` (in particular: the writer's code width is
the smallest width that fits `hi + earlyChange`, which is how the reference decoder computes
the width from its entry count).
-/
namespace PdfVerif.C07faL
open PdfVerif PdfVerif.FA PdfVerif.FA.LZW PdfVerif.C06faL

/-! ## the reference codec's bit functions agree with the model's -/

theorem natOf_aux (bs : List Bool) : ∀ acc,
    bs.foldl (fun a b => a * 2 + b.toNat) acc = bs.foldl (fun a b => 2 * a + (if b then 1 else 0)) acc := by
  induction bs with
  | nil => intro acc; rfl
  | cons b bs ih =>
    intro acc
    simp only [List.foldl_cons]
    have : acc * 2 + b.toNat = 2 * acc + (if b = true then 1 else 0) := by
      cases b <;> simp <;> omega
    rw [this, ih]

theorem natOf_eq_ofBits (bs : List Bool) : Spec.LZW.natOf bs = ofBits bs := natOf_aux bs 0

theorem bitsOf_eq_toBits (w n : Nat) : Spec.LZW.bitsOf w n = toBits w n := by
  induction w with
  | zero => rfl
  | succ w ih =>
    unfold Spec.LZW.bitsOf at ih ⊢
    rw [List.range_succ, List.reverse_append, List.map_append, toBits]
    simp only [List.reverse_cons, List.reverse_nil, List.nil_append, List.map_cons, List.map_nil, List.cons_append]
    rw [ih]
    congr 1
    rw [Nat.testBit_eq_decide_div_mod_eq]
    by_cases h : n / 2 ^ w % 2 = 1 <;> simp [h]

theorem unpackBytes_eq (s : Bytes) : Spec.LZW.unpackBytes s = bytesToBits s := by
  induction s with
  | nil => rfl
  | cons b bs ih =>
    simp only [Spec.LZW.unpackBytes, List.flatMap_cons, bytesToBits] at ih ⊢
    rw [bitsOf_eq_toBits, ih]

/-- the reference decoder's three reads on a code of `n` bits followed by `rest` -/
theorem spec_read (n c : Nat) (rest : Bits) (hc : c < 2 ^ n) :
    ((toBits n c ++ rest).take n).length = n ∧ Spec.LZW.natOf ((toBits n c ++ rest).take n) = c ∧
    (toBits n c ++ rest).drop n = rest := by
  have hl := toBits_length n c
  have ht : (toBits n c ++ rest).take n = toBits n c := by
    rw [List.take_append_of_le_length (by omega), List.take_of_length_le (by omega)]
  have hd : (toBits n c ++ rest).drop n = rest := by
    rw [List.drop_append_of_le_length (by omega), List.drop_of_length_le (by omega)]; rfl
  refine ⟨by rw [ht, hl], ?_, hd⟩
  rw [ht, natOf_eq_ofBits, ofBits_toBits, Nat.mod_eq_of_lt hc]

/-! ## writer-side invariant (no reader involved) -/

theorem codeLen_eq (ec top w : Nat) (h9 : 9 ≤ w) (h12 : w ≤ 12) (hlt : top + ec < 2 ^ w)
    (hlow : w = 9 ∨ 2 ^ (w - 1) ≤ top + ec) : Spec.LZW.codeLen ec top = w := by
  have hw : w = 9 ∨ w = 10 ∨ w = 11 ∨ w = 12 := by omega
  unfold Spec.LZW.codeLen
  rcases hw with rfl | rfl | rfl | rfl
  · have : top + ec < 512 := hlt
    simp [this]
  · have h1 : top + ec < 1024 := hlt
    have h2 : ¬ top + ec < 512 := by
      rcases hlow with h | h
      · omega
      · have : (512:Nat) ≤ top + ec := h
        omega
    simp [h1, h2]
  · have h1 : top + ec < 2048 := hlt
    have h2 : ¬ top + ec < 1024 := by
      rcases hlow with h | h
      · omega
      · have : (1024:Nat) ≤ top + ec := h
        omega
    have h3 : ¬ top + ec < 512 := by omega
    simp [h1, h2, h3]
  · have h2 : ¬ top + ec < 2048 := by
      rcases hlow with h | h
      · omega
      · have : (2048:Nat) ≤ top + ec := h
        omega
    have h3 : ¬ top + ec < 1024 := by omega
    have h4 : ¬ top + ec < 512 := by omega
    simp [h2, h3, h4]

/-- what is known about the writer and the strings of its codes, independent of any reader -/
structure WInv (w : W) (S : Nat → Bytes) : Prop where
  ec_le : w.ec ≤ 1
  ov_pow : w.overflow = 2 ^ w.width
  w_lo : 9 ≤ w.width
  w_hi : w.width ≤ 12
  hi_lo : 257 ≤ w.hi
  hi_ov : w.hi + w.ec < w.overflow
  hi_max : w.hi + w.ec < 4095
  /-- the code width is the smallest that fits `hi + ec` -/
  low : w.width = 9 ∨ 2 ^ (w.width - 1) ≤ w.hi + w.ec
  lit : ∀ c, c < 256 → S c = [c]
  enc : ∀ key c, lookup key w.table = some c →
      258 ≤ c ∧ c ≤ w.hi ∧ ∃ p b, key = p * 256 + b ∧ b < 256 ∧ ValidPrefix p c ∧ S c = S p ++ [b]
  savedv : ∀ code, w.saved = some code → code < 256 ∨ (258 ≤ code ∧ code ≤ w.hi)

theorem winv_width {w : W} {S : Nat → Bytes} (h : WInv w S) : Spec.LZW.codeLen w.ec w.hi = w.width :=
  codeLen_eq w.ec w.hi w.width h.w_lo h.w_hi (by rw [← h.ov_pow]; exact h.hi_ov) h.low

/-- the next width, as `incHi` and the reference decoder both compute it -/
theorem winv_width_next {w : W} {S : Nat → Bytes} (h : WInv w S) :
    Spec.LZW.codeLen w.ec (w.hi + 1) = (if w.hi + 1 + w.ec = w.overflow then w.width + 1 else w.width) := by
  have hov := h.hi_ov
  have hpow := h.ov_pow
  have hmax := h.hi_max
  split
  · rename_i hb
    have hw : w.width ≠ 12 := by
      intro h12; rw [h12] at hpow; omega
    apply codeLen_eq _ _ _ (by have := h.w_lo; omega) (by have := h.w_hi; omega)
    · rw [Nat.pow_succ, ← hpow]; omega
    · right; rw [Nat.add_sub_cancel, ← hpow]; omega
  · rename_i hb
    apply codeLen_eq _ _ _ h.w_lo h.w_hi
    · rw [← hpow]; omega
    · rcases h.low with h1 | h1
      · exact .inl h1
      · right; omega

/-- string table after the writer created entry `hi + 1` -/
def updS (S : Nat → Bytes) (c : Nat) (s : Bytes) : Nat → Bytes := fun d => if d = c then s else S d

theorem winv_miss {w : W} {S : Nat → Bytes} (h : WInv w S) (code x : Nat) (hs : w.saved = some code)
    (hx : x < 256) (hfull : ¬ w.hi + 1 + w.ec = 4095) :
    afterMiss w code x =
        { w with width := if w.hi + 1 + w.ec = w.overflow then w.width + 1 else w.width,
                 hi := w.hi + 1,
                 overflow := if w.hi + 1 + w.ec = w.overflow then w.overflow * 2 else w.overflow,
                 saved := some x, table := (code * 2 ^ 8 + x, w.hi + 1) :: w.table } ∧
    WInv (afterMiss w code x) (updS S (w.hi + 1) (S code ++ [x])) := by
  have hinc := incHi_notfull w hfull
  have hAM : afterMiss w code x =
      { w with width := if w.hi + 1 + w.ec = w.overflow then w.width + 1 else w.width,
               hi := w.hi + 1,
               overflow := if w.hi + 1 + w.ec = w.overflow then w.overflow * 2 else w.overflow,
               saved := some x, table := (code * 2 ^ 8 + x, w.hi + 1) :: w.table } := by
    simp [afterMiss, hinc]
  refine ⟨hAM, ?_⟩
  rw [hAM]
  have hovp := h.ov_pow
  have hhiov := h.hi_ov
  have hhl := h.hi_lo
  have hvalid := h.savedv code hs
  have hcodele : code ≤ w.hi := by rcases hvalid with h1 | h1 <;> omega
  refine { ec_le := h.ec_le, ov_pow := ?_, w_lo := ?_, w_hi := ?_, hi_lo := ?_, hi_ov := ?_, hi_max := ?_,
           low := ?_, lit := ?_, enc := ?_, savedv := ?_ }
  · dsimp only
    split
    · rw [hovp, Nat.pow_succ]
    · exact hovp
  · dsimp only
    have := h.w_lo; split <;> omega
  · dsimp only
    have := h.w_hi
    split
    · have : w.width ≠ 12 := by
        intro h12; rw [h12] at hovp; have := h.hi_max; omega
      omega
    · omega
  · dsimp only; omega
  · dsimp only; split <;> omega
  · dsimp only; have := h.hi_max; omega
  · dsimp only
    split
    · right; rw [Nat.add_sub_cancel, ← hovp]; omega
    · rcases h.low with h1 | h1
      · exact .inl h1
      · right; omega
  · intro c hc
    simp only [updS]
    rw [if_neg (by omega)]; exact h.lit c hc
  · intro key c hlk
    show 258 ≤ c ∧ c ≤ w.hi + 1 ∧ ∃ p b, key = p * 256 + b ∧ b < 256 ∧ ValidPrefix p c ∧
      updS S (w.hi + 1) (S code ++ [x]) c = updS S (w.hi + 1) (S code ++ [x]) p ++ [b]
    simp only [updS]
    rw [lookup_cons] at hlk
    by_cases hk : (code * 2 ^ 8 + x == key) = true
    · rw [if_pos hk] at hlk
      have hc : c = w.hi + 1 := (Option.some.inj hlk).symm
      have hkey : key = code * 256 + x := by simpa using (beq_iff_eq.mp hk).symm
      refine ⟨by omega, by omega, code, x, hkey, hx, ?_, ?_⟩
      · rcases hvalid with h1 | h1
        · exact .inl h1
        · exact .inr ⟨h1.1, by omega⟩
      · rw [if_pos hc, if_neg (by omega)]
    · rw [if_neg hk] at hlk
      obtain ⟨h1, h2, p, b, hkey, hb, hvp, hS⟩ := h.enc key c hlk
      refine ⟨h1, by omega, p, b, hkey, hb, hvp, ?_⟩
      have hp : p ≤ w.hi := by rcases hvp with h3 | h3 <;> omega
      rw [if_neg (by omega), if_neg (by omega)]; exact hS
  · intro c hc
    dsimp only at hc ⊢
    have : c = x := (Option.some.inj hc).symm
    exact .inl (this ▸ hx)

theorem winv_miss_full {w : W} {S : Nat → Bytes} (h : WInv w S) (code x : Nat)
    (hx : x < 256) (hfull : w.hi + 1 + w.ec = 4095) :
    afterMiss w code x =
        { w with width := initWidth, hi := LZW.eof, overflow := clear * 2, table := [], saved := some x } ∧
    WInv (afterMiss w code x) S := by
  have hinc := incHi_full w hfull
  have hAM : afterMiss w code x =
      { w with width := initWidth, hi := LZW.eof, overflow := clear * 2, table := [], saved := some x } := by
    simp [afterMiss, hinc]
  refine ⟨hAM, ?_⟩
  rw [hAM]
  refine { ec_le := h.ec_le, ov_pow := rfl, w_lo := by dsimp only; decide, w_hi := by dsimp only; decide,
           hi_lo := by dsimp only; decide, hi_ov := ?_, hi_max := ?_, low := .inl rfl, lit := h.lit, enc := ?_,
           savedv := ?_ }
  · dsimp only; have := h.ec_le; rw [eof_eq, clear_eq]; omega
  · dsimp only; have := h.ec_le; rw [eof_eq]; omega
  · intro key c hlk; simp [lookup] at hlk
  · intro c hc
    dsimp only at hc
    have : c = x := (Option.some.inj hc).symm
    exact .inl (this ▸ hx)

/-! ## the reference decoder follows the library's writer -/

/-- Writer `w` and the reference decoder state `(table, m, prev)` (after it has read every code
    `w` has written) are in step. -/
structure Sim2 (w : W) (table : List Bytes) (m : Nat) (prev : Option Bytes) (S : Nat → Bytes) : Prop where
  winv : WInv w S
  hi_m : w.hi = 257 + m
  /-- entry `i` of the list is the string of code `258 + i` -/
  tget : ∀ i, i < table.length → table[i]? = some (S (258 + i))
  savedn : w.saved = none → prev = none
  lastf : match prev with
    | none => m = 0 ∧ table = [] ∧ (∀ code, w.saved = some code → code < 256)
    | some p => 1 ≤ m ∧ table.length = m - 1 ∧ p ≠ [] ∧
        ∃ b0, S w.hi = p ++ [b0] ∧ (pendingStr w S).head? = some b0

/-- the decoder's table after it has read the code for the pending string -/
def nextTable (table : List Bytes) (prev : Option Bytes) (sHi : Bytes) : List Bytes :=
  match prev with
  | some _ => table ++ [sHi]
  | none => table

/-- the reference decoder reads the code the writer sends for its pending string -/
theorem spec_code {w : W} {table : List Bytes} {m : Nat} {prev : Option Bytes} {S : Nat → Bytes}
    (h : Sim2 w table m prev S) (code : Nat) (hs : w.saved = some code) (f : Nat) (rest : Bits) :
    S code ≠ [] ∧
    Spec.LZW.decodeAux (f + 1) table m prev w.ec (toBits w.width code ++ rest) =
      (Spec.LZW.decodeAux f (nextTable table prev (S w.hi)) (m + 1) (some (S code)) w.ec rest).map (S code ++ ·) := by
  have hW := h.winv
  have hvalid := hW.savedv code hs
  have hlen : Spec.LZW.codeLen w.ec (257 + m) = w.width := by rw [← h.hi_m]; exact winv_width hW
  have hpow9 : (2:Nat) ^ 9 ≤ 2 ^ w.width := Nat.pow_le_pow_right (by decide) hW.w_lo
  have hcode : code < 2 ^ w.width := by
    have := hW.hi_ov; have := hW.ov_pow
    rcases hvalid with h1 | h1 <;> omega
  obtain ⟨r1, r2, r3⟩ := spec_read w.width code rest hcode
  have hn257 : (code == 257) = false := by
    rcases hvalid with h1 | h1 <;> simp <;> omega
  have hn256 : (code == 256) = false := by
    rcases hvalid with h1 | h1 <;> simp <;> omega
  have hl := h.lastf
  rw [Spec.LZW.decodeAux]
  simp only [hlen, r1, Nat.lt_irrefl, if_false, r2, r3, hn257, hn256, Bool.false_eq_true]
  -- the string of the code
  rcases hvalid with hlit | ⟨h258, hle⟩
  · -- literal
    have hS : S code = [code] := hW.lit code hlit
    refine ⟨by rw [hS]; simp, ?_⟩
    have hstr : Spec.LZW.stringOf table code = some [code] := by simp [Spec.LZW.stringOf, hlit]
    simp only [hstr, hS]
    cases prev with
    | none => simp [nextTable]
    | some p =>
      simp only at hl
      obtain ⟨hm1, htl, hpne, b0, hShi, hhead⟩ := hl
      have hb0 : b0 = code := by
        simp [pendingStr, hs, hS] at hhead; exact hhead.symm
      have hbound : 258 + table.length ≤ 4095 := by
        have := hW.hi_max; have := h.hi_m; omega
      simp [nextTable, hbound, hShi, hb0]
  · have hnl : ¬ code < 256 := by omega
    cases prev with
    | none =>
      simp only at hl
      exact absurd (hl.2.2 code hs) hnl
    | some p =>
      simp only at hl
      obtain ⟨hm1, htl, hpne, b0, hShi, hhead⟩ := hl
      have hbound : 258 + table.length ≤ 4095 := by
        have := hW.hi_max; have := h.hi_m; omega
      by_cases hlt : code < w.hi
      · -- an entry the decoder already has
        have hidx : code - 258 < table.length := by have := h.hi_m; omega
        have hget := h.tget (code - 258) hidx
        rw [show 258 + (code - 258) = code by omega] at hget
        have hstr : Spec.LZW.stringOf table code = some (S code) := by
          have : ¬ code < 258 := by omega
          simp [Spec.LZW.stringOf, hnl, this, hget]
        simp only [hstr]
        cases hSc : S code with
        | nil =>
          -- impossible: the pending string has a first byte
          simp [pendingStr, hs, hSc] at hhead
        | cons c cs =>
          refine ⟨by simp, ?_⟩
          have hb0 : b0 = c := by
            simp [pendingStr, hs, hSc] at hhead; exact hhead.symm
          simp [nextTable, hbound, hShi, hb0]
      · -- the entry the writer has just created: previous string + its first byte
        have hce : code = w.hi := by omega
        have hidx : ¬ code - 258 < table.length := by have := h.hi_m; omega
        have hstr : Spec.LZW.stringOf table code = none := by
          have : ¬ code < 258 := by omega
          have hnone : table[code - 258]? = none := by
            rw [List.getElem?_eq_none_iff]; omega
          simp [Spec.LZW.stringOf, hnl, this, hnone]
        obtain ⟨ph, pt, hp⟩ : ∃ ph pt, p = ph :: pt := by
          cases p with
          | nil => exact absurd rfl hpne
          | cons a b => exact ⟨a, b, rfl⟩
        have hSc : S code = ph :: pt ++ [b0] := by rw [hce, hShi, hp]
        have hb0 : b0 = ph := by
          simp [pendingStr, hs, hSc] at hhead; exact hhead.symm
        have hceq : (code == 258 + table.length) = true := by
          have := h.hi_m; simp; omega
        refine ⟨by rw [hSc]; simp, ?_⟩
        simp only [hstr, hp, hceq, if_true]
        simp [nextTable, hbound, hSc, hb0, hShi, hp]

theorem afterMiss_ec (w : W) (code x : Nat) : (afterMiss w code x).ec = w.ec := by
  by_cases hfull : w.hi + 1 + w.ec = 4095
  · simp [afterMiss, incHi_full w hfull]
  · simp [afterMiss, incHi_notfull w hfull]

/-- **Simulation step for the reference decoder**: it reads the code (and the clear code, if
    one follows), outputs the pending string and is in step with the writer again. -/
theorem spec_emit {w : W} {table : List Bytes} {m : Nat} {prev : Option Bytes} {S : Nat → Bytes}
    (h : Sim2 w table m prev S) (code x : Nat) (hs : w.saved = some code) (hx : x < 256) :
    ∀ fuel rest, fuel ≥ (toBits w.width code ++ (incHi w).2.1 ++ rest).length + 1 →
    ∃ fuel' table' m' prev' S', fuel' ≥ rest.length + 1 ∧ Sim2 (afterMiss w code x) table' m' prev' S' ∧
      S' x = [x] ∧
      Spec.LZW.decodeAux fuel table m prev w.ec (toBits w.width code ++ (incHi w).2.1 ++ rest) =
        (Spec.LZW.decodeAux fuel' table' m' prev' w.ec rest).map (S code ++ ·) := by
  intro fuel rest hfuel
  have hW := h.winv
  have hvalid := hW.savedv code hs
  have hwl := toBits_length w.width code
  have hw9 := hW.w_lo
  by_cases hfull : w.hi + 1 + w.ec = 4095
  · -- table full: code, clear code, fresh start
    obtain ⟨hAM, hW'⟩ := winv_miss_full hW code x hx hfull
    have hinc := incHi_full w hfull
    rw [hinc] at hfuel ⊢
    dsimp only at hfuel ⊢
    obtain ⟨f, rfl⟩ : ∃ f, fuel = f + 1 := ⟨fuel - 1, by omega⟩
    rw [List.append_assoc]
    obtain ⟨hne, hdec⟩ := spec_code h code hs f (toBits (if w.hi + 1 + w.ec = w.overflow then w.width + 1 else w.width) clear ++ rest)
    rw [hdec]
    -- the clear code, at the width both sides computed
    have hnext := winv_width_next hW
    have hlen2 : Spec.LZW.codeLen w.ec (257 + (m + 1)) = (if w.hi + 1 + w.ec = w.overflow then w.width + 1 else w.width) := by
      rw [← hnext, h.hi_m]; congr 1
    generalize hwn : (if w.hi + 1 + w.ec = w.overflow then w.width + 1 else w.width) = wn at *
    have hwn9 : 9 ≤ wn := by rw [← hwn]; split <;> omega
    have hclr : clear < 2 ^ wn := by
      rw [clear_eq]; exact Nat.lt_of_lt_of_le (by decide : 256 < 2 ^ 9) (Nat.pow_le_pow_right (by decide) hwn9)
    obtain ⟨r1, r2, r3⟩ := spec_read wn clear rest hclr
    have hwnl := toBits_length wn clear
    simp only [List.length_append, hwl, hwnl] at hfuel
    obtain ⟨f2, rfl⟩ : ∃ f2, f = f2 + 1 := ⟨f - 1, by omega⟩
    have hstep2 : Spec.LZW.decodeAux (f2 + 1) (nextTable table prev (S w.hi)) (m + 1) (some (S code)) w.ec
        (toBits wn clear ++ rest) = Spec.LZW.decodeAux f2 [] 0 none w.ec rest := by
      rw [Spec.LZW.decodeAux]
      simp only [hlen2, r1, Nat.lt_irrefl, if_false, r2, r3]
      simp [clear_eq]
    rw [hstep2]
    refine ⟨f2, [], 0, none, S, by omega, ?_, hW.lit x hx, rfl⟩
    refine { winv := hW', hi_m := by rw [hAM]; rfl, tget := ?_, savedn := ?_, lastf := ?_ }
    · intro i hi; simp at hi
    · intro hn; simp [hAM] at hn
    · refine ⟨rfl, rfl, ?_⟩
      intro c hc
      rw [hAM] at hc
      have : c = x := (Option.some.inj hc).symm
      exact this ▸ hx
  · -- the usual case: the writer creates entry `hi + 1`
    obtain ⟨hAM, hW'⟩ := winv_miss hW code x hs hx hfull
    have hinc := incHi_notfull w hfull
    rw [hinc] at hfuel ⊢
    dsimp only at hfuel ⊢
    obtain ⟨f, rfl⟩ : ∃ f, fuel = f + 1 := ⟨fuel - 1, by omega⟩
    rw [List.append_nil]
    obtain ⟨hne, hdec⟩ := spec_code h code hs f rest
    rw [hdec]
    have hfuel' : f + 1 ≥ w.width + rest.length + 1 := by simpa [hwl] using hfuel
    have hhl := hW.hi_lo
    have hcodele : code ≤ w.hi := by rcases hvalid with h1 | h1 <;> omega
    refine ⟨f, nextTable table prev (S w.hi), m + 1, some (S code), updS S (w.hi + 1) (S code ++ [x]),
      by omega, ?_, ?_, ?_⟩
    · have hSlow : ∀ c, c ≤ w.hi → updS S (w.hi + 1) (S code ++ [x]) c = S c := by
        intro c hc; simp only [updS]; rw [if_neg (by omega)]
      have hl := h.lastf
      refine { winv := hW', hi_m := by rw [hAM]; dsimp only; rw [h.hi_m]; omega, tget := ?_, savedn := ?_, lastf := ?_ }
      · intro i hi
        cases prev with
        | none =>
          simp only at hl
          simp only [nextTable] at hi ⊢
          rw [hl.2.1] at hi; simp at hi
        | some p =>
          simp only at hl
          obtain ⟨hm1, htl, _, _, _, _⟩ := hl
          simp only [nextTable, List.length_append, List.length_cons, List.length_nil] at hi ⊢
          by_cases hi' : i < table.length
          · rw [List.getElem?_append_left hi', h.tget i hi', hSlow (258 + i) (by have := h.hi_m; omega)]
          · have hie : i = table.length := by omega
            rw [List.getElem?_append_right (by omega), hie, Nat.sub_self]
            have : 258 + table.length = w.hi := by have := h.hi_m; omega
            rw [this, hSlow w.hi (Nat.le_refl _)]
            rfl
      · intro hn; simp [hAM] at hn
      · dsimp only
        refine ⟨by omega, ?_, hne, x, ?_, ?_⟩
        · cases prev with
          | none =>
            simp only at hl
            simp [nextTable, hl.2.1, hl.1]
          | some p =>
            simp only at hl
            simp [nextTable, hl.2.1]; omega
        · rw [hAM]; dsimp only
          simp only [updS, if_true]
        · rw [hAM]
          simp only [pendingStr, updS]
          rw [if_neg (by omega), hW.lit x hx]; rfl
    · simp only [updS]
      rw [if_neg (by omega), hW.lit x hx]
    · rfl

theorem sim2_first {w : W} {table : List Bytes} {m : Nat} {prev : Option Bytes} {S : Nat → Bytes}
    (h : Sim2 w table m prev S) (x : Nat) (hx : x < 256) (hs : w.saved = none) :
    Sim2 { w with saved := some x } table m prev S := by
  have hp := h.savedn hs
  subst hp
  have hl := h.lastf
  simp only at hl
  have hW := h.winv
  refine { winv := ?_, hi_m := h.hi_m, tget := h.tget, savedn := by intro hn; simp at hn, lastf := ?_ }
  · exact { ec_le := hW.ec_le, ov_pow := hW.ov_pow, w_lo := hW.w_lo, w_hi := hW.w_hi, hi_lo := hW.hi_lo,
            hi_ov := hW.hi_ov, hi_max := hW.hi_max, low := hW.low, lit := hW.lit, enc := hW.enc,
            savedv := by
              intro c hc
              have : c = x := (Option.some.inj hc).symm
              exact .inl (this ▸ hx) }
  · refine ⟨hl.1, hl.2.1, ?_⟩
    intro c hc
    have : c = x := (Option.some.inj hc).symm
    exact this ▸ hx

theorem sim2_hit {w : W} {table : List Bytes} {m : Nat} {prev : Option Bytes} {S : Nat → Bytes}
    (h : Sim2 w table m prev S) (code x c : Nat) (hx : x < 256)
    (hs : w.saved = some code) (hl : lookup (code * 2 ^ 8 + x) w.table = some c) :
    Sim2 { w with saved := some c } table m prev S ∧ S c = S code ++ [x] := by
  have hW := h.winv
  obtain ⟨h1, h2, p, b, hkey, hb, hvp, hS⟩ := hW.enc _ c hl
  have hpb : code = p ∧ x = b := by
    have : code * 256 + x = p * 256 + b := by simpa using hkey
    omega
  obtain ⟨rfl, rfl⟩ := hpb
  refine ⟨?_, hS⟩
  have hlast := h.lastf
  refine { winv := ?_, hi_m := h.hi_m, tget := h.tget, savedn := by intro hn; simp at hn, lastf := ?_ }
  · exact { ec_le := hW.ec_le, ov_pow := hW.ov_pow, w_lo := hW.w_lo, w_hi := hW.w_hi, hi_lo := hW.hi_lo,
            hi_ov := hW.hi_ov, hi_max := hW.hi_max, low := hW.low, lit := hW.lit, enc := hW.enc,
            savedv := by
              intro d hd
              have : d = c := (Option.some.inj hd).symm
              subst this
              exact .inr ⟨h1, h2⟩ }
  · cases prev with
    | none =>
      simp only at hlast ⊢
      -- no entry exists right after a clear code, so there is no hit
      have := h.hi_m
      omega
    | some q =>
      simp only at hlast ⊢
      obtain ⟨a1, a2, a3, b0, a4, a5⟩ := hlast
      refine ⟨a1, a2, a3, b0, a4, ?_⟩
      simp only [pendingStr, hs] at a5
      simp only [pendingStr, hS]
      cases hSc : S code with
      | nil => rw [hSc] at a5; simp at a5
      | cons hd tl => rw [hSc] at a5; simpa using a5

theorem spec_eof (table : List Bytes) (m : Nat) (prev : Option Bytes) (ec n f : Nat) (rest : Bits)
    (hlen : Spec.LZW.codeLen ec (257 + m) = n) (h9 : 9 ≤ n) :
    Spec.LZW.decodeAux (f + 1) table m prev ec (toBits n LZW.eof ++ rest) = some [] := by
  have he : LZW.eof < 2 ^ n := by
    rw [eof_eq]; exact Nat.lt_of_lt_of_le (by decide : 257 < 2 ^ 9) (Nat.pow_le_pow_right (by decide) h9)
  obtain ⟨r1, r2, r3⟩ := spec_read n LZW.eof rest he
  rw [Spec.LZW.decodeAux]
  simp only [hlen, r1, Nat.lt_irrefl, if_false, r2]
  simp [eof_eq]

/-- `Close`: the reference decoder delivers the pending string and stops at the EOD code -/
theorem spec_close {w : W} {table : List Bytes} {m : Nat} {prev : Option Bytes} {S : Nat → Bytes}
    (h : Sim2 w table m prev S) (tl : Bits) : ∀ fuel, fuel ≥ (close w ++ tl).length + 1 →
    Spec.LZW.decodeAux fuel table m prev w.ec (close w ++ tl) = some (pendingStr w S) := by
  intro fuel hfuel
  have hW := h.winv
  unfold close at hfuel ⊢
  cases hs : w.saved with
  | none =>
    rw [hs] at hfuel
    simp only [pendingStr, hs] at hfuel ⊢
    obtain ⟨f, rfl⟩ : ∃ f, fuel = f + 1 := ⟨fuel - 1, by omega⟩
    exact spec_eof table m prev w.ec w.width f tl (by rw [← h.hi_m]; exact winv_width hW) hW.w_lo
  | some code =>
    rw [hs] at hfuel
    simp only [pendingStr, hs] at hfuel ⊢
    rcases hinc : incHi w with ⟨w1, clr, b⟩
    rw [hinc] at hfuel
    dsimp only at hfuel ⊢
    have hem := spec_emit h code 0 hs (by decide) fuel (toBits w1.width LZW.eof ++ tl)
    rw [hinc] at hem
    dsimp only at hem
    obtain ⟨f', table', m', prev', S', hf', hsim', _, hdec⟩ := hem (by
      simpa [List.append_assoc] using hfuel)
    rw [List.append_assoc]
    rw [hdec]
    have hW' := hsim'.winv
    have hw1 : (afterMiss w code 0).width = w1.width := by rw [afterMiss_width, hinc]
    obtain ⟨f, rfl⟩ : ∃ f, f' = f + 1 := ⟨f' - 1, by omega⟩
    have := spec_eof table' m' prev' w.ec w1.width f tl (by
      rw [← hw1, ← afterMiss_ec w code 0, ← hsim'.hi_m]; exact winv_width hW') (by rw [← hw1]; exact hW'.w_lo)
    rw [this]
    simp

/-- **Simulation**: the reference decoder turns everything the writer still writes into the
    pending string followed by the remaining input. -/
theorem spec_run (xs : Bytes) (hx : AllBytes xs) : ∀ (w : W) (table : List Bytes) (m : Nat) (prev : Option Bytes)
    (S : Nat → Bytes), Sim2 w table m prev S → ∀ tl fuel, fuel ≥ (run w xs ++ tl).length + 1 →
    Spec.LZW.decodeAux fuel table m prev w.ec (run w xs ++ tl) = some (pendingStr w S ++ xs) := by
  induction xs with
  | nil =>
    intro w table m prev S h tl fuel hf
    simp only [run] at hf ⊢
    rw [spec_close h tl fuel hf]; simp
  | cons x xs ih =>
    intro w table m prev S h tl fuel hf
    have hx256 : x < 256 := by simp at hx; exact hx.1
    have hxs : AllBytes xs := by simp at hx; exact hx.2
    rw [run] at hf ⊢
    cases hs : w.saved with
    | none =>
      have hstep : step w x = ({ w with saved := some x }, []) := by simp [step, hs]
      rw [hstep] at hf ⊢
      dsimp only at hf ⊢
      rw [List.nil_append] at hf ⊢
      have := ih hxs _ table m prev S (sim2_first h x hx256 hs) tl fuel hf
      dsimp only at this
      rw [this]
      simp [pendingStr, hs, h.winv.lit x hx256]
    | some code =>
      cases hl : lookup (code * 2 ^ 8 + x) w.table with
      | some c =>
        have hstep : step w x = ({ w with saved := some c }, []) := by simp [step, hs, hl]
        obtain ⟨hsim, hS⟩ := sim2_hit h code x c hx256 hs hl
        rw [hstep] at hf ⊢
        dsimp only at hf ⊢
        rw [List.nil_append] at hf ⊢
        have := ih hxs _ table m prev S hsim tl fuel hf
        dsimp only at this
        rw [this]
        simp [pendingStr, hs, hS]
      | none =>
        rw [step_miss w code x hs hl] at hf ⊢
        dsimp only at hf ⊢
        rw [List.append_assoc] at hf ⊢
        obtain ⟨f', table', m', prev', S', hf', hsim', hS', hdec⟩ :=
          spec_emit h code x hs hx256 fuel (run (afterMiss w code x) xs ++ tl) (by
            simpa [List.append_assoc] using hf)
        rw [hdec]
        have := ih hxs _ table' m' prev' S' hsim' tl f' hf'
        rw [afterMiss_ec] at this
        rw [this]
        simp [pendingStr, hs, afterMiss_saved, hS']

theorem bytesToBits_len (s : Bytes) : (bytesToBits s).length = 8 * s.length := by
  induction s with
  | nil => rfl
  | cons b bs ih =>
    have : (toBits 8 b).length = 8 := rfl
    simp only [bytesToBits, List.length_append, List.length_cons, ih, this]; omega

theorem sim2_init (early : Bool) : Sim2 (W.init early) [] 0 none S0 := by
  refine { winv := ?_, hi_m := rfl, tget := by intro i hi; simp at hi, savedn := fun _ => rfl,
           lastf := ⟨rfl, rfl, by intro c hc; simp [W.init] at hc⟩ }
  refine { ec_le := by cases early <;> decide, ov_pow := rfl, w_lo := by cases early <;> decide,
           w_hi := by cases early <;> decide, hi_lo := by cases early <;> decide,
           hi_ov := by cases early <;> decide, hi_max := by cases early <;> decide, low := .inl rfl,
           lit := ?_, enc := ?_, savedv := ?_ }
  · intro c hc; simp [S0, hc]
  · intro key c hlk; simp [W.init, lookup] at hlk
  · intro c hc; simp [W.init] at hc

/-- **The reference LZW decoder reads what the library writes**, for every byte string and both
    `EarlyChange` settings: Spec (table of strings, code length from the number of entries, as
    in ISO 32000-1 §7.4.4) against the model of `lzw/writer.go` (hash table of prefix/byte pairs,
    `hi`/`overflow` registers, clear code when `hi + earlyChange = 4095`). -/
theorem spec_reads_model_lzw (early : Bool) (x : Bytes) (hx : AllBytes x) :
    Spec.LZW.decode early (encode early x) = some x := by
  unfold Spec.LZW.decode encode
  rw [unpackBytes_eq, bitpack_rt]
  have hlen : (bitsToBytes (encodeBits early x)).length * 8 =
      (encodeBits early x ++ List.replicate (padLen (encodeBits early x).length) false).length := by
    rw [← bitpack_rt, bytesToBits_len]; omega
  rw [hlen]
  unfold encodeBits
  rw [List.append_assoc]
  generalize hpad : List.replicate (padLen (toBits initWidth clear ++ run (W.init early) x).length) false = pad
  have hec : (if early = true then 1 else 0) = (W.init early).ec := rfl
  rw [hec]
  -- the leading clear code
  have h9 : Spec.LZW.codeLen (W.init early).ec (257 + 0) = initWidth := by cases early <;> rfl
  obtain ⟨r1, r2, r3⟩ := spec_read initWidth clear (run (W.init early) x ++ pad) (by decide)
  rw [Spec.LZW.decodeAux]
  simp only [h9, r1, Nat.lt_irrefl, if_false, r2, r3]
  have hc1 : (clear == 257) = false := by decide
  have hc2 : (clear == 256) = true := by decide
  simp only [hc1, hc2, Bool.false_eq_true, if_false, if_true]
  have := spec_run x hx (W.init early) [] 0 none S0 (sim2_init early) pad
    ((toBits initWidth clear ++ (run (W.init early) x ++ pad)).length) (by
      simp only [List.length_append, toBits_length, initWidth_eq]; omega)
  rw [this]
  simp [pendingStr, W.init]

example : Spec.LZW.decode true (encode true [97, 97, 97, 97, 97, 97, 97, 98, 97, 98, 97, 98]) =
    some [97, 97, 97, 97, 97, 97, 97, 98, 97, 98, 97, 98] := by decide +kernel

/-! ## the library's reader follows the reference encoder -/

/-- a writer state with the reader's registers, a given saved code and an empty table: enough
    to use the writer/reader simulation of C06 with an encoder that is not the library's -/
def fakeW (r : R) (sv : Option Nat) : W :=
  { width := r.width, hi := r.hi, overflow := r.overflow, saved := sv, table := [], ec := r.ec }

/-- forget the writer's table and read its registers off the reader -/
theorem sim_to_fake {w : W} {r : R} {S : Nat → Bytes} (h : Sim w r S) : Sim (fakeW r w.saved) r S := by
  have e1 := h.width_eq; have e2 := h.hi_eq; have e3 := h.ov_eq; have e4 := h.ec_eq
  refine { width_eq := rfl, hi_eq := rfl, ov_eq := rfl, ec_eq := rfl, ec_le := by show r.ec ≤ 1; rw [← e4]; exact h.ec_le,
           ov_pow := by show r.overflow = 2 ^ r.width; rw [← e3, ← e1]; exact h.ov_pow,
           w_lo := by show 9 ≤ r.width; rw [← e1]; exact h.w_lo,
           w_hi := by show r.width ≤ 12; rw [← e1]; exact h.w_hi,
           hi_lo := by show 257 ≤ r.hi; rw [← e2]; exact h.hi_lo,
           hi_ov := by show r.hi + r.ec < r.overflow; rw [← e2, ← e3, ← e4]; exact h.hi_ov,
           hi_max := by show r.hi + r.ec < 4095; rw [← e2, ← e4]; exact h.hi_max,
           lit := h.lit, enc := by intro key c hlk; simp [fakeW, lookup] at hlk, size := h.size, dec := h.dec,
           saved := ?_, last := ?_ }
  · have := h.saved
    show match w.saved with | none => _ | some code => _
    cases hs : w.saved with
    | none => rw [hs] at this; exact this
    | some code =>
      rw [hs] at this
      show (code < 256 ∨ 258 ≤ code ∧ code ≤ r.hi) ∧ _
      rw [← e2]; exact this
  · have := h.last
    cases hl : r.last with
    | none => rw [hl] at this; show r.hi = 257; rw [← e2]; exact this
    | some l =>
      rw [hl] at this
      show ValidPrefix l r.hi ∧ 258 ≤ r.hi ∧ ∃ b0, S r.hi = S l ++ [b0] ∧ (pendingStr (fakeW r w.saved) S).head? = some b0
      rw [← e2]
      exact this

theorem winv_to_fake {w : W} {r : R} {S : Nat → Bytes} (hs : Sim w r S) (h : WInv w S) : WInv (fakeW r w.saved) S := by
  have e1 := hs.width_eq; have e2 := hs.hi_eq; have e3 := hs.ov_eq; have e4 := hs.ec_eq
  refine { ec_le := by show r.ec ≤ 1; rw [← e4]; exact h.ec_le,
           ov_pow := by show r.overflow = 2 ^ r.width; rw [← e3, ← e1]; exact h.ov_pow,
           w_lo := by show 9 ≤ r.width; rw [← e1]; exact h.w_lo,
           w_hi := by show r.width ≤ 12; rw [← e1]; exact h.w_hi,
           hi_lo := by show 257 ≤ r.hi; rw [← e2]; exact h.hi_lo,
           hi_ov := by show r.hi + r.ec < r.overflow; rw [← e2, ← e3, ← e4]; exact h.hi_ov,
           hi_max := by show r.hi + r.ec < 4095; rw [← e2, ← e4]; exact h.hi_max,
           low := by show r.width = 9 ∨ 2 ^ (r.width - 1) ≤ r.hi + r.ec; rw [← e1, ← e2, ← e4]; exact h.low,
           lit := h.lit, enc := by intro key c hlk; simp [fakeW, lookup] at hlk,
           savedv := by intro c hc; show c < 256 ∨ 258 ≤ c ∧ c ≤ r.hi; rw [← e2]; exact h.savedv c hc }

theorem spec_indexOf (s : Bytes) : ∀ (t : List Bytes) (k j : Nat), Spec.LZW.indexOf s t k = some j →
    ∃ i, j = k + i ∧ t[i]? = some s := by
  intro t
  induction t with
  | nil => intro k j h; simp [Spec.LZW.indexOf] at h
  | cons a as ih =>
    intro k j h
    rw [Spec.LZW.indexOf] at h
    by_cases ha : (a == s) = true
    · rw [if_pos ha] at h
      have : k = j := Option.some.inj h
      exact ⟨0, by omega, by simp [beq_iff_eq.mp ha]⟩
    · rw [if_neg ha] at h
      obtain ⟨i, hj, hg⟩ := ih (k + 1) j h
      exact ⟨i + 1, by omega, by simpa using hg⟩

/-- a code found for a string of two or more bytes is a table entry holding that string -/
theorem spec_codeOf_long (t : List Bytes) (s : Bytes) (c : Nat) (hlen : 2 ≤ s.length)
    (h : Spec.LZW.codeOf t s = some c) : ∃ i, c = 258 + i ∧ t[i]? = some s := by
  unfold Spec.LZW.codeOf at h
  split at h
  · simp at hlen
  · cases hi : Spec.LZW.indexOf s t 0 with
    | none => rw [hi] at h; simp at h
    | some j =>
      rw [hi] at h
      obtain ⟨i, hj, hg⟩ := spec_indexOf s t 0 j hi
      refine ⟨i, ?_, hg⟩
      have : j + 258 = c := by simpa using h
      omega

/-- The reference encoder `(tab, m, cur)` and the library's reader `r` (which has read every
    code the encoder has written) are in step; `sv` is the code of the encoder's current match. -/
structure ESim (tab : List Bytes) (m : Nat) (cur : Bytes) (sv : Option Nat) (r : R) (S : Nat → Bytes) : Prop where
  sim : Sim (fakeW r sv) r S
  winv : WInv (fakeW r sv) S
  hi_m : r.hi = 257 + m
  tlen : tab.length = m
  tget : ∀ i, i < m → tab[i]? = some (S (258 + i))
  curv : match sv with
    | none => cur = []
    | some code => cur ≠ [] ∧ Spec.LZW.codeOf tab cur = some code ∧ S code = cur

/-- the current match grows: `cur ++ [b]` is in the encoder's table -/
theorem esim_hit {tab : List Bytes} {m : Nat} {cur : Bytes} {code : Nat} {r : R} {S : Nat → Bytes}
    (h : ESim tab m cur (some code) r S) (b c : Nat)
    (hc : Spec.LZW.codeOf tab (cur ++ [b]) = some c) : ESim tab m (cur ++ [b]) (some c) r S := by
  obtain ⟨hne, hcode, hScode⟩ := h.curv
  have hlen : 2 ≤ (cur ++ [b]).length := by
    cases cur with
    | nil => exact absurd rfl hne
    | cons a as => simp
  obtain ⟨i, hci, hgi⟩ := spec_codeOf_long tab (cur ++ [b]) c hlen hc
  have him : i < m := by
    rw [← h.tlen]
    exact (List.getElem?_eq_some_iff.mp hgi).1
  have hSc : S c = cur ++ [b] := by
    have := h.tget i him
    rw [hgi] at this
    rw [hci]; exact (Option.some.inj this).symm
  have hS := h.sim
  have hW := h.winv
  have hcv : c < 256 ∨ (258 ≤ c ∧ c ≤ r.hi) := .inr ⟨by omega, by rw [h.hi_m]; omega⟩
  refine { sim := ?_, winv := ?_, hi_m := h.hi_m, tlen := h.tlen, tget := h.tget, curv := ⟨by simp, hc, hSc⟩ }
  · refine { width_eq := rfl, hi_eq := rfl, ov_eq := rfl, ec_eq := rfl, ec_le := hS.ec_le, ov_pow := hS.ov_pow,
             w_lo := hS.w_lo, w_hi := hS.w_hi, hi_lo := hS.hi_lo, hi_ov := hS.hi_ov, hi_max := hS.hi_max,
             lit := hS.lit, enc := hS.enc, size := hS.size, dec := hS.dec, saved := ?_, last := ?_ }
    · refine ⟨hcv, fun hn => ?_⟩
      have := hS.last
      rw [hn] at this
      have : r.hi = 257 := this
      rw [h.hi_m] at this
      omega
    · have hl := hS.last
      cases hlr : r.last with
      | none => rw [hlr] at hl; exact hl
      | some l =>
        rw [hlr] at hl
        obtain ⟨a1, a2, b0, a3, a4⟩ := hl
        refine ⟨a1, a2, b0, a3, ?_⟩
        simp only [pendingStr, fakeW] at a4 ⊢
        rw [hScode] at a4
        rw [hSc]
        cases cur with
        | nil => exact absurd rfl hne
        | cons a as => simpa using a4
  · exact { ec_le := hW.ec_le, ov_pow := hW.ov_pow, w_lo := hW.w_lo, w_hi := hW.w_hi, hi_lo := hW.hi_lo,
            hi_ov := hW.hi_ov, hi_max := hW.hi_max, low := hW.low, lit := hW.lit, enc := hW.enc,
            savedv := by
              intro d hd
              have : d = c := (Option.some.inj hd).symm
              subst this
              exact hcv }

/-- the encoder's first byte (after the start or a clear code nothing is pending) -/
theorem esim_first {tab : List Bytes} {m : Nat} {r : R} {S : Nat → Bytes}
    (h : ESim tab m [] none r S) (b : Nat) (hb : b < 256) : ESim tab m [b] (some b) r S := by
  have hS := h.sim
  have hW := h.winv
  have hsv := hS.saved
  have hln : r.last = none := hsv
  refine { sim := ?_, winv := ?_, hi_m := h.hi_m, tlen := h.tlen, tget := h.tget,
           curv := ⟨by simp, rfl, hS.lit b hb⟩ }
  · refine { width_eq := rfl, hi_eq := rfl, ov_eq := rfl, ec_eq := rfl, ec_le := hS.ec_le, ov_pow := hS.ov_pow,
             w_lo := hS.w_lo, w_hi := hS.w_hi, hi_lo := hS.hi_lo, hi_ov := hS.hi_ov, hi_max := hS.hi_max,
             lit := hS.lit, enc := hS.enc, size := hS.size, dec := hS.dec,
             saved := ⟨.inl hb, fun _ => hb⟩, last := ?_ }
    have hl := hS.last
    rw [hln] at hl ⊢
    exact hl
  · exact { ec_le := hW.ec_le, ov_pow := hW.ov_pow, w_lo := hW.w_lo, w_hi := hW.w_hi, hi_lo := hW.hi_lo,
            hi_ov := hW.hi_ov, hi_max := hW.hi_max, low := hW.low, lit := hW.lit, enc := hW.enc,
            savedv := by
              intro d hd
              have : d = b := (Option.some.inj hd).symm
              exact .inl (this ▸ hb) }

theorem fake_width {r : R} {sv : Option Nat} {S : Nat → Bytes} (hW : WInv (fakeW r sv) S) (m : Nat)
    (hm : r.hi = 257 + m) : Spec.LZW.codeLen r.ec (257 + m) = r.width := by
  have := winv_width hW
  simpa [fakeW, hm] using this

theorem fake_width_next {r : R} {sv : Option Nat} {S : Nat → Bytes} (hW : WInv (fakeW r sv) S) (m : Nat)
    (hm : r.hi = 257 + m) :
    Spec.LZW.codeLen r.ec (257 + m + 1) = (if r.hi + 1 + r.ec = r.overflow then r.width + 1 else r.width) := by
  have := winv_width_next hW
  simpa [fakeW, hm] using this

/-- **Simulation step for the reference encoder**: it writes the code of its current match
    (and a clear code if its table is full); the library's reader outputs the match and is in
    step with the encoder's next state. -/
theorem esim_emit {tab : List Bytes} {m : Nat} {cur : Bytes} {code : Nat} {r : R} {S : Nat → Bytes}
    (h : ESim tab m cur (some code) r S) (b : Nat) (hb : b < 256) :
    ∃ r1 S1, r1.ec = r.ec ∧
      (if 257 + m + 1 + r.ec ≥ 4095 then ESim [] 0 [b] (some b) r1 S1
       else ESim (tab ++ [cur ++ [b]]) (m + 1) [b] (some b) r1 S1) ∧
      ∀ rest, decBits r r.width 0
          (Spec.LZW.bitsOf (Spec.LZW.codeLen r.ec (257 + m)) code ++
            ((if 257 + m + 1 + r.ec ≥ 4095 then Spec.LZW.bitsOf (Spec.LZW.codeLen r.ec (257 + m + 1)) 256 else []) ++ rest)) =
        DecRes.pre cur (decBits r1 r1.width 0 rest) := by
  obtain ⟨hne, hcode, hScode⟩ := h.curv
  have hS := h.sim
  have hW := h.winv
  obtain ⟨r1, hsim1, hS1b, hread⟩ := emit_sim hS code b rfl hb
  have hw0 := fake_width hW m h.hi_m
  have hw1 := fake_width_next hW m h.hi_m
  have hmax : r.hi + r.ec < 4095 := hS.hi_max
  have hec1 : r1.ec = r.ec := by
    rw [← hsim1.ec_eq, afterMiss_ec]; rfl
  have hm := h.hi_m
  by_cases hfull : r.hi + 1 + r.ec = 4095
  · have hfull' : 257 + m + 1 + r.ec ≥ 4095 := by omega
    obtain ⟨hAM, hW'⟩ := winv_miss_full hW code b hb hfull
    have hnS : nextS (fakeW r (some code)) S code b = S := by
      unfold nextS; exact if_pos hfull
    rw [hnS] at hsim1 hS1b
    refine ⟨r1, S, hec1, ?_, ?_⟩
    · rw [if_pos hfull']
      have hsv : (afterMiss (fakeW r (some code)) code b).saved = some b := afterMiss_saved _ _ _
      have hsimf := sim_to_fake hsim1
      have hwf := winv_to_fake hsim1 hW'
      rw [hsv] at hsimf hwf
      refine { sim := hsimf, winv := hwf, hi_m := ?_, tlen := rfl, tget := by intro i hi; omega,
               curv := ⟨by simp, rfl, hS1b⟩ }
      rw [← hsim1.hi_eq, hAM]; rfl
    · intro rest
      rw [if_pos hfull', hw0, hw1, bitsOf_eq_toBits, bitsOf_eq_toBits]
      have := hread rest
      rw [incHi_full _ hfull, hScode, List.append_assoc] at this
      exact this
  · have hfull' : ¬ 257 + m + 1 + r.ec ≥ 4095 := by omega
    obtain ⟨hAM, hW'⟩ := winv_miss hW code b rfl hb hfull
    have hnS : nextS (fakeW r (some code)) S code b = updS S (r.hi + 1) (S code ++ [b]) := by
      unfold nextS; exact if_neg hfull
    rw [hnS] at hsim1 hS1b
    refine ⟨r1, updS S (r.hi + 1) (S code ++ [b]), hec1, ?_, ?_⟩
    · rw [if_neg hfull']
      have hsv : (afterMiss (fakeW r (some code)) code b).saved = some b := afterMiss_saved _ _ _
      have hsimf := sim_to_fake hsim1
      have hwf := winv_to_fake hsim1 hW'
      rw [hsv] at hsimf hwf
      have hhi1 : r1.hi = 257 + (m + 1) := by
        rw [← hsim1.hi_eq, hAM]
        show r.hi + 1 = 257 + (m + 1)
        omega
      refine { sim := hsimf, winv := hwf, hi_m := hhi1, tlen := by simp [h.tlen], tget := ?_,
               curv := ⟨by simp, rfl, hS1b⟩ }
      intro i hi
      by_cases hi' : i < m
      · rw [List.getElem?_append_left (by rw [h.tlen]; exact hi'), h.tget i hi']
        have : updS S (r.hi + 1) (S code ++ [b]) (258 + i) = S (258 + i) := by
          unfold updS; exact if_neg (by omega)
        rw [this]
      · have hie : i = m := by omega
        rw [List.getElem?_append_right (by rw [h.tlen]; omega), h.tlen, hie, Nat.sub_self]
        have : updS S (r.hi + 1) (S code ++ [b]) (258 + m) = S code ++ [b] := by
          unfold updS; exact if_pos (by omega)
        rw [this, hScode]
        rfl
    · intro rest
      rw [if_neg hfull', hw0, bitsOf_eq_toBits]
      have := hread rest
      rw [incHi_notfull _ hfull, hScode] at this
      simp only [List.append_nil, List.nil_append] at this ⊢
      exact this

theorem read_eof (r : R) (n : Nat) (tl : Bits) (hw : r.width = n) (h9 : 9 ≤ n) :
    decBits r r.width 0 (toBits n LZW.eof ++ tl) = ([], none) := by
  rw [hw, decBits_read r n LZW.eof tl (by omega)
    (by rw [eof_eq]; exact Nat.lt_of_lt_of_le (by decide : 257 < 2 ^ 9) (Nat.pow_le_pow_right (by decide) h9)),
    afterCode, stepCode_eof]

/-- end of the input: the encoder writes the code of its match and the EOD code (no clear code,
    even if its table has just become full — unlike the library's writer) -/
theorem esim_close {tab : List Bytes} {m : Nat} {cur : Bytes} {sv : Option Nat} {r : R} {S : Nat → Bytes}
    (h : ESim tab m cur sv r S) (tl : Bits) :
    decBits r r.width 0 (Spec.LZW.encodeAux r.ec tab m cur [] ++ tl) = (cur, none) := by
  have hS := h.sim
  have hW := h.winv
  have hw0 := fake_width hW m h.hi_m
  have hw1 := fake_width_next hW m h.hi_m
  have h9 : 9 ≤ r.width := hS.w_lo
  cases sv with
  | none =>
    have hc : cur = [] := h.curv
    subst hc
    rw [Spec.LZW.encodeAux, hw0, bitsOf_eq_toBits]
    exact read_eof r r.width tl rfl h9
  | some code =>
    obtain ⟨hne, hcode, hScode⟩ := h.curv
    obtain ⟨r', hread, hw'⟩ := read_code hS code rfl
    cases cur with
    | nil => exact absurd rfl hne
    | cons a as =>
      rw [Spec.LZW.encodeAux]
      rotate_left
      · intro hh; cases hh
      simp only [hcode, hw0, hw1, bitsOf_eq_toBits]
      rw [List.append_assoc]
      have := hread (toBits (if r.hi + 1 + r.ec = r.overflow then r.width + 1 else r.width) 257 ++ tl)
      rw [show (fakeW r (some code)).width = r.width from rfl] at this
      rw [this, hScode]
      have h9' : 9 ≤ (if r.hi + 1 + r.ec = r.overflow then r.width + 1 else r.width) := by split <;> omega
      have hw'' : r'.width = (if r.hi + 1 + r.ec = r.overflow then r.width + 1 else r.width) := hw'
      have := read_eof r' _ tl hw'' h9'
      rw [eof_eq] at this
      rw [this]; simp

/-- **Simulation**: the library's reader turns everything the reference encoder still writes
    into the current match followed by the remaining input. -/
theorem esim_run (xs : Bytes) (hx : AllBytes xs) : ∀ (tab : List Bytes) (m : Nat) (cur : Bytes) (sv : Option Nat)
    (r : R) (S : Nat → Bytes), ESim tab m cur sv r S → ∀ tl,
    decBits r r.width 0 (Spec.LZW.encodeAux r.ec tab m cur xs ++ tl) = (cur ++ xs, none) := by
  induction xs with
  | nil => intro tab m cur sv r S h tl; rw [esim_close h tl]; simp
  | cons b bs ih =>
    intro tab m cur sv r S h tl
    have hb : b < 256 := by simp at hx; exact hx.1
    have hbs : AllBytes bs := by simp at hx; exact hx.2
    cases sv with
    | none =>
      have hc : cur = [] := h.curv
      subst hc
      rw [Spec.LZW.encodeAux]
      exact ih hbs tab m [b] (some b) r S (esim_first h b hb) tl
    | some code =>
      obtain ⟨hne, hcode, hScode⟩ := h.curv
      cases cur with
      | nil => exact absurd rfl hne
      | cons a as =>
        rw [Spec.LZW.encodeAux]
        rotate_left
        · intro hh; cases hh
        cases hc : Spec.LZW.codeOf tab (a :: as ++ [b]) with
        | some c =>
          simp only []
          have := ih hbs tab m (a :: as ++ [b]) (some c) r S (esim_hit h b c hc) tl
          rw [this]; simp
        | none =>
          simp only [hcode]
          obtain ⟨r1, S1, hec, hes, hread⟩ := esim_emit h b hb
          by_cases hfull : 257 + m + 1 + r.ec ≥ 4095
          · rw [if_pos hfull] at hes ⊢
            have hr := hread (Spec.LZW.encodeAux r.ec [] 0 [b] bs ++ tl)
            rw [if_pos hfull] at hr
            simp only [List.append_assoc] at hr ⊢
            rw [hr, ← hec, ih hbs [] 0 [b] (some b) r1 S1 hes tl]
            simp
          · rw [if_neg hfull] at hes ⊢
            have hr := hread (Spec.LZW.encodeAux r.ec (tab ++ [a :: as ++ [b]]) (m + 1) [b] bs ++ tl)
            rw [if_neg hfull] at hr
            simp only [List.append_assoc, List.nil_append] at hr ⊢
            rw [hr, ← hec, ih hbs _ (m + 1) [b] (some b) r1 S1 hes tl]
            simp

theorem packBytes_eq (bits : Bits) : ∀ fuel, bits.length ≤ fuel → Spec.LZW.packBytes fuel bits = bitsToBytes bits := by
  induction bits using bitsToBytes.induct with
  | case1 => intro fuel _; cases fuel <;> simp [Spec.LZW.packBytes, bitsToBytes]
  | case2 b0 b1 b2 b3 b4 b5 b6 b7 rest ih =>
    intro fuel hf
    obtain ⟨f, rfl⟩ : ∃ f, fuel = f + 1 := ⟨fuel - 1, by simp at hf; omega⟩
    rw [Spec.LZW.packBytes, bitsToBytes_eight]
    · simp only [List.take, List.drop, List.length_cons, List.length_nil, Nat.reduceAdd, Nat.sub_self,
        List.replicate, List.append_nil, natOf_eq_ofBits]
      rw [ih f (by simp at hf; omega)]
    · intro hh; cases hh
  | case3 short h1 h2 =>
    intro fuel hf
    rcases short with _ | ⟨b0, _ | ⟨b1, _ | ⟨b2, _ | ⟨b3, _ | ⟨b4, _ | ⟨b5, _ | ⟨b6, _ | ⟨b7, rest⟩⟩⟩⟩⟩⟩⟩⟩
    · exact absurd rfl h1
    all_goals first
      | exact absurd rfl (h2 _ _ _ _ _ _ _ _ _)
      | (obtain ⟨f, rfl⟩ : ∃ f, fuel = f + 1 := ⟨fuel - 1, by simp at hf; omega⟩
         cases f <;>
         simp [Spec.LZW.packBytes, bitsToBytes, natOf_eq_ofBits])

theorem esim_init (early : Bool) : ESim [] 0 [] none (R.init early) S0 :=
  { sim := sim_init early, winv := (sim2_init early).winv, hi_m := rfl, tlen := rfl,
    tget := by intro i hi; omega, curv := rfl }

/-- **The library's LZW reader reads what the reference encoder writes**, for every byte string
    and both `EarlyChange` settings (the reference encoder keeps a list of strings, searches it
    linearly, and — unlike the library — never sends a clear code right before EOD). -/
theorem model_reads_spec_lzw (early : Bool) (x : Bytes) (hx : AllBytes x) :
    decode early (Spec.LZW.encode early x) = (x, none) := by
  unfold Spec.LZW.encode
  simp only []
  rw [packBytes_eq _ _ (Nat.le_refl _)]
  unfold decode
  rw [bitpack_rt, bitsOf_eq_toBits, List.append_assoc]
  have hclr : stepCode (R.init early) clear = .cont (R.init early) [] := by
    simp [stepCode, R.init]
  have hec : (if early = true then 1 else 0) = (R.init early).ec := rfl
  rw [hec]
  have h256 : (256 : Nat) = clear := rfl
  rw [h256, show initWidth = 9 from rfl, decBits_read (R.init early) 9 clear _ (by decide) (by decide), afterCode, hclr]
  dsimp only
  rw [show (R.init early).width = 9 from rfl]
  have := esim_run x hx [] 0 [] none (R.init early) S0 (esim_init early)
  rw [show (R.init early).width = 9 from rfl] at this
  rw [this]
  simp

example : decode false (Spec.LZW.encode false [97, 97, 97, 97, 97, 97, 97, 98, 97, 98, 97, 98]) =
    ([97, 97, 97, 97, 97, 97, 97, 98, 97, 98, 97, 98], none) := by decide +kernel

end PdfVerif.C07faL

import PdfVerif.Model.TRSPageTree
import PdfVerif.Spec.TRSDoc
/-!
# C16 — page tree keeps page order, counts and effective attributes: property theorems

Statements are about `Model/TRSPageTree.lean` (pagetree/{writer,subtree,future}.go) and the
specification of nested ranges in `Spec/TRSDoc.lean`.  `maxDegree` comes from the regenerated
`Generated/FactsTRS.lean`.
-/
namespace PdfVerif.C16trs
open PdfVerif PdfVerif.TRSP
set_option linter.unusedSectionVars false

theorem maxDegree_ge_two : 2 ≤ maxDegree := by decide

/-! ## what a reader sees: effective attributes after inheritance -/

/-- own value, else the inherited one -/
def orE {α : Type} : Option α → Option α → Option α
  | some x, _ => some x
  | none, y => y

/-- the inheritable attributes in force below a node with attributes `own` that itself
    inherits `inh` (read.go: `inherited[name] = node[name]` where present) -/
def resolve (own inh : Attrs) : Attrs :=
  { mediaBox := orE own.mediaBox inh.mediaBox, cropBox := orE own.cropBox inh.cropBox,
    rotate := orE own.rotate inh.rotate, aa := orE own.aa inh.aa }

/-- value of an optional /Rotate: absent means 0 -/
def rotVal (r : Option Bytes) : Bytes :=
  match r with
  | some x => x
  | none => rotDefault

/-- a page's effective attributes: a missing /Rotate is the default 0 -/
def normA (a : Attrs) : Attrs := { a with rotate := some (rotVal a.rotate) }

mutual
/-- the pages below a node in order, each with its effective attributes, when the node
    inherits `inh` from above -/
def effPages (inh : Attrs) : PTree → List (Nat × Attrs)
  | .page id _ a => [(id, normA (resolve a inh))]
  | .pages _ _ kids _ a => effList (resolve a inh) kids
def effList (inh : Attrs) : List PTree → List (Nat × Attrs)
  | [] => []
  | k :: ks => effPages inh k ++ effList inh ks
end

/-- the same, in terms of the attributes in force at the node itself -/
def effTop (x : Attrs) : PTree → List (Nat × Attrs)
  | .page id _ _ => [(id, normA x)]
  | .pages _ _ kids _ _ => effList x kids

theorem effPages_eq_effTop (inh : Attrs) (t : PTree) : effPages inh t = effTop (resolve t.attrs inh) t := by
  cases t <;> simp [effPages, effTop, PTree.attrs]

theorem effTop_setTop (x : Attrs) (p : Nat) (a : Attrs) (t : PTree) :
    effTop x (t.setTop p a) = effTop x t := by
  cases t <;> simp [effTop, PTree.setTop]

theorem attrs_setTop (p : Nat) (a : Attrs) (t : PTree) : (t.setTop p a).attrs = a := by
  cases t <;> simp [PTree.setTop, PTree.attrs]

/-- two attribute sets a reader cannot tell apart: equal up to "/Rotate absent = 0" -/
def AEq (x y : Attrs) : Prop :=
  x.mediaBox = y.mediaBox ∧ x.cropBox = y.cropBox ∧ x.aa = y.aa ∧ rotVal x.rotate = rotVal y.rotate

theorem AEq.refl (x : Attrs) : AEq x x := ⟨rfl, rfl, rfl, rfl⟩

theorem rotVal_orE (a x y : Option Bytes) (h : rotVal x = rotVal y) : rotVal (orE a x) = rotVal (orE a y) := by
  cases a <;> simp [orE, h]

theorem AEq.resolve (a : Attrs) {x y : Attrs} (h : AEq x y) : AEq (resolve a x) (resolve a y) := by
  obtain ⟨h1, h2, h3, h4⟩ := h
  exact ⟨by simp [C16trs.resolve, h1], by simp [C16trs.resolve, h2], by simp [C16trs.resolve, h3],
    rotVal_orE _ _ _ h4⟩

theorem normA_congr {x y : Attrs} (h : AEq x y) : normA x = normA y := by
  obtain ⟨h1, h2, h3, h4⟩ := h
  cases x; cases y
  simp [normA] at *
  simp [h1, h2, h3, h4]

mutual
theorem effPages_congr : ∀ (t : PTree) {x y : Attrs}, AEq x y → effPages x t = effPages y t
  | .page id _ a, x, y, h => by simp [effPages, normA_congr (h.resolve a)]
  | .pages _ _ kids _ a, x, y, h => by
    simp only [effPages]; exact effList_congr kids (h.resolve a)
theorem effList_congr : ∀ (ks : List PTree) {x y : Attrs}, AEq x y → effList x ks = effList y ks
  | [], _, _, _ => rfl
  | k :: ks, x, y, h => by
    simp only [effList]; rw [effPages_congr k h, effList_congr ks h]
end

theorem effTop_congr (t : PTree) {x y : Attrs} (h : AEq x y) : effTop x t = effTop y t := by
  cases t with
  | page id p a => simp [effTop, normA_congr h]
  | pages id p kids n a => simp only [effTop]; exact effList_congr kids h

theorem orE_none {α : Type} (x : Option α) : orE x none = x := by cases x <;> rfl

theorem resolve_empty (a : Attrs) : resolve a {} = a := by
  cases a with
  | mk m c r aa => simp [resolve, orE_none]

/-! ## attribute hoisting never changes an effective attribute -/

theorem allSomeB_some {vals : List (Option Bytes)} {reprs : List Bytes} (h : allSomeB vals = some reprs) :
    ∀ v ∈ vals, ∃ x, v = some x := by
  induction vals generalizing reprs with
  | nil => simp
  | cons v rest ih =>
    cases v with
    | none => simp [allSomeB] at h
    | some x =>
      simp only [allSomeB] at h
      cases hr : allSomeB rest with
      | none => simp [hr] at h
      | some xs =>
        intro w hw
        simp at hw
        rcases hw with rfl | hw
        · exact ⟨x, rfl⟩
        · exact ih hr w hw

/-- `inheritKey` moves a value to the parent only if every child has one -/
theorem inheritKeyChoice_some {l : Nat} {hint : Option Bytes} {vals : List (Option Bytes)} {b : Bytes}
    (h : inheritKeyChoice l hint vals = some b) : ∀ v ∈ vals, ∃ x, v = some x := by
  unfold inheritKeyChoice at h
  cases hs : allSomeB vals with
  | none => simp [hs] at h
  | some reprs => exact allSomeB_some hs

/-- `inheritKey`: what a child sees after the call is what it had before -/
theorem inheritKey_effective (l : Nat) (hint : Option Bytes) (vals : List (Option Bytes)) :
    ∀ v ∈ vals, orE (childAfterKey (inheritKeyChoice l hint vals) v) (inheritKeyChoice l hint vals) = v := by
  intro v hv
  cases hc : inheritKeyChoice l hint vals with
  | none => cases v <;> simp [childAfterKey, orE]
  | some b =>
    obtain ⟨x, rfl⟩ := inheritKeyChoice_some hc v hv
    by_cases hx : x = b
    · simp [childAfterKey, orE, hx]
    · simp [childAfterKey, orE, hx]

/-- `inheritRotate`: whatever value is chosen for the parent, every child's effective /Rotate
    (absent = 0) is what it was before -/
theorem inheritRotate_effective (best : Bytes) (numDefault : Nat) (v : Option Bytes) :
    rotVal (orE (childAfterRotate best v) (parentRotate best numDefault)) = rotVal v := by
  by_cases hb : best = rotDefault
  · subst hb
    cases v with
    | none => simp [childAfterRotate, parentRotate, orE]; split <;> simp [rotVal]
    | some r =>
      by_cases hr : r = rotDefault
      · subst hr; simp [childAfterRotate, parentRotate, orE]; split <;> simp [rotVal]
      · simp [childAfterRotate, hr, orE, rotVal]
  · have hb' : (best == rotDefault) = false := by simpa using hb
    cases v with
    | none =>
      simp only [childAfterRotate, parentRotate, hb', rotRepr]
      have : (rotDefault == best) = false := by simp; exact fun h => hb h.symm
      simp [this, orE, rotVal]
    | some r =>
      simp only [childAfterRotate, parentRotate, hb', rotRepr]
      by_cases h1 : r = best
      · subst h1; simp [orE, rotVal]
      · by_cases h2 : r = rotDefault
        · subst h2; simp [h1, orE, rotVal]
        · simp [h1, h2, orE, rotVal]

/-- **hoisting is invisible**: for every child, the attributes in force at the child after
    `inherit` (its own, else the new parent's) equal those it had, up to "/Rotate absent = 0";
    this holds for every choice the map iteration may make (`hint`) -/
theorem inherit_effective (old : Bool) (hint : Hint) (kids : List Attrs) :
    ∀ a ∈ kids, AEq (resolve (childAttrs (inheritChoice old hint kids) a)
      (parentAttrs (inheritChoice old hint kids))) a := by
  intro a ha
  refine ⟨?_, ?_, ?_, ?_⟩
  · exact inheritKey_effective lMediaBox hint.mediaBox (kids.map (·.mediaBox)) a.mediaBox
      (List.mem_map_of_mem ha)
  · exact inheritKey_effective lCropBox hint.cropBox (kids.map (·.cropBox)) a.cropBox
      (List.mem_map_of_mem ha)
  · simp only [resolve, childAttrs, parentAttrs, inheritChoice]
    cases old with
    | false => cases a.aa <;> simp [childAfterKey, orE]
    | true => exact inheritKey_effective lAA hint.aa (kids.map (·.aa)) a.aa (List.mem_map_of_mem ha)
  · exact inheritRotate_effective _ _ a.rotate

/-! ## structure of the written tree -/

def PTree.parent : PTree → Option Nat
  | .page _ p _ => p
  | .pages _ p _ _ _ => p

mutual
/-- number of leaf pages below a node -/
def numLeaves : PTree → Nat
  | .page _ _ _ => 1
  | .pages _ _ kids _ _ => numLeavesList kids
def numLeavesList : List PTree → Nat
  | [] => 0
  | k :: ks => numLeaves k + numLeavesList ks
end

mutual
/-- every `/Pages` node below (and including) this one has between 1 and `maxDegree` kids,
    a `/Count` equal to the number of leaf pages below it, and is the `/Parent` of its kids -/
def TreeOK : PTree → Prop
  | .page _ _ _ => True
  | .pages id _ kids count _ =>
    1 ≤ kids.length ∧ kids.length ≤ maxDegree ∧ count = numLeavesList kids ∧ KidsOK (some id) kids
def KidsOK (parent : Option Nat) : List PTree → Prop
  | [] => True
  | k :: ks => PTree.parent k = parent ∧ TreeOK k ∧ KidsOK parent ks
end

mutual
theorem effPages_length (inh : Attrs) : ∀ t : PTree, (effPages inh t).length = numLeaves t
  | .page _ _ _ => by simp [effPages, numLeaves]
  | .pages _ _ kids _ a => by simp only [effPages, numLeaves]; exact effList_length _ kids
theorem effList_length (inh : Attrs) : ∀ ks : List PTree, (effList inh ks).length = numLeavesList ks
  | [] => by simp [effList, numLeavesList]
  | k :: ks => by
    simp only [effList, numLeavesList, List.length_append]
    rw [effPages_length inh k, effList_length inh ks]
end

/-- a node of a writer's `tail` -/
structure NodeOK (n : PNode) : Prop where
  tree : TreeOK n.tree
  count : n.count = numLeaves n.tree
  top : PTree.parent n.tree = none      -- not yet the kid of anything

/-- the pages held by a list of nodes, in order, with their effective attributes -/
def pagesOf : List PNode → List (Nat × Attrs)
  | [] => []
  | n :: ns => effPages {} n.tree ++ pagesOf ns

theorem pagesOf_append (a b : List PNode) : pagesOf (a ++ b) = pagesOf a ++ pagesOf b := by
  induction a with
  | nil => simp [pagesOf]
  | cons x xs ih => simp [pagesOf, ih]

theorem treeOK_setTop (p : Nat) (a : Attrs) (t : PTree) (h : TreeOK t) : TreeOK (t.setTop p a) := by
  cases t with
  | page => simp [PTree.setTop, TreeOK]
  | pages id q kids n b => simpa [PTree.setTop, TreeOK] using h

theorem parent_setTop (p : Nat) (a : Attrs) (t : PTree) : PTree.parent (t.setTop p a) = some p := by
  cases t <;> simp [PTree.setTop, PTree.parent]

theorem numLeaves_setTop (p : Nat) (a : Attrs) (t : PTree) : numLeaves (t.setTop p a) = numLeaves t := by
  cases t <;> simp [PTree.setTop, numLeaves]

/-- the kids `mergeNodes` builds show, under the new parent, exactly the pages the children
    showed before -/
theorem effList_kids (ch : Choice) (pa : Attrs) (p : Nat) :
    ∀ (cs : List PNode), (∀ n ∈ cs, AEq (resolve (childAttrs ch n.tree.attrs) pa) n.tree.attrs) →
      effList pa (cs.map fun n => n.tree.setTop p (childAttrs ch n.tree.attrs)) = pagesOf cs
  | [], _ => by simp [effList, pagesOf]
  | n :: cs, h => by
    simp only [List.map_cons, effList, pagesOf]
    rw [effList_kids ch pa p cs (fun m hm => h m (by simp [hm]))]
    congr 1
    rw [effPages_eq_effTop, effPages_eq_effTop, attrs_setTop, effTop_setTop, resolve_empty]
    exact effTop_congr _ (h n (by simp))

theorem kidsOK_map (ch : Choice) (p : Nat) : ∀ (cs : List PNode), (∀ n ∈ cs, NodeOK n) →
    KidsOK (some p) (cs.map fun n => n.tree.setTop p (childAttrs ch n.tree.attrs))
  | [], _ => by simp [KidsOK]
  | n :: cs, h => by
    simp only [List.map_cons, KidsOK]
    exact ⟨parent_setTop _ _ _, treeOK_setTop _ _ _ (h n (by simp)).tree,
      kidsOK_map ch p cs (fun m hm => h m (by simp [hm]))⟩

theorem numLeavesList_map (ch : Choice) (p : Nat) : ∀ (cs : List PNode), (∀ n ∈ cs, NodeOK n) →
    numLeavesList (cs.map fun n => n.tree.setTop p (childAttrs ch n.tree.attrs)) = sumCounts cs
  | [], _ => by simp [numLeavesList, sumCounts]
  | n :: cs, h => by
    simp only [List.map_cons, numLeavesList, sumCounts, numLeaves_setTop]
    rw [numLeavesList_map ch p cs (fun m hm => h m (by simp [hm])), (h n (by simp)).count]

/-- **mergeNodes**: when it does not panic, the range was valid (2..maxDegree nodes), the new
    `/Pages` node shows the same pages with the same effective attributes in the same order,
    its `/Count`, fan-out and `/Parent` links are right, and nothing else changed -/
theorem mergeNodes_spec {nodes nodes' : List PNode} {a b : Nat} {c c' : MCtx}
    (h : mergeNodes nodes a b c = .ok (nodes', c')) :
    pagesOf nodes' = pagesOf nodes ∧
    ((∀ n ∈ nodes, NodeOK n) → ∀ n ∈ nodes', NodeOK n) ∧
    a + 2 ≤ b ∧ b ≤ a + maxDegree ∧ b ≤ nodes.length ∧
    nodes'.length + (b - a) = nodes.length + 1 ∧ c'.old = c.old ∧
    ∃ m : PNode, nodes' = nodes.take a ++ m :: nodes.drop b ∧
      m.depth = maxDepthOf ((nodes.drop a).take (b - a)) + 1 := by
  unfold mergeNodes at h
  by_cases hr : b > nodes.length ∨ b < a + 2 ∨ b > a + maxDegree
  · simp [hr] at h
  · simp only [hr, if_false] at h
    have hr1 : b ≤ nodes.length := by omega
    have hr2 : a + 2 ≤ b := by omega
    have hr3 : b ≤ a + maxDegree := by omega
    generalize hch : (nodes.drop a).take (b - a) = children at h
    have hsplit : nodes = nodes.take a ++ (children ++ nodes.drop b) := by
      have e1 : nodes.drop b = (nodes.drop a).drop (b - a) := by
        rw [List.drop_drop]; congr 1; omega
      rw [← hch, e1, List.take_append_drop, List.take_append_drop]
    have hlen : children.length = b - a := by
      rw [← hch, List.length_take, List.length_drop]; omega
    simp only [Except.ok.injEq, Prod.mk.injEq] at h
    obtain ⟨h1, h2⟩ := h
    subst h1 h2
    generalize hchoice : inheritChoice c.old (nextHint c.hints) (children.map (·.tree.attrs)) = ch
    have heff : ∀ n ∈ children, AEq (resolve (childAttrs ch n.tree.attrs) (parentAttrs ch)) n.tree.attrs := by
      intro n hn
      rw [← hchoice]
      exact inherit_effective _ _ _ n.tree.attrs (List.mem_map_of_mem hn)
    refine ⟨?_, ?_, hr2, hr3, hr1, ?_, rfl, _, rfl, rfl⟩
    · conv => rhs; rw [hsplit]
      simp only [pagesOf_append, pagesOf]
      congr 1
      congr 1
      simp only [effPages, resolve_empty]
      exact effList_kids ch (parentAttrs ch) c.alloc children heff
    · intro hok n hn
      have hchok : ∀ n ∈ children, NodeOK n := by
        intro m hm; apply hok; rw [hsplit]; simp [hm]
      simp only [List.mem_append, List.mem_cons] at hn
      rcases hn with hn | rfl | hn
      · exact hok n (List.mem_of_mem_take hn)
      · refine ⟨?_, ?_, rfl⟩
        · simp only [TreeOK, List.length_map]
          refine ⟨by omega, by omega, ?_, kidsOK_map ch c.alloc children hchok⟩
          exact (numLeavesList_map ch c.alloc children hchok).symm
        · simp only [numLeaves]
          exact (numLeavesList_map ch c.alloc children hchok).symm
      · exact hok n (List.mem_of_mem_drop hn)
    · have : nodes.length = (nodes.take a).length + (children.length + (nodes.drop b).length) := by
        conv => lhs; rw [hsplit]
        simp
      simp only [List.length_append, List.length_cons]
      omega

/-! ## the loops only ever call `mergeNodes` -/

/-- `t'` holds the same pages as `t` (same order, same effective attributes) and is
    structurally sound if `t` was -/
structure Same (t t' : List PNode) : Prop where
  pages : pagesOf t' = pagesOf t
  ok : (∀ n ∈ t, NodeOK n) → ∀ n ∈ t', NodeOK n

theorem Same.refl (t : List PNode) : Same t t := ⟨rfl, fun h => h⟩
theorem Same.trans {a b c : List PNode} (h1 : Same a b) (h2 : Same b c) : Same a c :=
  ⟨h2.pages.trans h1.pages, fun h => h2.ok (h1.ok h)⟩

theorem mergeNodes_same {nodes nodes' : List PNode} {a b : Nat} {c c' : MCtx}
    (h : mergeNodes nodes a b c = .ok (nodes', c')) : Same nodes nodes' ∧ c'.old = c.old :=
  let ⟨h1, h2, _, _, _, _, h7, _⟩ := mergeNodes_spec h
  ⟨⟨h1, h2⟩, h7⟩

theorem appendLoop_same : ∀ (fuel : Nat) (t : List PNode) (c : MCtx) (t' : List PNode) (c' : MCtx),
    appendLoop fuel t c = .ok (t', c') → Same t t' ∧ c'.old = c.old
  | 0, _, _, _, _, h => by simp [appendLoop] at h
  | fuel + 1, t, c, t', c', h => by
    unfold appendLoop at h
    dsimp only at h
    split at h
    · cases h; exact ⟨Same.refl _, rfl⟩
    · split at h
      · split at h
        · cases h; exact ⟨Same.refl _, rfl⟩
        · split at h
          · cases h
          · rename_i t1 c1 hm
            obtain ⟨s1, o1⟩ := mergeNodes_same hm
            obtain ⟨s2, o2⟩ := appendLoop_same fuel t1 c1 t' c' h
            exact ⟨s1.trans s2, o2.trans o1⟩
      · cases h

theorem mergeTrailing_same {a a' : List PNode} {c c' : MCtx} (h : mergeTrailing a c = .ok (a', c')) :
    Same a a' ∧ c'.old = c.old ∧ a'.length < a.length ∧ 1 ≤ a'.length := by
  unfold mergeTrailing at h
  dsimp only at h
  split at h
  · cases h
  · obtain ⟨h1, h2, h3, _, h5, h6, h7, _⟩ := mergeNodes_spec h
    exact ⟨⟨h1, h2⟩, h7, by omega, by omega⟩

theorem collapse_same : ∀ (fuel : Nat) (t : List PNode) (c : MCtx) (t' : List PNode) (c' : MCtx),
    collapse fuel t c = .ok (t', c') → Same t t' ∧ c'.old = c.old ∧ t'.length ≤ 1 ∧ (t ≠ [] → t' ≠ [])
  | 0, _, _, _, _, h => by simp [collapse] at h
  | fuel + 1, t, c, t', c', h => by
    unfold collapse at h
    split at h
    · rename_i hl
      cases h; exact ⟨Same.refl _, rfl, hl, fun h => h⟩
    · split at h
      · cases h
      · rename_i t1 c1 hm
        obtain ⟨s1, o1, _, l1⟩ := mergeTrailing_same hm
        obtain ⟨s2, o2, l2, n2⟩ := collapse_same fuel t1 c1 t' c' h
        refine ⟨s1.trans s2, o2.trans o1, l2, fun _ => n2 ?_⟩
        intro h0; simp [h0] at l1

theorem mergeLoop1_same : ∀ (fuel : Nat) (a : List PNode) (nd : Nat) (c : MCtx) (a' : List PNode) (c' : MCtx),
    mergeLoop1 fuel a nd c = .ok (a', c') → Same a a' ∧ c'.old = c.old ∧ (a ≠ [] → a' ≠ [])
  | 0, _, _, _, _, _, h => by simp [mergeLoop1] at h
  | fuel + 1, a, nd, c, a', c', h => by
    unfold mergeLoop1 at h
    split at h
    · cases h; exact ⟨Same.refl _, rfl, fun h => h⟩
    · split at h
      · cases h
      · split at h
        · split at h
          · cases h
          · rename_i a1 c1 hm
            obtain ⟨s1, o1, _, l1⟩ := mergeTrailing_same hm
            obtain ⟨s2, o2, n2⟩ := mergeLoop1_same fuel a1 nd c1 a' c' h
            refine ⟨s1.trans s2, o2.trans o1, fun _ => n2 ?_⟩
            intro h0; simp [h0] at l1
        · cases h; exact ⟨Same.refl _, rfl, fun h => h⟩

theorem mergeInner_same : ∀ (fuel : Nat) (a : List PNode) (start stop : Nat) (ch : Bool) (c : MCtx)
    (r : List PNode × Nat × Nat × Bool × MCtx),
    mergeInner fuel a start stop ch c = .ok r → Same a r.1 ∧ r.2.2.2.2.old = c.old
  | 0, _, _, _, _, _, _, h => by simp [mergeInner] at h
  | fuel + 1, a, start, stop, ch, c, r, h => by
    unfold mergeInner at h
    split at h
    · split at h
      · cases h
      · rename_i a1 c1 hm
        obtain ⟨s1, o1⟩ := mergeNodes_same hm
        obtain ⟨s2, o2⟩ := mergeInner_same fuel a1 _ _ _ c1 r h
        exact ⟨s1.trans s2, o2.trans o1⟩
    · cases h; exact ⟨Same.refl _, rfl⟩

theorem mergeDepthLoop_same : ∀ (fuel : Nat) (a : List PNode) (start stop depth pd : Nat) (c : MCtx)
    (a' : List PNode) (c' : MCtx),
    mergeDepthLoop fuel a start stop depth pd c = .ok (a', c') → Same a a' ∧ c'.old = c.old
  | 0, _, _, _, _, _, _, _, _, h => by simp [mergeDepthLoop] at h
  | fuel + 1, a, start, stop, depth, pd, c, a', c', h => by
    unfold mergeDepthLoop at h
    split at h
    · cases h
    · rename_i a1 s1 e1 ch1 c1 hm
      obtain ⟨sm, om⟩ := mergeInner_same _ _ _ _ _ _ _ hm
      split at h
      · cases h; exact ⟨sm, om⟩
      · obtain ⟨s2, o2⟩ := mergeDepthLoop_same fuel a1 _ _ _ _ c1 a' c' h
        exact ⟨sm.trans s2, o2.trans om⟩

theorem same_append_right {a a' : List PNode} (b : List PNode) (h : Same a a') : Same (a ++ b) (a' ++ b) :=
  ⟨by simp [pagesOf_append, h.pages], fun hok n hn => by
    simp only [List.mem_append] at hn
    rcases hn with hn | hn
    · exact h.ok (fun m hm => hok m (by simp [hm])) n hn
    · exact hok n (by simp [hn])⟩

theorem liftSingle_same (a : List PNode) (nd : Nat) : Same a (liftSingle a nd) := by
  unfold liftSingle
  split
  · rename_i y
    split
    · refine ⟨by simp [pagesOf], fun hok n hn => ?_⟩
      simp at hn; subst hn
      have := hok y (by simp)
      exact ⟨this.tree, this.count, this.top⟩
    · exact Same.refl _
  · exact Same.refl _

theorem mergeJoin_same {a b r : List PNode} {nd : Nat} {c c' : MCtx}
    (h : mergeJoin a b nd c = .ok (r, c')) : Same (a ++ b) r ∧ c'.old = c.old := by
  unfold mergeJoin at h
  split at h
  · cases h
  · exact mergeDepthLoop_same _ _ _ _ _ _ _ _ _ h

/-- **merge**: whatever it does, the result holds the pages of `a` followed by the pages of `b` -/
theorem merge_same {a b r : List PNode} {c c' : MCtx} (h : merge a b c = .ok (r, c')) :
    Same (a ++ b) r ∧ c'.old = c.old := by
  unfold merge at h
  split at h
  · cases h; exact ⟨by simpa using Same.refl _, rfl⟩
  · cases h; exact ⟨by simpa using Same.refl _, rfl⟩
  · rename_i x xs b0 bs
    split at h
    · cases h
    · rename_i a1 c1 h1
      obtain ⟨s1, o1, _⟩ := mergeLoop1_same _ _ _ _ _ _ h1
      obtain ⟨s3, o3⟩ := mergeJoin_same h
      exact ⟨(same_append_right _ (s1.trans (liftSingle_same _ _))).trans s3, o3.trans o1⟩

/-! ## writers as documents -/

open Spec.TRSDoc in
mutual
/-- the document a writer (with its sub-ranges) stands for: the sub-ranges in the order they
    were opened, each where it was opened, interleaved with the pages added directly -/
def absW : PW → List (Spec.TRSDoc.Item (Nat × Attrs))
  | .mk _ _ children tail _ _ _ => absChildren children ++ (pagesOf tail).map .page
def absChildren : List PW → List (Spec.TRSDoc.Item (Nat × Attrs))
  | [] => []
  | c :: cs => (if c.isBefore then absW c else [.range (absW c)]) ++ absChildren cs
end

mutual
/-- structural invariant of the tree of writers -/
def PWOK : PW → Prop
  | .mk isB closed children tail npn _ _ =>
    (isB = true → children = [] ∧ npn = none) ∧ (closed = true → children = []) ∧
      (∀ n ∈ tail, NodeOK n) ∧ PWOKList children
def PWOKList : List PW → Prop
  | [] => True
  | c :: cs => PWOK c ∧ PWOKList cs
end

open Spec.TRSDoc

theorem flatten_append (a b : List (Item (Nat × Attrs))) : flatten (a ++ b) = flatten a ++ flatten b := by
  induction a with
  | nil => simp [flatten]
  | cons x xs ih => simp [flatten, ih]

theorem flatten_pages (ps : List (Nat × Attrs)) : flatten (ps.map Item.page) = ps := by
  induction ps with
  | nil => simp [flatten]
  | cons x xs ih => simp [flatten, flattenItem, ih]

theorem absChildren_append (a b : List PW) : absChildren (a ++ b) = absChildren a ++ absChildren b := by
  induction a with
  | nil => simp [absChildren]
  | cons x xs ih => simp [absChildren, ih]

theorem PWOKList_append (a b : List PW) : PWOKList (a ++ b) ↔ PWOKList a ∧ PWOKList b := by
  induction a with
  | nil => simp [PWOKList]
  | cons x xs ih => simp [PWOKList, ih, and_assoc]

/-- **AppendPage**: the page goes to the end of this writer's range -/
theorem appendHere_spec {id : Nat} {attrs : Attrs} {w w' : PW} {g g' : G}
    (h : appendHere id attrs w g = .ok (w', g')) (hok : PWOK w) :
    absW w' = absW w ++ [.page (id, normA attrs)] ∧ PWOK w' ∧ g'.ctx.old = g.ctx.old := by
  obtain ⟨isB, closed, children, tail, npn, npnCb, numPagesCb⟩ := w
  unfold appendHere at h
  dsimp only at h
  split at h
  · cases h
  · split at h
    · cases h
    · split at h
      · cases h
      · split at h
        · cases h
        · split at h
          · cases h
          · rename_i tail2 ctx2 hl
            split at h
            · cases h
              obtain ⟨s, o⟩ := appendLoop_same _ _ _ _ _ hl
              simp only [PWOK] at hok
              refine ⟨?_, ?_, o⟩
              · simp only [absW, s.pages, pagesOf_append, pagesOf, effPages, resolve_empty]
                simp
              · simp only [PWOK]
                refine ⟨?_, hok.2.1, ?_, hok.2.2.2⟩
                · intro hb
                  have := (hok.1 hb).2
                  simp at this
                · apply s.ok
                  intro n hn
                  simp at hn
                  rcases hn with hn | rfl
                  · exact hok.2.2.1 n hn
                  · exact ⟨by simp [TreeOK], by simp [numLeaves], rfl⟩
            · cases h

/-- **NewRange**: an empty range is opened at the end of this writer's range -/
theorem newRangeHere_spec {w w' : PW} {g g' : G} (h : newRangeHere w g = .ok (w', g')) (hok : PWOK w) :
    absW w' = absW w ++ [.range []] ∧ PWOK w' ∧ g'.ctx = g.ctx := by
  obtain ⟨isB, closed, children, tail, npn, npnCb, numPagesCb⟩ := w
  unfold newRangeHere at h
  dsimp only at h
  split at h
  · cases h
  · rename_i hcl
    split at h
    · cases h
    · split at h
      · cases h
      · cases h
        simp only [PWOK] at hok
        have hcl' : closed = false := by simpa using hcl
        have hB : isB = false := by
          cases isB with
          | false => rfl
          | true => have := (hok.1 rfl).2; simp at this
        refine ⟨?_, ?_, rfl⟩
        · simp only [absW, pagesOf, List.map_nil, List.append_nil]
          split
          · simp [absChildren_append, absChildren, absW, PW.isBefore, pagesOf]
          · rename_i ht
            have : tail = [] := by
              cases tail with
              | nil => rfl
              | cons a b => simp at ht
            simp [this, absChildren_append, absChildren, absW, PW.isBefore, pagesOf]
        · simp only [PWOK]
          refine ⟨by simp [hB], by simp [hcl'], by simp, ?_⟩
          rw [PWOKList_append]
          refine ⟨?_, by simp [PWOKList, PWOK]⟩
          split
          · rw [PWOKList_append]
            exact ⟨hok.2.2.2, by simp [PWOKList, PWOK]; exact hok.2.2.1⟩
          · exact hok.2.2.2

theorem flatten_absChildren_cons (c : PW) (cs : List PW) :
    flatten (absChildren (c :: cs)) = flatten (absW c) ++ flatten (absChildren cs) := by
  simp only [absChildren, flatten_append]
  split <;> simp [flatten, flattenItem]

theorem absW_closed {c : PW} (hok : PWOK c) (hc : c.closed = true) : flatten (absW c) = pagesOf c.tail := by
  obtain ⟨isB, closed, children, tail, npn, npnCb, numPagesCb⟩ := c
  simp only [PWOK] at hok
  simp only [PW.closed] at hc
  have := hok.2.1 hc
  subst this
  simp [absW, absChildren, PW.tail, flatten_pages]

mutual
/-- **Close** of a writer: all pages of the writer and of its sub-ranges, in document order,
    end up in its `tail`; the writer stands for the flattened range afterwards -/
theorem close_spec : ∀ (w : PW) (g : G) (w' : PW) (g' : G), w.close g = .ok (w', g') → PWOK w →
    pagesOf w'.tail = flatten (absW w) ∧ w'.children = [] ∧ w'.closed = true ∧
      w'.isBefore = w.isBefore ∧ w'.npn = w.npn ∧ (∀ n ∈ w'.tail, NodeOK n) ∧ g'.ctx.old = g.ctx.old
  | .mk isB closed children tail npn npnCb numPagesCb, g, w', g', h, hok => by
    unfold PW.close at h
    split at h
    · cases h
    · split at h
      · cases h
      · rename_i nodes g1 hcc
        simp only [PWOK] at hok
        obtain ⟨hp, hn, ho⟩ := closeChildren_spec children [] g nodes g1 hcc hok.2.2.2 (by simp)
        split at h
        · cases h
        · rename_i tail1 ctx2 hm
          obtain ⟨sm, om⟩ := merge_same hm
          split at h
          · cases h
          · split at h
            · cases h
            · split at h
              · cases h
              · cases h
                refine ⟨?_, rfl, rfl, rfl, rfl, ?_, om.trans ho⟩
                · simp only [PW.tail, sm.pages, pagesOf_append, hp, pagesOf, List.nil_append, absW,
                    flatten_append, flatten_pages]
                · apply sm.ok
                  intro n hn'
                  simp only [List.mem_append] at hn'
                  rcases hn' with hn' | hn'
                  · exact hn n hn'
                  · exact hok.2.2.1 n hn'
theorem closeChildren_spec : ∀ (children : List PW) (nodes : List PNode) (g : G) (nodes' : List PNode) (g' : G),
    closeChildren children nodes g = .ok (nodes', g') → PWOKList children → (∀ n ∈ nodes, NodeOK n) →
    pagesOf nodes' = pagesOf nodes ++ flatten (absChildren children) ∧ (∀ n ∈ nodes', NodeOK n) ∧
      g'.ctx.old = g.ctx.old
  | [], nodes, g, nodes', g', h, _, hn => by
    simp only [closeChildren] at h
    cases h
    exact ⟨by simp [absChildren, flatten], hn, rfl⟩
  | child :: rest, nodes, g, nodes', g', h, hok, hn => by
    simp only [PWOKList] at hok
    unfold closeChildren at h
    split at h
    · rename_i hcl
      split at h
      · cases h
      · rename_i nodes1 ctx1 hm
        obtain ⟨sm, om⟩ := merge_same hm
        have hn1 : ∀ n ∈ nodes1, NodeOK n := by
          apply sm.ok
          intro n hn'
          simp only [List.mem_append] at hn'
          rcases hn' with hn' | hn'
          · exact hn n hn'
          · obtain ⟨isB, closed, children, tail, npn, npnCb, numPagesCb⟩ := child
            have := hok.1
            simp only [PWOK] at this
            exact this.2.2.1 n hn'
        obtain ⟨hp, hn2, ho⟩ := closeChildren_spec rest nodes1 _ nodes' g' h hok.2 hn1
        refine ⟨?_, hn2, ho.trans om⟩
        rw [hp, sm.pages, pagesOf_append, flatten_absChildren_cons, absW_closed hok.1 hcl]
        simp
    · split at h
      · cases h
      · rename_i child' g1 hc
        obtain ⟨hpt, _, _, _, _, hnt, hot⟩ := close_spec child g child' g1 hc hok.1
        split at h
        · cases h
        · rename_i nodes1 ctx1 hm
          obtain ⟨sm, om⟩ := merge_same hm
          have hn1 : ∀ n ∈ nodes1, NodeOK n := by
            apply sm.ok
            intro n hn'
            simp only [List.mem_append] at hn'
            rcases hn' with hn' | hn'
            · exact hn n hn'
            · exact hnt n hn'
          obtain ⟨hp, hn2, ho⟩ := closeChildren_spec rest nodes1 _ nodes' g' h hok.2 hn1
          refine ⟨?_, hn2, (ho.trans om).trans hot⟩
          rw [hp, sm.pages, pagesOf_append, flatten_absChildren_cons, hpt]
          simp
end

/-! ## addressing a writer by its path -/

theorem updateRange_pages (G : List (Item (Nat × Attrs)) → Option (List (Item (Nat × Attrs)))) (i : Nat)
    (xs : List (Item (Nat × Attrs))) : ∀ ps : List (Nat × Attrs),
    updateRange G i (ps.map Item.page ++ xs) = (updateRange G i xs).map (ps.map Item.page ++ ·)
  | [] => by simp
  | p :: ps => by
    simp only [List.map_cons, List.cons_append, updateRange]
    rw [updateRange_pages G i xs ps]
    cases updateRange G i xs <;> simp

theorem absW_before {c : PW} (hok : PWOK c) (hb : c.isBefore = true) :
    absW c = (pagesOf c.tail).map Item.page := by
  obtain ⟨isB, closed, children, tail, npn, npnCb, numPagesCb⟩ := c
  simp only [PWOK] at hok
  simp only [PW.isBefore] at hb
  have := (hok.1 hb).1
  subst this
  simp [absW, absChildren, PW.tail]

/-- the `i`-th sub-range among the children is the `i`-th range item of the document -/
theorem updateRange_children (G : List (Item (Nat × Attrs)) → Option (List (Item (Nat × Attrs))))
    (rest : List (Item (Nat × Attrs))) (child child' : PW) (hG : G (absW child) = some (absW child'))
    (hb' : child'.isBefore = false) :
    ∀ (children : List PW) (i j : Nat), PWOKList children → subIndex children i = some j →
      children[j]? = some child →
      child.isBefore = false ∧
      updateRange G i (absChildren children ++ rest) = some (absChildren (children.set j child') ++ rest)
  | [], _, _, _, h, _ => by simp [subIndex] at h
  | c :: cs, i, j, hok, hs, hj => by
    simp only [PWOKList] at hok
    unfold subIndex at hs
    by_cases hb : c.isBefore = true
    · simp only [hb, if_true, Option.map_eq_some_iff] at hs
      obtain ⟨j', hs', rfl⟩ := hs
      simp only [List.getElem?_cons_succ] at hj
      obtain ⟨h1, h2⟩ := updateRange_children G rest child child' hG hb' cs i j' hok.2 hs' hj
      refine ⟨h1, ?_⟩
      simp only [absChildren, hb, if_true, List.set_cons_succ, List.append_assoc]
      rw [absW_before hok.1 hb, updateRange_pages, h2]
      simp
    · have hb0 : c.isBefore = false := by simpa using hb
      simp only [hb0, Bool.false_eq_true, if_false] at hs
      cases i with
      | zero =>
        simp only [Option.some.injEq] at hs
        subst hs
        simp only [List.getElem?_cons_zero, Option.some.injEq] at hj
        subst hj
        refine ⟨hb0, ?_⟩
        simp [absChildren, hb0, hb', updateRange, hG]
      | succ i' =>
        simp only [Option.map_eq_some_iff] at hs
        obtain ⟨j', hs', rfl⟩ := hs
        simp only [List.getElem?_cons_succ] at hj
        obtain ⟨h1, h2⟩ := updateRange_children G rest child child' hG hb' cs i' j' hok.2 hs' hj
        refine ⟨h1, ?_⟩
        simp [absChildren, hb0, updateRange, h2]

theorem subIndex_notBefore : ∀ (children : List PW) (i j : Nat) (child : PW),
    subIndex children i = some j → children[j]? = some child → child.isBefore = false
  | [], _, _, _, h, _ => by simp [subIndex] at h
  | c :: cs, i, j, child, hs, hj => by
    unfold subIndex at hs
    by_cases hb : c.isBefore = true
    · simp only [hb, if_true, Option.map_eq_some_iff] at hs
      obtain ⟨j', hs', rfl⟩ := hs
      simp only [List.getElem?_cons_succ] at hj
      exact subIndex_notBefore cs i j' child hs' hj
    · have hb0 : c.isBefore = false := by simpa using hb
      simp only [hb0, Bool.false_eq_true, if_false] at hs
      cases i with
      | zero =>
        simp only [Option.some.injEq] at hs
        subst hs
        simp only [List.getElem?_cons_zero, Option.some.injEq] at hj
        subst hj; exact hb0
      | succ i' =>
        simp only [Option.map_eq_some_iff] at hs
        obtain ⟨j', hs', rfl⟩ := hs
        simp only [List.getElem?_cons_succ] at hj
        exact subIndex_notBefore cs i' j' child hs' hj

theorem PWOKList_set : ∀ (children : List PW) (j : Nat) (c : PW), PWOKList children → PWOK c →
    PWOKList (children.set j c)
  | [], _, _, _, _ => by simp [PWOKList]
  | x :: xs, 0, c, h, hc => by simp only [PWOKList] at h; simp [PWOKList, hc, h.2]
  | x :: xs, j + 1, c, h, hc => by
    simp only [PWOKList] at h
    simp only [List.set_cons_succ, PWOKList]
    exact ⟨h.1, PWOKList_set xs j c h.2 hc⟩

theorem PWOKList_get : ∀ (children : List PW) (j : Nat) (c : PW), PWOKList children →
    children[j]? = some c → PWOK c
  | [], _, _, _, h => by simp at h
  | x :: xs, 0, c, h, hj => by simp at hj; subst hj; simp only [PWOKList] at h; exact h.1
  | x :: xs, j + 1, c, h, hj => by
    simp only [PWOKList] at h
    simp only [List.getElem?_cons_succ] at hj
    exact PWOKList_get xs j c h.2 hj

/-- an operation on the writer at `path` acts on the document as the corresponding operation
    of the specification acts on the range at `path` -/
theorem updateAt_spec (f : PW → G → Except PErr (PW × G))
    (F : List (Item (Nat × Attrs)) → Option (List (Item (Nat × Attrs))))
    (hf : ∀ w g w' g', f w g = .ok (w', g') → PWOK w →
      F (absW w) = some (absW w') ∧ PWOK w' ∧ w'.isBefore = w.isBefore ∧ g'.ctx.old = g.ctx.old) :
    ∀ (path : List Nat) (root : PW) (g : G) (root' : PW) (g' : G),
      root.updateAt f path g = .ok (root', g') → PWOK root →
      Spec.TRSDoc.updateAt F path (absW root) = some (absW root') ∧ PWOK root' ∧
        root'.isBefore = root.isBefore ∧ g'.ctx.old = g.ctx.old
  | [], root, g, root', g', h, hok => by
    simp only [PW.updateAt] at h
    simpa [Spec.TRSDoc.updateAt] using hf root g root' g' h hok
  | i :: rest, .mk isB closed children tail npn npnCb numPagesCb, g, root', g', h, hok => by
    unfold PW.updateAt at h
    split at h
    · cases h
    · rename_i j hs
      split at h
      · cases h
      · rename_i child hj
        split at h
        · cases h
        · rename_i child' g1 hc
          cases h
          simp only [PWOK] at hok
          have hcok := PWOKList_get children j child hok.2.2.2 hj
          obtain ⟨h1, h2, h3, h4⟩ := updateAt_spec f F hf rest child g child' g' hc hcok
          have hnb0 := subIndex_notBefore children i j child hs hj
          have hnb := updateRange_children (Spec.TRSDoc.updateAt F rest)
            ((pagesOf tail).map Item.page) child child' h1 (by rw [h3]; exact hnb0)
            children i j hok.2.2.2 hs hj
          refine ⟨?_, ?_, rfl, h4⟩
          · simp only [Spec.TRSDoc.updateAt, absW]
            exact hnb.2
          · simp only [PWOK]
            have hne : children ≠ [] := by intro h0; simp [h0] at hj
            refine ⟨?_, ?_, hok.2.2.1, PWOKList_set children j child' hok.2.2.2 h2⟩
            · intro hb; exact absurd (hok.1 hb).1 hne
            · intro hcl; exact absurd (hok.2.1 hcl) hne

/-! ## the root's Close and whole programs -/

/-- the written root: a `/Pages` node without `/Parent`, structurally sound below -/
def RootOK (t : PTree) : Prop :=
  (∃ id kids n a, t = .pages id none kids n a) ∧ TreeOK t

theorem closeRoot_spec {w w' : PW} {g g' : G} {r : Option PTree}
    (h : closeRoot w g = .ok (w', g', r)) (hok : PWOK w) :
    (match r with
      | some t => effPages {} t = flatten (absW w) ∧ RootOK t
      | none => flatten (absW w) = []) ∧ absW w' = [] ∧ PWOK w' := by
  unfold closeRoot at h
  split at h
  · cases h
  · rename_i w1 g1 hc
    obtain ⟨hp, hch, hcl, hb, hn, hnodes, _hold1⟩ := close_spec w g w1 g1 hc hok
    split at h
    · cases h
    · rename_i tail ctx2 hcol
      obtain ⟨sc, _hold, hlen, _hne⟩ := collapse_same _ _ _ _ _ hcol
      obtain ⟨isB, cl, ch, t1, npn, cb, np⟩ := w1
      simp only [PW.children] at hch
      simp only [PW.closed] at hcl
      simp only [PW.tail] at hp hnodes sc hlen
      subst hch hcl
      have hw' : absW (PW.mk isB true [] ([] : List PNode) npn cb np) = [] ∧
          PWOK (PW.mk isB true [] [] npn cb np) := by
        refine ⟨by simp [absW, absChildren, pagesOf], ?_⟩
        have hnpn : isB = true → npn = none := by
          intro hb'
          obtain ⟨isB0, cl0, ch0, t0, npn0, cb0, np0⟩ := w
          simp only [PWOK] at hok
          simp only [PW.isBefore] at hb
          simp only [PW.npn] at hn
          subst hb hn
          exact (hok.1 hb').2
        simpa [PWOK, PWOKList] using hnpn
      simp only at h
      split at h
      · cases h
        refine ⟨?_, hw'.1, hw'.2⟩
        simp only
        rw [← hp, ← sc.pages]; rfl
      · rename_i rootNode rest
        have hrest : rest = [] := by
          cases rest with
          | nil => rfl
          | cons a b => simp at hlen
        subst hrest
        have hroot : NodeOK rootNode := sc.ok hnodes rootNode (by simp)
        have hpages : effPages {} rootNode.tree = flatten (absW w) := by
          rw [← hp, ← sc.pages]; simp [pagesOf]
        simp only [wrapIfLeaf] at h
        split at h
        · rename_i id p kids n a htree
          cases h
          refine ⟨?_, hw'.1, hw'.2⟩
          simp only
          refine ⟨hpages, ⟨id, kids, n, a, ?_⟩, hroot.tree⟩
          have := hroot.top
          rw [htree] at this ⊢
          simp only [PTree.parent] at this
          rw [this]
        · rename_i id p a htree
          cases h
          refine ⟨?_, hw'.1, hw'.2⟩
          simp only
          refine ⟨?_, ⟨_, _, _, _, rfl⟩, ?_⟩
          · rw [← hpages, htree]
            simp [effPages, effList, resolve_empty]
          · have := maxDegree_ge_two
            simp [TreeOK, KidsOK, PTree.parent, numLeavesList, numLeaves]
            omega

/-- what an operation means for the document (`Spec/TRSDoc.lean`) -/
def specStep (op : POp) (d : List (Item (Nat × Attrs))) : Option (List (Item (Nat × Attrs))) :=
  match op with
  | .append path id attrs => appendPage (id, normA attrs) path d
  | .newRange path => newRange path d
  | .close path => close path d
  | .nextPageNumber _ _ => some d

theorem updateAt_id : ∀ (path : List Nat) (d d' : List (Item (Nat × Attrs))),
    Spec.TRSDoc.updateAt (fun r => some r) path d = some d' → d' = d := by
  intro path
  induction path with
  | nil => intro d d' h; simp [Spec.TRSDoc.updateAt] at h; exact h.symm
  | cons i rest ih =>
    intro d d' h
    simp only [Spec.TRSDoc.updateAt] at h
    -- updateRange with a function that returns its argument
    have key : ∀ (i : Nat) (d d' : List (Item (Nat × Attrs))),
        updateRange (Spec.TRSDoc.updateAt (fun r => some r) rest) i d = some d' → d' = d := by
      intro i d
      induction d generalizing i with
      | nil => intro d' h; simp [updateRange] at h
      | cons x xs ihx =>
        intro d' h
        cases x with
        | page p =>
          simp only [updateRange, Option.map_eq_some_iff] at h
          obtain ⟨y, hy, rfl⟩ := h
          rw [ihx i y hy]
        | range r =>
          cases i with
          | zero =>
            simp only [updateRange, Option.map_eq_some_iff] at h
            obtain ⟨y, hy, rfl⟩ := h
            rw [ih r y hy]
          | succ i' =>
            simp only [updateRange, Option.map_eq_some_iff] at h
            obtain ⟨y, hy, rfl⟩ := h
            rw [ihx i' y hy]
    exact key i d d' h

/-- **one operation**: as long as the root has not been closed successfully, an operation that
    is not rejected changes the document exactly as the specification says; a rejected one
    changes nothing -/
theorem step_sim {s s' : PState} {op : POp} {o : Outcome} (hok : PWOK s.root)
    (h : step s op = .ok (s', o)) (hres : s'.result = none) :
    (o = .closed → s' = s) ∧ (o ≠ .closed → specStep op (absW s.root) = some (absW s'.root)) ∧
      PWOK s'.root := by
  cases op with
  | append path id attrs =>
    simp only [step] at h
    split at h
    · cases h; exact ⟨fun _ => rfl, fun hne => absurd rfl hne, hok⟩
    · cases h
    · rename_i r g hu
      cases h
      obtain ⟨h1, h2, _, _⟩ := updateAt_spec (appendHere id attrs)
        (fun d => some (d ++ [.page (id, normA attrs)]))
        (fun w g w' g' hf hw => by
          obtain ⟨a, b, c⟩ := appendHere_spec hf hw
          refine ⟨by rw [a], b, ?_, c⟩
          obtain ⟨isB, closed, children, tail, npn, npnCb, numPagesCb⟩ := w
          unfold appendHere at hf
          dsimp only at hf
          repeat' split at hf
          all_goals first | cases hf | skip
          all_goals rfl) path s.root s.g r g hu hok
      exact ⟨(by intro hc; cases hc), fun _ => h1, h2⟩
  | newRange path =>
    simp only [step] at h
    split at h
    · cases h; exact ⟨fun _ => rfl, fun hne => absurd rfl hne, hok⟩
    · cases h
    · rename_i r g hu
      cases h
      obtain ⟨h1, h2, _, _⟩ := updateAt_spec newRangeHere
        (fun d => some (d ++ [.range []]))
        (fun w g w' g' hf hw => by
          obtain ⟨a, b, c⟩ := newRangeHere_spec hf hw
          refine ⟨by rw [a], b, ?_, by rw [c]⟩
          obtain ⟨isB, closed, children, tail, npn, npnCb, numPagesCb⟩ := w
          unfold newRangeHere at hf
          dsimp only at hf
          repeat' split at hf
          all_goals first | cases hf | skip
          all_goals rfl) path s.root s.g r g hu hok
      exact ⟨(by intro hc; cases hc), fun _ => h1, h2⟩
  | nextPageNumber path k =>
    simp only [step] at h
    split at h
    · cases h
      exact ⟨(by intro hc; cases hc), fun _ => rfl, hok⟩
    · cases h
    · rename_i r g hu
      cases h
      obtain ⟨h1, h2, _, _⟩ := updateAt_spec (nextPageNumberHere k) (fun d => some d)
        (fun w g w' g' hf hw => by
          obtain ⟨isB, closed, children, tail, npn, npnCb, numPagesCb⟩ := w
          unfold nextPageNumberHere at hf
          dsimp only at hf
          split at hf
          · cases hf; exact ⟨by simp, hw, by simp, by simp⟩
          · cases hf
            refine ⟨by simp [absW], ?_, by simp [PW.isBefore], by simp⟩
            simp only [PWOK] at hw ⊢
            exact hw) path s.root s.g r g hu hok
      refine ⟨(by intro hc; cases hc), fun _ => ?_, h2⟩
      simp only [specStep]
      rw [updateAt_id path _ _ h1]
  | close path =>
    cases path with
    | nil =>
      simp only [step] at h
      split at h
      · cases h; exact ⟨fun _ => rfl, fun hne => absurd rfl hne, hok⟩
      · cases h
      · cases h; simp at hres
      · rename_i r g hu
        cases h
        obtain ⟨h1, h2, h3⟩ := closeRoot_spec hu hok
        simp only at h1
        refine ⟨(by intro hc; cases hc), fun _ => ?_, h3⟩
        simp [specStep, close, Spec.TRSDoc.updateAt, h1, h2]
    | cons i rest =>
      simp only [step] at h
      split at h
      · cases h; exact ⟨fun _ => rfl, fun hne => absurd rfl hne, hok⟩
      · cases h
      · rename_i r g hu
        cases h
        obtain ⟨h1, h2, _, _⟩ := updateAt_spec PW.close (fun d => some ((flatten d).map .page))
          (fun w g w' g' hf hw => by
            obtain ⟨a, b, c, d, e, f', g''⟩ := close_spec w g w' g' hf hw
            obtain ⟨isB, closed, children, tail, npn, npnCb, numPagesCb⟩ := w'
            simp only [PW.children] at b
            simp only [PW.closed] at c
            simp only [PW.tail] at a f'
            subst b c
            refine ⟨by simp [absW, absChildren, a], ?_, d, g''⟩
            have hnpn : isB = true → npn = none := by
              intro hb
              obtain ⟨isB0, cl0, ch0, t0, npn0, cb0, np0⟩ := w
              simp only [PWOK] at hw
              simp only [PW.isBefore] at d
              simp only [PW.npn] at e
              subst d e
              exact (hw.1 hb).2
            simp only [PWOK, PWOKList]
            exact ⟨fun hb => ⟨by simp, hnpn hb⟩, by simp, f', by simp⟩) (i :: rest) s.root s.g r g hu hok
        exact ⟨(by intro hc; cases hc), fun _ => h1, h2⟩

/-- the specification's run of a program: every operation that was not rejected is applied -/
def specRun : List (POp × Outcome) → List (Item (Nat × Attrs)) → Option (List (Item (Nat × Attrs)))
  | [], d => some d
  | (op, o) :: rest, d =>
    if o = .closed then specRun rest d
    else match specStep op d with
      | none => none
      | some d' => specRun rest d'

theorem result_mono {s s' : PState} {op : POp} {o : Outcome} (h : step s op = .ok (s', o))
    (hres : s'.result = none) : s.result = none := by
  cases op with
  | append path id attrs =>
    simp only [step] at h
    split at h <;> first | cases h | skip
    all_goals first | exact hres | (cases h; exact hres)
  | newRange path =>
    simp only [step] at h
    split at h <;> first | cases h | skip
    all_goals first | exact hres | (cases h; exact hres)
  | nextPageNumber path k =>
    simp only [step] at h
    split at h <;> first | cases h | skip
    all_goals first | exact hres | (cases h; exact hres)
  | close path =>
    cases path with
    | nil =>
      simp only [step] at h
      split at h <;> first | cases h | skip
      all_goals first | exact hres | (cases h; exact hres) | (cases h; simp at hres) | simp at hres
    | cons i rest =>
      simp only [step] at h
      split at h <;> first | cases h | skip
      all_goals first | exact hres | (cases h; exact hres)

/-- **whole programs**: as long as the root has not been closed successfully, the writer tree
    stands for the document that the specification builds from the same operations -/
theorem run_sim : ∀ (ops : List POp) (s s' : PState) (outs : List Outcome), PWOK s.root →
    run s ops = .ok (s', outs) → s'.result = none →
    specRun (ops.zip outs) (absW s.root) = some (absW s'.root) ∧ PWOK s'.root ∧ s.result = none
  | [], s, s', outs, hok, h, hres => by
    simp only [run] at h
    cases h
    exact ⟨rfl, hok, hres⟩
  | op :: rest, s, s', outs, hok, h, hres => by
    simp only [run] at h
    split at h
    · cases h
    · rename_i s1 o hst
      split at h
      · cases h
      · rename_i s2 os hr
        cases h
        have hs1res : s1.result = none := by
          have := run_sim rest s1 s' os
          -- result of s1 is none because the final one is
          cases hr1 : s1.result with
          | none => rfl
          | some t =>
            exfalso
            -- once set, `result` stays: go through the remaining operations
            have mono : ∀ (ops : List POp) (a b : PState) (os : List Outcome), run a ops = .ok (b, os) →
                b.result = none → a.result = none := by
              intro ops
              induction ops with
              | nil => intro a b os h hb; simp only [run] at h; cases h; exact hb
              | cons op ops ih =>
                intro a b os h hb
                simp only [run] at h
                split at h
                · cases h
                · rename_i a1 o1 ha
                  split at h
                  · cases h
                  · rename_i b1 os1 hb1
                    cases h
                    exact result_mono ha (ih a1 b os1 hb1 hb)
            have := mono rest s1 s' os hr hres
            rw [hr1] at this; cases this
        obtain ⟨c1, c2, c3⟩ := step_sim hok hst hs1res
        obtain ⟨r1, r2, _⟩ := run_sim rest s1 s' os c3 hr hres
        refine ⟨?_, r2, result_mono hst hs1res⟩
        simp only [List.zip_cons_cons, specRun]
        by_cases ho : o = .closed
        · simp only [ho, if_true]
          rw [c1 ho] at r1; exact r1
        · simp only [ho, if_false, c2 ho]
          exact r1

theorem init_ok (old : Bool) (hints : List Hint) :
    PWOK (PState.init old hints).root ∧ absW (PState.init old hints).root = [] := by
  simp [PState.init, PWOK, PWOKList, absW, absChildren, pagesOf]

/-- **C16, main theorem.**  Take any program (appends, NewRange, Close of sub-ranges,
    NextPageNumber on any writers in any interleaving, including operations that are rejected
    because their writer is closed) that has not yet closed the root successfully, and let the
    root's `Close` succeed now.  Then the written tree `t`
    * lists exactly the pages of the document the specification builds from the accepted
      operations, in document order (a range's pages sit where the range was opened), and each
      page's effective MediaBox, CropBox, Rotate, AA after inheritance are those it was given
      (`effPages {} t = flatten doc`; the payload of a page is `(id, normA attrs)`);
    * is a `/Pages` node without `/Parent` in which every `/Pages` node has between 1 and
      `maxDegree` kids, a `/Count` equal to the number of leaf pages below it, and is the
      `/Parent` of each of its kids (`RootOK`).
    This holds for every list of `hints`, i.e. however Go's map iteration breaks ties when a
    value is hoisted. -/
theorem page_tree_correct (old : Bool) (hints : List Hint) (ops : List POp) (s s' : PState)
    (outs : List Outcome) (hrun : run (PState.init old hints) ops = .ok (s, outs))
    (hopen : s.result = none) (hclose : step s (.close []) = .ok (s', .ok)) :
    ∃ doc t, specRun (ops.zip outs) [] = some doc ∧ s'.result = some t ∧
      effPages {} t = flatten doc ∧ RootOK t := by
  obtain ⟨hok0, habs0⟩ := init_ok old hints
  obtain ⟨r1, r2, _⟩ := run_sim ops _ s outs hok0 hrun hopen
  rw [habs0] at r1
  simp only [step] at hclose
  split at hclose
  · cases hclose
  · cases hclose
  · rename_i r g t hu
    cases hclose
    obtain ⟨h1, _, _⟩ := closeRoot_spec hu r2
    simp only at h1
    exact ⟨absW s.root, t, r1, rfl, h1.1, h1.2⟩
  · cases hclose

/-- `/Count` of the root = number of pages of the document -/
theorem root_count {t : PTree} (h : RootOK t) (inh : Attrs) :
    ∃ id kids n a, t = .pages id none kids n a ∧ n = (effPages inh t).length := by
  obtain ⟨⟨id, kids, n, a, rfl⟩, hok⟩ := h
  refine ⟨id, kids, n, a, rfl, ?_⟩
  simp only [TreeOK] at hok
  rw [effPages_length, numLeaves, hok.2.2.1]

/-! ### non-vacuity -/

def exMB1 : Option Bytes := some [91, 48, 93]
def exMB2 : Option Bytes := some [91, 49, 93]
def exProg : List POp :=
  [.append [] 0 { mediaBox := exMB1 }, .newRange [],
   .append [0] 1 { mediaBox := exMB1, rotate := some [57, 48] },
   .append [] 2 { mediaBox := exMB2 }, .nextPageNumber [0] 7, .append [0] 3 { mediaBox := exMB1 },
   .close [0], .append [0] 4 {}]

-- non-vacuity of `page_tree_correct`: a program with a sub-range, hoisting and a rejected
-- operation meets the hypotheses; the written tree lists the pages in document order
example : (match run (PState.init false []) exProg with
    | .ok (s, outs) =>
      s.result.isNone && outs == [.ok, .ok, .ok, .ok, .ok, .ok, .ok, .closed] &&
      (match step s (.close []) with
        | .ok (s', .ok) => (s'.result.map fun t => (effPages {} t).map (·.1)) == some [0, 1, 3, 2]
        | _ => false)
    | _ => false) = true := by decide +kernel

end PdfVerif.C16trs

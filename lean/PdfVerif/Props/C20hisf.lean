import PdfVerif.Model.HISSeq
import PdfVerif.Props.C20hisc
/-!
# C20 (part 7) — no object header is lost at the edge of a scan window

`scanner.Find` searches a 1024-byte buffer; when the buffer holds no match it restarts
`regexpOverlap` = 64 bytes before the end of the buffer, refills, and searches again.  This file
proves, for ANY input and ANY number of windows, on the windowed model `HIS.find`:

* `find_reaches` (matcher-independent): if every window text that contains a certain segment of
  at most 64 bytes completely has a match at or before the segment, then `Find`, started at or
  before the segment, never answers `io.EOF` and never returns a match behind it — whatever lies
  in front, however many windows it takes.  (`window_cover`: a segment of at most `regexpOverlap`
  bytes that is not completely inside the window starts at or behind the next search position.)
* `header_seen`: a line-initial object header `LF N ws G ws obj` of at most 64 bytes (LF included),
  followed by the end of the data or a non-word byte, is such a segment for `markerRegexp`.
* `find_reaches_header`: so the scan's `Find`, started anywhere at or before a header, comes back
  with a match at or before that header.

**Bound**: `1 + |N| + |ws| + |G| + |ws| + 3 ≤ regexpOverlap = 64`.  A longer header can be
lost at a window edge (the restart position may fall inside it).

Partial (`locate_complete` is not reached): that the match returned AT the header's offset
carries its number and generation when the window ends directly behind `obj`, that matches in
front of a header end in front of it (a match contains no LF behind its line-start part), and
"exactly once" (the recorded offsets increase strictly) are not proved here; the non-vacuity
example runs the whole `locateObjects` on a two-window file whose header straddles offset 1024.
-/
namespace PdfVerif.C20hisf
open PdfVerif PdfVerif.HIS PdfVerif.C20hisc

/-- what every window after a refill satisfies -/
structure Inv (file : Bytes) (w : Win) : Prop where
  pos_le : w.pos ≤ w.used
  used_le : w.used ≤ Gen.his_scanner_scannerBufSize
  in_file : w.base + w.used ≤ file.length
  full : w.used < Gen.his_scanner_scannerBufSize → w.base + w.used = file.length

theorem inv_refill (file : Bytes) (w : Win) (h1 : w.pos ≤ w.used) (h2 : w.used ≤ Gen.his_scanner_scannerBufSize)
    (h3 : w.base + w.used ≤ file.length) : Inv file (w.refill file.length) := by
  unfold Win.refill
  refine ⟨Nat.zero_le _, ?_, ?_, ?_⟩ <;> simp only [] <;> omega

/-- the matcher finds something at or before `a` in every window text that starts at or before
    `a` and contains `[a, a+k)` completely -/
def Sees {τ} (file : Bytes) (matcher : Bytes → Option (Match τ)) (a k : Nat) : Prop :=
  ∀ P U, P ≤ a → a + k ≤ U → U ≤ file.length →
    ∃ m, matcher ((file.drop P).take (U - P)) = some m ∧ P + m.a ≤ a

/-- **the window lemma**: a segment `[a, a+k)`, `k ≤ regexpOverlap`, that starts at or behind the
    search position and is not completely inside the window starts at or behind the NEXT search
    position -/
theorem window_cover (w : Win) (a k : Nat) (hk : k ≤ Gen.his_scanner_regexpOverlap)
    (hP : w.base + w.pos ≤ a) (hout : a + k > w.base + w.used) :
    w.base + (if w.used ≥ Gen.his_scanner_regexpOverlap + w.pos + 1 then w.used - Gen.his_scanner_regexpOverlap else w.pos) ≤ a := by
  split <;> omega

/-- **`Find` never passes a segment the matcher sees** — for every file, every window state and
    any number of windows: the result is a match at or before `a` (or the fuel of the model ran
    out: `.other`, which `find` with `file.length + 8` does not do on terminating searches);
    never `io.EOF`, never a match behind `a`. -/
theorem find_reaches {τ} (file : Bytes) (matcher : Bytes → Option (Match τ)) (a k : Nat)
    (hk : k ≤ Gen.his_scanner_regexpOverlap) (hin : a + k ≤ file.length) (hs : Sees file matcher a k)
    (hins : ∀ P n m, P ≤ a → matcher ((file.drop P).take n) = some m → P + m.a ≤ a ∨ a + k ≤ P + m.a)
    (hmlt : ∀ t m, matcher t = some m → m.a < t.length ∧ m.b ≤ t.length) :
    ∀ (fuel : Nat) (w : Win), Inv file w → w.base + w.pos ≤ a →
    find file matcher fuel w = .error .other ∨
      ∃ w' p l t, find file matcher fuel w = .ok (w', p, l, t) ∧ p ≤ a ∧ Inv file w' := by
  intro fuel
  induction fuel with
  | zero => intro w _ _; exact .inl rfl
  | succ fuel ih =>
    intro w hi hP
    unfold find
    simp only []
    cases hm : matcher ((file.drop (w.base + w.pos)).take (w.used - w.pos)) with
    | some m =>
      right
      refine ⟨_, _, _, _, rfl, ?_, ?_⟩
      · -- the leftmost match of this window: at or before `a` when the segment is inside,
        -- and in front of the window's end (hence before a segment that sticks out) otherwise
        by_cases hfit : a + k ≤ w.base + w.used
        · obtain ⟨m', hm', hle⟩ := hs (w.base + w.pos) (w.base + w.used) hP hfit hi.in_file
          have : w.base + w.used - (w.base + w.pos) = w.used - w.pos := by omega
          rw [this, hm] at hm'
          cases hm'; exact hle
        · -- the segment sticks out of the window; a match lies inside the window, and no match
          -- starts strictly inside the segment
          rcases hins (w.base + w.pos) (w.used - w.pos) m hP hm with h | h
          · exact h
          · exfalso
            have hlt := (hmlt _ _ hm).1
            simp only [List.length_take, List.length_drop] at hlt
            omega
      · have hb := (hmlt _ _ hm).2
        simp only [List.length_take, List.length_drop] at hb
        exact ⟨by have := hi.pos_le; simp only []; omega, hi.used_le, hi.in_file, hi.full⟩
    | none =>
      simp only []
      -- nothing found: the segment is not completely inside this window
      have hout : a + k > w.base + w.used := by
        by_cases hfit : a + k ≤ w.base + w.used
        · obtain ⟨m', hm', _⟩ := hs (w.base + w.pos) (w.base + w.used) hP hfit hi.in_file
          have : w.base + w.used - (w.base + w.pos) = w.used - w.pos := by omega
          rw [this, hm] at hm'; cases hm'
        · omega
      have hnext := window_cover w a k hk hP hout
      generalize hp' : (if w.used ≥ Gen.his_scanner_regexpOverlap + w.pos + 1 then w.used - Gen.his_scanner_regexpOverlap else w.pos) = pos' at hnext
      have hp'le : pos' ≤ w.used := by
        rw [← hp']; split
        · omega
        · exact hi.pos_le
      have hinv := inv_refill file { w with pos := pos' } hp'le hi.used_le hi.in_file
      -- more data follows, so this is not the end of the input
      have hne : (decide (w.used < Gen.his_scanner_scannerBufSize) &&
          w.used == (Win.refill file.length { w with pos := pos' }).used) = false := by
        cases hfull : decide (w.used < Gen.his_scanner_scannerBufSize) with
        | false => rfl
        | true =>
          have := hi.full (by simpa using hfull)
          omega
      simp only [hne, Bool.false_eq_true, if_false]
      have hbase : (Win.refill file.length { w with pos := pos' }).base + (Win.refill file.length { w with pos := pos' }).pos ≤ a := by
        simp only [Win.refill]; omega
      exact ih _ hinv hbase

/-! ## the marker matcher -/

theorem spanP_eq (p : Nat → Bool) : ∀ t : Bytes, (spanP p t).1 ++ (spanP p t).2 = t := by
  intro t
  induction t with
  | nil => rfl
  | cons c cs ih =>
    unfold spanP
    split
    · simp only [List.cons_append]; rw [ih]
    · rfl

theorem isPrefixOf_len : ∀ (p l : Bytes), isPrefixOf p l = true → p.length ≤ l.length := by
  intro p
  induction p with
  | nil => intro l _; simp
  | cons a as ih =>
    intro l h
    cases l with
    | nil => simp [isPrefixOf] at h
    | cons c cs =>
      simp only [isPrefixOf, Bool.and_eq_true] at h
      have := ih cs h.2
      simp; omega

/-- a match of the group behind the line start lies inside the text -/
theorem body_len (t : Bytes) (len : Nat) (m : Marker) (h : matchMarkerBody t = some (len, m)) : len ≤ t.length := by
  unfold matchMarkerBody at h
  have e1 := spanP_eq isDigit t
  rcases hs1 : spanP isDigit t with ⟨n, r1⟩
  have e2 := spanP_eq isMarkerWS r1
  rcases hs2 : spanP isMarkerWS r1 with ⟨w1, r2⟩
  have e3 := spanP_eq isDigit r2
  rcases hs3 : spanP isDigit r2 with ⟨g, r3⟩
  have e4 := spanP_eq isMarkerWS r3
  rcases hs4 : spanP isMarkerWS r3 with ⟨w2, r4⟩
  simp only [hs1, hs2, hs3, hs4] at h e1 e2 e3 e4
  have hlen : t.length = n.length + w1.length + g.length + w2.length + r4.length := by
    rw [← e1, ← e2, ← e3, ← e4]; simp; omega
  have kwl : ∀ (k : Bytes) (x : Marker), (if (isPrefixOf k t && wordEnd (t.drop k.length)) = true then some (k.length, x) else none)
      = some (len, m) → len ≤ t.length := by
    intro k x hk
    split at hk
    · rename_i hc
      simp only [Bool.and_eq_true] at hc
      cases hk
      exact isPrefixOf_len _ _ hc.1
    · cases hk
  split at h
  · rename_i r hr
    split at hr
    · rename_i hc
      simp only [Bool.and_eq_true] at hc
      cases hr
      cases h
      have := isPrefixOf_len _ _ hc.1.2
      simp [kwObj] at this
      omega
    · cases hr
  · repeat' (first | (exact kwl _ _ h) | split at h | (cases h; done))
    all_goals first
      | (rename_i hk; cases h; exact kwl _ _ hk)
      | skip

theorem at_props (b : Bool) (t : Bytes) (len lead : Nat) (m : Marker)
    (h : matchMarkerAt b t = some (len, lead, m)) :
    len ≤ t.length ∧ (lead = 0 → b = true) ∧ (lead > 0 → ∃ c, t[0]? = some c ∧ isEolByte c = true) := by
  have key : ∀ (k : Nat), k ≤ t.length →
      (matchMarkerBody (t.drop k)).map (fun (x : Nat × Marker) => (k + x.1, k, x.2)) = some (len, lead, m) →
      len ≤ t.length ∧ lead = k := by
    intro k hk hx
    cases hb : matchMarkerBody (t.drop k) with
    | none => rw [hb] at hx; cases hx
    | some x =>
      obtain ⟨l, mk⟩ := x
      rw [hb] at hx
      simp only [Option.map, Option.some.injEq, Prod.mk.injEq] at hx
      have := body_len _ _ _ hb
      simp only [List.length_drop] at this
      exact ⟨by omega, hx.2.1.symm⟩
  unfold matchMarkerAt at h
  simp only [] at h
  split at h
  · rename_i r hr
    split at hr
    · cases h
      obtain ⟨h1, h2⟩ := key 2 (by simp) hr
      exact ⟨h1, by omega, fun _ => ⟨13, by simp, by decide⟩⟩
    · cases hr
  · split at h
    · rename_i r hr
      split at hr
      · cases h
        obtain ⟨h1, h2⟩ := key 1 (by simp) hr
        exact ⟨h1, by omega, fun _ => ⟨13, by simp, by decide⟩⟩
      · cases hr
    · split at h
      · rename_i r hr
        split at hr
        · cases h
          obtain ⟨h1, h2⟩ := key 1 (by simp) hr
          exact ⟨h1, by omega, fun _ => ⟨10, by simp, by decide⟩⟩
        · cases hr
      · split at h
        · rename_i hb
          obtain ⟨h1, h2⟩ := key 0 (Nat.zero_le _) h
          exact ⟨h1, fun _ => hb, fun hl => by omega⟩
        · cases h

/-- a match lies inside the text; a match that does not start at the head of the text starts
    with an end-of-line byte -/
theorem from_props : ∀ (t : Bytes) (i : Nat) (m : Match (Nat × Marker)), matchMarkerFrom i t = some m →
    ∃ j, m.a = i + j ∧ j < t.length ∧ m.b ≤ i + t.length ∧
      (j > 0 ∨ i > 0 → ∃ c, t[j]? = some c ∧ isEolByte c = true) := by
  intro t
  induction t with
  | nil => intro i m h; simp [matchMarkerFrom] at h
  | cons c cs ih =>
    intro i m h
    unfold matchMarkerFrom at h
    split at h
    · rename_i len lead mk hat
      cases h
      obtain ⟨h1, h2, h3⟩ := at_props _ _ _ _ _ hat
      refine ⟨0, rfl, by simp, by simp only []; omega, fun hj => ?_⟩
      have hl : lead > 0 := by
        by_cases hl0 : lead = 0
        · have := h2 hl0; simp at this; omega
        · omega
      simpa using h3 hl
    · obtain ⟨j, hj, hjl, hb, he⟩ := ih _ _ h
      refine ⟨j + 1, by omega, by simp; omega, by simp; omega, fun _ => ?_⟩
      obtain ⟨x, hx, hxe⟩ := he (.inr (by omega))
      exact ⟨x, by simpa using hx, hxe⟩

/-- the leftmost match is at or before any place where the matcher matches -/
theorem matchMarkerFrom_le (X : Bytes) (hX : ∀ b, ∃ r, matchMarkerAt b X = some r) (hne : X ≠ []) :
    ∀ (t1 : Bytes) (i : Nat), ∃ m, matchMarkerFrom i (t1 ++ X) = some m ∧ m.a ≤ i + t1.length := by
  intro t1
  induction t1 with
  | nil =>
    intro i
    cases X with
    | nil => exact absurd rfl hne
    | cons c cs =>
      obtain ⟨⟨len, lead, mk⟩, hr⟩ := hX (i == 0)
      exact ⟨{ a := i, b := i + len, tag := (lead, mk) }, by simp only [List.nil_append, matchMarkerFrom, hr], by simp⟩
  | cons d ds ih =>
    intro i
    simp only [List.cons_append, matchMarkerFrom]
    cases hat : matchMarkerAt (i == 0) (d :: (ds ++ X)) with
    | some r => obtain ⟨len, lead, mk⟩ := r; exact ⟨_, rfl, by simp⟩
    | none =>
      obtain ⟨m, hm, hle⟩ := ih (i + 1)
      exact ⟨m, hm, by simp only [List.length_cons]; omega⟩

/-- a line-initial object header at offset `a` of the file: LF, digits, marker white space,
    digits, marker white space, `obj`, then the end of the data or a non-word byte -/
structure HeaderAt (file : Bytes) (a : Nat) (n w1 g w2 rest : Bytes) : Prop where
  hn : n ≠ []
  hw1 : w1 ≠ []
  hg : g ≠ []
  hw2 : w2 ≠ []
  hnd : ∀ x ∈ n, isDigit x = true
  hgd : ∀ x ∈ g, isDigit x = true
  hw1s : ∀ x ∈ w1, isMarkerWS x = true
  hw2s : ∀ x ∈ w2, isMarkerWS x = true
  hrest : wordEnd rest = true
  eq : file.drop a = 10 :: (headerBytes n w1 g w2 ++ rest)

theorem wordEnd_take (rest : Bytes) (j : Nat) (h : wordEnd rest = true) : wordEnd (rest.take j) = true := by
  cases j with
  | zero => rfl
  | succ j =>
    cases rest with
    | nil => rfl
    | cons c r => simpa [wordEnd] using h

theorem header_no_eol (n w1 g w2 : Bytes) (hnd : ∀ x ∈ n, isDigit x = true) (hgd : ∀ x ∈ g, isDigit x = true)
    (hw1s : ∀ x ∈ w1, isMarkerWS x = true) (hw2s : ∀ x ∈ w2, isMarkerWS x = true) :
    ∀ x ∈ headerBytes n w1 g w2, isEolByte x = false := by
  intro x hx
  have dg : ∀ y, isDigit y = true → isEolByte y = false := by
    intro y hy; simp [isDigit] at hy; simp [isEolByte]; omega
  have ws : ∀ y, isMarkerWS y = true → isEolByte y = false := by
    intro y hy; simp [isMarkerWS] at hy; rcases hy with ((rfl | rfl) | rfl) | rfl <;> decide
  simp only [headerBytes, List.mem_append] at hx
  rcases hx with (((hx | hx) | hx) | hx) | hx
  · exact dg x (hnd x hx)
  · exact ws x (hw1s x hx)
  · exact dg x (hgd x hx)
  · exact ws x (hw2s x hx)
  · simp [kwObj] at hx; rcases hx with rfl | rfl | rfl <;> decide

theorem take_app : ∀ (l1 l2 : Bytes) (i : Nat), (l1 ++ l2).take (l1.length + i) = l1 ++ l2.take i := by
  intro l1
  induction l1 with
  | nil => intro l2 i; simp
  | cons c cs ih =>
    intro l2 i
    have : (c :: cs).length + i = (cs.length + i) + 1 := by simp; omega
    rw [this]; simp only [List.cons_append, List.take_succ_cons]; rw [ih]

/-- the text of a window that starts at or before `a` and reaches to `U ≥ a + k` -/
theorem window_text (file : Bytes) (a P U : Nat) (X rest : Bytes) (hP : P ≤ a) (hU : a + X.length ≤ U)
    (hlen : a ≤ file.length) (heq : file.drop a = X ++ rest) :
    ∃ T : Bytes, T.length = a - P ∧ (file.drop P).take (U - P) = T ++ (X ++ rest.take (U - a - X.length)) := by
  have h1 : file.drop P = (file.drop P).take (a - P) ++ file.drop a := by
    have := (List.take_append_drop (a - P) (file.drop P)).symm
    rw [List.drop_drop] at this
    have e : P + (a - P) = a := by omega
    rw [e] at this; exact this
  have hl : ((file.drop P).take (a - P)).length = a - P := by
    simp only [List.length_take, List.length_drop]; omega
  generalize (file.drop P).take (a - P) = T at h1 hl
  refine ⟨T, hl, ?_⟩
  have e1 : U - P = T.length + (X.length + (U - a - X.length)) := by rw [hl]; omega
  rw [h1, heq, e1, take_app, take_app]

/-- **a header of at most `regexpOverlap` bytes is seen in every window that contains it** -/
theorem header_seen (file : Bytes) (a : Nat) (n w1 g w2 rest : Bytes) (h : HeaderAt file a n w1 g w2 rest)
    (hlen : a ≤ file.length) :
    Sees file matchMarker a (1 + (headerBytes n w1 g w2).length) := by
  intro P U hP hU _
  have heq : file.drop a = (10 :: headerBytes n w1 g w2) ++ rest := by rw [h.eq]; rfl
  obtain ⟨T, hTl, ht⟩ := window_text file a P U (10 :: headerBytes n w1 g w2) rest hP (by simp only [List.length_cons]; omega) hlen heq
  have hX : ∀ b, ∃ r, matchMarkerAt b ((10 :: headerBytes n w1 g w2) ++ rest.take (U - a - (10 :: headerBytes n w1 g w2).length)) = some r := by
    intro b
    have := header_recognised [10] n w1 g w2 (rest.take (U - a - (10 :: headerBytes n w1 g w2).length)) (.inl rfl)
      h.hn h.hw1 h.hg h.hw2 h.hnd h.hgd h.hw1s h.hw2s (wordEnd_take _ _ h.hrest) b
    exact ⟨_, by simpa using this⟩
  obtain ⟨m, hm, hle⟩ := matchMarkerFrom_le _ hX (by simp) T 0
  refine ⟨m, ?_, ?_⟩
  · rw [ht]; exact hm
  · omega

/-- no match starts strictly inside a header when the text starts at or before it -/
theorem header_no_inner_match (file : Bytes) (a : Nat) (n w1 g w2 rest : Bytes) (h : HeaderAt file a n w1 g w2 rest)
    (P cnt : Nat) (m : Match (Nat × Marker)) (hP : P ≤ a)
    (hm : matchMarker ((file.drop P).take cnt) = some m) :
    P + m.a ≤ a ∨ a + (1 + (headerBytes n w1 g w2).length) ≤ P + m.a := by
  obtain ⟨j, hj, hjl, _, he⟩ := from_props _ 0 m hm
  by_cases hc : P + m.a ≤ a
  · exact .inl hc
  · by_cases hc2 : a + (1 + (headerBytes n w1 g w2).length) ≤ P + m.a
    · exact .inr hc2
    · exfalso
      have hjpos : j > 0 := by omega
      obtain ⟨c, hc', hce⟩ := he (.inl hjpos)
      rw [List.getElem?_take] at hc'
      split at hc'
      · rw [List.getElem?_drop] at hc'
        -- the byte at P + j lies in the header, behind its LF
        have hq : file[P + j]? = (file.drop a)[P + j - a]? := by
          rw [List.getElem?_drop]; congr 1; omega
        rw [hq, h.eq] at hc'
        have hidx : P + j - a = (P + j - a - 1) + 1 := by omega
        rw [hidx, List.getElem?_cons_succ, List.getElem?_append_left (by omega)] at hc'
        have := header_no_eol n w1 g w2 h.hnd h.hgd h.hw1s h.hw2s c (List.mem_of_getElem? hc')
        rw [this] at hce; cases hce
      · cases hc'

/-- **The scan's `Find` reaches every header of at most 64 bytes**: started in any window state at
    or before the header — however far in front, across any number of windows — it returns a match
    at or before the header's LF; it never answers `io.EOF` and never returns a match behind it.
    (`.other` is the fuel of the model running out.) -/
theorem find_reaches_header (file : Bytes) (a : Nat) (n w1 g w2 rest : Bytes) (h : HeaderAt file a n w1 g w2 rest)
    (hk : 1 + (headerBytes n w1 g w2).length ≤ Gen.his_scanner_regexpOverlap)
    (fuel : Nat) (w : Win) (hi : Inv file w) (hP : w.base + w.pos ≤ a) :
    find file matchMarker fuel w = .error .other ∨
      ∃ w' p l t, find file matchMarker fuel w = .ok (w', p, l, t) ∧ p ≤ a ∧ Inv file w' := by
  have hlen : a + (1 + (headerBytes n w1 g w2).length) ≤ file.length := by
    have := congrArg List.length h.eq
    simp only [List.length_drop, List.length_cons, List.length_append] at this
    omega
  exact find_reaches file matchMarker a _ hk hlen (header_seen file a n w1 g w2 rest h (by omega))
    (fun P cnt m hP hm => header_no_inner_match file a n w1 g w2 rest h P cnt m hP hm)
    (fun t m hm => by
      obtain ⟨j, hj, hjl, hb, _⟩ := from_props t 0 m hm
      exact ⟨by omega, by omega⟩)
    fuel w hi hP

/-! ## non-vacuity: a two-window file whose header straddles the edge of the first window -/

/-- 1038 bytes: the LF of `12 0 obj` is at offset 1019, the digits at 1020, `obj` ends at 1028 —
    the first 1024-byte window ends inside the header -/
def exFile : Bytes := bytesOfString "%PDF-1.7\n" ++ List.replicate 1010 120 ++ bytesOfString "\n12 0 obj\n7\nendobj\n"

-- the hypotheses of `find_reaches_header` hold for it (the header has 9 bytes with its LF) …
example : HeaderAt exFile 1019 [49, 50] [32] [48] [32] (bytesOfString "\n7\nendobj\n") :=
  { hn := by decide, hw1 := by decide, hg := by decide, hw2 := by decide,
    hnd := by decide, hgd := by decide, hw1s := by decide, hw2s := by decide,
    hrest := by decide +kernel, eq := by decide +kernel }
example : 1 + (headerBytes [49, 50] [32] [48] [32]).length ≤ Gen.his_scanner_regexpOverlap := by decide
-- … and the whole windowed `locateObjects` records it, once, at its offset
example : (locateObjects exFile).toOption.map
    (fun l => l.sections.map fun s => s.objects.map fun (o : FileObject) => (o.num, o.gen, o.start))
    = some [[(12, 0, 1020)]] := by decide +kernel

end PdfVerif.C20hisf

import PdfVerif.Model.CNTScan
import PdfVerif.Model.CNTWrite
/-!
# C15 — content streams: operators written are the operators read

Statements are about `Model/CNTWrite.lean` (graphics/content/writer.go, operators.go, on top of
the `types.go` formatter model `Model/Format.lean`) and `Model/CNTScan.lean`
(graphics/content/stream.go).  The C15 correspondence run ties both to the code (byte-identical
writer output, identical scanner results on generated, exhaustively enumerated and mutated
inputs).  Byte-class facts come from the regenerated `Generated/FactsCNT.lean`.

This file: the lexical layer (names, strings, numbers, keywords — for *all* byte strings /
values), the token loop on flat operand lists, `ops_rt` for operator sequences with flat
operands and comments, and `split_rt`.  Composite operands: `Props/C15cntn.lean`; inline
images: `Props/C15cnti.lean`; the state machine: `Props/C15cntb.lean`.
-/
namespace PdfVerif.C15cnt
open PdfVerif PdfVerif.CNT

/-! ## the two character class tables -/

/-- the content package's own character class table is the table of `scanner.go` -/
theorem class_tables_equal : Gen.content_class = Gen.scanner_class ∧
    Gen.content_regular = Gen.scanner_regular ∧ Gen.content_space = Gen.scanner_space ∧
    Gen.content_delimiter = Gen.scanner_delimiter := by decide +kernel

/-- `operatorTable` maps every key to itself, so the lookup in `ScanToken` is the identity -/
theorem operatorTable_id : ∀ e ∈ Gen.content_operatorTable, e.1 = e.2 := by decide +kernel

/-- the size caps of the content scanner are those of `scanner.go` -/
theorem caps_equal : Gen.content_maxStringBytes = Gen.scanner_maxStringBytes ∧
    Gen.content_maxNameBytes = Gen.scanner_maxNameBytes ∧ Gen.content_maxArrayLen = Gen.scanner_maxArrayLen ∧
    Gen.content_maxDictLen = Gen.scanner_maxDictLen := by decide

theorem cReg_eq (c : Nat) : cReg c = isRegular c := by
  simp [cReg, isRegular, cclass, classOf, class_tables_equal.1, class_tables_equal.2.1]

/-! ## per-byte facts over the whole generated class table -/

theorem byte_esc : ∀ c, c < 256 → nameNeedsEsc c = true →
    hexVal (hexLower (c / 16)) = some (c / 16) ∧ hexVal (hexLower (c % 16)) = some (c % 16) ∧
    (c / 16) * 16 + c % 16 = c := by decide +kernel

theorem byte_plain : ∀ c, c < 256 → nameNeedsEsc c = false → (c == 35) = false ∧ cReg c = true := by
  decide +kernel

/-- a regular byte is not white space, and is none of the bytes `ScanToken` dispatches on -/
theorem reg_byte : ∀ c, c < 256 → cReg c = true →
    cSpace c = false ∧ (c == 37) = false ∧ (c == 47) = false ∧ (c == 40) = false ∧
    (c == 60) = false ∧ (c == 62) = false ∧ (c == 91) = false ∧ (c == 93) = false := by decide +kernel

theorem cReg_35 : cReg 35 = true := by decide +kernel
theorem cReg_32 : cReg 32 = false := by decide +kernel
theorem cReg_10 : cReg 10 = false := by decide +kernel
theorem cSpace_32 : cSpace 32 = true := by decide +kernel
theorem cSpace_10 : cSpace 10 = true := by decide +kernel

/-- bytes ≥ 256 do not occur; the table lookup treats them as regular -/
theorem reg_byte_any (c : Nat) (h : cReg c = true) :
    cSpace c = false ∧ (c == 37) = false ∧ (c == 47) = false ∧ (c == 40) = false ∧
    (c == 60) = false ∧ (c == 62) = false ∧ (c == 91) = false ∧ (c == 93) = false := by
  by_cases hc : c < 256
  · exact reg_byte c hc h
  · have h256 : 256 ≤ c := by omega
    have hsz : Gen.content_class.size = 256 := by decide +kernel
    have : cclass c = 0 := by
      simp [cclass, Array.getD, hsz]
      intro hlt; omega
    refine ⟨by simp [cSpace, this, Gen.content_space], ?_, ?_, ?_, ?_, ?_, ?_, ?_⟩ <;>
      (simp; omega)

/-! ## white space -/

/-- what may follow a token made of regular bytes: the end of input or a non-regular byte -/
def TokEnd : Bytes → Prop
  | [] => True
  | d :: _ => cReg d = false

theorem tokEnd_32 (r : Bytes) : TokEnd (32 :: r) := cReg_32
theorem tokEnd_10 (r : Bytes) : TokEnd (10 :: r) := cReg_10

theorem skipWS_nonspace (c : Nat) (r : Bytes) (h1 : cSpace c = false) (h2 : (c == 37) = false) :
    CNT.skipWS (c :: r) = c :: r := by
  simp [CNT.skipWS, h1, h2]

theorem skipWS_space (c : Nat) (r : Bytes) (h1 : cSpace c = true) : CNT.skipWS (c :: r) = CNT.skipWS r := by
  simp [CNT.skipWS, h1]

theorem scanToken_space (c : Nat) (r : Bytes) (h1 : cSpace c = true) : scanToken (c :: r) = scanToken r := by
  simp [scanToken, skipWS_space c r h1]

theorem skipSp_space (c : Nat) (r : Bytes) (h1 : cSpace c = true) : skipSp (c :: r) = skipSp r := by
  simp [skipSp, h1]

theorem scanOne_space (c : Nat) (r : Bytes) (h1 : cSpace c = true) : scanOne (c :: r) = scanOne r := by
  simp [scanOne, skipSp_space c r h1]

theorem spanReg_all (tok rest : Bytes) (h : ∀ b ∈ tok, cReg b = true) (hend : TokEnd rest) :
    spanReg (tok ++ rest) = (tok, rest) := by
  induction tok with
  | nil =>
    cases rest with
    | nil => simp [spanReg]
    | cons d ds => simp [TokEnd] at hend; simp [spanReg, hend]
  | cons c cs ih =>
    have hc : cReg c = true := h c (by simp)
    have := ih (fun b hb => h b (by simp [hb]))
    simp [spanReg, hc, this]

/-! ## names -/

/-- **Name round trip** (body): for every byte string, the escaped form written by `formatName`
decodes to the string, stopping exactly before any continuation that ends the token. -/
theorem nameBody_rt (n : Bytes) (hn : AllBytes n) (rest : Bytes) (hrest : TokEnd rest) :
    nameBodyS 0 (fmtNameBody n ++ rest) = (n, rest) := by
  induction n with
  | nil =>
    cases rest with
    | nil => simp [fmtNameBody, nameBodyS]
    | cons d ds => simp [TokEnd] at hrest; simp [fmtNameBody, nameBodyS, hrest]
  | cons c cs ih =>
    have hc : c < 256 := by simp [AllBytes] at hn; exact hn.1
    have hcs : AllBytes cs := by simp [AllBytes] at hn ⊢; exact hn.2
    have ih := ih hcs
    by_cases he : nameNeedsEsc c = true
    · obtain ⟨h1, h2, h3⟩ := byte_esc c hc he
      simp [fmtNameBody, he, nameBodyS, cReg_35, hex2, h1, h2, h3, ih]
    · have he' : nameNeedsEsc c = false := by simpa using he
      obtain ⟨h1, h2⟩ := byte_plain c hc he'
      simp [fmtNameBody, he', nameBodyS, h1, h2, ih]

/-- **Name token round trip.** -/
theorem name_rt (n : Bytes) (hn : AllBytes n) (hlen : n.length ≤ Gen.content_maxNameBytes)
    (rest : Bytes) (hrest : TokEnd rest) :
    scanToken (fmtName n ++ rest) = .ok (.name n) rest := by
  have h47 : cSpace 47 = false := by decide +kernel
  have hl : ¬ (Gen.content_maxNameBytes < n.length) := by omega
  simp [scanToken, fmtName, skipWS_nonspace 47 _ h47 (by decide), nameBody, nameBody_rt n hn rest hrest, hl]

/-! ## literal strings -/

theorem countClose_cons (c : Nat) (cs : Bytes) :
    countClose (c :: cs) = (if c == 41 then 1 else 0) + countClose cs := rfl

/-- The loop invariant of `formatString`/`ReadString`: while `level` unescaped parentheses are
open and `closing` closing parentheses remain in the input, the reader's bracket level is
`level + 1` and it returns exactly the remaining input. -/
theorem readStr_fmt (s : Bytes) : ∀ (prev : Option Nat) (level closing len : Nat) (rest : Bytes),
    closing = countClose s → level ≤ closing → len + s.length < Gen.content_maxStringBytes →
    readStr (level + 1) false len (fmtStrLoop prev level closing s ++ 41 :: rest) = .ok s rest := by
  induction s with
  | nil =>
    intro prev level closing len rest hc hl hlen
    simp [countClose] at hc
    subst hc
    have : level = 0 := by omega
    subst this
    have hlen' : ¬ (Gen.content_maxStringBytes ≤ len) := by simp at hlen; omega
    simp only [fmtStrLoop, List.nil_append]; rw [readStr.eq_def]; simp [hlen']
  | cons c cs ih =>
    intro prev level closing len rest hc hl hlen
    have hlen' : ¬ (Gen.content_maxStringBytes ≤ len) := by simp at hlen; omega
    have hlen2 : len + 1 + cs.length < Gen.content_maxStringBytes := by simp at hlen; omega
    rw [countClose_cons] at hc
    by_cases h13 : c = 13
    · subst h13
      simp at hc
      simp only [fmtStrLoop, List.cons_append, List.nil_append]; rw [readStr.eq_def]
      simp [hlen', ih (some 13) level closing (len + 1) rest hc hl hlen2]
    · by_cases h10 : c = 10
      · subst h10
        simp at hc
        have := ih (some 10) level closing (len + 1) rest hc hl hlen2
        simp only [fmtStrLoop, show ((10:Nat) == 13) = false from by decide, Bool.false_eq_true, if_false,
          beq_self_eq_true, if_true]
        split <;> (simp only [List.cons_append, List.nil_append]; rw [readStr.eq_def]; simp [hlen', this])
      · by_cases h40 : c = 40
        · subst h40
          simp at hc
          by_cases hlt : level < closing
          · have := ih (some 40) (level + 1) closing (len + 1) rest hc (by omega) hlen2
            simp only [fmtStrLoop, hlt, if_true, if_false, List.cons_append, List.nil_append]; rw [readStr.eq_def]
            simp [hlen', this]
          · have := ih (some 40) level closing (len + 1) rest hc hl hlen2
            simp only [fmtStrLoop, hlt, if_true, if_false, List.cons_append, List.nil_append]; rw [readStr.eq_def]
            simp [hlen', this, isOct]
        · by_cases h41 : c = 41
          · subst h41
            simp at hc
            by_cases hpos : level > 0
            · have := ih (some 41) (level - 1) (closing - 1) (len + 1) rest (by omega) (by omega) hlen2
              have e : level - 1 + 1 = level := by omega
              rw [e] at this
              have hne : ¬ (level = 0) := by omega
              simp only [fmtStrLoop, hpos, if_true, List.cons_append, List.nil_append]; rw [readStr.eq_def]
              simp [hlen', this, hne]
            · have hz : level = 0 := by omega
              subst hz
              have := ih (some 41) 0 (closing - 1) (len + 1) rest (by omega) (by omega) hlen2
              simp only [fmtStrLoop, List.cons_append, List.nil_append]; rw [readStr.eq_def]
              simp [hlen', this, isOct]
          · by_cases h92 : c = 92
            · subst h92
              simp at hc
              have := ih (some 92) level closing (len + 1) rest hc hl hlen2
              simp only [fmtStrLoop, List.cons_append, List.nil_append]; rw [readStr.eq_def]
              simp [hlen', this, isOct]
            · have hc' : closing = countClose cs := by simp [h41] at hc; exact hc
              have := ih (some c) level closing (len + 1) rest hc' hl hlen2
              simp only [fmtStrLoop, List.cons_append, List.nil_append]; rw [readStr.eq_def]
              simp [hlen', this, h13, h10, h40, h41, h92]

/-- **String round trip**: for *every* byte string shorter than the scanner's cap and every
continuation, `ReadString` returns the string `formatString` wrote (literal form, the only one
used without `OptPretty`) and stops right behind the closing parenthesis. -/
theorem string_rt (s : Bytes) (hlen : s.length < Gen.content_maxStringBytes) (rest : Bytes) :
    scanToken (fmtStrLiteral s ++ rest) = .ok (.str s) rest := by
  have h40 : cSpace 40 = false := by decide +kernel
  have := readStr_fmt s none 0 (countClose s) 0 rest rfl (Nat.zero_le _) (by omega)
  simp at this
  simp [scanToken, fmtStrLiteral, skipWS_nonspace 40 _ h40 (by decide), this]

/-! ## tokens of regular bytes: numbers, keywords, operators -/

/-- a token of regular bytes followed by a token end is returned as `classify` sees it -/
theorem scanToken_regular (tok : Bytes) (hne : tok ≠ []) (hreg : ∀ b ∈ tok, cReg b = true)
    (hlen : tok.length ≤ Gen.content_maxNameBytes) (rest : Bytes) (hend : TokEnd rest) :
    scanToken (tok ++ rest) = .ok (classify tok) rest := by
  match tok, hne with
  | c :: cs, _ =>
    have hc := hreg c (by simp)
    obtain ⟨k1, k2, k3, k4, k5, k6, _, _⟩ := reg_byte_any c hc
    have hsp := spanReg_all cs rest (fun b hb => hreg b (by simp [hb])) hend
    have hl : ¬ (Gen.content_maxNameBytes < cs.length + 1) := by simp at hlen; omega
    simp [scanToken, skipWS_nonspace c _ k1 k2, k3, k4, k5, k6, hc, hsp, hl]

/-- the written form of a number or keyword operand and what the scanner makes of it -/
structure RegTok (w : Bytes) (o : Obj) : Prop where
  ne : w ≠ []
  reg : ∀ b ∈ w, cReg b = true
  len : w.length ≤ Gen.content_maxNameBytes
  cls : classify w = o

theorem regTok_scan (w : Bytes) (o : Obj) (h : RegTok w o) (rest : Bytes) (hend : TokEnd rest) :
    scanToken (w ++ rest) = .ok o rest := by
  rw [scanToken_regular w h.ne h.reg h.len rest hend, h.cls]

theorem regTok_null : RegTok [110, 117, 108, 108] .null :=
  ⟨by decide, by decide +kernel, by decide, by rfl⟩
theorem regTok_true : RegTok [116, 114, 117, 101] (.bool true) :=
  ⟨by decide, by decide +kernel, by decide, by rfl⟩
theorem regTok_false : RegTok [102, 97, 108, 115, 101] (.bool false) :=
  ⟨by decide, by decide +kernel, by decide, by rfl⟩


/-! ## flat operands -/

/-- what the scanner returns for an operand (Go: `pdf.Array(nil)` is written as `null`; a real
is written with a decimal point) -/
def normA : Obj → Obj
  | .nilArr => .null
  | .real t => .real (realToken t)
  | o => o

/-- Operands of the lexical layer: null, booleans, 64-bit integers, reals whose written token
is a number token, names and strings below the scanner's size caps. -/
def FlatOk : Obj → Prop
  | .null => True
  | .nilArr => True
  | .bool _ => True
  | .int i => RegTok (intDec i) (.int i)
  | .real t => RegTok (realToken t) (.real (realToken t))
  | .name n => AllBytes n ∧ n.length ≤ Gen.content_maxNameBytes
  | .str s => s.length < Gen.content_maxStringBytes
  | _ => False

/-- **Operand round trip (lexical layer).**  The bytes `pdf.Format(OptContentStream, o)`
writes for a flat operand, followed by anything that ends a token (the separating space), scan
back as the operand. -/
theorem flat_token (o : Obj) (h : FlatOk o) (bs : Bytes) (hb : fmtArg o = some bs) (rest : Bytes)
    (hend : TokEnd rest) : scanToken (bs ++ rest) = .ok (normA o) rest := by
  cases o with
  | null =>
    simp [fmtArg, format, copt, canonList, Obj.canon, fmtSeq, fmtObj, sep] at hb
    subst hb
    exact regTok_scan _ _ regTok_null _ hend
  | nilArr =>
    simp [fmtArg, format, copt, canonList, Obj.canon, fmtSeq, fmtObj, sep] at hb
    subst hb
    exact regTok_scan _ _ regTok_null _ hend
  | bool b =>
    cases b with
    | true =>
      simp [fmtArg, format, copt, canonList, Obj.canon, fmtSeq, fmtObj, sep] at hb
      subst hb
      exact regTok_scan _ _ regTok_true _ hend
    | false =>
      simp [fmtArg, format, copt, canonList, Obj.canon, fmtSeq, fmtObj, sep] at hb
      subst hb
      exact regTok_scan _ _ regTok_false _ hend
  | int i =>
    simp [fmtArg, format, copt, canonList, Obj.canon, fmtSeq, fmtObj, sep] at hb
    subst hb
    exact regTok_scan _ _ h _ hend
  | real t =>
    simp [fmtArg, format, copt, canonList, Obj.canon, fmtSeq, fmtObj, sep] at hb
    subst hb
    exact regTok_scan _ _ h _ hend
  | name n =>
    simp [fmtArg, format, copt, canonList, Obj.canon, fmtSeq, fmtObj] at hb
    subst hb
    exact name_rt n h.1 h.2 _ hend
  | str s =>
    simp [fmtArg, format, copt, canonList, Obj.canon, fmtSeq, fmtObj, fmtString] at hb
    subst hb
    exact string_rt s h _
  | op o => exact absurd h (by simp [FlatOk])
  | ref a b => exact absurd h (by simp [FlatOk])
  | arr xs => exact absurd h (by simp [FlatOk])
  | dict kv => exact absurd h (by simp [FlatOk])

/-- a scanned flat operand is not an operator token -/
theorem normA_not_op (o : Obj) (h : FlatOk o) : ∀ n, normA o ≠ .op n := by
  intro n
  cases o <;> simp [normA, FlatOk] at h ⊢

/-- at top level (empty composite stack) an operand is appended to the argument list -/
theorem step_operand (args : List Obj) (o : Obj) (hno : ∀ n, o ≠ .op n)
    (hlen : args.length < Gen.content_maxOperatorArgs) :
    step [] args o = .cont [] (args ++ [o]) := by
  cases o <;> simp_all [step, deliver]

/-! ## operator names -/

/-- **Admissible operator names**: non-empty, regular bytes only, at most `maxNameBytes` long,
not read as a number or keyword, and not `BI`. -/
structure OpNameOk (name : Bytes) : Prop where
  ne : name ≠ []
  reg : ∀ b ∈ name, cReg b = true
  len : name.length ≤ Gen.content_maxNameBytes
  cls : classify name = .op name
  notBI : name ≠ Gen.content_opBeginInlineImage

theorem step_operator (args : List Obj) (name : Bytes) (h : OpNameOk name)
    (hlen : args.length < Gen.content_maxOperatorArgs) :
    step [] args (.op name) = .emit name args := by
  have key : ∀ (lit : Bytes), (∃ b ∈ lit, cReg b = false) → (name == lit) = false := by
    intro lit ⟨b, hb, hr⟩
    simp
    intro he
    subst he
    have := h.reg b hb
    simp [hr] at this
  have h1 := key [60, 60] ⟨60, by simp, by decide +kernel⟩
  have h2 := key [62, 62] ⟨62, by simp, by decide +kernel⟩
  have h3 := key [91] ⟨91, by simp, by decide +kernel⟩
  have h4 := key [93] ⟨93, by simp, by decide +kernel⟩
  have h5 : (name == Gen.content_opBeginInlineImage) = false := by simpa using h.notBI
  have h6 : ¬ (Gen.content_maxOperatorArgs ≤ args.length) := by omega
  simp [step, deliver, h1, h2, h3, h4, h5, h6]

/-! ## the token loop on a flat operand list -/

/-- **One operator with flat operands.**  Scanning the bytes `Operator.Format` wrote — every
operand followed by a space, then the name — returns the name and the operands and stops before
the newline, whatever follows. -/
theorem scanLoop_flat (args : List Obj) : ∀ (acc : List Obj) (ab : Bytes) (name rest : Bytes) (fuel : Nat),
    (∀ a ∈ args, FlatOk a) → fmtArgs args = some ab → OpNameOk name →
    acc.length + args.length < Gen.content_maxOperatorArgs → fuel ≥ args.length + 1 →
    scanLoop fuel [] acc (ab ++ name ++ 10 :: rest) = .ok (name, acc ++ args.map normA) (10 :: rest) := by
  induction args with
  | nil =>
    intro acc ab name rest fuel _ hab hname hlen hfuel
    simp [fmtArgs] at hab
    subst hab
    match fuel, hfuel with
    | f+1, _ =>
      have ht := scanToken_regular name hname.ne hname.reg hname.len (10 :: rest) (tokEnd_10 rest)
      rw [hname.cls] at ht
      simp at hlen
      simp [scanLoop, ht, step_operator acc name hname hlen]
  | cons a as ih =>
    intro acc ab name rest fuel hflat hab hname hlen hfuel
    simp only [fmtArgs] at hab
    cases hx : fmtArg a with
    | none => simp [hx] at hab
    | some x =>
      cases hy : fmtArgs as with
      | none => simp [hx, hy] at hab
      | some y =>
        simp [hx, hy] at hab
        subst hab
        have hfa := hflat a (by simp)
        match fuel, hfuel with
        | f+1, hf =>
          have ht := flat_token a hfa x hx (32 :: (y ++ name ++ 10 :: rest)) (tokEnd_32 _)
          have hstep := step_operand acc (normA a) (normA_not_op a hfa) (by simp at hlen; omega)
          have hsp : scanToken (32 :: (y ++ name ++ 10 :: rest)) = scanToken (y ++ name ++ 10 :: rest) :=
            scanToken_space 32 _ cSpace_32
          have ih' := ih (acc ++ [normA a]) y name rest f (fun b hb => hflat b (by simp [hb])) hy hname
            (by simp at hlen ⊢; omega) (by simp at hf; omega)
          -- the loop: token, operand step, then the space is skipped by the next ScanToken
          have e1 : (x ++ 32 :: y) ++ name ++ 10 :: rest = x ++ 32 :: (y ++ name ++ 10 :: rest) := by simp
          rw [e1]
          rw [scanLoop, ht]
          simp only [hstep]
          -- continue after the separating space
          match f, ih' with
          | 0, ih' => simp at hf
          | g+1, ih' =>
            rw [scanLoop] at ih' ⊢
            rw [hsp]
            simpa using ih'


/-! ## from one operator to operator sequences -/

/-- `bs` (the bytes `Operator.Format` wrote for one operator) ends in a newline, and `Scan`,
started anywhere before it, returns `op` and stops before that newline — whatever follows. -/
def OpStep (bs : Bytes) (op : Bytes × List Obj) : Prop :=
  ∃ body, bs = body ++ [10] ∧ ∀ rest, scanOne (body ++ 10 :: rest) = .ok op (10 :: rest)

theorem scanAll_space (c : Nat) (r : Bytes) (h : cSpace c = true) (f : Nat) : scanAll f (c :: r) = scanAll f r := by
  cases f with
  | zero => simp [scanAll]
  | succ f => simp [scanAll, scanOne_space c r h]

theorem scanAll_nil (f : Nat) : scanAll (f + 1) [] = some [] := by
  simp [scanAll, scanOne, skipSp]

/-- **Sequences.**  If every operator of a sequence is read back by one `Scan` call (`OpStep`),
the scanner reads the written sequence back operator by operator and continues with whatever
follows it, with the fuel that is left. -/
theorem scanAll_ops (P : Bytes × List Obj → Prop) (N : Bytes × List Obj → Bytes × List Obj)
    (hP : ∀ op, P op → ∀ b, fmtOp op.1 op.2 = some b → OpStep b (N op))
    (ops : List (Bytes × List Obj)) : ∀ (bs rest : Bytes) (fuel : Nat),
    (∀ op ∈ ops, P op) → fmtOps ops = some bs →
    scanAll (fuel + ops.length) (bs ++ rest) = (scanAll fuel rest).map (ops.map N ++ ·) := by
  induction ops with
  | nil =>
    intro bs rest fuel _ hb
    simp [fmtOps] at hb
    subst hb
    cases h : scanAll fuel rest <;> simp [h]
  | cons op ops ih =>
    intro bs rest fuel hall hb
    obtain ⟨n, a⟩ := op
    simp only [fmtOps] at hb
    cases hx : fmtOp n a with
    | none => simp [hx] at hb
    | some x =>
      cases hy : fmtOps ops with
      | none => simp [hx, hy] at hb
      | some y =>
        simp [hx, hy] at hb
        subst hb
        obtain ⟨body, hbody, hscan⟩ := hP (n, a) (hall _ (by simp)) x hx
        subst hbody
        have ih' := ih y rest fuel (fun o ho => hall o (by simp [ho])) hy
        have e : (body ++ [10] ++ y) ++ rest = body ++ 10 :: (y ++ rest) := by simp
        have ef : fuel + (ops.length + 1) = (fuel + ops.length) + 1 := by omega
        rw [List.length_cons, e, ef, scanAll, hscan (y ++ rest)]
        simp only []
        rw [scanAll_space 10 _ cSpace_10, ih']
        cases h : scanAll fuel rest <;> simp [h]

theorem fmtOps_length (ops : List (Bytes × List Obj)) (P : Bytes × List Obj → Prop)
    (N : Bytes × List Obj → Bytes × List Obj)
    (hP : ∀ op, P op → ∀ b, fmtOp op.1 op.2 = some b → OpStep b (N op)) :
    ∀ bs, (∀ op ∈ ops, P op) → fmtOps ops = some bs → ops.length ≤ bs.length := by
  induction ops with
  | nil => intro bs _ _; simp
  | cons op ops ih =>
    intro bs hall hb
    obtain ⟨n, a⟩ := op
    simp only [fmtOps] at hb
    cases hx : fmtOp n a with
    | none => simp [hx] at hb
    | some x =>
      cases hy : fmtOps ops with
      | none => simp [hx, hy] at hb
      | some y =>
        simp [hx, hy] at hb
        subst hb
        obtain ⟨body, hbody, _⟩ := hP (n, a) (hall _ (by simp)) x hx
        have := ih y (fun o ho => hall o (by simp [ho])) hy
        subst hbody
        simp
        omega

/-- **`ops_rt`, generic form**: a written sequence of operators each of which satisfies `P`
scans back as the sequence (normalised by `N`). -/
theorem scan_ops (P : Bytes × List Obj → Prop) (N : Bytes × List Obj → Bytes × List Obj)
    (hP : ∀ op, P op → ∀ b, fmtOp op.1 op.2 = some b → OpStep b (N op))
    (ops : List (Bytes × List Obj)) (bs : Bytes) (hall : ∀ op ∈ ops, P op) (hb : fmtOps ops = some bs) :
    scan bs = some (ops.map N) := by
  have hlen := fmtOps_length ops P N hP bs hall hb
  have h := scanAll_ops P N hP ops bs [] (bs.length + 2 - ops.length) hall hb
  have e : bs.length + 2 - ops.length + ops.length = bs.length + 2 := by omega
  have e2 : bs.length + 2 - ops.length = (bs.length + 1 - ops.length) + 1 := by omega
  rw [e] at h
  rw [e2, scanAll_nil] at h
  simpa [scan] using h

/-- the segments of a split content stream, joined as `page.SegmentsReader` joins them -/
def joinSegments : List Bytes → Bytes
  | [] => []
  | [b] => b
  | b :: bs => b ++ 10 :: joinSegments bs

/-- **`split_rt`, generic form**: writing the operator sequence in several segments (split at
operator boundaries, each segment written by `Operators.RawBytes`, the segments joined by a
newline) and scanning the result gives the operators of all segments in order — the same as
scanning the unsplit stream. -/
theorem scan_segments (P : Bytes × List Obj → Prop) (N : Bytes × List Obj → Bytes × List Obj)
    (hP : ∀ op, P op → ∀ b, fmtOp op.1 op.2 = some b → OpStep b (N op))
    (segs : List (List (Bytes × List Obj))) : ∀ (bss : List Bytes),
    (∀ seg ∈ segs, ∀ op ∈ seg, P op) → segs.mapM fmtOps = some bss →
    ∀ (rest : Bytes) (fuel : Nat),
    scanAll (fuel + segs.flatten.length) (joinSegments bss ++ rest) =
      (scanAll fuel rest).map ((segs.flatten).map N ++ ·) := by
  induction segs with
  | nil =>
    intro bss _ hb rest fuel
    simp at hb
    subst hb
    cases h : scanAll fuel rest <;> simp [joinSegments, h]
  | cons seg segs ih =>
    intro bss hall hb rest fuel
    simp only [List.mapM_cons] at hb
    cases hx : fmtOps seg with
    | none => simp [hx] at hb
    | some x =>
      cases hy : segs.mapM fmtOps with
      | none => simp [hx, hy] at hb
      | some ys =>
        simp [hx, hy] at hb
        subst hb
        have ih' := ih ys (fun s hs => hall s (by simp [hs])) hy rest fuel
        have hseg := hall seg (by simp)
        have efl : (seg :: segs).flatten = seg ++ segs.flatten := by simp
        have elen : fuel + (seg ++ segs.flatten).length = (fuel + segs.flatten.length) + seg.length := by
          simp; omega
        rw [efl, elen]
        match ys, ih' with
        | [], ih' =>
          simp only [joinSegments, List.append_nil, List.nil_append] at ih' ⊢
          rw [scanAll_ops P N hP seg x rest _ hseg hx, ih']
          cases h : scanAll fuel rest <;> simp [h]
        | y :: ys', ih' =>
          have e : joinSegments (x :: y :: ys') ++ rest = x ++ (10 :: (joinSegments (y :: ys') ++ rest)) := by
            simp [joinSegments]
          rw [e, scanAll_ops P N hP seg x _ _ hseg hx, scanAll_space 10 _ cSpace_10, ih']
          cases h : scanAll fuel rest <;> simp [h]

end PdfVerif.C15cnt

import PdfVerif.Props.C09tr
import PdfVerif.Model.SECSecurity
/-!
# C09/C10 (translator bridge): the SEC hand model = the code GENERATED from crypto.go

`Model/SECSecurity.lean` (on which `Props/C09sec*.lean`, `C10sec.lean` are proved) contains hand
models of `stdSecPermToP`, `stdSecPToPerm`, `Perm.canR2`, `unpadPKCS7`, the PKCS#7 padding and
`tryCrop`.  Each is proved equal here to the function `tools/extract` re-creates from crypto.go on
every run, on the whole domain on which the Go function does not panic.
-/
namespace PdfVerif.C09trb
open PdfVerif PdfVerif.Gen PdfVerif.Go PdfVerif.C09tr

/-- **bridge** (all 128 permission sets): hand model `stdSecPermToP` = generated -/
theorem permToP_bridge : ∀ p : Nat, p < 128 → SEC.stdSecPermToP p = (pdf_stdSecPermToP (p : Int)).toNat := by
  decide +kernel

theorem canR2_bridge : ∀ p : Nat, p < 128 → SEC.canR2 p = pdf_Perm_canR2 (p : Int) := by
  decide +kernel

/-- the hand model of `PToPerm` as a function of the same seven tests, for every revision number -/
theorem model_pToPerm_bits (R : Nat) (b3 b12 b4 b11 b5 b6 b9 : Bool) (P : Nat)
    (h3 : SEC.hasBit P 3 = !b3) (h12 : SEC.hasBit P 12 = !b12) (h4 : SEC.hasBit P 4 = !b4) (h11 : SEC.hasBit P 11 = !b11)
    (h5 : SEC.hasBit P 5 = !b5) (h6 : SEC.hasBit P 6 = !b6) (h9 : SEC.hasBit P 9 = !b9) :
    (SEC.stdSecPToPerm R P : Int) = pToPermBits (R : Int) b3 b12 b4 b11 b5 b6 b9 := by
  unfold SEC.stdSecPToPerm pToPermBits
  simp only [h3, h12, h4, h11, h5, h6, h9, Id.run, pure]
  clear h3 h12 h4 h11 h5 h6 h9
  by_cases h2 : R = 2
  · subst h2
    revert b3 b12 b4 b11 b5 b6 b9
    decide +kernel
  · by_cases hge : R ≥ 3
    · have e1 : ((R : Int) == 2) = false := by simp; omega
      have e2 : decide ((R : Int) ≥ 3) = true := by simp; omega
      simp only [h2, hge, if_false, if_true, e1, e2, Bool.false_eq_true]
      revert b3 b12 b4 b11 b5 b6 b9
      decide +kernel
    · have e1 : ((R : Int) == 2) = false := by simp; omega
      have e2 : decide ((R : Int) ≥ 3) = false := by simp; omega
      simp only [h2, hge, if_false, e1, e2, Bool.false_eq_true]
      revert b3 b12 b4 b11 b5 b6 b9
      decide +kernel

theorem and_two_pow_eq_zero (P k : Nat) : (P &&& 2 ^ k = 0) ↔ P.testBit k = false := by
  constructor
  · intro h
    have := congrArg (fun x => x.testBit k) h
    simpa [Nat.testBit_and, Nat.testBit_two_pow] using this
  · intro h
    apply Nat.eq_of_testBit_eq
    intro i
    simp only [Nat.testBit_and, Nat.testBit_two_pow, Nat.zero_testBit]
    by_cases hik : k = i
    · subst hik; simp [h]
    · simp [hik]

theorem hasBit_eq (P : Nat) (hP : P < 4294967296) (bit k : Nat) (hb : bit = k + 1) (hk : k < 32) :
    SEC.hasBit P bit = !(UInt32.ofNat P &&& UInt32.ofNat (2 ^ k) == 0) := by
  subst hb
  unfold SEC.hasBit
  have hp : 2 ^ k < 4294967296 := by
    have : 2 ^ k < 2 ^ 32 := Nat.pow_lt_pow_right (by omega) hk
    omega
  have e : (UInt32.ofNat P &&& UInt32.ofNat (2 ^ k) == 0) = decide (P &&& 2 ^ k = 0) := by
    rw [Bool.eq_iff_iff, beq_iff_eq, decide_eq_true_eq, ← UInt32.toNat_inj, UInt32.toNat_and,
      UInt32.toNat_ofNat', UInt32.toNat_ofNat', Nat.mod_eq_of_lt hP, Nat.mod_eq_of_lt hp]
    rfl
  rw [e]
  simp only [Nat.add_sub_cancel]
  cases ht : P.testBit k
  · have := (and_two_pow_eq_zero P k).mpr ht
    simp [this]
  · have : ¬ (P &&& 2 ^ k = 0) := fun h => by
      have := (and_two_pow_eq_zero P k).mp h
      rw [ht] at this; cases this
    simp [this]

/-- **bridge** (every 32-bit P, every revision number): hand model `stdSecPToPerm` = generated -/
theorem pToPerm_bridge (R : Nat) (P : Nat) (hP : P < 4294967296) :
    (SEC.stdSecPToPerm R P : Int) = pdf_stdSecPToPerm (R : Int) (UInt32.ofNat P) := by
  rw [pToPerm_eq_bits]
  apply model_pToPerm_bits
  · rw [hasBit_eq P hP 3 2 rfl (by omega)]; simp
  · rw [hasBit_eq P hP 12 11 rfl (by omega)]; simp
  · rw [hasBit_eq P hP 4 3 rfl (by omega)]; simp
  · rw [hasBit_eq P hP 11 10 rfl (by omega)]; simp
  · rw [hasBit_eq P hP 5 4 rfl (by omega)]; simp
  · rw [hasBit_eq P hP 6 5 rfl (by omega)]; simp
  · rw [hasBit_eq P hP 9 8 rfl (by omega)]; simp

def nat (bs : List UInt8) : Bytes := bs.map (·.toNat)

theorem nat_length (bs : List UInt8) : (nat bs).length = bs.length := by simp [nat]

theorem nat_reverse_get (buf : List UInt8) (i : Nat) (h : i < buf.length) :
    (nat buf).reverse[i]? = some (fromEnd buf i).toNat := by
  unfold nat fromEnd
  rw [List.getElem?_reverse (by simpa using h)]
  simp only [List.length_map, List.getElem?_map]
  rw [List.getD_eq_getElem?_getD, List.getElem?_eq_getElem (by omega)]
  simp

theorem nat_getLast (buf : List UInt8) (h : 0 < buf.length) :
    (nat buf).getLast? = some (fromEnd buf 0).toNat := by
  rw [List.getLast?_eq_head?_reverse, List.head?_eq_getElem?]
  exact nat_reverse_get buf 0 h

theorem padGood_eq (buf : List UInt8) (h : 16 ≤ buf.length) (h2 : buf.length % 16 = 0) :
    SEC.padGood (nat buf) (fromEnd buf 0).toNat = wellPadded buf := by
  unfold SEC.padGood wellPadded
  have a1 : decide (16 ≤ buf.length) = true := by simp [h]
  have a2 : decide (buf.length % 16 = 0) = true := by simp [h2]
  rw [a1, a2]
  simp only [Bool.true_and]
  have hall : ((List.range 16).all fun i =>
        !(decide (i + 1 ≤ (fromEnd buf 0).toNat)) || ((nat buf).reverse[i]? == some (fromEnd buf 0).toNat)) =
      ((List.range 16).all fun i => decide (i + 1 ≤ (fromEnd buf 0).toNat → fromEnd buf i = fromEnd buf 0)) := by
    have hpt : ∀ i, i < 16 →
        (!(decide (i + 1 ≤ (fromEnd buf 0).toNat)) || ((nat buf).reverse[i]? == some (fromEnd buf 0).toNat)) =
        decide (i + 1 ≤ (fromEnd buf 0).toNat → fromEnd buf i = fromEnd buf 0) := by
      intro i hi'
      rw [nat_reverse_get buf i (by omega)]
      rw [Bool.eq_iff_iff]
      simp only [Bool.or_eq_true, Bool.not_eq_true', decide_eq_false_iff_not, beq_iff_eq, Option.some.injEq,
        decide_eq_true_eq, UInt8.toNat_inj]
      constructor
      · rintro (h | h) <;> intro hh
        · exact absurd hh h
        · exact h
      · intro h
        by_cases hh : i + 1 ≤ (fromEnd buf 0).toNat
        · right; exact h hh
        · left; exact hh
    rw [Bool.eq_iff_iff, List.all_eq_true, List.all_eq_true]
    constructor
    · intro h i hi; rw [← hpt i (List.mem_range.mp hi)]; exact h i hi
    · intro h i hi; rw [hpt i (List.mem_range.mp hi)]; exact h i hi
  rw [hall]
  congr 1
  rw [Bool.eq_iff_iff]
  simp only [Bool.and_eq_true, decide_eq_true_eq, Bool.not_eq_true', beq_eq_false_iff_ne, ne_eq]
  omega

/-- **bridge** (every buffer): hand model `unpadPKCS7` = generated `unpadPKCS7`
(`.error .other` ↔ `errCorrupted`; the generated function never panics) -/
theorem unpadPKCS7_bridge (buf : List UInt8) (hl : buf.length < 9223372036854775808) :
    SEC.unpadPKCS7 (nat buf) =
      match pdf_unpadPKCS7 buf with
      | some (out, none) => .ok (nat out)
      | _ => .error .other := by
  rw [unpad_spec buf hl]
  unfold SEC.unpadPKCS7
  simp only [nat_length]
  by_cases hn : 16 ≤ buf.length ∧ buf.length % 16 = 0
  · have c : (decide (buf.length < 16) || buf.length % 16 != 0) = false := by simp; omega
    simp only [c, Bool.false_eq_true, if_false]
    rw [nat_getLast buf (by omega)]
    simp only [padGood_eq buf hn.1 hn.2]
    cases hw : wellPadded buf
    · simp
    · simp only [if_true]
      unfold nat
      rw [List.map_take]
  · have c : (decide (buf.length < 16) || buf.length % 16 != 0) = true := by
      simp only [Bool.or_eq_true, decide_eq_true_eq, bne_iff_ne, ne_eq]; omega
    have hw : wellPadded buf = false := by
      unfold wellPadded
      by_cases h16 : 16 ≤ buf.length
      · have : ¬ (buf.length % 16 = 0) := by omega
        simp [this]
      · simp [h16]
    simp [c, hw]

/-- the hand model's padding = the padding of `C09tr.pkcs7Pad` -/
theorem pkcs7Pad_bridge (x : List UInt8) : SEC.pkcs7Pad (nat x) = nat (pkcs7Pad x) := by
  unfold SEC.pkcs7Pad pkcs7Pad nat
  simp only [List.map_append, List.map_replicate, List.length_map]
  congr 2
  simp only [UInt8.toNat_ofNat']
  omega

/-- **bridge**: `tryCrop` for the (non-negative) lengths of the hand model: no panic, same bytes -/
theorem tryCrop_bridge (s : List UInt8) (l : Nat) (hl : s.length < 9223372036854775808) :
    ∃ out, pdf_tryCrop s (l : Int) = some out ∧ nat out = SEC.tryCrop (nat s) l := by
  refine ⟨_, tryCrop_spec s (l : Int) (by omega) hl, ?_⟩
  unfold SEC.tryCrop
  simp only [nat_length, Int.toNat_natCast]
  have hall : ((nat s).drop l).all (· == 0) = (s.drop l).all (· == 0) := by
    unfold nat
    rw [← List.map_drop, List.all_map]
    congr 1
    funext x
    simp only [Function.comp]
    rw [Bool.eq_iff_iff]
    simp [← UInt8.toNat_inj]
  rw [hall]
  by_cases h : s.length ≤ l
  · have : (s.length : Int) ≤ (l : Int) := by omega
    simp [h, this]
  · have : ¬ ((s.length : Int) ≤ (l : Int)) := by omega
    simp only [h, this, if_false]
    cases (s.drop l).all (· == 0)
    · simp
    · simp [nat, List.map_take]

end PdfVerif.C09trb

import PdfVerif.Props.C06fbt
/-!
# C06 (CCITTFax) — row and stream round trip of the Group 3 1-D and Group 4 coders

Over `Model/FBCCITT.lean` (work package FB, not forked), using the code-table, run-coder and
bit-reader theorems of `Props/C06fbt.lean`.

* `ccitt_g3_1d_row_rt`, `ccitt_g3_1d_stream_rt` — K = 0 without EOL markers and byte alignment:
  EVERY row (a final run that is a multiple of 64 included: the reader reads the terminating
  code a make-up code owes, `needTerm`), any number of rows, return-to-control sequence.
* `g4_lockstep`, `ccitt_g4_row_rt`, `ccitt_g4_stream_rt` — K < 0: pass / vertical / horizontal
  modes over the changing elements, by induction on `Columns − a0`; any reference line, EVERY row
  (runs of any length: `decodeFullRun` admits `Columns/64 + 2` code words), any number of rows,
  EOFB.
* `ccitt_rt_g4_g31d` — `ccitt_rt_statement` of `C06fbt` with its own hypotheses (`validate`,
  `ccittAdmissible`, row cap) for K < 0 and for K = 0 with `EndOfLine = false`, with end-of-block
  pattern and without byte alignment.  Not covered by proof: K > 0, K = 0 with EOL, byte
  alignment, streams without end-of-block pattern (validated on every run).
-/
namespace PdfVerif.C06faC
open PdfVerif PdfVerif.FB PdfVerif.Gen PdfVerif.C06fbt

/-! ## the line buffer -/

/-- next multiple of 8 -/
def ceil8 (n : Nat) : Nat := (n + 7) / 8 * 8

theorem ceil8_ge (n : Nat) : n ≤ ceil8 n := by unfold ceil8; omega
theorem ceil8_mono {a b : Nat} (h : a ≤ b) : ceil8 a ≤ ceil8 b := by unfold ceil8; omega
theorem ceil8_lt (n : Nat) : ceil8 n < n + 8 := by unfold ceil8; omega

/-- the reader's line buffer holds the pixels `pre` and zero bits up to the next byte boundary -/
def LineIs (line : Bits) (pre : Bits) : Prop :=
  line = pre ++ List.replicate (ceil8 pre.length - pre.length) false

theorem lineIs_nil : LineIs [] [] := by simp [LineIs, ceil8]

theorem setRange_zero : ∀ (l : Bits) (e : Nat), e ≤ l.length → setRange l 0 e = List.replicate e true ++ l.drop e := by
  intro l
  induction l with
  | nil => intro e he; simp at he; subst he; simp [setRange]
  | cons b bs ih =>
    intro e he
    cases e with
    | zero =>
      simp only [setRange, Nat.lt_irrefl, and_false, if_false, List.replicate, List.nil_append, List.drop]
      have := ih 0 (by omega)
      simp only [List.replicate, List.nil_append, List.drop] at this
      simp only [Nat.zero_sub]
      rw [this]
    | succ e =>
      simp only [setRange, Nat.zero_lt_succ, and_self, if_true, Nat.zero_sub, Nat.add_sub_cancel]
      rw [ih e (by simp at he; omega)]
      simp [List.replicate_succ]

theorem setRange_append : ∀ (a b : Bits) (s e : Nat), s = a.length → s ≤ e →
    setRange (a ++ b) s e = a ++ setRange b 0 (e - s) := by
  intro a
  induction a with
  | nil => intro b s e hs _; subst hs; simp
  | cons x xs ih =>
    intro b s e hs he
    subst hs
    simp only [List.length_cons] at he ⊢
    simp only [List.cons_append, setRange]
    have : ¬ (xs.length + 1 = 0 ∧ 0 < e) := by omega
    rw [if_neg this, Nat.add_sub_cancel, ih b xs.length (e - 1) rfl (by omega)]
    have : e - 1 - xs.length = e - (xs.length + 1) := by omega
    rw [this]

/-- `fillRowBits` appends a run to the pixels decoded so far -/
theorem fillRow_spec (line pre : Bits) (len : Nat) (fill : Bool) (h : LineIs line pre) :
    LineIs (fillRow line (pre.length : Int) ((pre.length : Int) + (len : Int)) fill) (pre ++ List.replicate len fill) := by
  unfold fillRow
  by_cases h0 : len = 0
  · subst h0; simp [h]
  · have hlt : ¬ ((pre.length : Int) ≥ (pre.length : Int) + (len : Int)) := by omega
    rw [if_neg hlt]
    have hreq : (Int.tdiv ((pre.length : Int) + (len : Int) + 7) 8).toNat * 8 = ceil8 (pre.length + len) := by
      unfold ceil8
      have : ((pre.length : Int) + (len : Int) + 7) = ((pre.length + len + 7 : Nat) : Int) := by omega
      rw [this, Int.tdiv_eq_ediv_of_nonneg (by omega)]
      norm_cast
    simp only [hreq]
    have hs : ((pre.length : Int)).toNat = pre.length := by omega
    have he : ((pre.length : Int) + (len : Int)).toNat = pre.length + len := by omega
    rw [hs, he]
    unfold LineIs at h ⊢
    subst h
    have hc1 := ceil8_ge pre.length
    have hc2 := ceil8_ge (pre.length + len)
    have hc3 : ceil8 pre.length ≤ ceil8 (pre.length + len) := ceil8_mono (by omega)
    -- the buffer after growing: pre ++ zeros up to ceil8 (|pre| + len)
    have hgrow : pre ++ List.replicate (ceil8 pre.length - pre.length) false ++
        List.replicate (ceil8 (pre.length + len) - (pre ++ List.replicate (ceil8 pre.length - pre.length) false).length) false
        = pre ++ List.replicate (ceil8 (pre.length + len) - pre.length) false := by
      rw [List.append_assoc, List.replicate_append_replicate]
      congr 2
      simp; omega
    rw [hgrow]
    simp only [List.length_append, List.length_replicate]
    cases fill
    · simp only [Bool.false_eq_true, if_false]
      rw [List.append_assoc, List.replicate_append_replicate]
      congr 2; omega
    · simp only [if_true]
      rw [setRange_append pre _ pre.length (pre.length + len) rfl (by omega), Nat.add_sub_cancel_left,
        setRange_zero _ len (by simp; omega)]
      simp only [List.drop_replicate, List.append_assoc]
      congr 3; omega

/-! ## Group 3 one-dimensional rows (K = 0) -/

/-- state reported for code `i` -/
theorem codeEntry_state (white : Bool) (i : Nat) :
    (codeEntry white i).2.2.2 =
      (if i < 64 then (if white then ccitt_S_TermW else ccitt_S_TermB)
       else if i < 91 then (if white then ccitt_S_MakeUpW else ccitt_S_MakeUpB) else ccitt_S_MakeUp) := by
  unfold codeEntry
  by_cases h1 : i < 64
  · simp only [h1, if_true]; cases white <;> rfl
  · simp only [h1, if_false]
    by_cases h2 : i < 91
    · simp only [h2, if_true]; cases white <;> rfl
    · simp only [h2, if_false]

theorem isMakeUp_codeEntry (white : Bool) (i : Nat) : isMakeUp (codeEntry white i).2.2.2 = decide (64 ≤ i) := by
  rw [codeEntry_state]
  by_cases h1 : i < 64
  · simp only [h1, if_true]
    have : decide (64 ≤ i) = false := by simp; omega
    rw [this]; cases white <;> decide
  · simp only [h1, if_false]
    have : decide (64 ≤ i) = true := by simp; omega
    rw [this]
    by_cases h2 : i < 91
    · simp only [h2, if_true]; cases white <;> decide
    · simp only [h2, if_false]; decide

/-- **one code word in a 1-D row**: the reader takes the run, extends the line and switches the
colour exactly after a terminating code; after a make-up code it owes a terminating code
(`needTerm`), so the loop goes on even if the row is full -/
theorem dec1D_code (p : CParams) (white : Bool) (i : Nat) (hi : i < 104) (r : Rd) (rest pre : Bits)
    (f n : Nat) (nt : Bool) (he : Rd.clean r) (hs : Rd.stream r = codeWord white i ++ rest) (hrest : tblBits white ≤ rest.length)
    (hx : pre.length < p.columns ∨ nt = true) (hfit : pre.length + runValue i ≤ p.columns) (hl : LineIs r.line pre) :
    ∃ r', Rd.decode1DGo r p (f + 1) pre.length white n nt =
        Rd.decode1DGo r' p f (pre.length + runValue i) (if i < 64 then !white else white) n (decide (64 ≤ i)) ∧
      Rd.clean r' ∧ Rd.stream r' = rest ∧
      LineIs r'.line (pre ++ List.replicate (runValue i) (white != p.blackIs1)) := by
  obtain ⟨d1, d2, d3, d4, d5⟩ := decodeRun_code white i hi r rest he hs hrest
  have hst := codeEntry_state white i
  have hmk := isMakeUp_codeEntry white i
  rw [Rd.decode1DGo]
  rw [if_pos ⟨hx, he.1⟩]
  -- destructure the result of decodeRun
  rcases hdr : r.decodeRun white with ⟨len, st, r2⟩
  rw [hdr] at d1 d2 d3 d4 d5
  simp only at d1 d2 d3 d4 d5 ⊢
  subst d1
  have hmin : min (runValue i) (p.columns - pre.length) = runValue i := by omega
  simp only [hmin]
  have hline := fillRow_spec r2.line pre (runValue i) (white != p.blackIs1) (by rw [d5]; exact hl)
  refine ⟨{ r2 with line := fillRow r2.line pre.length (pre.length + runValue i) (white != p.blackIs1) },
    ?_, d3, d4, hline⟩
  rw [d2, hmk, hst]
  by_cases h1 : i < 64
  · simp only [h1, if_true]
    cases white
    · have e1 : ¬ (ccitt_S_TermB = ccitt_S_EOL) := by decide
      have e2 : ¬ (ccitt_S_TermB = ccitt_S_TermW) := by decide
      simp [e1, e2]
    · have e1 : ¬ (ccitt_S_TermW = ccitt_S_EOL) := by decide
      simp [e1]
  · simp only [h1, if_false]
    by_cases h2 : i < 91
    · simp only [h2, if_true]
      cases white
      · have e1 : ¬ (ccitt_S_MakeUpB = ccitt_S_EOL) := by decide
        have e2 : ¬ (ccitt_S_MakeUpB = ccitt_S_TermW) := by decide
        have e3 : ¬ (ccitt_S_MakeUpB = ccitt_S_TermB) := by decide
        simp [e1, e2, e3]
      · have e1 : ¬ (ccitt_S_MakeUpW = ccitt_S_EOL) := by decide
        have e2 : ¬ (ccitt_S_MakeUpW = ccitt_S_TermW) := by decide
        have e3 : ¬ (ccitt_S_MakeUpW = ccitt_S_TermB) := by decide
        simp [e1, e2, e3]
    · simp only [h2, if_false]
      have e1 : ¬ (ccitt_S_MakeUp = ccitt_S_EOL) := by decide
      have e2 : ¬ (ccitt_S_MakeUp = ccitt_S_TermW) := by decide
      have e3 : ¬ (ccitt_S_MakeUp = ccitt_S_TermB) := by decide
      simp [e1, e2, e3]

theorem runValue_makeup (i : Nat) (h : 64 ≤ i) : 64 ≤ runValue i := by
  unfold runValue; split
  · omega
  · split <;> omega

/-- the code words of one run (make-up codes, then a terminating code) inside a 1-D row; the run
may complete the row with a make-up code (the terminating code of length 0 is still read) -/
theorem dec1D_codes (p : CParams) (white : Bool) (rest : Bits) (hrest : tblBits white ≤ rest.length) (t : Nat) (ht : t < 64)
    (n : Nat) : ∀ (cs : List Nat) (pre : Bits) (r : Rd) (f : Nat) (nt : Bool), (∀ i ∈ cs, 64 ≤ i ∧ i < 104) → Rd.clean r →
      Rd.stream r = ((cs ++ [t]).map (codeWord white)).flatten ++ rest →
      pre.length + ((cs ++ [t]).map runValue).sum ≤ p.columns →
      (pre.length < p.columns ∨ nt = true) →
      LineIs r.line pre →
      ∃ r', Rd.decode1DGo r p (f + cs.length + 1) pre.length white n nt =
          Rd.decode1DGo r' p f (pre.length + ((cs ++ [t]).map runValue).sum) (!white) n false ∧
        Rd.clean r' ∧ Rd.stream r' = rest ∧
        LineIs r'.line (pre ++ List.replicate (((cs ++ [t]).map runValue).sum) (white != p.blackIs1)) := by
  intro cs
  induction cs with
  | nil =>
    intro pre r f nt _ he hs hfit hx hl
    simp only [List.nil_append, List.map_cons, List.map_nil, List.flatten_cons, List.flatten_nil, List.append_nil,
      List.sum_cons, List.sum_nil, Nat.add_zero, List.length_nil] at hs hfit ⊢
    obtain ⟨r', h1, h2, h3, h4⟩ := dec1D_code p white t (by omega) r rest pre f n nt he hs hrest hx hfit hl
    refine ⟨r', ?_, h2, h3, h4⟩
    have hd : decide (64 ≤ t) = false := by simp; omega
    rw [h1, if_pos ht, hd]
  | cons i cs ih =>
    intro pre r f nt hcs he hs hfit hx hl
    have hi := hcs i (by simp)
    have hv := runValue_makeup i hi.1
    simp only [List.cons_append, List.map_cons, List.flatten_cons, List.append_assoc, List.sum_cons, List.length_cons] at hs hfit ⊢
    have hcont : tblBits white ≤ (((cs ++ [t]).map (codeWord white)).flatten ++ rest).length := by
      rw [List.length_append]; omega
    obtain ⟨r1, h1, h2, h3, h4⟩ := dec1D_code p white i hi.2 r _ pre (f + cs.length + 1) n nt he hs hcont hx (by omega) hl
    have hlen : (pre ++ List.replicate (runValue i) (white != p.blackIs1)).length = pre.length + runValue i := by simp
    obtain ⟨r2, g1, g2, g3, g4⟩ := ih (pre ++ List.replicate (runValue i) (white != p.blackIs1)) r1 f true
      (fun j hj => hcs j (by simp [hj])) h2 h3 (by rw [hlen]; omega) (Or.inr rfl) h4
    refine ⟨r2, ?_, g2, g3, ?_⟩
    · have e1 : f + (cs.length + 1) + 1 = (f + cs.length + 1) + 1 := by omega
      have hd : decide (64 ≤ i) = true := by simp; omega
      rw [e1, h1, if_neg (by omega), hd, ← hlen, g1, hlen]
      congr 1; omega
    · rw [List.append_assoc, List.replicate_append_replicate] at g4
      exact g4

/-- **one run in a 1-D row**: `encode1DRun` followed by the 1-D loop of the reader -/
theorem dec1D_run (p : CParams) (white : Bool) (len : Nat) (rest pre : Bits) (r : Rd) (f n : Nat)
    (hrest : tblBits white ≤ rest.length) (he : Rd.clean r) (hs : Rd.stream r = encodeRun white len ++ rest)
    (hfit : pre.length + len ≤ p.columns) (hx : pre.length < p.columns) (hl : LineIs r.line pre) :
    ∃ r', Rd.decode1DGo r p (f + (runIndices len).length) pre.length white n false =
        Rd.decode1DGo r' p f (pre.length + len) (!white) n false ∧
      Rd.clean r' ∧ Rd.stream r' = rest ∧ LineIs r'.line (pre ++ List.replicate len (white != p.blackIs1)) := by
  obtain ⟨hall, cs, t, hsplit, ht, hcs⟩ := run_codes_shape len
  have hsum := run_codes_sum len
  rw [encodeRun_eq] at hs
  rw [hsplit] at hsum hall hs ⊢
  have := dec1D_codes p white rest hrest t ht n cs pre r f false (fun i hi => ⟨hcs i hi, hall i (by simp [hi])⟩) he hs
    (by rw [hsum]; exact hfit) (Or.inl hx) hl
  rw [hsum] at this
  simpa [Nat.add_assoc] using this

/-- pixels of alternating runs, as stored in the line buffer (`isWhite != BlackIs1`) -/
def runBits (blackIs1 : Bool) : Bool → List Nat → Bits
  | _, [] => []
  | w, r :: rs => List.replicate r (w != blackIs1) ++ runBits blackIs1 (!w) rs

def codesCount : List Nat → Nat
  | [] => 0
  | r :: rs => (runIndices r).length + codesCount rs

theorem getLastQ_cons_ne {α} (a : α) (l : List α) (h : l ≠ []) : (a :: l).getLast? = l.getLast? := by
  cases l with
  | nil => exact absurd rfl h
  | cons b bs => simp [List.getLast?_cons_cons]

theorem getLastQ_le_sum (l : List Nat) (x : Nat) (h : l.getLast? = some x) : x ≤ l.sum := by
  induction l with
  | nil => simp at h
  | cons a as ih =>
    cases as with
    | nil => simp at h; subst h; simp
    | cons b bs =>
      rw [getLastQ_cons_ne a (b :: bs) (by simp)] at h
      have := ih h
      simp only [List.sum_cons] at this ⊢; omega

/-- **all runs of a 1-D row**: the loop of `decodeG3ScanLine1D` over `encode1DLine`'s output
(every run after the first has at least one pixel; a final run that is a multiple of 64 is read
completely: make-up code and the terminating code of length 0) -/
theorem dec1D_runs (p : CParams) (rest : Bits) (hrest : 13 ≤ rest.length) (n : Nat) :
    ∀ (runs : List Nat) (white : Bool) (pre : Bits) (r : Rd) (f : Nat), 1 ≤ f → Rd.clean r →
      Rd.stream r = encodeRuns white runs ++ rest → pre.length + runs.sum = p.columns →
      (runs ≠ [] → pre.length < p.columns) → (∀ x ∈ runs.tail, 1 ≤ x) → LineIs r.line pre →
      ∃ r', Rd.decode1DGo r p (f + codesCount runs) pre.length white n false = r'.alignRow p ∧
        Rd.clean r' ∧ Rd.stream r' = rest ∧ LineIs r'.line (pre ++ runBits p.blackIs1 white runs) := by
  intro runs
  induction runs with
  | nil =>
    intro white pre r f hf1 he hs hsum _ _ hl
    refine ⟨r, ?_, he, by simpa [encodeRuns] using hs, by simpa [runBits] using hl⟩
    simp only [List.sum_nil, Nat.add_zero] at hsum
    simp only [codesCount, Nat.add_zero]
    cases f with
    | zero => omega
    | succ f =>
      rw [Rd.decode1DGo, if_neg (by simp; omega), if_pos hsum]
  | cons len rs ih =>
    intro white pre r f hf1 he hs hsum hx hpos hl
    simp only [encodeRuns, List.append_assoc, List.sum_cons] at hs hsum
    have hcont : tblBits white ≤ (encodeRuns (!white) rs ++ rest).length := by
      rw [List.length_append]; cases white <;> simp [tblBits] <;> omega
    obtain ⟨r1, h1, h2, h3, h4⟩ := dec1D_run p white len _ pre r (f + codesCount rs) n hcont he hs (by omega) (hx (by simp)) hl
    have hlen : (pre ++ List.replicate len (white != p.blackIs1)).length = pre.length + len := by simp
    obtain ⟨r2, g1, g2, g3, g4⟩ := ih (!white) (pre ++ List.replicate len (white != p.blackIs1)) r1 f hf1 h2 h3
      (by rw [hlen]; omega)
      (by
        intro hrs
        cases rs with
        | nil => exact absurd rfl hrs
        | cons x xs =>
          have := hpos x (by simp)
          simp only [List.sum_cons] at hsum
          rw [hlen]; omega)
      (by
        intro x hx'
        cases rs with
        | nil => simp at hx'
        | cons y ys => exact hpos x (by simp only [List.tail_cons] at hx' ⊢; exact List.mem_cons_of_mem _ hx'))
      h4
    refine ⟨r2, ?_, g2, g3, ?_⟩
    · have e : f + codesCount (len :: rs) = f + codesCount rs + (runIndices len).length := by
        simp only [codesCount]; omega
      rw [e, h1, ← hlen, g1]
    · simpa [runBits, List.append_assoc] using g4

theorem codes_len_le (white : Bool) : ∀ (l : List Nat), (∀ i ∈ l, i < 104) →
    l.length ≤ ((l.map fun i => codeBits (codeEntry white i).1 (codeEntry white i).2.1).flatten).length := by
  intro l
  induction l with
  | nil => intro _; simp
  | cons a as ih =>
    intro hall
    have ha := hall a (by simp)
    obtain ⟨_, hw, _⟩ := codes_vs_eol white a ha
    have h2 := ih (fun i hi => hall i (by simp [hi]))
    simp only [List.map_cons, List.flatten_cons, List.length_append, List.length_cons, codeBits_length]
    omega

theorem runIndices_len_le (white : Bool) (len : Nat) : (runIndices len).length ≤ (encodeRun white len).length := by
  rw [encodeRun_eq]
  exact codes_len_le white _ (run_codes_shape len).1

theorem codesCount_le : ∀ (runs : List Nat) (white : Bool), codesCount runs ≤ (encodeRuns white runs).length := by
  intro runs
  induction runs with
  | nil => intro _; simp [codesCount]
  | cons r rs ih =>
    intro white
    have := runIndices_len_le white r
    have := ih (!white)
    simp only [codesCount, encodeRuns, List.length_append]; omega

/-! ### pixels, runs and row bytes -/

def b2n (b : Bool) : Nat := if b then 1 else 0

theorem b2n_inj (a b : Bool) : b2n a = b2n b ↔ a = b := by cases a <;> cases b <;> simp [b2n]

/-- pixels of alternating runs starting with the pixel value `c` -/
def expandRuns : Bool → List Nat → Bits
  | _, [] => []
  | c, r :: rs => List.replicate r c ++ expandRuns (!c) rs

theorem groupRuns_expand : ∀ (bs : Bits) (c : Bool) (n : Nat),
    expandRuns c (groupRunsGo (b2n c) n (bs.map b2n)) = List.replicate n c ++ bs := by
  intro bs
  induction bs with
  | nil => intro c n; simp [groupRunsGo, expandRuns]
  | cons q rest ih =>
    intro c n
    simp only [List.map_cons, groupRunsGo]
    by_cases h : b2n q = b2n c
    · rw [if_pos h]
      have hq : q = c := (b2n_inj q c).1 h
      rw [ih c (n + 1), hq, List.replicate_succ']
      simp
    · rw [if_neg h]
      have hq : q = !c := by cases q <;> cases c <;> simp_all [b2n]
      simp only [expandRuns]
      rw [← hq, ih q 1]
      simp

theorem groupRuns_sum : ∀ (l : List Nat) (cur n : Nat), (groupRunsGo cur n l).sum = n + l.length := by
  intro l
  induction l with
  | nil => intro cur n; simp [groupRunsGo]
  | cons q rest ih =>
    intro cur n
    simp only [groupRunsGo]
    split
    · rw [ih]; simp; omega
    · simp only [List.sum_cons]; rw [ih]; simp; omega

/-- the runs of a row give back the row (white pixel value `w`) -/
theorem runs1D_expand (bs : Bits) (w : Bool) : expandRuns w (runs1D (b2n w) (bs.map b2n)) = bs := by
  cases bs with
  | nil => simp [runs1D, expandRuns]
  | cons q rest =>
    simp only [List.map_cons, runs1D]
    by_cases h : b2n q = b2n w
    · rw [if_pos h]
      have hq : q = w := (b2n_inj q w).1 h
      rw [hq, groupRuns_expand rest w 1]; simp
    · rw [if_neg h]
      have hq : q = !w := by cases q <;> cases w <;> simp_all [b2n]
      simp only [expandRuns, List.replicate, List.nil_append]
      rw [hq, groupRuns_expand rest (!w) 1]; simp

theorem runs1D_sum (l : List Nat) (w : Nat) : (runs1D w l).sum = l.length := by
  cases l with
  | nil => simp [runs1D]
  | cons q rest =>
    simp only [runs1D]
    split
    · rw [groupRuns_sum]; simp; omega
    · simp only [List.sum_cons]; rw [groupRuns_sum]; simp; omega

theorem runBits_eq_expand (b1 : Bool) : ∀ (runs : List Nat) (w : Bool),
    runBits b1 w runs = expandRuns (w != b1) runs := by
  intro runs
  induction runs with
  | nil => intro w; rfl
  | cons r rs ih =>
    intro w
    simp only [runBits, expandRuns, ih]
    congr 2
    cases w <;> cases b1 <;> rfl

theorem whiteBit_eq (p : CParams) : p.whiteBit = b2n (true != p.blackIs1) := by
  unfold CParams.whiteBit; cases p.blackIs1 <;> rfl

theorem bytesToBits_length (row : Bytes) : (bytesToBits row).length = 8 * row.length := by
  induction row with
  | nil => rfl
  | cons b bs ih =>
    simp only [bytesToBits, List.flatMap_cons, List.length_append, byteBits_length, List.length_cons] at ih ⊢
    omega

/-- the pixels of a full row are the first `columns` bits of its bytes -/
theorem pixelsOf_eq (p : CParams) (row : Bytes) (hlen : row.length = p.lineBytes) :
    pixelsOf p row = ((bytesToBits row).take p.columns).map b2n := by
  unfold pixelsOf
  simp only []
  have hl : (bytesToBits row).length = 8 * p.lineBytes := by rw [bytesToBits_length, hlen]
  have hge : p.columns ≤ 8 * p.lineBytes := by unfold CParams.lineBytes; omega
  have h0 : p.columns - ((bytesToBits row).map fun b => if b = true then 1 else 0).length = 0 := by
    rw [List.length_map, hl]; omega
  rw [h0, List.replicate_zero, List.append_nil, ← List.map_take]
  rfl

theorem codeBits_zero_of_mod : ∀ (w c : Nat), c % 2 ^ w = 0 → codeBits c w = List.replicate w false := by
  intro w
  induction w with
  | zero => intro c _; rfl
  | succ w ih =>
    intro c h
    have h2 : 0 < 2 ^ w := Nat.pow_pos (by omega)
    have hm : c % 2 ^ (w + 1) = (c / 2 ^ w % 2) * 2 ^ w + c % 2 ^ w := by
      rw [Nat.pow_succ, Nat.mod_mul, Nat.mul_comm]; omega
    rw [hm] at h
    have h3 : c % 2 ^ w = 0 := by omega
    have h4 : c / 2 ^ w % 2 = 0 := by
      rcases Nat.mod_two_eq_zero_or_one (c / 2 ^ w) with h5 | h5
      · exact h5
      · rw [h5] at h; omega
    simp only [codeBits, h4, ih c h3, List.replicate_succ]
    rfl

theorem codeBits_drop : ∀ (k a c : Nat), (codeBits c (a + k)).drop a = codeBits c k := by
  intro k a
  induction a with
  | zero => intro c; simp
  | succ a ih =>
    intro c
    have : a + 1 + k = (a + k) + 1 := by omega
    rw [this, codeBits, List.drop_succ_cons, ih]

/-- zero padding bits: the bits of a row beyond `columns` are zero -/
theorem row_padding (p : CParams) (row : Bytes) (hc : 0 < p.columns) (hlen : row.length = p.lineBytes)
    (hpad : paddingOk p row = true) :
    bytesToBits row = (bytesToBits row).take p.columns ++ List.replicate (ceil8 p.columns - p.columns) false := by
  have hl : (bytesToBits row).length = 8 * p.lineBytes := by rw [bytesToBits_length, hlen]
  have hc8 : ceil8 p.columns = 8 * p.lineBytes := by unfold ceil8 CParams.lineBytes; omega
  have hdrop : (bytesToBits row).drop p.columns = List.replicate (ceil8 p.columns - p.columns) false := by
    by_cases h8 : p.columns % 8 = 0
    · have : p.columns = 8 * p.lineBytes := by unfold CParams.lineBytes; omega
      rw [List.drop_of_length_le (by omega), hc8, this]; simp
    · -- the last byte
      unfold paddingOk at hpad
      rw [if_pos h8] at hpad
      have hidx : (p.columns - 1) / 8 = p.lineBytes - 1 := by unfold CParams.lineBytes; omega
      have hlb : 0 < p.lineBytes := by unfold CParams.lineBytes; omega
      rw [hidx] at hpad
      obtain ⟨ini, b, hrow⟩ : ∃ ini b, row = ini ++ [b] := by
        have hne : row ≠ [] := by intro h; rw [h] at hlen; simp at hlen; omega
        exact ⟨row.dropLast, row.getLast hne, (List.dropLast_concat_getLast hne).symm⟩
      have hini : ini.length = p.lineBytes - 1 := by rw [hrow] at hlen; simp at hlen; omega
      have hget : row[p.lineBytes - 1]? = some b := by
        rw [hrow, List.getElem?_append_right (by omega), hini, Nat.sub_self]; rfl
      rw [hget] at hpad
      have hb : b % 2 ^ (8 - p.columns % 8) = 0 := by simpa using hpad
      have hbits : bytesToBits row = bytesToBits ini ++ byteBits b := by
        rw [hrow]; simp [bytesToBits]
      have hil : (bytesToBits ini).length = 8 * (p.lineBytes - 1) := by rw [bytesToBits_length, hini]
      have hcol : p.columns = 8 * (p.lineBytes - 1) + p.columns % 8 := by unfold CParams.lineBytes; omega
      rw [hbits, List.drop_append, List.drop_of_length_le (by rw [hil]; omega), List.nil_append, hil]
      have hk : p.columns - 8 * (p.lineBytes - 1) = p.columns % 8 := by omega
      rw [hk]
      have hbb : byteBits b = codeBits b (p.columns % 8 + (8 - p.columns % 8)) := by
        unfold byteBits; congr 1; omega
      rw [hbb, codeBits_drop, codeBits_zero_of_mod _ _ hb]
      congr 1
      rw [hc8]; omega
  conv => lhs; rw [← List.take_append_drop p.columns (bytesToBits row)]
  rw [hdrop]

theorem bitsToNat_byteBits (b : Nat) (hb : b < 256) : bitsToNat (byteBits b) = b := by
  unfold byteBits; rw [bitsToNat_codeBits]; exact Nat.mod_eq_of_lt hb

theorem byteBits_eight (b : Nat) : ∃ b0 b1 b2 b3 b4 b5 b6 b7, byteBits b = [b0, b1, b2, b3, b4, b5, b6, b7] :=
  ⟨_, _, _, _, _, _, _, _, rfl⟩

/-- the bytes delivered for a decoded line -/
theorem packBits_bytes (row : Bytes) (h : AllBytes row) : packBits (bytesToBits row) = (row, []) := by
  induction row with
  | nil => rfl
  | cons b bs ih =>
    have hb : b < 256 := by simp at h; exact h.1
    have hbs : AllBytes bs := by simp at h; exact h.2
    obtain ⟨b0, b1, b2, b3, b4, b5, b6, b7, h8⟩ := byteBits_eight b
    have hv := bitsToNat_byteBits b hb
    rw [h8] at hv
    simp only [bytesToBits, List.flatMap_cons] at ih ⊢
    rw [h8]
    simp only [List.cons_append, List.nil_append, packBits, ih hbs, hv]

theorem groupRuns_pos : ∀ (l : List Nat) (cur n : Nat), 1 ≤ n → ∀ x ∈ groupRunsGo cur n l, 1 ≤ x := by
  intro l
  induction l with
  | nil => intro cur n hn x hx; simp [groupRunsGo] at hx; omega
  | cons q rest ih =>
    intro cur n hn x hx
    simp only [groupRunsGo] at hx
    split at hx
    · exact ih cur (n + 1) (by omega) x hx
    · simp only [List.mem_cons] at hx
      rcases hx with h | h
      · omega
      · exact ih q 1 (by omega) x h

theorem groupRuns_ne_nil : ∀ (l : List Nat) (cur n : Nat), groupRunsGo cur n l ≠ [] := by
  intro l
  induction l with
  | nil => intro cur n; simp [groupRunsGo]
  | cons q rest ih =>
    intro cur n
    simp only [groupRunsGo]
    split
    · exact ih _ _
    · simp

theorem runs1D_last_pos (l : List Nat) (w x : Nat) (h : (runs1D w l).getLast? = some x) : 1 ≤ x := by
  cases l with
  | nil => simp [runs1D] at h
  | cons q rest =>
    simp only [runs1D] at h
    split at h
    · exact groupRuns_pos rest q 1 (by omega) x (List.mem_of_getLast? h)
    · rw [getLastQ_cons_ne 0 _ (groupRuns_ne_nil rest q 1)] at h
      exact groupRuns_pos rest q 1 (by omega) x (List.mem_of_getLast? h)

/-- every run after the first has at least one pixel -/
theorem runs1D_tail_pos (l : List Nat) (w : Nat) : ∀ x ∈ (runs1D w l).tail, 1 ≤ x := by
  intro x hx
  cases l with
  | nil => simp [runs1D] at hx
  | cons q rest =>
    simp only [runs1D] at hx
    split at hx
    · exact groupRuns_pos rest q 1 (by omega) x (List.mem_of_mem_tail hx)
    · simp only [List.tail_cons] at hx
      exact groupRuns_pos rest q 1 (by omega) x hx

theorem stream_length (r : Rd) : (Rd.stream r).length = r.bitsLeft := by
  unfold Rd.stream Rd.bitsLeft
  rw [List.length_append, bytesToBits_length]

/-- a row's bit pattern: its first `columns` bits -/
def rowPixels (p : CParams) (row : Bytes) : Bits := (bytesToBits row).take p.columns

theorem rowPixels_length (p : CParams) (row : Bytes) (hlen : row.length = p.lineBytes) :
    (rowPixels p row).length = p.columns := by
  unfold rowPixels
  rw [List.length_take, bytesToBits_length, hlen]
  unfold CParams.lineBytes; omega

/-- **Group 3 one-dimensional row round trip.**  For EVERY row of `Columns` pixels (also one
whose final run is a positive multiple of 64, the former class `ccitt-1d-final-run-64`), without
byte alignment, with any reader state whose unread bits are the row's code followed by at least
13 more bits: `decodeG3ScanLine1D` consumes exactly the row's code, raises no error and leaves the
row's bytes in the line buffer. -/
theorem ccitt_g3_1d_row_rt_pre (p : CParams) (row : Bytes) (r : Rd) (rest : Bits)
    (hc : 0 < p.columns) (hlen : row.length = p.lineBytes) (hpad : paddingOk p row = true)
    (he : Rd.clean r) (hs : Rd.stream r = encode1DLine p (pixelsOf p row) ++ rest) (hrest : 13 ≤ rest.length) :
    ∃ r', r.decode1D p = r'.alignRow p ∧ Rd.clean r' ∧ Rd.stream r' = rest ∧ r'.line = bytesToBits row := by
  have hpx := pixelsOf_eq p row hlen
  have hwb := whiteBit_eq p
  unfold encode1DLine at hs
  rw [hpx, hwb] at hs
  generalize hruns : runs1D (b2n (true != p.blackIs1)) ((rowPixels p row).map b2n) = runs at *
  have hruns' : runs1D (b2n (true != p.blackIs1)) (((bytesToBits row).take p.columns).map b2n) = runs := hruns
  rw [hruns'] at hs
  have hsum : runs.sum = p.columns := by
    rw [← hruns, runs1D_sum, List.length_map, rowPixels_length p row hlen]
  have hexp : runBits p.blackIs1 true runs = rowPixels p row := by
    rw [runBits_eq_expand, ← hruns, runs1D_expand]
  have htail : ∀ x ∈ runs.tail, 1 ≤ x := hruns ▸ runs1D_tail_pos _ _
  unfold Rd.decode1D
  simp only []
  have hbl : ({ r with line := [] } : Rd).bitsLeft = r.bitsLeft := rfl
  have hfuel : codesCount runs + 1 ≤ r.bitsLeft + 2 := by
    have := codesCount_le runs true
    have h2 := stream_length r
    rw [hs, List.length_append] at h2
    omega
  obtain ⟨f, hf⟩ : ∃ f, r.bitsLeft + 2 = f + codesCount runs := ⟨r.bitsLeft + 2 - codesCount runs, by omega⟩
  obtain ⟨r', h1, h2, h3, h4⟩ := dec1D_runs p rest hrest 0 runs true [] { r with line := [] } f (by omega) he hs
    (by simpa using hsum) (fun _ => by simpa using hc) htail lineIs_nil
  rw [hbl, hf]
  simp only [List.length_nil] at h1
  refine ⟨r', h1, h2, h3, ?_⟩
  unfold LineIs at h4
  rw [List.nil_append, hexp, rowPixels_length p row hlen] at h4
  rw [h4]
  exact (row_padding p row hc hlen hpad).symm

/-- the same without byte alignment: `alignRow` does nothing -/
theorem ccitt_g3_1d_row_rt (p : CParams) (row : Bytes) (r : Rd) (rest : Bits)
    (hc : 0 < p.columns) (hal : p.byteAlign = false) (hlen : row.length = p.lineBytes) (hpad : paddingOk p row = true)
    (he : Rd.clean r) (hs : Rd.stream r = encode1DLine p (pixelsOf p row) ++ rest) (hrest : 13 ≤ rest.length) :
    Rd.clean (r.decode1D p) ∧ Rd.stream (r.decode1D p) = rest ∧ (r.decode1D p).line = bytesToBits row := by
  obtain ⟨r', h1, h2, h3, h4⟩ := ccitt_g3_1d_row_rt_pre p row r rest hc hlen hpad he hs hrest
  have : r'.alignRow p = r' := by unfold Rd.alignRow; simp [hal]
  rw [h1, this]
  exact ⟨h2, h3, h4⟩

/-! ## the encoder's byte stream as a bit string (no byte alignment) -/

theorem codeBits8_bitsToNat (b0 b1 b2 b3 b4 b5 b6 b7 : Bool) :
    byteBits (bitsToNat [b0, b1, b2, b3, b4, b5, b6, b7]) = [b0, b1, b2, b3, b4, b5, b6, b7] := by
  cases b0 <;> cases b1 <;> cases b2 <;> cases b3 <;> cases b4 <;> cases b5 <;> cases b6 <;> cases b7 <;> rfl

theorem bytesToBits_append (a b : Bytes) : bytesToBits (a ++ b) = bytesToBits a ++ bytesToBits b := by
  simp [bytesToBits]

theorem bytesToBits_cons (a : Nat) (b : Bytes) : bytesToBits (a :: b) = byteBits a ++ bytesToBits b := by
  simp [bytesToBits]

/-- `packBits` cuts off whole bytes; fewer than 8 bits are left -/
theorem packBits_spec (bits : Bits) :
    bytesToBits (packBits bits).1 ++ (packBits bits).2 = bits ∧ (packBits bits).2.length < 8 := by
  induction bits using packBits.induct with
  | case1 b0 b1 b2 b3 b4 b5 b6 b7 rest bytes left hp ih =>
    rw [packBits, hp]
    simp only [hp] at ih
    refine ⟨?_, ih.2⟩
    simp only [bytesToBits_cons, codeBits8_bitsToNat, List.cons_append, List.nil_append, List.append_assoc]
    rw [ih.1]
  | case2 left h =>
    rw [packBits]
    · refine ⟨by simp [bytesToBits], ?_⟩
      rcases left with _ | ⟨b0, _ | ⟨b1, _ | ⟨b2, _ | ⟨b3, _ | ⟨b4, _ | ⟨b5, _ | ⟨b6, _ | ⟨b7, rest⟩⟩⟩⟩⟩⟩⟩⟩ <;>
        first | exact absurd rfl (h _ _ _ _ _ _ _ _ _) | simp
    · exact h

/-- bits of the complete rows as `Write` emits them (threading `count2D` and the reference row) -/
def allRowBits (p : CParams) : List Bytes → Nat → List Nat → Bits
  | [], _, _ => []
  | row :: rest, c2, ref =>
    (encodeRowBits p c2 ref (pixelsOf p row)).1 ++
      allRowBits p rest (encodeRowBits p c2 ref (pixelsOf p row)).2 (pixelsOf p row)

theorem encodeRowsGo_bits (p : CParams) (hal : p.byteAlign = false) : ∀ (rows : List Bytes) (numRows c2 : Nat)
    (ref : List Nat) (pending : Bits), (∀ row ∈ rows, paddingOk p row = true) →
    (p.maxRows = 0 ∨ numRows + rows.length ≤ p.maxRows) →
    (encodeRowsGo p rows numRows c2 ref pending).2.2 = none ∧
    bytesToBits (encodeRowsGo p rows numRows c2 ref pending).1 ++ (encodeRowsGo p rows numRows c2 ref pending).2.1 =
      pending ++ allRowBits p rows c2 ref := by
  intro rows
  induction rows with
  | nil => intro numRows c2 ref pending _ _; simp [encodeRowsGo, allRowBits, bytesToBits]
  | cons row rest ih =>
    intro numRows c2 ref pending hpad hmax
    have hp := hpad row (by simp)
    have hguard : ¬ (p.maxRows > 0 ∧ numRows ≥ p.maxRows) := by
      simp only [List.length_cons] at hmax; omega
    rw [encodeRowsGo, if_neg hguard]
    simp only [hp, Bool.not_true, Bool.false_eq_true, if_false, hal]
    rcases hrb : encodeRowBits p c2 ref (pixelsOf p row) with ⟨bits, c2'⟩
    simp only []
    obtain ⟨k1, k2⟩ := packBits_spec (pending ++ bits)
    rcases hpk : packBits (pending ++ bits) with ⟨bytes, left⟩
    rw [hpk] at k1
    simp only [] at k1 ⊢
    obtain ⟨i1, i2⟩ := ih (numRows + 1) c2' (pixelsOf p row) left (fun r hr => hpad r (by simp [hr]))
      (by simp only [List.length_cons] at hmax; omega)
    rcases hrec : encodeRowsGo p rest (numRows + 1) c2' (pixelsOf p row) left with ⟨more, pend, err⟩
    rw [hrec] at i1 i2
    simp only [] at i1 i2 ⊢
    refine ⟨i1, ?_⟩
    rw [bytesToBits_append, List.append_assoc, i2, ← List.append_assoc, k1]
    simp only [allRowBits, hrb, List.append_assoc]

theorem splitRows_flatten (n : Nat) (hn : 0 < n) : ∀ (rows : List Bytes) (fuel : Nat), (∀ row ∈ rows, row.length = n) →
    rows.length < fuel → splitRows n fuel rows.flatten = rows := by
  intro rows
  induction rows with
  | nil =>
    intro fuel _ hf
    cases fuel with
    | zero => omega
    | succ f => simp [splitRows]
  | cons row rest ih =>
    intro fuel hlen hf
    cases fuel with
    | zero => omega
    | succ f =>
      have hr := hlen row (by simp)
      simp only [List.flatten_cons, splitRows]
      have : ¬ ((row ++ rest.flatten).length < n ∨ n = 0) := by
        simp only [List.length_append]; omega
      rw [if_neg this, List.take_append_of_le_length (by omega), List.take_of_length_le (by omega),
        List.drop_append_of_le_length (by omega), List.drop_of_length_le (by omega), List.nil_append,
        ih f (fun r h => hlen r (by simp [h])) (by simp at hf; omega)]

theorem flatten_length_rows (n : Nat) : ∀ (rows : List Bytes), (∀ row ∈ rows, row.length = n) →
    rows.flatten.length = rows.length * n := by
  intro rows
  induction rows with
  | nil => intro _; simp
  | cons row rest ih =>
    intro h
    simp only [List.flatten_cons, List.length_append, List.length_cons, h row (by simp),
      ih (fun r hr => h r (by simp [hr]))]
    rw [Nat.succ_mul]; omega

theorem flushPending_bits (left : Bits) (h : left.length < 8) :
    ∃ k, k < 8 ∧ bytesToBits (flushPending left) = left ++ List.replicate k false := by
  unfold flushPending
  by_cases he : left.isEmpty = true
  · rw [if_pos he]
    have : left = [] := by simpa using he
    exact ⟨0, by omega, by simp [this, bytesToBits]⟩
  · rw [if_neg he]
    have hne : left ≠ [] := by simpa using he
    refine ⟨8 - left.length, by cases left with | nil => exact absurd rfl hne | cons a as => simp; omega, ?_⟩
    simp only [bytesToBits_cons, bytesToBits, List.flatMap_nil, List.append_nil]
    rcases left with _ | ⟨b0, _ | ⟨b1, _ | ⟨b2, _ | ⟨b3, _ | ⟨b4, _ | ⟨b5, _ | ⟨b6, _ | ⟨b7, rest⟩⟩⟩⟩⟩⟩⟩⟩
    · exact absurd rfl hne
    all_goals first
      | (simp at h; omega)
      | (simp only [List.length_cons, List.length_nil, List.replicate, List.cons_append, List.nil_append, Nat.reduceAdd,
           Nat.reduceSub]
         exact codeBits8_bitsToNat _ _ _ _ _ _ _ _)

/-- **the encoder's output, bit by bit**: all rows, the end-of-block code, zero padding -/
theorem encodeAll_bits (p : CParams) (rows : List Bytes) (hal : p.byteAlign = false) (hlb : 0 < p.lineBytes)
    (hlen : ∀ row ∈ rows, row.length = p.lineBytes) (hpad : ∀ row ∈ rows, paddingOk p row = true)
    (hmax : p.maxRows = 0 ∨ rows.length ≤ p.maxRows) :
    (encodeAll p rows.flatten).2 = none ∧
    ∃ k, k < 8 ∧ bytesToBits (encodeAll p rows.flatten).1 =
      allRowBits p rows 0 (List.replicate p.columns p.whiteBit) ++ endOfBlockBits p ++ List.replicate k false := by
  have hfl := flatten_length_rows p.lineBytes rows hlen
  have hsplit : splitRows p.lineBytes (rows.flatten.length + 1) rows.flatten = rows := by
    apply splitRows_flatten p.lineBytes hlb rows _ hlen
    rw [hfl]
    have : rows.length ≤ rows.length * p.lineBytes := Nat.le_mul_of_pos_right _ hlb
    omega
  unfold encodeAll
  simp only [hsplit]
  obtain ⟨e1, e2⟩ := encodeRowsGo_bits p hal rows 0 0 (List.replicate p.columns p.whiteBit) [] hpad (by simpa using hmax)
  rcases hgo : encodeRowsGo p rows 0 0 (List.replicate p.columns p.whiteBit) [] with ⟨bytes, pending, err⟩
  rw [hgo] at e1 e2
  simp only [] at e1 e2 ⊢
  subst e1
  have hmod : rows.flatten.length % p.lineBytes = 0 := by rw [hfl]; exact Nat.mul_mod_left _ _
  obtain ⟨k1, k2⟩ := packBits_spec (pending ++ endOfBlockBits p)
  rcases hpk : packBits (pending ++ endOfBlockBits p) with ⟨tail, left⟩
  rw [hpk] at k1 k2
  simp only [] at k1 k2 ⊢
  obtain ⟨k, hk, hfp⟩ := flushPending_bits left k2
  refine ⟨by simp only [hmod, ne_eq, not_true_eq_false, false_and, if_false], k, hk, ?_⟩
  rw [bytesToBits_append, bytesToBits_append, hfp, List.append_assoc, ← List.append_assoc (bytesToBits tail), k1,
    ← List.append_assoc, ← List.append_assoc, e2]
  simp

/-! ## end of block and the row loop, Group 3 1-D -/

theorem white_eol_entry : ccitt_whiteTable_Param 1 = 0 ∧ ccitt_whiteTable_State 1 = ccitt_S_EOL ∧
    ccitt_whiteTable_Width 1 = 11 := by decide +kernel

theorem eol12_bits : codeBits 1 12 = List.replicate 11 false ++ [true] := by decide

/-- `waitForOne` on a `1` bit: it is consumed -/
theorem waitForOne_one (r : Rd) (rest : Bits) (f : Nat) (he : Rd.clean r) (hs : Rd.stream r = true :: rest) :
    Rd.clean (r.waitForOne (f + 1)) ∧ Rd.stream (r.waitForOne (f + 1)) = rest ∧ (r.waitForOne (f + 1)).line = r.line := by
  have hlen : 1 ≤ (Rd.stream r).length := by rw [hs]; simp
  obtain ⟨p1, p2, p3, p4⟩ := peek_spec r 1 he (by omega) hlen
  obtain ⟨c1, c2, c3⟩ := consume_spec (r.peek 1).2 1 p2 (by omega) (by rw [p3]; exact hlen)
  have hv : (r.peek 1).1 = 1 := by
    rw [p1, hs]; rfl
  rw [p3, hs] at c2
  rw [Rd.waitForOne, if_pos he.1]
  simp only [Rd.readBits, hv]
  have : ¬ (1 = 0) := by omega
  rw [if_neg this]
  exact ⟨c1, by simpa using c2, by rw [c3, p4]⟩

/-- the return-to-control sequence: `k` remaining EOL codes, `6 - k` already counted -/
theorem dec1D_rtc (p : CParams) (hc : 0 < p.columns) (hig : p.ignoreEOB = false) (pad : Bits) :
    ∀ (k : Nat) (r : Rd) (f : Nat), 1 ≤ k → k ≤ 6 → Rd.clean r → r.line = [] →
      Rd.stream r = (List.replicate k (codeBits 1 12)).flatten ++ pad →
      (Rd.decode1DGo r p (f + k) 0 true (6 - k) false).err = 1 ∧ (Rd.decode1DGo r p (f + k) 0 true (6 - k) false).line = [] := by
  intro k
  induction k with
  | zero => intro r f h1; omega
  | succ k ih =>
    intro r f _ hk6 he hline hs
    rw [List.replicate_succ, List.flatten_cons, List.append_assoc] at hs
    generalize htl : (List.replicate k (codeBits 1 12)).flatten ++ pad = tl at hs
    rw [eol12_bits, List.append_assoc] at hs
    -- decodeRun(white) sees eleven zeros and a one
    have hlen : 12 ≤ (Rd.stream r).length := by rw [hs]; simp
    obtain ⟨p1, p2, p3, p4⟩ := peek_spec r 12 he (by omega) hlen
    have hv : (r.peek 12).1 = 1 := by
      rw [p1, hs]
      have : (List.replicate 11 false ++ ([true] ++ tl)).take 12
          = List.replicate 11 false ++ [true] := by
        rw [← List.append_assoc, List.take_append_of_le_length (by simp), List.take_of_length_le (by simp)]
      rw [this]; rfl
    obtain ⟨w1, w2, w3⟩ := white_eol_entry
    obtain ⟨c1, c2, c3⟩ := consume_spec (r.peek 12).2 11 p2 (by omega) (by rw [p3]; omega)
    rw [p3, hs, List.drop_append_of_le_length (by simp), List.drop_of_length_le (by simp), List.nil_append] at c2
    have hdr : r.decodeRun true = (0, ccitt_S_EOL, (r.peek 12).2.consume 11) := by
      unfold Rd.decodeRun
      simp only [if_true]
      rcases hpk : r.peek 12 with ⟨v, r1⟩
      rw [hpk] at hv
      simp only at hv ⊢
      subst hv
      simp [w1, w2, w3]
    have e : f + (k + 1) = (f + k) + 1 := by omega
    rw [e, Rd.decode1DGo, if_pos ⟨Or.inl hc, he.1⟩, hdr]
    simp only [Nat.zero_le, Nat.min_eq_left, Nat.add_zero, if_true]
    -- the line is not touched (empty run)
    have hfill : fillRow ((r.peek 12).2.consume 11).line ((0 : Nat) : Int) (((0 : Nat) : Int) + ((0 : Nat) : Int)) (true != p.blackIs1) = [] := by
      unfold fillRow; simp [c3, p4, hline]
    rw [hfill]
    -- waitForOne consumes the final 1 of the EOL
    generalize hr2 : ({ ((r.peek 12).2.consume 11) with line := [] } : Rd) = r2
    have hs2 : Rd.stream r2 = true :: tl := by
      rw [← hr2]
      show Rd.stream ((r.peek 12).2.consume 11) = _
      rw [c2]; rfl
    have he2 : Rd.clean r2 := by rw [← hr2]; exact c1
    have hl2 : r2.line = [] := by rw [← hr2]
    have hbl : r2.bitsLeft + 2 = (r2.bitsLeft + 1) + 1 := by omega
    obtain ⟨v1, v2, v3⟩ := waitForOne_one r2 _ (r2.bitsLeft + 1) he2 hs2
    rw [hbl]
    by_cases hlastk : k = 0
    · subst hlastk
      have : (!p.ignoreEOB) = true ∧ 6 - (0 + 1) + 1 ≥ 6 := by simp [hig]
      rw [if_pos this]
      exact ⟨rfl, by rw [v3, hl2]⟩
    · have : ¬ ((!p.ignoreEOB) = true ∧ 6 - (k + 1) + 1 ≥ 6) := by omega
      rw [if_neg this]
      have e2 : 6 - (k + 1) + 1 = 6 - k := by omega
      rw [e2]
      exact ih _ f (by omega) (by omega) v1 (by rw [v3, hl2]) (by rw [v2, htl])

/-- the bits of a sequence of 1-D rows -/
def rows1DBits (p : CParams) (rows : List Bytes) : Bits :=
  (rows.map fun row => encode1DLine p (pixelsOf p row)).flatten

theorem allRowBits_k0 (p : CParams) (hk : p.k = 0) (heol : p.endOfLine = false) : ∀ (rows : List Bytes) (c2 : Nat)
    (ref : List Nat), allRowBits p rows c2 ref = rows1DBits p rows := by
  intro rows
  induction rows with
  | nil => intro _ _; rfl
  | cons row rest ih =>
    intro c2 ref
    have hrb : ∀ c2 ref px, encodeRowBits p c2 ref px = (encode1DLine p px, c2) := by
      intro c2 ref px
      unfold encodeRowBits
      simp [hk, heol]
    simp only [allRowBits, hrb, ih, rows1DBits, List.map_cons, List.flatten_cons]

theorem encodeRun_length_pos (white : Bool) (len : Nat) : 1 ≤ (encodeRun white len).length := by
  have h1 := runIndices_len_le white len
  have h2 := run_codes_count len
  omega

theorem encode1DLine_length_pos (p : CParams) (px : List Nat) (h : px ≠ []) : 1 ≤ (encode1DLine p px).length := by
  unfold encode1DLine
  cases px with
  | nil => exact absurd rfl h
  | cons q rest =>
    simp only [runs1D]
    split
    · have hne := groupRuns_ne_nil rest q 1
      cases hg : groupRunsGo q 1 rest with
      | nil => exact absurd hg hne
      | cons a as =>
        simp only [encodeRuns, List.length_append]
        have := encodeRun_length_pos true a; omega
    · simp only [encodeRuns, List.length_append]
      have := encodeRun_length_pos true 0; omega

theorem pixelsOf_length (p : CParams) (row : Bytes) : (pixelsOf p row).length = p.columns := by
  unfold pixelsOf
  simp only [List.length_take, List.length_append, List.length_map, List.length_replicate]
  omega

theorem rows1DBits_length (p : CParams) (hc : 0 < p.columns) : ∀ rows : List Bytes, rows.length ≤ (rows1DBits p rows).length := by
  intro rows
  induction rows with
  | nil => simp [rows1DBits]
  | cons row rest ih =>
    have hne : pixelsOf p row ≠ [] := by
      intro h; have := pixelsOf_length p row; rw [h] at this; simp at this; omega
    have := encode1DLine_length_pos p (pixelsOf p row) hne
    simp only [rows1DBits, List.map_cons, List.flatten_cons, List.length_append, List.length_cons] at ih ⊢
    omega

/-- what makes a list of rows acceptable for the 1-D coder -/
def Rows1DOk (p : CParams) (rows : List Bytes) : Prop :=
  ∀ row ∈ rows, row.length = p.lineBytes ∧ AllBytes row ∧ paddingOk p row = true

/-- **the reader's row loop over 1-D rows and the return-to-control sequence** -/
theorem readRows_1d (p : CParams) (hk : p.k = 0) (hc : 0 < p.columns) (hal : p.byteAlign = false) (hig : p.ignoreEOB = false) (pad : Bits) :
    ∀ (rows : List Bytes) (r : Rd) (numRows fuel : Nat), Rd.clean r →
      Rd.stream r = rows1DBits p rows ++ ((List.replicate 6 (codeBits 1 12)).flatten ++ pad) →
      Rows1DOk p rows → (p.maxRows = 0 ∨ numRows + rows.length ≤ p.maxRows) → rows.length < fuel →
      Rd.readRows r p fuel numRows [] = (rows, 1) := by
  intro rows
  induction rows with
  | nil =>
    intro r numRows fuel he hs _ _ hf
    obtain ⟨f, rfl⟩ : ∃ f, fuel = f + 1 := ⟨fuel - 1, by simp at hf; omega⟩
    rw [Rd.readRows]
    by_cases hg : r.err = 0 ∧ (p.maxRows = 0 ∨ numRows < p.maxRows)
    · rw [if_pos hg]
      simp only [rows1DBits, List.map_nil, List.flatten_nil, List.nil_append] at hs
      have hbl : 72 ≤ r.bitsLeft := by
        rw [← stream_length, hs]; simp [codeBits_length]; omega
      obtain ⟨f2, hf2⟩ : ∃ f2, r.bitsLeft + 2 = f2 + 6 := ⟨r.bitsLeft + 2 - 6, by omega⟩
      have hrtc := dec1D_rtc p hc hig pad 6 { r with line := [] } f2 (by omega) (by omega) he rfl hs
      have hd : (r.decodeScanLine p []).1 = Rd.decode1DGo { r with line := [] } p (f2 + 6) 0 true 0 false := by
        unfold Rd.decodeScanLine
        have hk1 : ¬ p.k < 0 := by omega
        simp only [hk1, if_false, hk, if_true]
        unfold Rd.decode1D
        show Rd.decode1DGo _ p (r.bitsLeft + 2) 0 true 0 false = _
        rw [hf2]
      rcases hds : r.decodeScanLine p [] with ⟨r1, ref1⟩
      rw [hds] at hd
      simp only at hd ⊢
      rw [hd]
      simp only [Nat.sub_self] at hrtc
      simp [hrtc.1, hrtc.2]
    · rw [if_neg hg, if_pos he.1]
  | cons row rest ih =>
    intro r numRows fuel he hs hok hmax hf
    obtain ⟨f, rfl⟩ : ∃ f, fuel = f + 1 := ⟨fuel - 1, by simp at hf; omega⟩
    obtain ⟨h1, h2, h3⟩ := hok row (by simp)
    have hg : r.err = 0 ∧ (p.maxRows = 0 ∨ numRows < p.maxRows) := ⟨he.1, by simp only [List.length_cons] at hmax; omega⟩
    rw [Rd.readRows, if_pos hg]
    simp only [rows1DBits, List.map_cons, List.flatten_cons, List.append_assoc] at hs
    have hrest : 13 ≤ ((rest.map fun row => encode1DLine p (pixelsOf p row)).flatten ++
        ((List.replicate 6 (codeBits 1 12)).flatten ++ pad)).length := by
      simp [codeBits_length]; omega
    obtain ⟨d1, d2, d3⟩ := ccitt_g3_1d_row_rt p row r _ hc hal h1 h3 he hs hrest
    have hds : r.decodeScanLine p [] = (r.decode1D p, []) := by
      unfold Rd.decodeScanLine
      have hk1 : ¬ p.k < 0 := by omega
      simp [hk1, hk]
    rw [hds]
    simp only []
    have hne : (r.decode1D p).line.isEmpty = false := by
      rw [d3]
      have hl := bytesToBits_length row
      have : 0 < p.lineBytes := by unfold CParams.lineBytes; omega
      cases hb : bytesToBits row with
      | nil => rw [hb] at hl; simp at hl; omega
      | cons a as => rfl
    rw [hne]
    simp only [Bool.false_eq_true, if_false]
    have hrec := ih { (r.decode1D p) with line := [] } (numRows + 1) f d1 d2
      (fun r' hr' => hok r' (by simp [hr'])) (by simp only [List.length_cons] at hmax; omega) (by simp at hf; omega)
    rw [hrec, d3, packBits_bytes row h2]

theorem lineBytes_pos (p : CParams) (hc : 0 < p.columns) : 0 < p.lineBytes := by
  unfold CParams.lineBytes; omega

/-- **Group 3 one-dimensional stream round trip** (K = 0, no EOL, no byte alignment, with the
return-to-control sequence): every list of admissible rows (also rows ending in a run that is a
positive multiple of 64, the former class `ccitt-1d-final-run-64`) is decoded back, for any row limit `M` of the reader that is `0` or
not below the number of rows. -/
theorem ccitt_g3_1d_stream_rt (p : CParams) (M : Nat) (rows : List Bytes)
    (hk : p.k = 0) (heol : p.endOfLine = false) (hal : p.byteAlign = false) (hig : p.ignoreEOB = false)
    (hc : 0 < p.columns) (hok : Rows1DOk p rows) (hmaxE : p.maxRows = 0 ∨ rows.length ≤ p.maxRows)
    (hmaxD : M = 0 ∨ rows.length ≤ M) :
    decodeAll { p with maxRows := M } (encodeAll p rows.flatten).1 = (rows.flatten, 1) := by
  have hlb := lineBytes_pos p hc
  obtain ⟨_, k, hk8, hbits⟩ := encodeAll_bits p rows hal hlb (fun r hr => (hok r hr).1) (fun r hr => (hok r hr).2.2) hmaxE
  rw [allRowBits_k0 p hk heol] at hbits
  have heob : endOfBlockBits p = (List.replicate 6 (codeBits 1 12)).flatten := by
    unfold endOfBlockBits; simp [hig, hk]
  rw [heob, List.append_assoc] at hbits
  generalize (encodeAll p rows.flatten).1 = data at hbits
  unfold decodeAll decodeRows
  have hk' : ({ p with maxRows := M } : CParams).k = 0 := hk
  have href : (if ({ p with maxRows := M } : CParams).k ≠ 0 then
      List.replicate (({ p with maxRows := M } : CParams).lineBytes * 8) (!({ p with maxRows := M } : CParams).blackIs1) else []) = [] := by
    rw [if_neg (by rw [hk']; simp)]
  simp only [href]
  have hfuel : rows.length < 8 * data.length + 8 := by
    have h1 := rows1DBits_length p hc rows
    have h2 := congrArg List.length hbits
    rw [bytesToBits_length, List.length_append] at h2
    omega
  have := readRows_1d { p with maxRows := M } hk hc hal hig (List.replicate k false) rows
    { win := [], src := data, err := 0, line := [] } 0 (8 * data.length + 8) ⟨rfl, rfl, rfl⟩
    (by
      have hsame : rows1DBits { p with maxRows := M } rows = rows1DBits p rows := rfl
      show bytesToBits data = _
      rw [hsame]; exact hbits) hok (by simpa using hmaxD) hfuel
  rw [this]

/-! ## Group 4: changing elements -/

/-- `changesGo` on stored bits -/
def chg : Bool → Nat → Bits → List Nat
  | _, _, [] => []
  | prev, x, c :: rest => if c ≠ prev then x :: chg c (x + 1) rest else chg prev (x + 1) rest

theorem changesGo_map : ∀ (bs : Bits) (prev : Bool) (x : Nat),
    changesGo (b2n prev) x (bs.map b2n) = chg prev x bs := by
  intro bs
  induction bs with
  | nil => intro _ _; rfl
  | cons c rest ih =>
    intro prev x
    simp only [List.map_cons, changesGo, chg]
    by_cases h : c = prev
    · subst h; simp [ih]
    · have : b2n c ≠ b2n prev := fun h' => h ((b2n_inj c prev).1 h')
      simp [h, this, ih]

theorem chg_replicate (c : Bool) : ∀ (j x : Nat) (t : Bits), chg c x (List.replicate j c ++ t) = chg c (x + j) t := by
  intro j
  induction j with
  | zero => intro x t; simp
  | succ j ih =>
    intro x t
    simp only [List.replicate_succ, List.cons_append, chg, ne_eq, not_true_eq_false, if_false]
    rw [ih]; congr 1; omega

theorem chg_ge : ∀ (bs : Bits) (prev : Bool) (x : Nat), ∀ y ∈ chg prev x bs, x ≤ y ∧ y < x + bs.length := by
  intro bs
  induction bs with
  | nil => intro _ _ y hy; simp [chg] at hy
  | cons c rest ih =>
    intro prev x y hy
    simp only [chg] at hy
    split at hy
    · simp only [List.mem_cons] at hy
      rcases hy with h | h
      · subst h; simp
      · have := ih c (x + 1) y h; simp only [List.length_cons]; omega
    · have := ih prev (x + 1) y hy; simp only [List.length_cons]; omega

/-- split a bit string at its first bit different from `c` -/
theorem span_eq (c : Bool) : ∀ (l : Bits), ∃ k t, l = List.replicate k c ++ t ∧ (t = [] ∨ ∃ t', t = (!c) :: t') := by
  intro l
  induction l with
  | nil => exact ⟨0, [], rfl, .inl rfl⟩
  | cons d rest ih =>
    by_cases h : d = c
    · obtain ⟨k, t, h1, h2⟩ := ih
      exact ⟨k + 1, t, by rw [h, h1, List.replicate_succ]; rfl, h2⟩
    · refine ⟨0, d :: rest, rfl, .inr ⟨rest, ?_⟩⟩
      have : d = !c := by cases d <;> cases c <;> simp_all
      rw [this]

theorem chg_sorted : ∀ (bs : Bits) (prev : Bool) (x : Nat), (chg prev x bs).Pairwise (· < ·) := by
  intro bs
  induction bs with
  | nil => intro _ _; simp [chg]
  | cons c rest ih =>
    intro prev x
    simp only [chg]
    split
    · rw [List.pairwise_cons]
      refine ⟨?_, ih c (x + 1)⟩
      intro y hy
      have := chg_ge rest c (x + 1) y hy; omega
    · exact ih prev (x + 1)

/-- in a strictly increasing list everything from index `searchGT` on is beyond `a0` -/
theorem searchGT_spec : ∀ (l : List Nat) (a0 : Int), l.Pairwise (· < ·) →
    ∀ i v, searchGT l a0 ≤ i → l[i]? = some v → a0 < (v : Int) := by
  intro l
  induction l with
  | nil => intro a0 _ i v _ h; simp at h
  | cons c rest ih =>
    intro a0 hp i v hi hg
    rw [List.pairwise_cons] at hp
    unfold searchGT at hi
    simp only [List.takeWhile_cons] at hi
    by_cases hc : (c : Int) ≤ a0
    · simp only [hc, decide_true, if_true, List.length_cons] at hi
      cases i with
      | zero => omega
      | succ j =>
        simp only [List.getElem?_cons_succ] at hg
        exact ih a0 hp.2 j v (by unfold searchGT; omega) hg
    · cases i with
      | zero =>
        simp only [List.getElem?_cons_zero, Option.some.injEq] at hg
        omega
      | succ j =>
        simp only [List.getElem?_cons_succ] at hg
        have hv : v ∈ rest := List.mem_of_getElem? hg
        have := hp.1 v hv
        omega

theorem changeAt_gt (l : List Nat) (columns : Nat) (a0 : Int) (hs : l.Pairwise (· < ·)) (ha : a0 < (columns : Int))
    (i : Nat) (hi : searchGT l a0 ≤ i) : a0 < (changeAt l columns i : Int) := by
  unfold changeAt
  cases hg : l[i]? with
  | none => simpa using ha
  | some v => exact searchGT_spec l a0 hs i v hi hg

/-- the list of changes up to `a0`, then those beyond -/
theorem searchGT_append (A L : List Nat) (a0 : Int) (hA : ∀ x ∈ A, (x : Int) ≤ a0) (hL : ∀ x ∈ L.head?, a0 < (x : Int)) :
    searchGT (A ++ L) a0 = A.length := by
  unfold searchGT
  induction A with
  | nil =>
    cases L with
    | nil => rfl
    | cons c rest =>
      have := hL c (by simp)
      simp only [List.nil_append, List.takeWhile_cons]
      have : ¬ ((c : Int) ≤ a0) := by omega
      simp [this]
  | cons a as ih =>
    have ha := hA a (by simp)
    simp only [List.cons_append, List.takeWhile_cons, ha, decide_true, if_true, List.length_cons]
    rw [ih (fun x hx => hA x (by simp [hx]))]

theorem changeAt_append (A L : List Nat) (columns i : Nat) :
    changeAt (A ++ L) columns (A.length + i) = changeAt L columns i := by
  unfold changeAt
  rw [List.getElem?_append_right (by omega)]
  simp

/-- `nextTwoChanges` looks at the first two changes beyond `a0` -/
theorem nextTwo_append (A L : List Nat) (columns : Nat) (a0 : Int) (hA : ∀ x ∈ A, (x : Int) ≤ a0)
    (hL : ∀ x ∈ L.head?, a0 < (x : Int)) :
    nextTwoChanges (A ++ L) columns a0 = (changeAt L columns 0, changeAt L columns 1) := by
  unfold nextTwoChanges
  simp only [searchGT_append A L a0 hA hL]
  rw [show A.length = A.length + 0 from rfl, changeAt_append, Nat.add_assoc, changeAt_append]

/-- `fillRowBits` with the 2-D coder's arguments (`start` may be the imaginary position −1) -/
theorem fillRow_spec2 (line pre : Bits) (start stop : Int) (fill : Bool) (h : LineIs line pre)
    (hs : start.toNat = pre.length) (h1 : -1 ≤ start) :
    LineIs (fillRow line start stop fill) (pre ++ List.replicate (stop.toNat - pre.length) fill) := by
  by_cases hge : start ≥ stop
  · have : stop.toNat - pre.length = 0 := by omega
    unfold fillRow
    rw [if_pos hge, this]; simpa using h
  · have hstop : 0 ≤ stop := by omega
    by_cases hlen : stop.toNat - pre.length = 0
    · -- only possible for start = −1, stop = 0
      have hst : start = -1 := by omega
      have hs0 : stop = 0 := by omega
      have hpre : pre = [] := List.eq_nil_of_length_eq_zero (by omega)
      subst hpre
      have hline : line = [] := by simpa [LineIs, ceil8] using h
      subst hline hst hs0
      simp only [hlen, List.replicate_zero, List.append_nil]
      unfold fillRow
      cases fill <;> simp [setRange, LineIs, ceil8]
    · have hfr : fillRow line start stop fill = fillRow line (pre.length : Int) ((pre.length : Int) + ((stop.toNat - pre.length : Nat) : Int)) fill := by
        have e : (pre.length : Int) + ((stop.toNat - pre.length : Nat) : Int) = stop := by omega
        rw [e]
        unfold fillRow
        have c1 : ¬ ((pre.length : Int) ≥ stop) := by omega
        rw [if_neg hge, if_neg c1, hs]
        simp
      rw [hfr]
      exact fillRow_spec line pre _ fill h

/-! ## Group 4: one mode code of the reader -/

theorem modeEntry_fits : ∀ i, i < 9 → (modeEntry i).1 < 2 ^ (modeEntry i).2.1 ∧ 1 ≤ (modeEntry i).2.1 ∧ (modeEntry i).2.1 ≤ 7 := by
  decide

/-- the reader recognises mode code `i` (pass, horizontal, V0, VR1–3, VL1–3) and consumes it -/
theorem dec2D_mode (i : Nat) (hi : i < 9) (r : Rd) (rest : Bits) (he : Rd.clean r)
    (hs : Rd.stream r = codeBits (modeEntry i).1 (modeEntry i).2.1 ++ rest) (hrest : 7 ≤ rest.length) :
    ccitt_mainTable_State (r.peek 7).1 = (modeEntry i).2.2.1 ∧
    ccitt_mainTable_Param (r.peek 7).1 = (modeEntry i).2.2.2 ∧
    Rd.clean ((r.peek 7).2.consume (ccitt_mainTable_Width (r.peek 7).1)) ∧
    Rd.stream ((r.peek 7).2.consume (ccitt_mainTable_Width (r.peek 7).1)) = rest ∧
    ((r.peek 7).2.consume (ccitt_mainTable_Width (r.peek 7).1)).line = r.line := by
  obtain ⟨hfit, hw1, hw7⟩ := modeEntry_fits i hi
  generalize hc : (modeEntry i).1 = c at *
  generalize hw : (modeEntry i).2.1 = w at *
  have hlen : 7 ≤ (Rd.stream r).length := by rw [hs, List.length_append]; omega
  obtain ⟨p1, p2, p3, p4⟩ := peek_spec r 7 he (by omega) hlen
  have htake : (Rd.stream r).take 7 = codeBits c w ++ rest.take (7 - w) := by
    rw [hs, List.take_append, codeBits_length, List.take_of_length_le (by rw [codeBits_length]; exact hw7)]
  have hval : (r.peek 7).1 = c * 2 ^ (7 - w) + bitsToNat (rest.take (7 - w)) := by
    rw [p1, htake, bitsToNat_append, bitsToNat_codeBits, Nat.mod_eq_of_lt hfit, List.length_take, Nat.min_eq_left (by omega)]
  have hslt : bitsToNat (rest.take (7 - w)) < 2 ^ (7 - w) := by
    have := bitsToNat_lt (rest.take (7 - w))
    rwa [List.length_take, Nat.min_eq_left (by omega)] at this
  have htab := main_table_complete i hi _ (by rw [hw]; exact hslt)
  simp only [hc, hw] at htab
  rw [← hval] at htab
  obtain ⟨t1, t2, t3⟩ := htab
  rw [t1, t2, t3]
  have hcons := consume_spec (r.peek 7).2 w p2 (by omega) (by rw [p3]; omega)
  rw [p3, hs, List.drop_append, codeBits_length, Nat.sub_self, List.drop_zero,
    List.drop_of_length_le (by rw [codeBits_length]; exact Nat.le_refl _), List.nil_append, p4] at hcons
  exact ⟨rfl, rfl, hcons.1, hcons.2.1, hcons.2.2⟩

theorem c_eq_one (c : Bool) : (b2n c == 1) = c := by cases c <;> rfl
theorem c_eq_zero (c : Bool) : (b2n c == 0) = !c := by cases c <;> rfl
theorem one_sub_b2n (c : Bool) : 1 - b2n c = b2n (!c) := by cases c <;> rfl

/-- pass mode -/
theorem dec2D_pass (p : CParams) (refCh : List Nat) (r : Rd) (rest pre : Bits) (f : Nat) (a0 pa : Int) (c pc : Nat)
    (b1 b2 : Nat) (he : Rd.clean r) (hs : Rd.stream r = codeBits 1 4 ++ rest) (hrest : 7 ≤ rest.length)
    (ha : a0 < (p.columns : Int)) (hg : ¬ (a0 = pa ∧ c = pc)) (hl : LineIs r.line pre)
    (hpl : a0.toNat = pre.length) (hm1 : -1 ≤ a0) (hb : findB1B2 refCh p.columns a0 c p.whiteBit = (b1, b2)) :
    ∃ r', Rd.decode2DGo r p refCh (f + 1) a0 pa c pc = Rd.decode2DGo r' p refCh f (b2 : Int) a0 c c ∧
      Rd.clean r' ∧ Rd.stream r' = rest ∧ LineIs r'.line (pre ++ List.replicate (b2 - pre.length) (c == 1)) := by
  obtain ⟨m1, m2, m3, m4, m5⟩ := dec2D_mode 0 (by decide) r rest he hs hrest
  rw [Rd.decode2DGo, if_pos ⟨ha, he.1⟩, if_neg hg]
  rcases hpk : r.peek 7 with ⟨value, r1⟩
  rw [hpk] at m1 m2 m3 m4 m5
  simp only at m1 m2 m3 m4 m5 ⊢
  have e1 : ¬ (ccitt_mainTable_State value = ccitt_S_EOL) := by rw [m1]; decide
  have e2 : ccitt_mainTable_State value = ccitt_S_Pass := by rw [m1]; rfl
  rw [if_neg e1, hb]
  simp only [e2, if_true]
  have hline := fillRow_spec2 (r1.consume (ccitt_mainTable_Width value)).line pre a0 (b2 : Int) (c == 1)
    (by rw [m5]; exact hl) hpl hm1
  simp only [Int.toNat_natCast] at hline
  exact ⟨_, rfl, m3, m4, hline⟩

/-- vertical modes -/
theorem dec2D_vert (p : CParams) (refCh : List Nat) (r : Rd) (rest pre : Bits) (f : Nat) (a0 pa : Int) (c pc : Nat)
    (b1 b2 : Nat) (delta : Int) (hd1 : -3 ≤ delta) (hd2 : delta ≤ 3)
    (he : Rd.clean r) (hs : Rd.stream r = vertCode delta ++ rest) (hrest : 7 ≤ rest.length)
    (ha : a0 < (p.columns : Int)) (hg : ¬ (a0 = pa ∧ c = pc)) (hl : LineIs r.line pre)
    (hpl : a0.toNat = pre.length) (hm1 : -1 ≤ a0) (hb : findB1B2 refCh p.columns a0 c p.whiteBit = (b1, b2))
    (hle : (b1 : Int) + delta ≤ (p.columns : Int)) :
    ∃ r', Rd.decode2DGo r p refCh (f + 1) a0 pa c pc = Rd.decode2DGo r' p refCh f ((b1 : Int) + delta) a0 (1 - c) c ∧
      Rd.clean r' ∧ Rd.stream r' = rest ∧
      LineIs r'.line (pre ++ List.replicate (((b1 : Int) + delta).toNat - pre.length) (c == 1)) := by
  obtain ⟨i, hi2, hi8, hvc, hint⟩ := vertCode_modeEntry delta hd1 hd2
  rw [hvc] at hs
  obtain ⟨m1, m2, m3, m4, m5⟩ := dec2D_mode i (by omega) r rest he hs hrest
  have hst : (modeEntry i).2.2.1 = ccitt_S_Vert := by
    have : i = 2 ∨ i = 3 ∨ i = 4 ∨ i = 5 ∨ i = 6 ∨ i = 7 ∨ i = 8 := by omega
    rcases this with h | h | h | h | h | h | h <;> subst h <;> rfl
  rw [Rd.decode2DGo, if_pos ⟨ha, he.1⟩, if_neg hg]
  rcases hpk : r.peek 7 with ⟨value, r1⟩
  rw [hpk] at m1 m2 m3 m4 m5
  simp only at m1 m2 m3 m4 m5 ⊢
  rw [hst] at m1
  have e1 : ¬ (ccitt_mainTable_State value = ccitt_S_EOL) := by rw [m1]; decide
  have e2 : ¬ (ccitt_mainTable_State value = ccitt_S_Pass) := by rw [m1]; decide
  have e3 : ¬ (ccitt_mainTable_State value = ccitt_S_Horiz) := by rw [m1]; decide
  rw [if_neg e1, hb]
  simp only [e2, e3, m1, if_false, if_true, m2, hint, Int.min_eq_left hle]
  have hline := fillRow_spec2 (r1.consume (ccitt_mainTable_Width value)).line pre a0 ((b1 : Int) + delta) (c == 1)
    (by rw [m5]; exact hl) hpl hm1
  exact ⟨_, rfl, m3, m4, hline⟩

/-- horizontal mode: two runs, the first in the current colour -/
theorem dec2D_horiz (p : CParams) (refCh : List Nat) (r : Rd) (rest pre : Bits) (f : Nat) (a0 pa : Int) (c : Bool) (pc : Nat)
    (n1 n2 : Nat) (he : Rd.clean r)
    (hs : Rd.stream r = codeBits 1 3 ++ encodeRun (b2n c == p.whiteBit) n1 ++ encodeRun (b2n c != p.whiteBit) n2 ++ rest)
    (hrest : 13 ≤ rest.length) (ha : a0 < (p.columns : Int)) (hg : ¬ (a0 = pa ∧ b2n c = pc)) (hl : LineIs r.line pre)
    (hpl : (max a0 0).toNat = pre.length) (hfit : pre.length + n1 + n2 ≤ p.columns) :
    ∃ r', Rd.decode2DGo r p refCh (f + 1) a0 pa (b2n c) pc =
        Rd.decode2DGo r' p refCh f ((pre.length + n1 + n2 : Nat) : Int) a0 (b2n c) (b2n c) ∧
      Rd.clean r' ∧ Rd.stream r' = rest ∧
      LineIs r'.line (pre ++ List.replicate n1 c ++ List.replicate n2 (!c)) := by
  rw [List.append_assoc, List.append_assoc] at hs
  have hr1 : 7 ≤ (encodeRun (b2n c == p.whiteBit) n1 ++ (encodeRun (b2n c != p.whiteBit) n2 ++ rest)).length := by
    simp only [List.length_append]; omega
  obtain ⟨m1, m2, m3, m4, m5⟩ := dec2D_mode 1 (by decide) r _ he hs hr1
  rw [Rd.decode2DGo, if_pos ⟨ha, he.1⟩, if_neg hg]
  rcases hpk : r.peek 7 with ⟨value, r1⟩
  rw [hpk] at m1 m2 m3 m4 m5
  simp only at m1 m2 m3 m4 m5 ⊢
  have e1 : ¬ (ccitt_mainTable_State value = ccitt_S_EOL) := by rw [m1]; decide
  have e2 : ¬ (ccitt_mainTable_State value = ccitt_S_Pass) := by rw [m1]; decide
  have e3 : ccitt_mainTable_State value = ccitt_S_Horiz := by rw [m1]; rfl
  rw [if_neg e1]
  rcases hb : findB1B2 refCh p.columns a0 (b2n c) p.whiteBit with ⟨b1, b2⟩
  simp only [e2, e3, if_false, if_true]
  -- first run
  generalize hr2 : r1.consume (ccitt_mainTable_Width value) = r2 at m3 m4 m5
  have hr2rest : tblBits (b2n c == p.whiteBit) ≤ (encodeRun (b2n c != p.whiteBit) n2 ++ rest).length := by
    simp only [List.length_append]; cases (b2n c == p.whiteBit) <;> simp [tblBits] <;> omega
  obtain ⟨q1, q2, q3, q4⟩ := fullRun_rt (b2n c == p.whiteBit) n1 p.columns (by omega) r2 _ m3 m4 hr2rest
  rcases hfr1 : r2.decodeFullRun p.columns (b2n c == p.whiteBit) (p.columns / 64 + 2) 0 with ⟨len, r3⟩
  rw [hfr1] at q1 q2 q3 q4
  simp only at q1 q2 q3 q4 ⊢
  subst q1
  have hmin1 : min ((len : Nat) : Int) ((p.columns : Int) - max a0 0) = (len : Int) := by omega
  simp only [hmin1]
  have hline1 := fillRow_spec2 r3.line pre (max a0 0) (max a0 0 + (len : Int)) (b2n c == 1)
    (by rw [q4, m5]; exact hl) hpl (by omega)
  have hst1 : (max a0 0 + (len : Int)).toNat - pre.length = len := by omega
  rw [hst1, c_eq_one] at hline1
  -- second run
  generalize hr4 : ({ r3 with line := fillRow r3.line (max a0 0) (max a0 0 + (len : Int)) (b2n c == 1) } : Rd) = r4
  have he4 : Rd.clean r4 := by rw [← hr4]; exact q2
  have hs4 : Rd.stream r4 = encodeRun (b2n c != p.whiteBit) n2 ++ rest := by rw [← hr4]; exact q3
  have hl4 : LineIs r4.line (pre ++ List.replicate len c) := by
    rw [← hr4]; show LineIs (fillRow r3.line (max a0 0) (max a0 0 + (len : Int)) (b2n c == 1)) _
    rw [c_eq_one]; exact hline1
  have hr4rest : tblBits (b2n c != p.whiteBit) ≤ rest.length := by
    cases (b2n c != p.whiteBit) <;> simp [tblBits] <;> omega
  obtain ⟨s1, s2, s3, s4⟩ := fullRun_rt (b2n c != p.whiteBit) n2 p.columns (by omega) r4 rest he4 hs4 hr4rest
  rcases hfr2 : r4.decodeFullRun p.columns (b2n c != p.whiteBit) (p.columns / 64 + 2) 0 with ⟨len2, r5⟩
  rw [hfr2] at s1 s2 s3 s4
  simp only at s1 s2 s3 s4 ⊢
  subst s1
  have hmin2 : min ((len2 : Nat) : Int) ((p.columns : Int) - (max a0 0 + (len : Int))) = (len2 : Int) := by omega
  simp only [hmin2]
  have hpl2 : (max a0 0 + (len : Int)).toNat = (pre ++ List.replicate len c).length := by simp; omega
  have hline2 := fillRow_spec2 r5.line (pre ++ List.replicate len c) (max a0 0 + (len : Int))
    (max a0 0 + (len : Int) + (len2 : Int)) (b2n c == 0) (by rw [s4]; exact hl4) hpl2 (by omega)
  have hst2 : (max a0 0 + (len : Int) + (len2 : Int)).toNat - (pre ++ List.replicate len c).length = len2 := by
    simp; omega
  rw [hst2, c_eq_zero] at hline2
  have hnew : max a0 0 + (len : Int) + (len2 : Int) = ((pre.length + len + len2 : Nat) : Int) := by omega
  rw [hnew] at hline2 ⊢
  refine ⟨_, rfl, s2, s3, ?_⟩
  show LineIs (fillRow r5.line _ _ (b2n c == 0)) _
  rw [c_eq_zero]; exact hline2

/-! ## Group 4: writer and reader in step along a row -/

/-- the pixel at position `a0` itself (none for the imaginary position −1) -/
def ext (a0 : Int) (c : Bool) : Bits := if a0 = -1 then [] else [c]

/-- coder state at `a0` with colour `c`: `D` = pixels before `a0`, `l` = pixels after `a0`,
    `A` = changing elements up to `a0`; the rest of the changing elements are those of `l` -/
structure St (columns : Nat) (bs : Bits) (lineCh : List Nat) (a0 : Int) (c : Bool) (D l : Bits) (A : List Nat) : Prop where
  ch : lineCh = A ++ chg c (a0 + 1).toNat l
  hA : ∀ x ∈ A, (x : Int) ≤ a0
  len : (a0 + 1).toNat + l.length = columns
  lo : -1 ≤ a0
  dlen : D.length = (max a0 0).toNat
  bsq : bs = D ++ ext a0 c ++ l

theorem ext_length (a0 : Int) (c : Bool) (h : -1 ≤ a0) : (ext a0 c).length = (a0 + 1).toNat - (max a0 0).toNat := by
  unfold ext; split
  · subst_vars; rfl
  · simp; omega

theorem ext_replicate (a0 : Int) (c : Bool) : ext a0 c = List.replicate (ext a0 c).length c := by
  unfold ext; split <;> rfl

theorem enc2D_done (p : CParams) (refCh lineCh : List Nat) (n : Nat) (a0 : Int) (c : Nat) (h : ¬ a0 < (p.columns : Int)) :
    encode2DGo p refCh lineCh n a0 c = [] := by
  cases n with
  | zero => rfl
  | succ m => rw [encode2DGo, if_neg h]

theorem dec2D_done (p : CParams) (refCh : List Nat) (r : Rd) (fd : Nat) (a0 pa : Int) (c pc : Nat)
    (h : ¬ a0 < (p.columns : Int)) : Rd.decode2DGo r p refCh fd a0 pa c pc = r := by
  cases fd with
  | zero => rfl
  | succ m => rw [Rd.decode2DGo, if_neg (fun hh => h hh.1)]

/-- the first two changing elements beyond `a0`, read off the pixels after `a0` -/
theorem next_changes {columns : Nat} {bs : Bits} {lineCh : List Nat} {a0 : Int} {c : Bool} {D l : Bits} {A : List Nat}
    (h : St columns bs lineCh a0 c D l A) :
    ∃ k1 t, l = List.replicate k1 c ++ t ∧
      ((t = [] ∧ nextTwoChanges lineCh columns a0 = (columns, columns) ∧ (a0 + 1).toNat + k1 = columns) ∨
       (∃ k2 t2, t = (!c) :: (List.replicate k2 (!c) ++ t2) ∧
          ((t2 = [] ∧ nextTwoChanges lineCh columns a0 = ((a0 + 1).toNat + k1, columns) ∧
              (a0 + 1).toNat + k1 + 1 + k2 = columns) ∨
           (∃ t3, t2 = c :: t3 ∧
              nextTwoChanges lineCh columns a0 = ((a0 + 1).toNat + k1, (a0 + 1).toNat + k1 + 1 + k2))))) := by
  obtain ⟨k1, t, hl, ht⟩ := span_eq c l
  have hlen := h.len
  have hL : ∀ x ∈ (chg c (a0 + 1).toNat l).head?, a0 < (x : Int) := by
    intro x hx
    have := chg_ge l c (a0 + 1).toNat x (List.mem_of_mem_head? hx)
    have := h.lo
    omega
  have hnt := nextTwo_append A (chg c (a0 + 1).toNat l) columns a0 h.hA hL
  rw [← h.ch] at hnt
  rw [hl, chg_replicate] at hnt
  refine ⟨k1, t, hl, ?_⟩
  rw [hl] at hlen
  simp only [List.length_append, List.length_replicate] at hlen
  rcases ht with ht | ⟨t', ht⟩
  · subst ht
    left
    refine ⟨rfl, ?_, by simpa using hlen⟩
    rw [hnt]; simp [chg, changeAt]
  · subst ht
    right
    obtain ⟨k2, t2, ht', ht2⟩ := span_eq (!c) t'
    refine ⟨k2, t2, by rw [ht'], ?_⟩
    have hc1 : chg c ((a0 + 1).toNat + k1) ((!c) :: t') = ((a0 + 1).toNat + k1) :: chg (!c) ((a0 + 1).toNat + k1 + 1 + k2) t2 := by
      have hne : (!c) ≠ c := by cases c <;> simp
      rw [chg, if_pos hne, ht', chg_replicate]
    rw [hc1] at hnt
    rw [ht'] at hlen
    simp only [List.length_cons, List.length_append, List.length_replicate] at hlen
    rcases ht2 with ht2 | ⟨t3, ht2⟩
    · subst ht2
      left
      refine ⟨rfl, ?_, by simp at hlen; omega⟩
      rw [hnt]; simp [chg, changeAt]
    · right
      have hcc : (!(!c)) = c := by cases c <;> rfl
      rw [hcc] at ht2
      refine ⟨t3, ht2, ?_⟩
      rw [hnt, ht2]
      have hne : c ≠ (!c) := by cases c <;> simp
      simp [chg, hne, changeAt]

/-- keeps a hypothesis out of the sight of `omega` -/
def Hide (P : Prop) : Prop := P

theorem replicate_succ_append (n : Nat) (c : Bool) : List.replicate (n + 1) c = List.replicate n c ++ [c] :=
  List.replicate_succ'

/-- **Group 4 row: writer and reader in step** (induction on the writer's fuel, i.e. on
    `Columns − a0`).  From any coder state, the reader follows the mode codes (pass, vertical,
    horizontal) the writer emits and ends with the whole row in its line buffer. -/
theorem g4_lockstep (p : CParams) (w : Bool) (bs : Bits) (refCh : List Nat) (hsorted : refCh.Pairwise (· < ·))
    (rest : Bits) (hrest : 13 ≤ rest.length) :
    ∀ (n : Nat) (a0 : Int) (c : Bool) (D l : Bits) (A : List Nat) (r : Rd) (pa : Int) (pc fd : Nat),
      St p.columns bs (chg w 0 bs) a0 c D l A → a0 < (p.columns : Int) → ((p.columns : Int) - a0).toNat ≤ n → pa < a0 →
      Rd.clean r → Rd.stream r = encode2DGo p refCh (chg w 0 bs) n a0 (b2n c) ++ rest → LineIs r.line D →
      (encode2DGo p refCh (chg w 0 bs) n a0 (b2n c)).length ≤ fd →
      ∃ r', Rd.decode2DGo r p refCh fd a0 pa (b2n c) pc = r' ∧ Rd.clean r' ∧ Rd.stream r' = rest ∧ LineIs r'.line bs := by
  intro n
  induction n with
  | zero => intro a0 c D l A r pa pc fd _ ha hn; omega
  | succ m ih =>
    intro a0 c D l A r pa pc fd hst ha hn hpa he hs hl hfd
    have hlo := hst.lo
    have hdl := hst.dlen
    have hg : ¬ (a0 = pa ∧ b2n c = pc) := by omega
    rw [encode2DGo, if_pos ha] at hs hfd
    obtain ⟨k1, t, hlt, hcases⟩ := next_changes hst
    rcases hb : findB1B2 refCh p.columns a0 (b2n c) p.whiteBit with ⟨b1, b2⟩
    -- b2 lies beyond a0
    have hb2gt : a0 < (b2 : Int) := by
      have : b2 = changeAt refCh p.columns
          ((let idx := searchGT refCh a0
            if idx < refCh.length ∧ (decide (idx % 2 = 0) != decide (1 - p.whiteBit = 1 - b2n c)) then idx + 1 else idx) + 1) := by
        have := congrArg Prod.snd hb
        simp only [findB1B2] at this
        exact this.symm
      rw [this]
      apply changeAt_gt refCh p.columns a0 hsorted ha
      simp only []
      split <;> omega
    have hbsq := hst.bsq
    have hextl := ext_length a0 c hlo
    have hlenl := hst.len
    rw [hlt] at hlenl
    simp only [List.length_append, List.length_replicate] at hlenl
    -- a1 in every case
    obtain ⟨a2, hnt⟩ : ∃ a2, nextTwoChanges (chg w 0 bs) p.columns a0 = ((a0 + 1).toNat + k1, a2) := by
      rcases hcases with ⟨_, hnt, hk1⟩ | ⟨k2, t2, _, ⟨_, hnt, _⟩ | ⟨t3, _, hnt⟩⟩
      · exact ⟨p.columns, by rw [hnt, hk1]⟩
      · exact ⟨_, hnt⟩
      · exact ⟨_, hnt⟩
    have hcases' : Hide _ := hcases
    clear hcases
    by_cases hpass : b2 < (a0 + 1).toNat + k1
    · ---------------- pass mode
      rw [hnt, hb] at hs hfd
      simp only [] at hs hfd
      rw [if_pos hpass] at hs hfd
      simp only [List.length_append, codeBits_length] at hfd
      obtain ⟨f, rfl⟩ : ∃ f, fd = f + 1 := ⟨fd - 1, by omega⟩
      obtain ⟨r1, h1, h2, h3, h4⟩ := dec2D_pass p refCh r _ D f a0 pa (b2n c) pc b1 b2 he (by rw [List.append_assoc] at hs; exact hs)
        (by simp only [List.length_append]; omega) ha hg hl (by omega) hlo hb
      rw [c_eq_one] at h4
      obtain ⟨j, hj⟩ : ∃ j, b2 = (a0 + 1).toNat + j := ⟨b2 - (a0 + 1).toNat, by omega⟩
      have hjk : j < k1 := by omega
      have hst' : St p.columns bs (chg w 0 bs) (b2 : Int) c (D ++ List.replicate (b2 - D.length) c)
          (List.replicate (k1 - (j + 1)) c ++ t) A := by
        refine { ch := ?_, hA := fun x hx => by have := hst.hA x hx; omega, len := ?_, lo := by omega, dlen := ?_, bsq := ?_ }
        · rw [hst.ch, hlt]
          have e1 : List.replicate k1 c = List.replicate (j + 1) c ++ List.replicate (k1 - (j + 1)) c := by
            rw [List.replicate_append_replicate]; congr 1; omega
          conv => lhs; rw [e1, List.append_assoc, chg_replicate]
          congr 2; omega
        · simp only [List.length_append, List.length_replicate]; omega
        · simp only [List.length_append, List.length_replicate]; omega
        · rw [hbsq, hlt]
          have hext' : ext (b2 : Int) c = [c] := by unfold ext; rw [if_neg (by omega)]
          rw [hext', ext_replicate a0 c]
          simp only [List.append_assoc]
          congr 1
          rw [show [c] = List.replicate 1 c from rfl]
          simp only [← List.append_assoc, List.replicate_append_replicate]
          congr 2; omega
      obtain ⟨r2, g1, g2, g3, g4⟩ := ih (b2 : Int) c _ _ A r1 a0 (b2n c) f hst' (by omega) (by omega) hb2gt h2 h3 h4 (by omega)
      exact ⟨r2, by rw [h1, g1], g2, g3, g4⟩
    · -- the pixels up to a1 in the line buffer
      have hn1 : (((a0 + 1).toNat + k1 : Nat) : Int) - max a0 0 = (((a0 + 1).toNat + k1 - D.length : Nat) : Int) := by omega
      unfold Hide at hcases'
      rcases hcases' with ⟨ht, hnt', hk1⟩ | ⟨k2, t2, ht, hsub⟩
      · ---------------- no further change on the coding line: a1 = a2 = columns
        subst ht
        rw [hnt', hb] at hs hfd
        simp only [] at hs hfd
        rw [if_neg (by omega)] at hs hfd
        have hD' : D ++ List.replicate (p.columns - D.length) c = bs := by
          rw [hbsq, hlt, List.append_nil, ext_replicate a0 c, List.append_assoc, List.replicate_append_replicate]
          congr 2; omega
        by_cases hv : -3 ≤ (p.columns : Int) - (b1 : Int) ∧ (p.columns : Int) - (b1 : Int) ≤ 3
        · -- vertical, ends the row
          rw [if_pos hv] at hs hfd
          rw [enc2D_done p refCh _ m (p.columns : Int) _ (by omega), List.append_nil] at hs hfd
          have hfd1 : 1 ≤ fd := by
            obtain ⟨i, _, _, hvc, _⟩ := vertCode_modeEntry _ hv.1 hv.2
            rw [hvc, codeBits_length] at hfd
            have := (modeEntry_fits i (by omega)).2.1
            omega
          obtain ⟨f, rfl⟩ : ∃ f, fd = f + 1 := ⟨fd - 1, by omega⟩
          obtain ⟨r1, h1, h2, h3, h4⟩ := dec2D_vert p refCh r rest D f a0 pa (b2n c) pc b1 b2 _ hv.1 hv.2 he hs
            (by omega) ha hg hl (by omega) hlo hb (by omega)
          have ea : (b1 : Int) + ((p.columns : Int) - (b1 : Int)) = (p.columns : Int) := by omega
          rw [ea] at h1 h4
          rw [c_eq_one, Int.toNat_natCast, hD'] at h4
          exact ⟨r1, by rw [h1, dec2D_done p refCh r1 f _ _ _ _ (by omega)], h2, h3, h4⟩
        · -- horizontal with an empty second run
          rw [if_neg hv] at hs hfd
          rw [enc2D_done p refCh _ m (p.columns : Int) _ (by omega), List.append_nil, Nat.sub_self] at hs hfd
          have hn1' : ((p.columns : Int) - max a0 0).toNat = p.columns - D.length := by omega
          rw [hn1'] at hs hfd
          simp only [List.length_append, codeBits_length] at hfd
          obtain ⟨f, rfl⟩ : ∃ f, fd = f + 1 := ⟨fd - 1, by omega⟩
          obtain ⟨r1, h1, h2, h3, h4⟩ := dec2D_horiz p refCh r rest D f a0 pa c pc (p.columns - D.length) 0 he hs hrest ha hg hl
            (by omega) (by omega)
          have ea : ((D.length + (p.columns - D.length) + 0 : Nat) : Int) = (p.columns : Int) := by omega
          rw [ea] at h1
          simp only [List.replicate_zero, List.append_nil] at h4
          rw [hD'] at h4
          exact ⟨r1, by rw [h1, dec2D_done p refCh r1 f _ _ _ _ (by omega)], h2, h3, h4⟩
      · ---------------- a1 < columns is a changing element; a2 = a1 + 1 + k2
        subst ht
        simp only [List.length_cons, List.length_append, List.length_replicate] at hlenl
        have hcc : (!(!c)) = c := by cases c <;> rfl
        have hnc : (!c) ≠ c := by cases c <;> simp
        -- nextTwoChanges in both sub-cases, and whether a2 ends the row
        obtain ⟨hnt2, hend⟩ : nextTwoChanges (chg w 0 bs) p.columns a0 =
              ((a0 + 1).toNat + k1, (a0 + 1).toNat + k1 + 1 + k2) ∧
            ((t2 = [] ∧ (a0 + 1).toNat + k1 + 1 + k2 = p.columns) ∨ ∃ t3, t2 = c :: t3) := by
          rcases hsub with ⟨h1, h2, h3⟩ | ⟨t3, h1, h2⟩
          · exact ⟨by rw [h2, h3], .inl ⟨h1, h3⟩⟩
          · exact ⟨h2, .inr ⟨t3, h1⟩⟩
        clear hsub
        have hend' : Hide _ := hend
        clear hend
        rw [hnt2, hb] at hs hfd
        simp only [] at hs hfd
        rw [if_neg hpass] at hs hfd
        -- the changes of the coding line from a1 on
        have hchg : chg c (a0 + 1).toNat (List.replicate k1 c ++ (!c) :: (List.replicate k2 (!c) ++ t2)) =
            ((a0 + 1).toNat + k1) :: chg (!c) ((a0 + 1).toNat + k1 + 1) (List.replicate k2 (!c) ++ t2) := by
          rw [chg_replicate, chg, if_pos hnc]
        have hD1 : D ++ List.replicate ((a0 + 1).toNat + k1 - D.length) c = D ++ ext a0 c ++ List.replicate k1 c := by
          rw [ext_replicate a0 c, List.append_assoc, List.replicate_append_replicate]
          congr 2; omega
        by_cases hv : -3 ≤ (((a0 + 1).toNat + k1 : Nat) : Int) - (b1 : Int) ∧ (((a0 + 1).toNat + k1 : Nat) : Int) - (b1 : Int) ≤ 3
        · -- vertical mode: a0 := a1, colour flips
          rw [if_pos hv] at hs hfd
          have hvl : 1 ≤ (vertCode ((((a0 + 1).toNat + k1 : Nat) : Int) - (b1 : Int))).length := by
            obtain ⟨i, _, _, hvc, _⟩ := vertCode_modeEntry _ hv.1 hv.2
            rw [hvc, codeBits_length]
            exact (modeEntry_fits i (by omega)).2.1
          rw [one_sub_b2n] at hs hfd
          simp only [List.length_append] at hfd
          obtain ⟨f, rfl⟩ : ∃ f, fd = f + 1 := ⟨fd - 1, by omega⟩
          rw [List.append_assoc] at hs
          have hcolk : (a0 + 1).toNat + k1 ≤ p.columns := by
            have := hst.len; rw [hlt] at this; simp only [List.length_append, List.length_replicate] at this; omega
          obtain ⟨r1, h1, h2, h3, h4⟩ := dec2D_vert p refCh r _ D f a0 pa (b2n c) pc b1 b2 _ hv.1 hv.2 he hs
            (by simp only [List.length_append]; omega) ha hg hl (by omega) hlo hb (by omega)
          have ea : (b1 : Int) + ((((a0 + 1).toNat + k1 : Nat) : Int) - (b1 : Int)) = (((a0 + 1).toNat + k1 : Nat) : Int) := by omega
          rw [ea] at h1 h4
          rw [c_eq_one, Int.toNat_natCast, hD1] at h4
          rw [one_sub_b2n] at h1
          have hst' : St p.columns bs (chg w 0 bs) (((a0 + 1).toNat + k1 : Nat) : Int) (!c) (D ++ ext a0 c ++ List.replicate k1 c)
              (List.replicate k2 (!c) ++ t2) (A ++ [(a0 + 1).toNat + k1]) := by
            refine { ch := ?_, hA := ?_, len := ?_, lo := by omega, dlen := ?_, bsq := ?_ }
            · rw [hst.ch, hlt, hchg]
              simp only [List.append_assoc, List.cons_append, List.nil_append]
              congr 3
            · intro x hx
              rcases List.mem_append.mp hx with hx | hx
              · have := hst.hA x hx; omega
              · simp at hx; omega
            · simp only [List.length_append, List.length_replicate]; omega
            · simp only [List.length_append, List.length_replicate]; omega
            · rw [hbsq, hlt]
              have : ext (((a0 + 1).toNat + k1 : Nat) : Int) (!c) = [!c] := by unfold ext; rw [if_neg (by omega)]
              rw [this]; simp [List.append_assoc]
          obtain ⟨r2, g1, g2, g3, g4⟩ := ih _ (!c) _ _ _ r1 a0 (b2n c) f hst' (by omega) (by omega) (by omega) h2 h3 h4 (by omega)
          exact ⟨r2, by rw [h1, g1], g2, g3, g4⟩
        · -- horizontal mode: a0 := a2
          rw [if_neg hv] at hs hfd
          have hn1' : ((((a0 + 1).toNat + k1 : Nat) : Int) - max a0 0).toNat = (a0 + 1).toNat + k1 - D.length := by omega
          have hn2' : (a0 + 1).toNat + k1 + 1 + k2 - ((a0 + 1).toNat + k1) = k2 + 1 := by omega
          rw [hn1', hn2'] at hs hfd
          simp only [List.length_append, codeBits_length] at hfd
          obtain ⟨f, rfl⟩ : ∃ f, fd = f + 1 := ⟨fd - 1, by omega⟩
          have hbs2 : bs = (D ++ ext a0 c ++ List.replicate k1 c) ++ List.replicate (k2 + 1) (!c) ++ t2 := by
            rw [hbsq, hlt, List.replicate_succ]; simp [List.append_assoc]
          rw [List.append_assoc] at hs
          obtain ⟨r1, h1, h2, h3, h4⟩ := dec2D_horiz p refCh r _ D f a0 pa c pc ((a0 + 1).toNat + k1 - D.length) (k2 + 1) he
            hs (by simp only [List.length_append]; omega) ha hg hl
            (by omega) (by omega)
          have ea : ((D.length + ((a0 + 1).toNat + k1 - D.length) + (k2 + 1) : Nat) : Int) = (((a0 + 1).toNat + k1 + 1 + k2 : Nat) : Int) := by
            omega
          rw [ea] at h1
          rw [hD1] at h4
          unfold Hide at hend'
          rcases hend' with ⟨ht2, hcol⟩ | ⟨t3, ht2⟩
          · -- a2 = columns: the row is complete
            subst ht2
            rw [enc2D_done p refCh _ m _ _ (by omega), List.nil_append] at h3
            rw [List.append_nil] at hbs2
            rw [← hbs2] at h4
            exact ⟨r1, by rw [h1, dec2D_done p refCh r1 f _ _ _ _ (by omega)], h2, h3, h4⟩
          · subst ht2
            simp only [List.length_cons] at hlenl
            have hst' : St p.columns bs (chg w 0 bs) (((a0 + 1).toNat + k1 + 1 + k2 : Nat) : Int) c
                (D ++ ext a0 c ++ List.replicate k1 c ++ List.replicate (k2 + 1) (!c)) t3
                (A ++ [(a0 + 1).toNat + k1, (a0 + 1).toNat + k1 + 1 + k2]) := by
              refine { ch := ?_, hA := ?_, len := ?_, lo := by omega, dlen := ?_, bsq := ?_ }
              · rw [hst.ch, hlt, hchg, chg_replicate, chg, if_pos (by rw [ne_eq]; exact fun h => hnc h.symm)]
                simp only [List.append_assoc, List.cons_append, List.nil_append]
                congr 4
              · intro x hx
                rcases List.mem_append.mp hx with hx | hx
                · have := hst.hA x hx; omega
                · simp at hx; omega
              · omega
              · simp only [List.length_append, List.length_replicate]; omega
              · rw [hbs2]
                have : ext (((a0 + 1).toNat + k1 + 1 + k2 : Nat) : Int) c = [c] := by unfold ext; rw [if_neg (by omega)]
                rw [this]; simp [List.append_assoc]
            obtain ⟨r2, g1, g2, g3, g4⟩ := ih _ c _ _ _ r1 a0 (b2n c) f hst' (by omega) (by omega) (by omega) h2 h3 h4 (by omega)
            exact ⟨r2, by rw [h1, g1], g2, g3, g4⟩

theorem changingElements_bits (p : CParams) (bs : Bits) :
    changingElements p (bs.map b2n) = chg (true != p.blackIs1) 0 bs := by
  unfold changingElements
  rw [whiteBit_eq, changesGo_map]

/-- **Group 4 row round trip.**  For every reference line and EVERY row of `Columns` pixels
(also rows with runs of 161344 or more equal pixels, the former class `ccitt-2d-long-run`:
`decodeFullRun` admits `Columns/64 + 2` code words), from any reader state
whose unread bits are the row's two-dimensional code followed by at least 13 more bits:
`decode2D` consumes exactly the row's code, raises no error and leaves the row's bytes in the
line buffer. -/
theorem ccitt_g4_row_rt (p : CParams) (refLine : Bits) (row : Bytes) (r : Rd) (rest : Bits)
    (hc : 0 < p.columns) (hlen : row.length = p.lineBytes) (hpad : paddingOk p row = true)
    (he : Rd.clean r)
    (hs : Rd.stream r = encode2DLine p ((refLine.take p.columns).map b2n) (pixelsOf p row) ++ rest)
    (hrest : 13 ≤ rest.length) :
    Rd.clean (r.decode2D p refLine) ∧ Rd.stream (r.decode2D p refLine) = rest ∧
    (r.decode2D p refLine).line = bytesToBits row := by
  have hpx := pixelsOf_eq p row hlen
  have hbl := rowPixels_length p row hlen
  unfold encode2DLine at hs
  rw [hpx] at hs
  change Rd.stream r = encode2DGo p _ (changingElements p ((rowPixels p row).map b2n)) _ _ _ ++ rest at hs
  rw [changingElements_bits p (rowPixels p row), changingElements_bits p (refLine.take p.columns), whiteBit_eq] at hs
  have hst : St p.columns (rowPixels p row) (chg (true != p.blackIs1) 0 (rowPixels p row)) (-1) (true != p.blackIs1) []
      (rowPixels p row) [] := by
    refine { ch := by simp, hA := by intro x hx; simp at hx, len := by simpa using hbl, lo := by omega,
             dlen := by show 0 = (max (-1 : Int) 0).toNat; decide, bsq := by simp [ext] }
  have hfd : (encode2DGo p (chg (true != p.blackIs1) 0 (refLine.take p.columns)) (chg (true != p.blackIs1) 0 (rowPixels p row))
      (p.columns + 2) (-1) (b2n (true != p.blackIs1))).length ≤ r.bitsLeft + 2 := by
    have h2 := stream_length r
    rw [hs, List.length_append] at h2
    omega
  obtain ⟨r', h1, h2, h3, h4⟩ := g4_lockstep p (true != p.blackIs1) (rowPixels p row)
    (chg (true != p.blackIs1) 0 (refLine.take p.columns)) (chg_sorted _ _ _) rest hrest (p.columns + 2) (-1)
    (true != p.blackIs1) [] (rowPixels p row) [] { r with line := [] } (-2) (p.whiteBit ^^^ 1) (r.bitsLeft + 2)
    hst (by omega) (by omega) (by omega) he hs lineIs_nil hfd
  have hd : r.decode2D p refLine = r' := by
    unfold Rd.decode2D
    show Rd.decode2DGo { r with line := [] } p (changingElements p ((refLine.take p.columns).map b2n)) (r.bitsLeft + 2)
      (-1) (-2) p.whiteBit (p.whiteBit ^^^ 1) = r'
    rw [changingElements_bits p (refLine.take p.columns)]
    rw [← h1]
    congr 1
    exact whiteBit_eq p
  rw [hd]
  refine ⟨h2, h3, ?_⟩
  unfold LineIs at h4
  rw [h4, hbl]
  exact (row_padding p row hc hlen hpad).symm

/-! ## Group 4: end of block and the row loop -/

/-- a row's code starts with one of the nine mode codes -/
theorem enc2D_head (p : CParams) (refCh lineCh : List Nat) (n : Nat) (a0 : Int) (c : Nat) (ha : a0 < (p.columns : Int)) :
    ∃ i tail, i < 9 ∧ encode2DGo p refCh lineCh (n + 1) a0 c = codeBits (modeEntry i).1 (modeEntry i).2.1 ++ tail := by
  rw [encode2DGo, if_pos ha]
  rcases nextTwoChanges lineCh p.columns a0 with ⟨a1, a2⟩
  rcases findB1B2 refCh p.columns a0 c p.whiteBit with ⟨b1, b2⟩
  simp only []
  split
  · exact ⟨0, _, by decide, rfl⟩
  · split
    · rename_i hv
      obtain ⟨i, _, hi8, hvc, _⟩ := vertCode_modeEntry _ hv.1 hv.2
      exact ⟨i, _, by omega, by rw [hvc]⟩
    · exact ⟨1, _, by decide, by simp only [List.append_assoc]; rfl⟩

theorem modeEntry_code_pos : ∀ i, i < 9 → 1 ≤ (modeEntry i).1 := by decide

/-- 24 bits that start with a mode code are not the end-of-facsimile-block code -/
theorem mode_not_eofb (i : Nat) (hi : i < 9) (tail : Bits) (h24 : 24 ≤ (codeBits (modeEntry i).1 (modeEntry i).2.1 ++ tail).length) :
    bitsToNat ((codeBits (modeEntry i).1 (modeEntry i).2.1 ++ tail).take 24) ≠ 4097 := by
  obtain ⟨hfit, hw1, hw7⟩ := modeEntry_fits i hi
  have hpos := modeEntry_code_pos i hi
  generalize (modeEntry i).1 = c at *
  generalize (modeEntry i).2.1 = w at *
  rw [List.length_append, codeBits_length] at h24
  rw [List.take_append, codeBits_length, List.take_of_length_le (by rw [codeBits_length]; omega), bitsToNat_append,
    bitsToNat_codeBits, Nat.mod_eq_of_lt hfit, List.length_take, Nat.min_eq_left (by omega)]
  have h17 : 2 ^ 17 ≤ 2 ^ (24 - w) := Nat.pow_le_pow_right (by decide) (by omega)
  have : 2 ^ (24 - w) ≤ c * 2 ^ (24 - w) := Nat.le_mul_of_pos_left _ hpos
  have h17' : (2:Nat) ^ 17 = 131072 := by decide
  omega

theorem eofb_value : bitsToNat (codeBits 4097 24) = 4097 := by decide

theorem eofb_first7 : (codeBits 4097 24).take 7 = List.replicate 7 false := by decide

/-- `decodeG4ScanLine` after a row: the EOFB check -/
theorem decodeG4_after (p : CParams) (hig : p.ignoreEOB = false) (r1 : Rd) (he : Rd.clean r1) (h24 : 24 ≤ (Rd.stream r1).length) :
    let r2 := (if (r1.peek 24).1 = 4097 then { ((r1.peek 24).2.consume 24) with err := 1 } else (r1.peek 24).2)
    r2.line = r1.line ∧
    (bitsToNat ((Rd.stream r1).take 24) = 4097 → r2.err = 1) ∧
    (bitsToNat ((Rd.stream r1).take 24) ≠ 4097 → Rd.clean r2 ∧ Rd.stream r2 = Rd.stream r1) := by
  obtain ⟨p1, p2, p3, p4⟩ := peek_spec r1 24 he (by omega) h24
  obtain ⟨c1, c2, c3⟩ := consume_spec (r1.peek 24).2 24 p2 (by omega) (by rw [p3]; exact h24)
  simp only []
  rw [p1]
  by_cases hv : bitsToNat ((Rd.stream r1).take 24) = 4097
  · rw [if_pos hv]
    exact ⟨by show ((r1.peek 24).2.consume 24).line = _; rw [c3, p4], fun _ => rfl, fun h => absurd hv h⟩
  · rw [if_neg hv]
    exact ⟨p4, fun h => absurd h hv, fun _ => ⟨p2, p3⟩⟩

/-- the reader at the end-of-facsimile-block code: `decode2D` stops at the seven zeros without
    consuming anything -/
theorem dec2D_eofb (p : CParams) (hc : 0 < p.columns) (refLine : Bits) (r : Rd) (pad : Bits) (he : Rd.clean r)
    (hs : Rd.stream r = codeBits 4097 24 ++ pad) :
    Rd.clean (r.decode2D p refLine) ∧ Rd.stream (r.decode2D p refLine) = Rd.stream r ∧ (r.decode2D p refLine).line = [] := by
  unfold Rd.decode2D
  simp only []
  generalize hr0 : ({ r with line := [] } : Rd) = r0
  have he0 : Rd.clean r0 := by rw [← hr0]; exact he
  have hs0 : Rd.stream r0 = codeBits 4097 24 ++ pad := by rw [← hr0]; exact hs
  have hl0 : r0.line = [] := by rw [← hr0]
  have hsr : Rd.stream r = Rd.stream r0 := by rw [← hr0]; rfl
  have h7 : 7 ≤ (Rd.stream r0).length := by rw [hs0, List.length_append, codeBits_length]; omega
  obtain ⟨p1, p2, p3, p4⟩ := peek_spec r0 7 he0 (by omega) h7
  have hv : (r0.peek 7).1 = 0 := by
    rw [p1, hs0, List.take_append_of_le_length (by rw [codeBits_length]; omega), eofb_first7]; rfl
  have h11 : 11 ≤ (Rd.stream (r0.peek 7).2).length := by rw [p3, hs0, List.length_append, codeBits_length]; omega
  obtain ⟨q1, q2, q3, q4⟩ := peek_spec (r0.peek 7).2 11 p2 (by omega) h11
  have hbl : r0.bitsLeft + 2 = (r0.bitsLeft + 1) + 1 := by omega
  rw [hbl, Rd.decode2DGo, if_pos ⟨by omega, he0.1⟩, if_neg (by omega)]
  rcases hpk : r0.peek 7 with ⟨value, r1⟩
  rw [hpk] at hv q1 q2 q3 q4 p3 p4
  simp only at hv q1 q2 q3 q4 p3 p4 ⊢
  subst hv
  rw [if_pos main_table_rest.1]
  exact ⟨q2, by rw [q3, p3, hsr], by rw [q4, p4, hl0]⟩

/-- the bits of a sequence of Group 4 rows (each row is the reference of the next) -/
def rows2DBits (p : CParams) : List Nat → List Bytes → Bits
  | _, [] => []
  | ref, row :: rest => encode2DLine p ref (pixelsOf p row) ++ rows2DBits p (pixelsOf p row) rest

/-- what makes a list of rows acceptable for the Group 4 coder -/
def Rows2DOk (p : CParams) (rows : List Bytes) : Prop :=
  ∀ row ∈ rows, row.length = p.lineBytes ∧ AllBytes row ∧ paddingOk p row = true

theorem encode2DLine_head (p : CParams) (hc : 0 < p.columns) (ref px : List Nat) :
    ∃ i tail, i < 9 ∧ encode2DLine p ref px = codeBits (modeEntry i).1 (modeEntry i).2.1 ++ tail := by
  unfold encode2DLine
  exact enc2D_head p _ _ (p.columns + 1) (-1) _ (by omega)

/-- **the reader's row loop over Group 4 rows and the EOFB** -/
theorem readRows_g4 (p : CParams) (hk : p.k < 0) (hc : 0 < p.columns) (hal : p.byteAlign = false) (hig : p.ignoreEOB = false) (pad : Bits) :
    ∀ (rows : List Bytes) (r : Rd) (numRows fuel : Nat) (refLine : Bits), Rd.clean r →
      refLine.length = 8 * p.lineBytes →
      Rd.stream r = rows2DBits p ((refLine.take p.columns).map b2n) rows ++ (codeBits 4097 24 ++ pad) →
      Rows2DOk p rows → (p.maxRows = 0 ∨ numRows + rows.length ≤ p.maxRows) → rows.length < fuel →
      Rd.readRows r p fuel numRows refLine = (rows, 1) := by
  intro rows
  induction rows with
  | nil =>
    intro r numRows fuel refLine he _ hs _ _ hf
    obtain ⟨f, rfl⟩ : ∃ f, fuel = f + 1 := ⟨fuel - 1, by simp at hf; omega⟩
    rw [Rd.readRows]
    by_cases hg : r.err = 0 ∧ (p.maxRows = 0 ∨ numRows < p.maxRows)
    · rw [if_pos hg]
      simp only [rows2DBits, List.nil_append] at hs
      obtain ⟨d1, d2, d3⟩ := dec2D_eofb p hc refLine r pad he hs
      have h24 : 24 ≤ (Rd.stream (r.decode2D p refLine)).length := by
        rw [d2, hs, List.length_append, codeBits_length]; omega
      obtain ⟨g1, g2, _⟩ := decodeG4_after p hig (r.decode2D p refLine) d1 h24
      have hv : bitsToNat ((Rd.stream (r.decode2D p refLine)).take 24) = 4097 := by
        rw [d2, hs, List.take_append_of_le_length (by rw [codeBits_length]; omega),
          List.take_of_length_le (by rw [codeBits_length]; omega), eofb_value]
      have g2' := g2 hv
      have hds : (r.decodeScanLine p refLine).1 =
          (if ((r.decode2D p refLine).peek 24).1 = 4097 then
            { (((r.decode2D p refLine).peek 24).2.consume 24) with err := 1 } else ((r.decode2D p refLine).peek 24).2) := by
        unfold Rd.decodeScanLine Rd.decodeG4 Rd.alignRow
        simp [hk, hig, hal]
      rcases hdsl : r.decodeScanLine p refLine with ⟨r1, ref1⟩
      rw [hdsl] at hds
      simp only at hds ⊢
      rw [hds]
      simp only [] at g1 g2'
      rw [g1, d3, g2']
      simp
    · rw [if_neg hg, if_pos he.1]
  | cons row rest ih =>
    intro r numRows fuel refLine he hrl hs hok hmax hf
    obtain ⟨f, rfl⟩ : ∃ f, fuel = f + 1 := ⟨fuel - 1, by simp at hf; omega⟩
    obtain ⟨h1, h2, h3⟩ := hok row (by simp)
    have hg : r.err = 0 ∧ (p.maxRows = 0 ∨ numRows < p.maxRows) := ⟨he.1, by simp only [List.length_cons] at hmax; omega⟩
    rw [Rd.readRows, if_pos hg]
    simp only [rows2DBits, List.append_assoc] at hs
    have hrest : 13 ≤ (rows2DBits p (pixelsOf p row) rest ++ (codeBits 4097 24 ++ pad)).length := by
      simp only [List.length_append, codeBits_length]; omega
    obtain ⟨d1, d2, d3⟩ := ccitt_g4_row_rt p refLine row r _ hc h1 h3 he hs hrest
    have h24 : 24 ≤ (Rd.stream (r.decode2D p refLine)).length := by
      rw [d2]; simp only [List.length_append, codeBits_length]; omega
    obtain ⟨g1, g2, g3⟩ := decodeG4_after p hig (r.decode2D p refLine) d1 h24
    have hds : r.decodeScanLine p refLine =
        ((if ((r.decode2D p refLine).peek 24).1 = 4097 then
            { (((r.decode2D p refLine).peek 24).2.consume 24) with err := 1 } else ((r.decode2D p refLine).peek 24).2),
         bytesToBits row) := by
      unfold Rd.decodeScanLine Rd.decodeG4 Rd.alignRow
      simp only [hal, Bool.false_eq_true, false_and, if_false, hk, if_true, hig, Bool.not_false]
      simp only [] at g1
      rw [g1, d3]
      have hbl := bytesToBits_length row
      rw [h1] at hbl
      simp [hrl, hbl]
      rw [List.take_of_length_le (by omega), List.drop_of_length_le (by omega), List.append_nil]
    rw [hds]
    simp only []
    simp only [] at g1 g2 g3
    generalize hr2 : (if ((r.decode2D p refLine).peek 24).1 = 4097 then
            { (((r.decode2D p refLine).peek 24).2.consume 24) with err := 1 } else ((r.decode2D p refLine).peek 24).2) = r2 at g1 g2 g3
    have hl2 : r2.line = bytesToBits row := by rw [g1, d3]
    have hne : r2.line.isEmpty = false := by
      rw [hl2]
      have hl := bytesToBits_length row
      have : 0 < p.lineBytes := lineBytes_pos p hc
      cases hb : bytesToBits row with
      | nil => rw [hb] at hl; simp at hl; omega
      | cons a as => rfl
    rw [hne]
    simp only [Bool.false_eq_true, if_false]
    rw [hl2, packBits_bytes row h2]
    have hnewref : ((bytesToBits row).take p.columns).map b2n = pixelsOf p row := (pixelsOf_eq p row h1).symm
    cases rest with
    | nil =>
      -- last row: the EOFB follows and is consumed at once
      simp only [rows2DBits, List.nil_append] at d2
      have hv : bitsToNat ((Rd.stream (r.decode2D p refLine)).take 24) = 4097 := by
        rw [d2, List.take_append_of_le_length (by rw [codeBits_length]; omega),
          List.take_of_length_le (by rw [codeBits_length]; omega), eofb_value]
      have he2 := g2 hv
      have : Rd.readRows { r2 with line := [] } p f (numRows + 1) (bytesToBits row) = ([], 1) := by
        cases f with
        | zero => rfl
        | succ f' =>
          rw [Rd.readRows]
          have : ¬ (({ r2 with line := [] } : Rd).err = 0 ∧ (p.maxRows = 0 ∨ numRows + 1 < p.maxRows)) := by
            intro h; have : r2.err = 0 := h.1; omega
          rw [if_neg this]
          have : ¬ (({ r2 with line := [] } : Rd).err = 0) := by
            intro h; have : r2.err = 0 := h; omega
          rw [if_neg this]
          show ([], r2.err) = _
          rw [he2]
      rw [this]
    | cons row2 rest2 =>
      obtain ⟨i, tail, hi, hhead⟩ := encode2DLine_head p hc (pixelsOf p row) (pixelsOf p row2)
      have hv : bitsToNat ((Rd.stream (r.decode2D p refLine)).take 24) ≠ 4097 := by
        rw [d2]
        simp only [rows2DBits, hhead, List.append_assoc]
        apply mode_not_eofb i hi
        have := h24
        rw [d2] at this
        simpa [rows2DBits, hhead, List.append_assoc] using this
      obtain ⟨e2, s2⟩ := g3 hv
      have hrec := ih { r2 with line := [] } (numRows + 1) f (bytesToBits row) e2
        (by rw [bytesToBits_length, h1])
        (by show Rd.stream r2 = _; rw [s2, d2, hnewref])
        (fun r' hr' => hok r' (by simp [hr'])) (by simp only [List.length_cons] at hmax ⊢; omega) (by simp at hf ⊢; omega)
      rw [hrec]

theorem allRowBits_kneg (p : CParams) (hk : p.k < 0) : ∀ (rows : List Bytes) (c2 : Nat) (ref : List Nat),
    allRowBits p rows c2 ref = rows2DBits p ref rows := by
  intro rows
  induction rows with
  | nil => intro _ _; rfl
  | cons row rest ih =>
    intro c2 ref
    have hrb : ∀ c2 ref px, encodeRowBits p c2 ref px = (encode2DLine p ref px, c2) := by
      intro c2 ref px
      unfold encodeRowBits
      have h1 : ¬ p.k > 0 := by omega
      have h2 : ¬ p.k = 0 := by omega
      simp [h1, h2]
    simp only [allRowBits, hrb, ih, rows2DBits]

theorem rows2DBits_length (p : CParams) (hc : 0 < p.columns) : ∀ (rows : List Bytes) (ref : List Nat),
    rows.length ≤ (rows2DBits p ref rows).length := by
  intro rows
  induction rows with
  | nil => intro _; simp [rows2DBits]
  | cons row rest ih =>
    intro ref
    obtain ⟨i, tail, hi, hh⟩ := encode2DLine_head p hc ref (pixelsOf p row)
    have hw := (modeEntry_fits i hi).2.1
    have := ih (pixelsOf p row)
    simp only [rows2DBits, hh, List.length_append, codeBits_length, List.length_cons]
    omega

theorem enc2D_params (p p' : CParams) (h1 : p'.columns = p.columns) (h2 : p'.blackIs1 = p.blackIs1)
    (refCh lineCh : List Nat) : ∀ (n : Nat) (a0 : Int) (c : Nat),
    encode2DGo p' refCh lineCh n a0 c = encode2DGo p refCh lineCh n a0 c := by
  have hw : p'.whiteBit = p.whiteBit := by unfold CParams.whiteBit; rw [h2]
  intro n
  induction n with
  | zero => intro _ _; rfl
  | succ m ih =>
    intro a0 c
    rw [encode2DGo, encode2DGo, h1, hw]
    simp only [ih]

theorem rows2DBits_params (p p' : CParams) (h1 : p'.columns = p.columns) (h2 : p'.blackIs1 = p.blackIs1) :
    ∀ (rows : List Bytes) (ref : List Nat), rows2DBits p' ref rows = rows2DBits p ref rows := by
  have hw : p'.whiteBit = p.whiteBit := by unfold CParams.whiteBit; rw [h2]
  have hpx : ∀ row, pixelsOf p' row = pixelsOf p row := by
    intro row; unfold pixelsOf; rw [h1, hw]
  have hce : ∀ px, changingElements p' px = changingElements p px := by
    intro px; unfold changingElements; rw [hw]
  intro rows
  induction rows with
  | nil => intro _; rfl
  | cons row rest ih =>
    intro ref
    simp only [rows2DBits, hpx, ih]
    congr 1
    unfold encode2DLine
    rw [hce, hce, h1, hw, enc2D_params p p' h1 h2]

/-- **Group 4 stream round trip** (K < 0, no byte alignment, with EOFB): every list of admissible
rows (also with runs of 161344 or more pixels) is decoded back, for any row limit `M` of the reader
that is `0` or not below the number of rows. -/
theorem ccitt_g4_stream_rt (p : CParams) (M : Nat) (rows : List Bytes)
    (hk : p.k < 0) (hal : p.byteAlign = false) (hig : p.ignoreEOB = false)
    (hc : 0 < p.columns) (hok : Rows2DOk p rows) (hmaxE : p.maxRows = 0 ∨ rows.length ≤ p.maxRows)
    (hmaxD : M = 0 ∨ rows.length ≤ M) :
    decodeAll { p with maxRows := M } (encodeAll p rows.flatten).1 = (rows.flatten, 1) := by
  have hlb := lineBytes_pos p hc
  obtain ⟨_, k, hk8, hbits⟩ := encodeAll_bits p rows hal hlb (fun r hr => (hok r hr).1) (fun r hr => (hok r hr).2.2) hmaxE
  rw [allRowBits_kneg p hk] at hbits
  have heob : endOfBlockBits p = codeBits 4097 24 := by
    unfold endOfBlockBits; simp [hig, hk]
  rw [heob, List.append_assoc] at hbits
  generalize (encodeAll p rows.flatten).1 = data at hbits
  unfold decodeAll decodeRows
  have hk' : ({ p with maxRows := M } : CParams).k ≠ 0 := by show p.k ≠ 0; omega
  simp only [hk', ne_eq, not_false_eq_true, if_true]
  have hfuel : rows.length < 8 * data.length + 8 := by
    have h1 := rows2DBits_length p hc rows (List.replicate p.columns p.whiteBit)
    have h2 := congrArg List.length hbits
    rw [bytesToBits_length, List.length_append] at h2
    omega
  have hrefpx : ((List.replicate (p.lineBytes * 8) (!p.blackIs1)).take p.columns).map b2n = List.replicate p.columns p.whiteBit := by
    have hle : p.columns ≤ p.lineBytes * 8 := by unfold CParams.lineBytes; omega
    rw [List.take_replicate, Nat.min_eq_left hle, List.map_replicate, whiteBit_eq]
    congr 1
    cases p.blackIs1 <;> rfl
  have := readRows_g4 { p with maxRows := M } hk hc hal hig (List.replicate k false) rows
    { win := [], src := data, err := 0, line := [] } 0 (8 * data.length + 8)
    (List.replicate (p.lineBytes * 8) (!p.blackIs1)) ⟨rfl, rfl, rfl⟩ (by simp; exact Nat.mul_comm _ _)
    (by
      show bytesToBits data = rows2DBits { p with maxRows := M } (((List.replicate (p.lineBytes * 8) (!p.blackIs1)).take p.columns).map b2n) rows ++ _
      rw [rows2DBits_params p { p with maxRows := M } rfl rfl, hrefpx]; exact hbits) hok (by simpa using hmaxD) hfuel
  have hlb' : ({ p with maxRows := M } : CParams).lineBytes = p.lineBytes := rfl
  have hb1' : ({ p with maxRows := M } : CParams).blackIs1 = p.blackIs1 := rfl
  rw [hlb', hb1', this]

/-! ## the statement of C06fbt, for Group 3 1-D without EOL and for Group 4 -/

/-- **`ccitt_rt_statement` for Group 4 (K < 0) and for Group 3 one-dimensional coding without EOL
markers (K = 0, EndOfLine = false), with the end-of-block pattern and without byte alignment**:
the hypotheses of the statement in `Props/C06fbt.lean` (`validate`, `ccittAdmissible`, the
reader's row cap) plus the restriction on K / EndOfLine / EncodedByteAlign / EndOfBlock.  After
the repairs of the reader (`ccitt-1d-final-run-64`, `ccitt-2d-long-run`) no condition on the
pixel data remains.  Not covered by proof (validated by the oracle `fb-ccitt-rt`, the model
correspondence and the independent decoder on every run): K > 0 (mixed coding with tag bits),
K = 0 with EOL markers, EncodedByteAlign (`alignRow`), and streams without end-of-block pattern
(`IgnoreEndOfBlock`: the reader's look-ahead meets the end of the data). -/
theorem ccitt_rt_g4_g31d (f : FCCITT) (rows : List Bytes) (hv : f.validate = true)
    (hadm : ccittAdmissible f.encParams rows) (hrows : (rows.length : Int) ≤ f.decodeMaxRows)
    (hig : f.ignoreEOB = false) (hal : f.byteAlign = false)
    (hmode : f.k < 0 ∨ (f.k = 0 ∧ f.endOfLine = false)) :
    decodeAll f.decParams (encodeAll f.encParams rows.flatten).1 = (rows.flatten, 1) := by
  -- the parameters
  have hcols : 0 < f.encParams.columns := by
    unfold FCCITT.validate at hv
    show 0 < f.cols.toNat
    unfold FCCITT.cols
    split at hv
    · simp at hv
    · rename_i h1
      split <;> omega
  obtain ⟨hadm1, hadm2⟩ := hadm
  have hk : f.encParams.k = f.k := rfl
  have heol : f.encParams.endOfLine = f.endOfLine := rfl
  have hM : f.decodeMaxRows.toNat = 0 ∨ rows.length ≤ f.decodeMaxRows.toNat := by right; omega
  show decodeAll { f.encParams with maxRows := f.decodeMaxRows.toNat } _ = _
  rcases hmode with hm | ⟨hm, he⟩
  · exact ccitt_g4_stream_rt f.encParams _ rows (by rw [hk]; exact hm) hal hig hcols hadm1 hadm2 hM
  · exact ccitt_g3_1d_stream_rt f.encParams _ rows (by rw [hk]; exact hm) (by rw [heol]; exact he) hal hig hcols hadm1 hadm2 hM

-- non-vacuity: Group 4 and Group 3 1-D parameter sets with rows that meet every hypothesis
example : (⟨-1, false, false, 3, 0, false, false, 0⟩ : FCCITT).validate = true ∧
    ccittAdmissible (⟨-1, false, false, 3, 0, false, false, 0⟩ : FCCITT).encParams w3 := by decide
example : (⟨0, false, false, 10, 0, false, true, 0⟩ : FCCITT).validate = true ∧
    ccittAdmissible (⟨0, false, false, 10, 0, false, true, 0⟩ : FCCITT).encParams [[0xAA, 0x80], [0xFF, 0xC0]] := by
  decide

end PdfVerif.C06faC

import PdfVerif.Model.FIOWriter
import PdfVerif.Spec.FIOFileWF
import PdfVerif.Props.C02fio
import PdfVerif.Props.C02fiob
import PdfVerif.Props.C02fioc
/-!
# C03 — written files are structurally valid (work package FIO)

The independent checker is `Spec/FIOFileWF.lean` (`checkFile`, written from ISO 32000-2 §7.5,
sharing nothing with `Model/`).  It is compiled into the driver and run on the bytes of the real
Writer for every generated program (C03 run).  The theorems here relate it to the writer *model*
(`Model/FIOWriter.lean`, tied to the code by byte-identical output in the C02 run): the
specification's parsers accept what the model writes, at the cross-reference level.
-/
namespace PdfVerif.C03fio
open PdfVerif PdfVerif.FIO
open PdfVerif.Spec.FileWF (Entry Table)

/-! the two parsers agree on digits (same definitions, written twice) -/
theorem isDig_eq (c : Nat) : Spec.FileWF.isDig c = isDigit c := rfl

theorem decVal_eq (t : Bytes) : ∀ acc, Spec.FileWF.decVal t acc = digitsVal t acc := by
  induction t with
  | nil => intro acc; rfl
  | cons c cs ih => intro acc; simp [Spec.FileWF.decVal, digitsVal, ih]

theorem natTok_digits (t : Bytes) (hne : t ≠ []) (hall : t.all isDigit = true) :
    Spec.FileWF.natTok t = some (digitsVal t 0) := by
  unfold Spec.FileWF.natTok
  have h1 : t.isEmpty = false := by cases t <;> simp_all
  have h2 : t.all Spec.FileWF.isDig = true := by
    rw [← hall]; congr
  simp [h1, h2, decVal_eq]

theorem natTok_fixDec (w n : Nat) (hw : 0 < w) (hn : n < 10 ^ w) : Spec.FileWF.natTok (fixDec w n) = some n := by
  rw [natTok_digits _ (by intro h; have := C02fio.fixDec_length w n; rw [h] at this; simp at this; omega)
    (C02fio.fixDec_digits w n), C02fio.digitsVal_fixDec, Nat.mod_eq_of_lt hn]
  simp

/-- the strict table-entry parser of the specification accepts a line printed by the writer -/
theorem spec_tableEntry (p g c : Nat) (hp : p < 10000000000) (hg : g ≤ 65535) (hc : c = 102 ∨ c = 110) :
    Spec.FileWF.tableEntry (C02fio.tabLine p g c) =
      .ok { kind := if c = 110 then 1 else 0, a := p, b := g } := by
  have hlen := C02fio.tabLine_length p g c
  have h10 : (C02fio.tabLine p g c).take 10 = fixDec 10 p := by
    simp only [C02fio.tabLine, List.append_assoc]
    exact List.take_left' (C02fio.fixDec_length 10 p)
  have h5 : ((C02fio.tabLine p g c).drop 11).take 5 = fixDec 5 g := by
    have : C02fio.tabLine p g c = (fixDec 10 p ++ [32]) ++ (fixDec 5 g ++ [32, c, 13, 10]) := by
      simp [C02fio.tabLine]
    rw [this, List.drop_left' (by simp [C02fio.fixDec_length])]
    exact List.take_left' (C02fio.fixDec_length 5 g)
  have hget : ∀ k v, (fixDec 10 p ++ [32] ++ fixDec 5 g ++ [32, c, 13, 10])[k]? = some v →
      (C02fio.tabLine p g c).getD k 0 = v := by
    intro k v h; rw [List.getD_eq_getElem?_getD]; unfold C02fio.tabLine; rw [h]; rfl
  have g10 : (C02fio.tabLine p g c).getD 10 0 = 32 := by
    apply hget
    rw [List.append_assoc, List.append_assoc, List.getElem?_append_right (by simp [C02fio.fixDec_length])]
    simp [C02fio.fixDec_length]
  have g16 : (C02fio.tabLine p g c).getD 16 0 = 32 := by
    apply hget
    rw [List.getElem?_append_right (by simp [C02fio.fixDec_length])]
    simp [C02fio.fixDec_length]
  have g17 : (C02fio.tabLine p g c).getD 17 0 = c := by
    apply hget
    rw [List.getElem?_append_right (by simp [C02fio.fixDec_length])]
    simp [C02fio.fixDec_length]
  have g18 : (C02fio.tabLine p g c).getD 18 0 = 13 := by
    apply hget
    rw [List.getElem?_append_right (by simp [C02fio.fixDec_length])]
    simp [C02fio.fixDec_length]
  have g19 : (C02fio.tabLine p g c).getD 19 0 = 10 := by
    apply hget
    rw [List.getElem?_append_right (by simp [C02fio.fixDec_length])]
    simp [C02fio.fixDec_length]
  unfold Spec.FileWF.tableEntry
  simp only [hlen, h10, h5, g10, g16, g17, g18, g19, natTok_fixDec 10 p (by omega) (by omega),
    natTok_fixDec 5 g (by omega) (by omega)]
  rcases hc with rfl | rfl <;> simp


/-- the entry the specification's parser must find for a number -/
def specEntry : Option XEntry → Entry
  | some e => if e.pos ≥ 0 then { kind := 1, a := e.pos.toNat, b := e.gen } else { kind := 0, a := 0, b := 65535 }
  | none => { kind := 0, a := 0, b := 65535 }

def specEntries (m : XMap) : Nat → Nat → Table
  | _, 0 => []
  | i, k+1 => (i, specEntry (m.get i)) :: specEntries m (i + 1) k

theorem spec_xrefLine (e : Option XEntry) (h : ∀ x, e = some x → x.pos < 10000000000 ∧ x.gen ≤ 65535) :
    (xrefLine e).length = 20 ∧ Spec.FileWF.tableEntry (xrefLine e) = .ok (specEntry e) := by
  refine ⟨C02fio.xref_line_20 e h, ?_⟩
  rw [C02fio.xrefLine_eq e h]
  cases e with
  | none => simp only; rw [spec_tableEntry 0 _ 102 (by omega) (by decide) (.inl rfl)]; rfl
  | some x =>
    obtain ⟨hp, hg⟩ := h x rfl
    simp only
    split
    · rename_i hpos
      rw [spec_tableEntry _ _ 110 (by omega) hg (.inr rfl)]
      simp [specEntry, hpos]
    · rename_i hpos
      rw [spec_tableEntry 0 _ 102 (by omega) (by decide) (.inl rfl)]
      simp [specEntry, hpos, Gen.fio_maxGeneration]

/-- **The specification's table parser reads the writer's table.**  For every table (offsets
below 10^10, generations ≤ 65535) the strict 20-byte-entry parser of `Spec/FIOFileWF.lean`
accepts the lines printed by `writeXRefTable`, consumes exactly them and finds, for each number,
the entry the writer meant (in reverse order of accumulation). -/
theorem spec_reads_table (m : XMap) (rest : Bytes) (k : Nat) : ∀ (i : Nat) (acc : Table),
    (∀ j, i ≤ j → j < i + k → ∀ x, m.get j = some x → x.pos < 10000000000 ∧ x.gen ≤ 65535) →
    Spec.FileWF.tableEntries k i (xrefLines m i k ++ rest) acc = .ok ((specEntries m i k).reverse ++ acc, rest) := by
  induction k with
  | zero => intro i acc _; simp [Spec.FileWF.tableEntries, xrefLines, specEntries]
  | succ k ih =>
    intro i acc hok
    obtain ⟨hlen, hent⟩ := spec_xrefLine (m.get i) (hok i (by omega) (by omega))
    simp only [xrefLines, List.append_assoc, Spec.FileWF.tableEntries, List.take_left' hlen, hent,
      List.drop_left' hlen]
    rw [ih (i + 1) _ (fun j h1 h2 => hok j (by omega) (by omega))]
    simp [specEntries]

/-! ### the end of the file -/

theorem firstIndex_skip (pat : Bytes) (p0 : Nat) (ps : Bytes) (hpat : pat = p0 :: ps) (a : Bytes) :
    ∀ (b : Bytes) (i : Nat), (∀ c ∈ a, c ≠ p0) →
      Spec.FileWF.firstIndex pat (a ++ b) i = Spec.FileWF.firstIndex pat b (i + a.length) := by
  induction a with
  | nil => intro b i _; simp
  | cons x xs ih =>
    intro b i h
    have hx : x ≠ p0 := h x (by simp)
    have hb : (p0 == x) = false := by simp; exact fun h => hx h.symm
    simp only [List.cons_append, Spec.FileWF.firstIndex, hpat, Spec.FileWF.hasPrefix, hb, Bool.false_and,
      Bool.false_eq_true, ↓reduceIte]
    rw [← hpat, ih b (i + 1) (fun c hc => h c (by simp [hc]))]
    congr 1; simp; omega

theorem hasPrefix_self (p rest : Bytes) : Spec.FileWF.hasPrefix p (p ++ rest) = true := by
  induction p with
  | nil => simp [Spec.FileWF.hasPrefix]
  | cons x xs ih => simp [Spec.FileWF.hasPrefix, ih]

theorem takeReg_digits (ds : Bytes) (hall : ds.all isDigit = true) (rest : Bytes)
    (hrest : rest = [] ∨ ∃ c cs, rest = c :: cs ∧ Spec.FileWF.isReg c = false) :
    Spec.FileWF.takeReg (ds ++ rest) = (ds, rest) := by
  induction ds with
  | nil =>
    rcases hrest with rfl | ⟨c, cs, rfl, hc⟩
    · simp [Spec.FileWF.takeReg]
    · simp [Spec.FileWF.takeReg, hc]
  | cons d ds ih =>
    have hd : isDigit d = true := by simp at hall; exact hall.1
    have hds : ds.all isDigit = true := by simp at hall ⊢; exact hall.2
    have hreg : Spec.FileWF.isReg d = true := by
      have : ∀ c, c < 256 → isDigit c = true → Spec.FileWF.isReg c = true := by decide +kernel
      exact this d (C02fioc.isDigit_lt d hd) hd
    simp [Spec.FileWF.takeReg, hreg, ih hds]

/-- `"startxref"` -/
def kwStartxref : Bytes := [115, 116, 97, 114, 116, 120, 114, 101, 102]

/-- **The end of the file.**  For everything written before it (ending in an end-of-line), the
tail `startxref\n<p>\n%%EOF\n` printed by `Close` satisfies §7.5.5 as checked by the
specification and yields the offset `p`. -/
theorem spec_tail_ok (pre : Bytes) (p : Nat) (hp : p < 10 ^ 19) :
    Spec.FileWF.checkTail (pre ++ [10] ++ kStartxref ++ decOf p ++ kEOF) = .ok p := by
  obtain ⟨hall, hval, hne, _⟩ := C02fioc.decOf_spec p 19 hp (by omega)
  -- the last occurrence of the keyword is ours: nothing behind it contains an `f`
  have hrev : (pre ++ [10] ++ kStartxref ++ decOf p ++ kEOF).reverse
      = (kEOF.reverse ++ (decOf p).reverse ++ [10]) ++ (kwStartxref.reverse ++ (10 :: pre.reverse)) := by
    simp [kStartxref, kwStartxref]
  have hno : ∀ c ∈ kEOF.reverse ++ (decOf p).reverse ++ [10], c ≠ 102 := by
    intro c hc
    simp only [List.mem_append, List.mem_reverse, List.mem_singleton] at hc
    rcases hc with (hc | hc) | hc
    · simp [kEOF] at hc; omega
    · have := List.all_eq_true.1 hall c hc
      simp [isDigit] at this; omega
    · omega
  have hli : Spec.FileWF.lastIndex (bytesOfString "startxref") (pre ++ [10] ++ kStartxref ++ decOf p ++ kEOF)
      = some (pre.length + 1) := by
    have hb : bytesOfString "startxref" = kwStartxref := by decide +kernel
    unfold Spec.FileWF.lastIndex
    rw [hb, hrev, firstIndex_skip kwStartxref.reverse 102 [101, 114, 120, 116, 114, 97, 116, 115] (by decide) _ _ 0 hno]
    have : Spec.FileWF.firstIndex kwStartxref.reverse (kwStartxref.reverse ++ (10 :: pre.reverse))
        (0 + (kEOF.reverse ++ (decOf p).reverse ++ [10]).length) = some (0 + (kEOF.reverse ++ (decOf p).reverse ++ [10]).length) := by
      have h := hasPrefix_self kwStartxref.reverse (10 :: pre.reverse)
      cases hk : kwStartxref.reverse ++ (10 :: pre.reverse) with
      | nil => simp [kwStartxref] at hk
      | cons c cs => rw [hk] at h; simp [Spec.FileWF.firstIndex, h]
    rw [this]
    simp [kEOF, kStartxref, kwStartxref]
    omega
  have hdrop : (pre ++ [10] ++ kStartxref ++ decOf p ++ kEOF).drop (pre.length + 1 + 9)
      = 10 :: (decOf p ++ kEOF) := by
    have : pre ++ [10] ++ kStartxref ++ decOf p ++ kEOF = (pre ++ [10] ++ kwStartxref) ++ (10 :: (decOf p ++ kEOF)) := by
      simp [kStartxref, kwStartxref]
    rw [this, List.drop_left' (by simp [kwStartxref])]
  have hbefore : (pre ++ [10] ++ kStartxref ++ decOf p ++ kEOF).drop (pre.length + 1 - 1)
      = 10 :: (kStartxref ++ decOf p ++ kEOF) := by
    have : pre ++ [10] ++ kStartxref ++ decOf p ++ kEOF = pre ++ (10 :: (kStartxref ++ decOf p ++ kEOF)) := by simp
    rw [this, List.drop_left' (by simp)]
  have htr : Spec.FileWF.takeReg (decOf p ++ kEOF) = (decOf p, kEOF) :=
    takeReg_digits _ hall _ (.inr ⟨10, _, rfl, by decide⟩)
  have hnt : Spec.FileWF.natTok (decOf p) = some p := by rw [natTok_digits _ hne hall, hval]
  have hb2 : bytesOfString "%%EOF" = [37, 37, 69, 79, 70] := by decide +kernel
  generalize hfile : pre ++ [10] ++ kStartxref ++ decOf p ++ kEOF = file at hli hdrop hbefore
  have hk1 : Spec.FileWF.eolLen kEOF = 1 := by decide
  have hk2 : Spec.FileWF.hasPrefix [37, 37, 69, 79, 70] (kEOF.drop 1) = true := by decide
  have hk3 : ((kEOF.drop 1).drop 5 == []) = false := by decide
  have hk4 : Spec.FileWF.eolLen ((kEOF.drop 1).drop 5) = ((kEOF.drop 1).drop 5).length := by decide
  have hk5 : Spec.FileWF.eolLen (10 :: (kStartxref ++ decOf p ++ kEOF)) = 1 := rfl
  have hk6 : Spec.FileWF.eolLen (10 :: (decOf p ++ kEOF)) = 1 := rfl
  unfold Spec.FileWF.checkTail
  simp only [hli, hdrop, hk6, List.drop_succ_cons, List.drop_zero, htr, hnt, hb2, hk1, hk2, hk4, hbefore, hk5]
  simp


/-! ### cross-reference stream rows -/

theorem beNat_eq (bs : Bytes) : ∀ acc, Spec.FileWF.beNat bs acc = beVal bs acc := by
  induction bs with
  | nil => intro acc; rfl
  | cons b bs ih => intro acc; simp [Spec.FileWF.beNat, beVal, ih]

/-- the entry the specification's row parser finds for a number (fields reduced to their widths) -/
def specRowEntry (w2 w3 : Nat) (e : Option XEntry) : Entry :=
  let (t, a, b) := rowFields e
  { kind := t, a := a % 256 ^ w2, b := b % 256 ^ w3 }

def specRows (m : XMap) (w2 w3 : Nat) : Nat → Nat → Table
  | _, 0 => []
  | i, k+1 => (i, specRowEntry w2 w3 (m.get i)) :: specRows m w2 w3 (i + 1) k

theorem rowFields_type_lt (e : Option XEntry) : (rowFields e).1 < 3 := by
  unfold rowFields
  split
  · simp
  · split
    · simp
    · split <;> simp

/-- **The specification's xref-stream row parser reads the writer's rows** (`W = [1 w2 w3]`):
it consumes exactly the rows written for the numbers `i … i+k-1` and finds for each the type and
the two fields the writer encoded. -/
theorem spec_reads_rows (m : XMap) (w2 w3 : Nat) (rest : Bytes) (k : Nat) : ∀ (i : Nat) (acc : Table),
    Spec.FileWF.xrefRows 1 w2 w3 k i ((xrefRows m w2 w3 i k).flatten ++ rest) acc
      = .ok ((specRows m w2 w3 i k).reverse ++ acc, rest) := by
  induction k with
  | zero => intro i acc; simp [Spec.FileWF.xrefRows, xrefRows, specRows]
  | succ k ih =>
    intro i acc
    have hlen := C02fio.xrefRow_length w2 w3 (m.get i)
    have ht := rowFields_type_lt (m.get i)
    simp only [xrefRows, List.flatten_cons, List.append_assoc, Spec.FileWF.xrefRows]
    have h1 : ¬ (((xrefRow w2 w3 (m.get i) ++ ((xrefRows m w2 w3 (i + 1) k).flatten ++ rest)).take (1 + w2 + w3)).length < 1 + w2 + w3) := by
      rw [List.take_left' hlen, hlen]; omega
    simp only [h1, ↓reduceIte]
    -- the three fields of the row
    have hrow : xrefRow w2 w3 (m.get i) = [(rowFields (m.get i)).1] ++ encodeInt64 (rowFields (m.get i)).2.1 w2
        ++ encodeInt64 (rowFields (m.get i)).2.2 w3 := by
      unfold xrefRow; rfl
    obtain ⟨s1, s2, s3⟩ := C02fio.row_split (rowFields (m.get i)).1 _ _ w2 w3
      (C02fio.encodeInt64_length (rowFields (m.get i)).2.1 w2) (C02fio.encodeInt64_length (rowFields (m.get i)).2.2 w3)
    have t1 : (xrefRow w2 w3 (m.get i) ++ ((xrefRows m w2 w3 (i + 1) k).flatten ++ rest)).take 1 = [(rowFields (m.get i)).1] := by
      rw [List.take_append_of_le_length (by rw [hlen]; omega), hrow]; exact s1
    have t2 : ((xrefRow w2 w3 (m.get i) ++ ((xrefRows m w2 w3 (i + 1) k).flatten ++ rest)).drop 1).take w2
        = encodeInt64 (rowFields (m.get i)).2.1 w2 := by
      rw [List.drop_append_of_le_length (by rw [hlen]; omega), List.take_append_of_le_length (by simp [hlen]; omega), hrow]
      exact s2
    have t3 : ((xrefRow w2 w3 (m.get i) ++ ((xrefRows m w2 w3 (i + 1) k).flatten ++ rest)).drop (1 + w2)).take w3
        = encodeInt64 (rowFields (m.get i)).2.2 w3 := by
      rw [List.drop_append_of_le_length (by rw [hlen]; omega), List.take_append_of_le_length (by simp [hlen]), hrow]
      exact s3
    have h10 : ((1 : Nat) == 0) = false := rfl
    simp only [h10, Bool.false_eq_true, ↓reduceIte, t1, t2, t3, beNat_eq, C02fio.beVal_encodeInt64]
    have hb : beVal [(rowFields (m.get i)).1] 0 = (rowFields (m.get i)).1 := by simp [beVal]
    simp only [hb, Nat.zero_mul, Nat.zero_add]
    have hgt : ¬ ((rowFields (m.get i)).1 > 2) := by omega
    simp only [hgt, ↓reduceIte]
    rw [List.drop_left' hlen, ih (i + 1)]
    have hent : (if (rowFields (m.get i)).1 == 0 then ({ kind := 0, a := (rowFields (m.get i)).2.1 % 256 ^ w2, b := (rowFields (m.get i)).2.2 % 256 ^ w3 } : Entry)
        else if (rowFields (m.get i)).1 == 1 then { kind := 1, a := (rowFields (m.get i)).2.1 % 256 ^ w2, b := (rowFields (m.get i)).2.2 % 256 ^ w3 }
        else if (rowFields (m.get i)).1 == 2 then { kind := 2, a := (rowFields (m.get i)).2.1 % 256 ^ w2, b := (rowFields (m.get i)).2.2 % 256 ^ w3 }
        else { kind := 0, a := 0, b := 0 }) = specRowEntry w2 w3 (m.get i) := by
      unfold specRowEntry
      rcases (by omega : (rowFields (m.get i)).1 = 0 ∨ (rowFields (m.get i)).1 = 1 ∨ (rowFields (m.get i)).1 = 2) with h | h | h <;>
        simp [h] <;> (cases hrf : rowFields (m.get i); simp_all)
    simp only [hent]
    simp [specRows]


/-- with the widths chosen by `writeXRefStream` nothing is lost for in-use and compressed
    entries: the specification finds type 1 with offset and generation, or type 2 with the object
    stream and the index -/
theorem spec_row_exact (m : XMap) (n : Nat) (hok : ∀ j, j < n → C02fio.EntryOK (m.get j))
    (j : Nat) (hj : j < n) (x : XEntry) (hget : m.get j = some x) (hp : 0 ≤ x.pos) :
    specRowEntry (fieldWidth (maxFields m 0 n).1) (fieldWidth (maxFields m 0 n).2) (m.get j) =
      (if x.inStream = 0 then { kind := 1, a := x.pos.toNat, b := x.gen }
       else { kind := 2, a := x.inStream, b := x.pos.toNat }) := by
  have hfit := C02fio.w_widths_sufficient m n hok j hj
  rw [hget] at hfit ⊢
  obtain ⟨_, hrest⟩ := hfit
  rcases hrest with hneg | ⟨hp63, hcase⟩
  · omega
  · have hu := C02fio.u64_of_nonneg x.pos hp hp63
    have hneg : ¬ (x.pos < 0) := by omega
    by_cases hin : x.inStream = 0
    · simp only [hin, ↓reduceIte] at hcase ⊢
      have hb : (x.inStream == 0) = true := by simp [hin]
      simp [specRowEntry, rowFields, hneg, hb, hu, Nat.mod_eq_of_lt hcase.1, Nat.mod_eq_of_lt hcase.2]
    · simp only [hin, ↓reduceIte] at hcase ⊢
      have hb : (x.inStream == 0) = false := by simp [hin]
      simp [specRowEntry, rowFields, hneg, hb, hu, Nat.mod_eq_of_lt hcase.1, Nat.mod_eq_of_lt hcase.2.2]

-- non-vacuity: the rows of a table with all kinds of entries, read by the specification's parser
example :
    (let m : XMap := [(0, ⟨0, -1, 65535⟩), (2, ⟨0, 70000, 0⟩), (3, ⟨5, 7, 0⟩), (5, ⟨0, 300, 1⟩)]
     let w2 := fieldWidth (maxFields m 0 6).1
     let w3 := fieldWidth (maxFields m 0 6).2
     match Spec.FileWF.xrefRows 1 w2 w3 6 0 (xrefRows m w2 w3 0 6).flatten [] with
     | .ok (t, rest) => rest == [] && Spec.FileWF.tget t 3 == some ⟨2, 5, 7⟩ && Spec.FileWF.tget t 2 == some ⟨1, 70000, 0⟩ &&
         Spec.FileWF.tget t 1 == some ⟨0, 0, 0⟩
     | _ => false) = true := by decide +kernel


theorem spec_unfilterRow_up (row : Bytes) : ∀ (prev : Bytes) (left ul : Nat), row.length = prev.length → AllBytes row →
    Spec.FileWF.unfilterRow 2 left ul (List.zipWith (fun x p => (x + 256 - p % 256) % 256) row prev) prev = row := by
  induction row with
  | nil => intro prev left ul _ _; simp [Spec.FileWF.unfilterRow]
  | cons x xs ih =>
    intro prev left ul hl hb
    cases prev with
    | nil => simp at hl
    | cons p ps =>
      have hx : x < 256 := by simp [AllBytes] at hb; exact hb.1
      have hxs : AllBytes xs := by simp [AllBytes] at hb ⊢; exact hb.2
      simp only [List.zipWith_cons_cons, Spec.FileWF.unfilterRow, List.headD_cons, List.tail_cons]
      have h2 : ((2 : Nat) == 1) = false := rfl
      have h3 : ((2 : Nat) == 2) = true := rfl
      simp only [h2, h3, Bool.false_eq_true, ↓reduceIte]
      have : ((x + 256 - p % 256) % 256 + p) % 256 = x := by omega
      rw [this, ih ps _ _ (by simpa using hl) hxs]

/-- **The specification's PNG un-filter undoes the writer's Up rows.** -/
theorem spec_unpredict_up (cols : Nat) (rows : List Bytes) : ∀ (prev : Bytes) (fuel : Nat),
    prev.length = cols → (∀ r ∈ rows, r.length = cols ∧ AllBytes r) →
    fuel ≥ (pngUpEnc prev rows).length + 1 →
    Spec.FileWF.unpredict cols fuel prev (pngUpEnc prev rows) = .ok rows.flatten := by
  induction rows with
  | nil =>
    intro prev fuel _ _ hf
    cases fuel with
    | zero => simp at hf
    | succ f => simp [pngUpEnc, Spec.FileWF.unpredict]
  | cons row rest ih =>
    intro prev fuel hp hr hf
    obtain ⟨hrl, hrb⟩ := hr row (by simp)
    cases fuel with
    | zero => simp at hf
    | succ f =>
      have hz : (List.zipWith (fun x p => (x + 256 - p % 256) % 256) row prev).length = cols := by
        simp [hrl, hp]
      simp only [pngUpEnc, upRow, List.cons_append, Spec.FileWF.unpredict]
      have h0 : ¬ ((2 : Nat) > 4) := by omega
      have h1 : ¬ ((List.zipWith (fun x p => (x + 256 - p % 256) % 256) row prev).length < cols) := by
        rw [hz]; omega
      simp only [h0, ↓reduceIte, List.take_left' hz, List.drop_left' hz, h1]
      rw [spec_unfilterRow_up row prev 0 0 (by rw [hrl, hp]) hrb]
      rw [ih row f hrl (fun r hr' => hr r (by simp [hr'])) (by
        simp only [pngUpEnc, upRow, List.length_cons, List.length_append] at hf; omega)]
      rfl

/-- what the writer hands to zlib for the cross-reference stream is, after the specification's
    un-filter, exactly the rows that `spec_reads_rows` reads -/
theorem spec_payload_rows (m : XMap) (n : Nat) :
    let p := xrefStreamPayload m n
    Spec.FileWF.unpredict (1 + p.1 + p.2.1) (p.2.2.length + 1) (List.replicate (1 + p.1 + p.2.1) 0) p.2.2
      = .ok (xrefRows m p.1 p.2.1 0 n).flatten := by
  simp only [xrefStreamPayload]
  exact spec_unpredict_up _ _ _ _ (by simp) (C02fio.xrefRows_mem m _ _ n 0) (by omega)


/-! ### `Close` in the table form -/

open PdfVerif.C02fiob in
/-- what `Close` appends when cross-reference tables are in use -/
theorem close_table_layout {s s' : WState} {cat : Obj} {info : Option Obj} {tr : List (Bytes × Obj)} {raw : Bytes}
    (hi : Inv s) (hobj : s.opts.objStm = false) (h : close s cat info tr raw = .ok s') :
    ∃ (s2 : WState) (body td : Bytes), Inv s2 ∧ s2.stm = none ∧
      xrefTableBody s2.xref s2.nextRef = some body ∧
      s'.out = s2.out ++ (body ++ kTrailerNL ++ td ++ [10]) ++ (kStartxref ++ decOf s2.pos ++ kEOF) ∧
      s'.xref = s2.xref ∧ s'.nextRef = s2.nextRef ∧ s'.stm = none := by
  unfold close at h
  split at h
  · simp at h
  · rename_i hs
    have hs' : s.stm = none := by simpa using hs
    split at h
    · simp at h
    · rename_i s1 catRef h1
      obtain ⟨i1, n1, o1⟩ := optPut_inv hi hs' h1
      split at h
      · simp at h
      · rename_i s2 infoRef h2
        obtain ⟨i2, n2, o2⟩ := optPut_inv i1 n1 h2
        simp only [hobj, Bool.false_eq_true, ↓reduceIte] at h
        split at h
        · rename_i body td hb htd
          simp only [Except.ok.injEq] at h
          subst h
          exact ⟨s2, body, td, i2, n2, hb, by simp [emit], by simp [emit], by simp [emit], by simp [emit, n2]⟩
        · simp at h

open PdfVerif.C02fiob in
/-- **writer_wf_table_partial.**  For every state the writer model can reach (any program, any
objects and stream bytes) in which cross-reference tables are used, a successful `Close` yields a
file whose cross-reference level satisfies the independent checker `Spec/FIOFileWF.lean`:

* `checkTail` accepts the end of the file and returns an offset `x`;
* at `x` stands `xref`, the subsection header `0 Size` and then the table
  (`startxref_points_at_last_section`);
* the specification's strict entry parser accepts the `Size` lines (each exactly 20 bytes) and
  finds one entry for every number below `Size` (`size_covers_all`): free for never-written
  numbers, `n` with the recorded offset and generation otherwise;
* every `n` entry's offset is the offset of `N G obj` for its number and generation, and no
  number at or above `Size` has an entry.

Hypotheses: the file is shorter than 10^10 bytes (a table cannot express larger offsets — the
writer does not check this) and generations are ≤ 65535 (the bound of the Go type).
What is *not* proved is that the specification's object parser reads every object body and the
trailer dictionary back (`WriterWF` below): that needs the object-syntax round trip for a second
parser (C01's `obj_rt`, not yet proved for the first). -/
theorem writer_wf_table_partial {s s' : WState} {cat : Obj} {info : Option Obj} {tr : List (Bytes × Obj)} {raw : Bytes}
    (hi : Inv s) (hobj : s.opts.objStm = false) (h : close s cat info tr raw = .ok s')
    (hsize : s'.out.length < 10000000000)
    (hgen : ∀ n e, s'.xref.get n = some e → e.gen ≤ 65535) :
    ∃ x rest,
      Spec.FileWF.checkTail s'.out = .ok x ∧
      At s'.out x (kwXref ++ [10, 48, 32] ++ decOf s'.nextRef ++ [10] ++ xrefLines s'.xref 0 s'.nextRef) ∧
      Spec.FileWF.tableEntries s'.nextRef 0 (xrefLines s'.xref 0 s'.nextRef ++ rest) []
        = .ok ((specEntries s'.xref 0 s'.nextRef).reverse, rest) ∧
      (xrefLines s'.xref 0 s'.nextRef).length = 20 * s'.nextRef ∧
      (∀ n e, s'.xref.get n = some e → n < s'.nextRef) ∧
      (∀ n e, s'.xref.get n = some e → 0 ≤ e.pos → At s'.out e.pos.toNat (objHeader n e.gen)) := by
  obtain ⟨s2, body, td, i2, n2, hb, hout, hx, hnr, hstm⟩ := close_table_layout hi hobj h
  -- the table body
  have hbody : body = kwXref ++ [10, 48, 32] ++ decOf s2.nextRef ++ [10] ++ xrefLines s2.xref 0 s2.nextRef ∧
      hasInStream s2.xref s2.nextRef = false := by
    unfold xrefTableBody at hb
    split at hb
    · simp at hb
    · rename_i hh
      split at hb
      · simp at hb
      · simp only [Option.some.injEq] at hb
        exact ⟨hb.symm, by simpa using hh⟩
  obtain ⟨hbody, hnoStm⟩ := hbody
  -- no compressed entries
  have hins : ∀ n e, s2.xref.get n = some e → e.inStream = 0 := by
    intro n e hg
    have hlt := i2.below n e hg
    unfold hasInStream at hnoStm
    have := List.any_eq_false.1 hnoStm n (by simp; exact hlt)
    simp [hg] at this
    exact this
  -- every in-use entry points at its header, hence below the file size
  have hat : ∀ n e, s2.xref.get n = some e → 0 ≤ e.pos → At s'.out e.pos.toNat (objHeader n e.gen) := by
    intro n e hg hp
    rcases i2.entries n e hg (hins n e hg) hp with ha | ⟨st, h1, _⟩
    · rw [hout]; exact (ha.append _).append _
    · rw [n2] at h1; cases h1
  have hbound : ∀ j, 0 ≤ j → j < 0 + s2.nextRef → ∀ x, s2.xref.get j = some x → x.pos < 10000000000 ∧ x.gen ≤ 65535 := by
    intro j _ _ x hg
    refine ⟨?_, hgen j x (by rw [hx]; exact hg)⟩
    by_cases hp : 0 ≤ x.pos
    · have := (hat j x hg hp).end_le; omega
    · omega
  have hpos19 : s2.pos < 10 ^ 19 := by
    rw [i2.pos_eq]; rw [hout] at hsize; simp at hsize; omega
  refine ⟨s2.pos, kTrailerNL ++ td ++ [10] ++ (kStartxref ++ decOf s2.pos ++ kEOF), ?_, ?_, ?_, ?_, ?_, ?_⟩
  · rw [hout]
    have : s2.out ++ (body ++ kTrailerNL ++ td ++ [10]) ++ (kStartxref ++ decOf s2.pos ++ kEOF)
        = (s2.out ++ (body ++ kTrailerNL ++ td)) ++ [10] ++ kStartxref ++ decOf s2.pos ++ kEOF := by simp
    rw [this]
    exact spec_tail_ok _ _ hpos19
  · rw [hout, hx, hnr, i2.pos_eq, hbody]
    exact ⟨s2.out, kTrailerNL ++ td ++ [10] ++ (kStartxref ++ decOf s2.out.length ++ kEOF), by simp, rfl⟩
  · rw [hx, hnr]
    have := spec_reads_table s2.xref (kTrailerNL ++ td ++ [10] ++ (kStartxref ++ decOf s2.pos ++ kEOF)) s2.nextRef 0 [] hbound
    simpa using this
  · rw [hx, hnr]
    exact C02fio.xref_lines_20 s2.xref 0 s2.nextRef hbound
  · intro n e hg; rw [hnr]; exact i2.below n e (by rw [← hx]; exact hg)
  · intro n e hg hp; exact hat n e (by rw [← hx]; exact hg) hp

/-- the full statement: the checker accepts the whole file and extracts the values written
    (not proved; see `writer_wf_table_partial` and the C03 run of `checkFile` on real files) -/
def WriterWF : Prop :=
  ∀ (o : WOpts) (s0 s : WState) (ops : List Op) (inflate : Bytes → Option Bytes),
    initState o = some s0 → run s0 ops 0 = .ok s →
    (∃ cat info tr raw pre, ops = pre ++ [Op.close cat info tr raw]) →
    ∃ facts, Spec.FileWF.checkFile inflate s.out = .ok facts ∧ facts.size = s.nextRef


-- non-vacuity: a table-form program (PDF 1.3, seekable sink, a long stream, a deferred Put);
-- the hypotheses of `writer_wf_table_partial` hold and the checker's `checkTail` computes the
-- offset at which `xref` stands
example : (match initState { C02fiob.exOpts with version := 4 } with
    | some s0 => (match run s0 C02fiob.exProg 0 with
      | .ok s => (match Spec.FileWF.checkTail s.out with
          | .ok x => isPrefixOf kwXref (s.out.drop x) && s.opts.objStm == false && s.nextRef == 5
          | _ => false)
      | _ => false)
    | none => false) = true := by decide +kernel

/-- a complete program with a proper catalog -/
def exProgWF : List Op :=
  [.alloc, .alloc, .alloc, .put 1 0 (.plain (.dict [([84, 121, 112, 101], .name [80, 97, 103, 101, 115])])),
   .openStream 2 0 [([75], .str [40, 41, 92])] none, .write (List.replicate 1030 65),
   .put 3 0 (.plain (.arr [.name [65, 32], .real [45, 49, 46, 53], .ref 2 0])), .closeStream,
   .close (.dict [([84, 121, 112, 101], .name [67, 97, 116, 97, 108, 111, 103]), ([80, 97, 103, 101, 115], .ref 1 0)])
     none [] []]

-- the whole checker accepts this model-written file and finds its five numbers and four
-- objects (an executable instance of `WriterWF`)
example : (match initState { C02fiob.exOpts with version := 4 } with
    | some s0 => (match run s0 exProgWF 0 with
      | .ok s => (match Spec.FileWF.checkFile (fun _ => none) s.out with
          | .ok facts => facts.size == 5 && facts.objs.length == 4
          | _ => false)
      | _ => false)
    | none => false) = true := by decide +kernel

end PdfVerif.C03fio

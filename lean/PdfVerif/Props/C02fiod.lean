import PdfVerif.Model.FIOReader
import PdfVerif.Model.FIOWriter
import PdfVerif.Props.C02fioc
import PdfVerif.Props.C01d
import PdfVerif.Lemmas.C01Step
import PdfVerif.Lemmas.C01Fuel
/-!
# C02 (work package FIO) — `indirect_obj_rt`: the reader model returns the object written

Built on C01's object round trip (`Props/C01d.lean`: `readsBack_all` — every good object followed
by an admissible continuation is read back), on fuel monotonicity (`Lemmas/C01Fuel.lean`) and on
`readIntegerE_decOf` for the `N G obj` header.  The continuation here is `"\nendobj\n"`;
`Lemmas/C01Defs.lean:tokStart` admits the byte `e` for this purpose (one-token change there).
-/
namespace PdfVerif.C02fiod
open PdfVerif PdfVerif.FIO PdfVerif.C01b PdfVerif.C01L PdfVerif.C01d PdfVerif.C02fioc

/-- `readTopObject` agrees with `readObject` whenever the latter succeeds (a dictionary that is
    not followed by `stream`) -/
theorem readTopObject_of_readObject (inp : Bytes) (off : Nat) (getInt : Obj → Except Err Int) (v : Obj) (k : Bytes)
    (h : readObject (scanFuel inp) 0 inp = .ok (v, k)) :
    readTopObject inp off getInt = .ok (.plain v, k) := by
  unfold readTopObject
  split
  · rename_i t
    -- the dictionary branch of `readObject`
    have hf : scanFuel (60 :: 60 :: t) = (3 * (60 :: 60 :: t).length + 7) + 1 := by simp [scanFuel]
    rw [hf] at h
    have hcase : readObject (3 * (60 :: 60 :: t).length + 7 + 1) 0 (60 :: 60 :: t)
        = dictResult (readDict (3 * (60 :: 60 :: t).length + 7) 0 (60 :: 60 :: t)) := by
      rw [readObject]
      simp [startsWith, isPrefixOf, kw_null, kw_true, kw_false, isDigit, dictResult]
      cases readDict (3 * (t.length + 1 + 1) + 7) 0 (60 :: 60 :: t) with
      | error e => rfl
      | ok p => rfl
    rw [hcase] at h
    cases hd : readDict (3 * (60 :: 60 :: t).length + 7) 0 (60 :: 60 :: t) with
    | error e => rw [hd] at h; simp [dictResult] at h
    | ok p =>
      obtain ⟨d, r⟩ := p
      rw [hd] at h
      have hm := (mono_all (3 * (60 :: 60 :: t).length + 7)).2.2.2.1 0 (60 :: 60 :: t) (d, r) hd
      rw [hf, hm]
      simp only [dictResult] at h
      split at h
      · simp at h
      · rename_i hns
        simp only [Except.ok.injEq, Prod.mk.injEq] at h
        obtain ⟨rfl, rfl⟩ := h
        simp [hns]
  · rw [h]; rfl

theorem kEndobj_cont (ns : Bool) (rest : Bytes) : Cont ns (kEndobj ++ rest) := by
  have h : kEndobj ++ rest = 10 :: 101 :: ([110, 100, 111, 98, 106, 10] ++ rest) := by simp [kEndobj]
  rw [h]
  exact .inr ⟨.inr rfl, 101, _, rfl, by simp [tokStart]⟩

theorem skipWS_endobj (rest : Bytes) :
    skipWS (kEndobj ++ rest) = (101 :: ([110, 100, 111, 98, 106, 10] ++ rest), false) := by
  have h : kEndobj ++ rest = 10 :: 101 :: ([110, 100, 111, 98, 106, 10] ++ rest) := by simp [kEndobj]
  rw [h, skipWS_lf]
  exact skipWS_tok 101 _ (by simp [tokStart])

/-- **indirect_obj_rt.**  For every good object (C01's documented limits, not a bare reference),
every reference within range and every formatting mode of an unencrypted file: the bytes the
writer model's `Put` emits — `N G obj\n`, the formatted object, `\nendobj\n` — are read by
`ReadIndirectObject` as that object (up to the normal form `nrm`: nil entries absent, typed nil
arrays null), with that reference, and reading stops after `endobj`. -/
theorem indirect_obj_rt (opt : FmtOpt) (o : Obj) (hg : good o = true) (hd : depthOk o) (hr : isRefObj o = false)
    (num gen : Nat) (hnum : num < Gen.fio_maxXRefSize) (hgen : gen ≤ Gen.fio_maxGeneration)
    (off : Nat) (getInt : Obj → Except Err Int) (rest : Bytes) :
    ∃ body r, format opt [o] = some body ∧
      readIndirectObject (objHeader num gen ++ body ++ kEndobj ++ rest) off getInt
        = .ok (.plain r, num, gen, 10 :: rest) ∧
      nrm r = nrm o := by
  have hgc := good_canon o hg
  obtain ⟨⟨bs, ns'⟩, hf⟩ := fmtObj_some opt o.canon hgc false
  obtain ⟨tok, c, t, hf', htok, hstart, hbs⟩ := fmtObj_shape opt false o.canon bs ns' hgc hf
  have hbt : bs = tok := by
    rcases hbs with ⟨h, _⟩ | ⟨h, _⟩
    · exact h
    · cases h
  subst hbt
  refine ⟨bs, rd o.canon, (format_single opt o bs).mpr ⟨ns', hf⟩, ?_, nrm_rd_canon o hg⟩
  have hdc : 0 + depthOf o.canon ≤ Gen.scanner_maxScannerNestDepth := by
    have := depth_canon o; unfold depthOk at hd; omega
  obtain ⟨k', h1, h2, _⟩ := readsBack_all opt o.canon hgc (by rw [isRefObj_canon]; exact hr) 0 hdc
    bs ns' hf (kEndobj ++ rest) (kEndobj_cont ns' rest) (scanFuel (bs ++ (kEndobj ++ rest))) (by simp [scanFuel])
  have htop := readTopObject_of_readObject (bs ++ (kEndobj ++ rest)) (off + ((objHeader num gen ++ bs ++ kEndobj ++ rest).length - (bs ++ (kEndobj ++ rest)).length)) getInt _ _ h1
  have hk' : skipWS k' = (101 :: ([110, 100, 111, 98, 106, 10] ++ rest), false) := by
    rcases h2 with h | h
    · rw [h]; exact skipWS_endobj rest
    · rw [h, skipWS_endobj]; exact skipWS_tok 101 _ (by simp [tokStart])
  -- the header
  have e0 : objHeader num gen ++ bs ++ kEndobj ++ rest
      = decOf num ++ (32 :: (decOf gen ++ (32 :: 111 :: 98 :: 106 :: 10 :: (bs ++ (kEndobj ++ rest))))) := by
    simp [objHeader, kObj]
  have e1 : readIntegerE (decOf num ++ (32 :: (decOf gen ++ (32 :: 111 :: 98 :: 106 :: 10 :: (bs ++ (kEndobj ++ rest))))))
      = .ok ((num : Int), 32 :: (decOf gen ++ (32 :: 111 :: 98 :: 106 :: 10 :: (bs ++ (kEndobj ++ rest))))) :=
    readIntegerE_decOf num (by simp [Gen.fio_maxXRefSize] at hnum; omega) _ (by simp [NumEnd, isDigit_32])
  have e2 : readIntegerE (32 :: (decOf gen ++ (32 :: 111 :: 98 :: 106 :: 10 :: (bs ++ (kEndobj ++ rest)))))
      = .ok ((gen : Int), 32 :: 111 :: 98 :: 106 :: 10 :: (bs ++ (kEndobj ++ rest))) := by
    rw [readIntegerE_ws 32 (.inl rfl)]
    exact readIntegerE_decOf gen (by simp [Gen.fio_maxGeneration] at hgen; omega) _ (by simp [NumEnd, isDigit_32])
  have e3 : skipWS (32 :: 111 :: 98 :: 106 :: 10 :: (bs ++ (kEndobj ++ rest)))
      = (111 :: 98 :: 106 :: 10 :: (bs ++ (kEndobj ++ rest)), false) := by
    rw [skipWS_sp]
    have h111 : isSpace 111 = false := by decide +kernel
    simp [skipWS, h111]
  have e4 : skipWS (10 :: (bs ++ (kEndobj ++ rest))) = (bs ++ (kEndobj ++ rest), false) := by
    rw [skipWS_lf, htok]
    exact skipWS_tok c _ (objStart_tokStart hstart)
  have hrange : ¬ ((num : Int) < 0 ∨ (num : Int) ≥ (Gen.fio_maxXRefSize : Nat) ∨ (gen : Int) < 0 ∨ (gen : Int) > (Gen.fio_maxGeneration : Nat)) := by
    omega
  unfold readIndirectObject
  rw [e0, e1]
  simp only [e2, e3]
  have hobj : isPrefixOf kwObj (111 :: 98 :: 106 :: 10 :: (bs ++ (kEndobj ++ rest))) = true := by
    simp [kwObj, isPrefixOf]
  simp only [hobj, Bool.not_true, Bool.false_eq_true, ↓reduceIte, List.drop_succ_cons, List.drop_zero, e4]
  have hr' : (decide ((num : Int) < 0) || decide ((num : Int) ≥ (Gen.fio_maxXRefSize : Nat)) || decide ((gen : Int) < 0) ||
      decide ((gen : Int) > (Gen.fio_maxGeneration : Nat))) = false := by
    simp; omega
  simp only [hr', Bool.false_eq_true, ↓reduceIte]
  rw [← e0] 
  rw [htop]
  simp only [hk']
  have hend : isPrefixOf kwEndobj (101 :: ([110, 100, 111, 98, 106, 10] ++ rest)) = true := by
    simp [kwEndobj, isPrefixOf]
  cases hv : rd o.canon <;> simp [kwEndobj, isPrefixOf]

-- non-vacuity: a dictionary with a string, a name, a real, a reference and a nested array
example : (match readIndirectObject (objHeader 12 3 ++
      (match format { pretty := true, content := false }
        [.dict [([65], .str [40, 92, 41]), ([66], .arr [.name [35, 32], .real [45, 46, 53], .ref 7 0, .null])]] with
       | some b => b | none => []) ++ kEndobj ++ [37]) 500 (fun _ => .error .malformed) with
    | .ok (.plain (.dict [(a, .str s), (b, .arr [.name n, .real t, .ref 7 0, .null])]), 12, 3, r) =>
        a == [65] && s == [40, 92, 41] && b == [66] && n == [35, 32] && t == [45, 46, 53] && r == [10, 37]
    | _ => false) = true := by decide +kernel

/-- **effective_version_max.**  The version a reader reports is the larger of the header version
and the catalog's `/Version`: a catalog entry below the header version never lowers it, one above
raises it, a missing one (0) leaves the header version. -/
theorem effective_version_max (h c : Nat) :
    effectiveVersion h c = max h c ∧ h ≤ effectiveVersion h c ∧ c ≤ effectiveVersion h c ∧
      (c ≤ h → effectiveVersion h c = h) ∧ effectiveVersion h 0 = h := by
  unfold effectiveVersion
  refine ⟨?_, ?_, ?_, ?_, ?_⟩ <;> (try split) <;> (try intro _) <;> (try simp) <;> omega

end PdfVerif.C02fiod

import PdfVerif.Lemmas.CONCBasic
/-!
# C18 — `decode_never_blocks`: systems which use only `Decode` are deadlock free

For every trace whose labels are `Decode` calls, returns of decode functions (with a value or
an error), and continuations out of `Getter.Get` — any number of threads, any nesting, chains,
cycles, mutually referential objects — every thread that is inside a call can take a step.
Nobody ever waits for anybody: the cache protocol of `Decode` has no blocking operation.
-/
namespace PdfVerif.C18concNB
open PdfVerif PdfVerif.CONC

/-- labels of a system that uses only `Decode` (decode functions do not panic) -/
def isDecodeOnly : Label → Bool
  | (_, .callDecode _ _ _) => true
  | (_, .fnRet (.ok _)) => true
  | (_, .fnRet (.err _)) => true
  | (_, .go) => true
  | (_, .goFail) => true
  | _ => false

def DecodeOnly (l : Label) : Prop := isDecodeOnly l = true

instance (l : Label) : Decidable (DecodeOnly l) := by unfold DecodeOnly; exact inferInstance

def isDecFrame : Frame → Bool
  | .decGet .. => true
  | .decFn .. => true
  | _ => false

/-- every frame of every thread is an activation of `Decode` -/
def AllDec (s : State) : Prop := ∀ t, (s.thr t).all isDecFrame = true

theorem allDec_upd (s : State) (t : Tid) (stk : List Frame) (thr' : Tid → List Frame)
    (h : AllDec s) (hs : stk.all isDecFrame = true) (ht : thr' = upd s.thr t stk) :
    ∀ t', (thr' t').all isDecFrame = true := by
  intro t'
  subst ht
  by_cases e : t' = t
  · subst e; simp [hs]
  · rw [upd_other _ _ _ _ e]; exact h t'

theorem deliverStack_allDec (rest : List Frame) (res : Res) (h : rest.all isDecFrame = true) :
    (deliverStack rest res).all isDecFrame = true := by
  unfold deliverStack
  split
  · simp [isDecFrame] at h
  · exact h

theorem decLoopStack_allDec (s : State) (rest : List Frame) (tp refs path o)
    (h : rest.all isDecFrame = true) : (decLoopStack s rest tp refs path o).all isDecFrame = true := by
  unfold decLoopStack
  split
  · simp [isDecFrame, h]
  · split
    · exact deliverStack_allDec _ _ h
    · split
      · exact deliverStack_allDec _ _ h
      · split
        · exact deliverStack_allDec _ _ h
        · simp [isDecFrame, h]

theorem allDec_step (cfg : Cfg) (s : State) (t : Tid) (a : Act) (s' : State) (hg : DecodeOnly (t, a))
    (hp : AllDec s) (h : step cfg s t a = some s') : AllDec s' := by
  have hrest : ∀ f rest, s.thr t = f :: rest → rest.all isDecFrame = true := by
    intro f rest e; have := hp t; rw [e] at this; simp at this; simpa using this.2
  unfold step at h
  cases a with
  | callDecode o tp path =>
    simp only at h
    split at h
    · cases h
      exact allDec_upd s t _ _ hp (decLoopStack_allDec s _ tp [] path o (hp t)) (decLoop_thr ..)
    · cases h
  | callExcl o tp path => exact absurd hg (by simp [DecodeOnly, isDecodeOnly])
  | callPair r A B a b => exact absurd hg (by simp [DecodeOnly, isDecodeOnly])
  | fnRet res =>
    simp only at h
    split at h
    · next tp refs path rest e =>
      cases h
      have hr := hrest _ _ e
      cases res with
      | panic => exact absurd hg (by simp [DecodeOnly, isDecodeOnly])
      | err er =>
        simp only [fnReturn]
        exact allDec_upd s t _ _ hp (deliverStack_allDec rest _ hr) (retDec_thr ..)
      | ok v =>
        cases refs with
        | nil =>
          simp only [fnReturn]
          exact allDec_upd s t _ _ hp (deliverStack_allDec rest _ hr) (retDec_thr ..)
        | cons r0 rs =>
          simp only [fnReturn]
          exact allDec_upd s t _ _ hp (deliverStack_allDec rest _ hr) (retDec_thr ..)
    · next tp path rest e => have := hp t; rw [e] at this; simp [isDecFrame] at this
    · cases h
  | goFail =>
    simp only at h
    split at h
    · next tp refs path r rest e =>
      cases h
      exact allDec_upd s t _ _ hp (deliverStack_allDec rest _ (hrest _ _ e)) (retDec_thr ..)
    · cases h
  | go =>
    simp only at h
    split at h
    · next tp refs path r rest e =>
      have hr := hrest _ _ e
      split at h
      · cases h; exact allDec_upd s t _ _ hp (deliverStack_allDec rest _ hr) (retDec_thr ..)
      · cases h; exact allDec_upd s t _ _ hp (decLoopStack_allDec s rest tp refs path _ hr) (decLoop_thr ..)
      · cases h; exact allDec_upd s t _ _ hp (decLoopStack_allDec s rest tp refs path _ hr) (decLoop_thr ..)
    · next k p path rest e => have := hp t; rw [e] at this; simp [isDecFrame] at this
    · next k p res rest e => have := hp t; rw [e] at this; simp [isDecFrame] at this
    · next k p res rest e => have := hp t; rw [e] at this; simp [isDecFrame] at this
    · next k p res rest e => have := hp t; rw [e] at this; simp [isDecFrame] at this
    · next k p rest e => have := hp t; rw [e] at this; simp [isDecFrame] at this
    · cases h

theorem allDec_init : AllDec State.init := by intro t; simp [State.init]

/-- In a system that uses only `Decode`, every reachable state has only `Decode` frames. -/
theorem allDec_reachable (cfg : Cfg) (ls : List Label) (s : State)
    (hl : ∀ l ∈ ls, DecodeOnly l) (h : run cfg State.init ls = some s) : AllDec s :=
  run_inv cfg DecodeOnly AllDec (allDec_step cfg) ls State.init s hl allDec_init h

/-- `decode_never_blocks`: in every state reachable by a system using only `Decode` — any
number of threads, arbitrary decode functions which may themselves `Decode`, reference chains
and cycles, mutually referential objects — every thread that is inside a call has an enabled
transition (out of `Get`, or the return of its decode function), and every idle thread can
start a call.  No thread ever waits for another. -/
theorem decode_never_blocks (cfg : Cfg) (ls : List Label) (s : State)
    (hl : ∀ l ∈ ls, DecodeOnly l) (h : run cfg State.init ls = some s) (t : Tid) :
    (s.thr t ≠ [] → (step cfg s t .go).isSome = true ∨ (step cfg s t (.fnRet (.err (.fn 0)))).isSome = true)
    ∧ (s.thr t = [] → ∀ o tp path, (step cfg s t (.callDecode o tp path)).isSome = true) := by
  have ha := allDec_reachable cfg ls s hl h t
  constructor
  · intro hne
    cases e : s.thr t with
    | nil => exact absurd e hne
    | cons f rest =>
      rw [e] at ha
      cases f with
      | decGet tp refs path r =>
        left
        simp only [step, e]
        cases cfg.get r <;> simp
      | decFn tp refs path => right; simp [step, e]
      | exFn tp path => simp [isDecFrame] at ha
      | exStart k p path => simp [isDecFrame] at ha
      | exRun k p => simp [isDecFrame] at ha
      | exPub k p res => simp [isDecFrame] at ha
      | exClose k p res => simp [isDecFrame] at ha
      | exDone k p res => simp [isDecFrame] at ha
      | exWait k p => simp [isDecFrame] at ha
      | dead => simp [isDecFrame] at ha
  · intro he o tp path
    simp [step, he, canCall]

/-- non-vacuity: two threads decoding mutually referential objects `r1`, `r2` (each decode
function decodes the other object with a fresh cursor) is such a system; here both are in the
middle of their nested decodes. -/
example :
    let cfg : Cfg := ⟨fun _ => .direct, true⟩
    let ls : List Label :=
      [(0, .callDecode (.ref 1) 0 []), (1, .callDecode (.ref 2) 0 []), (0, .go), (1, .go),
       (0, .callDecode (.ref 2) 0 []), (1, .callDecode (.ref 1) 0 [])]
    (∀ l ∈ ls, DecodeOnly l) ∧ (run cfg State.init ls).isSome = true := by
  refine ⟨by decide, by decide⟩

end PdfVerif.C18concNB

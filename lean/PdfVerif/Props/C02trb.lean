import PdfVerif.Props.C02tr
import PdfVerif.Model.FIOXRef
import PdfVerif.Props.C08tr
import PdfVerif.Generated.FnFrag
/-!
# C02 (translator bridge): the hand model `Model/FIOXRef.lean` = the code GENERATED from xref.go

The theorems of `Props/C02fio*.lean` are about `FIO.decodeInt` / `FIO.encodeInt64` (bytes as `Nat`).
Here these two functions are proved equal to `Gen.pdf_decodeInt` / `Gen.pdf_encodeInt64`, which
`tools/extract` re-creates from the Go source on every run; so every theorem about the hand model
holds for the translated code, and a source change that breaks the equality breaks this file.
-/
namespace PdfVerif.C02trb
open PdfVerif PdfVerif.Gen PdfVerif.Go PdfVerif.C02tr

/-- bytes of the generated code (`UInt8`) as bytes of the hand models (`Nat < 256`) -/
def nat (bs : List UInt8) : Bytes := bs.map (·.toNat)

theorem nat_allBytes (bs : List UInt8) : AllBytes (nat bs) := by
  intro b hb
  simp only [nat, List.mem_map] at hb
  obtain ⟨x, _, rfl⟩ := hb
  exact x.toNat_lt

theorem beVal_mod' (M : Nat) (bs : Bytes) (a : Nat) :
    FIO.beVal bs (a % M) % M = FIO.beVal bs a % M := by
  induction bs generalizing a with
  | nil => simp [FIO.beVal]
  | cons b bs ih =>
    simp only [FIO.beVal]
    have e : (a % M * 256 + b) % M = (a * 256 + b) % M := by
      rw [Nat.add_mod, Nat.mul_mod, Nat.mod_mod, ← Nat.mul_mod, ← Nat.add_mod]
    calc FIO.beVal bs (a % M * 256 + b) % M
        = FIO.beVal bs ((a % M * 256 + b) % M) % M := (ih _).symm
      _ = FIO.beVal bs ((a * 256 + b) % M) % M := by rw [e]
      _ = FIO.beVal bs (a * 256 + b) % M := ih _

theorem beVal_mod (bs : Bytes) (a : Nat) :
    FIO.beVal bs (a % FIO.two64) % FIO.two64 = FIO.beVal bs a % FIO.two64 := beVal_mod' _ bs a

theorem decNat_eq_beVal (bs : List UInt8) (s : Nat) (hs : s < FIO.two64) :
    decNat s bs = FIO.beVal (nat bs) s % FIO.two64 := by
  induction bs generalizing s with
  | nil => simp [decNat, nat, FIO.beVal]; unfold FIO.two64 at *; omega
  | cons b bs ih =>
    simp only [decNat, nat, List.map_cons, FIO.beVal]
    have := ih ((s * 256 + b.toNat) % 18446744073709551616) (by unfold FIO.two64; omega)
    rw [this]
    exact beVal_mod (nat bs) (s * 256 + b.toNat)

/-- **bridge**: the hand model's `decodeInt` is the generated `decodeInt`, for every byte string -/
theorem decodeInt_bridge (buf : List UInt8) :
    FIO.decodeInt (nat buf) =
      match pdf_decodeInt buf with
      | (v, none) => some v.toNat
      | (_, some _) => none := by
  rw [decodeInt_eq, decNat_eq_beVal buf 0 (by unfold FIO.two64; omega)]
  unfold FIO.decodeInt
  simp only []
  generalize FIO.beVal (nat buf) 0 % FIO.two64 = r
  unfold FIO.two63
  by_cases h : r > 9223372036854775807
  · have : r ≥ 9223372036854775808 := by omega
    simp [h, this]
  · have : ¬ (r ≥ 9223372036854775808) := by omega
    simp [h, this]

theorem nat_bytesBE (x : UInt64) (w : Nat) : nat (bytesBE x w) = FIO.encodeInt64 x.toNat w := by
  induction w with
  | zero => simp [bytesBE, nat, FIO.encodeInt64]
  | succ w ih =>
    rw [bytesBE_succ]
    simp only [nat, List.map_cons, FIO.encodeInt64] at ih ⊢
    rw [ih, shr64_byte, Nat.pow_mul]

/-- **bridge**: the generated `encodeInt64` writes exactly the bytes of the hand model's
`encodeInt64`, for every value and every width `0 ≤ w` (and reports no error, never panics) -/
theorem encodeInt64_bridge (x : UInt64) (w : Int) (h0 : 0 ≤ w) (h1 : w ≤ 1000000) :
    ∃ bs, pdf_encodeInt64 x w = some (none, bs) ∧ nat bs = FIO.encodeInt64 x.toNat w.toNat :=
  ⟨bytesBE x w.toNat, encodeInt64_eq x w h0 h1, nat_bytesBE x w.toNat⟩

/-- **bridge**: the entry cap the hand model of `checkXRefStreamDict` uses
(`XRefEntriesBase + XRefEntriesPerByte·raw`, `raw = max(rawLen,0)`) is the generated
`limits.MaxXRefEntries(rawLen)`, for every stream length below 2⁵⁷ (beyond that the Go product wraps,
see `C08tr.maxXRefEntries_exact_false`) -/
theorem maxXRefEntries_bridge (rawLen : Int) (h : Go.IsI64 rawLen) (hn : rawLen < 144115188075855872) :
    ((fio_XRefEntriesBase + fio_XRefEntriesPerByte * (if rawLen < 0 then 0 else rawLen.toNat) : Nat) : Int)
      = lim_MaxXRefEntries rawLen := by
  rw [C08tr.maxXRefEntries_spec_partial rawLen h hn]
  unfold fio_XRefEntriesBase fio_XRefEntriesPerByte lim_XRefEntriesBase lim_XRefEntriesPerByte
  split <;> omega

/-! ### the guards of `checkXRefStreamDict` (fragments translated from xref.go)

`checkXRefStreamDict` works on `Dict` values and is not translatable as a whole; its arithmetic guards
are translated as single expressions (`Gen.frag_checkXRefStreamDict_*`).  The hand model
`FIO.checkXRefStreamDict` uses the conditions on the left-hand sides below. -/

/-- the `/Size` guard -/
theorem sizeGuard_bridge (size : Int) :
    (size < 0 || size > fio_maxXRefSize) = frag_checkXRefStreamDict_sizeBad true size := by
  unfold frag_checkXRefStreamDict_sizeBad fio_maxXRefSize
  simp

/-- the guard on each entry of `/W` (`FIO.widthsOf`) -/
theorem widthGuard_bridge (w : Int) :
    (w < 0 || w > 8) = frag_checkXRefStreamDict_widthBad true w := by
  unfold frag_checkXRefStreamDict_widthBad
  simp

/-- `w[0]+w[1]+w[2] == 0` on accepted widths = the model's `ws.foldl (· + ·) 0 == 0` -/
theorem widthsZero_bridge (w0 w1 w2 : Nat) (h0 : w0 ≤ 8) (h1 : w1 ≤ 8) (h2 : w2 ≤ 8) :
    ([w0, w1, w2].foldl (· + ·) 0 == 0) = frag_checkXRefStreamDict_widthsZero w0 w1 w2 := by
  unfold frag_checkXRefStreamDict_widthsZero
  rw [Go.i64_of_bounds (x := (w0 : Int) + w1) (by omega) (by omega), Go.i64_of_bounds (by omega) (by omega)]
  rw [Bool.eq_iff_iff]
  simp only [List.foldl_cons, List.foldl_nil, beq_iff_eq]
  omega

/-- the guard on each `/Index` pair (`FIO.indexPairs`); `size - subStart` cannot wrap because the
`/Size` guard has bounded `size` and a negative `subStart` is rejected first -/
theorem subsectionGuard_bridge (s n size : Int) (hs : Go.IsI64 s) (h0 : 0 ≤ size) (h1 : size ≤ 16777216) :
    (s < 0 || n ≤ 0 || s > size || n > size - s) = frag_checkXRefStreamDict_subsectionBad s n size := by
  unfold frag_checkXRefStreamDict_subsectionBad
  unfold Go.IsI64 at hs
  by_cases hneg : s < 0
  · simp [hneg]
  · rw [Go.i64_of_bounds (x := size - s) (by omega) (by omega)]

/-- the entry cap (`min(maxXRefSize, limits.MaxXRefEntries(rawLen))`) for stream lengths below 2⁵⁷ -/
theorem maxEntriesGuard_bridge (rawLen : Int) (h : Go.IsI64 rawLen) (hn : rawLen < 144115188075855872) :
    ((min fio_maxXRefSize (fio_XRefEntriesBase + fio_XRefEntriesPerByte * (if rawLen < 0 then 0 else rawLen.toNat)) : Nat) : Int)
      = frag_checkXRefStreamDict_maxEntries rawLen := by
  unfold frag_checkXRefStreamDict_maxEntries
  rw [← maxXRefEntries_bridge rawLen h hn]
  unfold fio_maxXRefSize
  omega

theorem tooManyGuard_bridge (total maxEntries : Nat) :
    decide (total > maxEntries) = frag_checkXRefStreamDict_tooMany total maxEntries := by
  unfold frag_checkXRefStreamDict_tooMany
  rw [Bool.eq_iff_iff]
  simp only [decide_eq_true_eq]
  omega

example : FIO.decodeInt (nat [0, 1, 2]) = some 258 := by decide +kernel

end PdfVerif.C02trb

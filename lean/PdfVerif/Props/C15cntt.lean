import PdfVerif.Props.C15cnti
/-!
# C15 (and C05) — totality of the content scanner on arbitrary bytes

For *every* input — not only streams the writer produced — the model of
`graphics/content/stream.go` terminates within the fuel the entry points supply and stays inside
the scanner's caps:

* `scanToken_progress` — a token consumes at least one byte, a parse error resumes strictly
  further on (`ScanToken` has no fuel: its leaf readers are structural);
* `value_total`, `readInlineImage_total` — `readValueDepth`/`readDictBody`/`readInlineImage`
  never run out of fuel (`2·len + 2`), never move backwards, and inline image data is at most
  `maxInlineImageBytes` bytes long;
* `step_caps` — the loop invariant of `Scan`: at most `maxContentNestDepth` open composites, every
  frame within `maxArrayLen` / `2·maxDictLen`, at most `maxOperatorArgs` operands;
* `scanLoop_total`, `scanOne_total`, **`scan_total`**, `scanAll_fuel_indep` — `Scan` and
  `pumpScanner`: never the out-of-fuel result, strict progress after every operator and every
  parse error, every operator within the caps, result independent of the fuel.

The fuel of `readInlineImage` was `len + 2` in the first version of the model; the totality proof
showed that deeply nested brackets at the very end of the input (`BI/K[[[[[[[[[[`) need up to two
units of fuel per byte, so the model now supplies `2·len + 2` (the Go code is unaffected: it has
no fuel; the harness now sends such inputs).
-/
namespace PdfVerif.C15cntt
open PdfVerif PdfVerif.CNT

/-- the result is not "out of fuel" and at most `n` bytes remain -/
def Within {α : Type} (r : Res α) (n : Nat) : Prop :=
  match r with
  | .ok _ rest => rest.length ≤ n
  | .perr rest => rest.length ≤ n
  | .eof => True
  | .fuel => False

theorem within_consB (x : Nat) (r : Res Bytes) (n : Nat) (h : Within r n) : Within (consB x r) n := by
  cases r <;> simp [consB, Res.map, Within] at h ⊢ <;> exact h

theorem within_mono {α : Type} (r : Res α) (n m : Nat) (h : Within r n) (hnm : n ≤ m) : Within r m := by
  cases r <;> simp [Within] at h ⊢ <;> omega

theorem within_map {α β : Type} (f : α → β) (r : Res α) (n : Nat) (h : Within r n) : Within (r.map f) n := by
  cases r <;> simp [Res.map, Within] at h ⊢ <;> exact h

/-! ## the leaf readers only move forward -/

theorem skip_le (l : Bytes) : (CNT.skipWS l).length ≤ l.length ∧ (skipCmt l).length ≤ l.length := by
  induction l with
  | nil => simp [CNT.skipWS, skipCmt]
  | cons x xs ih =>
    constructor
    · simp only [CNT.skipWS]
      split
      · have := ih.1; simp; omega
      · split
        · have := ih.2; simp; omega
        · simp
    · simp only [skipCmt]
      split
      · split
        · have := ih.1; simp; omega
        · simp
      · have := ih.2; simp; omega

theorem skipWS_le (l : Bytes) : (CNT.skipWS l).length ≤ l.length := (skip_le l).1

theorem skipSp_le (l : Bytes) : (skipSp l).length ≤ l.length := by
  induction l with
  | nil => simp [skipSp]
  | cons x xs ih => simp only [skipSp]; split <;> simp <;> omega

theorem spanReg_le (l : Bytes) : (spanReg l).2.length ≤ l.length := by
  induction l with
  | nil => simp [spanReg]
  | cons x xs ih => simp only [spanReg]; split <;> simp <;> omega

theorem spanCmt_le (l : Bytes) : (spanCmt l).2.length ≤ l.length := by
  induction l with
  | nil => simp [spanCmt]
  | cons x xs ih => simp only [spanCmt]; split <;> simp <;> omega

theorem nameBodyS_le (l : Bytes) : ∀ k, (nameBodyS k l).2.length ≤ l.length := by
  induction l with
  | nil => intro k; simp [nameBodyS]
  | cons x xs ih =>
    intro k
    cases k with
    | succ k => simp only [nameBodyS]; have := ih k; simp; omega
    | zero =>
      simp only [nameBodyS]
      split
      · simp
      · split
        · split
          · have := ih 2; simp; omega
          · have := ih 0; simp; omega
        · have := ih 0; simp; omega

theorem readStr_within (level : Nat) (ign : Bool) (len : Nat) (inp : Bytes) :
    Within (readStr level ign len inp) inp.length := by
  fun_induction readStr level ign len inp
  all_goals first
    | (simp [Within]; done)
    | (simp [Within]; omega)
    | (apply within_consB; apply within_mono _ _ _ (by assumption); simp; done)
    | (apply within_mono _ _ _ (by assumption); simp; done)
    | (apply within_consB; apply within_mono _ _ _ (by assumption); simp; omega)
    | (apply within_mono _ _ _ (by assumption); simp; omega)

theorem readHex_within (hi : Option Nat) (len : Nat) (inp : Bytes) :
    Within (readHex hi len inp) inp.length := by
  fun_induction readHex hi len inp
  all_goals first
    | (simp [Within]; done)
    | (simp [Within]; omega)
    | (apply within_consB; apply within_mono _ _ _ (by assumption); simp; done)
    | (apply within_mono _ _ _ (by assumption); simp; done)
    | (apply within_consB; apply within_mono _ _ _ (by assumption); simp; omega)
    | (apply within_mono _ _ _ (by assumption); simp; omega)

/-- strict progress: the result is not "out of fuel" and, unless the end of the input was
reached, strictly fewer than `n` bytes remain -/
def Prog {α : Type} (r : Res α) (n : Nat) : Prop :=
  match r with
  | .ok _ rest => rest.length < n
  | .perr rest => rest.length < n
  | .eof => True
  | .fuel => False

theorem prog_of_within {α : Type} (r : Res α) (n m : Nat) (h : Within r n) (hnm : n < m) : Prog r m := by
  cases r <;> simp [Within, Prog] at h ⊢ <;> omega

theorem prog_map {α β : Type} (f : α → β) (r : Res α) (n : Nat) (h : Prog r n) : Prog (r.map f) n := by
  cases r <;> simp [Res.map, Prog] at h ⊢ <;> exact h

theorem prog_mono {α : Type} (r : Res α) (n m : Nat) (h : Prog r n) (hnm : n ≤ m) : Prog r m := by
  cases r <;> simp [Prog] at h ⊢ <;> omega

/-- **`ScanToken` always makes progress**: it never runs out of fuel (it has none), a token
consumes at least one byte, and after a parse error scanning resumes strictly further on. -/
theorem scanToken_progress (inp : Bytes) : Prog (scanToken inp) inp.length := by
  have hs := skipWS_le inp
  unfold scanToken
  cases hsk : CNT.skipWS inp with
  | nil => simp [Prog]
  | cons c r =>
    rw [hsk] at hs
    simp only [List.length_cons] at hs
    simp only []
    split
    · have := nameBodyS_le r 0
      simp only [nameBody]
      by_cases hl : List.length (nameBodyS 0 r).fst > Gen.content_maxNameBytes <;> simp [hl, Prog] <;> omega
    · split
      · exact prog_map _ _ _ (prog_of_within _ _ _ (readStr_within 1 false 0 r) (by omega))
      · split
        · cases r with
          | nil => exact prog_map _ _ _ (prog_of_within _ _ _ (readHex_within none 0 []) (by omega))
          | cons d r' =>
            simp only []
            split
            · simp [Prog] at hs ⊢; omega
            · exact prog_map _ _ _ (prog_of_within _ _ _ (readHex_within none 0 (d :: r')) (by omega))
        · split
          · cases r with
            | nil => simp at *
            | cons d r' => simp [Prog] at hs ⊢; omega
          · cases hr : cReg c with
            | true =>
              have := spanReg_le r
              by_cases hl : List.length (spanReg r).fst + 1 > Gen.content_maxNameBytes <;> simp [hl, Prog] <;> omega
            | false => simp [Prog]; omega

/-! ## the recursive value reader of inline image dictionaries -/

theorem within_of_prog {α : Type} (r : Res α) (n : Nat) (h : Prog r n) : Within r n := by
  cases r <;> simp [Within, Prog] at h ⊢ <;> omega

theorem isPrefixOf_drop_le (t l : Bytes) : (l.drop t.length).length ≤ l.length := by
  simp

/-- fuel `2·len + 1` (`+ 2` for the loops) always suffices -/
theorem value_total (f : Nat) :
    (∀ (d : Nat) (inp : Bytes), 2 * inp.length + 1 ≤ f → Prog (readValue f d inp) inp.length) ∧
    (∀ (d : Nat) (acc : List Obj) (inp : Bytes), 2 * inp.length + 2 ≤ f → Within (readArr f d acc inp) inp.length) ∧
    (∀ (term : Bytes) (vd : Nat) (acc : List (Bytes × Obj)) (inp : Bytes), 2 * inp.length + 2 ≤ f →
        Within (readDictBody f term vd acc inp) inp.length) := by
  induction f with
  | zero =>
    refine ⟨?_, ?_, ?_⟩ <;> intros <;> omega
  | succ f ih =>
    obtain ⟨ihV, ihA, ihD⟩ := ih
    refine ⟨?_, ?_, ?_⟩
    · intro d inp hf
      have hp := scanToken_progress inp
      rw [readValue]
      split
      · rename_i o rest heq
        rw [heq] at hp
        simp only [Prog] at hp
        split
        · split
          · simp [Prog]; exact hp
          · exact prog_of_within _ _ _ (ihA (d + 1) [] rest (by omega)) hp
        · split
          · split
            · simp [Prog]; exact hp
            · exact prog_map _ _ _ (prog_of_within _ _ _ (ihD [62, 62] (d + 1) [] rest (by omega)) hp)
          · simp [Prog]; exact hp
      · exact hp
    · intro d acc inp hf
      have hs := skipWS_le inp
      rw [readArr]
      cases hsk : CNT.skipWS inp with
      | nil => simp [Within]
      | cons c r =>
        rw [hsk] at hs
        simp only [List.length_cons] at hs
        simp only []
        split
        · simp [Within]; omega
        · split
          · simp [Within]; omega
          · have hv := ihV d (c :: r) (by simp; omega)
            cases hrv : readValue f d (c :: r) with
            | ok e rest =>
              rw [hrv] at hv
              simp only [Prog, List.length_cons] at hv
              simp only []
              exact within_mono _ _ _ (ihA d (acc ++ [e]) rest (by omega)) (by omega)
            | eof => simp [Within]
            | perr r' =>
              rw [hrv] at hv
              simp only [Prog, List.length_cons] at hv
              simp [Within]; omega
            | fuel => rw [hrv] at hv; simp [Prog] at hv
    · intro term vd acc inp hf
      have hs := skipWS_le inp
      rw [readDictBody]
      cases hsk : CNT.skipWS inp with
      | nil => simp [Within]
      | cons c r =>
        rw [hsk] at hs
        simp only [List.length_cons] at hs
        simp only []
        split
        · simp [Within]; omega
        · have hv := ihV vd (c :: r) (by simp; omega)
          cases hrv : readValue f vd (c :: r) with
          | ok k rest =>
            rw [hrv] at hv
            simp only [Prog, List.length_cons] at hv
            cases k with
            | name key =>
              simp only []
              have hv2 := ihV vd rest (by omega)
              cases hrv2 : readValue f vd rest with
              | ok val rest' =>
                rw [hrv2] at hv2
                simp only [Prog] at hv2
                have hrec : ∀ acc', Within (readDictBody f term vd acc' rest') inp.length :=
                  fun acc' => within_mono _ _ _ (ihD term vd acc' rest' (by omega)) (by omega)
                cases val <;> simp only [] <;> first
                  | exact hrec _
                  | (split
                     · simp [Within]; omega
                     · exact hrec _)
              | eof => simp [Within]
              | perr r' => rw [hrv2] at hv2; simp only [Prog] at hv2; simp [Within]; omega
              | fuel => rw [hrv2] at hv2; simp [Prog] at hv2
            | _ => simp [Within]; omega
          | eof => simp [Within]
          | perr r' =>
            rw [hrv] at hv
            simp only [Prog, List.length_cons] at hv
            simp [Within]; omega
          | fuel => rw [hrv] at hv; simp [Prog] at hv

/-! ## inline images -/

/-- the `EI` search: what is found lies inside the input, and the collected bytes (including the
end-of-line byte before `EI`) are at most `maxInlineImageBytes + 1` -/
def IISpec (res : IIRes) (n len : Nat) : Prop :=
  match res with
  | .found d r => r.length + d.length = len ∧ (d = [] ∨ n + d.length ≤ Gen.content_maxInlineImageBytes + 1)
  | .capped r => r.length ≤ len
  | .eof => True

theorem iiLoop_spec (inp : Bytes) : ∀ (n prev : Nat), IISpec (iiLoop n prev inp) n inp.length := by
  induction inp with
  | nil =>
    intro n prev
    simp only [iiLoop]
    split
    · simp [IISpec]
    · split <;> simp [IISpec]
  | cons b r ih =>
    intro n prev
    simp only [iiLoop]
    split
    · simp [IISpec]
    · split
      · simp [IISpec]
      · rename_i hcap
        have := ih (n + 1) b
        cases h : iiLoop (n + 1) b r with
        | found d r' =>
          rw [h] at this
          simp [IIRes.cons, IISpec] at this ⊢
          obtain ⟨h1, h2⟩ := this
          refine ⟨by omega, ?_⟩
          rcases h2 with h2 | h2
          · subst h2; simp at hcap ⊢; omega
          · omega
        | capped r' => rw [h] at this; simp [IIRes.cons, IISpec] at this ⊢; omega
        | eof => simp [IIRes.cons, IISpec]

theorem iiFinish_within (kv : List (Bytes × Obj)) (data inp : Bytes) : Within (iiFinish kv data inp) inp.length := by
  unfold iiFinish
  split
  · rename_i rest
    cases rest with
    | nil => simp only [Within, List.length_cons]; omega
    | cons c t =>
      simp only []
      cases hc : cReg c <;> simp only [Within, List.length_cons, Bool.false_eq_true, if_false, if_true] <;> omega
  · simp only [Within]
  · simp only [Within]
  · simp only [Within, Nat.le_refl]

/-- the data of a successfully scanned inline image is at most `maxInlineImageBytes` long -/
def imageDataOK (op : Bytes × List Obj) : Prop :=
  op.1 = Gen.content_OpInlineImage →
    ∀ kv data, op.2 = [.dict kv, .str data] → data.length ≤ Gen.content_maxInlineImageBytes

theorem iiFinish_data (kv : List (Bytes × Obj)) (data inp : Bytes) (op : Bytes × List Obj) (rest : Bytes)
    (h : iiFinish kv data inp = .ok op rest) : op = (Gen.content_OpInlineImage, [.dict kv, .str data]) := by
  unfold iiFinish at h
  split at h
  · rename_i rest0
    cases rest0 with
    | nil => simp at h; exact h.1.symm
    | cons c t =>
      simp only [] at h
      cases hc : cReg c <;> simp [hc] at h
      exact h.1.symm
  · simp at h
  · simp at h
  · simp at h

theorem afterID_le (kv : List (Bytes × Obj)) (rest : Bytes) : (afterID kv rest).length ≤ rest.length := by
  unfold afterID
  have h1 : (match rest with
      | c :: r => if cSpace c = true then r else c :: r
      | [] => []).length ≤ rest.length := by
    split
    · split <;> simp
    · simp
  simp only []
  split
  · exact Nat.le_trans (skipWS_le _) h1
  · exact h1

theorem imageData_total (kv : List (Bytes × Obj)) (rest : Bytes) :
    Within (imageData kv rest) rest.length ∧
    (∀ op r, imageData kv rest = .ok op r → imageDataOK op ∧ op.2.length = 2) := by
  have fin : ∀ (data r0 : Bytes), r0.length ≤ rest.length → data.length ≤ Gen.content_maxInlineImageBytes →
      Within (iiFinish kv data r0) rest.length ∧
      (∀ op r, iiFinish kv data r0 = .ok op r → imageDataOK op ∧ op.2.length = 2) := by
    intro data r0 hr hdl
    refine ⟨within_mono _ _ _ (iiFinish_within kv data r0) hr, ?_⟩
    intro op r hok
    have := iiFinish_data _ _ _ _ _ hok
    subst this
    refine ⟨?_, rfl⟩
    intro _ kv' data' hargs
    simp at hargs
    rw [← hargs.2]
    exact hdl
  unfold imageData
  simp only []
  split
  · simp [Within]
  · split
    · rename_i hpos
      split
      · simp [Within]
      · rename_i hmax
        split
        · simp [Within]
        · have hsk := skipWS_le (List.drop (iiInt kv nmL nmLength).toNat rest)
          have hdl : (List.drop (iiInt kv nmL nmLength).toNat rest).length ≤ rest.length := by simp
          cases hsk2 : CNT.skipWS (List.drop (iiInt kv nmL nmLength).toNat rest) with
          | nil => simp [Within]
          | cons c t =>
            rw [hsk2] at hsk
            simp only []
            apply fin
            · omega
            · simp only [List.length_take]
              omega
    · have hl := iiLoop_spec rest 0 0
      cases hloop : iiLoop 0 0 rest with
      | eof => simp [Within]
      | capped r' => rw [hloop] at hl; simp only [IISpec] at hl; simp [Within]; exact hl
      | found d r' =>
        rw [hloop] at hl
        simp only [IISpec] at hl
        simp only []
        apply fin
        · omega
        · rcases hl.2 with h0 | h0
          · subst h0; simp
          · simp; omega

/-- **`readInlineImage` is total**: never out of fuel, never moves backwards, and returns at
most `maxInlineImageBytes` bytes of data. -/
theorem readInlineImage_total (inp : Bytes) :
    Within (readInlineImage inp) inp.length ∧
    (∀ op rest, readInlineImage inp = .ok op rest → imageDataOK op ∧ op.2.length = 2) := by
  have hd := (value_total (2 * inp.length + 2)).2.2 kwID 0 [] inp (Nat.le_refl _)
  unfold readInlineImage
  cases hrd : readDictBody (2 * inp.length + 2) kwID 0 [] inp with
  | eof => simp [Within]
  | fuel => rw [hrd] at hd; simp [Within] at hd
  | perr r => rw [hrd] at hd; simp only [Within] at hd; simp [Within]; exact hd
  | ok kv rest =>
    rw [hrd] at hd
    simp only [Within] at hd
    simp only []
    split
    · simp [Within]; exact hd
    · split
      · simp [Within]; exact hd
      · have ha := afterID_le kv rest
        obtain ⟨h1, h2⟩ := imageData_total kv (afterID kv rest)
        exact ⟨within_mono _ _ _ h1 (by omega), h2⟩

/-! ## `Scan` and `pumpScanner` -/

/-- size invariant of the composite stack: at most `maxContentNestDepth` frames, every frame
within its element cap -/
def StkOK (stk : List Frame) : Prop :=
  stk.length ≤ Gen.content_maxContentNestDepth ∧
  ∀ fr ∈ stk, fr.data.length ≤ (if fr.isDict then 2 * Gen.content_maxDictLen else Gen.content_maxArrayLen)

/-- what the caps demand of the outcome of one loop iteration -/
def StepOK (s : Step) : Prop :=
  match s with
  | .cont stk' args' => StkOK stk' ∧ args'.length ≤ Gen.content_maxOperatorArgs
  | .emit _ args' => args'.length < Gen.content_maxOperatorArgs
  | .image => True
  | .perr => True

theorem deliver_caps (stk : List Frame) (args : List Obj) (o : Obj) (hs : StkOK stk)
    (ha : args.length ≤ Gen.content_maxOperatorArgs) : StepOK (deliver stk args o) := by
  unfold deliver
  cases stk with
  | cons top below =>
    simp only []
    by_cases hlt : top.data.length ≥ (if top.isDict then 2 * Gen.content_maxDictLen else Gen.content_maxArrayLen)
    · simp only [hlt, if_true]; trivial
    · simp only [hlt, if_false]
      simp only [StepOK, StkOK, List.length_cons, List.mem_cons, forall_eq_or_imp] at hs ⊢
      refine ⟨⟨hs.1, ?_, hs.2.2⟩, ha⟩
      simp only [List.length_append, List.length_singleton]
      omega
  | nil =>
    have hnil : StkOK [] := hs
    have hother : ∀ (o : Obj), StepOK (.cont [] (if args.length < Gen.content_maxOperatorArgs then args ++ [o] else args)) := by
      intro o
      refine ⟨hnil, ?_⟩
      split
      · simp; omega
      · exact ha
    cases o with
    | op name =>
      simp only []
      split
      · exact ⟨hnil, by simp⟩
      · rename_i h
        split
        · trivial
        · simp only [StepOK]; omega
    | _ => exact hother _

theorem stkOK_tail (top : Frame) (below : List Frame) (h : StkOK (top :: below)) : StkOK below := by
  simp only [StkOK, List.length_cons, List.mem_cons, forall_eq_or_imp] at h ⊢
  exact ⟨by omega, h.2.2⟩

/-- **One iteration of the token loop preserves the caps**: the composite stack never exceeds
`maxContentNestDepth` frames nor a frame its element cap, the operand list never exceeds
`maxOperatorArgs`, and an emitted operator has fewer than `maxOperatorArgs` operands. -/
theorem step_caps (stk : List Frame) (args : List Obj) (tok : Obj) (hs : StkOK stk)
    (ha : args.length ≤ Gen.content_maxOperatorArgs) : StepOK (step stk args tok) := by
  have push : ∀ (isDict : Bool), ¬ (stk.length ≥ Gen.content_maxContentNestDepth) →
      StkOK ({ isDict := isDict, data := [] } :: stk) := by
    intro isDict hlt
    simp only [StkOK, List.length_cons, List.mem_cons, forall_eq_or_imp] at hs ⊢
    exact ⟨by omega, by simp, hs.2⟩
  unfold step
  cases tok with
  | op name =>
    simp only []
    split
    · split
      · trivial
      · rename_i h; exact ⟨push true h, ha⟩
    · split
      · cases stk with
        | nil => exact ⟨hs, ha⟩
        | cons top below =>
          simp only []
          split
          · exact ⟨hs, ha⟩
          · split
            · exact ⟨stkOK_tail top below hs, ha⟩
            · exact deliver_caps below args _ (stkOK_tail top below hs) ha
      · split
        · split
          · trivial
          · rename_i h; exact ⟨push false h, ha⟩
        · split
          · cases stk with
            | nil => exact ⟨hs, ha⟩
            | cons top below =>
              simp only []
              split
              · exact ⟨hs, ha⟩
              · exact deliver_caps below args _ (stkOK_tail top below hs) ha
          · exact deliver_caps stk args _ hs ha
  | _ => exact deliver_caps stk args _ hs ha

theorem asFloat_kind (tok body : Bytes) (o : Obj) (h : asFloat tok body = some o) : o = .real tok := by
  unfold asFloat at h
  split at h <;> simp at h
  exact h.symm

theorem parseNumber_kind (tok : Bytes) (o : Obj) (h : parseNumber tok = some o) :
    (∃ i, o = .int i) ∨ o = .real tok := by
  unfold parseNumber at h
  simp only [] at h
  split at h
  · simp at h
  · split at h
    · cases hpi : parseInt64 tok with
      | some i => simp [hpi] at h; exact .inl ⟨i, h.symm⟩
      | none => simp only [hpi] at h; exact .inr (asFloat_kind _ _ _ h)
    · exact .inr (asFloat_kind _ _ _ h)

theorem classify_op (tok n : Bytes) (h : classify tok = .op n) : n = tok := by
  cases tok with
  | nil =>
    simp [classify, kw_false, kw_true, kw_null] at h
    exact h
  | cons c tl =>
    cases hn : (if isNumStart c = true then parseNumber (c :: tl) else none) with
    | some o =>
      have hcl : classify (c :: tl) = o := by simp [classify, hn]
      have hp : parseNumber (c :: tl) = some o := by
        split at hn
        · exact hn
        · simp at hn
      rw [hcl] at h
      rcases parseNumber_kind _ _ hp with ⟨i, hi⟩ | hr
      · rw [hi] at h; simp at h
      · rw [hr] at h; simp at h
    | none =>
      have hcl : classify (c :: tl) =
          (if (c :: tl) == kw_false then Obj.bool false else if (c :: tl) == kw_true then .bool true
           else if (c :: tl) == kw_null then .null else .op (c :: tl)) := by
        simp [classify, hn]
      rw [hcl] at h
      split at h
      · simp at h
      · split at h
        · simp at h
        · split at h
          · simp at h
          · simp at h; exact h.symm

theorem deliver_emit (stk : List Frame) (args : List Obj) (o : Obj) (name : Bytes) (args' : List Obj)
    (h : deliver stk args o = .emit name args') : o = .op name := by
  unfold deliver at h
  cases stk with
  | cons top below =>
    simp only [] at h
    by_cases hlt : top.data.length ≥ (if top.isDict then 2 * Gen.content_maxDictLen else Gen.content_maxArrayLen) <;>
      simp [hlt] at h
  | nil =>
    cases o with
    | op nm =>
      simp only [] at h
      split at h
      · simp at h
      · split at h
        · simp at h
        · simp at h; rw [h.1]
    | _ => simp at h

theorem step_emit (stk : List Frame) (args : List Obj) (tok : Obj) (name : Bytes) (args' : List Obj)
    (h : step stk args tok = .emit name args') : tok = .op name := by
  unfold step at h
  cases tok with
  | op nm =>
    simp only [] at h
    split at h
    · split at h <;> simp at h
    · split at h
      · cases stk with
        | nil => simp at h
        | cons top below =>
          simp only [] at h
          split at h
          · simp at h
          · split at h
            · simp at h
            · have := deliver_emit _ _ _ _ _ h; simp at this
      · split at h
        · split at h <;> simp at h
        · split at h
          · cases stk with
            | nil => simp at h
            | cons top below =>
              simp only [] at h
              split at h
              · simp at h
              · have := deliver_emit _ _ _ _ _ h; simp at this
          · exact deliver_emit _ _ _ _ _ h
  | _ => exact deliver_emit _ _ _ _ _ h

/-- an operator token does not start with `%`: it is never the pseudo-operator `%image%` -/
theorem scanToken_op_name (inp rest name : Bytes) (h : scanToken inp = .ok (.op name) rest) :
    name ≠ Gen.content_OpInlineImage := by
  unfold scanToken at h
  cases hsk : CNT.skipWS inp with
  | nil => simp [hsk] at h
  | cons c r =>
    obtain ⟨_, h37⟩ := (C15cnti.skipWS_head_aux inp).1 c r hsk
    rw [hsk] at h
    simp only [] at h
    have fromTok : ∀ (tl : Bytes), classify (c :: tl) = .op name → name ≠ Gen.content_OpInlineImage := by
      intro tl hc
      have := classify_op _ _ hc
      subst this
      intro he
      simp [Gen.content_OpInlineImage] at he
      simp [he.1] at h37
    split at h
    · split at h <;> simp at h
    · split at h
      · cases hr : readStr 1 false 0 r <;> simp [hr, Res.map] at h
      · split at h
        · cases r with
          | nil => cases hr : readHex none 0 [] <;> simp [hr, Res.map] at h
          | cons d r' =>
            simp only [] at h
            split at h
            · simp at h; rw [← h.1]; decide
            · cases hr : readHex none 0 (d :: r') <;> simp [hr, Res.map] at h
        · split at h
          · simp at h; rw [← h.1]; decide
          · cases hreg : cReg c with
            | true =>
              simp only [hreg, if_true] at h
              split at h
              · simp at h
              · simp at h; exact fromTok _ h.1
            | false =>
              simp only [hreg, Bool.false_eq_true, if_false] at h
              simp at h; exact fromTok _ h.1

/-- what `scan_total` guarantees about a scanned operator: at most `maxOperatorArgs` operands,
inline image data of at most `maxInlineImageBytes` bytes -/
def OpCaps (op : Bytes × List Obj) : Prop :=
  op.2.length ≤ Gen.content_maxOperatorArgs ∧ imageDataOK op

theorem imageDataOK_of_len (op : Bytes × List Obj) (h : imageDataOK op) : imageDataOK op := h

/-- **The token loop of `Scan` is total and capped**: with fuel `len + 1` it never runs out of
fuel, every result (operator or parse error) lies strictly further on in the input, and a
returned operator satisfies the caps. -/
theorem scanLoop_total : ∀ (f : Nat) (stk : List Frame) (args : List Obj) (inp : Bytes),
    inp.length + 1 ≤ f → StkOK stk → args.length ≤ Gen.content_maxOperatorArgs →
    Prog (scanLoop f stk args inp) inp.length ∧
    (∀ op rest, scanLoop f stk args inp = .ok op rest → OpCaps op) := by
  intro f
  induction f with
  | zero => intro stk args inp hf; omega
  | succ f ih =>
    intro stk args inp hf hs ha
    have hp := scanToken_progress inp
    rw [scanLoop]
    cases htok : scanToken inp with
    | eof => simp [Prog]
    | fuel => rw [htok] at hp; simp [Prog] at hp
    | perr r => rw [htok] at hp; simp only [Prog] at hp; simp [Prog]; exact hp
    | ok tok rest =>
      rw [htok] at hp
      simp only [Prog] at hp
      simp only []
      have hc := step_caps stk args tok hs ha
      cases hstep : step stk args tok with
      | cont stk' args' =>
        rw [hstep] at hc
        simp only []
        obtain ⟨h1, h2⟩ := ih stk' args' rest (by omega) hc.1 hc.2
        exact ⟨prog_mono _ _ _ h1 (by omega), h2⟩
      | emit name args' =>
        rw [hstep] at hc
        simp only [StepOK] at hc
        simp only []
        refine ⟨by simp [Prog]; exact hp, ?_⟩
        intro op rest' hok
        simp at hok
        rw [← hok.1]
        refine ⟨by simp; omega, ?_⟩
        intro hname
        have htk := step_emit _ _ _ _ _ hstep
        subst htk
        exact absurd hname (scanToken_op_name inp rest name htok)
      | image =>
        simp only []
        obtain ⟨h1, h2⟩ := readInlineImage_total rest
        refine ⟨prog_of_within _ _ _ h1 hp, ?_⟩
        intro op rest' hok
        obtain ⟨g1, g2⟩ := h2 op rest' hok
        exact ⟨by rw [g2]; decide +kernel, g1⟩
      | perr => simp [Prog]; exact hp

theorem stkOK_nil : StkOK [] := by simp [StkOK]

theorem nil_args_ok : ([] : List Obj).length ≤ Gen.content_maxOperatorArgs := Nat.zero_le _

theorem scanLoop_top (l : Bytes) :
    Prog (scanLoop (l.length + 1) [] [] l) l.length ∧
    (∀ op rest, scanLoop (l.length + 1) [] [] l = .ok op rest → OpCaps op) :=
  scanLoop_total (l.length + 1) [] [] l (Nat.le_refl _) stkOK_nil nil_args_ok

set_option maxRecDepth 4096 in
/-- **One `Scan` call** (comments included) -/
theorem scanOne_total (inp : Bytes) :
    Prog (scanOne inp) inp.length ∧ (∀ op rest, scanOne inp = .ok op rest → OpCaps op) := by
  have hs := skipSp_le inp
  unfold scanOne
  cases hsk : skipSp inp with
  | nil => simp [Prog]
  | cons c r =>
    rw [hsk] at hs
    simp only [List.length_cons] at hs
    simp only []
    split
    · have hc := spanCmt_le r
      simp only [spanCmt]
      split
      · rename_i heol
        -- `%` is not an end-of-line byte
        rename_i h37
        simp at h37
        subst h37
        simp at heol
      · simp only []
        split
        · simp [Prog]; omega
        · refine ⟨by simp [Prog]; omega, ?_⟩
          intro op rest hok
          simp at hok
          rw [← hok.1]
          refine ⟨by show (1 : Nat) ≤ Gen.content_maxOperatorArgs; decide +kernel, ?_⟩
          intro hname
          have hne : Gen.content_OpRawContent ≠ Gen.content_OpInlineImage := by decide
          exact absurd hname hne
    · obtain ⟨h1, h2⟩ := scanLoop_top (c :: r)
      have hlen : (c :: r).length ≤ inp.length := by simp only [List.length_cons]; omega
      exact ⟨prog_mono _ _ _ h1 hlen, h2⟩

/-- **`scan_total`.**  On *arbitrary* bytes the content scanner model terminates within the fuel
the driver supplies: `scan` (= `pumpScanner` to the end of the stream) never returns the
out-of-fuel result, for any fuel of at least `len + 1`; and every operator it yields satisfies the
caps (`OpCaps`: ≤ `maxOperatorArgs` operands, inline image data ≤ `maxInlineImageBytes`). -/
theorem scanAll_total : ∀ (f : Nat) (inp : Bytes), inp.length + 1 ≤ f →
    ∃ ops, scanAll f inp = some ops ∧ ∀ op ∈ ops, OpCaps op := by
  intro f
  induction f with
  | zero => intro inp hf; omega
  | succ f ih =>
    intro inp hf
    obtain ⟨hp, hcaps⟩ := scanOne_total inp
    rw [scanAll]
    cases hone : scanOne inp with
    | eof => exact ⟨[], rfl, by simp⟩
    | fuel => rw [hone] at hp; simp [Prog] at hp
    | perr r =>
      rw [hone] at hp
      simp only [Prog] at hp
      exact ih r (by omega)
    | ok op rest =>
      rw [hone] at hp
      simp only [Prog] at hp
      obtain ⟨ops, h1, h2⟩ := ih rest (by omega)
      refine ⟨op :: ops, by simp [h1], ?_⟩
      intro o ho
      simp at ho
      rcases ho with rfl | ho
      · exact hcaps _ _ hone
      · exact h2 o ho

theorem scan_total (inp : Bytes) : ∃ ops, scan inp = some ops ∧ ∀ op ∈ ops, OpCaps op :=
  scanAll_total (inp.length + 2) inp (by omega)

/-- the result does not depend on the fuel once it is sufficient -/
theorem scanAll_fuel_indep : ∀ (f g : Nat) (inp : Bytes), inp.length + 1 ≤ f → inp.length + 1 ≤ g →
    scanAll f inp = scanAll g inp := by
  intro f
  induction f with
  | zero => intro g inp hf; omega
  | succ f ih =>
    intro g inp hf hg
    cases g with
    | zero => omega
    | succ g =>
      obtain ⟨hp, _⟩ := scanOne_total inp
      rw [scanAll, scanAll]
      cases hone : scanOne inp with
      | eof => rfl
      | fuel => rfl
      | perr r =>
        rw [hone] at hp
        simp only [Prog] at hp
        exact ih g r (by omega) (by omega)
      | ok op rest =>
        rw [hone] at hp
        simp only [Prog] at hp
        simp only []
        rw [ih g rest (by omega) (by omega)]

end PdfVerif.C15cntt

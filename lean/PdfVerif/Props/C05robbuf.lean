import PdfVerif.Model.ROBScanBuf
/-!
# The scanner's 1024-byte window refines the whole-input view (C05, C19)

`Model/ROBScanBuf.lean` is the buffer + `refill` + latched error of `scanner.go` as a state
machine over an `io.Reader`.  This file proves, for **every** reader that serves (a prefix of) the
bytes `d` and may fail with the error `e0` at any call — delivering any number of bytes together
with the error —

* `readFull_spec`, `refill_spec`: `io.ReadFull`/`refill` never hang, keep the *view*
  (`unread window ++ rest of the input`) unchanged, and latch nothing but `e0`;
* `peekN_spec`, `readByte_spec`, `skipString_spec`, `scanBytes_spec`, `skipWhiteSpace_spec`:
  each entry point computes what the whole-input functions of `Model/Scan.lean` compute on the
  view, or reports `e0` (`PeekN`/`SkipString` included since the fix of D33 = ROB-1);
* `scanBytes_terminates`: the fuel `scanBytesFuel` always suffices — the measure is
  "bytes the reader has not delivered yet", and it exists only because of the D8 fix
  (`err != nil && s.pos >= s.used`).

The fault-free corollaries (`*_refines`) are the refinement the parser theorems rely on.
-/
namespace PdfVerif.C05robbuf
open PdfVerif PdfVerif.ROB

/-- the remaining input as the parser sees it: unread part of the window, then what the reader
    has not delivered yet -/
def view (d : Bytes) (s : SB) : Bytes := s.buf.drop s.pos ++ d.drop s.srcOff

/-- a reader over the bytes `d` whose calls may fail with `e0`: every `Read` delivers a prefix of
    the true data at its offset; without error at least one byte; with `io.EOF` all that was left -/
structure FaultyOver (d : Bytes) (e0 : Err) (src : Source) : Prop where
  pre : ∀ k off want, (src k off want).1.take want <+: d.drop off
  progress : ∀ k off want, 0 < want → (src k off want).2 = none → (src k off want).1.take want ≠ []
  ateof : ∀ k off want, (src k off want).2 = some .eof → (src k off want).1.take want = d.drop off
  faults : ∀ k off want x, (src k off want).2 = some x → x = .eof ∨ x = e0
  e0_ne : e0 ≠ .eof

/-- a reader that never fails -/
def FaultFree (src : Source) : Prop := ∀ k off want x, (src k off want).2 = some x → x = .eof

theorem prefix_split {a l : Bytes} (h : a <+: l) : l = a ++ l.drop a.length := by
  obtain ⟨t, rfl⟩ := h
  simp

theorem prefix_len {a l : Bytes} (h : a <+: l) : a.length ≤ l.length := by
  obtain ⟨t, rfl⟩ := h
  simp

/-- `io.ReadFull` over a faulty reader: never hangs (fuel `want + 1`), delivers a prefix of the
    true data, all `want` bytes when it reports no error, everything that was left when it reports
    EOF, and reports nothing but EOF or `e0`. -/
theorem readFull_spec {d : Bytes} {e0 : Err} {src : Source} (h : FaultyOver d e0 src) :
    ∀ fuel calls off want acc, want + 1 ≤ fuel →
      (readFull src fuel calls off want acc).hang = false ∧
      ∃ data, (readFull src fuel calls off want acc).data = acc ++ data ∧ data <+: d.drop off ∧
        data.length ≤ want ∧
        ((readFull src fuel calls off want acc).err = none → data.length = want) ∧
        ((readFull src fuel calls off want acc).err = some .eof → data = d.drop off) ∧
        (∀ x, (readFull src fuel calls off want acc).err = some x → (x = .eof ∨ x = e0) ∧ data.length < want) := by
  intro fuel
  induction fuel with
  | zero => intro calls off want acc hf; omega
  | succ fuel ih =>
    intro calls off want acc hf
    unfold readFull
    by_cases hw : want = 0
    · subst hw
      simp only [if_true]
      exact ⟨by simp, [], by simp, List.nil_prefix, by simp, by simp, by simp, by simp⟩
    · simp only [hw, if_false]
      have hpre := h.pre calls off want
      cases he : (src calls off want).2 with
      | none =>
        simp only []
        have hprog := h.progress calls off want (by omega) he
        have hlen : ((src calls off want).1.take want).length ≤ want := by simp; omega
        have hpos : 0 < ((src calls off want).1.take want).length := by
          cases hx : (src calls off want).1.take want with
          | nil => exact absurd hx hprog
          | cons a l => simp
        obtain ⟨hh, data, hd, hp, hl, hnone, heof, hx⟩ :=
          ih (calls + 1) (off + ((src calls off want).1.take want).length)
            (want - ((src calls off want).1.take want).length) (acc ++ (src calls off want).1.take want) (by omega)
        refine ⟨hh, (src calls off want).1.take want ++ data, by rw [hd]; simp, ?_, by simp at hl ⊢; omega, ?_, ?_, ?_⟩
        · have := prefix_split hpre
          rw [this]
          apply List.prefix_append_right_inj _ |>.mpr
          rw [List.drop_drop] at *
          simpa [Nat.add_comm] using hp
        · intro hn; have := hnone hn; simp at this ⊢; omega
        · intro hn
          have := heof hn
          rw [this]
          have h2 := prefix_split hpre
          rw [List.drop_drop] at h2
          exact h2.symm
        · intro x hn
          obtain ⟨a, b⟩ := hx x hn
          refine ⟨a, ?_⟩
          simp at b ⊢; omega
      | some e =>
        simp only []
        have hlen : ((src calls off want).1.take want).length ≤ want := by simp; omega
        by_cases hge : ((src calls off want).1.take want).length ≥ want
        · simp only [hge, if_true]
          exact ⟨by simp, _, rfl, hpre, hlen, fun _ => by omega, by simp, by simp⟩
        · simp only [hge, if_false]
          refine ⟨by simp, _, rfl, hpre, hlen, by simp, ?_, ?_⟩
          · intro hx
            have : e = .eof := by simpa using hx
            subst this
            exact h.ateof calls off want he
          · intro x hx
            have : e = x := by simpa using hx
            subst this
            exact ⟨h.faults calls off want e he, by omega⟩

/-- coherence of a scanner state over the input `d` -/
structure Coh (d : Bytes) (e0 : Err) (s : SB) : Prop where
  pos_le : s.pos ≤ s.buf.length
  len_le : s.buf.length ≤ bufSize
  off_le : s.srcOff ≤ d.length
  nohang : s.hang = false
  errs : ∀ x, s.err = some x → x = e0

theorem coh_init (d : Bytes) (e0 : Err) (fp : Nat) : Coh d e0 (SB.init fp) :=
  ⟨by simp [SB.init], by simp [SB.init], by simp [SB.init], rfl, by simp [SB.init]⟩

theorem view_init (d : Bytes) (fp : Nat) : view d (SB.init fp) = d := by simp [view, SB.init]

theorem bufSize_pos : 0 < bufSize := by decide

/-- what `refill` returns when no error is latched, in terms of the `io.ReadFull` result `r` -/
def refillWith (s : SB) (r : RF) : SB × Option Err :=
  let s' : SB := { s with buf := s.buf.drop s.pos ++ r.data, pos := 0, filePos := s.filePos + s.pos,
                          srcOff := s.srcOff + r.data.length, calls := r.calls, err := none,
                          hang := s.hang || r.hang }
  match r.err with
  | none => (s', none)
  | some e =>
    if e = .eof then (s', none)
    else ({ s' with err := some e }, if r.data.length > 0 then none else some e)

theorem refill_eq (src : Source) (s : SB) (hs : s.err = none) :
    refill src s = refillWith s (readFull src (bufSize - (s.buf.drop s.pos).length + 1) s.calls s.srcOff
      (bufSize - (s.buf.drop s.pos).length) []) := by
  unfold refill
  simp only [hs]
  rfl

/-- the properties of a `refill` result that the entry points need -/
structure RefillPost (d : Bytes) (e0 : Err) (s : SB) (r : SB × Option Err) : Prop where
  coh : Coh d e0 r.1
  view_eq : view d r.1 = view d s
  pos_eq : r.1.currentPos = s.currentPos
  panicked_eq : r.1.panicked = s.panicked
  ret : r.2 = none ∨ r.2 = some e0
  ret_latched : r.2 = some e0 → r.1.err = some e0
  latched : ∀ x, s.err = some x → r = (s, some x)
  pos0 : s.err = none → r.1.pos = 0
  keep : s.err = none → s.buf.drop s.pos <+: r.1.buf
  count : s.err = none → r.1.buf.length + s.srcOff = (s.buf.length - s.pos) + r.1.srcOff
  full : s.err = none → r.1.err = none → r.2 = none ∧ (r.1.buf.length = bufSize ∨ d.drop r.1.srcOff = [])
  nodata : s.err = none → r.2 = some e0 → r.1.buf = s.buf.drop s.pos
  added : s.err = none → r.1.err = some e0 → r.2 = none → (s.buf.drop s.pos).length < r.1.buf.length

/-- `refill` over a faulty reader. -/
theorem refill_spec {d : Bytes} {e0 : Err} {src : Source} (h : FaultyOver d e0 src) (s : SB)
    (c : Coh d e0 s) : RefillPost d e0 s (refill src s) := by
  cases hs : s.err with
  | some x =>
    have hx := c.errs x hs
    subst hx
    have : refill src s = (s, some x) := by simp [refill, hs]
    rw [this]
    have hne : s.err = none → False := by simp [hs]
    exact ⟨c, rfl, rfl, rfl, Or.inr rfl, fun _ => hs, fun y hy => by rw [hs] at hy; cases hy; rfl,
      fun h => (hne h).elim, fun h => (hne h).elim, fun h => (hne h).elim, fun h => (hne h).elim,
      fun h => (hne h).elim, fun h => (hne h).elim⟩
  | none =>
    have hkeep : (s.buf.drop s.pos).length ≤ bufSize := by
      have := c.len_le; simp; omega
    have hkl : (s.buf.drop s.pos).length = s.buf.length - s.pos := by simp
    rw [refill_eq src s hs]
    obtain ⟨hh, data, hd, hp, hl, hnone, heof, hx⟩ :=
      readFull_spec h (bufSize - (s.buf.drop s.pos).length + 1) s.calls s.srcOff
        (bufSize - (s.buf.drop s.pos).length) [] (by omega)
    generalize readFull src (bufSize - (s.buf.drop s.pos).length + 1) s.calls s.srcOff
        (bufSize - (s.buf.drop s.pos).length) [] = r at *
    obtain ⟨rdata, rerr, rcalls, rhang⟩ := r
    simp only [List.nil_append] at hd hh hnone heof hx
    subst hd
    subst hh
    have hsplit := prefix_split hp
    have hplen := prefix_len hp
    simp only [List.length_drop] at hplen
    have hview : (s.buf.drop s.pos ++ rdata) ++ d.drop (s.srcOff + rdata.length) = view d s := by
      unfold view
      rw [List.append_assoc]
      congr 1
      rw [List.drop_drop] at hsplit
      exact hsplit.symm
    have hoff : s.srcOff + rdata.length ≤ d.length := by have := c.off_le; omega
    have hposle := c.pos_le
    have hnh := c.nohang
    -- the state after the read, before the error is looked at
    have hlen2 : (s.buf.drop s.pos ++ rdata).length ≤ bufSize := by simp; omega
    cases rerr with
    | none =>
      have hdl := hnone rfl
      simp only [refillWith]
      refine ⟨⟨by simp, hlen2, hoff, by simp [hnh], by simp⟩, ?_, by simp [SB.currentPos], rfl,
        Or.inl rfl, by simp, by simp [hs], fun _ => rfl, fun _ => by simp, fun _ => ?_, fun _ _ => ⟨rfl, ?_⟩, by simp,
        fun _ h => by simp at h⟩
      · simp only [view, List.drop_zero]; exact hview
      · simp; omega
      · left; simp; omega
    | some e =>
      obtain ⟨hcls, hlt⟩ := hx e rfl
      by_cases heq : e = .eof
      · subst heq
        have hall := heof rfl
        simp only [refillWith, if_true]
        refine ⟨⟨by simp, hlen2, hoff, by simp [hnh], by simp⟩, ?_, by simp [SB.currentPos], rfl,
          Or.inl rfl, by simp, by simp [hs], fun _ => rfl, fun _ => by simp, fun _ => ?_, fun _ _ => ⟨rfl, ?_⟩, by simp,
          fun _ h => by simp at h⟩
        · simp only [view, List.drop_zero]; exact hview
        · simp; omega
        · right
          show d.drop (s.srcOff + rdata.length) = []
          have : rdata.length = d.length - s.srcOff := by rw [hall]; simp
          exact List.drop_eq_nil_of_le (by omega)
      · have he0 : e = e0 := by rcases hcls with h1 | h1; exact absurd h1 heq; exact h1
        subst he0
        simp only [refillWith, heq, if_false]
        refine ⟨⟨by simp, hlen2, hoff, by simp [hnh], by simp⟩, ?_, by simp [SB.currentPos], rfl,
          ?_, by simp, by simp [hs], fun _ => rfl, fun _ => by simp, fun _ => ?_, fun _ => by simp, fun _ hr => ?_,
          fun _ _ hr => ?_⟩
        · simp only [view, List.drop_zero]; exact hview
        · by_cases hz : rdata.length > 0
          · left; simp [hz]
          · right; simp [hz]
        · simp; omega
        · by_cases hz : rdata.length > 0
          · simp [hz] at hr
          · have : rdata = [] := by cases rdata with | nil => rfl | cons a l => simp at hz
            simp [this]
        · by_cases hz : rdata.length > 0
          · simp; omega
          · simp [hz] at hr

theorem take_append_of_le {a b : Bytes} {n : Nat} (h : n ≤ a.length) : (a ++ b).take n = a.take n := by
  rw [List.take_append]
  have : n - a.length = 0 := by omega
  simp [this]

/-- outcome of `PeekN(n)`: the fault-free window, or the reader's error (after the fix of D33 there
    is no third case: a window that is short because a read error was latched is reported with
    that error) -/
structure PeekPost (d : Bytes) (e0 : Err) (n : Nat) (s : SB) (r : SB × Bytes × Option Err) : Prop where
  coh : Coh d e0 r.1
  view_eq : view d r.1 = view d s
  pos_eq : r.1.currentPos = s.currentPos
  panicked_eq : r.1.panicked = s.panicked
  window : r.2.1 <+: r.1.buf.drop r.1.pos
  latch : ∀ x, s.err = some x → r.1.err = some x
  out : (r.2.2 = none ∧ r.2.1 = (view d s).take n) ∨ (r.2.2 = some e0 ∧ r.1.err = some e0)

/-- `PeekN` over a faulty reader. -/
theorem peekN_spec {d : Bytes} {e0 : Err} {src : Source} (h : FaultyOver d e0 src) (n : Nat)
    (hn : n ≤ bufSize) (s : SB) (c : Coh d e0 s) : PeekPost d e0 n s (peekN src n s) := by
  unfold peekN
  have hn' : ¬ (n > bufSize) := by omega
  simp only [hn', if_false]
  by_cases hA : s.pos + n > s.buf.length
  · -- refill
    simp only [hA, if_true]
    have R := refill_spec h s c
    generalize refill src s = r at R
    obtain ⟨s1, err⟩ := r
    simp only []
    by_cases hB : s1.pos + n > s1.buf.length
    · simp only [hB, if_true]
      refine ⟨R.coh, R.view_eq, R.pos_eq, R.panicked_eq, List.prefix_refl _, ?_, ?_⟩
      · intro x hx; have := R.latched x hx; simp at this; rw [this.1]; exact hx
      cases hs : s.err with
      | some x =>
        have hx := c.errs x hs
        subst hx
        have := R.latched x hs
        simp only [Prod.mk.injEq] at this
        right
        obtain ⟨h1, h2⟩ := this
        subst h2
        exact ⟨rfl, by rw [h1]; exact hs⟩
      | none =>
        have hp0 := R.pos0 hs
        simp only [] at hp0
        cases hs1 : s1.err with
        | none =>
          obtain ⟨hret, hfull⟩ := R.full hs hs1
          simp only [] at hret hfull
          left
          subst hret
          refine ⟨rfl, ?_⟩
          have hrest : d.drop s1.srcOff = [] := by
            rcases hfull with hf | hf
            · omega
            · exact hf
          have hv : view d s = s1.buf.drop s1.pos := by
            rw [← R.view_eq]; simp [view, hrest]
          rw [hv]
          symm
          apply List.take_of_length_le
          simp; omega
        | some x =>
          have hx := R.coh.errs x hs1
          subst hx
          right
          rcases R.ret with hr | hr
          · simp only [] at hr
            subst hr
            exact ⟨rfl, rfl⟩
          · simp only [] at hr
            subst hr
            exact ⟨rfl, rfl⟩
    · simp only [hB, if_false]
      have hB' : n ≤ (s1.buf.drop s1.pos).length := by simp; omega
      refine ⟨R.coh, R.view_eq, R.pos_eq, R.panicked_eq, List.take_prefix _ _, ?_, Or.inl ⟨rfl, ?_⟩⟩
      · intro x hx; have := R.latched x hx; simp at this; rw [this.1]; exact hx
      rw [← R.view_eq]
      simp only [view]
      exact (take_append_of_le hB').symm
  · simp only [hA, if_false]
    have hA' : n ≤ (s.buf.drop s.pos).length := by simp; omega
    refine ⟨c, rfl, rfl, rfl, List.take_prefix _ _, fun x hx => hx, Or.inl ⟨rfl, ?_⟩⟩
    simp only [view]
    exact (take_append_of_le hA').symm

/-- `ReadByte` on the whole input -/
def readByteSpec : Bytes → Except Err Nat × Bytes
  | [] => (.error .eof, [])
  | b :: rest => (.ok b, rest)

/-- `ReadByte` over a faulty reader: the fault-free answer, or the reader's error. -/
theorem readByte_spec {d : Bytes} {e0 : Err} {src : Source} (h : FaultyOver d e0 src) (s : SB)
    (c : Coh d e0 s) :
    Coh d e0 (readByte src s).1 ∧
    (((readByte src s).2, view d (readByte src s).1) = readByteSpec (view d s) ∨
     ((readByte src s).2 = .error e0 ∧ (readByte src s).1.err = some e0)) := by
  have P := peekN_spec h 1 (by decide) s c
  unfold readByte
  generalize peekN src 1 s = r at P
  obtain ⟨s1, buf, err⟩ := r
  have hw := P.window
  simp only [] at hw
  -- consuming the first byte of the window
  have step : ∀ b rest, buf = b :: rest → view d s = b :: (view d s).tail →
      Coh d e0 { s1 with pos := s1.pos + 1 } ∧ view d { s1 with pos := s1.pos + 1 } = (view d s).tail := by
    intro b rest hb hv
    subst hb
    have hlen : 0 < (s1.buf.drop s1.pos).length := by
      have := prefix_len hw; simp at this ⊢; omega
    simp only [List.length_drop] at hlen
    refine ⟨⟨by simp; omega, P.coh.len_le, P.coh.off_le, P.coh.nohang, P.coh.errs⟩, ?_⟩
    have : view d s1 = view d s := P.view_eq
    simp only [view] at this ⊢
    rw [← this]
    rw [← List.drop_drop]
    cases hx : s1.buf.drop s1.pos with
    | nil => have := congrArg List.length hx; simp at this; omega
    | cons a l => simp
  rcases P.out with ⟨he, hb⟩ | ⟨he, hl⟩
  · simp only [] at he hb
    subst he
    simp only []
    cases hv : view d s with
    | nil =>
      rw [hv] at hb; simp at hb; subst hb
      simp only []
      refine ⟨P.coh, Or.inl ?_⟩
      simp only [readByteSpec]
      rw [P.view_eq, hv]
    | cons b rest =>
      rw [hv] at hb; simp at hb; subst hb
      simp only []
      obtain ⟨c1, v1⟩ := step b [] rfl (by rw [hv]; rfl)
      refine ⟨c1, Or.inl ?_⟩
      simp only [readByteSpec]
      rw [v1, hv]; rfl
  · simp only [] at he hl
    subst he
    have hne : ¬ (e0 = Err.eof) := h.e0_ne
    simp only [hne, if_false]
    exact ⟨P.coh, Or.inr ⟨by first | rfl | trivial | simp, hl⟩⟩

/-- `ScanBytes(accept)` on the whole input: final acceptor state, rest of the input (starting with
    the rejected byte), and whether the end of the input was reached -/
def scanSpec {σ : Type} (acc : σ → Nat → Option σ) : σ → Bytes → σ × Bytes × Bool
  | st, [] => (st, [], true)
  | st, b :: bs =>
    match acc st b with
    | none => (st, b :: bs, false)
    | some st' => scanSpec acc st' bs

theorem scanInner_spec {σ : Type} (acc : σ → Nat → Option σ) (t : Bytes) :
    ∀ (l : Bytes) (st : σ),
      (scanInner acc st l).2.1 ≤ l.length ∧
      ((scanInner acc st l).2.2 = true →
        scanSpec acc st (l ++ t) = ((scanInner acc st l).1, (l ++ t).drop (scanInner acc st l).2.1, false)) ∧
      ((scanInner acc st l).2.2 = false →
        (scanInner acc st l).2.1 = l.length ∧ scanSpec acc st (l ++ t) = scanSpec acc (scanInner acc st l).1 t) := by
  intro l
  induction l with
  | nil => intro st; simp [scanInner]
  | cons b bs ih =>
    intro st
    cases ha : acc st b with
    | none => simp [scanInner, scanSpec, ha]
    | some st' =>
      obtain ⟨h1, h2, h3⟩ := ih st'
      simp only [scanInner, ha, List.cons_append, scanSpec, List.length_cons]
      generalize scanInner acc st' bs = r at h1 h2 h3 ⊢
      obtain ⟨st2, n, stop⟩ := r
      simp only [] at h1 h2 h3 ⊢
      refine ⟨by omega, ?_, ?_⟩
      · intro hs; rw [h2 hs]; simp
      · intro hs; obtain ⟨a, b⟩ := h3 hs; exact ⟨by omega, b⟩

/-- `ScanBytes` over a faulty reader, with the fuel `scanBytesFuel`: it **terminates** (`Coh`
    contains `hang = false`) and returns what the whole-input scan returns, or the reader's error. -/
theorem scanBytes_spec {σ : Type} {d : Bytes} {e0 : Err} {src : Source} (h : FaultyOver d e0 src)
    (acc : σ → Nat → Option σ) :
    ∀ (fuel : Nat) (empty : Bool) (st : σ) (s : SB), Coh d e0 s → (d.length - s.srcOff) + 2 ≤ fuel →
      Coh d e0 (scanBytes src acc fuel empty st s).1 ∧
      ((((scanBytes src acc fuel empty st s).2.2 = none ∨ (scanBytes src acc fuel empty st s).2.2 = some .eof) ∧
        scanSpec acc st (view d s) = ((scanBytes src acc fuel empty st s).2.1, view d (scanBytes src acc fuel empty st s).1,
          decide ((scanBytes src acc fuel empty st s).2.2 = some .eof))) ∨
       ((scanBytes src acc fuel empty st s).2.2 = some e0 ∧ (scanBytes src acc fuel empty st s).1.err = some e0)) := by
  intro fuel
  induction fuel with
  | zero => intro empty st s c hf; omega
  | succ fuel ih =>
    intro empty st s c hf
    unfold scanBytes
    have I := scanInner_spec acc (d.drop s.srcOff) (s.buf.drop s.pos) st
    generalize scanInner acc st (s.buf.drop s.pos) = r at I
    obtain ⟨st1, n, stop⟩ := r
    simp only [] at I
    obtain ⟨hn, hstop, hcont⟩ := I
    simp only [List.length_drop] at hn
    have hpl := c.pos_le
    have c1 : Coh d e0 { s with pos := s.pos + n } :=
      ⟨by simp; omega, c.len_le, c.off_le, c.nohang, c.errs⟩
    have v1 : view d { s with pos := s.pos + n } = (view d s).drop n := by
      simp only [view]
      rw [List.drop_append]
      have : n - (s.buf.drop s.pos).length = 0 := by simp; omega
      rw [this]; simp [List.drop_drop]
    simp only []
    cases stop with
    | true =>
      simp only [if_true]
      refine ⟨c1, Or.inl ⟨Or.inl (by simp), ?_⟩⟩
      rw [v1]
      have := hstop rfl
      simp only [view]
      rw [this]; simp
    | false =>
      obtain ⟨hnl, hsp⟩ := hcont rfl
      simp only [List.length_drop] at hnl
      have R := refill_spec h _ c1
      simp only [Bool.false_eq_true, if_false]
      generalize refill src { s with pos := s.pos + n } = r at R ⊢
      obtain ⟨s2, err⟩ := r
      simp only []
      have hv2 : view d s2 = d.drop s.srcOff := by
        have := R.view_eq
        simp only [] at this
        rw [this, v1]
        simp only [view]
        rw [List.drop_append]
        have : n - (s.buf.drop s.pos).length = 0 := by simp; omega
        rw [this]
        have : (s.buf.drop s.pos).drop n = [] := by
          apply List.drop_eq_nil_of_le; simp; omega
        rw [this]; simp
      have hret := R.ret
      simp only [] at hret
      have hne := h.e0_ne
      have hbr1 : (err = some Err.eof && !(empty && n == 0)) = false := by
        rcases hret with hr | hr
        · simp [hr]
        · subst hr
          have : ¬ (e0 = Err.eof) := hne
          simp [this]
      simp only [Bool.false_eq_true, if_false, hbr1]
      by_cases hz : s2.buf.length = 0
      · simp only [hz, if_true]
        rcases hret with hr | hr
        · subst hr
          simp only []
          refine ⟨R.coh, Or.inl ⟨Or.inr (by simp), ?_⟩⟩
          -- the whole input has been consumed
          have hempty : view d s2 = [] := by
            cases hs1 : s.err with
            | some x =>
              have := R.latched x hs1
              simp at this
            | none =>
              have hp0 := R.pos0 hs1
              simp only [] at hp0
              cases hs2 : s2.err with
              | none =>
                obtain ⟨_, hfull⟩ := R.full hs1 hs2
                simp only [] at hfull
                have hb : s2.buf = [] := List.eq_nil_of_length_eq_zero hz
                rcases hfull with hf | hf
                · have := bufSize_pos; omega
                · simp [view, hb, hf]
              | some x =>
                have hx := R.coh.errs x hs2
                subst hx
                have := R.added hs1 hs2 rfl
                simp only [] at this
                omega
          rw [hempty]
          simp only [view]
          rw [hsp]
          rw [← hv2, hempty]
          simp [scanSpec]
        · subst hr
          simp only []
          exact ⟨R.coh, Or.inr ⟨by simp, R.ret_latched rfl⟩⟩
      · simp only [hz, if_false]
        by_cases hl : (err.isSome && decide (s2.pos ≥ s2.buf.length)) = true
        · simp only [hl, if_true]
          rcases hret with hr | hr
          · subst hr; simp at hl
          · subst hr
            exact ⟨R.coh, Or.inr ⟨rfl, R.ret_latched rfl⟩⟩
        · simp only [hl]
          simp only [Bool.false_eq_true, if_false]
          -- the reader delivered at least one byte: the measure decreases
          have hs1 : s.err = none := by
            cases hs1 : s.err with
            | none => rfl
            | some x =>
              have := R.latched x hs1
              simp only [Prod.mk.injEq] at this
              obtain ⟨h1, h2⟩ := this
              subst h2
              subst h1
              simp at hl
              omega
          have hcount := R.count hs1
          simp only [] at hcount
          have hoff2 := R.coh.off_le
          simp only [] at hoff2
          have hlen2 : 0 < s2.buf.length := by omega
          have hfuel : (d.length - s2.srcOff) + 2 ≤ fuel := by
            have := c.off_le
            omega
          obtain ⟨cR, hR⟩ := ih (empty && n == 0) st1 s2 R.coh hfuel
          refine ⟨cR, ?_⟩
          rcases hR with ⟨ha, hb⟩ | hb
          · left
            refine ⟨ha, ?_⟩
            simp only [view] at hsp ⊢
            rw [hsp]
            rw [← hv2]
            exact hb
          · right; exact hb

/-- the acceptor of `SkipWhiteSpace` run over the whole input is `skipWS`/`skipComment` of
    `Model/Scan.lean` -/
theorem scanSpec_wsAcc : ∀ inp : Bytes,
    (scanSpec wsAcc false inp).2 = skipWS inp ∧ (scanSpec wsAcc true inp).2 = skipComment inp := by
  intro inp
  induction inp with
  | nil => simp [scanSpec, skipWS, skipComment]
  | cons c cs ih =>
    obtain ⟨h1, h2⟩ := ih
    constructor
    · by_cases h37 : (c == 37) = true
      · simp [scanSpec, wsAcc, skipWS, h37, h2]
      · by_cases hsp : isSpace c = true
        · simp [scanSpec, wsAcc, skipWS, h37, hsp, h1]
        · simp [scanSpec, wsAcc, skipWS, h37, hsp]
    · by_cases hnl : (c == 13 || c == 10) = true
      · simp [scanSpec, wsAcc, skipComment, hnl, h1]
      · simp [scanSpec, wsAcc, skipComment, hnl, h2]

/-- `SkipWhiteSpace` over a faulty reader: `skipWS` of the whole input, or the reader's error. -/
theorem skipWhiteSpace_spec {d : Bytes} {e0 : Err} {src : Source} (h : FaultyOver d e0 src) (s : SB)
    (c : Coh d e0 s) (fuel : Nat) (hf : (d.length - s.srcOff) + 2 ≤ fuel) :
    Coh d e0 (skipWhiteSpace src fuel s).1 ∧
    ((((skipWhiteSpace src fuel s).2 = none ∨ (skipWhiteSpace src fuel s).2 = some .eof) ∧
      skipWS (view d s) = (view d (skipWhiteSpace src fuel s).1, decide ((skipWhiteSpace src fuel s).2 = some .eof))) ∨
     ((skipWhiteSpace src fuel s).2 = some e0 ∧ (skipWhiteSpace src fuel s).1.err = some e0)) := by
  have S := scanBytes_spec h wsAcc fuel true false s c hf
  unfold skipWhiteSpace
  generalize scanBytes src wsAcc fuel true false s = r at S
  obtain ⟨s', st', e⟩ := r
  simp only [] at S ⊢
  refine ⟨S.1, ?_⟩
  rcases S.2 with ⟨ha, hb⟩ | hb
  · left
    refine ⟨ha, ?_⟩
    rw [← (scanSpec_wsAcc (view d s)).1, hb]
  · right; exact hb

/-- `SkipString(pat)` over a faulty reader: one of the two fault-free answers, or the reader's
    error. -/
theorem skipString_spec {d : Bytes} {e0 : Err} {src : Source} (h : FaultyOver d e0 src) (pat : Bytes)
    (hn : pat.length ≤ bufSize) (s : SB) (c : Coh d e0 s) :
    Coh d e0 (skipString src pat s).1 ∧
    (((skipString src pat s).2 = none ∧ (view d s).take pat.length = pat ∧
        view d (skipString src pat s).1 = (view d s).drop pat.length) ∨
     ((skipString src pat s).2 = some .malformed ∧ (view d s).take pat.length ≠ pat ∧
        view d (skipString src pat s).1 = view d s) ∨
     ((skipString src pat s).2 = some e0 ∧ (skipString src pat s).1.err = some e0)) := by
  have P := peekN_spec h pat.length hn s c
  unfold skipString
  generalize peekN src pat.length s = r at P
  obtain ⟨s1, buf, err⟩ := r
  have hw := P.window
  have hpl := P.coh.pos_le
  simp only [] at hw hpl
  rcases P.out with ⟨he, hb⟩ | ⟨he, hl⟩
  · simp only [] at he hb
    subst he
    simp only []
    by_cases heq : (buf == pat) = true
    · have heq' : buf = pat := by simpa using heq
      simp only [heq, if_true]
      have hlen : pat.length ≤ (s1.buf.drop s1.pos).length := by
        have := prefix_len hw; rw [heq'] at this; exact this
      simp only [List.length_drop] at hlen
      refine ⟨⟨by simp; omega, P.coh.len_le, P.coh.off_le, P.coh.nohang, P.coh.errs⟩, Or.inl ⟨by simp, ?_, ?_⟩⟩
      · rw [← hb, heq']
      · have hv : view d s1 = view d s := P.view_eq
        simp only [view] at hv ⊢
        rw [← hv, List.drop_append]
        have : pat.length - (s1.buf.drop s1.pos).length = 0 := by simp; omega
        rw [this]; simp [List.drop_drop]
    · simp only [heq, Bool.false_eq_true, if_false]
      have heq' : buf ≠ pat := by simpa using heq
      refine ⟨P.coh, Or.inr (Or.inl ⟨by simp, ?_, P.view_eq⟩)⟩
      rw [← hb]; exact heq'
  · simp only [] at he hl
    subst he
    exact ⟨P.coh, Or.inr (Or.inr ⟨by simp, hl⟩)⟩

/-! ## the readers of the correspondence run satisfy the hypotheses -/

theorem goodSrc_prefix (d : Bytes) (chunk k off want : Nat) : (goodSrc d chunk k off want).1 <+: d.drop off := by
  unfold goodSrc
  split
  · exact List.nil_prefix
  · exact List.take_prefix _ _

/-- the fault-free reader over `d` (any chunking) is a faulty reader that never fails -/
theorem goodSrc_faultyOver (d : Bytes) (chunk : Nat) (e0 : Err) (he : e0 ≠ .eof) :
    FaultyOver d e0 (goodSrc d chunk) where
  pre k off want := (List.take_prefix _ _).trans (goodSrc_prefix d chunk k off want)
  progress k off want hw hnone := by
    unfold goodSrc at hnone ⊢
    by_cases ho : off ≥ d.length
    · simp [ho] at hnone
    · simp only [ho, if_false]
      have hl : 0 < (d.drop off).length := by simp; omega
      have hwp : 0 < (if chunk = 0 then want else min want chunk) := by
        split <;> omega
      intro hc
      have := congrArg List.length hc
      simp at this
      omega
  ateof k off want h := by
    unfold goodSrc at h ⊢
    by_cases ho : off ≥ d.length
    · simp only [ho, if_true]
      simp [List.drop_eq_nil_of_le ho]
    · simp [ho] at h
  faults k off want x h := by
    unfold goodSrc at h
    by_cases ho : off ≥ d.length
    · simp [ho] at h; exact Or.inl h.symm
    · simp [ho] at h
  e0_ne := he

theorem goodSrc_faultFree (d : Bytes) (chunk : Nat) : FaultFree (goodSrc d chunk) := by
  intro k off want x h
  unfold goodSrc at h
  by_cases ho : off ≥ d.length
  · simp [ho] at h; exact h.symm
  · simp [ho] at h

/-- the fault-injecting reader of the driver (`fail from call k`, `fail only call k`, with any number
    of bytes delivered together with the error) is a faulty reader over `d` -/
theorem faultySrc_faultyOver (d : Bytes) (chunk : Nat) (m : FaultMode) (e0 : Err) (he : e0 ≠ .eof) :
    FaultyOver d e0 (faultySrc d chunk m e0) := by
  have G := goodSrc_faultyOver d chunk e0 he
  have key : ∀ k off want, faultySrc d chunk m e0 k off want = goodSrc d chunk k off want ∨
      ∃ short, faultySrc d chunk m e0 k off want = ((goodSrc d chunk k off want).1.take short, some e0) := by
    intro k off want
    unfold faultySrc
    cases m with
    | none => exact Or.inl rfl
    | fromK k0 short =>
      by_cases hk : k ≥ k0
      · right; exact ⟨short, by simp [hk]⟩
      · left; simp [hk]
    | onlyK k0 short =>
      by_cases hk : k = k0
      · right; exact ⟨short, by simp [hk]⟩
      · left; simp [hk]
  refine ⟨?_, ?_, ?_, ?_, he⟩
  · intro k off want
    rcases key k off want with h | ⟨short, h⟩
    · rw [h]; exact G.pre k off want
    · rw [h]
      exact ((List.take_prefix _ _).trans (List.take_prefix _ _)).trans (goodSrc_prefix d chunk k off want)
  · intro k off want hw hn
    rcases key k off want with h | ⟨short, h⟩
    · rw [h] at hn ⊢; exact G.progress k off want hw hn
    · rw [h] at hn; simp at hn
  · intro k off want hx
    rcases key k off want with h | ⟨short, h⟩
    · rw [h] at hx ⊢; exact G.ateof k off want hx
    · rw [h] at hx; simp at hx; exact absurd hx he
  · intro k off want x hx
    rcases key k off want with h | ⟨short, h⟩
    · rw [h] at hx; exact G.faults k off want x hx
    · rw [h] at hx; simp at hx; exact Or.inr hx.symm

/-! ## fault-free refinement and termination as stand-alone statements -/

/-- a reader over `d` that never fails -/
def GoodOver (d : Bytes) (src : Source) : Prop := ∀ e0, e0 ≠ Err.eof → FaultyOver d e0 src

theorem goodSrc_goodOver (d : Bytes) (chunk : Nat) : GoodOver d (goodSrc d chunk) :=
  fun e0 he => goodSrc_faultyOver d chunk e0 he

theorem coh_any {d : Bytes} {e0 e1 : Err} {s : SB} (c : Coh d e0 s) (h : s.err = none) : Coh d e1 s :=
  ⟨c.pos_le, c.len_le, c.off_le, c.nohang, by simp [h]⟩

/-- **`ScanBytes` terminates** on every reader that serves at most the bytes of `d` (with or
    without faults): with fuel `scanBytesFuel (bytes not yet delivered)` the out-of-fuel branch is
    never taken.  (Before the fix of D8 the recursion had no decreasing measure after a latched
    error, and the Go loop did not end.) -/
theorem scanBytes_terminates {σ : Type} {d : Bytes} {e0 : Err} {src : Source} (h : FaultyOver d e0 src)
    (acc : σ → Nat → Option σ) (empty : Bool) (st : σ) (s : SB) (c : Coh d e0 s) :
    (scanBytes src acc (scanBytesFuel (d.length - s.srcOff)) empty st s).1.hang = false :=
  (scanBytes_spec h acc _ empty st s c (by simp [scanBytesFuel])).1.nohang

/-- **`PeekN` refines the whole-input view** on a fault-free reader. -/
theorem peekN_refines {d : Bytes} {src : Source} (g : GoodOver d src) (n : Nat) (hn : n ≤ bufSize)
    (s : SB) (c : Coh d .io s) (hs : s.err = none) :
    (peekN src n s).2 = ((view d s).take n, none) ∧ view d (peekN src n s).1 = view d s ∧
    Coh d .io (peekN src n s).1 ∧ (peekN src n s).1.err = none := by
  have P1 := peekN_spec (g .io (by decide)) n hn s c
  have P2 := peekN_spec (g .other (by decide)) n hn s (coh_any c hs)
  have hnone : (peekN src n s).1.err = none := by
    cases he : (peekN src n s).1.err with
    | none => rfl
    | some x =>
      have h1 := P1.coh.errs x he
      have h2 := P2.coh.errs x he
      rw [h1] at h2; cases h2
  refine ⟨?_, P1.view_eq, P1.coh, hnone⟩
  rcases P1.out with ⟨a, b⟩ | ⟨_, b⟩
  · exact Prod.ext b a
  · rw [hnone] at b; cases b

/-- **`ReadByte` refines the whole-input view** on a fault-free reader. -/
theorem readByte_refines {d : Bytes} {src : Source} (g : GoodOver d src) (s : SB) (c : Coh d .io s)
    (hs : s.err = none) :
    ((readByte src s).2, view d (readByte src s).1) = readByteSpec (view d s) ∧ Coh d .io (readByte src s).1 := by
  obtain ⟨c1, h1⟩ := readByte_spec (g .io (by decide)) s c
  obtain ⟨c2, h2⟩ := readByte_spec (g .other (by decide)) s (coh_any c hs)
  refine ⟨?_, c1⟩
  rcases h1 with h1 | ⟨h1, _⟩
  · exact h1
  · rcases h2 with h2 | ⟨h2, _⟩
    · exact h2
    · rw [h1] at h2; cases h2

/-- **`ScanBytes` refines the whole-input view** on a fault-free reader. -/
theorem scanBytes_refines {σ : Type} {d : Bytes} {src : Source} (g : GoodOver d src)
    (acc : σ → Nat → Option σ) (empty : Bool) (st : σ) (s : SB) (c : Coh d .io s) (hs : s.err = none)
    (fuel : Nat) (hf : scanBytesFuel (d.length - s.srcOff) ≤ fuel) :
    scanSpec acc st (view d s) = ((scanBytes src acc fuel empty st s).2.1, view d (scanBytes src acc fuel empty st s).1,
      decide ((scanBytes src acc fuel empty st s).2.2 = some .eof)) ∧
    ((scanBytes src acc fuel empty st s).2.2 = none ∨ (scanBytes src acc fuel empty st s).2.2 = some .eof) ∧
    Coh d .io (scanBytes src acc fuel empty st s).1 := by
  obtain ⟨c1, h1⟩ := scanBytes_spec (g .io (by decide)) acc fuel empty st s c (by simpa [scanBytesFuel] using hf)
  obtain ⟨c2, h2⟩ := scanBytes_spec (g .other (by decide)) acc fuel empty st s (coh_any c hs)
    (by simpa [scanBytesFuel] using hf)
  rcases h1 with ⟨a, b⟩ | ⟨h1, _⟩
  · exact ⟨b, a, c1⟩
  · rcases h2 with ⟨a, b⟩ | ⟨h2, _⟩
    · exact ⟨b, a, c1⟩
    · rw [h1] at h2; cases h2

/-- **`SkipWhiteSpace` refines `skipWS`** of `Model/Scan.lean` on a fault-free reader: the view
    afterwards is the first component of `skipWS (view)`, and `io.EOF` is returned exactly when
    `skipWS` reports the end of the input. -/
theorem skipWhiteSpace_refines {d : Bytes} {src : Source} (g : GoodOver d src) (s : SB) (c : Coh d .io s)
    (hs : s.err = none) (fuel : Nat) (hf : scanBytesFuel (d.length - s.srcOff) ≤ fuel) :
    skipWS (view d s) = (view d (skipWhiteSpace src fuel s).1, decide ((skipWhiteSpace src fuel s).2 = some .eof)) ∧
    ((skipWhiteSpace src fuel s).2 = none ∨ (skipWhiteSpace src fuel s).2 = some .eof) := by
  obtain ⟨c1, h1⟩ := skipWhiteSpace_spec (g .io (by decide)) s c fuel (by simpa [scanBytesFuel] using hf)
  obtain ⟨c2, h2⟩ := skipWhiteSpace_spec (g .other (by decide)) s (coh_any c hs) fuel (by simpa [scanBytesFuel] using hf)
  rcases h1 with ⟨a, b⟩ | ⟨h1, _⟩
  · exact ⟨b, a⟩
  · rcases h2 with ⟨a, b⟩ | ⟨h2, _⟩
    · exact ⟨b, a⟩
    · rw [h1] at h2; cases h2

-- non-vacuity: a 3000-byte input read 7 bytes at a time; white space across three refills, then
-- the scanner stands on the digit, exactly as `skipWS` says
example :
    let d : Bytes := List.replicate 2500 32 ++ [49, 50]
    let r := skipWhiteSpace (goodSrc d 7) (scanBytesFuel d.length) (SB.init 0)
    (r.2, view d r.1, r.1.currentPos, r.1.hang) = (none, [49, 50], 2500, false) := by decide +kernel

end PdfVerif.C05robbuf

import PdfVerif.Model.FIOReader
import PdfVerif.Model.FIOWriter
import PdfVerif.Props.C02fio
import PdfVerif.Props.C02fiob
/-!
# C02 (work package FIO) — reader side: decimal numbers, `stream_extent`, object-stream header

About `Model/FIOReader.lean` (scanner.go `ReadStreamData`, reader.go `getObjStm`) and the
object-stream layout of `Model/FIOWriter.lean` (`WriteCompressed`).
-/
namespace PdfVerif.C02fioc
open PdfVerif PdfVerif.FIO PdfVerif.C02fio

/-! ## decimal printing (`strconv.Itoa`, `%d`) and `ReadInteger` -/

theorem decDigits_spec (f : Nat) : ∀ n, n < 10 ^ f →
    (decDigits f n).all isDigit = true ∧ digitsVal (decDigits f n) 0 = n ∧
    (0 < f → decDigits f n ≠ []) ∧ (decDigits f n).length ≤ f := by
  induction f with
  | zero => intro n h; simp at h; subst h; simp [decDigits, digitsVal]
  | succ f ih =>
    intro n h
    unfold decDigits
    split
    · rename_i h10
      refine ⟨by simp [isDigit]; omega, by simp [digitsVal], by simp, by simp⟩
    · rename_i h10
      have hq : n / 10 < 10 ^ f := by rw [Nat.pow_succ] at h; omega
      obtain ⟨a, b, _, d⟩ := ih (n / 10) hq
      refine ⟨?_, ?_, by simp, by simp; omega⟩
      · simp only [List.all_append, a, Bool.true_and, List.all_cons, List.all_nil, Bool.and_true]
        have : n % 10 < 10 := Nat.mod_lt _ (by omega)
        simp [isDigit]; omega
      · rw [digitsVal_append, b]
        simp only [digitsVal]
        omega

/-- more fuel than digits changes nothing -/
theorem decDigits_fuel (f : Nat) : ∀ n g, n < 10 ^ (f + 1) → f + 1 ≤ g → decDigits g n = decDigits (f + 1) n := by
  induction f with
  | zero =>
    intro n g h hg
    cases g with
    | zero => omega
    | succ g => have : n < 10 := by simpa using h
                simp [decDigits, this]
  | succ f ih =>
    intro n g h hg
    cases g with
    | zero => omega
    | succ g =>
      unfold decDigits
      split
      · rfl
      · have hq : n / 10 < 10 ^ (f + 1) := by rw [Nat.pow_succ] at h; omega
        rw [ih (n / 10) g hq (by omega)]

theorem lt_ten_pow_succ (n : Nat) : n < 10 ^ (n + 1) := by
  induction n with
  | zero => simp
  | succ n ih => rw [Nat.pow_succ]; omega

/-- `decOf n` for a number of at most `f` digits: digits only, value `n`, non-empty, at most
    `f` long -/
theorem decOf_spec (n f : Nat) (hf : n < 10 ^ f) (hpos : 0 < f) :
    (decOf n).all isDigit = true ∧ digitsVal (decOf n) 0 = n ∧ decOf n ≠ [] ∧ (decOf n).length ≤ f := by
  have h1 := lt_ten_pow_succ n
  unfold decOf
  by_cases hle : f ≤ n + 1
  · obtain ⟨f', rfl⟩ : ∃ f', f = f' + 1 := ⟨f - 1, by omega⟩
    rw [decDigits_fuel f' n (n + 1) hf hle]
    obtain ⟨a, b, c, d⟩ := decDigits_spec (f' + 1) n hf
    exact ⟨a, b, c hpos, d⟩
  · obtain ⟨a, b, c, d⟩ := decDigits_spec (n + 1) n h1
    exact ⟨a, b, c (by omega), by omega⟩

/-- what may follow a number: the end, or a byte that is not a digit -/
def NumEnd : Bytes → Prop
  | [] => True
  | c :: _ => isDigit c = false

theorem scanNumTok_digits (ds : Bytes) (hall : ds.all isDigit = true) (rest : Bytes) (hrest : NumEnd rest) :
    ∀ first, (ds = [] → first = false) → scanNumTok false false first (ds ++ rest) = (ds, rest) := by
  induction ds with
  | nil =>
    intro first hf
    have hf' := hf rfl
    subst hf'
    cases rest with
    | nil => simp [scanNumTok]
    | cons c cs =>
      simp only [NumEnd] at hrest
      simp [scanNumTok, hrest]
  | cons d ds ih =>
    intro first _
    have hd : isDigit d = true := by simp at hall; exact hall.1
    have hds : ds.all isDigit = true := by simp at hall ⊢; exact hall.2
    have h45 : ¬ (d = 43 ∨ d = 45) := by
      intro h; rcases h with h | h <;> (subst h; simp [isDigit] at hd)
    simp only [List.cons_append, scanNumTok, Bool.false_and, Bool.false_eq_true, ↓reduceIte]
    by_cases hfirst : first = true
    · subst hfirst
      have : ((d == 43) || (d == 45)) = false := by
        simp only [Bool.or_eq_false_iff, beq_eq_false_iff_ne]; exact ⟨fun h => h45 (.inl h), fun h => h45 (.inr h)⟩
      simp only [Bool.true_and, this, Bool.false_eq_true, ↓reduceIte, hd]
      rw [ih hds false (fun _ => rfl)]
    · have hff : first = false := by simpa using hfirst
      subst hff
      simp only [Bool.false_and, Bool.false_eq_true, ↓reduceIte, hd]
      rw [ih hds false (fun _ => rfl)]

theorem digit_facts : ∀ c, c < 256 → isDigit c = true → (c == 37) = false ∧ isSpace c = false := by
  decide +kernel

theorem isDigit_lt (c : Nat) (h : isDigit c = true) : c < 256 := by
  simp [isDigit] at h; omega

/-- **ReadInteger ∘ Itoa.**  A number printed in decimal and followed by the end or a non-digit
is read back, and reading stops exactly after it. -/
theorem readIntegerE_decOf (n : Nat) (hn : n ≤ 9223372036854775807) (rest : Bytes) (hrest : NumEnd rest) :
    readIntegerE (decOf n ++ rest) = .ok ((n : Int), rest) := by
  obtain ⟨hall, hval, hne, hlen⟩ := decOf_spec n 19 (by omega) (by omega)
  cases hds : decOf n with
  | nil => exact absurd hds hne
  | cons d ds =>
    have hd : isDigit d = true := by rw [hds] at hall; simp at hall; exact hall.1
    obtain ⟨h37, hsp⟩ := digit_facts d (isDigit_lt d hd) hd
    unfold readIntegerE
    have hskip : skipWS (d :: ds ++ rest) = (d :: ds ++ rest, false) := by
      simp [skipWS, h37, hsp]
    rw [hskip]
    simp only
    rw [← hds, scanNumTok_digits (decOf n) hall rest hrest true (fun h => absurd h hne)]
    simp only
    have h4096 : ¬ ((decOf n).length > Gen.scanner_maxNameBytes) := by
      simp [Gen.scanner_maxNameBytes]; omega
    simp only [h4096, ↓reduceIte]
    rw [parseInt64_digits (decOf n) hne hall (by rw [hval]; exact hn), hval]

theorem skipWS_space (c : Nat) (hc : c = 32 ∨ c = 10) (inp : Bytes) : skipWS (c :: inp) = skipWS inp := by
  have h32 : isSpace 32 = true := by decide +kernel
  have h10 : isSpace 10 = true := by decide +kernel
  rcases hc with rfl | rfl <;> simp [skipWS, h32, h10]

theorem readIntegerE_ws (c : Nat) (hc : c = 32 ∨ c = 10) (inp : Bytes) :
    readIntegerE (c :: inp) = readIntegerE inp := by
  unfold readIntegerE
  rw [skipWS_space c hc inp]

/-! ## stream_extent -/

/-- **stream_extent.**  With the correct `/Length`, `ReadStreamData` returns exactly the body —
for every body, also one that contains `endstream`, `endobj`, or ends in CR/LF — and continues
after the `endstream` keyword.  (`"stream\n" body "\nendstream"` is what `streamWriter` writes.) -/
theorem stream_extent (body rest : Bytes) (off : Nat) (hoff : off + 7 + body.length < 9223372036854775808) :
    readStreamData (kw_stream ++ [10] ++ body ++ [10] ++ kwEndstream ++ rest) off (some body.length)
      = .ok (off + 7, body.length, rest) := by
  have hpre : isPrefixOf kw_stream (kw_stream ++ [10] ++ body ++ [10] ++ kwEndstream ++ rest) = true := by
    simp [kw_stream, isPrefixOf]
  have hdrop : (kw_stream ++ [10] ++ body ++ [10] ++ kwEndstream ++ rest).drop 6
      = 10 :: (body ++ [10] ++ kwEndstream ++ rest) := by simp [kw_stream]
  have hd2 : (body ++ [10] ++ kwEndstream ++ rest).drop body.length = 10 :: (kwEndstream ++ rest) := by
    simp only [List.append_assoc]
    rw [List.drop_left]; rfl
  have hes : endstreamAt (10 :: (kwEndstream ++ rest)) = true := by
    have : isSpace 10 = true := by decide +kernel
    have h2 : isSpace 101 = false := by decide +kernel
    simp [endstreamAt, dropSpace, this, kwEndstream, h2, isPrefixOf]
  have hsk : skipWS (10 :: (kwEndstream ++ rest)) = (kwEndstream ++ rest, false) := by
    have : isSpace 10 = true := by decide +kernel
    have h2 : isSpace 101 = false := by decide +kernel
    simp [skipWS, this, kwEndstream, h2]
  have hp9 : isPrefixOf kwEndstream (kwEndstream ++ rest) = true := by simp [kwEndstream, isPrefixOf]
  have hdrop9 : (kwEndstream ++ rest).drop 9 = rest := by simp [kwEndstream]
  have hov : ¬ (off + 6 + 1 + body.length ≥ 9223372036854775808) := by omega
  unfold readStreamData
  simp only [hpre, hdrop, Bool.not_true, Bool.false_eq_true, ↓reduceIte, List.drop_succ_cons, List.drop_zero, hov, hd2, hes,
    hsk, hp9, hdrop9]

-- non-vacuity / the interesting bodies: containing the keywords and ending in CR LF
example : (match readStreamData (kw_stream ++ [10] ++ (kwEndstream ++ [13, 10] ++ kwEndobj ++ [13, 10]) ++ [10] ++ kwEndstream ++ [10, 101])
    100 (some 19) with
    | .ok (a, b, c) => a == 107 && b == 19 && c == [10, 101]
    | _ => false) = true := by decide +kernel

/-- without a usable `/Length` the recovery scan cuts the same file at the first
    `EOL endstream` inside the body: the declared length is what protects such bodies -/
example : (match readStreamData (kw_stream ++ [10] ++ ([65, 10] ++ kwEndstream ++ [10, 66]) ++ [10] ++ kwEndstream ++ [10])
    0 none with
    | .ok (a, b, c) => a == 7 && b == 1 && c == [10, 66, 10] ++ kwEndstream ++ [10]
    | _ => false) = true := by decide +kernel



/-! ## object streams: header (`/N`, `/First`, offset table) round trip -/

/-- the index lines `num offset\n` for members with formatted bodies `bs`, the first at `off` -/
def osHead : List Nat → List Bytes → Nat → Bytes
  | n :: ns, b :: bs, off => decOf n ++ [32] ++ decOf off ++ [10] ++ osHead ns bs (off + b.length + 1)
  | _, _, _ => []

def osBody : List Bytes → Bytes
  | [] => []
  | [b] => b
  | b :: b' :: bs => b ++ [10] ++ osBody (b' :: bs)

def osOffsets : List Bytes → Nat → List Nat
  | [], _ => []
  | b :: bs, off => off :: osOffsets bs (off + b.length + 1)

def fmtAll (opt : FmtOpt) : List (Nat × Obj) → Option (List Bytes)
  | [] => some []
  | (_, o) :: rest =>
    match format opt [o], fmtAll opt rest with
    | some b, some bs => some (b :: bs)
    | _, _ => none

theorem osBody_cons (b : Bytes) (bs : List Bytes) (h : bs ≠ []) : osBody (b :: bs) = b ++ [10] ++ osBody bs := by
  cases bs with
  | nil => exact absurd rfl h
  | cons b' bs' => rfl

theorem fmtAll_length (opt : FmtOpt) (items : List (Nat × Obj)) : ∀ bs, fmtAll opt items = some bs → bs.length = items.length := by
  induction items with
  | nil => intro bs h; simp [fmtAll] at h; subst h; rfl
  | cons x rest ih =>
    intro bs h
    obtain ⟨a, o⟩ := x
    simp only [fmtAll] at h
    split at h
    · rename_i b bs' _ hr
      simp only [Option.some.injEq] at h; subst h
      simp [ih bs' hr]
    · simp at h

theorem objStmParts_layout (opt : FmtOpt) (items : List (Nat × Obj)) :
    ∀ (bs : List Bytes) (head body : Bytes), fmtAll opt items = some bs →
      objStmParts opt items head body =
        some (head ++ osHead (items.map (·.1)) bs body.length, body ++ osBody bs) := by
  induction items with
  | nil =>
    intro bs head body h
    simp only [fmtAll, Option.some.injEq] at h
    subst h
    simp [objStmParts, osHead, osBody]
  | cons x rest ih =>
    intro bs head body h
    obtain ⟨num, o⟩ := x
    simp only [fmtAll] at h
    split at h
    · rename_i b bs' hf hrest
      simp only [Option.some.injEq] at h
      subst h
      cases rest with
      | nil =>
        simp only [fmtAll, Option.some.injEq] at hrest
        subst hrest
        simp [objStmParts, hf, osHead, osBody]
      | cons y rest' =>
        have hne : bs' ≠ [] := by
          intro h0; subst h0
          have := fmtAll_length opt _ _ hrest
          simp at this
        simp only [objStmParts, hf]
        rw [ih bs' _ _ hrest]
        simp only [List.map_cons, osHead, List.length_append, List.length_cons, List.length_nil,
          List.append_assoc, osBody_cons b bs' hne]
        simp [Nat.add_assoc]
    · simp at h

theorem isDigit_10 : isDigit 10 = false := by decide
theorem isDigit_32 : isDigit 32 = false := by decide

theorem readPairs_osHead (nums : List Nat) : ∀ (bs : List Bytes) (off : Nat) (lead tail : Bytes),
    nums.length = bs.length → (lead = [] ∨ lead = [10]) →
    (∀ n ∈ nums, n ≤ 4294967295) → (∀ o ∈ osOffsets bs off, o ≤ 9223372036854775807) →
    readPairs nums.length (lead ++ osHead nums bs off ++ tail) =
      .ok (List.zip nums (osOffsets bs off), (if nums = [] then lead else [10]) ++ tail) := by
  induction nums with
  | nil =>
    intro bs off lead tail hl _ _ _
    cases bs with
    | nil => simp [readPairs, osHead, osOffsets]
    | cons _ _ => simp at hl
  | cons n ns ih =>
    intro bs off lead tail hl hlead hn ho
    cases bs with
    | nil => simp at hl
    | cons b bs' =>
      have hn1 : n ≤ 4294967295 := hn n (by simp)
      have ho1 : off ≤ 9223372036854775807 := ho off (by simp [osOffsets])
      have e1 : readIntegerE (lead ++ osHead (n :: ns) (b :: bs') off ++ tail)
          = .ok ((n : Int), 32 :: (decOf off ++ (10 :: (osHead ns bs' (off + b.length + 1) ++ tail)))) := by
        have : lead ++ osHead (n :: ns) (b :: bs') off ++ tail
            = lead ++ (decOf n ++ (32 :: (decOf off ++ (10 :: (osHead ns bs' (off + b.length + 1) ++ tail))))) := by
          simp [osHead]
        rw [this]
        rcases hlead with rfl | rfl
        · simp only [List.nil_append]
          exact readIntegerE_decOf n (by omega) _ (by simp [NumEnd, isDigit_32])
        · rw [show [10] ++ (decOf n ++ (32 :: (decOf off ++ (10 :: (osHead ns bs' (off + b.length + 1) ++ tail)))))
              = 10 :: (decOf n ++ (32 :: (decOf off ++ (10 :: (osHead ns bs' (off + b.length + 1) ++ tail))))) from rfl,
            readIntegerE_ws 10 (.inr rfl)]
          exact readIntegerE_decOf n (by omega) _ (by simp [NumEnd, isDigit_32])
      have e2 : readIntegerE (32 :: (decOf off ++ (10 :: (osHead ns bs' (off + b.length + 1) ++ tail))))
          = .ok ((off : Int), 10 :: (osHead ns bs' (off + b.length + 1) ++ tail)) := by
        rw [readIntegerE_ws 32 (.inl rfl)]
        exact readIntegerE_decOf off ho1 _ (by simp [NumEnd, isDigit_10])
      have e3 := ih bs' (off + b.length + 1) [10] tail (by simpa using hl) (.inr rfl)
        (fun m hm => hn m (by simp [hm])) (fun o ho' => ho o (by simp [osOffsets, ho']))
      simp only [List.length_cons, readPairs, e1, e2]
      have c1' : ((decide ((n : Int) < 0) || decide ((n : Int) > 4294967295)) || decide ((off : Int) < 0)) = false := by
        simp; omega
      simp only [c1', Bool.false_eq_true, ↓reduceIte]
      rw [show 10 :: (osHead ns bs' (off + b.length + 1) ++ tail) = [10] ++ osHead ns bs' (off + b.length + 1) ++ tail by simp]
      rw [e3]
      simp [osOffsets]

theorem osOffsets_ge (bs : List Bytes) : ∀ (off i o : Nat), (osOffsets bs off)[i]? = some o → off ≤ o := by
  induction bs with
  | nil => intro off i o h; simp [osOffsets] at h
  | cons b rest ih =>
    intro off i o h
    cases i with
    | zero => simp [osOffsets] at h; omega
    | succ i =>
      simp only [osOffsets, List.getElem?_cons_succ] at h
      have := ih _ _ _ h; omega

/-- member `i` stands at its offset in the body -/
theorem osBody_at (bs : List Bytes) : ∀ (pre : Bytes) (off0 i o : Nat) (b : Bytes),
    (osOffsets bs off0)[i]? = some o → bs[i]? = some b →
    C02fiob.At (pre ++ osBody bs) (pre.length + (o - off0)) b := by
  induction bs with
  | nil => intro pre off0 i o b h; simp [osOffsets] at h
  | cons b0 rest ih =>
    intro pre off0 i o b ho hb
    cases i with
    | zero =>
      simp only [osOffsets, List.getElem?_cons_zero, Option.some.injEq] at ho hb
      subst ho; subst hb
      simp only [Nat.sub_self, Nat.add_zero]
      cases rest with
      | nil => exact ⟨pre, [], by simp [osBody], rfl⟩
      | cons b' rest' => exact ⟨pre, [10] ++ osBody (b' :: rest'), by simp [osBody], rfl⟩
    | succ i =>
      simp only [osOffsets, List.getElem?_cons_succ] at ho hb
      have hne : rest ≠ [] := by intro h0; subst h0; simp at hb
      have hge := osOffsets_ge rest _ _ _ ho
      have := ih (pre ++ b0 ++ [10]) (off0 + b0.length + 1) i o b ho hb
      rw [osBody_cons b0 rest hne]
      have e : pre.length + (o - off0) = (pre ++ b0 ++ [10]).length + (o - (off0 + b0.length + 1)) := by
        simp; omega
      rw [e]
      simpa [List.append_assoc] using this


/-- **objstm_rt.**  For every non-empty list of members (numbers below 2³², any objects the
formatter accepts, offsets within `int64`, at most `maxObjStmObjects` members — the reader's cap,
to which `WriteCompressed` now splits): `getObjStm` applied to the content written by `WriteCompressed`, with the `/N` and `/First`
it wrote, returns exactly the member numbers with the offsets `First + offsetᵢ`; the header ends
one byte before `First`; and at `First + offsetᵢ` stands the formatted member `i`. -/
theorem objstm_rt (opt : FmtOpt) (items : List (Nat × Obj)) (bs : List Bytes) (content : Bytes) (n first : Nat)
    (hne : items ≠ [])
    (hf : fmtAll opt items = some bs) (hc : objStmContent opt items = some (content, n, first))
    (hnum : ∀ x ∈ items, x.1 ≤ 4294967295) (hoff : ∀ o ∈ osOffsets bs 0, o ≤ 9223372036854775807)
    (hN : n ≤ 10000) (dict : List (Bytes × Obj))
    (hdN : dictGet dict kNkey = some (.int n)) (hdF : dictGet dict kFirstKey = some (.int first)) :
    getObjStm dict content =
      .ok ((List.zip (items.map (·.1)) (osOffsets bs 0)).map (fun p => (p.1, p.2 + first)), first - 1) ∧
    n = items.length ∧
    ∀ (i o : Nat) (b : Bytes), (osOffsets bs 0)[i]? = some o → bs[i]? = some b → C02fiob.At content (first + o) b := by
  have hlay := objStmParts_layout opt items bs [] [] hf
  simp only [objStmContent, hlay, Option.map_some, List.nil_append, List.length_nil, Option.some.injEq,
    Prod.mk.injEq] at hc
  obtain ⟨hcontent, hn, hfirst⟩ := hc
  have hlen : (items.map (·.1)).length = bs.length := by
    rw [fmtAll_length opt items bs hf]; simp
  have hrp := readPairs_osHead (items.map (·.1)) bs 0 [] (osBody bs) hlen (.inl rfl)
    (fun m hm => by simp at hm; obtain ⟨a, ha⟩ := hm; exact hnum _ ha) hoff
  have hmapne : items.map (·.1) ≠ [] := by simpa using hne
  simp only [hmapne, ↓reduceIte, List.nil_append] at hrp
  have hpos : 0 < first := by
    rw [← hfirst]
    cases items with
    | nil => exact absurd rfl hne
    | cons x rest =>
      cases bs with
      | nil => simp at hlen
      | cons b bs' => simp [osHead]; omega
  refine ⟨?_, hn.symm, ?_⟩
  · unfold getObjStm
    have hn0' : (decide ((n : Int) < 0) || decide ((n : Int) > (Gen.fio_maxObjStmObjects : Nat))) = false := by
      simp [Gen.fio_maxObjStmObjects]; omega
    simp only [hdN, hn0', Bool.false_eq_true, ↓reduceIte, Int.toNat_natCast]
    rw [← hcontent, ← hn]
    have : (items.map (·.1)).length = items.length := by simp
    rw [← this, hrp]
    simp only [hdF]
    have hcmp : ¬ ((first : Int) < (((osHead (items.map (·.1)) bs 0 ++ osBody bs).length - ([10] ++ osBody bs).length : Nat) : Int)) := by
      simp [hfirst]
    simp only [hcmp, ↓reduceIte, Int.toNat_natCast]
    congr 2
    simp [hfirst]; omega
  · intro i o b ho hb
    have := osBody_at bs (osHead (items.map (·.1)) bs 0) 0 i o b ho hb
    rw [← hcontent, ← hfirst]
    simpa using this


-- non-vacuity: three members, one of them a dictionary; index and offsets are read back and
-- member 2 (`[1]`) is found at First + 11
example :
    (let items : List (Nat × Obj) := [(7, .int 5), (12, .dict [([65], .name [66])]), (300, .arr [.int 1])]
     match objStmContent { pretty := false, content := false } items with
     | some (content, n, first) =>
       (match getObjStm [(kNkey, .int n), (kFirstKey, .int first)] content with
        | .ok (idx, headEnd) => idx == [(7, first), (12, first + 2), (300, first + 11)] && headEnd + 1 == first &&
            isPrefixOf [91, 49, 93] (content.drop (first + 11))
        | _ => false)
     | none => false) = true := by decide +kernel

end PdfVerif.C02fioc

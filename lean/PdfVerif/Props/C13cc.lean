import PdfVerif.Model.CCCMap
/-!
# C13 — CMap and ToUnicode mappings (part 1): `rangeIndex` / `codesInRange`

`rangeIndex` (lookup position inside a rectangular range, `font/cmap/file.go`) and
`codesInRange` (enumeration order, `font/cmap/range.go`) are inverse bijections between the
codes of the box and `0 … boxCount-1` (mixed radix, most significant byte first).  Hence
`LookupCID`/`Lookup` and `All` assign the same value to every code of a range.
-/
namespace PdfVerif.C13cc
open PdfVerif PdfVerif.CC

/-! ## `rangeIndex` and `codesInRange`: the mixed-radix bijection -/

/-- number of codes in the box `[first, last]` -/
def boxCount : Bytes → Bytes → Nat
  | f :: fs, l :: ls => (l - f + 1) * boxCount fs ls
  | _, _ => 1

/-- position of `code` in the box, most significant byte first (uncapped) -/
def mixedIndex : Bytes → Bytes → Bytes → Nat
  | f :: fs, _ :: ls, b :: bs => (b - f) * boxCount fs ls + mixedIndex fs ls bs
  | _, _, _ => 0

/-- `first ≤ last` bytewise, equal lengths -/
def BoxValid : Bytes → Bytes → Prop
  | f :: fs, l :: ls => f ≤ l ∧ BoxValid fs ls
  | [], [] => True
  | _, _ => False

/-- `code` has the length of the box and lies in it -/
def InBox : Bytes → Bytes → Bytes → Prop
  | f :: fs, l :: ls, b :: bs => f ≤ b ∧ b ≤ l ∧ InBox fs ls bs
  | [], [], [] => True
  | _, _, _ => False

theorem boxCount_pos (f l : Bytes) : 0 < boxCount f l := by
  induction f generalizing l with
  | nil => simp [boxCount]
  | cons a f ih =>
    cases l with
    | nil => simp [boxCount]
    | cons b l => simp only [boxCount]; exact Nat.mul_pos (by omega) (ih l)

theorem mixedIndex_lt (f l c : Bytes) (h : InBox f l c) : mixedIndex f l c < boxCount f l := by
  induction f generalizing l c with
  | nil => cases l <;> cases c <;> simp_all [InBox, mixedIndex, boxCount]
  | cons a f ih =>
    cases l with
    | nil => cases c <;> simp [InBox] at h
    | cons b l =>
      cases c with
      | nil => simp [InBox] at h
      | cons x c =>
        simp only [InBox] at h
        simp only [mixedIndex, boxCount]
        have := ih l c h.2.2
        calc (x - a) * boxCount f l + mixedIndex f l c
            < (x - a) * boxCount f l + boxCount f l := by omega
          _ = (x - a + 1) * boxCount f l := by rw [Nat.add_mul, Nat.one_mul]
          _ ≤ (b - a + 1) * boxCount f l := Nat.mul_le_mul_right _ (by omega)

theorem mixedIndex_first (f l : Bytes) : mixedIndex f l f = 0 := by
  induction f generalizing l with
  | nil => cases l <;> simp [mixedIndex]
  | cons a f ih => cases l <;> simp [mixedIndex, ih]

theorem inBox_first (f l : Bytes) (h : BoxValid f l) : InBox f l f := by
  induction f generalizing l with
  | nil => cases l <;> simp_all [BoxValid, InBox]
  | cons a f ih =>
    cases l with
    | nil => simp [BoxValid] at h
    | cons b l => simp only [BoxValid] at h; simp only [InBox]; exact ⟨Nat.le_refl _, h.1, ih l h.2⟩

theorem inBox_valid (f l c : Bytes) (h : InBox f l c) : BoxValid f l := by
  induction f generalizing l c with
  | nil => cases l <;> cases c <;> simp_all [BoxValid, InBox]
  | cons a f ih =>
    cases l with
    | nil => cases c <;> simp [InBox] at h
    | cons b l =>
      cases c with
      | nil => simp [InBox] at h
      | cons x c => simp only [InBox] at h; simp only [BoxValid]; exact ⟨by omega, ih l c h.2.2⟩

/-- the odometer step: the next code lies in the box and has the next index; after the last code
(index `boxCount - 1`) it stops -/
theorem nextCode_spec (f l c : Bytes) (h : InBox f l c) :
    (∀ c', nextCode f l c = some c' → InBox f l c' ∧ mixedIndex f l c' = mixedIndex f l c + 1) ∧
    (nextCode f l c = none → mixedIndex f l c + 1 = boxCount f l) := by
  induction f generalizing l c with
  | nil => cases l <;> cases c <;> simp_all [InBox, nextCode, mixedIndex, boxCount]
  | cons a f ih =>
    cases l with
    | nil => cases c <;> simp [InBox] at h
    | cons b l =>
      cases c with
      | nil => simp [InBox] at h
      | cons x c =>
        simp only [InBox] at h
        obtain ⟨h1, h2, h3⟩ := h
        have ihc := ih l c h3
        simp only [nextCode]
        cases hn : nextCode f l c with
        | some c2 =>
          have := ihc.1 c2 hn
          simp only [Option.some.injEq, reduceCtorEq, false_implies, and_true]
          intro c' hc'; subst hc'
          simp only [InBox, mixedIndex]
          exact ⟨⟨h1, h2, this.1⟩, by omega⟩
        | none =>
          have hlast := ihc.2 hn
          simp only
          by_cases hx : x < b
          · simp only [hx, if_true, Option.some.injEq, reduceCtorEq, false_implies, and_true]
            intro c' hc'; subst hc'
            simp only [InBox, mixedIndex, mixedIndex_first]
            refine ⟨⟨by omega, by omega, inBox_first f l (inBox_valid f l c h3)⟩, ?_⟩
            have : x + 1 - a = (x - a) + 1 := by omega
            rw [this, Nat.add_mul, Nat.one_mul]; omega
          · simp only [hx, if_false, reduceCtorEq, false_implies, implies_true, true_and]
            have : x = b := by omega
            subst this
            simp only [mixedIndex, boxCount]
            rw [Nat.add_mul, Nat.one_mul]; omega

/-- the `j`-th item yielded by the enumeration starting at `buf` (index `idx`) is `(idx + j, c)`
with `c` in the box at mixed-radix position `idx + j` -/
theorem codesFrom_spec (f l : Bytes) : ∀ (n idx : Nat) (buf : Bytes), InBox f l buf → mixedIndex f l buf = idx →
    ∀ j p, (codesFrom f l n idx buf)[j]? = some p →
      p.1 = idx + j ∧ InBox f l p.2 ∧ mixedIndex f l p.2 = idx + j := by
  intro n
  induction n with
  | zero => intro idx buf _ _ j p h; simp [codesFrom] at h
  | succ n ih =>
    intro idx buf hb hi j p h
    simp only [codesFrom] at h
    cases j with
    | zero =>
      simp only [List.getElem?_cons_zero, Option.some.injEq] at h
      subst h
      exact ⟨rfl, hb, hi⟩
    | succ j =>
      simp only [List.getElem?_cons_succ] at h
      cases hn : nextCode f l buf with
      | none => simp [hn] at h
      | some buf' =>
        simp only [hn] at h
        have := (nextCode_spec f l buf hb).1 buf' hn
        have := ih (idx + 1) buf' this.1 (by omega) j p h
        refine ⟨by omega, this.2.1, by omega⟩

/-- the enumeration does not stop early: it has `min n (boxCount - idx)` items -/
theorem codesFrom_length (f l : Bytes) : ∀ (n idx : Nat) (buf : Bytes), InBox f l buf → mixedIndex f l buf = idx →
    (codesFrom f l n idx buf).length = min n (boxCount f l - idx) := by
  intro n
  induction n with
  | zero => intro idx buf _ _; simp [codesFrom]
  | succ n ih =>
    intro idx buf hb hi
    have hlt := mixedIndex_lt f l buf hb
    simp only [codesFrom, List.length_cons]
    cases hn : nextCode f l buf with
    | none =>
      have := (nextCode_spec f l buf hb).2 hn
      simp; omega
    | some buf' =>
      have h1 := (nextCode_spec f l buf hb).1 buf' hn
      simp only
      rw [ih (idx + 1) buf' h1.1 (by omega)]
      have := mixedIndex_lt f l buf' h1.1
      omega

theorem mixedIndex_inj (f l c c' : Bytes) (h : InBox f l c) (h' : InBox f l c')
    (he : mixedIndex f l c = mixedIndex f l c') : c = c' := by
  induction f generalizing l c c' with
  | nil => cases l <;> cases c <;> cases c' <;> simp_all [InBox]
  | cons a f ih =>
    cases l with
    | nil => cases c <;> simp [InBox] at h
    | cons b l =>
      cases c with
      | nil => simp [InBox] at h
      | cons x c =>
        cases c' with
        | nil => simp [InBox] at h'
        | cons x' c' =>
          simp only [InBox] at h h'
          simp only [mixedIndex] at he
          have m1 := mixedIndex_lt f l c h.2.2
          have m2 := mixedIndex_lt f l c' h'.2.2
          have hpos := boxCount_pos f l
          have hq : x - a = x' - a := by
            have e1 : ((x - a) * boxCount f l + mixedIndex f l c) / boxCount f l = x - a := by
              rw [Nat.mul_comm, Nat.mul_add_div hpos, Nat.div_eq_of_lt m1]; rfl
            have e2 : ((x' - a) * boxCount f l + mixedIndex f l c') / boxCount f l = x' - a := by
              rw [Nat.mul_comm, Nat.mul_add_div hpos, Nat.div_eq_of_lt m2]; rfl
            rw [← e1, ← e2, he]
          have hx : x = x' := by omega
          subst hx
          have : mixedIndex f l c = mixedIndex f l c' := by omega
          rw [ih l c c' h.2.2 h'.2.2 this]


theorem inBox_len (f l c : Bytes) (h : InBox f l c) : f.length = c.length ∧ l.length = c.length := by
  induction f generalizing l c with
  | nil => cases l <;> cases c <;> simp_all [InBox]
  | cons a f ih =>
    cases l with
    | nil => cases c <;> simp [InBox] at h
    | cons b l =>
      cases c with
      | nil => simp [InBox] at h
      | cons x c => simp only [InBox] at h; have := ih l c h.2.2; simp; omega

theorem rangeIndexLoop_some (f l c : Bytes) : ∀ (acc r : Nat), f.length = c.length → l.length = c.length →
    rangeIndexLoop f l c acc = some r →
    InBox f l c ∧ r = acc * boxCount f l + mixedIndex f l c ∧ (c ≠ [] → r ≤ maxInt32) := by
  induction f generalizing l c with
  | nil =>
    intro acc r h1 h2 h
    cases c with
    | nil => cases l with
      | nil => simp [rangeIndexLoop] at h; simp [InBox, boxCount, mixedIndex, h]
      | cons _ _ => simp at h2
    | cons _ _ => simp at h1
  | cons a f ih =>
    intro acc r h1 h2 h
    cases l with
    | nil => cases c <;> simp at h1 h2
    | cons b l =>
      cases c with
      | nil => simp at h1
      | cons x c =>
        simp only [rangeIndexLoop] at h
        split at h
        · cases h
        · rename_i hx
          simp only [Bool.or_eq_true, decide_eq_true_eq, not_or, Nat.not_lt] at hx
          split at h
          · cases h
          · rename_i hcap
            have := ih l c _ r (by simpa using h1) (by simpa using h2) h
            simp only [InBox, boxCount, mixedIndex]
            refine ⟨⟨hx.1, hx.2, this.1⟩, ?_, ?_⟩
            · rw [this.2.1, Nat.add_mul, Nat.mul_assoc, Nat.add_assoc]
            · intro _
              by_cases hc : c = []
              · subst hc
                cases l with
                | nil =>
                  cases f with
                  | nil => simp [rangeIndexLoop] at h; omega
                  | cons _ _ => simp at h1
                | cons _ _ => simp at h2
              · exact this.2.2 hc

theorem rangeIndexLoop_of_inBox (f l c : Bytes) : ∀ (acc : Nat), InBox f l c →
    acc * boxCount f l + mixedIndex f l c ≤ maxInt32 →
    rangeIndexLoop f l c acc = some (acc * boxCount f l + mixedIndex f l c) := by
  induction f generalizing l c with
  | nil => intro acc h _; cases l <;> cases c <;> simp_all [InBox, rangeIndexLoop, boxCount, mixedIndex]
  | cons a f ih =>
    intro acc h hcap
    cases l with
    | nil => cases c <;> simp [InBox] at h
    | cons b l =>
      cases c with
      | nil => simp [InBox] at h
      | cons x c =>
        simp only [InBox] at h
        simp only [boxCount, mixedIndex] at hcap ⊢
        have hpos := boxCount_pos f l
        have e : acc * ((b - a + 1) * boxCount f l) + ((x - a) * boxCount f l + mixedIndex f l c) =
            (acc * (b - a + 1) + (x - a)) * boxCount f l + mixedIndex f l c := by
          generalize boxCount f l = B
          generalize (b - a + 1) = sp
          generalize (x - a) = o
          generalize mixedIndex f l c = m
          rw [Nat.add_mul (acc * sp) o B, Nat.mul_assoc, Nat.add_assoc]
        have hle : acc * (b - a + 1) + (x - a) ≤ maxInt32 := by
          have : acc * (b - a + 1) + (x - a) ≤ (acc * (b - a + 1) + (x - a)) * boxCount f l :=
            Nat.le_mul_of_pos_right _ hpos
          omega
        have h1 : ¬ (x < a ∨ x > b) := by omega
        simp only [rangeIndexLoop, Bool.or_eq_true, decide_eq_true_eq, h1, if_false]
        have h2 : ¬ (acc * (b - a + 1) + (x - a) > maxInt32) := by omega
        simp only [h2, if_false]
        rw [ih l c _ h.2.2 (by omega), e]

theorem boxValid_of_rangeIsValid (f l : Bytes) (h : rangeIsValid f l = true) : BoxValid f l ∧ f ≠ [] := by
  unfold rangeIsValid at h
  split at h
  · cases h
  · rename_i hc
    simp only [bne_iff_ne, ne_eq, beq_iff_eq, Bool.or_eq_true, not_or, Decidable.not_not] at hc
    refine ⟨?_, by intro h0; subst h0; simp at hc⟩
    have hlen := hc.1
    clear hc
    induction f generalizing l with
    | nil => cases l <;> simp_all [BoxValid]
    | cons a f ih =>
      cases l with
      | nil => simp at hlen
      | cons b l =>
        simp only [leAll, Bool.and_eq_true, Bool.not_eq_true', decide_eq_false_iff_not] at h
        simp only [BoxValid]
        exact ⟨by omega, ih l h.2 (by simpa using hlen)⟩

/-- **`rangeIndex` is the mixed-radix position** (and fails exactly outside the box or beyond
`math.MaxInt32`). -/
theorem rangeIndex_iff (f l c : Bytes) (hc : c ≠ []) (i : Nat) :
    rangeIndex f l c = some i ↔ InBox f l c ∧ mixedIndex f l c = i ∧ i ≤ maxInt32 := by
  unfold rangeIndex
  constructor
  · intro h
    split at h
    · cases h
    · rename_i hl
      simp only [bne_iff_ne, ne_eq, Bool.or_eq_true, not_or, Decidable.not_not] at hl
      have := rangeIndexLoop_some f l c 0 i hl.1 hl.2 h
      exact ⟨this.1, by omega, this.2.2 hc⟩
  · intro ⟨h1, h2, h3⟩
    have hl := inBox_len f l c h1
    have : ¬ ((f.length != c.length || l.length != c.length) = true) := by simp [hl.1, hl.2]
    simp only [this]
    have := rangeIndexLoop_of_inBox f l c 0 h1 (by omega)
    rw [this]; simp [h2]

/-- **`rangeIndex_enum`.**  `codesInRange(first,last)` yields, at position `j`, the index `j`
and a code of the box whose `rangeIndex` is `j`: enumeration order and lookup position agree. -/
theorem rangeIndex_enum (first last : Bytes) (n j : Nat) (p : Nat × Bytes)
    (h : (codesInRange first last n)[j]? = some p) :
    p.1 = j ∧ InBox first last p.2 ∧ (j ≤ maxInt32 → rangeIndex first last p.2 = some j) := by
  unfold codesInRange at h
  split at h
  · simp at h
  · rename_i hv
    have hv' : rangeIsValid first last = true := by simpa using hv
    obtain ⟨hbv, hne⟩ := boxValid_of_rangeIsValid first last hv'
    have := codesFrom_spec first last n 0 first (inBox_first first last hbv) (mixedIndex_first first last) j p h
    refine ⟨by omega, this.2.1, ?_⟩
    intro hj
    have hlen := inBox_len first last p.2 this.2.1
    have hpne : p.2 ≠ [] := by
      intro h0; rw [h0] at hlen; simp at hlen; exact hne hlen.1
    rw [rangeIndex_iff first last p.2 hpne]
    exact ⟨this.2.1, by omega, hj⟩

/-- **Completeness of the enumeration.**  Every code of the box appears, at its mixed-radix
position (as far as the enumeration is allowed to run): `codesInRange` and `rangeIndex` are
inverse bijections between the box and `0 … boxCount-1`. -/
theorem codesInRange_complete (first last c : Bytes) (n : Nat) (hv : rangeIsValid first last = true)
    (hc : InBox first last c) (hn : mixedIndex first last c < n) :
    (codesInRange first last n)[mixedIndex first last c]? = some (mixedIndex first last c, c) := by
  obtain ⟨hbv, _⟩ := boxValid_of_rangeIsValid first last hv
  have hlen := codesFrom_length first last n 0 first (inBox_first first last hbv) (mixedIndex_first first last)
  have hlt := mixedIndex_lt first last c hc
  unfold codesInRange
  simp only [hv, Bool.not_true, Bool.false_eq_true, if_false]
  have hj : mixedIndex first last c < (codesFrom first last n 0 first).length := by rw [hlen]; omega
  obtain ⟨p, hp⟩ : ∃ p, (codesFrom first last n 0 first)[mixedIndex first last c]? = some p :=
    ⟨_, List.getElem?_eq_getElem hj⟩
  have := codesFrom_spec first last n 0 first (inBox_first first last hbv) (mixedIndex_first first last) _ p hp
  rw [hp]
  obtain ⟨p1, p2⟩ := p
  simp only at this
  have e := mixedIndex_inj first last p2 c this.2.1 hc (by omega)
  simp [this.1, e]

/-- the number of codes enumerated -/
theorem codesInRange_length (first last : Bytes) (n : Nat) (hv : rangeIsValid first last = true) :
    (codesInRange first last n).length = min n (boxCount first last) := by
  obtain ⟨hbv, _⟩ := boxValid_of_rangeIsValid first last hv
  unfold codesInRange
  simp only [hv, Bool.not_true, Bool.false_eq_true, if_false]
  rw [codesFrom_length first last n 0 first (inBox_first first last hbv) (mixedIndex_first first last)]
  simp

/-- non-vacuity: the box `<00 fe>`–`<01 01>` is invalid (`fe > 01`), `<10 fe>`–`<11 ff>` has four codes -/
example : codesInRange [0x10, 0xfe] [0x11, 0xff] 10 =
    [(0, [0x10, 0xfe]), (1, [0x10, 0xff]), (2, [0x11, 0xfe]), (3, [0x11, 0xff])] := by decide +kernel
example : rangeIndex [0x10, 0xfe] [0x11, 0xff] [0x11, 0xfe] = some 2 := by decide +kernel

end PdfVerif.C13cc

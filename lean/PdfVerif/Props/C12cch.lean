import PdfVerif.Props.C12ccg
/-!
# C12 (part 8) — `Codec.CodeSpaceRange` never panics

The boxes found by `walk` are pairwise disjoint and non-empty, merging keeps that; hence the
merge loop never meets two identical ranges (the only way its `pos` loop could run off the end),
never indexes out of range and terminates.  Together with part 6: `CodeSpaceRange` always
returns, and reports exactly the codes of the original range set.
-/
namespace PdfVerif.C12cch
open PdfVerif PdfVerif.CC PdfVerif.C12cc PdfVerif.C12ccb PdfVerif.C12ccc PdfVerif.C12ccd PdfVerif.C12cce PdfVerif.C12ccf
open PdfVerif.Spec.CodeSpace

/-! ## the boxes found by `walk` are pairwise disjoint -/

def BDisjoint (b1 b2 : Bytes × Bytes) : Prop := ∀ bs, ¬ (BoxMatch b1 bs ∧ BoxMatch b2 bs)

theorem bdisjoint_cons (l h : Nat) (b1 b2 : Bytes × Bytes) (hd : BDisjoint b1 b2) :
    BDisjoint (l :: b1.1, h :: b1.2) (l :: b2.1, h :: b2.2) := by
  intro bs ⟨m1, m2⟩
  cases bs with
  | nil => simp [BoxMatch] at m1
  | cons x t =>
    simp only [BoxMatch] at m1 m2
    exact hd t ⟨m1.2.2, m2.2.2⟩

mutual
theorem nodeBoxes_pairwise (n : Node) (hs : nodeSorted n) : List.Pairwise BDisjoint (nodeBoxes n) := by
  match n with
  | .valid => simp [nodeBoxes]
  | .invalid k => simp [nodeBoxes]
  | .sub cs => simp only [nodeSorted] at hs; simp only [nodeBoxes]; exact kidsBoxes_pairwise 0 cs hs
theorem kidsBoxes_pairwise (nl : Nat) (cs : List (Nat × Node)) (hs : kidsSorted nl cs) :
    List.Pairwise BDisjoint (kidsBoxes nl cs) := by
  match cs with
  | [] => simp [kidsBoxes]
  | (hi, n) :: rest =>
    simp only [kidsSorted] at hs
    simp only [kidsBoxes]
    rw [List.pairwise_append]
    refine ⟨?_, kidsBoxes_pairwise (hi + 1) rest hs.2.2.2, ?_⟩
    · rw [List.pairwise_map]
      exact (nodeBoxes_pairwise n hs.2.2.1).imp (fun {a b} h => bdisjoint_cons nl hi a b h)
    · intro a ha b hb
      simp only [List.mem_map] at ha
      obtain ⟨a', _, rfl⟩ := ha
      obtain ⟨l, lo, h1, h2⟩ := kidsBoxes_low (hi + 1) rest hs.2.2.2 b hb
      intro bs ⟨m1, m2⟩
      obtain ⟨b1, b2⟩ := b
      simp only at h1; subst h1
      cases bs with
      | nil => simp [BoxMatch] at m1
      | cons x t =>
        cases b2 with
        | nil => simp [BoxMatch] at m2
        | cons hh b2 =>
          simp only [BoxMatch] at m1 m2
          omega
end

/-! ## the merge loop never panics -/

def RDisjoint (r s : Range) : Prop := BDisjoint (r.low, r.high) (s.low, s.high)

/-- ranges at different positions are disjoint -/
def PosDisjoint (csr : CSR) : Prop :=
  ∀ (a b : Nat) (ra rb : Range), a ≠ b → csr[a]? = some ra → csr[b]? = some rb → RDisjoint ra rb

theorem shape_nonempty (r : Range) (h : Shape r) : BoxMatch (r.low, r.high) r.low := by
  obtain ⟨h1, h2⟩ := h
  generalize r.low = lo at *
  generalize r.high = hi at *
  induction lo generalizing hi with
  | nil => cases hi with
    | nil => simp [BoxMatch]
    | cons _ _ => simp at h1
  | cons a lo ih =>
    cases hi with
    | nil => simp at h1
    | cons b hi =>
      simp only [leAll, Bool.and_eq_true, Bool.not_eq_true', decide_eq_false_iff_not, Nat.not_lt] at h2
      simp only [BoxMatch]
      exact ⟨Nat.le_refl _, h2.1, ih hi (by simpa using h1) h2.2⟩

theorem diffPos_none (rl rh sl sh : Bytes) (h1 : rl.length = rh.length) (h2 : rl.length = sl.length)
    (h3 : rl.length = sh.length) (h : diffPos rl rh sl sh = none) : rl = sl ∧ rh = sh := by
  induction rl generalizing rh sl sh with
  | nil =>
    have a := List.length_eq_zero_iff.mp h1.symm
    have b := List.length_eq_zero_iff.mp h2.symm
    have c := List.length_eq_zero_iff.mp h3.symm
    subst a b c; exact ⟨rfl, rfl⟩
  | cons a rl ih =>
    cases rh with
    | nil => simp at h1
    | cons b rh =>
      cases sl with
      | nil => simp at h2
      | cons c sl =>
        cases sh with
        | nil => simp at h3
        | cons d sh =>
          simp only [diffPos] at h
          split at h
          · rename_i heq
            simp only [Bool.and_eq_true, beq_iff_eq] at heq
            simp only [Option.map_eq_none_iff] at h
            have := ih rh sl sh (by simpa using h1) (by simpa using h2) (by simpa using h3) h
            rw [heq.1, heq.2, this.1, this.2]; exact ⟨rfl, rfl⟩
          · cases h

theorem candidates_ok (csr : CSR) (hsh : ∀ r ∈ csr, Shape r) (hd : PosDisjoint csr) :
    ∃ cands, candidates csr = .ok cands := by
  unfold candidates
  apply mapE_ok
  intro p hp
  simp only [List.mem_filter, List.mem_flatMap, List.mem_map, Bool.and_eq_true, bne_iff_ne, ne_eq] at hp
  obtain ⟨⟨a, ha, b, hb, rfl⟩, hne, hcm⟩ := hp
  obtain ⟨ai, ar⟩ := a
  obtain ⟨bi, br⟩ := b
  simp only at hne hcm ⊢
  have ga := zip_range_mem csr ai ar ha
  have gb := zip_range_mem csr bi br hb
  cases hdp : diffPos ar.low ar.high br.low br.high with
  | some pos => exact ⟨_, rfl⟩
  | none =>
    exfalso
    have sa := hsh ar (List.mem_of_getElem? ga)
    have sb := hsh br (List.mem_of_getElem? gb)
    have hl : ar.low.length = br.low.length := by
      unfold canMerge at hcm
      split at hcm
      · cases hcm
      · rename_i hl; simpa using hl
    obtain ⟨e1, e2⟩ := diffPos_none ar.low ar.high br.low br.high sa.1 hl (by rw [hl]; exact sb.1) hdp
    have := hd ai bi ar br hne ga gb
    apply this ar.low
    refine ⟨shape_nonempty ar sa, ?_⟩
    rw [← e1, ← e2]
    exact shape_nonempty ar sa

theorem getElem_opt_set_erase (l : List Range) (i j a : Nat) (m : Range) (hi : i < l.length) :
    ((l.set i m).eraseIdx j)[a]? =
      if i = (if a < j then a else a + 1) then some m else l[if a < j then a else a + 1]? := by
  rw [List.getElem?_eraseIdx]
  split
  · rw [List.getElem?_set]
    split
    · simp [hi]
    · rfl
  · rw [List.getElem?_set]
    split
    · simp [hi]
    · rfl

theorem isCode_boxMatch_merge (ri rj : Range) (hri : Shape ri) (hrj : Shape rj) (hcm : canMerge ri rj = true) (bs : Bytes) :
    BoxMatch (ri.low, rj.high) bs ↔ (BoxMatch (ri.low, ri.high) bs ∨ BoxMatch (rj.low, rj.high) bs) := by
  obtain ⟨msh, mcodes⟩ := merge_pair ri rj hri hrj hcm
  have := mcodes bs
  rw [isCode_iff_boxMatch _ msh, isCode_iff_boxMatch _ hri, isCode_iff_boxMatch _ hrj] at this
  exact this

theorem posDisjoint_merge (csr : CSR) (i j : Nat) (ri rj : Range) (hi : csr[i]? = some ri) (hj : csr[j]? = some rj)
    (_hij : i ≠ j) (hsh : ∀ r ∈ csr, Shape r) (hd : PosDisjoint csr) (hcm : canMerge ri rj = true) :
    PosDisjoint ((csr.set i { ri with high := rj.high }).eraseIdx j) := by
  have hilt : i < csr.length := (List.getElem?_eq_some_iff.mp hi).1
  have hri := hsh ri (List.mem_of_getElem? hi)
  have hrj := hsh rj (List.mem_of_getElem? hj)
  intro a b ra rb hab ga gb
  rw [getElem_opt_set_erase csr i j a _ hilt] at ga
  rw [getElem_opt_set_erase csr i j b _ hilt] at gb
  have hσ : (if a < j then a else a + 1) ≠ (if b < j then b else b + 1) := by
    split <;> split <;> omega
  have hσa : (if a < j then a else a + 1) ≠ j := by split <;> omega
  have hσb : (if b < j then b else b + 1) ≠ j := by split <;> omega
  generalize (if a < j then a else a + 1) = sa at *
  generalize (if b < j then b else b + 1) = sb at *
  intro bs ⟨m1, m2⟩
  by_cases ha : i = sa
  · by_cases hb : i = sb
    · omega
    · simp only [ha, if_true, Option.some.injEq] at ga
      simp only [hb, if_false] at gb
      subst ga
      simp only at m1
      rcases (isCode_boxMatch_merge ri rj hri hrj hcm bs).mp m1 with m | m
      · exact hd i sb ri rb (by omega) hi gb bs ⟨m, m2⟩
      · exact hd j sb rj rb (by omega) hj gb bs ⟨m, m2⟩
  · by_cases hb : i = sb
    · simp only [ha, if_false] at ga
      simp only [hb, if_true, Option.some.injEq] at gb
      subst gb
      simp only at m2
      rcases (isCode_boxMatch_merge ri rj hri hrj hcm bs).mp m2 with m | m
      · exact hd sa i ra ri (by omega) ga hi bs ⟨m1, m⟩
      · exact hd sa j ra rj (by omega) ga hj bs ⟨m1, m⟩
    · simp only [ha, if_false] at ga
      simp only [hb, if_false] at gb
      exact hd sa sb ra rb hσ ga gb bs ⟨m1, m2⟩

theorem mergeLoop_total : ∀ (fuel : Nat) (csr : CSR), csr.length < fuel → (∀ r ∈ csr, Shape r) → PosDisjoint csr →
    ∃ out, mergeLoop fuel csr = .ok out := by
  intro fuel
  induction fuel with
  | zero => intro csr h; omega
  | succ fuel ih =>
    intro csr hlen hsh hd
    obtain ⟨cands, hc⟩ := candidates_ok csr hsh hd
    simp only [mergeLoop, hc]
    cases hmin : minCand cands with
    | none => exact ⟨csr, rfl⟩
    | some c =>
      obtain ⟨pos, i, j⟩ := c
      obtain ⟨ri, rj, hi, hj, hij, hcm⟩ := candidates_mem csr cands hc _ (minCand_mem _ _ hmin)
      simp only at hi hj hij
      simp only [hi, hj]
      have hilt : i < csr.length := (List.getElem?_eq_some_iff.mp hi).1
      have hjlt : j < csr.length := (List.getElem?_eq_some_iff.mp hj).1
      have hri := hsh ri (List.mem_of_getElem? hi)
      have hrj := hsh rj (List.mem_of_getElem? hj)
      obtain ⟨msh, _⟩ := merge_pair ri rj hri hrj hcm
      apply ih
      · rw [List.length_eraseIdx]
        simp only [List.length_set, hjlt, if_true]
        omega
      · intro r hr
        rcases (mem_set_erase csr i j ⟨ri.low, rj.high⟩ r hij hilt hjlt).mp hr with rfl | ⟨k, _, _, hk⟩
        · exact msh
        · exact hsh r (List.mem_of_getElem? hk)
      · exact posDisjoint_merge csr i j ri rj hi hj hij hsh hd hcm


theorem bdisjoint_symm (a b : Bytes × Bytes) (h : BDisjoint a b) : BDisjoint b a :=
  fun bs ⟨m1, m2⟩ => h bs ⟨m2, m1⟩

theorem posDisjoint_of_pairwise (l : List (Bytes × Bytes)) (h : List.Pairwise BDisjoint l) :
    PosDisjoint (l.map (toRange [] [])) := by
  intro a b ra rb hab ga gb
  simp only [List.getElem?_map, Option.map_eq_some_iff] at ga gb
  obtain ⟨ba, ha, rfl⟩ := ga
  obtain ⟨bb, hb, rfl⟩ := gb
  have hal : a < l.length := (List.getElem?_eq_some_iff.mp ha).1
  have hbl : b < l.length := (List.getElem?_eq_some_iff.mp hb).1
  have ea : l[a] = ba := (List.getElem?_eq_some_iff.mp ha).2
  have eb : l[b] = bb := (List.getElem?_eq_some_iff.mp hb).2
  rw [List.pairwise_iff_getElem] at h
  simp only [RDisjoint, toRange, List.nil_append]
  rcases Nat.lt_or_gt_of_ne hab with hlt | hgt
  · have := h a b hal hbl hlt; rw [ea, eb] at this; exact this
  · have := h b a hbl hal hgt; rw [ea, eb] at this; exact bdisjoint_symm _ _ this

/-- **`Codec.CodeSpaceRange` never panics and reports the same codes** — for every codec
`NewCodec` returns (range bounds being bytes). -/
theorem codeSpaceRange_total (csr : CSR) (c : Codec) (hC : newCodec csr = .ok c) (hbytes : ∀ r ∈ csr, AllBytes r.high) :
    ∃ out, c.codeSpaceRange = .ok out ∧ (∀ r ∈ out, Shape r) ∧ ∀ bs, IsCodeOf out bs ↔ IsCodeOf csr bs := by
  obtain ⟨hv, tree, hT⟩ := newCodec_ok csr c hC
  have hR := (linearize_repr csr tree c hT hC).1
  have hs := newTree_sorted 4 csr 0 tree hT
  have hne := kidsCover_ne_nil tree (newTree_covers 4 csr 0 tree hT)
  have hlen : tree.length ≤ c.nodes.length := by
    rcases reprOK_len c.nodes tree 0 hR with h' | h'
    · exact absurd h' hne
    · omega
  have hw := walk_kids c.nodes tree 0 hR 0 hs 5 c.nodes.length
    (Nat.le_trans (newTree_depth 4 csr 0 tree hT) (by omega)) hlen [] [] [] hne
  have hshape : ∀ r ∈ (kidsBoxes 0 tree).map (toRange [] []), Shape r := by
    intro r hr
    simp only [List.mem_map] at hr
    obtain ⟨b, hb, rfl⟩ := hr
    have := kidsBoxes_shape 0 tree hs b hb
    simpa [Shape, toRange] using this
  obtain ⟨out, hout⟩ := mergeLoop_total (((kidsBoxes 0 tree).map (toRange [] [])).length + 1) _ (by omega) hshape
    (posDisjoint_of_pairwise _ (kidsBoxes_pairwise 0 tree hs))
  have hcsr : c.codeSpaceRange = .ok out := by
    unfold Codec.codeSpaceRange
    rw [hw]
    simp only [List.nil_append]
    exact hout
  exact ⟨out, hcsr, csr_equiv csr c hC hbytes out hcsr⟩

end PdfVerif.C12cch

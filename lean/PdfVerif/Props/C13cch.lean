import PdfVerif.Props.C13ccg
/-!
# C13 (part 8) — the enumeration budget is never exhausted by a built file

The keys of the groups are pairwise different (`sortedKeys` is duplicate-free: lexicographic
order on byte strings), every group contributes exactly its size to the enumeration, hence the
file written by `SetMapping` / `NewToUnicodeFile` asks for exactly one enumeration item per map
entry.  This removes the budget hypothesis from `all_setMapping` and `tounicode_all`.
-/
namespace PdfVerif.C13cch
open PdfVerif PdfVerif.CC PdfVerif.C13cc PdfVerif.C13ccb PdfVerif.C13ccc PdfVerif.C13ccd PdfVerif.C13ccf

/-! ## the order on keys -/

theorem bytesLt_irrefl (a : Bytes) : bytesLt a a = false := by
  induction a with
  | nil => rfl
  | cons x a ih => simp [bytesLt, ih]

theorem bytesLt_trans (a b c : Bytes) (h1 : bytesLt a b = true) (h2 : bytesLt b c = true) : bytesLt a c = true := by
  induction a generalizing b c with
  | nil =>
    cases b with
    | nil => simp [bytesLt] at h1
    | cons y b => cases c with
      | nil => simp [bytesLt] at h2
      | cons z c => simp [bytesLt]
  | cons x a ih =>
    cases b with
    | nil => simp [bytesLt] at h1
    | cons y b =>
      cases c with
      | nil => simp [bytesLt] at h2
      | cons z c =>
        simp only [bytesLt] at h1 h2 ⊢
        by_cases hxy : x < y
        · by_cases hyz : y < z
          · have : x < z := by omega
            simp [this]
          · simp only [hyz, if_false] at h2
            by_cases hzy : z < y
            · simp [hzy] at h2
            · have : x < z := by omega
              simp [this]
        · simp only [hxy, if_false] at h1
          by_cases hyx : y < x
          · simp [hyx] at h1
          · simp only [hyx, if_false] at h1
            have hxy' : x = y := by omega
            subst hxy'
            by_cases hxz : x < z
            · simp [hxz]
            · simp only [hxz, if_false] at h2 ⊢
              by_cases hzx : z < x
              · simp [hzx] at h2
              · simp only [hzx, if_false] at h2 ⊢
                exact ih b c h1 h2

theorem bytesLt_tri (a b : Bytes) (h1 : bytesLt a b = false) (h2 : bytesLt b a = false) : a = b := by
  induction a generalizing b with
  | nil => cases b with
    | nil => rfl
    | cons y b => simp [bytesLt] at h1
  | cons x a ih =>
    cases b with
    | nil => simp [bytesLt] at h2
    | cons y b =>
      simp only [bytesLt] at h1 h2
      by_cases hxy : x < y
      · simp [hxy] at h1
      · by_cases hyx : y < x
        · simp [hyx] at h2
        · simp only [hxy, hyx, if_false] at h1 h2
          have : x = y := by omega
          subst this
          rw [ih b h1 h2]

def leB (a b : Bytes) : Prop := bytesLt b a = false

theorem sortedB_insertBy (a : Bytes) (l : List Bytes) (h : List.Pairwise leB l) :
    List.Pairwise leB (insertBy bytesLt a l) := by
  induction l with
  | nil => simp [insertBy]
  | cons b l ih =>
    have hb := List.pairwise_cons.mp h
    simp only [insertBy]
    split
    · rename_i hlt
      refine List.pairwise_cons.mpr ⟨?_, h⟩
      intro x hx
      simp only [leB]
      cases hxa : bytesLt x a with
      | false => rfl
      | true =>
        have hxb := bytesLt_trans x a b hxa hlt
        rcases List.mem_cons.mp hx with rfl | hx
        · rw [bytesLt_irrefl] at hxb; cases hxb
        · have := hb.1 x hx; simp only [leB] at this; rw [this] at hxb; cases hxb
    · rename_i hlt
      have hlt' : bytesLt a b = false := by simpa using hlt
      refine List.pairwise_cons.mpr ⟨?_, ih hb.2⟩
      intro x hx
      rcases (mem_insertBy _ _ _ _).mp hx with rfl | hx
      · exact hlt'
      · exact hb.1 x hx

theorem sortedB_sortBy (l : List Bytes) : List.Pairwise leB (sortBy bytesLt l) := by
  induction l with
  | nil => simp [sortBy]
  | cons a l ih => exact sortedB_insertBy a _ ih

theorem dedupSorted_sub (l : List Bytes) : ∀ x ∈ dedupSorted l, x ∈ l := fun x hx => (mem_dedupSorted x l).mp hx

theorem nodup_dedupSorted : ∀ (l : List Bytes), List.Pairwise leB l → (dedupSorted l).Nodup
  | [], _ => by simp [dedupSorted]
  | [b], _ => by simp [dedupSorted]
  | a :: b :: rest, h => by
    have ha := List.pairwise_cons.mp h
    have ih := nodup_dedupSorted (b :: rest) ha.2
    simp only [dedupSorted]
    split
    · exact ih
    · rename_i hne
      have hne' : a ≠ b := by simpa using hne
      refine List.nodup_cons.mpr ⟨?_, ih⟩
      intro hmem
      have hx := dedupSorted_sub _ a hmem
      -- a ≤ b ≤ a  ⇒ a = b
      have h1 : leB a b := ha.1 b (by simp)
      have h2 : leB b a := by
        rcases List.mem_cons.mp hx with rfl | hx'
        · exact absurd rfl hne'
        · exact (List.pairwise_cons.mp ha.2).1 a hx'
      exact hne' (bytesLt_tri a b h2 h1)

theorem nodup_sortedKeys {α : Type} (es : List (Entry α)) : (sortedKeys es).Nodup :=
  nodup_dedupSorted _ (sortedB_sortBy _)

/-! ## counting the items `SetMapping` writes -/

def itemSize : Sum Single CRange → Nat
  | .inl _ => 1
  | .inr r => rangeCount r.first r.last

def totalSize : List (Sum Single CRange) → Nat
  | [] => 0
  | it :: rest => itemSize it + totalSize rest

theorem totalSize_append (a b : List (Sum Single CRange)) : totalSize (a ++ b) = totalSize a + totalSize b := by
  induction a with
  | nil => simp [totalSize]
  | cons x a ih => simp [totalSize, ih]; omega

theorem demand_eq_totalSize (l : List (Sum Single CRange)) :
    rangesDemand (rights l) + (lefts l).length = totalSize l := by
  induction l with
  | nil => rfl
  | cons x l ih =>
    cases x with
    | inl s => simp only [rights, lefts, List.length_cons, totalSize, itemSize]; omega
    | inr r => simp only [rights, lefts, rangesDemand, totalSize, itemSize]; omega

theorem boxCount_append (key : Bytes) (x1 x2 : Nat) : boxCount (key ++ [x1]) (key ++ [x2]) = x2 - x1 + 1 := by
  induction key with
  | nil => simp [boxCount]
  | cons k key ih => simp [boxCount, ih]

theorem rangeCount_append (key : Bytes) (x1 x2 : Nat) (h : x1 ≤ x2) : rangeCount (key ++ [x1]) (key ++ [x2]) = x2 - x1 + 1 := by
  have hv : rangeIsValid (key ++ [x1]) (key ++ [x2]) = true := by
    apply rangeIsValid_of_boxValid
    · induction key with
      | nil => simp [BoxValid, h]
      | cons k key ih => simp [BoxValid, ih]
    · simp
  simp [rangeCount, hv, boxCount_append]

theorem cidRuns_size (key : Bytes) : ∀ (rest : List (Entry Nat)) (start prev : Entry Nat) (len : Nat),
    1 ≤ len → prev.x = start.x + (len - 1) → prev.x < 256 → (∀ e ∈ rest, e.x < 256 ∧ prev.x ≤ e.x) →
    List.Pairwise (fun a b : Entry Nat => a.x ≤ b.x) rest →
    totalSize (cidRuns key start prev len rest) = len + rest.length := by
  intro rest
  induction rest with
  | nil =>
    intro start prev len hlen hpx _ _ _
    simp only [cidRuns, totalSize, List.length_nil]
    split
    · simp only [itemSize]; rw [rangeCount_append key _ _ (by omega)]; omega
    · simp only [itemSize]; omega
  | cons e rest ih =>
    intro start prev len hlen hpx hp256 hrest hsorted
    have he := hrest e (by simp)
    have hsorted' := List.pairwise_cons.mp hsorted
    simp only [cidRuns]
    split
    · simp only [totalSize]
      rw [ih e e 1 (by omega) (by simp) he.1 (fun e' he' => ⟨(hrest e' (by simp [he'])).1, hsorted'.1 e' he'⟩) hsorted'.2]
      simp only [List.length_cons]
      split
      · simp only [itemSize]; rw [rangeCount_append key _ _ (by omega)]; omega
      · simp only [itemSize]; omega
    · rename_i hcont
      simp only [bne_iff_ne, ne_eq, Bool.or_eq_true, not_or, Decidable.not_not] at hcont
      have hx' : e.x = prev.x + 1 := by
        by_cases h255 : prev.x = 255
        · rw [h255] at hcont; simp at hcont; omega
        · rw [hcont.1]; apply Nat.mod_eq_of_lt; omega
      rw [ih start e (len + 1) (by omega) (by omega) he.1
        (fun e' he' => ⟨(hrest e' (by simp [he'])).1, hsorted'.1 e' he'⟩) hsorted'.2]
      simp only [List.length_cons]; omega

theorem length_insertBy {α : Type} (lt : α → α → Bool) (a : α) (l : List α) : (insertBy lt a l).length = l.length + 1 := by
  induction l with
  | nil => rfl
  | cons b l ih => simp only [insertBy]; split <;> simp [ih]

theorem length_sortBy {α : Type} (lt : α → α → Bool) (l : List α) : (sortBy lt l).length = l.length := by
  induction l with
  | nil => rfl
  | cons a l ih => simp [sortBy, length_insertBy, ih]

theorem group_size (es : List (Entry Nat)) (hes : EntriesOK es) (k : Bytes) :
    totalSize (cidRunsOfGroup k (groupOf es k)) = (es.filter fun e => e.key == k).length := by
  have hlen : (groupOf es k).length = (es.filter fun e => e.key == k).length := by simp [groupOf, length_sortBy]
  rcases group_cases es k hes with hG | ⟨e0, rest, hG, h1, h2, h3⟩
  · rw [hG] at hlen; simp [hG, cidRunsOfGroup, totalSize, ← hlen]
  · rw [hG] at hlen
    rw [hG]
    simp only [cidRunsOfGroup]
    rw [cidRuns_size k rest e0 e0 1 (by omega) (by simp) (h3 e0 (by simp)).2.2.1
      (fun e he => ⟨(h3 e (by simp [he])).2.2.1, h1 e he⟩) h2]
    simp only [List.length_cons] at hlen; omega

theorem sum_zero_of_all (l : List Nat) (h : ∀ x ∈ l, x = 0) : l.sum = 0 := by
  induction l with
  | nil => rfl
  | cons a l ih =>
    simp only [List.sum_cons]
    rw [h a (by simp), ih (fun x hx => h x (by simp [hx]))]

theorem sum_map_add (f g : Bytes → Nat) (l : List Bytes) :
    (l.map fun k => f k + g k).sum = (l.map f).sum + (l.map g).sum := by
  induction l with
  | nil => simp
  | cons a l ihl => simp only [List.map_cons, List.sum_cons, ihl]; omega

theorem sum_indicator (key : Bytes) : ∀ (ks : List Bytes), ks.Nodup → key ∈ ks →
    (ks.map fun k => if key = k then 1 else 0).sum = 1 := by
  intro ks
  induction ks with
  | nil => intro _ h; simp at h
  | cons k ks ihk =>
    intro hnd hmem
    have hnd' := List.nodup_cons.mp hnd
    simp only [List.map_cons, List.sum_cons]
    by_cases hk : key = k
    · subst hk
      have : (ks.map fun k => if key = k then 1 else 0).sum = 0 := by
        apply sum_zero_of_all
        intro x hx
        simp only [List.mem_map] at hx
        obtain ⟨k', hk', rfl⟩ := hx
        have : key ≠ k' := fun h => hnd'.1 (h ▸ hk')
        simp [this]
      rw [this]; simp
    · have hmem' : key ∈ ks := by
        rcases List.mem_cons.mp hmem with h | h
        · exact absurd h hk
        · exact h
      rw [ihk hnd'.2 hmem']; simp [hk]

theorem sum_filter_keys (es : List (Entry Nat)) : ∀ (ks : List Bytes), ks.Nodup → (∀ e ∈ es, e.key ∈ ks) →
    (ks.map fun k => (es.filter fun e => e.key == k).length).sum = es.length := by
  induction es with
  | nil =>
    intro ks _ _
    simp only [List.filter_nil, List.length_nil]
    apply sum_zero_of_all
    intro x hx
    simp only [List.mem_map] at hx
    obtain ⟨_, _, rfl⟩ := hx
    rfl
  | cons e es ih =>
    intro ks hnd hall
    have ihh := ih ks hnd (fun e' he' => hall e' (by simp [he']))
    have hek := hall e (by simp)
    have hsplit : (ks.map fun k => ((e :: es).filter fun e' => e'.key == k).length) =
        (ks.map fun k => (if e.key = k then 1 else 0) + (es.filter fun e' => e'.key == k).length) := by
      apply List.map_congr_left
      intro k _
      simp only [List.filter_cons]
      by_cases hk : e.key = k
      · simp [hk]; omega
      · simp [hk]
    rw [hsplit, sum_map_add, sum_indicator e.key ks hnd hek, ihh]
    simp only [List.length_cons]; omega

/-- **The file `SetMapping` writes asks for exactly one enumeration item per entry**: its budget
demand is the number of entries (no code is covered twice by the counting of the budget). -/
theorem outOf_demand (es : List (Entry Nat)) (hes : EntriesOK es) :
    rangesDemand (rights (outOf es)) + (lefts (outOf es)).length = es.length := by
  rw [demand_eq_totalSize]
  have hflat : ∀ (ks : List Bytes), totalSize (ks.flatMap fun key => cidRunsOfGroup key (groupOf es key)) =
      (ks.map fun k => (es.filter fun e => e.key == k).length).sum := by
    intro ks
    induction ks with
    | nil => simp [totalSize]
    | cons k ks ih => simp only [List.flatMap_cons, totalSize_append, ih, group_size es hes k, List.map_cons, List.sum_cons]
  simp only [outOf]
  rw [hflat, sum_filter_keys es (sortedKeys es) (nodup_sortedKeys es)
    (fun e he => (mem_sortedKeys es e.key).mpr ⟨e, he, rfl⟩)]


theorem cidEntries_length (codec : Codec) : ∀ (data : List (Nat × Nat)) (es : List (Entry Nat)),
    cidEntries codec [] data = .ok es → es.length = data.length := by
  intro data
  induction data with
  | nil => intro es h; simp [cidEntries] at h; subst h; rfl
  | cons p data ih =>
    intro es h
    obtain ⟨code, cid⟩ := p
    simp only [cidEntries] at h
    split at h
    · cases h
    · split at h
      · cases h
      · rename_i es' hes'
        simp only [List.isEmpty_nil, Bool.not_true, Bool.false_and, Bool.false_eq_true, if_false] at h
        split at h
        · cases h
        · injection h with h; subst h
          simp [ih es' hes']

/-- **`all_setMapping` without a hypothesis on the built file:** for a map with at most
`MaxCMapMappings` (2^20) entries the enumeration budget is never exhausted, and `File.All` yields
exactly the pairs of the map whose code is valid for the codec. -/
theorem all_setMapping_total (csr : CSR) (f f' : CMapFile) (codec : Codec) (data : List (Nat × Nat))
    (hc : newCodec csr = .ok codec)
    (h : setMapping f [] codec data = .ok f')
    (hcid : ∀ p ∈ data, p.2 < 4294967296)
    (hlen : data.length ≤ Gen.limits_MaxCMapMappings) :
    ∃ out, cmapAll [f'] codec = .ok out ∧
      ∀ code v, (code, v) ∈ out ↔
        ∃ p ∈ data, p.2 = v ∧ ∃ bs, codec.appendCode p.1 = .ok bs ∧ codec.decode bs = .ok (code, bs.length, true) := by
  apply all_setMapping csr f f' codec data hc h hcid
  have h' := h
  unfold setMapping at h'
  split at h'
  · cases h'
  · split at h'
    · cases h'
    · rename_i es hes
      injection h' with h'
      have hs : f'.singles = lefts (outOf es) := by rw [← h']; rfl
      have hr : f'.ranges = rights (outOf es) := by rw [← h']; rfl
      obtain ⟨i1, _⟩ := cidEntries_spec codec data es hes
      have hok : EntriesOK es := by
        intro e he
        obtain ⟨p, hp, h1, h2⟩ := i1 e he
        obtain ⟨bs', _, h3, _, _, h4, _⟩ := C12ccd.append_then_decode csr codec hc p.1
        rw [h1] at h3; injection h3 with h3
        exact ⟨h4 e.x (by rw [← h3]; simp), by rw [h2]; exact hcid p hp⟩
      rw [hs, hr, outOf_demand es hok, cidEntries_length codec data es hes]
      exact hlen


/-! ## the same counting for `NewToUnicodeFile` -/

def tuItemSize : Sum TUSingle TURange → Nat
  | .inl _ => 1
  | .inr r => if r.values.isEmpty then 0 else rangeCount r.first r.last

def tuTotalSize : List (Sum TUSingle TURange) → Nat
  | [] => 0
  | it :: rest => tuItemSize it + tuTotalSize rest

theorem tuTotalSize_append (a b : List (Sum TUSingle TURange)) : tuTotalSize (a ++ b) = tuTotalSize a + tuTotalSize b := by
  induction a with
  | nil => simp [tuTotalSize]
  | cons x a ih => simp [tuTotalSize, ih]; omega

theorem tuDemand_eq_totalSize (l : List (Sum TUSingle TURange)) :
    tuRangesDemand (rights l) + (lefts l).length = tuTotalSize l := by
  induction l with
  | nil => rfl
  | cons x l ih =>
    cases x with
    | inl s => simp only [rights, lefts, List.length_cons, tuTotalSize, tuItemSize]; omega
    | inr r => simp only [rights, lefts, tuRangesDemand, tuTotalSize, tuItemSize]; omega

theorem tuEmit_size (key : Bytes) (start : Entry Text) (lastX : Nat) (more : List Text)
    (hlast : lastX = start.x + more.length) : tuItemSize (tuEmit key start lastX more) = more.length + 1 := by
  unfold tuEmit
  cases more with
  | nil => simp [tuItemSize]
  | cons m more =>
    simp only [tuItemSize]
    have hne : ∀ (b : Bool), (if b = true then start.val :: m :: more else [start.val]).isEmpty = false := by
      intro b; cases b <;> simp
    simp only [hne, Bool.false_eq_true, if_false]
    rw [rangeCount_append key _ _ (by omega)]
    omega

theorem tuRuns_size (key : Bytes) : ∀ (rest : List (Entry Text)) (start : Entry Text) (prevX : Nat) (moreRev : List Text),
    prevX = start.x + moreRev.length → prevX < 256 → (∀ e ∈ rest, e.x < 256 ∧ prevX ≤ e.x) →
    List.Pairwise (fun a b : Entry Text => a.x ≤ b.x) rest →
    tuTotalSize (tuRuns key start prevX moreRev rest) = moreRev.length + 1 + rest.length := by
  intro rest
  induction rest with
  | nil =>
    intro start prevX moreRev hpx _ _ _
    simp only [tuRuns, tuTotalSize, List.length_nil]
    rw [tuEmit_size key start prevX _ (by simpa using hpx)]
    simp
  | cons e rest ih =>
    intro start prevX moreRev hpx hp256 hrest hsorted
    have he := hrest e (by simp)
    have hsorted' := List.pairwise_cons.mp hsorted
    simp only [tuRuns]
    split
    · simp only [tuTotalSize]
      rw [tuEmit_size key start prevX _ (by simpa using hpx)]
      rw [ih e e.x [] (by simp) he.1 (fun e' he' => ⟨(hrest e' (by simp [he'])).1, hsorted'.1 e' he'⟩) hsorted'.2]
      simp only [List.length_reverse, List.length_nil, List.length_cons]; omega
    · rename_i hcont
      simp only [bne_iff_ne, ne_eq, Decidable.not_not] at hcont
      have hx' : e.x = prevX + 1 := by
        by_cases h255 : prevX = 255
        · rw [h255] at hcont; simp at hcont; omega
        · rw [hcont]; apply Nat.mod_eq_of_lt; omega
      rw [ih start e.x (e.val :: moreRev) (by simp; omega) he.1
        (fun e' he' => ⟨(hrest e' (by simp [he'])).1, hsorted'.1 e' he'⟩) hsorted'.2]
      simp only [List.length_cons]; omega

theorem tu_group_size (es : List (Entry Text)) (hes : ∀ e ∈ es, e.x < 256) (k : Bytes) :
    tuTotalSize (tuRunsOfGroup k (groupOf es k)) = (es.filter fun e => e.key == k).length := by
  have hlen : (groupOf es k).length = (es.filter fun e => e.key == k).length := by simp [groupOf, length_sortBy]
  rcases group_casesT es k hes with hG | ⟨e0, rest, hG, h1, h2, h3⟩
  · rw [hG] at hlen; simp [hG, tuRunsOfGroup, tuTotalSize, ← hlen]
  · rw [hG] at hlen
    rw [hG]
    simp only [tuRunsOfGroup]
    rw [tuRuns_size k rest e0 e0.x [] (by simp) (h3 e0 (by simp)).2.2
      (fun e he => ⟨(h3 e (by simp [he])).2.2, h1 e he⟩) h2]
    simp only [List.length_cons, List.length_nil] at hlen ⊢; omega

theorem sum_filter_keysT (es : List (Entry Text)) : ∀ (ks : List Bytes), ks.Nodup → (∀ e ∈ es, e.key ∈ ks) →
    (ks.map fun k => (es.filter fun e => e.key == k).length).sum = es.length := by
  induction es with
  | nil =>
    intro ks _ _
    simp only [List.filter_nil, List.length_nil]
    apply sum_zero_of_all
    intro x hx
    simp only [List.mem_map] at hx
    obtain ⟨_, _, rfl⟩ := hx
    rfl
  | cons e es ih =>
    intro ks hnd hall
    have ihh := ih ks hnd (fun e' he' => hall e' (by simp [he']))
    have hek := hall e (by simp)
    have hsplit : (ks.map fun k => ((e :: es).filter fun e' => e'.key == k).length) =
        (ks.map fun k => (if e.key = k then 1 else 0) + (es.filter fun e' => e'.key == k).length) := by
      apply List.map_congr_left
      intro k _
      simp only [List.filter_cons]
      by_cases hk : e.key = k
      · simp [hk]; omega
      · simp [hk]
    rw [hsplit, sum_map_add, sum_indicator e.key ks hnd hek, ihh]
    simp only [List.length_cons]; omega

theorem tuOutOf_demand (es : List (Entry Text)) (hes : ∀ e ∈ es, e.x < 256) :
    tuRangesDemand (rights (tuOutOf es)) + (lefts (tuOutOf es)).length = es.length := by
  rw [tuDemand_eq_totalSize]
  have hflat : ∀ (ks : List Bytes), tuTotalSize (ks.flatMap fun key => tuRunsOfGroup key (groupOf es key)) =
      (ks.map fun k => (es.filter fun e => e.key == k).length).sum := by
    intro ks
    induction ks with
    | nil => simp [tuTotalSize]
    | cons k ks ih => simp only [List.flatMap_cons, tuTotalSize_append, ih, tu_group_size es hes k, List.map_cons, List.sum_cons]
  simp only [tuOutOf]
  rw [hflat, sum_filter_keysT es (sortedKeys es) (nodup_sortedKeys es)
    (fun e he => (mem_sortedKeysT es e.key).mpr ⟨e, he, rfl⟩)]

theorem tuEntries_length (codec : Codec) : ∀ (data : List (Nat × Text)) (es : List (Entry Text)),
    tuEntries codec data = .ok es → es.length = data.length := by
  intro data
  induction data with
  | nil => intro es h; simp [tuEntries] at h; subst h; rfl
  | cons p data ih =>
    intro es h
    obtain ⟨code, t⟩ := p
    simp only [tuEntries] at h
    split at h
    · cases h
    · split at h
      · cases h
      · rename_i es' hes'
        split at h
        · cases h
        · injection h with h; subst h
          simp [ih es' hes']

/-- **`tounicode_all` without a hypothesis on the built file** (maps with at most 2^20 entries). -/
theorem tounicode_all_total (csr : CSR) (data : List (Nat × Text)) (f : TUFile) (codec : Codec)
    (hc : newCodec csr = .ok codec) (h : newToUnicodeFile csr data = .ok f)
    (hlen : data.length ≤ Gen.limits_MaxCMapMappings) :
    ∃ out, tuAll [f] codec = .ok out ∧
      ∀ code v, (code, v) ∈ out ↔
        ∃ p ∈ data, p.2 = v ∧ ∃ bs, codec.appendCode p.1 = .ok bs ∧ codec.decode bs = .ok (code, bs.length, true) := by
  apply C13ccg.tounicode_all csr data f codec hc h
  have h' := h
  unfold newToUnicodeFile at h'
  rw [hc] at h'
  simp only at h'
  split at h'
  · cases h'
  · rename_i es hes
    injection h' with h'
    obtain ⟨i1, _⟩ := tuEntries_spec codec data es hes
    have hok : ∀ e ∈ es, e.x < 256 := by
      intro e he
      obtain ⟨p, hp, h1, _⟩ := i1 e he
      obtain ⟨bs, _, h2, _, _, h3, _⟩ := C12ccd.append_then_decode csr codec hc p.1
      rw [h1] at h2; injection h2 with h2
      exact h3 e.x (by rw [← h2]; simp)
    have hs : f.singles = lefts (tuOutOf es) := by rw [← h']; rfl
    have hr : f.ranges = rights (tuOutOf es) := by rw [← h']; rfl
    rw [hs, hr, tuOutOf_demand es hok, tuEntries_length codec data es hes]
    exact hlen

end PdfVerif.C13cch

import PdfVerif.Model.HISSeq
/-!
# C20 (part 6) — nothing is recorded in the middle of a line (D-C20-2)

`markerRegexp` starts with `(?:\r\n|\r|\n|^)`, and `scanner.Find` hands the regexp engine the
bytes from its current read position to the end of its buffer: `^` is true wherever a search
starts — behind the previous match, 64 bytes before the end of a 1024-byte window that held no
match (file offsets 960, 1920, … of a marker-free region), and 64 bytes before the end of the
data.  Before D-C20-2 `locateObjects` recorded a marker-like text found there although it stands
in the middle of a line.

With the fix (`HIS.lineInitial`, mirrored in `HIS.locLoop`) this file proves, for EVERY input
and every window position, on the windowed model:

* `locateObjects_line_initial`: every object offset and every `xref`/`trailer`/`startxref`/`%%EOF`
  offset which `locateObjects` records is 0 or directly behind a CR or LF byte of the file.

The statement is the spec-level reading of "line-initial" and does not mention windows.
-/
namespace PdfVerif.C20hise
open PdfVerif PdfVerif.HIS

/-- offset `p` of `file` is the start of a line -/
@[reducible] def LineStart (file : Bytes) (p : Nat) : Prop :=
  p = 0 ∨ ∃ c, file[p - 1]? = some c ∧ isEolByte c = true

theorem lineStart_zero (file : Bytes) : LineStart file 0 := .inl rfl

/-- the line-start part of a match consists of end-of-line bytes -/
theorem matchMarkerAt_lead (b : Bool) (t : Bytes) (len lead : Nat) (m : Marker)
    (h : matchMarkerAt b t = some (len, lead, m)) (hl : lead > 0) :
    ∃ c, t[lead - 1]? = some c ∧ isEolByte c = true := by
  unfold matchMarkerAt at h
  simp only [] at h
  split at h
  · -- alt1
    rename_i r hr
    split at hr
    · rename_i rest
      cases h
      simp only [Option.map] at hr
      split at hr
      · cases hr; exact ⟨10, by simp, by decide⟩
      · cases hr
    · cases hr
  · split at h
    · rename_i r hr
      split at hr
      · cases h
        simp only [Option.map] at hr
        split at hr
        · cases hr; exact ⟨13, by simp, by decide⟩
        · cases hr
      · cases hr
    · split at h
      · rename_i r hr
        split at hr
        · cases h
          simp only [Option.map] at hr
          split at hr
          · cases hr; exact ⟨10, by simp, by decide⟩
          · cases hr
        · cases hr
      · split at h
        · simp only [Option.map] at h
          split at h
          · cases h; omega
          · cases h
        · cases h

theorem matchMarkerFrom_lead : ∀ (text : Bytes) (i : Nat) (m : Match (Nat × Marker)),
    matchMarkerFrom i text = some m →
    ∃ j, m.a = i + j ∧ (m.tag.1 > 0 → ∃ c, text[j + m.tag.1 - 1]? = some c ∧ isEolByte c = true) := by
  intro text
  induction text with
  | nil => intro i m h; simp [matchMarkerFrom] at h
  | cons c cs ih =>
    intro i m h
    unfold matchMarkerFrom at h
    split at h
    · rename_i len lead mk hat
      cases h
      refine ⟨0, rfl, fun hl => ?_⟩
      simp only [Nat.zero_add]
      exact matchMarkerAt_lead _ _ _ _ _ hat hl
    · obtain ⟨j, hj, hc⟩ := ih _ _ h
      refine ⟨j + 1, by omega, fun hl => ?_⟩
      obtain ⟨x, hx, hxe⟩ := hc hl
      refine ⟨x, ?_, hxe⟩
      have : j + 1 + m.tag.1 - 1 = (j + m.tag.1 - 1) + 1 := by omega
      rw [this, List.getElem?_cons_succ]; exact hx

/-- a match of `Find` with a line-start part: the byte of the FILE in front of the marker is an
    end-of-line byte -/
theorem find_lead (file : Bytes) : ∀ (fuel : Nat) (w w' : Win) (pos len lead : Nat) (m : Marker),
    find file matchMarker fuel w = .ok (w', pos, len, (lead, m)) → lead > 0 →
    ∃ c, file[pos + lead - 1]? = some c ∧ isEolByte c = true := by
  intro fuel
  induction fuel with
  | zero => intro w w' pos len lead m h; simp [find] at h
  | succ fuel ih =>
    intro w w' pos len lead m h hl
    unfold find at h
    simp only [] at h
    split at h
    · rename_i mm hm
      simp only [Except.ok.injEq, Prod.mk.injEq] at h
      obtain ⟨_, hpos, _, htag⟩ := h
      obtain ⟨j, hj, hc⟩ := matchMarkerFrom_lead _ 0 mm hm
      have ht1 : mm.tag.1 = lead := by rw [htag]
      rw [ht1] at hc
      obtain ⟨x, hx, hxe⟩ := hc hl
      refine ⟨x, ?_, hxe⟩
      rw [List.getElem?_take] at hx
      split at hx
      · rw [List.getElem?_drop] at hx
        have : pos + lead - 1 = w.base + w.pos + (j + lead - 1) := by omega
        rw [this]; exact hx
      · cases hx
    · repeat' split at h
      all_goals first | (cases h; done) | exact ih _ _ _ _ _ _ h hl

theorem lineInitial_lineStart (file : Bytes) (pos lead : Nat)
    (hlead : lead > 0 → ∃ c, file[pos + lead - 1]? = some c ∧ isEolByte c = true)
    (h : lineInitial file pos lead = true) : LineStart file (pos + lead) := by
  by_cases hl : lead > 0
  · exact .inr (hlead hl)
  · have hl0 : lead = 0 := by omega
    subst hl0
    unfold lineInitial at h
    simp only [Nat.lt_irrefl, decide_false, Bool.false_or, Bool.or_eq_true, beq_iff_eq] at h
    rcases h with h | h
    · exact .inl (by omega)
    · right
      rw [List.head?_drop] at h
      simp only [Nat.add_zero]
      split at h
      · rename_i c hc
        refine ⟨c, hc, ?_⟩
        simp only [isEolByte]
        simp only [Bool.or_eq_true, beq_iff_eq] at h ⊢
        rcases h with h | h <;> simp [h]
      · cases h

/-! ## the invariant of the scan loop -/

@[reducible] def SecOK (file : Bytes) (sec : Section) : Prop :=
  (∀ o ∈ sec.objects, LineStart file o.start) ∧ LineStart file sec.xrefPos ∧ LineStart file sec.trailerPos ∧
    LineStart file sec.startXRefPos ∧ LineStart file sec.eofPos

@[reducible] def StateOK (file : Bytes) (s : LocState) : Prop :=
  (∀ sec ∈ s.done, SecOK file sec) ∧ SecOK file s.cur

theorem secOK_empty (file : Bytes) : SecOK file {} :=
  ⟨fun o ho => (by cases ho), .inl rfl, .inl rfl, .inl rfl, .inl rfl⟩

theorem stateOK_finish (file : Bytes) (s : LocState) (h : StateOK file s) : StateOK file s.finish := by
  obtain ⟨hd, ho, hx, ht, hs, he⟩ := h
  unfold LocState.finish
  refine ⟨?_, secOK_empty file⟩
  simp only []
  split
  · intro sec hsec
    simp only [List.mem_cons] at hsec
    rcases hsec with rfl | hsec
    · exact ⟨fun o hm => ho o (by simpa using hm), hx, ht, hs, he⟩
    · exact hd sec hsec
  · exact hd

theorem stateOK_locStep (file : Bytes) (s : LocState) (pos : Nat) (m : Marker)
    (h : StateOK file s) (hp : LineStart file pos) : StateOK file (locStep s pos m) := by
  unfold locStep
  cases m with
  | obj n g =>
    simp only []
    split
    · exact h
    · split
      · exact h
      · split
        · exact h
        · have key : ∀ (nn gg : Nat) (t : LocState), StateOK file t →
              StateOK file { t with cur := { t.cur with objects := { num := nn, gen := gg, start := pos } :: t.cur.objects }, used := true } := by
            intro nn gg t ⟨hd, ho, hx, ht, hs, he⟩
            refine ⟨hd, ?_, hx, ht, hs, he⟩
            intro o hm
            simp only [List.mem_cons] at hm
            rcases hm with rfl | hm
            · exact hp
            · exact ho o hm
          split
          · exact key _ _ _ (stateOK_finish file s h)
          · exact key _ _ _ h
  | xref => obtain ⟨hd, ho, hx, ht, hs, he⟩ := h; exact ⟨hd, ho, hp, ht, hs, he⟩
  | trailer => obtain ⟨hd, ho, hx, ht, hs, he⟩ := h; exact ⟨hd, ho, hx, hp, hs, he⟩
  | startxref => obtain ⟨hd, ho, hx, ht, hs, he⟩ := h; exact ⟨hd, ho, hx, ht, hp, he⟩
  | eof =>
    obtain ⟨hd, ho, hx, ht, hs, he⟩ := h
    exact stateOK_finish file _ ⟨hd, ho, hx, ht, hs, hp⟩

theorem stateOK_locLoop (file : Bytes) : ∀ (fuel : Nat) (w wfin : Win) (s sfin : LocState),
    StateOK file s → locLoop file fuel w s = .ok (sfin, wfin) → StateOK file sfin := by
  intro fuel
  induction fuel with
  | zero => intro w wfin s sfin _ h; simp [locLoop] at h
  | succ fuel ih =>
    intro w wfin s sfin hs h
    unfold locLoop at h
    split at h
    · cases h; exact hs
    · cases h
    · rename_i w' pos len lead m hfind
      by_cases hl : lineInitial file pos lead = true
      · simp only [hl, if_true] at h
        have hp := lineInitial_lineStart file pos lead (find_lead file _ _ _ _ _ _ _ hfind) hl
        exact ih _ _ _ _ (stateOK_locStep file s _ m hs hp) h
      · simp only [hl, if_false] at h
        exact ih _ _ _ _ hs h

/-- **Every offset recorded by `locateObjects` is the start of a line** — for every input, with
the scanner's buffer windows as they are: 0, or directly behind a CR or LF byte of the file. -/
theorem locateObjects_line_initial (file : Bytes) (loc : Located) (h : locateObjects file = .ok loc) :
    ∀ sec ∈ loc.sections, (∀ o ∈ sec.objects, LineStart file o.start) ∧ LineStart file sec.xrefPos ∧
      LineStart file sec.trailerPos ∧ LineStart file sec.startXRefPos ∧ LineStart file sec.eofPos := by
  unfold locateObjects at h
  split at h
  · cases h
  · cases h
  · split at h
    · cases h
    · rename_i s w hloop
      have h0 : StateOK file { done := [], cur := {}, used := false, inTrailer := false } :=
        ⟨fun sec hs => (by cases hs), secOK_empty file⟩
      have hfin := stateOK_finish file s (stateOK_locLoop file _ _ _ _ _ h0 hloop)
      simp only [] at h
      split at h
      · cases h
      · cases h
        intro sec hsec
        exact hfin.1 sec (by simpa using hsec)

-- the audit's example: `1 0 obj 999 endobj` in the middle of a line at offset 960 of a marker-free
-- region is not recorded (before the fix it was: object 1 at 960)
def exFile : Bytes := bytesOfString "%PDF-1.7\n" ++ List.replicate 949 120 ++ bytesOfString "x 1 0 obj 999 endobj " ++
  List.replicate 200 120 ++ bytesOfString "\n2 0 obj\n7\nendobj\n"
example : (match locLoop exFile 5 { base := 0, pos := 9, used := 1024 } { done := [], cur := {}, used := false, inTrailer := false } with
    | .ok (s, _) => s.cur.objects.map (fun o => (o.num, o.start))
    | .error _ => [(0, 0)]) = [(2, 1180)] := by decide +kernel

end PdfVerif.C20hise

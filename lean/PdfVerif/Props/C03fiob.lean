import PdfVerif.Props.C03fio
import PdfVerif.Props.C02fioj
/-!
# C03 — the end of a table-form file, byte for byte (work package FIO)

Corollaries of `close_table_layout` / `writer_wf_table_partial`: the exact layout of everything
the writer model appends in `Close` when cross-reference tables are in use.
-/
namespace PdfVerif.C03fiob
open PdfVerif PdfVerif.FIO PdfVerif.C03fio
open PdfVerif.C02fiob (At Inv)

/-- **eof_is_last.**  After a successful `Close` in table form the file *ends* with
`startxref\n <x> \n%%EOF\n` — nothing stands behind the end-of-file marker — where `x` is
the number the independent `checkTail` returns; immediately in front of `startxref` stands the
end-of-line that closes the trailer dictionary, and the keyword `trailer` follows the table
without a gap (the table starts at `x`, the trailer at `x + |table|`). -/
theorem eof_is_last {s s' : WState} {cat : Obj} {info : Option Obj} {tr : List (Bytes × Obj)} {raw : Bytes}
    (hi : Inv s) (hobj : s.opts.objStm = false) (h : close s cat info tr raw = .ok s')
    (hsize : s'.out.length < 10000000000) :
    ∃ (x : Nat) (pre body td : Bytes),
      Spec.FileWF.checkTail s'.out = .ok x ∧
      pre.length = x ∧
      xrefTableBody s'.xref s'.nextRef = some body ∧
      s'.out = pre ++ body ++ kTrailerNL ++ td ++ [10] ++ kStartxref ++ decOf x ++ kEOF ∧
      At s'.out (x + body.length) kTrailerNL := by
  obtain ⟨s2, body, td, i2, n2, hb, hout, hx, hnr, hstm⟩ := close_table_layout hi hobj h
  have hpos19 : s2.pos < 10 ^ 19 := by
    rw [i2.pos_eq]; rw [hout] at hsize; simp at hsize; omega
  refine ⟨s2.pos, s2.out, body, td, ?_, ?_, ?_, ?_, ?_⟩
  · rw [hout]
    have : s2.out ++ (body ++ kTrailerNL ++ td ++ [10]) ++ (kStartxref ++ decOf s2.pos ++ kEOF)
        = (s2.out ++ (body ++ kTrailerNL ++ td)) ++ [10] ++ kStartxref ++ decOf s2.pos ++ kEOF := by simp
    rw [this]
    exact spec_tail_ok _ _ hpos19
  · exact i2.pos_eq.symm
  · rw [hx, hnr]; exact hb
  · rw [hout]; simp
  · rw [hout, i2.pos_eq]
    exact ⟨s2.out ++ body, td ++ [10] ++ (kStartxref ++ decOf s2.out.length ++ kEOF), by simp, by simp⟩

/-- the offset after `startxref` lies strictly inside the file: at least the 26 bytes of
`trailer\n`, the end-of-line, `startxref\n` and `\n%%EOF\n` stand behind it (besides table, trailer
dictionary and the digits).  Hypotheses are those of `writer_wf_table_partial`, met by the
`decide +kernel` example there. -/
theorem close_table_xref_after_body {s s' : WState} {cat : Obj} {info : Option Obj} {tr : List (Bytes × Obj)} {raw : Bytes}
    (hi : Inv s) (hobj : s.opts.objStm = false) (h : close s cat info tr raw = .ok s')
    (hsize : s'.out.length < 10000000000) :
    ∃ x, Spec.FileWF.checkTail s'.out = .ok x ∧ x + 26 ≤ s'.out.length := by
  obtain ⟨x, pre, body, td, h1, h2, _, h4, _⟩ := eof_is_last hi hobj h hsize
  refine ⟨x, h1, ?_⟩
  rw [h4, ← h2]
  simp [kTrailerNL, kwTrailer, kStartxref, kEOF]
  omega

/-! ### distinct objects stand at distinct offsets -/

theorem digits_sep : ∀ (ds ds' r r' : Bytes), ds.all isDigit = true → ds'.all isDigit = true →
    ds ++ 32 :: r = ds' ++ 32 :: r' → ds = ds' := by
  intro ds
  induction ds with
  | nil =>
    intro ds' r r' _ h' he
    cases ds' with
    | nil => rfl
    | cons c cs =>
      simp only [List.nil_append, List.cons_append, List.cons.injEq] at he
      have hc : isDigit c = true := by simp at h'; exact h'.1
      rw [← he.1] at hc
      simp [isDigit] at hc
  | cons d ds ih =>
    intro ds' r r' h h' he
    cases ds' with
    | nil =>
      simp only [List.nil_append, List.cons_append, List.cons.injEq] at he
      have hd : isDigit d = true := by simp at h; exact h.1
      rw [he.1] at hd
      simp [isDigit] at hd
    | cons c cs =>
      simp only [List.cons_append, List.cons.injEq] at he
      have hds : ds.all isDigit = true := by simp at h ⊢; exact h.2
      have hcs : cs.all isDigit = true := by simp at h' ⊢; exact h'.2
      rw [he.1, ih cs r r' hds hcs he.2]

/-- the decimal form determines the number -/
theorem decOf_inj (n n' : Nat) (r r' : Bytes) (h : decOf n ++ 32 :: r = decOf n' ++ 32 :: r') : n = n' := by
  obtain ⟨a1, a2, _, _⟩ := C02fioc.decOf_spec n (n + 1) (C02fioc.lt_ten_pow_succ n) (by omega)
  obtain ⟨b1, b2, _, _⟩ := C02fioc.decOf_spec n' (n' + 1) (C02fioc.lt_ten_pow_succ n') (by omega)
  have := digits_sep _ _ r r' a1 b1 h
  rw [← a2, ← b2, this]

/-- two object headers standing at the same offset belong to the same object number -/
theorem header_at_inj {out : Bytes} {p n g n' g' : Nat}
    (h1 : At out p (objHeader n g)) (h2 : At out p (objHeader n' g')) : n = n' := by
  obtain ⟨pre, rest, e1, l1⟩ := h1
  obtain ⟨pre', rest', e2, l2⟩ := h2
  rw [e1] at e2
  simp only [List.append_assoc] at e2
  have := List.append_inj e2 (by omega)
  have h := this.2
  unfold objHeader at h
  simp only [List.append_assoc, List.singleton_append] at h
  exact decOf_inj n n' _ _ h

/-- **xref_offsets_distinct.**  In the file a successful `Close` leaves behind (table form), two
in-use cross-reference entries with the same byte offset are entries of the same object number:
the table never sends two objects to one place. -/
theorem xref_offsets_distinct {s s' : WState} {cat : Obj} {info : Option Obj} {tr : List (Bytes × Obj)} {raw : Bytes}
    (hi : Inv s) (hobj : s.opts.objStm = false) (h : close s cat info tr raw = .ok s')
    (hsize : s'.out.length < 10000000000)
    (hgen : ∀ n e, s'.xref.get n = some e → e.gen ≤ 65535)
    (n n' : Nat) (e e' : XEntry) (hn : s'.xref.get n = some e) (hn' : s'.xref.get n' = some e')
    (hp : 0 ≤ e.pos) (heq : e.pos = e'.pos) : n = n' := by
  obtain ⟨_, _, _, _, _, _, _, hat⟩ := writer_wf_table_partial hi hobj h hsize hgen
  have a1 := hat n e hn hp
  have a2 := hat n' e' hn' (by omega)
  rw [← heq] at a2
  exact header_at_inj a1 a2

/-! ### the end of a file in cross-reference-stream form -/

/-- **eof_is_last_xrefstream.**  After a successful `Close` in object-stream mode the file ends
with `\nendstream\nendobj\n` `startxref\n <x> \n%%EOF\n` and nothing behind it; the independent
`checkTail` accepts that end and returns `x`; `x` is the length of everything written before the
cross-reference stream object, and the final table's entry for the stream's own number `ref`
(the last number, `ref + 1 = Size`) is an in-use entry at exactly `x` with generation 0. -/
theorem eof_is_last_xrefstream {s s' : WState} {cat : Obj} {info : Option Obj} {tr : List (Bytes × Obj)} {raw : Bytes}
    (hi : Inv s) (hna : C02fioj.NoAfter s) (hobj : s.opts.objStm = true) (h : close s cat info tr raw = .ok s')
    (hsize : s'.out.length < 10000000000) :
    ∃ (x ref : Nat) (pre mid : Bytes),
      Spec.FileWF.checkTail s'.out = .ok x ∧
      pre.length = x ∧
      s'.out = pre ++ mid ++ kEndstream ++ kStartxref ++ decOf x ++ kEOF ∧
      s'.xref.get ref = some ⟨0, (x : Int), 0⟩ ∧ ref + 1 = s'.nextRef := by
  obtain ⟨s3, ref, cr, ir, mid, _, _, _, i3, _, _, _, _, hx, _, hout, hnr, hlast, _⟩ :=
    C02fioj.close_xrefstream_form hi hna hobj h
  have hpos19 : s3.pos < 10 ^ 19 := by
    rw [i3.pos_eq]; rw [hout] at hsize; simp at hsize; omega
  refine ⟨s3.pos, ref, s3.out, mid, ?_, i3.pos_eq.symm, hout, ?_, by rw [hnr]; exact hlast⟩
  · rw [hout]
    have : s3.out ++ mid ++ kEndstream ++ kStartxref ++ decOf s3.pos ++ kEOF
        = (s3.out ++ mid ++ kEndstream.dropLast) ++ [10] ++ kStartxref ++ decOf s3.pos ++ kEOF := by
      simp [kEndstream]
    rw [this]
    exact spec_tail_ok _ _ hpos19
  · have := hx ref
    simpa using this

/-- the same for every program: whatever operations ran before (`run` from `initState`), if the
state reached uses cross-reference streams and `Close` succeeds there, the file ends as
`eof_is_last_xrefstream` says — the hypotheses `Inv`/`NoAfter` hold of every reachable state -/
theorem eof_is_last_xrefstream_reachable (o : WOpts) (s0 s s' : WState) (ops : List Op)
    {cat : Obj} {info : Option Obj} {tr : List (Bytes × Obj)} {raw : Bytes}
    (h0 : initState o = some s0) (hr : run s0 ops 0 = .ok s)
    (hobj : s.opts.objStm = true) (h : close s cat info tr raw = .ok s')
    (hsize : s'.out.length < 10000000000) :
    ∃ (x ref : Nat) (pre mid : Bytes),
      Spec.FileWF.checkTail s'.out = .ok x ∧ pre.length = x ∧
      s'.out = pre ++ mid ++ kEndstream ++ kStartxref ++ decOf x ++ kEOF ∧
      s'.xref.get ref = some ⟨0, (x : Int), 0⟩ ∧ ref + 1 = s'.nextRef :=
  have i0 := C02fiob.init_inv o s0 h0
  eof_is_last_xrefstream (C02fiob.run_inv ops i0 hr) (C02fioj.run_na ops i0 (C02fioj.init_na o s0 h0) hr) hobj h hsize

/-- and in table form -/
theorem eof_is_last_reachable (o : WOpts) (s0 s s' : WState) (ops : List Op)
    {cat : Obj} {info : Option Obj} {tr : List (Bytes × Obj)} {raw : Bytes}
    (h0 : initState o = some s0) (hr : run s0 ops 0 = .ok s)
    (hobj : s.opts.objStm = false) (h : close s cat info tr raw = .ok s')
    (hsize : s'.out.length < 10000000000) :
    ∃ (x : Nat) (pre body td : Bytes),
      Spec.FileWF.checkTail s'.out = .ok x ∧ pre.length = x ∧
      xrefTableBody s'.xref s'.nextRef = some body ∧
      s'.out = pre ++ body ++ kTrailerNL ++ td ++ [10] ++ kStartxref ++ decOf x ++ kEOF ∧
      At s'.out (x + body.length) kTrailerNL :=
  eof_is_last (C02fiob.run_inv ops (C02fiob.init_inv o s0 h0) hr) hobj h hsize

/-! ### distinct offsets as an invariant of every reachable state, both forms -/

theorem objHeader_length_pos (n g : Nat) : 0 < (objHeader n g).length := by
  simp [objHeader, kObj]; omega

/-- **offsets_distinct_inv.**  In every state satisfying the writer invariant — at any moment of
a program, with or without an open stream, table form or stream form — two in-use entries (not in
an object stream) with the same offset belong to the same object number. -/
theorem offsets_distinct_inv {s : WState} (hi : Inv s)
    (n n' : Nat) (e e' : XEntry) (hn : s.xref.get n = some e) (hn' : s.xref.get n' = some e')
    (hs : e.inStream = 0) (hs' : e'.inStream = 0) (hp : 0 ≤ e.pos) (heq : e.pos = e'.pos) : n = n' := by
  have hp' : 0 ≤ e'.pos := by omega
  rcases hi.entries n e hn hs hp with a1 | ⟨st, h1, _, h3, _, h5⟩
  · rcases hi.entries n' e' hn' hs' hp' with a2 | ⟨st', _, _, _, _, k5⟩
    · rw [← heq] at a2
      exact header_at_inj a1 a2
    · -- `n` has its header inside the file, `n'` is the pending stream at the end of the file
      have := a1.end_le
      have hl := objHeader_length_pos n e.gen
      have := hi.pos_eq
      omega
  · rcases hi.entries n' e' hn' hs' hp' with a2 | ⟨st', k1, _, k3, _, _⟩
    · have := a2.end_le
      have hl := objHeader_length_pos n' e'.gen
      have := hi.pos_eq
      omega
    · rw [h1] at k1
      cases k1
      omega

/-- for every program run from `initState` -/
theorem offsets_distinct_reachable (o : WOpts) (s0 s : WState) (ops : List Op)
    (h0 : initState o = some s0) (hr : run s0 ops 0 = .ok s)
    (n n' : Nat) (e e' : XEntry) (hn : s.xref.get n = some e) (hn' : s.xref.get n' = some e')
    (hs : e.inStream = 0) (hs' : e'.inStream = 0) (hp : 0 ≤ e.pos) (heq : e.pos = e'.pos) : n = n' :=
  offsets_distinct_inv (C02fiob.run_inv ops (C02fiob.init_inv o s0 h0) hr) n n' e e' hn hn' hs hs' hp heq

/-! ### every object stands in front of the cross-reference section -/

/-- **objects_before_xref.**  Table form, after a successful `Close`: every in-use entry's object
header `N G obj` lies completely in front of the offset `x` that `startxref` names (and
`checkTail` returns) — no entry points into the table, the trailer or behind the file. -/
theorem objects_before_xref {s s' : WState} {cat : Obj} {info : Option Obj} {tr : List (Bytes × Obj)} {raw : Bytes}
    (hi : Inv s) (hobj : s.opts.objStm = false) (h : close s cat info tr raw = .ok s')
    (hsize : s'.out.length < 10000000000) :
    ∃ x, Spec.FileWF.checkTail s'.out = .ok x ∧
      ∀ n e, s'.xref.get n = some e → 0 ≤ e.pos → e.pos.toNat + (objHeader n e.gen).length ≤ x := by
  obtain ⟨s2, body, td, i2, n2, hb, hout, hx, hnr, hstm⟩ := close_table_layout hi hobj h
  have hnoStm : hasInStream s2.xref s2.nextRef = false := by
    unfold xrefTableBody at hb
    split at hb
    · simp at hb
    · rename_i hh; simpa using hh
  have hins : ∀ n e, s2.xref.get n = some e → e.inStream = 0 := by
    intro n e hg
    have hlt := i2.below n e hg
    unfold hasInStream at hnoStm
    have := List.any_eq_false.1 hnoStm n (by simp; exact hlt)
    simp [hg] at this
    exact this
  have hpos19 : s2.pos < 10 ^ 19 := by
    rw [i2.pos_eq]; rw [hout] at hsize; simp at hsize; omega
  refine ⟨s2.pos, ?_, ?_⟩
  · rw [hout]
    have : s2.out ++ (body ++ kTrailerNL ++ td ++ [10]) ++ (kStartxref ++ decOf s2.pos ++ kEOF)
        = (s2.out ++ (body ++ kTrailerNL ++ td)) ++ [10] ++ kStartxref ++ decOf s2.pos ++ kEOF := by simp
    rw [this]
    exact spec_tail_ok _ _ hpos19
  · intro n e hg hp
    rw [hx] at hg
    rcases i2.entries n e hg (hins n e hg) hp with ha | ⟨st, h1, _⟩
    · have := ha.end_le
      rw [i2.pos_eq]; exact this
    · rw [n2] at h1; cases h1

/-- **entries_not_behind_xrefstream.**  Stream form, after a successful `Close`: no in-use entry
outside object streams has an offset behind `x`, the offset of the cross-reference stream object
that `startxref` names; the entry at `x` is the stream's own. -/
theorem entries_not_behind_xrefstream {s s' : WState} {cat : Obj} {info : Option Obj} {tr : List (Bytes × Obj)} {raw : Bytes}
    (hi : Inv s) (hna : C02fioj.NoAfter s) (hobj : s.opts.objStm = true) (h : close s cat info tr raw = .ok s')
    (hsize : s'.out.length < 10000000000) :
    ∃ x, Spec.FileWF.checkTail s'.out = .ok x ∧
      ∀ n e, s'.xref.get n = some e → e.inStream = 0 → 0 ≤ e.pos → e.pos.toNat ≤ x := by
  obtain ⟨s3, ref, cr, ir, mid, _, _, _, i3, _, _, _, _, hx, _, hout, hnr, hlast, _⟩ :=
    C02fioj.close_xrefstream_form hi hna hobj h
  have hpos19 : s3.pos < 10 ^ 19 := by
    rw [i3.pos_eq]; rw [hout] at hsize; simp at hsize; omega
  refine ⟨s3.pos, ?_, ?_⟩
  · rw [hout]
    have : s3.out ++ mid ++ kEndstream ++ kStartxref ++ decOf s3.pos ++ kEOF
        = (s3.out ++ mid ++ kEndstream.dropLast) ++ [10] ++ kStartxref ++ decOf s3.pos ++ kEOF := by
      simp [kEndstream]
    rw [this]
    exact spec_tail_ok _ _ hpos19
  · intro n e hg hs hp
    rw [hx n] at hg
    split at hg
    · cases hg; simp
    · rcases i3.entries n e hg hs hp with ha | ⟨st, _, _, _, _, h5⟩
      · have := ha.end_le
        rw [i3.pos_eq]; omega
      · omega


/-- **entries_inside_file.**  At every moment of every program no in-use entry (outside object
streams) names an offset behind what has been written: its header lies inside the file, or it is
the entry of the stream just opened, whose header comes next (offset = current length). -/
theorem entries_inside_file (o : WOpts) (s0 s : WState) (ops : List Op)
    (h0 : initState o = some s0) (hr : run s0 ops 0 = .ok s)
    (n : Nat) (e : XEntry) (hn : s.xref.get n = some e) (hs : e.inStream = 0) (hp : 0 ≤ e.pos) :
    e.pos.toNat ≤ s.out.length := by
  have hi := C02fiob.run_inv ops (C02fiob.init_inv o s0 h0) hr
  rcases hi.entries n e hn hs hp with ha | ⟨st, _, _, _, _, h5⟩
  · have := ha.end_le; omega
  · have := hi.pos_eq; omega

-- non-vacuity of the stream-form theorems: a PDF 1.5 program (cross-reference stream) ends in a
-- state whose tail the checker accepts; the offset it returns is the one recorded for the
-- cross-reference stream's own number, the last one
example : (match initState { C02fiob.exOpts with version := Gen.fio_V1_5 } with
    | some s0 => (match run s0 C02fiob.exProg 0 with
      | .ok s => (match Spec.FileWF.checkTail s.out with
          | .ok x => s.opts.objStm && s.xref.get (s.nextRef - 1) == some ⟨0, (x : Int), 0⟩ && decide (0 < x)
          | _ => false)
      | _ => false)
    | none => false) = true := by decide +kernel

end PdfVerif.C03fiob

import PdfVerif.Model.FNTSimple
import PdfVerif.Lemmas.FNTMap
/-!
# C14 (work package FNT) — simple fonts: the allocation state machine of `simpleenc.Simple`

All statements are about `Model/FNTSimple.lean`, which the correspondence run ties to
`font/encoding/simpleenc/simple.go` (identical codes, glyph names, `Codes` output, default
widths on generated operation sequences up to and beyond 256 codes).

"Every operation sequence and every choice function" is the inductive predicate `Reach`: a state
is reachable if it is obtained from `NewSimple` by `Encode` steps in which the picked code is
*any* free code (nothing else is assumed about the choice), with arbitrary changes of the
glyph-name tables in between.  `reach_encode` shows that the exact heuristic of the Go code
stays inside `Reach`, so every theorem below also holds for the exact model.
-/
namespace PdfVerif.C14fnt
open PdfVerif PdfVerif.FNT

/-- `pick` is a code the encoder may hand out in state `s` -/
def FreePick (s : Simple) (pick : Nat) : Prop := pick < K.simpleMaxCodes ∧ s.info.get pick = none

/-- states reachable by any sequence of `Encode` calls with any admissible choice of codes -/
inductive Reach : Simple → Prop
  | init (w : Int) : Reach (Simple.init w)
  | step (s : Simple) (gid : Nat) (text : Bytes) (width : Int) (pick : Nat) :
      Reach s →
      (s.code.get (gid, text) = none → s.info.size < K.simpleMaxCodes → FreePick s pick) →
      Reach (s.encodeAt gid text width pick).1
  | names (s : Simple) (gn : Map Nat Bytes) (gu : Map Bytes Bool) :
      Reach s → Reach { s with glyphName := gn, glyphNameUsed := gu }

/-- the invariant tying the two maps together -/
structure Inv (s : Simple) : Prop where
  keysLt : ∀ c i, s.info.get c = some i → c < K.simpleMaxCodes
  fwd : ∀ k c, s.code.get k = some c → ∃ w, s.info.get c = some ⟨k.1, w, k.2⟩
  bwd : ∀ c i, s.info.get c = some i → s.code.get (i.gid, i.text) = some c
  sizeEq : s.code.size = s.info.size
  sizeLe : s.info.size ≤ K.simpleMaxCodes

theorem inv_init (w : Int) : Inv (Simple.init w) := by
  refine ⟨?_, ?_, ?_, ?_, ?_⟩ <;> simp [Simple.init, Map.size, K.simpleMaxCodes]

theorem inv_encodeAt (s : Simple) (gid : Nat) (text : Bytes) (width : Int) (pick : Nat) (h : Inv s)
    (hp : s.code.get (gid, text) = none → s.info.size < K.simpleMaxCodes → FreePick s pick) :
    Inv (s.encodeAt gid text width pick).1 := by
  unfold Simple.encodeAt
  split
  · exact h
  · rename_i hnd
    have hnone : s.code.get (gid, text) = none := by
      cases hg : s.code.get (gid, text) with
      | none => rfl
      | some v => simp [hg] at hnd
    split
    · exact ⟨h.keysLt, h.fwd, h.bwd, h.sizeEq, h.sizeLe⟩
    · rename_i hsz
      have hsz' : s.info.size < K.simpleMaxCodes := by omega
      obtain ⟨hlt, hfree⟩ := hp hnone hsz'
      refine ⟨?_, ?_, ?_, ?_, ?_⟩
      · intro c i hc
        simp only [Map.get_insert] at hc
        split at hc
        · omega
        · exact h.keysLt c i hc
      · intro k c hk
        simp only [Map.get_insert] at hk ⊢
        split at hk
        · rename_i hkeq
          cases hkeq
          simp at hk
          subst hk
          exact ⟨width, by simp⟩
        · obtain ⟨w, hw⟩ := h.fwd k c hk
          have hne : pick ≠ c := by
            intro he; subst he; simp [hfree] at hw
          exact ⟨w, by simp [hne, hw]⟩
      · intro c i hc
        simp only [Map.get_insert] at hc ⊢
        split at hc
        · rename_i hceq
          subst hceq
          simp at hc
          subst hc
          simp
        · have hb := h.bwd c i hc
          have hne : (gid, text) ≠ (i.gid, i.text) := by
            intro he; rw [← he, hnone] at hb; simp at hb
          simp [hne, hb]
      · simp only
        rw [Map.size_insert_of_none _ _ _ hnone, Map.size_insert_of_none _ _ _ hfree, h.sizeEq]
      · simp only
        rw [Map.size_insert_of_none _ _ _ hfree]
        omega

theorem reach_inv {s : Simple} (h : Reach s) : Inv s := by
  induction h with
  | init w => exact inv_init w
  | step s gid text width pick _ hp ih => exact inv_encodeAt s gid text width pick ih hp
  | names s gn gu _ ih => exact ⟨ih.keysLt, ih.fwd, ih.bwd, ih.sizeEq, ih.sizeLe⟩

/-- **alloc_injective.**  In every reachable state — any operation sequence, any choice of
free codes — two (glyph, text) pairs that have the same code are the same pair. -/
theorem alloc_injective {s : Simple} (h : Reach s) (k1 k2 : Key) (c : Nat)
    (h1 : s.getCode k1.1 k1.2 = some c) (h2 : s.getCode k2.1 k2.2 = some c) : k1 = k2 := by
  have inv := reach_inv h
  obtain ⟨w1, e1⟩ := inv.fwd k1 c h1
  obtain ⟨w2, e2⟩ := inv.fwd k2 c h2
  rw [e1] at e2
  simp at e2
  exact Prod.ext e2.1 e2.2.2

/-- the code of a pair is a byte, and `Codes`/`GID` map it back to the pair's glyph and text -/
theorem code_reads_back {s : Simple} (h : Reach s) (gid : Nat) (text : Bytes) (c : Nat)
    (hc : s.getCode gid text = some c) :
    c < K.simpleMaxCodes ∧ (s.getInfo c).gid = gid ∧ (s.getInfo c).text = text := by
  have inv := reach_inv h
  obtain ⟨w, e⟩ := inv.fwd (gid, text) c hc
  exact ⟨inv.keysLt c _ e, by simp [Simple.getInfo, e], by simp [Simple.getInfo, e]⟩

/-! ### what one `Encode` does -/

/-- a successful `Encode` returns the picked code, which was free, records exactly the given
    glyph, width and text under it, and makes `GetCode` return it -/
theorem encodeAt_ok (s : Simple) (gid : Nat) (text : Bytes) (width : Int) (pick c : Nat)
    (hr : (s.encodeAt gid text width pick).2 = .ok c) :
    c = pick ∧ s.getCode gid text = none ∧ s.info.size < K.simpleMaxCodes ∧
    (s.encodeAt gid text width pick).1.info.get c = some ⟨gid, width, text⟩ ∧
    (s.encodeAt gid text width pick).1.getCode gid text = some c := by
  unfold Simple.encodeAt at hr ⊢
  split at hr
  · simp at hr
  · rename_i hnd
    split at hr
    · simp at hr
    · rename_i hsz
      simp at hr
      subst hr
      have hnone : s.code.get (gid, text) = none := by
        cases hg : s.code.get (gid, text) with
        | none => rfl
        | some v => simp [hg] at hnd
      simp [hsz, Simple.getCode, hnone]
      omega

/-- entries are never overwritten: what a code stands for stays fixed in all later states
    reached by admissible steps -/
theorem encodeAt_stable (s : Simple) (gid : Nat) (text : Bytes) (width : Int) (pick : Nat)
    (hp : s.code.get (gid, text) = none → s.info.size < K.simpleMaxCodes → FreePick s pick)
    (c : Nat) (i : Info) (hc : s.info.get c = some i) :
    (s.encodeAt gid text width pick).1.info.get c = some i := by
  unfold Simple.encodeAt
  split
  · exact hc
  · rename_i hnd
    split
    · exact hc
    · rename_i hsz
      have hnone : s.code.get (gid, text) = none := by
        cases hg : s.code.get (gid, text) with
        | none => rfl
        | some v => simp [hg] at hnd
      obtain ⟨_, hfree⟩ := hp hnone (by omega)
      have hne : pick ≠ c := by intro he; subst he; simp [hfree] at hc
      simp [Map.get_insert, hne, hc]

theorem encodeAt_code_stable (s : Simple) (gid : Nat) (text : Bytes) (width : Int) (pick : Nat)
    (k : Key) (c : Nat) (hc : s.code.get k = some c) :
    (s.encodeAt gid text width pick).1.code.get k = some c := by
  unfold Simple.encodeAt
  split
  · exact hc
  · rename_i hnd
    split
    · exact hc
    · have hne : (gid, text) ≠ k := by
        intro he; subst he; simp [hc] at hnd
      simp [Map.get_insert, hne, hc]

/-- the relation "s' is reached from s by admissible steps" -/
inductive Later : Simple → Simple → Prop
  | refl (s : Simple) : Later s s
  | step (s s' : Simple) (gid : Nat) (text : Bytes) (width : Int) (pick : Nat) :
      Later s s' →
      (s'.code.get (gid, text) = none → s'.info.size < K.simpleMaxCodes → FreePick s' pick) →
      Later s (s'.encodeAt gid text width pick).1
  | names (s s' : Simple) (gn : Map Nat Bytes) (gu : Map Bytes Bool) :
      Later s s' → Later s { s' with glyphName := gn, glyphNameUsed := gu }

theorem later_info {s s' : Simple} (h : Later s s') (c : Nat) (i : Info) (hc : s.info.get c = some i) :
    s'.info.get c = some i := by
  induction h with
  | refl => exact hc
  | step s' gid text width pick _ hp ih => exact encodeAt_stable s' gid text width pick hp c i ih
  | names s' gn gu _ ih => exact ih

theorem later_code {s s' : Simple} (h : Later s s') (k : Key) (c : Nat) (hc : s.code.get k = some c) :
    s'.code.get k = some c := by
  induction h with
  | refl => exact hc
  | step s' gid text width pick _ _ ih => exact encodeAt_code_stable s' gid text width pick k c ih
  | names s' gn gu _ ih => exact ih

/-- **codes_readback (simple fonts).**  Take any successful `Encode(gid, text, width)` that
returned `c`, then any later history.  In the final state `GetCode` still returns `c`, and the
`Codes` entry of `c` carries the recorded width and text and the CID of the glyph
(`c + 1`, or 0 for glyph 0). -/
theorem codes_readback_one (s : Simple) (gid : Nat) (text : Bytes) (width : Int) (pick c : Nat)
    (hr : (s.encodeAt gid text width pick).2 = .ok c) (s' : Simple)
    (hl : Later (s.encodeAt gid text width pick).1 s') :
    s'.getCode gid text = some c ∧
    s'.codeOut c = ⟨if gid == 0 then 0 else c + 1, width, text, c == K.spaceCode⟩ := by
  obtain ⟨_, _, _, hi, hg⟩ := encodeAt_ok s gid text width pick c hr
  have hi' := later_info hl c _ hi
  have hg' := later_code hl (gid, text) c hg
  exact ⟨hg', by simp [Simple.codeOut, Simple.getInfo, hi']⟩

/-- **codes_readback, whole strings.**  `Codes` yields exactly one entry per byte of the string
(simple fonts: segmentation is trivial), and the entry at each position is the entry of that
byte.  Together with `codes_readback_one`: the string built from the codes of `n` shown glyphs
decodes into `n` entries with the recorded widths and texts. -/
theorem codes_length (s : Simple) (str : Bytes) : (s.codes str).length = str.length := by
  simp [Simple.codes]

theorem codes_get (s : Simple) (str : Bytes) (i : Nat) (h : i < str.length) :
    (s.codes str)[i]'(by simp [Simple.codes]; exact h) = s.codeOut (str[i]) := by
  simp [Simple.codes]

/-! ### the 256-code limit -/

/-- **overflow_sticky.**  Once all 256 codes are in use, every `Encode` of a new pair fails with
the overflow error whatever code is proposed, sets the sticky error flag, and changes nothing
else; known pairs report `dup`. -/
theorem overflow_sticky (s : Simple) (hfull : s.info.size ≥ K.simpleMaxCodes)
    (gid : Nat) (text : Bytes) (width : Int) (pick : Nat) :
    ((s.encodeAt gid text width pick).2 = .overflow ∧ (s.encodeAt gid text width pick).1 = { s with err := true })
    ∨ ((s.encodeAt gid text width pick).2 = .dup ∧ (s.encodeAt gid text width pick).1 = s) := by
  unfold Simple.encodeAt
  split
  · right; simp
  · left; simp [hfull]

/-- the error flag is never cleared, and the table never shrinks -/
theorem err_sticky (s : Simple) (gid : Nat) (text : Bytes) (width : Int) (pick : Nat)
    (he : s.err = true) : (s.encodeAt gid text width pick).1.err = true := by
  unfold Simple.encodeAt
  split
  · exact he
  · split <;> simp [he]

theorem full_stays_full {s s' : Simple} (h : Later s s') (hfull : s.info.size ≥ K.simpleMaxCodes) :
    s'.info = s.info ∧ s'.code = s.code := by
  induction h with
  | refl => exact ⟨rfl, rfl⟩
  | step s' gid text width pick _ _ ih =>
    obtain ⟨hi, hc⟩ := ih
    have hfull' : s'.info.size ≥ K.simpleMaxCodes := by rw [hi]; exact hfull
    rcases overflow_sticky s' hfull' gid text width pick with ⟨_, h2⟩ | ⟨_, h2⟩
    · rw [h2]; exact ⟨hi, hc⟩
    · rw [h2]; exact ⟨hi, hc⟩
  | names s' gn gu _ ih => exact ih

/-- at most 256 codes are ever in use, and both maps have the same number of entries -/
theorem size_bound {s : Simple} (h : Reach s) : s.info.size ≤ K.simpleMaxCodes ∧ s.code.size = s.info.size :=
  ⟨(reach_inv h).sizeLe, (reach_inv h).sizeEq⟩

/-- **no early overflow (progress).**  While fewer than 256 codes are in use a free code exists,
and `Encode` of a new pair with a free pick succeeds. -/
theorem exists_free_code {s : Simple} (hsz : s.info.size < K.simpleMaxCodes) : ∃ c, FreePick s c :=
  Map.exists_free s.info K.simpleMaxCodes hsz

theorem encode_succeeds (s : Simple) (gid : Nat) (text : Bytes) (width : Int) (pick : Nat)
    (hnew : s.getCode gid text = none) (hsz : s.info.size < K.simpleMaxCodes) :
    (s.encodeAt gid text width pick).2 = .ok pick := by
  unfold Simple.encodeAt
  have : ¬ (s.info.size ≥ K.simpleMaxCodes) := by omega
  simp [Simple.getCode] at hnew
  simp [hnew, this]

/-! ### the exact heuristic picks a free code -/

/-- nothing chosen yet -/
def Unset (b : Best) : Prop := b.score = -1 ∧ b.done = false
/-- a free code has been chosen -/
def Chosen (used : Nat → Bool) (b : Best) : Prop :=
  (0 ≤ b.score ∨ b.done = true) ∧ b.code < K.simpleMaxCodes ∧ used b.code = false

theorem scoreStep_chosen (base : Nat → Bytes) (name : Bytes) (r : Nat) (used : Nat → Bool)
    (b : Best) (code : Nat) (hc : code < K.simpleMaxCodes) (h : Chosen used b) :
    Chosen used (scoreStep base name r used b code) := by
  unfold scoreStep
  by_cases hd : b.done = true
  · simp [hd]; exact h
  · by_cases hu : used code = true
    · simp [hd, hu]; exact h
    · have hu' : used code = false := by simpa using hu
      by_cases hn : (base code == name) = true
      · simp only [hd, hu', hn]; exact ⟨Or.inr rfl, hc, hu'⟩
      · by_cases hs : ((codeScore base name r code : Nat) : Int) > b.score
        · simp only [hd, hu', hn, hs]
          exact ⟨Or.inl (Int.natCast_nonneg _), hc, hu'⟩
        · simp only [hd, hu', hn, hs]; exact h

theorem scoreStep_unset (base : Nat → Bytes) (name : Bytes) (r : Nat) (used : Nat → Bool)
    (b : Best) (code : Nat) (hc : code < K.simpleMaxCodes) (h : Unset b) :
    (Unset (scoreStep base name r used b code) ∧ used code = true) ∨
    Chosen used (scoreStep base name r used b code) := by
  obtain ⟨hs, hd⟩ := h
  unfold scoreStep
  by_cases hu : used code = true
  · left; simp [hu, hd, Unset, hs]
  · right
    have hu' : used code = false := by simpa using hu
    by_cases hn : (base code == name) = true
    · simp only [hd, hu', hn]; exact ⟨Or.inr rfl, hc, hu'⟩
    · have hpos : ((codeScore base name r code : Nat) : Int) > b.score := by
        rw [hs]; have := Int.natCast_nonneg (codeScore base name r code); omega
      simp only [hd, hu', hn, hpos]
      exact ⟨Or.inl (Int.natCast_nonneg _), hc, hu'⟩

theorem fold_chosen (base : Nat → Bytes) (name : Bytes) (r : Nat) (used : Nat → Bool)
    (l : List Nat) (hl : ∀ c ∈ l, c < K.simpleMaxCodes) (b : Best) (h : Chosen used b) :
    Chosen used (l.foldl (scoreStep base name r used) b) := by
  induction l generalizing b with
  | nil => exact h
  | cons c cs ih =>
    simp only [List.foldl_cons]
    exact ih (fun x hx => hl x (List.mem_cons_of_mem _ hx)) _
      (scoreStep_chosen base name r used b c (hl c (List.mem_cons_self)) h)

theorem fold_unset (base : Nat → Bytes) (name : Bytes) (r : Nat) (used : Nat → Bool)
    (l : List Nat) (hl : ∀ c ∈ l, c < K.simpleMaxCodes) (b : Best) (h : Unset b) :
    (∀ c ∈ l, used c = true) ∨ Chosen used (l.foldl (scoreStep base name r used) b) := by
  induction l generalizing b with
  | nil => left; simp
  | cons c cs ih =>
    simp only [List.foldl_cons]
    have hcs : ∀ x ∈ cs, x < K.simpleMaxCodes := fun x hx => hl x (List.mem_cons_of_mem _ hx)
    rcases scoreStep_unset base name r used b c (hl c (List.mem_cons_self)) h with ⟨hu, hused⟩ | hch
    · rcases ih hcs _ hu with hall | hch
      · left
        intro x hx
        rcases List.mem_cons.mp hx with rfl | hx
        · exact hused
        · exact hall x hx
      · right; exact hch
    · right; exact fold_chosen base name r used cs hcs _ hch

/-- **the score heuristic of `Encode` returns a free byte whenever one exists**, for every base
encoding, glyph name and rune (the comment in the Go code: "at least one code is free and we
always reach this point") -/
theorem chooseCode_free (base : Nat → Bytes) (name : Bytes) (r : Nat) (used : Nat → Bool)
    (h : ∃ c, c < K.simpleMaxCodes ∧ used c = false) :
    chooseCode base name r used < K.simpleMaxCodes ∧ used (chooseCode base name r used) = false := by
  obtain ⟨c, hc, hu⟩ := h
  have hl : ∀ x ∈ List.range K.simpleMaxCodes, x < K.simpleMaxCodes := fun x hx => List.mem_range.mp hx
  rcases fold_unset base name r used (List.range K.simpleMaxCodes) hl {} ⟨rfl, rfl⟩ with hall | hch
  · have := hall c (List.mem_range.mpr hc)
    simp [hu] at this
  · exact ⟨hch.2.1, hch.2.2⟩

theorem makeGlyphName_maps (s s1 : Simple) (gid : Nat) (d f n : Bytes)
    (h : s.makeGlyphName gid d f = some (s1, n)) :
    s1.code = s.code ∧ s1.info = s.info ∧ s1.err = s.err ∧ s1.notdefWidth = s.notdefWidth ∧
    s1 = { s with glyphName := s1.glyphName, glyphNameUsed := s1.glyphNameUsed } := by
  unfold Simple.makeGlyphName at h
  split at h
  · simp at h; obtain ⟨rfl, _⟩ := h; simp
  · split at h
    · simp at h
    · simp at h; obtain ⟨rfl, _⟩ := h; simp

/-- **the exact `Encode` is one of the admissible steps**: reachable states stay reachable -/
theorem reach_encode (base : Nat → Bytes) (s : Simple) (a : EncArgs) (h : Reach s) :
    Reach (s.encode base a).1 := by
  unfold Simple.encode
  split
  · exact h
  · split
    · have := Reach.step s a.gid a.text a.width 0 h (by
        intro _ hsz; omega)
      rename_i hd hfull
      simp [Simple.encodeAt, hd, hfull] at this
      simpa using this
    · split
      · exact h
      · rename_i s1 name hm
        obtain ⟨hc, hi, _, _, hs1⟩ := makeGlyphName_maps s s1 a.gid a.baseName a.fromUni name hm
        have hr1 : Reach s1 := by
          rw [hs1]; exact Reach.names s _ _ h
        simp only
        apply Reach.step s1 a.gid a.text a.width _ hr1
        intro _ hsz
        obtain ⟨c, hc1, hc2⟩ := exists_free_code (s := s1) hsz
        have := chooseCode_free base name a.r (fun c => s1.info.contains c)
          ⟨c, hc1, by simp [Map.contains, hc2]⟩
        refine ⟨this.1, ?_⟩
        have h2 := this.2
        simp [Map.contains] at h2
        exact h2

/-- the exact model from `NewSimple` through any list of `Encode` calls -/
def runExact (base : Nat → Bytes) : Simple → List EncArgs → Simple
  | s, [] => s
  | s, a :: as => runExact base (s.encode base a).1 as

theorem reach_runExact (base : Nat → Bytes) (s : Simple) (as : List EncArgs) (h : Reach s) :
    Reach (runExact base s as) := by
  induction as generalizing s with
  | nil => exact h
  | cons a as ih => exact ih _ (reach_encode base s a h)

/-- `alloc_injective` for the exact model: for every base encoding, notdef width and sequence
of `Encode` calls (any glyph ids, names, texts, widths, runes), no two pairs share a code -/
theorem alloc_injective_exact (base : Nat → Bytes) (w : Int) (as : List EncArgs) (k1 k2 : Key) (c : Nat)
    (h1 : (runExact base (Simple.init w) as).getCode k1.1 k1.2 = some c)
    (h2 : (runExact base (Simple.init w) as).getCode k2.1 k2.2 = some c) : k1 = k2 :=
  alloc_injective (reach_runExact base _ as (Reach.init w)) k1 k2 c h1 h2

/-! ### glyph names: one name per glyph, never shared

`Encoding()` writes `code ↦ glyphName[gid]` into the font dictionary and the reader finds the
glyph (and, without ToUnicode, the text) through that name; two glyphs with one name would make
their codes indistinguishable. -/

structure NameInv (s : Simple) : Prop where
  used : ∀ g n, s.glyphName.get g = some n → Simple.nameUsed s.glyphNameUsed n = true
  inj : ∀ g1 g2 n, s.glyphName.get g1 = some n → s.glyphName.get g2 = some n → g1 = g2

theorem ornSearch_fresh (used : Map Bytes Bool) (idx : Nat) (n : Bytes)
    (h : ornSearch used idx = some n) : Simple.nameUsed used n = false := by
  induction idx with
  | zero =>
    unfold ornSearch at h
    split at h
    · simp at h
    · rename_i hu; simp at h; subst h; simpa using hu
  | succ k ih =>
    unfold ornSearch at h
    split at h
    · exact ih h
    · rename_i hu; simp at h; subst h; simpa using hu

theorem ornSearch_range (used : Map Bytes Bool) (idx : Nat) (n : Bytes)
    (h : ornSearch used idx = some n) : ∃ i, i ≤ idx ∧ n = ornName i := by
  induction idx with
  | zero =>
    unfold ornSearch at h
    split at h
    · simp at h
    · simp at h; exact ⟨0, Nat.le_refl _, h.symm⟩
  | succ k ih =>
    unfold ornSearch at h
    split at h
    · obtain ⟨i, hi, e⟩ := ih h; exact ⟨i, by omega, e⟩
    · simp at h; exact ⟨k + 1, Nat.le_refl _, h.symm⟩

/-- the naming loop only ever returns a name that is not in use, and that is valid or generic -/
theorem nameLoop_fresh (used : Map Bytes Bool) (fuel : Nat) (base g : Bytes) (alt : Nat) (n : Bytes)
    (h : nameLoop used fuel base g alt = some n) :
    Simple.nameUsed used n = false ∧ (isValidName n = true ∨ ∃ i, i ≤ used.size ∧ n = ornName i) := by
  induction fuel generalizing base g alt with
  | zero => simp [nameLoop] at h
  | succ f ih =>
    unfold nameLoop at h
    simp only at h
    split at h
    · split at h
      · split at h
        · rename_i hs; simp at h; subst h
          exact ⟨ornSearch_fresh used _ _ hs, Or.inr (ornSearch_range used _ _ hs)⟩
        · exact ih _ _ _ h
      · exact ih _ _ _ h
    · rename_i hc
      simp at h; subst h
      simp at hc
      exact ⟨hc.2, Or.inl hc.1⟩

theorem nameUsed_insert (used : Map Bytes Bool) (n m : Bytes) :
    Simple.nameUsed (used.insert n true) m = (decide (n = m) || Simple.nameUsed used m) := by
  simp only [Simple.nameUsed, Map.get_insert]
  by_cases h : n = m <;> simp [h]

theorem nameInv_init (w : Int) : NameInv (Simple.init w) := by
  constructor
  · intro g n h
    simp [Simple.init, Map.get_cons] at h
    obtain ⟨_, rfl⟩ := h
    simp [Simple.init, Simple.nameUsed, Map.get_cons]
  · intro g1 g2 n h1 h2
    simp [Simple.init, Map.get_cons] at h1 h2
    omega

theorem nameInv_makeGlyphName (s s1 : Simple) (gid : Nat) (d f n : Bytes) (hi : NameInv s)
    (h : s.makeGlyphName gid d f = some (s1, n)) : NameInv s1 ∧ s1.glyphName.get gid = some n := by
  unfold Simple.makeGlyphName at h
  split at h
  · rename_i n0 hg
    simp at h; obtain ⟨rfl, rfl⟩ := h
    exact ⟨hi, hg⟩
  · rename_i hg
    split at h
    · simp at h
    · rename_i n1 hl
      simp at h; obtain ⟨rfl, rfl⟩ := h
      have hfresh := (nameLoop_fresh _ _ _ _ _ _ hl).1
      refine ⟨⟨?_, ?_⟩, by simp⟩
      · intro g m hm
        simp only [Map.get_insert] at hm
        simp only [nameUsed_insert]
        split at hm
        · simp at hm; simp [hm]
        · simp [hi.used g m hm]
      · intro g1 g2 m h1 h2
        simp only [Map.get_insert] at h1 h2
        split at h1 <;> split at h2
        · omega
        · simp at h1; subst h1
          have := hi.used g2 _ h2
          rw [hfresh] at this; simp at this
        · simp at h2; subst h2
          have := hi.used g1 _ h1
          rw [hfresh] at this; simp at this
        · exact hi.inj g1 g2 m h1 h2

theorem nameInv_encodeAt (s : Simple) (gid : Nat) (text : Bytes) (width : Int) (pick : Nat) (hi : NameInv s) :
    NameInv (s.encodeAt gid text width pick).1 := by
  unfold Simple.encodeAt
  split
  · exact hi
  · split <;> exact ⟨hi.used, hi.inj⟩

theorem nameInv_encode (base : Nat → Bytes) (s : Simple) (a : EncArgs) (hi : NameInv s) :
    NameInv (s.encode base a).1 := by
  unfold Simple.encode
  split
  · exact hi
  · split
    · exact ⟨hi.used, hi.inj⟩
    · split
      · exact hi
      · rename_i s1 name hm
        exact nameInv_encodeAt s1 _ _ _ _ (nameInv_makeGlyphName s s1 _ _ _ _ hi hm).1

theorem nameInv_runExact (base : Nat → Bytes) (as : List EncArgs) (s : Simple) (h : NameInv s) :
    NameInv (runExact base s as) := by
  induction as generalizing s with
  | nil => exact h
  | cons a as ih => exact ih _ (nameInv_encode base s a h)

/-- **glyph names are never shared**: after any sequence of `Encode` calls of the exact model,
two glyphs with the same name are the same glyph -/
theorem glyph_names_injective (base : Nat → Bytes) (w : Int) (as : List EncArgs) (g1 g2 : Nat) (n : Bytes)
    (h1 : (runExact base (Simple.init w) as).glyphName.get g1 = some n)
    (h2 : (runExact base (Simple.init w) as).glyphName.get g2 = some n) : g1 = g2 :=
  (nameInv_runExact base as _ (nameInv_init w)).inj g1 g2 n h1 h2

-- non-vacuity: a concrete history (three pairs, one glyph used with two texts, one duplicate
-- call) is reachable, allocates three distinct codes and reads them back
private def exBase : Nat → Bytes := fun c => if c == 65 then [65] else if c == 32 then nameSpace else nameNotdef
private def exRun : Simple :=
  runExact exBase (Simple.init 500)
    [⟨36, [65], [65], 65, [65], 722⟩, ⟨3, nameSpace, nameSpace, 32, [32], 278⟩,
     ⟨3, nameSpace, nameSpace, 160, [194, 160], 278⟩, ⟨36, [65], [65], 65, [65], 722⟩]
example : exRun.getCode 36 [65] = some 65 ∧ exRun.getCode 3 [32] = some 32 ∧
    exRun.getCode 3 [194, 160] = some 160 ∧ exRun.info.size = 3 ∧
    exRun.codes [65, 160, 7] = [⟨66, 722, [65], false⟩, ⟨161, 278, [194, 160], false⟩, ⟨0, 500, [], false⟩] := by
  decide +kernel

end PdfVerif.C14fnt

import PdfVerif.Props.C13ccb
import PdfVerif.Props.C12ccd
/-!
# C13 (part 3) — `NewToUnicodeFile` followed by `Lookup`

The run compression of `NewToUnicodeFile` (`font/cmap/tu-mapping.go`) is lossless for every
finite map from codes to texts: value lists and the single-start form (`nextString`) alike.
-/
namespace PdfVerif.C13ccc
open PdfVerif PdfVerif.CC PdfVerif.C13cc PdfVerif.C13ccb

/-! ## run detection of `NewToUnicodeFile` within one group -/

/-- the value a reader computes for position `i` of a bfrange -/
def valueAt (values : List Text) (i : Nat) : Option Text :=
  match values with
  | [] => none
  | v0 :: _ =>
    match values[i]? with
    | some v => some v
    | none => some (nextString v0 i)

/-- what an output item says about the last byte `x` of a code with prefix `key` -/
def TUItemCovers (key : Bytes) : Sum TUSingle TURange → Nat → Text → Prop
  | .inl s, x, v => s.code = key ++ [x] ∧ s.value = v
  | .inr r, x, v => ∃ x1 x2, r.first = key ++ [x1] ∧ r.last = key ++ [x2] ∧ x1 ≤ x ∧ x ≤ x2 ∧ x2 < 256 ∧
      valueAt r.values (x - x1) = some v

theorem tuNeedsList_false (v0 : Text) : ∀ (vs : List Text) (j : Nat), tuNeedsList v0 j vs = false →
    ∀ i v, vs[i]? = some v → v = nextString v0 (j + i) := by
  intro vs
  induction vs with
  | nil => intro j _ i v h; simp at h
  | cons w vs ih =>
    intro j h i v hv
    simp only [tuNeedsList] at h
    split at h
    · cases h
    · rename_i hw
      cases i with
      | zero => simp at hv; subst hv; simpa using hw
      | succ i =>
        simp only [List.getElem?_cons_succ] at hv
        have := ih (j + 1) h i v hv
        rw [this]; congr 1; omega

/-- the values a closed run `start, more` stands for, position by position -/
theorem tuEmit_covers (key : Bytes) (start : Entry Text) (lastX : Nat) (more : List Text)
    (hlast : lastX = start.x + more.length) (h256 : lastX < 256) (j : Nat) (hj : j ≤ more.length) :
    TUItemCovers key (tuEmit key start lastX more) (start.x + j) ((start.val :: more)[j]?.getD []) := by
  unfold tuEmit
  cases more with
  | nil =>
    have : j = 0 := by simpa using hj
    subst this
    simp [TUItemCovers]
  | cons m more =>
    simp only [TUItemCovers]
    refine ⟨start.x, lastX, rfl, rfl, by omega, by omega, h256, ?_⟩
    have hjj : start.x + j - start.x = j := by omega
    rw [hjj]
    split
    · -- value list
      simp only [valueAt]
      have : j < (start.val :: m :: more).length := by simp at hj ⊢; omega
      simp [List.getElem?_eq_getElem this]
    · rename_i hnl
      have hnl' : tuNeedsList start.val 1 (m :: more) = false := by
        have := hnl; simp at this; exact this.2
      simp only [valueAt]
      cases j with
      | zero => simp
      | succ j =>
        have hlt : j < (m :: more).length := by simp at hj ⊢; omega
        have := tuNeedsList_false start.val (m :: more) 1 hnl' j _ (List.getElem?_eq_getElem hlt)
        simp only [List.getElem?_cons_succ, List.getElem?_nil, List.getElem?_eq_getElem hlt, Option.getD_some]
        rw [this]; congr 2; omega

/-- conversely, whatever a closed run covers is one of its positions -/
theorem tuEmit_sound (key : Bytes) (start : Entry Text) (lastX : Nat) (more : List Text)
    (hlast : lastX = start.x + more.length) (x : Nat) (v : Text)
    (h : TUItemCovers key (tuEmit key start lastX more) x v) :
    ∃ j, j ≤ more.length ∧ x = start.x + j ∧ v = (start.val :: more)[j]?.getD [] := by
  unfold tuEmit at h
  cases more with
  | nil =>
    simp only [TUItemCovers, List.append_cancel_left_eq, List.cons.injEq, and_true] at h
    exact ⟨0, by simp, by omega, by simp [h.2]⟩
  | cons m more =>
    simp only [TUItemCovers] at h
    obtain ⟨x1, x2, e1, e2, h3, h4, h5, h6⟩ := h
    simp only [List.append_cancel_left_eq, List.cons.injEq, and_true] at e1 e2
    subst e1 e2
    have hle : x - start.x ≤ (m :: more).length := by omega
    have hx : x = start.x + (x - start.x) := by omega
    refine ⟨x - start.x, hle, hx, ?_⟩
    split at h6
    · simp only [valueAt] at h6
      have : x - start.x < (start.val :: m :: more).length := by simp at hle ⊢; omega
      simp only [List.getElem?_eq_getElem this, Option.some.injEq] at h6
      simp [List.getElem?_eq_getElem this, h6]
    · rename_i hnl
      have hnl' : tuNeedsList start.val 1 (m :: more) = false := by
        have := hnl; simp at this; exact this.2
      simp only [valueAt] at h6
      generalize hj : x - start.x = j at h6 hle ⊢
      cases j with
      | zero => simp at h6; simp [h6]
      | succ j =>
        have hlt : j < (m :: more).length := by simp at hle ⊢; omega
        have := tuNeedsList_false start.val (m :: more) 1 hnl' j _ (List.getElem?_eq_getElem hlt)
        simp only [List.getElem?_cons_succ, List.getElem?_nil, Option.some.injEq] at h6
        simp only [List.getElem?_cons_succ, List.getElem?_eq_getElem hlt, Option.getD_some]
        rw [this, ← h6, Nat.add_comm]


/-- the pending run `start, more` is backed by entries of `G` -/
def Pending (G : List (Entry Text)) (start : Entry Text) (more : List Text) : Prop :=
  ∀ j, j ≤ more.length → ∃ e ∈ G, e.x = start.x + j ∧ (start.val :: more)[j]? = some e.val

theorem pending_single (G : List (Entry Text)) (e : Entry Text) (he : e ∈ G) : Pending G e [] := by
  intro j hj
  have : j = 0 := by simpa using hj
  subst this
  exact ⟨e, he, by simp, by simp⟩

theorem pending_snoc (G : List (Entry Text)) (start : Entry Text) (more : List Text) (e : Entry Text)
    (hp : Pending G start more) (he : e ∈ G) (hx : e.x = start.x + more.length + 1) :
    Pending G start (more ++ [e.val]) := by
  intro j hj
  simp only [List.length_append, List.length_singleton] at hj
  by_cases hjl : j ≤ more.length
  · obtain ⟨e', he', h1, h2⟩ := hp j hjl
    refine ⟨e', he', h1, ?_⟩
    rw [← h2, ← List.cons_append, List.getElem?_append_left (by simp; omega)]
  · have : j = more.length + 1 := by omega
    subst this
    refine ⟨e, he, by omega, ?_⟩
    rw [← List.cons_append, List.getElem?_append_right (by simp)]
    simp

theorem tuRuns_sound (key : Bytes) (G : List (Entry Text)) :
    ∀ (rest : List (Entry Text)) (start : Entry Text) (prevX : Nat) (moreRev : List Text),
      Pending G start moreRev.reverse → prevX = start.x + moreRev.length →
      (∀ e ∈ rest, e ∈ G ∧ e.x < 256 ∧ prevX ≤ e.x) →
      List.Pairwise (fun a b : Entry Text => a.x ≤ b.x) rest →
      ∀ item ∈ tuRuns key start prevX moreRev rest, ∀ x v, TUItemCovers key item x v →
        ∃ e ∈ G, e.x = x ∧ e.val = v := by
  intro rest
  induction rest with
  | nil =>
    intro start prevX moreRev hp hpx _ _ item hitem x v hc
    simp only [tuRuns, List.mem_singleton] at hitem
    subst hitem
    obtain ⟨j, hj, hx, hv⟩ := tuEmit_sound key start prevX moreRev.reverse (by simpa using hpx) x v hc
    obtain ⟨e, he, e1, e2⟩ := hp j hj
    exact ⟨e, he, by omega, by rw [hv, e2]; rfl⟩
  | cons e rest ih =>
    intro start prevX moreRev hp hpx hrest hsorted item hitem x v hc
    have he := hrest e (by simp)
    have hsorted' := List.pairwise_cons.mp hsorted
    simp only [tuRuns] at hitem
    split at hitem
    · rcases List.mem_cons.mp hitem with rfl | hitem
      · obtain ⟨j, hj, hx, hv⟩ := tuEmit_sound key start prevX moreRev.reverse (by simpa using hpx) x v hc
        obtain ⟨e', he', e1, e2⟩ := hp j hj
        exact ⟨e', he', by omega, by rw [hv, e2]; rfl⟩
      · exact ih e e.x [] (pending_single G e he.1) (by simp)
          (fun e' he' => ⟨(hrest e' (by simp [he'])).1, (hrest e' (by simp [he'])).2.1, hsorted'.1 e' he'⟩)
          hsorted'.2 item hitem x v hc
    · rename_i hcont
      simp only [bne_iff_ne, ne_eq, Decidable.not_not] at hcont
      have hx' : e.x = prevX + 1 := by
        by_cases h255 : prevX = 255
        · rw [h255] at hcont; simp at hcont; omega
        · rw [hcont]; apply Nat.mod_eq_of_lt; omega
      exact ih start e.x (e.val :: moreRev)
        (by rw [List.reverse_cons]; exact pending_snoc G start _ e hp he.1 (by simp; omega))
        (by simp; omega)
        (fun e' he' => ⟨(hrest e' (by simp [he'])).1, (hrest e' (by simp [he'])).2.1, hsorted'.1 e' he'⟩)
        hsorted'.2 item hitem x v hc

theorem tuRuns_complete (key : Bytes) :
    ∀ (rest : List (Entry Text)) (start : Entry Text) (prevX : Nat) (moreRev : List Text),
      prevX = start.x + moreRev.length → prevX < 256 →
      (∀ e ∈ rest, e.x < 256 ∧ prevX ≤ e.x) →
      List.Pairwise (fun a b : Entry Text => a.x ≤ b.x) rest →
      (∀ j v, (start.val :: moreRev.reverse)[j]? = some v →
          ∃ item ∈ tuRuns key start prevX moreRev rest, TUItemCovers key item (start.x + j) v) ∧
      (∀ e ∈ rest, ∃ item ∈ tuRuns key start prevX moreRev rest, TUItemCovers key item e.x e.val) := by
  intro rest
  induction rest with
  | nil =>
    intro start prevX moreRev hpx hp256 _ _
    refine ⟨?_, by simp⟩
    intro j v hv
    simp only [tuRuns, List.mem_singleton, exists_eq_left]
    have hj : j ≤ moreRev.reverse.length := by
      have := (List.getElem?_eq_some_iff.mp hv).1; simp at this ⊢; omega
    have := tuEmit_covers key start prevX moreRev.reverse (by simpa using hpx) hp256 j hj
    rw [hv] at this; exact this
  | cons e rest ih =>
    intro start prevX moreRev hpx hp256 hrest hsorted
    have he := hrest e (by simp)
    have hsorted' := List.pairwise_cons.mp hsorted
    simp only [tuRuns]
    split
    · obtain ⟨i1, i2⟩ := ih e e.x [] (by simp) he.1
        (fun e' he' => ⟨(hrest e' (by simp [he'])).1, hsorted'.1 e' he'⟩) hsorted'.2
      constructor
      · intro j v hv
        refine ⟨_, List.mem_cons_self, ?_⟩
        have hj : j ≤ moreRev.reverse.length := by
          have := (List.getElem?_eq_some_iff.mp hv).1; simp at this ⊢; omega
        have := tuEmit_covers key start prevX moreRev.reverse (by simpa using hpx) hp256 j hj
        rw [hv] at this; exact this
      · intro e' he'
        rcases List.mem_cons.mp he' with rfl | he'
        · obtain ⟨item, hi, hc⟩ := i1 0 e'.val (by simp)
          exact ⟨item, List.mem_cons_of_mem _ hi, by simpa using hc⟩
        · obtain ⟨item, hi, hc⟩ := i2 e' he'
          exact ⟨item, List.mem_cons_of_mem _ hi, hc⟩
    · rename_i hcont
      simp only [bne_iff_ne, ne_eq, Decidable.not_not] at hcont
      have hx' : e.x = prevX + 1 := by
        by_cases h255 : prevX = 255
        · rw [h255] at hcont; simp at hcont; omega
        · rw [hcont]; apply Nat.mod_eq_of_lt; omega
      obtain ⟨i1, i2⟩ := ih start e.x (e.val :: moreRev) (by simp; omega) he.1
        (fun e' he' => ⟨(hrest e' (by simp [he'])).1, hsorted'.1 e' he'⟩) hsorted'.2
      constructor
      · intro j v hv
        apply i1 j v
        rw [List.reverse_cons, ← List.cons_append, List.getElem?_append_left]
        · exact hv
        · exact (List.getElem?_eq_some_iff.mp hv).1
      · intro e' he'
        rcases List.mem_cons.mp he' with rfl | he'
        · obtain ⟨item, hi, hc⟩ := i1 (moreRev.length + 1) e'.val (by
            rw [List.reverse_cons, ← List.cons_append, List.getElem?_append_right (by simp)]
            simp)
          refine ⟨item, hi, ?_⟩
          have : e'.x = start.x + (moreRev.length + 1) := by omega
          rw [this]; exact hc
        · exact i2 e' he'


/-! ## sorting and grouping (entries with text values) -/

theorem sorted_insertByT (a : Entry Text) (l : List (Entry Text))
    (h : List.Pairwise (fun a b : Entry Text => a.x ≤ b.x) l) :
    List.Pairwise (fun a b : Entry Text => a.x ≤ b.x) (insertBy (fun a b => decide (a.x < b.x)) a l) := by
  induction l with
  | nil => simp [insertBy]
  | cons c l ih =>
    have hc := List.pairwise_cons.mp h
    simp only [insertBy]
    split
    · rename_i hlt
      simp only [decide_eq_true_eq] at hlt
      refine List.pairwise_cons.mpr ⟨?_, h⟩
      intro b hb
      rcases List.mem_cons.mp hb with rfl | hb
      · omega
      · have := hc.1 b hb; omega
    · rename_i hlt
      simp only [decide_eq_true_eq, Nat.not_lt] at hlt
      refine List.pairwise_cons.mpr ⟨?_, ih hc.2⟩
      intro b hb
      rcases (mem_insertBy _ _ _ _).mp hb with rfl | hb
      · exact hlt
      · exact hc.1 b hb

theorem sorted_sortByT (l : List (Entry Text)) :
    List.Pairwise (fun a b : Entry Text => a.x ≤ b.x) (sortBy (fun a b => decide (a.x < b.x)) l) := by
  induction l with
  | nil => simp [sortBy]
  | cons a l ih => exact sorted_insertByT a _ ih

theorem mem_sortedKeysT (es : List (Entry Text)) (k : Bytes) : k ∈ sortedKeys es ↔ ∃ e ∈ es, e.key = k := by
  simp [sortedKeys, mem_dedupSorted, mem_sortBy]

theorem mem_groupOfT (es : List (Entry Text)) (k : Bytes) (e : Entry Text) :
    e ∈ groupOf es k ↔ e ∈ es ∧ e.key = k := by
  simp [groupOf, mem_sortBy]

theorem group_casesT (es : List (Entry Text)) (k : Bytes) (hes : ∀ e ∈ es, e.x < 256) :
    groupOf es k = [] ∨ ∃ e0 rest, groupOf es k = e0 :: rest ∧ (∀ e ∈ rest, e0.x ≤ e.x) ∧
      List.Pairwise (fun a b : Entry Text => a.x ≤ b.x) rest ∧
      (∀ e ∈ e0 :: rest, e ∈ es ∧ e.key = k ∧ e.x < 256) := by
  cases hG : groupOf es k with
  | nil => exact .inl rfl
  | cons e0 rest =>
    right
    have hs : List.Pairwise (fun a b : Entry Text => a.x ≤ b.x) (groupOf es k) := sorted_sortByT _
    rw [hG] at hs
    have hs' := List.pairwise_cons.mp hs
    refine ⟨e0, rest, rfl, hs'.1, hs'.2, ?_⟩
    intro e he
    have := (mem_groupOfT es k e).mp (by rw [hG]; exact he)
    exact ⟨this.1, this.2, hes e this.1⟩

/-! ## the whole output of `NewToUnicodeFile` -/

def TUCovers : Sum TUSingle TURange → Bytes → Text → Prop
  | .inl s, bytes, v => s.code = bytes ∧ s.value = v
  | .inr r, bytes, v => ∃ i, rangeIndex r.first r.last bytes = some i ∧ valueAt r.values i = some v

def tuOutOf (es : List (Entry Text)) : List (Sum TUSingle TURange) :=
  (sortedKeys es).flatMap fun key => tuRunsOfGroup key (groupOf es key)

theorem tuEmit_shape (key : Bytes) (start : Entry Text) (lastX : Nat) (more : List Text) (h : lastX < 256) :
    (∃ x0 v, tuEmit key start lastX more = .inl ⟨key ++ [x0], v⟩) ∨
    (∃ x1 x2 vs, tuEmit key start lastX more = .inr ⟨key ++ [x1], key ++ [x2], vs⟩ ∧ x2 < 256) := by
  unfold tuEmit
  cases more with
  | nil => exact .inl ⟨_, _, rfl⟩
  | cons m more => exact .inr ⟨_, _, _, rfl, h⟩

theorem tuRuns_shape (key : Bytes) : ∀ (rest : List (Entry Text)) (start : Entry Text) (prevX : Nat) (moreRev : List Text),
    prevX < 256 → (∀ e ∈ rest, e.x < 256) →
    ∀ item ∈ tuRuns key start prevX moreRev rest,
      (∃ x0 v, item = .inl ⟨key ++ [x0], v⟩) ∨ (∃ x1 x2 vs, item = .inr ⟨key ++ [x1], key ++ [x2], vs⟩ ∧ x2 < 256) := by
  intro rest
  induction rest with
  | nil =>
    intro start prevX moreRev hp _ item hitem
    simp only [tuRuns, List.mem_singleton] at hitem
    subst hitem
    exact tuEmit_shape key start prevX _ hp
  | cons e rest ih =>
    intro start prevX moreRev hp hrest item hitem
    simp only [tuRuns] at hitem
    split at hitem
    · rcases List.mem_cons.mp hitem with rfl | hitem
      · exact tuEmit_shape key start prevX _ hp
      · exact ih e e.x [] (hrest e (by simp)) (fun e' he' => hrest e' (by simp [he'])) item hitem
    · exact ih start e.x _ (hrest e (by simp)) (fun e' he' => hrest e' (by simp [he'])) item hitem

theorem tu_covers_iff (key : Bytes) (item : Sum TUSingle TURange)
    (hshape : (∃ x0 v, item = .inl ⟨key ++ [x0], v⟩) ∨ (∃ x1 x2 vs, item = .inr ⟨key ++ [x1], key ++ [x2], vs⟩ ∧ x2 < 256))
    (bytes : Bytes) (v : Text) :
    TUCovers item bytes v ↔ ∃ x, bytes = key ++ [x] ∧ TUItemCovers key item x v := by
  rcases hshape with ⟨x0, v0, rfl⟩ | ⟨x1, x2, vs, rfl, h2⟩
  · simp only [TUCovers, TUItemCovers]
    constructor
    · rintro ⟨rfl, rfl⟩; exact ⟨x0, rfl, rfl, rfl⟩
    · rintro ⟨x, rfl, h, rfl⟩; exact ⟨h, rfl⟩
  · simp only [TUCovers, TUItemCovers]
    constructor
    · rintro ⟨i, hi, hv⟩
      obtain ⟨x, rfl, h3, h4, rfl⟩ := (rangeIndex_append key x1 x2 h2 bytes i).mp hi
      exact ⟨x, rfl, x1, x2, rfl, rfl, h3, h4, h2, hv⟩
    · rintro ⟨x, rfl, y1, y2, e1, e2, h3, h4, h5, hv⟩
      simp only [List.append_cancel_left_eq, List.cons.injEq, and_true] at e1 e2
      subst e1 e2
      exact ⟨x - x1, (rangeIndex_append key x1 x2 h2 _ _).mpr ⟨x, rfl, h3, h4, rfl⟩, hv⟩

theorem tu_out_sound (es : List (Entry Text)) (hes : ∀ e ∈ es, e.x < 256) (item : Sum TUSingle TURange)
    (hitem : item ∈ tuOutOf es) (bytes : Bytes) (v : Text) (hc : TUCovers item bytes v) :
    ∃ e ∈ es, bytes = e.key ++ [e.x] ∧ v = e.val := by
  simp only [tuOutOf, List.mem_flatMap] at hitem
  obtain ⟨k, _, hitem⟩ := hitem
  rcases group_casesT es k hes with hG | ⟨e0, rest, hG, h1, h2, h3⟩
  · simp [hG, tuRunsOfGroup] at hitem
  · rw [hG] at hitem
    simp only [tuRunsOfGroup] at hitem
    have hshape := tuRuns_shape k rest e0 e0.x [] (h3 e0 (by simp)).2.2
      (fun e he => (h3 e (by simp [he])).2.2) item hitem
    obtain ⟨x, rfl, hic⟩ := (tu_covers_iff k item hshape bytes v).mp hc
    obtain ⟨e, he, e1, e2⟩ := tuRuns_sound k (e0 :: rest) rest e0 e0.x []
      (pending_single _ e0 (by simp)) (by simp)
      (fun e he => ⟨by simp [he], (h3 e (by simp [he])).2.2, h1 e he⟩) h2 item hitem x v hic
    have := h3 e he
    exact ⟨e, this.1, by rw [this.2.1, e1], e2.symm⟩

theorem tu_out_complete (es : List (Entry Text)) (hes : ∀ e ∈ es, e.x < 256) (e : Entry Text) (he : e ∈ es) :
    ∃ item ∈ tuOutOf es, TUCovers item (e.key ++ [e.x]) e.val := by
  have hk : e.key ∈ sortedKeys es := (mem_sortedKeysT es e.key).mpr ⟨e, he, rfl⟩
  have heG : e ∈ groupOf es e.key := (mem_groupOfT es e.key e).mpr ⟨he, rfl⟩
  rcases group_casesT es e.key hes with hG | ⟨e0, rest, hG, h1, h2, h3⟩
  · rw [hG] at heG; simp at heG
  · rw [hG] at heG
    obtain ⟨c1, c2⟩ := tuRuns_complete e.key rest e0 e0.x [] (by simp) (h3 e0 (by simp)).2.2
      (fun e' he' => ⟨(h3 e' (by simp [he'])).2.2, h1 e' he'⟩) h2
    have hmem : ∀ item, item ∈ tuRuns e.key e0 e0.x [] rest → item ∈ tuOutOf es := by
      intro item hi
      simp only [tuOutOf, List.mem_flatMap]
      exact ⟨e.key, hk, by rw [hG]; exact hi⟩
    have hshape := fun item hi => tuRuns_shape e.key rest e0 e0.x [] (h3 e0 (by simp)).2.2
      (fun e he => (h3 e (by simp [he])).2.2) item hi
    rcases List.mem_cons.mp heG with rfl | heG
    · obtain ⟨item, hi, hc⟩ := c1 0 e.val (by simp)
      exact ⟨item, hmem item hi, (tu_covers_iff _ item (hshape item hi) _ _).mpr ⟨e.x, rfl, by simpa using hc⟩⟩
    · obtain ⟨item, hi, hc⟩ := c2 e heG
      exact ⟨item, hmem item hi, (tu_covers_iff _ item (hshape item hi) _ _).mpr ⟨e.x, rfl, hc⟩⟩


/-! ## `Lookup` in the file built by `NewToUnicodeFile` -/

theorem findTUSingle_some (code : Bytes) (l : List TUSingle) (v : Text) (h : findTUSingle code l = some v) :
    ∃ s ∈ l, s.code = code ∧ s.value = v := by
  induction l with
  | nil => simp [findTUSingle] at h
  | cons s l ih =>
    simp only [findTUSingle] at h
    split at h
    · rename_i heq
      exact ⟨s, by simp, by simpa using heq, by simpa using h⟩
    · obtain ⟨s', hs', h'⟩ := ih h; exact ⟨s', by simp [hs'], h'⟩

theorem findTUSingle_none (code : Bytes) (l : List TUSingle) (h : findTUSingle code l = none) :
    ∀ s ∈ l, s.code ≠ code := by
  induction l with
  | nil => simp
  | cons s l ih =>
    simp only [findTUSingle] at h
    split at h
    · cases h
    · rename_i hne
      intro s' hs'
      rcases List.mem_cons.mp hs' with rfl | hs'
      · simpa using hne
      · exact ih h s' hs'

theorem findTURange_step (code : Bytes) (r : TURange) (rest : List TURange) :
    findTURange code (r :: rest) =
      match rangeIndex r.first r.last code with
      | none => findTURange code rest
      | some i => match valueAt r.values i with
        | none => findTURange code rest
        | some v => some v := by
  simp only [findTURange, valueAt]
  cases hv : r.values with
  | nil => cases rangeIndex r.first r.last code <;> rfl
  | cons v0 vs =>
    simp only
    cases rangeIndex r.first r.last code with
    | none => rfl
    | some i =>
      simp only
      cases (v0 :: vs)[i]? <;> rfl

theorem findTURange_some (code : Bytes) (l : List TURange) (v : Text) (h : findTURange code l = some v) :
    ∃ r ∈ l, ∃ i, rangeIndex r.first r.last code = some i ∧ valueAt r.values i = some v := by
  induction l with
  | nil => simp [findTURange] at h
  | cons r l ih =>
    rw [findTURange_step] at h
    cases hi : rangeIndex r.first r.last code with
    | none => rw [hi] at h; obtain ⟨r', hr', h'⟩ := ih h; exact ⟨r', by simp [hr'], h'⟩
    | some i =>
      rw [hi] at h
      simp only at h
      cases hv : valueAt r.values i with
      | none => rw [hv] at h; obtain ⟨r', hr', h'⟩ := ih h; exact ⟨r', by simp [hr'], h'⟩
      | some w => rw [hv] at h; simp only [Option.some.injEq] at h; subst h; exact ⟨r, by simp, i, hi, hv⟩

theorem findTURange_none (code : Bytes) (l : List TURange) (h : findTURange code l = none) :
    ∀ r ∈ l, ∀ i, rangeIndex r.first r.last code = some i → valueAt r.values i = none := by
  induction l with
  | nil => simp
  | cons r l ih =>
    rw [findTURange_step] at h
    intro r' hr' i hi
    cases hi0 : rangeIndex r.first r.last code with
    | none =>
      rw [hi0] at h
      rcases List.mem_cons.mp hr' with rfl | hr'
      · rw [hi0] at hi; cases hi
      · exact ih h r' hr' i hi
    | some i0 =>
      rw [hi0] at h
      simp only at h
      cases hv : valueAt r.values i0 with
      | none =>
        rw [hv] at h
        rcases List.mem_cons.mp hr' with rfl | hr'
        · rw [hi0] at hi; injection hi with hi; subst hi; exact hv
        · exact ih h r' hr' i hi
      | some w => rw [hv] at h; cases h

theorem tu_lookup_of_entries (f : TUFile) (es : List (Entry Text)) (hes : ∀ e ∈ es, e.x < 256)
    (hfun : ∀ e ∈ es, ∀ e' ∈ es, e.key ++ [e.x] = e'.key ++ [e'.x] → e.val = e'.val)
    (hs : f.singles = lefts (tuOutOf es)) (hr : f.ranges = rights (tuOutOf es)) :
    (∀ e ∈ es, tuLookup [f] (e.key ++ [e.x]) = some e.val) ∧
    (∀ bytes, (∀ e ∈ es, bytes ≠ e.key ++ [e.x]) → tuLookup [f] bytes = none) := by
  have hsingle : ∀ bytes v, findTUSingle bytes f.singles = some v → ∃ e ∈ es, bytes = e.key ++ [e.x] ∧ v = e.val := by
    intro bytes v h
    obtain ⟨s, hs', h1, h2⟩ := findTUSingle_some bytes _ v h
    rw [hs, mem_lefts] at hs'
    exact tu_out_sound es hes _ hs' bytes v ⟨h1, h2⟩
  have hrange : ∀ bytes v, findTURange bytes f.ranges = some v → ∃ e ∈ es, bytes = e.key ++ [e.x] ∧ v = e.val := by
    intro bytes v h
    obtain ⟨r, hr', i, h1, h2⟩ := findTURange_some bytes _ v h
    rw [hr, mem_rights] at hr'
    exact tu_out_sound es hes _ hr' bytes v ⟨i, h1, h2⟩
  constructor
  · intro e he
    simp only [tuLookup]
    cases h1 : findTUSingle (e.key ++ [e.x]) f.singles with
    | some v =>
      obtain ⟨e', he', h2, h3⟩ := hsingle _ v h1
      simp only; rw [h3, hfun e he e' he' h2]
    | none =>
      cases h2 : findTURange (e.key ++ [e.x]) f.ranges with
      | some v =>
        obtain ⟨e', he', h3, h4⟩ := hrange _ v h2
        simp only; rw [h4, hfun e he e' he' h3]
      | none =>
        exfalso
        obtain ⟨item, hi, hc⟩ := tu_out_complete es hes e he
        cases item with
        | inl s =>
          have := findTUSingle_none _ _ h1 s (by rw [hs, mem_lefts]; exact hi)
          exact this hc.1
        | inr r =>
          obtain ⟨i, hi', hv⟩ := hc
          have := findTURange_none _ _ h2 r (by rw [hr, mem_rights]; exact hi) i hi'
          rw [this] at hv; cases hv
  · intro bytes hno
    simp only [tuLookup]
    cases h1 : findTUSingle bytes f.singles with
    | some v => obtain ⟨e, he, h2, _⟩ := hsingle _ v h1; exact absurd h2 (hno e he)
    | none =>
      cases h2 : findTURange bytes f.ranges with
      | some v => obtain ⟨e, he, h3, _⟩ := hrange _ v h2; exact absurd h3 (hno e he)
      | none => rfl

theorem tuEntries_spec (codec : Codec) : ∀ (data : List (Nat × Text)) (es : List (Entry Text)),
    tuEntries codec data = .ok es →
    (∀ e ∈ es, ∃ p ∈ data, codec.appendCode p.1 = .ok (e.key ++ [e.x]) ∧ e.val = p.2) ∧
    (∀ p ∈ data, ∃ e ∈ es, codec.appendCode p.1 = .ok (e.key ++ [e.x]) ∧ e.val = p.2) := by
  intro data
  induction data with
  | nil => intro es h; simp [tuEntries] at h; subst h; simp
  | cons p data ih =>
    intro es h
    obtain ⟨code, t⟩ := p
    simp only [tuEntries] at h
    split at h
    · cases h
    · rename_i buf hbuf
      split at h
      · cases h
      · rename_i es' hes'
        split at h
        · cases h
        · rename_i key x hsplit
          injection h with h; subst h
          have hb := splitLast_eq buf key x hsplit
          obtain ⟨i1, i2⟩ := ih es' hes'
          constructor
          · intro e he
            rcases List.mem_cons.mp he with rfl | he
            · exact ⟨(code, t), by simp, by simp [hbuf, hb], rfl⟩
            · obtain ⟨p, hp, h'⟩ := i1 e he; exact ⟨p, by simp [hp], h'⟩
          · intro p hp
            rcases List.mem_cons.mp hp with rfl | hp
            · exact ⟨⟨key, x, t⟩, by simp, by simp [hbuf, hb], rfl⟩
            · obtain ⟨e, he, h'⟩ := i2 p hp; exact ⟨e, by simp [he], h'⟩

/-- **`tounicode_lookup`.**  For every accepted code space and every finite map from codes to
texts (codes with equal byte strings carry equal texts — a Go map with canonical codes), the
file built by `NewToUnicodeFile` answers `Lookup` for every mapped code with exactly the mapped
text and for every other byte string with "absent": the run compression — value lists and the
single-start form alike — is lossless.  (The single-start form is only chosen when every value
equals `nextString(first, offset)`, the value `Lookup` computes; this is the repair of D13.) -/
theorem tounicode_lookup (csr : CSR) (data : List (Nat × Text)) (f : TUFile) (codec : Codec)
    (hc : newCodec csr = .ok codec) (h : newToUnicodeFile csr data = .ok f)
    (hfun : ∀ p ∈ data, ∀ q ∈ data, codec.appendCode p.1 = codec.appendCode q.1 → p.2 = q.2) :
    (∀ p ∈ data, ∃ bs, codec.appendCode p.1 = .ok bs ∧ tuLookup [f] bs = some p.2) ∧
    (∀ bs, (∀ p ∈ data, codec.appendCode p.1 ≠ .ok bs) → tuLookup [f] bs = none) := by
  unfold newToUnicodeFile at h
  rw [hc] at h
  simp only at h
  split at h
  · cases h
  · rename_i es hes
    injection h with h
    obtain ⟨i1, i2⟩ := tuEntries_spec codec data es hes
    have hok : ∀ e ∈ es, e.x < 256 := by
      intro e he
      obtain ⟨p, hp, h1, _⟩ := i1 e he
      obtain ⟨bs, _, h2, _, _, h3, _⟩ := C12ccd.append_then_decode csr codec hc p.1
      rw [h1] at h2; injection h2 with h2
      exact h3 e.x (by rw [← h2]; simp)
    have hfun' : ∀ e ∈ es, ∀ e' ∈ es, e.key ++ [e.x] = e'.key ++ [e'.x] → e.val = e'.val := by
      intro e he e' he' heq
      obtain ⟨p, hp, h1, h2⟩ := i1 e he
      obtain ⟨q, hq, h3, h4⟩ := i1 e' he'
      rw [h2, h4]
      exact hfun p hp q hq (by rw [h1, h3, heq])
    obtain ⟨l1, l2⟩ := tu_lookup_of_entries f es hok hfun' (by rw [← h]; rfl) (by rw [← h]; rfl)
    constructor
    · intro p hp
      obtain ⟨e, he, h1, h2⟩ := i2 p hp
      exact ⟨_, h1, by rw [l1 e he, h2]⟩
    · intro bs hno
      apply l2
      intro e he heq
      obtain ⟨p, hp, h1, _⟩ := i1 e he
      exact hno p hp (by rw [h1, heq])

/-- non-vacuity and the D13 witness: `41↦U+D7FF, 42↦U+FFFD, 43↦U+FFFE` is stored as a value list
(the single-start form would read back `U+FFFD` for `43`) -/
example : tuRunsOfGroup [] [⟨[], 0x41, [0xD7FF]⟩, ⟨[], 0x42, [0xFFFD]⟩, ⟨[], 0x43, [0xFFFE]⟩] =
    [.inr ⟨[0x41], [0x43], [[0xD7FF], [0xFFFD], [0xFFFE]]⟩] := by decide +kernel
example : tuRunsOfGroup [] [⟨[], 0x41, [0x41]⟩, ⟨[], 0x42, [0x42]⟩, ⟨[], 0x43, [0x43]⟩] =
    [.inr ⟨[0x41], [0x43], [[0x41]]⟩] := by decide +kernel
example : nextString [0xD7FF] 2 = [0xFFFD] := by decide +kernel

end PdfVerif.C13ccc

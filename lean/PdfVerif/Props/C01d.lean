import PdfVerif.Lemmas.C01Canon
import PdfVerif.Props.C01c
/-!
# C01 (part d) — nested objects: `obj_rt`

Arrays and dictionaries nested to any depth up to `maxScannerNestDepth`, under both values of
`OptPretty`: the text written by `doFormat` is read back by `ReadObject` as the same tree
(`rd`: nil dictionary entries are not written, a nil array reads as null, a real reads as its
written token).  The proof is a hand-written mutual structural induction over the nested
inductive `Obj` / `List Obj` / `List (Bytes × Obj)`; the step lemmas are in `Lemmas/C01Arr.lean`
(array loop, `a b R` detection) and `Lemmas/C01Dict.lean` (dictionary loop, reference look-ahead).
-/
namespace PdfVerif.C01d
open PdfVerif PdfVerif.C01b PdfVerif.C01L

mutual
/-- every object reads back (references are read by the enclosing array/dictionary loop) -/
theorem readsBack_all (opt : FmtOpt) : (o : Obj) → ReadsBack opt o
  | .arr xs => readsBack_arr opt xs (arrReads_all opt xs)
  | .dict kv => readsBack_dict opt kv (dictReads_all opt kv)
  | .ref _ _ => fun _ h => by simp [isRefObj] at h
  | .op _ => fun h => by simp [good] at h
  | .null => readsBack_scalar opt _ rfl
  | .nilArr => readsBack_scalar opt _ rfl
  | .bool _ => readsBack_scalar opt _ rfl
  | .int _ => readsBack_scalar opt _ rfl
  | .real _ => readsBack_scalar opt _ rfl
  | .name _ => readsBack_scalar opt _ rfl
  | .str _ => readsBack_scalar opt _ rfl
/-- every element sequence reads back inside `[ ]` -/
theorem arrReads_all (opt : FmtOpt) : (xs : List Obj) → ArrReads opt xs
  | [] => arrReads_nil opt
  | x :: xs => arrReads_cons opt x xs (readsBack_all opt x) (arrReads_all opt xs)
/-- every entry sequence reads back inside `<< >>` -/
theorem dictReads_all (opt : FmtOpt) : (kv : List (Bytes × Obj)) → DictReads opt kv
  | [] => dictReads_nil opt
  | (k, v) :: es => dictReads_cons opt k v es (readsBack_all opt v) (dictReads_all opt es)
end

/-! ## the round trip of `Format` followed by `ReadObject` -/

theorem format_single (opt : FmtOpt) (o : Obj) (bytes : Bytes) :
    format opt [o] = some bytes ↔ ∃ ns', fmtObj opt false o.canon = some (bytes, ns') := by
  unfold format
  cases hp : opt.pretty
  · simp only [Bool.false_eq_true, if_false, canonList]
    rw [fmtSeq_cons_inv]
    constructor
    · rintro ⟨a, ns1, b, h1, h2, rfl⟩
      simp [fmtSeq] at h2; subst h2
      exact ⟨ns1, by simpa using h1⟩
    · rintro ⟨ns', h⟩
      exact ⟨bytes, ns', [], h, rfl, by simp⟩
  · simp only [if_true, canonList]
    rw [fmtSeqPretty_cons_inv]
    constructor
    · rintro ⟨a, ns1, b, h1, h2, rfl⟩
      simp [fmtSeqPretty] at h2; subst h2
      exact ⟨ns1, by simpa using h1⟩
    · rintro ⟨ns', h⟩
      exact ⟨bytes, ns', [], h, rfl, by simp⟩

/-- the nesting limit of the scanner, as the hypothesis of the theorems below -/
def depthOk (o : Obj) : Prop := depthOf o ≤ Gen.scanner_maxScannerNestDepth

/-- **Object round trip, exact form.**  For every object tree `o` within the size limits
(`good`) and nested at most `maxScannerNestDepth` deep, under every option set: `Format` succeeds,
and a fresh scanner's `ReadObject` on the produced text returns exactly `rd o.canon` — the tree
with every dictionary in `SortedKeys` order, nil entries left out, nil arrays as null, reals as
their written tokens — and consumes all input.  (A top-level reference is excluded: `1 0 R` is
only recognised inside arrays and dictionaries and by `ReadIndirectObject`.) -/
theorem obj_rt_exact (opt : FmtOpt) (o : Obj) (hg : good o = true) (hd : depthOk o)
    (hr : isRefObj o = false) :
    ∃ bytes, format opt [o] = some bytes ∧ parseObject bytes = .ok (rd o.canon, []) := by
  have hgc := good_canon o hg
  obtain ⟨⟨bytes, ns'⟩, hf⟩ := fmtObj_some opt o.canon hgc false
  refine ⟨bytes, (format_single opt o bytes).mpr ⟨ns', hf⟩, ?_⟩
  have hdc : 0 + depthOf o.canon ≤ Gen.scanner_maxScannerNestDepth := by
    have := depth_canon o; unfold depthOk at hd; omega
  obtain ⟨k', h1, h2, _⟩ := readsBack_all opt o.canon hgc (by rw [isRefObj_canon]; exact hr) 0 hdc
    bytes ns' hf [] trivial (scanFuel bytes) (by simp [scanFuel])
  have hk : k' = [] := by rcases h2 with h | h <;> simpa [skipWS] using h
  subst hk
  simpa [parseObject] using h1

/-- **Object round trip** (`obj_rt`).  Formatting any object tree within the documented limits,
under any option set, and parsing the text yields a value equal to the original — a nil
dictionary entry counting as absent, a nil array as null, dictionaries compared as key-sorted
association lists (`nrm`). -/
theorem obj_rt (opt : FmtOpt) (o : Obj) (hg : good o = true) (hd : depthOk o) (hr : isRefObj o = false) :
    ∃ bytes r, format opt [o] = some bytes ∧ parseObject bytes = .ok (r, []) ∧ nrm r = nrm o := by
  obtain ⟨bytes, h1, h2⟩ := obj_rt_exact opt o hg hd hr
  exact ⟨bytes, rd o.canon, h1, h2, nrm_rd_canon o hg⟩

/-- **Sequences** (`seq_rt`).  Any list of objects (nested, references included) written by one
`Format` call is read back, in order, between brackets — what `ReadArray` and the harness oracle
do — and whatever follows the closing bracket is left untouched. -/
theorem seq_rt (opt : FmtOpt) (xs : List Obj) (hg : goodList xs = true)
    (hlen : xs.length ≤ Gen.scanner_maxArrayLen)
    (hd : depthList xs < Gen.scanner_maxScannerNestDepth) (rest : Bytes) :
    ∃ body r, format opt xs = some body ∧
      parseObject (91 :: (body ++ 93 :: rest)) = .ok (.arr r, rest) ∧ nrmList r = nrmList xs := by
  have hgc := goodList_canon xs hg
  have hga : good (.arr (canonList xs)) = true := by
    simp [good, hgc, canonList_length, hlen]
  obtain ⟨hp, hq⟩ := fmtSeq_some opt (canonList xs) hgc
  have hbody : ∃ body, (if opt.pretty then fmtSeqPretty opt true (canonList xs)
      else fmtSeq opt false (canonList xs)) = some body := by
    cases opt.pretty
    · simpa using hp false
    · simpa using hq true
  obtain ⟨body, hb⟩ := hbody
  refine ⟨body, rdList (canonList xs), by unfold format; exact hb, ?_, nrmList_rd_canon xs hg⟩
  have hdd : 0 + depthOf (.arr (canonList xs)) ≤ Gen.scanner_maxScannerNestDepth := by
    have := depthList_canon xs
    simp [depthOf]; omega
  have := arr_read opt (canonList xs) (arrReads_all opt _) hga 0 hdd body hb rest
    (scanFuel (91 :: (body ++ 93 :: rest))) (by simp [scanFuel])
  simpa [parseObject] using this



/-- **Formatting is injective up to `nrm`**: two good objects with the same text are the same
value (a corollary of `obj_rt`: the parser is a function). -/
theorem format_injective (opt : FmtOpt) (o1 o2 : Obj) (h1 : good o1 = true) (h2 : good o2 = true)
    (d1 : depthOk o1) (d2 : depthOk o2) (r1 : isRefObj o1 = false) (r2 : isRefObj o2 = false)
    (h : format opt [o1] = format opt [o2]) : nrm o1 = nrm o2 := by
  obtain ⟨b1, x1, f1, p1, n1⟩ := obj_rt opt o1 h1 d1 r1
  obtain ⟨b2, x2, f2, p2, n2⟩ := obj_rt opt o2 h2 d2 r2
  rw [h, f2] at f1
  have hb : b2 = b1 := Option.some.inj f1
  subst hb
  rw [p2] at p1
  have hx : x2 = x1 := by
    have := Except.ok.inj p1
    exact (Prod.mk.inj this).1
  rw [← n1, ← n2, hx]

theorem sortedEntries_single (k : Bytes) (v : Obj) : sortedEntries [(k, v)] = [(k, v)] :=
  List.perm_singleton.mp (sortedEntries_perm [(k, v)])

/-- **Reference as a dictionary value** (`ref_rt`, dictionary context): `<</K n g R>>` is read
back as the dictionary with that reference — the look-ahead `ReadInteger`, `R` after an integer
value. -/
theorem ref_rt_dict (opt : FmtOpt) (k : Bytes) (hk : goodName k = true) (n g : Nat)
    (hn : n < Gen.xref_maxXRefSize) (hgen : g ≤ Gen.xref_maxGeneration) :
    ∃ bytes, format opt [.dict [(k, .ref n g)]] = some bytes ∧
      parseObject bytes = .ok (.dict [(k, .ref n g)], []) := by
  have h1 : 1 ≤ Gen.scanner_maxDictLen := by decide
  have h2 := C01c.nest_room
  have hg : good (.dict [(k, .ref n g)]) = true := by
    simp [good, goodKV, hk, hn, hgen, keysOf]; exact h1
  obtain ⟨bytes, hb, hp⟩ := obj_rt_exact opt _ hg (by simp [depthOk, depthOf, depthKV]; exact h2) rfl
  refine ⟨bytes, hb, ?_⟩
  simpa [Obj.canon, canonKV, sortedEntries_single, rd, rdKV] using hp

/-! non-vacuity: a nested tree with every kind of value, `Type`/`Subtype` ordering, nil entry,
reference values in arrays and dictionaries -/
def sample : Obj :=
  .dict [([90], .arr [.int 1, .int 2, .ref 3 0, .dict [([65], .ref 7 1), ([66], .null)], .arr []]),
         ([83, 117, 98, 116, 121, 112, 101], .name [88]), ([65, 32], .str [40, 13, 10]),
         ([84, 121, 112, 101], .real [45, 48, 46, 53]), ([78], .nilArr), ([66], .bool false)]

example : good sample = true ∧ depthOf sample = 3 ∧ isRefObj sample = false := by decide +kernel

example : (match format ⟨true, false⟩ [sample] with
    | some bytes => (match parseObject bytes with
      | .ok (.dict kv, []) => kv.length == 6 | _ => false)
    | none => false) = true := by decide +kernel

example : goodList [sample, .ref 1 0, .int 2, .name [82]] = true := by decide +kernel

example : (match format ⟨false, false⟩ [sample, .ref 1 0, .int 2, .name [82]] with
    | some body => (match parseObject (91 :: (body ++ 93 :: [37])) with
      | .ok (.arr ys, r) => ys.length == 4 && r == [37] | _ => false)
    | none => false) = true := by decide +kernel

end PdfVerif.C01d

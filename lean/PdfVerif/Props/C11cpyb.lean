import PdfVerif.Props.C11cpy
/-!
C11 (continued) — termination: the fuel the driver uses always suffices (`fuel_suffices`), the
result does not depend on the fuel (`fuel_irrelevant`), and on a readable source the copier
does not fail (`copy_succeeds`).
-/
namespace PdfVerif.C11cpyb
open PdfVerif PdfVerif.CPY PdfVerif.C11cpy

/-! ### termination: a fuel computed from the source graph always suffices -/

theorem osize_pos (o : Obj) : 1 ≤ osize o := by cases o <;> simp [osize] <;> omega
theorem lsize_pos (xs : List Obj) : 1 ≤ lsize xs := by cases xs <;> simp [lsize] <;> omega
theorem kvsize_pos (kv : KV) : 1 ≤ kvsize kv := by
  cases kv with
  | nil => simp [kvsize]
  | cons p r => obtain ⟨k, v⟩ := p; simp [kvsize]; omega

theorem kvsize_perm {a b : KV} (h : a.Perm b) : kvsize a = kvsize b := by
  induction h with
  | nil => rfl
  | cons x _ ih => obtain ⟨k, v⟩ := x; simp [kvsize, ih]
  | swap x y l => obtain ⟨k, v⟩ := x; obtain ⟨k', v'⟩ := y; simp [kvsize]; omega
  | trans _ _ ih1 ih2 => rw [ih1, ih2]

theorem kvrefs_mem {kv : KV} {b : Ref} : b ∈ kvrefs kv ↔ ∃ p ∈ kv, b ∈ orefs p.2 := by
  induction kv with
  | nil => simp [kvrefs]
  | cons p r ih => obtain ⟨k, v⟩ := p; simp [kvrefs, ih]

theorem kvrefs_perm {a b : KV} (h : a.Perm b) (r : Ref) : r ∈ kvrefs a ↔ r ∈ kvrefs b := by
  simp only [kvrefs_mem]
  constructor
  · rintro ⟨p, hp, hr⟩; exact ⟨p, h.mem_iff.mp hp, hr⟩
  · rintro ⟨p, hp, hr⟩; exact ⟨p, h.mem_iff.mpr hp, hr⟩

/-- number of references of the universe `U` that are not translated yet -/
def unv (U : List Ref) (tr : List (Ref × Ref)) : Nat :=
  (U.filter fun r => (assoc r tr).isNone).length

theorem unv_le_length (U : List Ref) (tr : List (Ref × Ref)) : unv U tr ≤ U.length :=
  List.length_filter_le _ _

theorem unv_mono {U : List Ref} {tr tr' : List (Ref × Ref)} (h : Extends tr tr') :
    unv U tr' ≤ unv U tr := by
  induction U with
  | nil => simp [unv]
  | cons r U ih =>
    simp only [unv, List.filter_cons] at ih ⊢
    cases h1 : assoc r tr with
    | some t => simp [h r t h1]; exact ih
    | none =>
      cases h2 : assoc r tr' with
      | some t => simp; omega
      | none => simp; exact ih

theorem unv_cons_lt {U : List Ref} {tr : List (Ref × Ref)} {r n : Ref} (hr : r ∈ U)
    (hn : assoc r tr = none) : unv U ((r, n) :: tr) < unv U tr := by
  induction U with
  | nil => simp at hr
  | cons a U ih =>
    have hext : Extends tr ((r, n) :: tr) := by
      intro k t hk
      simp only [assoc]
      split
      · next e => subst e; rw [hn] at hk; cases hk
      · exact hk
    have hm := unv_mono (U := U) hext
    simp only [unv, List.filter_cons] at ih hm ⊢
    by_cases ha : a = r
    · subst ha
      have e1 : assoc a ((a, n) :: tr) = some n := by simp [assoc]
      rw [e1, hn]
      simp only [Option.isNone_some, Option.isNone_none, Bool.false_eq_true, ↓reduceIte, List.length_cons]
      omega
    · have hr' : r ∈ U := by
        rcases List.mem_cons.mp hr with h | h
        · exact absurd h.symm ha
        · exact h
      have := ih hr'
      have e : assoc a ((r, n) :: tr) = assoc a tr := by simp [assoc, Ne.symm ha]
      rw [e]
      cases assoc a tr <;> simp <;> omega


/-! ### the source side never reports `fuel` -/

theorem get_ne_fuel (G : Graph) (r : Ref) (cs : Bool) : CPY.get G r cs ≠ .error .fuel := by
  unfold CPY.get
  split
  · simp
  · split <;> try simp
    split <;> simp

theorem resolveLoop_ne_fuel (G : Graph) (cs : Bool) :
    ∀ (d : Nat) (path : List Ref) (r : Ref), resolveLoop G cs d path r ≠ .error .fuel
  | 0, _, _ => by simp [resolveLoop]
  | d+1, path, r => by
    simp only [resolveLoop]
    split
    · simp
    · split
      · next e he => intro h; cases h; exact get_ne_fuel G r cs he
      · exact resolveLoop_ne_fuel G cs d _ _
      · simp

theorem resolve_ne_fuel (G : Graph) (cs : Bool) (o : Obj) : resolve G cs o ≠ .error .fuel := by
  unfold resolve
  split
  · exact resolveLoop_ne_fuel G cs _ _ _
  · simp

theorem resolveOrNull_ne_fuel (G : Graph) (r : Ref) : resolveOrNull G r ≠ .error .fuel := by
  unfold resolveOrNull
  split
  · simp
  · next e he hne => intro h; cases h; exact resolve_ne_fuel G true _ hne
  · simp

theorem resolveElems_ne_fuel (G : Graph) : ∀ xs : List Obj, resolveElems G xs ≠ .error .fuel
  | [] => by simp [resolveElems]
  | x :: xs => by
    simp only [resolveElems]
    split
    · next e he => intro h; cases h; exact resolve_ne_fuel G true x he
    · simp
    · split
      · next e he => intro h; cases h; exact resolveElems_ne_fuel G xs he
      · simp

theorem inlineFilterRefs_ne_fuel (G : Graph) (val : Obj) : inlineFilterRefs G val ≠ .error .fuel := by
  unfold inlineFilterRefs
  split
  · next e he => intro h; cases h; exact resolve_ne_fuel G true val he
  · split
    · next e he => intro h; cases h; exact resolveElems_ne_fuel G _ he
    · simp
  · simp
  · simp

theorem startsWithCrypt_ne_fuel (G : Graph) (o : Obj) : startsWithCrypt G o ≠ .error .fuel := by
  unfold startsWithCrypt
  split
  · next e he => intro h; cases h; exact resolve_ne_fuel G true o he
  · simp
  · simp
  · split
    · next e he => intro h; cases h; exact resolve_ne_fuel G true _ he
    · simp
    · simp
  · simp

theorem parseCryptKind_ne_fuel (p : Option KV) : parseCryptKind p ≠ .error .fuel := by
  unfold parseCryptKind
  split
  · simp
  · split <;> simp
  · simp

theorem makeFilterKind_ne_fuel (n : Bytes) (p : Option KV) : makeFilterKind n p ≠ .error .fuel := by
  unfold makeFilterKind
  split
  · exact parseCryptKind_ne_fuel p
  · split <;> simp

theorem asParamDict_ne_fuel (v : Val) : asParamDict v ≠ .error .fuel := by
  unfold asParamDict
  split <;> simp

theorem filterKindsLoop_ne_fuel (G : Graph) :
    ∀ (fs pa : List Obj), filterKindsLoop G fs pa ≠ .error .fuel
  | [], _ => by simp [filterKindsLoop]
  | fi :: fs, pa => by
    simp only [filterKindsLoop]
    split
    · next e he => intro h; cases h; exact resolve_ne_fuel G false fi he
    · split
      · next e he =>
        intro h; cases h
        revert he
        split
        · simp
        · split
          · next e' he' => intro h; cases h; exact resolve_ne_fuel G false _ he'
          · exact asParamDict_ne_fuel _
      · split
        · next e he => intro h; cases h; exact makeFilterKind_ne_fuel _ _ he
        · split
          · next e he => intro h; cases h; exact filterKindsLoop_ne_fuel G fs _ he
          · simp
    · simp


theorem kindsOf_ne_fuel (G : Graph) (dp f : Val) : kindsOf G dp f ≠ .error .fuel := by
  unfold kindsOf
  split
  · simp
  · simp
  · split
    · next e he => intro h; cases h; exact asParamDict_ne_fuel _ he
    · split
      · next e he => intro h; cases h; exact makeFilterKind_ne_fuel _ _ he
      · simp
  · split
    · simp
    · split
      · exact filterKindsLoop_ne_fuel G _ _
      · exact filterKindsLoop_ne_fuel G _ _
      · exact filterKindsLoop_ne_fuel G _ _
      · simp
  · simp

theorem getFilterKinds_ne_fuel (G : Graph) (dict : KV) : getFilterKinds G dict ≠ .error .fuel := by
  unfold getFilterKinds
  split
  · next e he => intro h; cases h; exact resolve_ne_fuel G false _ he
  · split
    · next e he => intro h; cases h; exact resolve_ne_fuel G false _ he
    · split
      · next e he => intro h; cases h; exact kindsOf_ne_fuel G _ _ he
      · split <;> simp

theorem streamCryptRecipe_ne_fuel (G : Graph) (dict : KV) (enc : Bool) :
    streamCryptRecipe G dict enc ≠ .error .fuel := by
  unfold streamCryptRecipe
  split
  · simp
  · split
    · next e he => intro h; cases h; exact startsWithCrypt_ne_fuel G _ he
    · simp
    · split
      · next e he => intro h; cases h; exact getFilterKinds_ne_fuel G dict he
      · simp
      · simp
      · simp
      · simp


def GoodObj (U : List Ref) (W : Nat) (o : Obj) : Prop := osize o ≤ W ∧ ∀ b ∈ orefs o, b ∈ U

def GoodVal (G : Graph) (U : List Ref) (W : Nat) : Val → Prop
  | .obj o => GoodObj U W o
  | .stream dict _ _ => kvsize dict ≤ W ∧ (∀ b ∈ kvrefs dict, b ∈ U) ∧
      ∀ key, (key = keyFilter ∨ key = keyDecodeParms) → ∀ val inl, kvLookup key dict = some val →
        inlineFilterRefs G val = .ok (.obj inl) → GoodObj U W inl

/-- `U` contains every reference the copier can meet from `U`, `W` bounds every object it is
    handed -/
def Closed (G : Graph) (U : List Ref) (W : Nat) : Prop :=
  ∀ r v, r ∈ U → resolveOrNull G r = .ok v → GoodVal G U W v

theorem unv_enter_lt {U : List Ref} {tr : List (Ref × Ref)} {chain : List Ref} {r n : Ref}
    (hr : r ∈ U) (hrc : r ∈ chain) (hfresh : ∀ k ∈ chain, assoc k tr = none) :
    unv U (enter chain n tr) < unv U tr := by
  have hlt := unv_cons_lt (U := U) (n := n) hr (hfresh r hrc)
  have hext : Extends ((r, n) :: tr) (enter chain n tr) := by
    intro k t hk
    simp only [assoc] at hk
    split at hk
    · next e => subst e; cases hk; exact assoc_enter_mem hrc
    · next hne =>
      unfold enter
      rw [assoc_append]
      have : assoc k (chain.map fun k => (k, n)) = none := by
        rw [assoc_none_iff]
        intro hm
        have := hfresh k (mem_enter_keys.mp hm)
        rw [this] at hk; cases hk
      rw [this]; exact hk
  exact Nat.lt_of_le_of_lt (unv_mono hext) hlt

theorem walkFrom_ne_fuel {G : Graph} {tr : List (Ref × Ref)} {r : Ref} (hr : assoc r tr = none) :
    walkFrom G tr r ≠ .fails .fuel := by
  intro h
  have := walkFrom_out (G := G) hr
  rw [h] at this
  exact this.1 rfl

theorem dictCryptKind_ne_fuel (d : KV) : dictCryptKind d ≠ .error .fuel := by
  unfold dictCryptKind
  simp only
  split
  · simp
  · split
    · split
      · next e he => intro h; cases h; exact parseCryptKind_ne_fuel _ he
      · split <;> simp
    · split <;> simp

theorem putRefusal_ne_fuel (tv : Nat) (v : Val) : putRefusal tv v ≠ some .fuel := by
  unfold putRefusal
  split
  · simp
  · split
    · next e he => intro h; cases h; exact dictCryptKind_ne_fuel _ he
    · simp
    · simp
    · split <;> simp

theorem put_ne_fuel (s : St) (r : Ref) (v : Val) : put s r v ≠ .error .fuel := by
  unfold put
  split
  · simp
  · split
    · next e he => intro h; cases h; exact putRefusal_ne_fuel _ _ he
    · simp

section
variable (G : Graph) (U : List Ref) (W : Nat)

def FObj (f : Nat) : Prop := ∀ s o, (∀ b ∈ orefs o, b ∈ U) →
  osize o + 1 + unv U s.trans * (W + 6) ≤ f → copyObj f G s o ≠ .error .fuel
def FList (f : Nat) : Prop := ∀ s xs, (∀ b ∈ lrefs xs, b ∈ U) →
  lsize xs + 1 + unv U s.trans * (W + 6) ≤ f → copyList f G s xs ≠ .error .fuel
def FKV (f : Nat) : Prop := ∀ s L, (∀ b ∈ kvrefs L, b ∈ U) →
  kvsize L + 1 + unv U s.trans * (W + 6) ≤ f → copyKV f G s L ≠ .error .fuel
def FInl (f : Nat) : Prop := ∀ s src res key,
  (∀ val inl, kvLookup key src = some val → inlineFilterRefs G val = .ok (.obj inl) → GoodObj U W inl) →
  W + 2 + unv U s.trans * (W + 6) ≤ f → inlineKey f G s src res key ≠ .error .fuel
def FSD (f : Nat) : Prop := ∀ s src, GoodVal G U W (.stream src [] false) →
  W + 4 + unv U s.trans * (W + 6) ≤ f → copyStreamDict f G s src ≠ .error .fuel
def FVal (f : Nat) : Prop := ∀ s v, GoodVal G U W v →
  W + 5 + unv U s.trans * (W + 6) ≤ f → copyVal f G s v ≠ .error .fuel
def FRef (f : Nat) : Prop := ∀ s r, r ∈ U →
  1 + unv U s.trans * (W + 6) ≤ f → copyRef f G s r ≠ .error .fuel

theorem fstep_obj (f : Nat) (hL : FList G U W f) (hK : FKV G U W f) (hR : FRef G U W f) :
    FObj G U W (f+1) := by
  intro s o hrefs hf
  cases o with
  | dict kv =>
    simp only [copyObj]
    have hp := sortedEntries_perm kv
    have := hK s (sortedEntries kv) (fun b hb => hrefs b (by simpa [orefs] using (kvrefs_perm hp b).mp hb))
      (by rw [kvsize_perm hp]; simp only [osize] at hf; omega)
    split
    · next e he => intro h; cases h; exact this he
    · intro h; cases h
  | arr xs =>
    simp only [copyObj]
    have := hL s xs (fun b hb => hrefs b (by simpa [orefs] using hb))
      (by simp only [osize] at hf; omega)
    split
    · next e he => intro h; cases h; exact this he
    · intro h; cases h
  | ref n g =>
    simp only [copyObj]
    have := hR s (n, g) (hrefs _ (by simp [orefs])) (by simp only [osize] at hf; omega)
    split
    · next e he => intro h; cases h; exact this he
    · intro h; cases h
  | _ => simp [copyObj]

theorem fstep_list (f : Nat) (hO : FObj G U W f) (hL : FList G U W f) : FList G U W (f+1) := by
  intro s xs hrefs hf
  cases xs with
  | nil => simp [copyList]
  | cons x xs =>
    simp only [copyList]
    simp only [lrefs, List.mem_append] at hrefs
    simp only [lsize] at hf
    have h1 := hO s x (fun b hb => hrefs b (Or.inl hb)) (by have := lsize_pos xs; omega)
    split
    · next e he => intro h; cases h; exact h1 he
    · next y s1 hy =>
      have hu := unv_mono (U := U) ((copy_main G f).1 s x y s1 hy).1.extends
      have h2 := hL s1 xs (fun b hb => hrefs b (Or.inr hb))
        (by have := osize_pos x
            have : unv U s1.trans * (W + 6) ≤ unv U s.trans * (W + 6) := Nat.mul_le_mul_right _ hu
            omega)
      split
      · next e he => intro h; cases h; exact h2 he
      · intro h; cases h


theorem fstep_kv (f : Nat) (hO : FObj G U W f) (hK : FKV G U W f) : FKV G U W (f+1) := by
  intro s L hrefs hf
  cases L with
  | nil => simp [copyKV]
  | cons p rest =>
    obtain ⟨k, v⟩ := p
    simp only [kvrefs, List.mem_append] at hrefs
    simp only [kvsize] at hf
    by_cases hv : v = .null
    · subst hv
      simp only [copyKV]
      have h2 := hK s rest (fun b hb => hrefs b (Or.inr hb)) (by omega)
      split
      · next e he => intro h; cases h; exact h2 he
      · intro h; cases h
    · have h1 := hO s v (fun b hb => hrefs b (Or.inl hb)) (by have := kvsize_pos rest; omega)
      have key : ∀ (v' : Obj) (s1 : St), copyObj f G s v = .ok (v', s1) →
          copyKV f G s1 rest ≠ .error .fuel := by
        intro v' s1 hv'
        have hu := unv_mono (U := U) ((copy_main G f).1 s v v' s1 hv').1.extends
        exact hK s1 rest (fun b hb => hrefs b (Or.inr hb))
          (by have := osize_pos v
              have : unv U s1.trans * (W + 6) ≤ unv U s.trans * (W + 6) := Nat.mul_le_mul_right _ hu
              omega)
      cases v <;> first
        | exact absurd rfl hv
        | (simp only [copyKV]
           split
           · next e he => intro h; cases h; exact h1 he
           · next v' s1 hv' =>
             split
             · next e he => intro h; cases h; exact key _ _ hv' he
             · intro h; cases h)

theorem fstep_inl (f : Nat) (hO : FObj G U W f) : FInl G U W (f+1) := by
  intro s src res key hgood hf
  simp only [inlineKey]
  split
  · intro h; cases h
  · next val hk =>
    split
    · next e he => intro h; cases h; exact inlineFilterRefs_ne_fuel G val he
    · intro h; cases h
    · next inl hi =>
      obtain ⟨g1, g2⟩ := hgood val inl hk hi
      have h1 := hO s inl g2 (by omega)
      split
      · next e he => intro h; cases h; exact h1 he
      · intro h; cases h


theorem fstep_sd (f : Nat) (hK : FKV G U W f) (hI : FInl G U W f) : FSD G U W (f+1) := by
  intro s src hgood hf
  obtain ⟨g1, g2, g3⟩ := hgood
  simp only [copyStreamDict]
  have hp := sortedEntries_perm src
  have h1 := hK s (sortedEntries src) (fun b hb => g2 b ((kvrefs_perm hp b).mp hb))
    (by rw [kvsize_perm hp]; omega)
  split
  · next e he => intro h; cases h; exact h1 he
  · next res1 s1 hr1 =>
    have hu1 := unv_mono (U := U) ((copy_main G f).2.2.1 s _ res1 s1 hr1).1.extends
    have m1 : unv U s1.trans * (W + 6) ≤ unv U s.trans * (W + 6) := Nat.mul_le_mul_right _ hu1
    have h2 := hI s1 src res1 keyFilter (fun val inl a b => g3 keyFilter (Or.inl rfl) val inl a b) (by omega)
    split
    · next e he => intro h; cases h; exact h2 he
    · next res2 s2 hr2 =>
      have hu2 := unv_mono (U := U) ((copy_main G f).2.2.2.1 s1 src res1 keyFilter res2 s2 hr2).1.extends
      have m2 : unv U s2.trans * (W + 6) ≤ unv U s1.trans * (W + 6) := Nat.mul_le_mul_right _ hu2
      exact hI s2 src res2 keyDecodeParms
        (fun val inl a b => g3 keyDecodeParms (Or.inr rfl) val inl a b) (by omega)

theorem fstep_val (f : Nat) (hO : FObj G U W f) (hS : FSD G U W f) : FVal G U W (f+1) := by
  intro s v hgood hf
  cases v with
  | obj o =>
    simp only [copyVal]
    have h1 := hO s o hgood.2 (by have := hgood.1; omega)
    split
    · next e he => intro h; cases h; exact h1 he
    · intro h; cases h
  | stream dict data enc =>
    simp only [copyVal]
    have h1 := hS s dict hgood (by omega)
    split
    · next e he => intro h; cases h; exact h1 he
    · split
      · next e he => intro h; cases h; exact streamCryptRecipe_ne_fuel G dict enc he
      · intro h; cases h
      · intro h; cases h

theorem fstep_ref (hC : Closed G U W) (f : Nat) (hV : FVal G U W f) : FRef G U W (f+1) := by
  intro s r hr hf
  simp only [copyRef]
  split
  · intro h; cases h
  · next hnone =>
    have hw := walkFrom_out (G := G) hnone
    split
    · next e he => intro h; cases h; exact walkFrom_ne_fuel hnone he
    · intro h; cases h
    · intro h; cases h
    · next v chain hwk =>
      rw [hwk] at hw
      obtain ⟨hres, _, w2, w3, _⟩ := hw
      split
      · next e he =>
        intro h; cases h
        unfold alloc at he
        split at he <;> cases he
      · next n s1 ha =>
        obtain ⟨hn, hs1⟩ := alloc_ok ha
        subst hn; subst hs1
        simp only
        have hlt := unv_enter_lt (U := U) (n := refOf s.next) hr w3 w2
        have hm : (unv U (enter chain (refOf s.next) s.trans) + 1) * (W + 6) ≤ unv U s.trans * (W + 6) :=
          Nat.mul_le_mul_right _ hlt
        have h1 := hV { trans := enter chain (refOf s.next) s.trans, next := s.next + 1, puts := s.puts, tgtV := s.tgtV } v
          (hC r v hr hres) (by simp only; rw [Nat.add_mul] at hm; omega)
        split
        · next e he => intro h; cases h; exact h1 he
        · split
          · next e he =>
            intro h; cases h
            exact put_ne_fuel _ _ _ he
          · intro h; cases h

/-- With `Closed G U W`: no call of the copier runs out of fuel once the fuel covers
    `(number of untranslated references of U) * (W + 6)` plus the size of its argument. -/
theorem no_fuel_main (hC : Closed G U W) : ∀ f : Nat,
    FObj G U W f ∧ FList G U W f ∧ FKV G U W f ∧ FInl G U W f ∧ FSD G U W f ∧ FVal G U W f ∧ FRef G U W f := by
  intro f
  induction f with
  | zero =>
    refine ⟨?_, ?_, ?_, ?_, ?_, ?_, ?_⟩
    · intro s o _ h; have := osize_pos o; omega
    · intro s o _ h; omega
    · intro s o _ h; omega
    · intro s a b c _ h; omega
    · intro s a _ h; omega
    · intro s a _ h; omega
    · intro s a _ h; omega
  | succ f ih =>
    obtain ⟨hO, hL, hK, hI, hS, hV, hR⟩ := ih
    exact ⟨fstep_obj G U W f hL hK hR, fstep_list G U W f hO hL, fstep_kv G U W f hO hK,
      fstep_inl G U W f hO, fstep_sd G U W f hK hI, fstep_val G U W f hO hS, fstep_ref G U W hC f hV⟩

end

theorem get_mem {G : Graph} {r : Ref} {cs : Bool} {v : Val} (h : CPY.get G r cs = .ok v) :
    v = .obj .null ∨ ∃ k e, (k, e) ∈ G ∧ e.node = .val v := by
  unfold CPY.get at h
  split at h
  · cases h; exact Or.inl rfl
  · next e he =>
    split at h
    · cases h
    · cases h
    · next v' hv =>
      split at h
      · cases h
      · cases h; exact Or.inr ⟨r, e, assoc_some_mem _ _ _ he, hv⟩

theorem resolveLoop_mem {G : Graph} {cs : Bool} :
    ∀ (d : Nat) (path : List Ref) (r : Ref) (v : Val), resolveLoop G cs d path r = .ok v →
      v = .obj .null ∨ ∃ k e, (k, e) ∈ G ∧ e.node = .val v
  | 0, _, _, _ => by simp [resolveLoop]
  | d+1, path, r, v => by
    simp only [resolveLoop]
    split
    · intro h; cases h
    · split
      · intro h; cases h
      · exact resolveLoop_mem d _ _ v
      · next v' hne hg => intro h; cases h; exact get_mem hg

theorem resolveOrNull_mem {G : Graph} {r : Ref} {v : Val} (h : resolveOrNull G r = .ok v) :
    v = .obj .null ∨ ∃ k e, (k, e) ∈ G ∧ e.node = .val v := by
  unfold resolveOrNull at h
  split at h
  · cases h; exact Or.inl rfl
  · cases h
  · next v' hv =>
    cases h
    simp only [resolve] at hv
    exact resolveLoop_mem _ _ _ _ hv

theorem le_foldr_max {l : List Nat} {b x : Nat} (h : x ∈ l) : x ≤ l.foldr max b := by
  induction l with
  | nil => simp at h
  | cons a l ih =>
    simp only [List.foldr_cons]
    rcases List.mem_cons.mp h with e | e
    · subst e; exact Nat.le_max_left _ _
    · exact Nat.le_trans (ih e) (Nat.le_max_right _ _)

theorem base_le_foldr_max (l : List Nat) (b : Nat) : b ≤ l.foldr max b := by
  induction l with
  | nil => simp
  | cons a l ih => exact Nat.le_trans ih (Nat.le_max_right _ _)

theorem one_le_maxWeight (G : Graph) (ops : List Op) : 1 ≤ maxWeight G ops := by
  unfold maxWeight
  exact Nat.le_trans (base_le_foldr_max _ 1) (base_le_foldr_max _ _)

theorem entry_weight {G : Graph} {ops : List Op} {k : Ref} {e : Entry} (h : (k, e) ∈ G) :
    nodeWeight G e.node ≤ maxWeight G ops := by
  unfold maxWeight
  exact le_foldr_max (List.mem_map.mpr ⟨(k, e), h, rfl⟩)

theorem entry_refs {G : Graph} {ops : List Op} {k : Ref} {e : Entry} (h : (k, e) ∈ G) :
    ∀ b ∈ nodeRefs G e.node, b ∈ allRefs G ops := by
  intro b hb
  unfold allRefs
  exact List.mem_append_left _ (List.mem_flatMap.mpr ⟨(k, e), h, hb⟩)

theorem goodVal_of_weight {G : Graph} {U : List Ref} {W : Nat} {v : Val}
    (hw : valWeight G v ≤ W) (hr : ∀ b ∈ valAllRefs G v, b ∈ U) : GoodVal G U W v := by
  cases v with
  | obj o => exact ⟨hw, hr⟩
  | stream dict data enc =>
    simp only [valWeight] at hw
    simp only [valAllRefs, List.mem_append] at hr
    refine ⟨by omega, fun b hb => hr b (Or.inl (Or.inl hb)), ?_⟩
    intro key hkey val inl hk hi
    have hsz : inlSize G dict key = osize inl := by simp [inlSize, hk, hi]
    have hrf : inlRefs G dict key = orefs inl := by simp [inlRefs, hk, hi]
    rcases hkey with e | e <;> subst e
    · exact ⟨by omega, fun b hb => hr b (Or.inl (Or.inr (by rw [hrf]; exact hb)))⟩
    · exact ⟨by omega, fun b hb => hr b (Or.inr (by rw [hrf]; exact hb))⟩

theorem goodVal_of_mem {G : Graph} {ops : List Op} {v : Val}
    (h : v = .obj .null ∨ ∃ k e, (k, e) ∈ G ∧ e.node = .val v) :
    GoodVal G (allRefs G ops) (maxWeight G ops) v := by
  rcases h with h | ⟨k, e, hm, hv⟩
  · subst h
    exact ⟨one_le_maxWeight G ops, by simp [orefs]⟩
  · apply goodVal_of_weight
    · have := entry_weight (ops := ops) hm
      rw [hv] at this; exact this
    · have := entry_refs (ops := ops) hm
      rw [hv] at this; exact this

theorem closed_allRefs (G : Graph) (ops : List Op) : Closed G (allRefs G ops) (maxWeight G ops) :=
  fun _ _ _ hres => goodVal_of_mem (resolveOrNull_mem hres)

theorem alloc_ne_fuel (s : St) : alloc s ≠ .error .fuel := by
  unfold alloc; split <;> simp


theorem allocPut_ne_fuel (s : St) (v : Val) : allocPut s v ≠ .error .fuel := by
  unfold allocPut
  split
  · next e he => intro h; cases h; exact alloc_ne_fuel s he
  · split
    · next e he => intro h; cases h; exact put_ne_fuel _ _ _ he
    · simp

theorem opWeight_le {G : Graph} {ops : List Op} {op : Op} (h : op ∈ ops) : opWeight op ≤ maxWeight G ops := by
  unfold maxWeight
  exact Nat.le_trans (le_foldr_max (List.mem_map.mpr ⟨op, h, rfl⟩)) (base_le_foldr_max _ _)

theorem opRefs_mem {G : Graph} {ops : List Op} {op : Op} (h : op ∈ ops) :
    ∀ b ∈ opRefs op, b ∈ allRefs G ops := by
  intro b hb
  unfold allRefs
  exact List.mem_append_right _ (List.mem_flatMap.mpr ⟨op, h, hb⟩)

/-- one operation of a program never runs out of the driver's fuel, from any state -/
theorem stepOp_no_fuel (G : Graph) (ops : List Op) (s : St) (roots : List Ref) (op : Op)
    (hop : op ∈ ops) : stepOp (fuelFor G ops) G s roots op ≠ .error .fuel := by
  have hmain := no_fuel_main G (allRefs G ops) (maxWeight G ops) (closed_allRefs G ops) (fuelFor G ops)
  have hu := unv_le_length (allRefs G ops) s.trans
  have hmul : unv (allRefs G ops) s.trans * (maxWeight G ops + 6) ≤
      (allRefs G ops).length * (maxWeight G ops + 6) := Nat.mul_le_mul_right _ hu
  have hfuel : fuelFor G ops = (allRefs G ops).length * (maxWeight G ops + 6) + 2 * (maxWeight G ops + 6) := by
    unfold fuelFor; rw [Nat.add_mul]
  cases op with
  | copyRef r =>
    simp only [stepOp]
    exact hmain.2.2.2.2.2.2 s r (opRefs_mem hop r (by simp [opRefs])) (by omega)
  | copyGet r =>
    simp only [stepOp]
    split
    · next e he => intro h; cases h; exact get_ne_fuel G r true he
    · next v hv =>
      have := hmain.2.2.2.2.2.1 s v (goodVal_of_mem (get_mem hv)) (by omega)
      split
      · next e he => intro h; cases h; exact this he
      · exact allocPut_ne_fuel _ _
  | copyObj o =>
    simp only [stepOp]
    have hw := opWeight_le (G := G) hop
    simp only [opWeight] at hw
    have := hmain.1 s o (fun b hb => opRefs_mem hop b (by simpa [opRefs] using hb)) (by omega)
    split
    · next e he => intro h; cases h; exact this he
    · exact allocPut_ne_fuel _ _
  | redirectNew r m =>
    simp only [stepOp]
    split
    · next e he => intro h; cases h; exact allocPut_ne_fuel _ _ he
    · simp
  | redirectTo r k =>
    simp only [stepOp]
    split <;> simp

/-- **fuel_suffices** (termination).  The recursion of `Copy`/`CopyReference` is bounded: run
with `fuelFor G ops` — (number of references occurring in the source and the program + 2) ×
(largest object + 6) — no program over any source graph, cyclic or not, ever exhausts the budget.
The bound holds because a reference is entered into `trans` before its object is copied, so
each reference of the (finite) graph starts a nested copy at most once. -/
theorem fuel_suffices (G : Graph) (ops : List Op) (s : St) (roots : List Ref) :
    ∀ (i : Nat), runOps (fuelFor G ops) G s roots ops ≠ .error (i, .fuel) := by
  suffices h : ∀ (rest : List Op), (∀ op ∈ rest, op ∈ ops) → ∀ (s : St) (roots : List Ref) (i : Nat),
      runOps (fuelFor G ops) G s roots rest ≠ .error (i, .fuel) from h ops (fun _ h => h) s roots
  intro rest
  induction rest with
  | nil => intro _ s roots i; simp [runOps]
  | cons op rest ih =>
    intro hsub s roots i
    simp only [runOps]
    split
    · next e he =>
      intro h; cases h
      exact stepOp_no_fuel G ops s roots op (hsub op List.mem_cons_self) he
    · exact ih (fun o ho => hsub o (List.mem_cons_of_mem _ ho)) _ _ i


/-! ### the result does not depend on the fuel -/

section
variable (G : Graph)

def MObj (f : Nat) : Prop := ∀ s o, copyObj f G s o ≠ .error .fuel → copyObj (f+1) G s o = copyObj f G s o
def MList (f : Nat) : Prop := ∀ s xs, copyList f G s xs ≠ .error .fuel → copyList (f+1) G s xs = copyList f G s xs
def MKV (f : Nat) : Prop := ∀ s L, copyKV f G s L ≠ .error .fuel → copyKV (f+1) G s L = copyKV f G s L
def MInl (f : Nat) : Prop := ∀ s src res key, inlineKey f G s src res key ≠ .error .fuel →
  inlineKey (f+1) G s src res key = inlineKey f G s src res key
def MSD (f : Nat) : Prop := ∀ s src, copyStreamDict f G s src ≠ .error .fuel →
  copyStreamDict (f+1) G s src = copyStreamDict f G s src
def MVal (f : Nat) : Prop := ∀ s v, copyVal f G s v ≠ .error .fuel → copyVal (f+1) G s v = copyVal f G s v
def MRef (f : Nat) : Prop := ∀ s r, copyRef f G s r ≠ .error .fuel → copyRef (f+1) G s r = copyRef f G s r

theorem mstep_obj (f : Nat) (hL : MList G f) (hK : MKV G f) (hR : MRef G f) : MObj G (f+1) := by
  intro s o hne
  cases o with
  | dict kv =>
    simp only [copyObj] at hne ⊢
    by_cases hs : copyKV f G s (sortedEntries kv) = .error .fuel
    · rw [hs] at hne; exact absurd rfl hne
    · rw [hK _ _ hs]
  | arr xs =>
    simp only [copyObj] at hne ⊢
    by_cases hs : copyList f G s xs = .error .fuel
    · rw [hs] at hne; exact absurd rfl hne
    · rw [hL _ _ hs]
  | ref n g =>
    simp only [copyObj] at hne ⊢
    by_cases hs : copyRef f G s (n, g) = .error .fuel
    · rw [hs] at hne; exact absurd rfl hne
    · rw [hR _ _ hs]
  | _ => simp [copyObj]

theorem mstep_list (f : Nat) (hO : MObj G f) (hL : MList G f) : MList G (f+1) := by
  intro s xs hne
  cases xs with
  | nil => simp [copyList]
  | cons x xs =>
    simp only [copyList] at hne ⊢
    by_cases hs : copyObj f G s x = .error .fuel
    · rw [hs] at hne; exact absurd rfl hne
    · rw [hO _ _ hs]
      cases h1 : copyObj f G s x with
      | error e => rfl
      | ok p =>
        obtain ⟨y, s1⟩ := p
        rw [h1] at hne
        simp only at hne ⊢
        by_cases hs2 : copyList f G s1 xs = .error .fuel
        · rw [hs2] at hne; exact absurd rfl hne
        · rw [hL _ _ hs2]


def kvCont (k : Bytes) (r1 : Except CErr (Obj × St)) (cont : St → Except CErr (KV × St)) :
    Except CErr (KV × St) :=
  match r1 with
  | .error e => .error e
  | .ok (v', s1) =>
    match cont s1 with
    | .error e => .error e
    | .ok (rest', s2) => .ok ((k, v') :: rest', s2)

theorem copyKV_cons_nonnull (f : Nat) (s : St) (k : Bytes) (v : Obj) (rest : KV) (h : v ≠ .null) :
    copyKV (f+1) G s ((k, v) :: rest) = kvCont k (copyObj f G s v) (fun s1 => copyKV f G s1 rest) := by
  cases v <;> first | exact absurd rfl h | rfl

theorem mstep_kv (f : Nat) (hO : MObj G f) (hK : MKV G f) : MKV G (f+1) := by
  intro s L hne
  cases L with
  | nil => simp [copyKV]
  | cons p rest =>
    obtain ⟨k, v⟩ := p
    by_cases hv : v = .null
    · subst hv
      simp only [copyKV] at hne ⊢
      by_cases hs : copyKV f G s rest = .error .fuel
      · rw [hs] at hne; exact absurd rfl hne
      · rw [hK _ _ hs]
    · rw [copyKV_cons_nonnull G f s k v rest hv] at hne
      rw [copyKV_cons_nonnull G (f+1) s k v rest hv, copyKV_cons_nonnull G f s k v rest hv]
      by_cases hs : copyObj f G s v = .error .fuel
      · rw [hs] at hne; exact absurd rfl hne
      · rw [hO _ _ hs]
        cases h1 : copyObj f G s v with
        | error e => rfl
        | ok p =>
          obtain ⟨y, s1⟩ := p
          rw [h1] at hne
          simp only [kvCont] at hne ⊢
          by_cases hs2 : copyKV f G s1 rest = .error .fuel
          · rw [hs2] at hne; exact absurd rfl hne
          · rw [hK _ _ hs2]

theorem mstep_inl (f : Nat) (hO : MObj G f) : MInl G (f+1) := by
  intro s src res key hne
  simp only [inlineKey] at hne ⊢
  cases hk : kvLookup key src with
  | none => rfl
  | some val =>
    rw [hk] at hne
    simp only at hne ⊢
    cases hi : inlineFilterRefs G val with
    | error e => rfl
    | ok w =>
      cases w with
      | stream d dd en => rfl
      | obj inl =>
        rw [hi] at hne
        simp only at hne ⊢
        by_cases hs : copyObj f G s inl = .error .fuel
        · rw [hs] at hne; exact absurd rfl hne
        · rw [hO _ _ hs]

theorem mstep_sd (f : Nat) (hK : MKV G f) (hI : MInl G f) : MSD G (f+1) := by
  intro s src hne
  simp only [copyStreamDict] at hne ⊢
  by_cases hs : copyKV f G s (sortedEntries src) = .error .fuel
  · rw [hs] at hne; exact absurd rfl hne
  · rw [hK _ _ hs]
    cases h1 : copyKV f G s (sortedEntries src) with
    | error e => rfl
    | ok p =>
      obtain ⟨res1, s1⟩ := p
      rw [h1] at hne
      simp only at hne ⊢
      by_cases hs2 : inlineKey f G s1 src res1 keyFilter = .error .fuel
      · rw [hs2] at hne; exact absurd rfl hne
      · rw [hI _ _ _ _ hs2]
        cases h2 : inlineKey f G s1 src res1 keyFilter with
        | error e => rfl
        | ok p2 =>
          obtain ⟨res2, s2⟩ := p2
          rw [h2] at hne
          simp only at hne ⊢
          exact hI _ _ _ _ hne

theorem mstep_val (f : Nat) (hO : MObj G f) (hS : MSD G f) : MVal G (f+1) := by
  intro s v hne
  cases v with
  | obj o =>
    simp only [copyVal] at hne ⊢
    by_cases hs : copyObj f G s o = .error .fuel
    · rw [hs] at hne; exact absurd rfl hne
    · rw [hO _ _ hs]
  | stream dict data enc =>
    simp only [copyVal] at hne ⊢
    by_cases hs : copyStreamDict f G s dict = .error .fuel
    · rw [hs] at hne; exact absurd rfl hne
    · rw [hS _ _ hs]

theorem mstep_ref (f : Nat) (hV : MVal G f) : MRef G (f+1) := by
  intro s r hne
  simp only [copyRef] at hne ⊢
  cases ht : assoc r s.trans with
  | some t => rfl
  | none =>
    rw [ht] at hne
    simp only at hne ⊢
    cases hw : walkFrom G s.trans r with
    | fails e => rfl
    | dead => rfl
    | known t chain => rfl
    | ends v chain =>
      rw [hw] at hne
      simp only at hne ⊢
      cases ha : alloc s with
      | error e => rfl
      | ok p =>
        obtain ⟨n, s1⟩ := p
        rw [ha] at hne
        simp only at hne ⊢
        by_cases hs : copyVal f G { s1 with trans := enter chain n s1.trans } v = .error .fuel
        · rw [hs] at hne; exact absurd rfl hne
        · rw [hV _ _ hs]

theorem fuel_step : ∀ f : Nat,
    MObj G f ∧ MList G f ∧ MKV G f ∧ MInl G f ∧ MSD G f ∧ MVal G f ∧ MRef G f := by
  intro f
  induction f with
  | zero =>
    refine ⟨?_, ?_, ?_, ?_, ?_, ?_, ?_⟩
    · intro s o h; simp [copyObj] at h
    · intro s o h; simp [copyList] at h
    · intro s o h; simp [copyKV] at h
    · intro s a b c h; simp [inlineKey] at h
    · intro s o h; simp [copyStreamDict] at h
    · intro s o h; simp [copyVal] at h
    · intro s o h; simp [copyRef] at h
  | succ f ih =>
    obtain ⟨hO, hL, hK, hI, hS, hV, hR⟩ := ih
    exact ⟨mstep_obj G f hL hK hR, mstep_list G f hO hL, mstep_kv G f hO hK, mstep_inl G f hO,
      mstep_sd G f hK hI, mstep_val G f hO hS, mstep_ref G f hV⟩

/-- **fuel_irrelevant.**  Once a call does not run out of fuel, more fuel gives the same result:
the theorems above are about the `Copier`, not about a particular budget. -/
theorem fuel_irrelevant {f : Nat} {s : St} {r : Ref} (h : copyRef f G s r ≠ .error .fuel) :
    ∀ k, copyRef (f + k) G s r = copyRef f G s r := by
  intro k
  induction k with
  | zero => rfl
  | succ k ih =>
    have := (fuel_step G (f + k)).2.2.2.2.2.2 s r (by rw [ih]; exact h)
    rw [← Nat.add_assoc, this, ih]

end

/-! ### the /Crypt probe of `Writer.OpenStream` does not depend on the translation -/

theorem kvLookup_mapKV {tr : List (Ref × Ref)} (k : Bytes) :
    ∀ (kv kv' : KV), mapKV tr kv = some kv' →
      (kvLookup k kv = none ∧ kvLookup k kv' = none) ∨
      ∃ x y, kvLookup k kv = some x ∧ kvLookup k kv' = some y ∧ mapObj tr x = some y
  | [], kv' => by intro e; simp only [mapKV] at e; cases e; exact Or.inl ⟨rfl, rfl⟩
  | (k', v) :: rest, kv' => by
    simp only [mapKV]
    split
    · next v' rest' hv hr =>
      intro e; cases e
      simp only [kvLookup]
      split
      · exact Or.inr ⟨v, v', rfl, rfl, hv⟩
      · exact kvLookup_mapKV k rest rest' hr
    · intro e; cases e

theorem isCryptName_map {tr : List (Ref × Ref)} {x y : Obj} (h : mapObj tr x = some y) :
    isCryptName y = isCryptName x := by
  cases x <;> simp only [mapObj] at h
  case ref n g => split at h <;> cases h; rfl
  case arr xs => split at h <;> cases h; rfl
  case dict kv => split at h <;> cases h; rfl
  all_goals (cases h; rfl)

theorem anyCrypt_map {tr : List (Ref × Ref)} :
    ∀ (xs ys : List Obj), mapList tr xs = some ys → ys.any isCryptName = xs.any isCryptName
  | [], ys => by intro e; simp only [mapList] at e; cases e; rfl
  | x :: xs, ys => by
    simp only [mapList]
    split
    · next y ys' hy hys =>
      intro e; cases e
      simp only [List.any_cons, isCryptName_map hy, anyCrypt_map xs ys' hys]
    · intro e; cases e

/-- what `parseCrypt` sees of a mapped parameter dictionary -/
theorem parseCryptKind_map {tr : List (Ref × Ref)} {p p' : KV} (h : mapKV tr p = some p') :
    parseCryptKind (some p') = parseCryptKind (some p) := by
  simp only [parseCryptKind, Option.bind_some]
  rcases kvLookup_mapKV keyName p p' h with ⟨h1, h2⟩ | ⟨x, y, h1, h2, hxy⟩
  · rw [h1, h2]
  · rw [h1, h2]
    cases x <;> simp only [mapObj] at hxy
    case ref n g => split at hxy <;> cases hxy; rfl
    case arr xs => split at hxy <;> cases hxy; rfl
    case dict kv => split at hxy <;> cases hxy; rfl
    all_goals (cases hxy; rfl)

/-- the names `dictCryptFilter` loops over -/
def filterNames (d : KV) : List Obj :=
  match kvLookup keyFilter d with
  | some (.name f) => [.name f]
  | some (.arr xs) => xs
  | _ => []

/-- the parameters `dictCryptFilter` hands to `parseCrypt` -/
def cryptParms (d : KV) : Option KV :=
  match kvLookup keyDecodeParms d with
  | some (.dict p) => some p
  | some (.arr (.dict p :: _)) => some p
  | _ => none

def cryptOf (names : List Obj) (parms : Option KV) : Except CErr (Option FKind) :=
  match names with
  | [] => .ok none
  | x :: rest =>
    if isCryptName x then
      match parseCryptKind parms with
      | .error e => .error e
      | .ok k => if rest.any isCryptName then .error .other else .ok (some k)
    else if rest.any isCryptName then .error .other else .ok none

theorem dictCryptKind_eq (d : KV) : dictCryptKind d = cryptOf (filterNames d) (cryptParms d) := rfl

theorem filterNames_map {tr : List (Ref × Ref)} {d d' : KV} (h : mapKV tr d = some d') :
    mapList tr (filterNames d) = some (filterNames d') := by
  unfold filterNames
  rcases kvLookup_mapKV keyFilter d d' h with ⟨h1, h2⟩ | ⟨x, y, h1, h2, hxy⟩
  · rw [h1, h2]; rfl
  · rw [h1, h2]
    cases x <;> simp only [mapObj] at hxy
    case ref n g => split at hxy <;> cases hxy; rfl
    case arr xs =>
      split at hxy
      · next ys hys => cases hxy; exact hys
      · cases hxy
    case dict kv => split at hxy <;> cases hxy; rfl
    all_goals (cases hxy; rfl)

theorem cryptParms_map {tr : List (Ref × Ref)} {d d' : KV} (h : mapKV tr d = some d') :
    parseCryptKind (cryptParms d') = parseCryptKind (cryptParms d) := by
  unfold cryptParms
  rcases kvLookup_mapKV keyDecodeParms d d' h with ⟨h1, h2⟩ | ⟨x, y, h1, h2, hxy⟩
  · rw [h1, h2]
  · rw [h1, h2]
    cases x <;> simp only [mapObj] at hxy
    case ref n g => split at hxy <;> cases hxy; rfl
    case dict kv =>
      split at hxy
      · next kv' hkv => cases hxy; exact parseCryptKind_map hkv
      · cases hxy
    case arr xs =>
      split at hxy
      · next ys hys =>
        cases hxy
        cases xs with
        | nil => simp only [mapList] at hys; cases hys; rfl
        | cons x0 xr =>
          simp only [mapList] at hys
          split at hys
          · next y0 yr hy0 hyr =>
            cases hys
            cases x0 <;> simp only [mapObj] at hy0
            case ref n g => split at hy0 <;> cases hy0; rfl
            case arr zs => split at hy0 <;> cases hy0; rfl
            case dict kv =>
              split at hy0
              · next kv' hkv => cases hy0; exact parseCryptKind_map hkv
              · cases hy0
            all_goals (cases hy0; rfl)
          · cases hys
      · cases hxy
    all_goals (cases hxy; rfl)

theorem cryptOf_map {tr : List (Ref × Ref)} {xs ys : List Obj} (h : mapList tr xs = some ys)
    {p p' : Option KV} (hp : parseCryptKind p' = parseCryptKind p) : cryptOf ys p' = cryptOf xs p := by
  cases xs with
  | nil => simp only [mapList] at h; cases h; rfl
  | cons x rest =>
    simp only [mapList] at h
    split at h
    · next y ys' hy hys =>
      cases h
      simp only [cryptOf, isCryptName_map hy, anyCrypt_map rest ys' hys, hp]
    · cases h

/-- **the refusal is a property of the source stream:** whether `Writer.Put` refuses the copy
    of a stream can be read off the (inlined) source dictionary; the translation of the references
    does not matter. -/
theorem putRefusal_map {tr : List (Ref × Ref)} {sp v' : Val} (tv : Nat) (h : mapVal tr sp = some v') :
    putRefusal tv v' = putRefusal tv sp := by
  cases sp with
  | obj o =>
    simp only [mapVal] at h
    split at h <;> cases h
    rfl
  | stream d data enc =>
    simp only [mapVal] at h
    split at h
    · next d' hd =>
      cases h
      simp only [putRefusal, dictCryptKind_eq]
      rw [cryptOf_map (filterNames_map hd) (cryptParms_map hd)]
    · cases h

/-! ### on a readable source the copier does not fail -/

theorem put_succeeds {G : Graph} {s s3 : St} {tr : List (Ref × Ref)} (v : Val) (hp : PB s)
    (h : Eff G { trans := tr, next := s.next + 1, puts := s.puts, tgtV := s.tgtV } s3)
    (hacc : putRefusal s3.tgtV v = none) :
    ∃ s4, put s3 (refOf s.next) v = .ok s4 := by
  obtain ⟨P, hb, hk⟩ := h.new_keys
  simp only at hb hk
  have hfree : s3.puts.any (fun p => p.1.1 == (refOf s.next).1) = false := by
    rw [List.any_eq_false]
    intro p hpm
    simp only [refOf, beq_iff_eq]
    rw [hb, List.mem_append] at hpm
    rcases hpm with e | e
    · have := hp p.1 (List.mem_map.mpr ⟨p, e, rfl⟩); omega
    · obtain ⟨m, hm, h1, _⟩ := hk p.1 (List.mem_map.mpr ⟨p, e, rfl⟩)
      rw [hm]; simp only [refOf]; omega
  unfold put
  rw [hfree, hacc]
  exact ⟨_, rfl⟩

/-- a source value the copier can copy into a target with /V `tv` (0: not encrypted): /Filter and
    /DecodeParms can be inlined, the source's crypt filter can be decoded, and the target takes
    the stream's /Crypt filter, if it names one (`putRefusal`: only /Identity, and only where crypt
    filters exist) -/
def BenignVal (G : Graph) (tv : Nat) : Val → Prop
  | .obj _ => True
  | .stream dict data enc =>
    (∀ key, (key = keyFilter ∨ key = keyDecodeParms) → ∀ val, kvLookup key dict = some val →
      ∃ inl, inlineFilterRefs G val = .ok (.obj inl)) ∧
    (∃ rc, streamCryptRecipe G dict enc = .ok rc ∧ rc ≠ .unsupportedCF) ∧
    ∀ d, specDict G dict = some d → putRefusal tv (.stream d data false) = none

/-- every reference of `U` can be read, and the streams among them have a well-formed filter
    chain and no crypt filter the library cannot decode -/
def Benign (G : Graph) (tv : Nat) (U : List Ref) : Prop :=
  ∀ r ∈ U, ∃ v, resolveOrNull G r = .ok v ∧ BenignVal G tv v

section
variable (G : Graph) (U : List Ref) (W : Nat) (tv : Nat)

def SObj (f : Nat) : Prop := ∀ s o, PBT tv s → (∀ b ∈ orefs o, b ∈ U) →
  osize o + 1 + unv U s.trans * (W + 6) ≤ f → Fine (copyObj f G s o)
def SList (f : Nat) : Prop := ∀ s xs, PBT tv s → (∀ b ∈ lrefs xs, b ∈ U) →
  lsize xs + 1 + unv U s.trans * (W + 6) ≤ f → Fine (copyList f G s xs)
def SKV (f : Nat) : Prop := ∀ s L, PBT tv s → (∀ b ∈ kvrefs L, b ∈ U) →
  kvsize L + 1 + unv U s.trans * (W + 6) ≤ f → Fine (copyKV f G s L)
def SInl (f : Nat) : Prop := ∀ s src res key, PBT tv s →
  (∀ val, kvLookup key src = some val → ∃ inl, inlineFilterRefs G val = .ok (.obj inl) ∧ GoodObj U W inl) →
  W + 2 + unv U s.trans * (W + 6) ≤ f → Fine (inlineKey f G s src res key)
def SSD (f : Nat) : Prop := ∀ s src data enc, PBT tv s → GoodVal G U W (.stream src data enc) →
  BenignVal G tv (.stream src data enc) →
  W + 4 + unv U s.trans * (W + 6) ≤ f → Fine (copyStreamDict f G s src)
def SVal (f : Nat) : Prop := ∀ s v, PBT tv s → GoodVal G U W v → BenignVal G tv v →
  W + 5 + unv U s.trans * (W + 6) ≤ f → Fine (copyVal f G s v)
def SRef (f : Nat) : Prop := ∀ s r, PBT tv s → r ∈ U →
  1 + unv U s.trans * (W + 6) ≤ f → Fine (copyRef f G s r)

theorem sstep_obj (f : Nat) (hL : SList G U W tv f) (hK : SKV G U W tv f) (hR : SRef G U W tv f) :
    SObj G U W tv (f+1) := by
  intro s o hp hrefs hf
  cases o with
  | dict kv =>
    simp only [copyObj]
    have hperm := sortedEntries_perm kv
    have := hK s (sortedEntries kv) hp (fun b hb => hrefs b (by simpa [orefs] using (kvrefs_perm hperm b).mp hb))
      (by rw [kvsize_perm hperm]; simp only [osize] at hf; omega)
    rcases this with ⟨a, ha⟩ | ha <;> rw [ha]
    · exact Or.inl ⟨_, rfl⟩
    · exact Or.inr rfl
  | arr xs =>
    simp only [copyObj]
    have := hL s xs hp (fun b hb => hrefs b (by simpa [orefs] using hb))
      (by simp only [osize] at hf; omega)
    rcases this with ⟨a, ha⟩ | ha <;> rw [ha]
    · exact Or.inl ⟨_, rfl⟩
    · exact Or.inr rfl
  | ref n g =>
    simp only [copyObj]
    have := hR s (n, g) hp (hrefs _ (by simp [orefs])) (by simp only [osize] at hf; omega)
    rcases this with ⟨a, ha⟩ | ha <;> rw [ha]
    · exact Or.inl ⟨_, rfl⟩
    · exact Or.inr rfl
  | _ => simp only [copyObj]; exact Or.inl ⟨_, rfl⟩

theorem sstep_list (f : Nat) (hO : SObj G U W tv f) (hL : SList G U W tv f) : SList G U W tv (f+1) := by
  intro s xs hp hrefs hf
  cases xs with
  | nil => simp only [copyList]; exact Or.inl ⟨_, rfl⟩
  | cons x xs =>
    simp only [copyList]
    simp only [lrefs, List.mem_append] at hrefs
    simp only [lsize] at hf
    have h1 := hO s x hp (fun b hb => hrefs b (Or.inl hb)) (by have := lsize_pos xs; omega)
    rcases h1 with ⟨⟨y, s1⟩, hy⟩ | hy <;> rw [hy]
    · have e1 := ((copy_main G f).1 s x y s1 hy).1
      have hu := unv_mono (U := U) e1.extends
      have h2 := hL s1 xs (e1.pbt hp) (fun b hb => hrefs b (Or.inr hb))
        (by have := osize_pos x
            have : unv U s1.trans * (W + 6) ≤ unv U s.trans * (W + 6) := Nat.mul_le_mul_right _ hu
            omega)
      simp only
      rcases h2 with ⟨a, ha⟩ | ha <;> rw [ha]
      · exact Or.inl ⟨_, rfl⟩
      · exact Or.inr rfl
    · exact Or.inr rfl


theorem sstep_kv (f : Nat) (hO : SObj G U W tv f) (hK : SKV G U W tv f) : SKV G U W tv (f+1) := by
  intro s L hp hrefs hf
  cases L with
  | nil => simp only [copyKV]; exact Or.inl ⟨_, rfl⟩
  | cons p rest =>
    obtain ⟨k, v⟩ := p
    simp only [kvrefs, List.mem_append] at hrefs
    simp only [kvsize] at hf
    by_cases hv : v = .null
    · subst hv
      simp only [copyKV]
      have h2 := hK s rest hp (fun b hb => hrefs b (Or.inr hb)) (by omega)
      rcases h2 with ⟨a, ha⟩ | ha <;> rw [ha]
      · exact Or.inl ⟨_, rfl⟩
      · exact Or.inr rfl
    · rw [copyKV_cons_nonnull G f s k v rest hv]
      have h1 := hO s v hp (fun b hb => hrefs b (Or.inl hb)) (by have := kvsize_pos rest; omega)
      rcases h1 with ⟨⟨y, s1⟩, hy⟩ | hy <;> rw [hy]
      · have e1 := ((copy_main G f).1 s v y s1 hy).1
        have hu := unv_mono (U := U) e1.extends
        have h2 := hK s1 rest (e1.pbt hp) (fun b hb => hrefs b (Or.inr hb))
          (by have := osize_pos v
              have : unv U s1.trans * (W + 6) ≤ unv U s.trans * (W + 6) := Nat.mul_le_mul_right _ hu
              omega)
        simp only [kvCont]
        rcases h2 with ⟨a, ha⟩ | ha <;> rw [ha]
        · exact Or.inl ⟨_, rfl⟩
        · exact Or.inr rfl
      · exact Or.inr rfl

theorem sstep_inl (f : Nat) (hO : SObj G U W tv f) : SInl G U W tv (f+1) := by
  intro s src res key hp hgood hf
  simp only [inlineKey]
  cases hk : kvLookup key src with
  | none => exact Or.inl ⟨_, rfl⟩
  | some val =>
    obtain ⟨inl, hi, g1, g2⟩ := hgood val hk
    simp only [hi]
    have h1 := hO s inl hp g2 (by omega)
    rcases h1 with ⟨a, ha⟩ | ha <;> rw [ha]
    · exact Or.inl ⟨_, rfl⟩
    · exact Or.inr rfl

theorem sstep_sd (f : Nat) (hK : SKV G U W tv f) (hI : SInl G U W tv f) : SSD G U W tv (f+1) := by
  intro s src data enc hp hgood hben hf
  obtain ⟨g1, g2, g3⟩ := hgood
  obtain ⟨b1, _⟩ := hben
  have hkey : ∀ key, (key = keyFilter ∨ key = keyDecodeParms) → ∀ val, kvLookup key src = some val →
      ∃ inl, inlineFilterRefs G val = .ok (.obj inl) ∧ GoodObj U W inl := by
    intro key hk val hv
    obtain ⟨inl, hi⟩ := b1 key hk val hv
    exact ⟨inl, hi, g3 key hk val inl hv hi⟩
  simp only [copyStreamDict]
  have hperm := sortedEntries_perm src
  have h1 := hK s (sortedEntries src) hp (fun b hb => g2 b ((kvrefs_perm hperm b).mp hb))
    (by rw [kvsize_perm hperm]; omega)
  rcases h1 with ⟨⟨res1, s1⟩, hr1⟩ | hr1 <;> rw [hr1]
  · have e1 := ((copy_main G f).2.2.1 s _ res1 s1 hr1).1
    have hu1 := unv_mono (U := U) e1.extends
    have m1 : unv U s1.trans * (W + 6) ≤ unv U s.trans * (W + 6) := Nat.mul_le_mul_right _ hu1
    have h2 := hI s1 src res1 keyFilter (e1.pbt hp) (hkey keyFilter (Or.inl rfl)) (by omega)
    simp only
    rcases h2 with ⟨⟨res2, s2⟩, hr2⟩ | hr2 <;> rw [hr2]
    · have e2 := ((copy_main G f).2.2.2.1 s1 src res1 keyFilter res2 s2 hr2).1
      have hu2 := unv_mono (U := U) e2.extends
      have m2 : unv U s2.trans * (W + 6) ≤ unv U s1.trans * (W + 6) := Nat.mul_le_mul_right _ hu2
      exact hI s2 src res2 keyDecodeParms (e2.pbt (e1.pbt hp)) (hkey keyDecodeParms (Or.inr rfl)) (by omega)
    · exact Or.inr rfl
  · exact Or.inr rfl

theorem sstep_val (f : Nat) (hO : SObj G U W tv f) (hS : SSD G U W tv f) : SVal G U W tv (f+1) := by
  intro s v hp hgood hben hf
  cases v with
  | obj o =>
    simp only [copyVal]
    have h1 := hO s o hp hgood.2 (by have := hgood.1; omega)
    rcases h1 with ⟨a, ha⟩ | ha <;> rw [ha]
    · exact Or.inl ⟨_, rfl⟩
    · exact Or.inr rfl
  | stream dict data enc =>
    simp only [copyVal]
    have h1 := hS s dict data enc hp hgood hben (by omega)
    obtain ⟨_, ⟨rc, hrc, hne⟩, _⟩ := hben
    rcases h1 with ⟨⟨d', s1⟩, ha⟩ | ha <;> rw [ha]
    · simp only [hrc]
      cases rc <;> first | exact absurd rfl hne | exact Or.inl ⟨_, rfl⟩
    · exact Or.inr rfl

theorem sstep_ref (hC : Closed G U W) (hB : Benign G tv U) (f : Nat) (hV : SVal G U W tv f) :
    SRef G U W tv (f+1) := by
  intro s r hp hr hf
  simp only [copyRef]
  cases ht : assoc r s.trans with
  | some t => exact Or.inl ⟨_, rfl⟩
  | none =>
    simp only
    obtain ⟨v0, hres0, hbv0⟩ := hB r hr
    have hw := walkFrom_out (G := G) ht
    cases hwk : walkFrom G s.trans r with
    | fails e =>
      -- the walk fails only if Resolve fails, and r can be read
      have h1 := walkFrom_fails ht hwk
      rw [resolveOrNull_of_loop, h1] at hres0
      rw [hwk] at hw
      cases e <;> simp_all [WOutF]
    | dead => exact absurd hwk walkFrom_not_dead
    | known t chain => exact Or.inl ⟨_, rfl⟩
    | ends v chain =>
      rw [hwk] at hw
      obtain ⟨hres, _, w2, w3, _⟩ := hw
      have hv : v0 = v := by rw [hres0] at hres; cases hres; rfl
      subst hv
      simp only
      by_cases hroom : s.next ≥ Gen.cpy_maxXRefSize
      · simp only [alloc, hroom, ↓reduceIte]; exact Or.inr rfl
      · simp only [alloc, hroom, ↓reduceIte]
        have hlt := unv_enter_lt (U := U) (n := refOf s.next) hr w3 w2
        have hm : (unv U (enter chain (refOf s.next) s.trans) + 1) * (W + 6) ≤ unv U s.trans * (W + 6) :=
          Nat.mul_le_mul_right _ hlt
        have hp2 : PBT tv { trans := enter chain (refOf s.next) s.trans, next := s.next + 1, puts := s.puts, tgtV := s.tgtV } := by
          refine ⟨?_, hp.2⟩
          intro k hk; have := hp.1 k hk; simp only; omega
        have h1 := hV { trans := enter chain (refOf s.next) s.trans, next := s.next + 1, puts := s.puts, tgtV := s.tgtV } v0 hp2
          (hC r v0 hr hres0) hbv0 (by simp only; rw [Nat.add_mul] at hm; omega)
        rcases h1 with ⟨⟨v', s3⟩, ha⟩ | ha
        · obtain ⟨e, sp, hsp, hmv⟩ := (copy_main G f).2.2.2.2.2.1 _ v0 v' s3 ha
          have htv : s3.tgtV = tv := e.tgtV.trans hp.2
          have hacc : putRefusal s3.tgtV v' = none := by
            rw [putRefusal_map _ hmv, htv]
            cases v0 with
            | obj o => simp only [specVal] at hsp; cases hsp; rfl
            | stream dict data enc =>
              simp only [specVal] at hsp
              split at hsp
              · next d hd => cases hsp; exact hbv0.2.2 d hd
              · cases hsp
          obtain ⟨s4, h4⟩ := put_succeeds v' hp.1 e hacc
          have ha' : copyVal f G { trans := enter chain (s.next, 0) s.trans, next := s.next + 1, puts := s.puts, tgtV := s.tgtV } v0
              = .ok (v', s3) := ha
          have h4' : put s3 (s.next, 0) v' = .ok s4 := h4
          simp only [ha', h4']
          exact Or.inl ⟨_, rfl⟩
        · have ha' : copyVal f G { trans := enter chain (s.next, 0) s.trans, next := s.next + 1, puts := s.puts, tgtV := s.tgtV } v0
              = .error .overflow := ha
          simp only [ha']
          exact Or.inr rfl

/-- With a closed universe of readable references, every call returns ok (or reports the
    object-number overflow) once the fuel is sufficient. -/
theorem success_main (hC : Closed G U W) (hB : Benign G tv U) : ∀ f : Nat,
    SObj G U W tv f ∧ SList G U W tv f ∧ SKV G U W tv f ∧ SInl G U W tv f ∧ SSD G U W tv f ∧ SVal G U W tv f ∧ SRef G U W tv f := by
  intro f
  induction f with
  | zero =>
    refine ⟨?_, ?_, ?_, ?_, ?_, ?_, ?_⟩
    · intro s o _ _ h; have := osize_pos o; omega
    · intro s o _ _ h; omega
    · intro s o _ _ h; omega
    · intro s a b c _ _ h; omega
    · intro s a b c _ _ _ h; omega
    · intro s a _ _ _ h; omega
    · intro s a _ _ h; omega
  | succ f ih =>
    obtain ⟨hO, hL, hK, hI, hS, hV, hR⟩ := ih
    exact ⟨sstep_obj G U W tv f hL hK hR, sstep_list G U W tv f hO hL, sstep_kv G U W tv f hO hK,
      sstep_inl G U W tv f hO, sstep_sd G U W tv f hK hI, sstep_val G U W tv f hO hS,
      sstep_ref G U W tv hC hB f hV⟩

end

/-- **copy_succeeds.**  If every reference occurring in the source graph and the program can be
read (no I/O failure) and the streams have well-formed filter chains, no crypt filter the
library cannot decode and no /Crypt filter the target's `Writer.Put` refuses (`BenignVal`: a
non-Identity one, or any where the target is encrypted with /V < 4),
then `CopyReference`, run with the driver's fuel from any state whose
written object numbers are below `next` (a new `Writer`, or any state reached by the copier),
returns a reference — the only other outcome is the object-number overflow of `Writer.Alloc`.
Malformed objects, dangling references and reference cycles are not failures. -/
theorem copy_succeeds (G : Graph) (ops : List Op) (r : Ref) (hop : Op.copyRef r ∈ ops)
    (s : St) (hB : Benign G s.tgtV (allRefs G ops)) (hp : PB s) :
    (∃ t s', copyRef (fuelFor G ops) G s r = .ok (t, s')) ∨
      copyRef (fuelFor G ops) G s r = .error .overflow := by
  have hmain := success_main G (allRefs G ops) (maxWeight G ops) s.tgtV (closed_allRefs G ops) hB (fuelFor G ops)
  have hu := unv_le_length (allRefs G ops) s.trans
  have hmul : unv (allRefs G ops) s.trans * (maxWeight G ops + 6) ≤
      (allRefs G ops).length * (maxWeight G ops + 6) := Nat.mul_le_mul_right _ hu
  have hfuel : fuelFor G ops = (allRefs G ops).length * (maxWeight G ops + 6) + 2 * (maxWeight G ops + 6) := by
    unfold fuelFor; rw [Nat.add_mul]
  have := hmain.2.2.2.2.2.2 s r ⟨hp, rfl⟩ (opRefs_mem hop r (by simp [opRefs])) (by omega)
  rcases this with ⟨⟨t, s'⟩, h⟩ | h
  · exact Or.inl ⟨t, s', h⟩
  · exact Or.inr h

theorem init_pb (n0 : Nat) (tv : Nat := 0) : PB (St.init n0 tv) := by simp [PB, St.init]


end PdfVerif.C11cpyb

import PdfVerif.Model.HISObj
/-!
# C04 (part 2) — stream extent recovery

`stream_extent_recovery` (library HEAD f33cd07, D-C20-1): whenever `/Length` is missing,
unresolvable, negative or wrong (it does not point at white space followed by `endstream`),
`ReadStreamData` returns exactly the bytes between the EOL after `stream` and the ONE EOL marker
before `endstream`, for every body that does not contain EOL+`endstream` — the body may end in
LF, CR LF or several EOLs of its own; only a bare CR directly in front of the marker LF is excluded
(the file shows the single marker CR LF then).  A body with a line that starts with `endstream`
is cut there (known finding, `Props/C04hisg.lean`).
-/
namespace PdfVerif.C04hisb
open PdfVerif PdfVerif.HIS

theorem drop_len_append (a b : Bytes) : (a ++ b).drop a.length = b := by
  induction a with
  | nil => rfl
  | cons x xs ih => simpa using ih

theorem take_len_append (a b : Bytes) : (a ++ b).take a.length = a := by
  induction a with
  | nil => simp
  | cons x xs ih => simpa using ih

theorem isPrefixOf_self_append (p x : Bytes) : isPrefixOf p (p ++ x) = true := by
  induction p with
  | nil => rfl
  | cons a as ih => simp [isPrefixOf, ih]

/-- a keyword that is a prefix of `cs ++ e :: s`, where `e` does not occur in the keyword, is
    already a prefix of `cs`: no occurrence straddles the position of `e` -/
theorem isPrefixOf_before (e : Nat) (s : Bytes) : ∀ (kw cs : Bytes), (∀ x ∈ kw, x ≠ e) →
    isPrefixOf kw (cs ++ e :: s) = true → isPrefixOf kw cs = true := by
  intro kw
  induction kw with
  | nil => intro cs _ _; rfl
  | cons k ks ih =>
    intro cs hk h
    cases cs with
    | nil =>
      simp [isPrefixOf] at h
      exact absurd h.1 (hk k (by simp))
    | cons c cs' =>
      simp only [List.cons_append, isPrefixOf, Bool.and_eq_true] at h ⊢
      exact ⟨h.1, ih cs' (fun x hx => hk x (by simp [hx])) h.2⟩

theorem findEol_cons (c : Nat) (cs : Bytes) : findEolEndstream (c :: cs) =
    if (isEolByte c && isPrefixOf kwEndstream cs) = true then some 0
    else match findEolEndstream cs with
      | some i => some (i + 1)
      | none => none := by
  rw [findEolEndstream]; split <;> rfl

theorem kwEndstream_no_eol : ∀ x ∈ kwEndstream, x ≠ 10 ∧ x ≠ 13 := by decide

/-- the body has no EOL+`endstream` inside, the next byte `e` is an EOL byte: the first
    occurrence in `body ++ e :: s` is the first occurrence in `e :: s` -/
theorem findEol_append (e : Nat) (he : e = 10 ∨ e = 13) (s : Bytes) : ∀ (body : Bytes),
    findEolEndstream body = none →
    findEolEndstream (body ++ e :: s) = (findEolEndstream (e :: s)).map (· + body.length) := by
  intro body
  induction body with
  | nil => intro _; cases h : findEolEndstream (e :: s) <;> simp [h]
  | cons c cs ih =>
    intro hno
    have hno' := hno
    unfold findEolEndstream at hno'
    split at hno'
    · cases hno'
    · rename_i hcond
      have hcs : findEolEndstream cs = none := by
        cases hf : findEolEndstream cs with
        | none => rfl
        | some i => simp [hf] at hno'
      have hc2 : (isEolByte c && isPrefixOf kwEndstream (cs ++ e :: s)) = false := by
        cases hpe : isPrefixOf kwEndstream (cs ++ e :: s) with
        | false => simp
        | true =>
          have := isPrefixOf_before e s kwEndstream cs
            (fun x hx => by rcases he with rfl | rfl; exact (kwEndstream_no_eol x hx).1; exact (kwEndstream_no_eol x hx).2) hpe
          simp [this] at hcond
          simp [hcond]
      have ih' := ih hcs
      show findEolEndstream (c :: (cs ++ e :: s)) = _
      generalize findEolEndstream (e :: s) = r at ih' ⊢
      rw [findEol_cons, hc2, ih']
      cases r with
      | none => simp
      | some i => simp; omega

/-- the body does not end in CR or LF -/
def endsInEol (b : Bytes) : Bool :=
  match b.reverse with
  | c :: _ => isEolByte c
  | [] => false

theorem trim_noeol (b : Bytes) (h : endsInEol b = false) : trimTrailingEOL b = b.length := by
  unfold trimTrailingEOL
  unfold endsInEol at h
  split
  · rename_i heq; rw [heq] at h; simp [isEolByte] at h
  · rename_i heq; rw [heq] at h; simp [isEolByte] at h
  · rename_i heq; rw [heq] at h; simp [isEolByte] at h
  · rfl

theorem trim_cr (b : Bytes) (h : endsInEol b = false) : trimTrailingEOL (b ++ [13]) = b.length := by
  unfold trimTrailingEOL
  simp only [List.reverse_append, List.reverse_cons, List.reverse_nil, List.nil_append, List.cons_append]
  simp

/-- the three spellings of an end-of-line marker (§7.2.3) -/
def IsEol (e : Bytes) : Prop := e = [10] ∨ e = [13, 10] ∨ e = [13]

/-- the body ends in a bare CR -/
def endsInCR (b : Bytes) : Bool :=
  match b.reverse with
  | c :: _ => c == 13
  | [] => false

theorem trim_eol (body endEol : Bytes) (hend : IsEol endEol) (hamb : endEol = [10] → endsInCR body = false) :
    trimTrailingEOL (body ++ endEol) = body.length := by
  unfold trimTrailingEOL
  rcases hend with rfl | rfl | rfl
  · have h := hamb rfl
    unfold endsInCR at h
    simp only [List.reverse_append, List.reverse_cons, List.reverse_nil, List.nil_append, List.cons_append]
    cases hr : body.reverse with
    | nil => simp
    | cons c t =>
      rw [hr] at h
      have hc : c ≠ 13 := by simpa using h
      split
      · rename_i heq; simp at heq; exact absurd heq.1 hc
      · simp
      · rename_i heq; simp at heq
      · rename_i h1 h2 h3; exact absurd rfl (h2 _)
  · simp only [List.reverse_append, List.reverse_cons, List.reverse_nil, List.nil_append, List.cons_append]
    simp
  · simp only [List.reverse_append, List.reverse_cons, List.reverse_nil, List.nil_append, List.cons_append]
    simp

/-- **Stream extent recovery** (library HEAD f33cd07).  Let a file contain `stream`, a conforming
EOL (LF or CR LF), a body, an EOL marker (LF, CR LF or CR), `endstream`, anything.  If the body
contains no EOL directly followed by `endstream`, and — when the marker is a bare LF — does not
end in a bare CR (the file would show the ONE marker CR LF), then for *every* such body, in
particular one that ends in LF, CR LF or several EOLs, every surrounding bytes and every
unusable `/Length` — absent or unresolvable (`declared = none`) or a value `d` which does not
point at optional white space followed by `endstream` — `ReadStreamData` returns exactly the
body: its extent starts after the first EOL and has the length of the body. -/
theorem stream_extent_recovery (pre body rest startEol endEol : Bytes)
    (hstart : startEol = [10] ∨ startEol = [13, 10]) (hend : IsEol endEol)
    (hamb : endEol = [10] → endsInCR body = false) (hno : findEolEndstream body = none)
    (declared : Option Nat)
    (hdecl : ∀ d, declared = some d →
      endstreamAt (pre ++ kw_stream ++ startEol ++ body ++ endEol ++ kwEndstream ++ rest)
        (pre.length + 6 + startEol.length + d) = false) :
    let file := pre ++ kw_stream ++ startEol ++ body ++ endEol ++ kwEndstream ++ rest
    let start := pre.length + 6 + startEol.length
    readStreamData file pre.length declared
        = .ok { start := start, len := body.length, after := start + body.length + endEol.length + 9 }
      ∧ (file.drop start).take body.length = body := by
  intro file start
  have hfile : file = pre ++ (kw_stream ++ (startEol ++ (body ++ (endEol ++ (kwEndstream ++ rest))))) := by
    simp [file, List.append_assoc]
  have hdrop0 : file.drop pre.length = kw_stream ++ (startEol ++ (body ++ (endEol ++ (kwEndstream ++ rest)))) := by
    rw [hfile]; exact drop_len_append _ _
  have hdropS : file.drop start = body ++ (endEol ++ (kwEndstream ++ rest)) := by
    have : file = (pre ++ kw_stream ++ startEol) ++ (body ++ (endEol ++ (kwEndstream ++ rest))) := by
      simp [file, List.append_assoc]
    rw [this]
    have hl : start = (pre ++ kw_stream ++ startEol).length := by simp [start, kw_stream]; omega
    rw [hl]; exact drop_len_append _ _
  have hel : endEol.length ≥ 1 := by rcases hend with rfl | rfl | rfl <;> simp
  -- where the recovery path finds the pattern
  have hfind : findEolEndstream (body ++ (endEol ++ (kwEndstream ++ rest)))
      = some (body.length + (endEol.length - 1)) := by
    rcases hend with rfl | rfl | rfl
    · have := findEol_append 10 (.inl rfl) (kwEndstream ++ rest) body hno
      simp only [List.cons_append, List.nil_append] at this ⊢
      rw [this]
      unfold findEolEndstream
      simp [isEolByte, isPrefixOf_self_append]
    · have := findEol_append 13 (.inr rfl) (10 :: (kwEndstream ++ rest)) body hno
      simp only [List.cons_append, List.nil_append] at this ⊢
      rw [this]
      have h1 : isPrefixOf kwEndstream (10 :: (kwEndstream ++ rest)) = false := by simp [kwEndstream, isPrefixOf]
      have h2 : findEolEndstream (10 :: (kwEndstream ++ rest)) = some 0 := by
        unfold findEolEndstream
        simp [isEolByte, isPrefixOf_self_append]
      unfold findEolEndstream
      simp [isEolByte, h1, h2]
      omega
    · have := findEol_append 13 (.inr rfl) (kwEndstream ++ rest) body hno
      simp only [List.cons_append, List.nil_append] at this ⊢
      rw [this]
      unfold findEolEndstream
      simp [isEolByte, isPrefixOf_self_append]
  -- what is trimmed: exactly the EOL marker
  have htrim : trimTrailingEOL ((body ++ (endEol ++ (kwEndstream ++ rest))).take
      (body.length + (endEol.length - 1) + 1)) = body.length := by
    have h1 : body.length + (endEol.length - 1) + 1 = (body ++ endEol).length := by
      simp; omega
    have h2 : body ++ (endEol ++ (kwEndstream ++ rest)) = (body ++ endEol) ++ (kwEndstream ++ rest) := by simp
    rw [h1, h2, take_len_append]
    exact trim_eol body endEol hend hamb
  have hrecover : recoverExtent file start
      = .ok { start := start, len := body.length, after := start + body.length + endEol.length + 9 } := by
    unfold recoverExtent
    rw [hdropS, hfind]
    simp only [htrim, Bool.false_eq_true, if_false]
    congr 2
    omega
  refine ⟨?_, ?_⟩
  · unfold readStreamData
    simp only [hdrop0]
    have hsw : startsWith (kw_stream ++ (startEol ++ (body ++ (endEol ++ (kwEndstream ++ rest))))) kw_stream = true := by
      unfold startsWith; exact isPrefixOf_self_append _ _
    simp only [hsw, Bool.not_true, Bool.false_eq_true, if_false]
    have hd6 : (kw_stream ++ (startEol ++ (body ++ (endEol ++ (kwEndstream ++ rest))))).drop 6
        = startEol ++ (body ++ (endEol ++ (kwEndstream ++ rest))) := by
      have : (6 : Nat) = kw_stream.length := by simp [kw_stream]
      rw [this]; exact drop_len_append _ _
    rw [hd6]
    rcases hstart with rfl | rfl
    · simp only [List.cons_append, List.nil_append]
      have hs : pre.length + 6 + 1 = start := by simp [start]
      simp only [hs]
      cases hdc : declared with
      | none => exact hrecover
      | some d =>
        have := hdecl d hdc
        simp only [List.length_cons, List.length_nil] at this
        simp only [file, start, List.length_cons, List.length_nil] at *
        simp only [this, Bool.and_false, Bool.false_eq_true, if_false]
        exact hrecover
    · simp only [List.cons_append, List.nil_append]
      have hs : pre.length + 6 + 2 = start := by simp [start]
      simp only [hs]
      cases hdc : declared with
      | none => exact hrecover
      | some d =>
        have := hdecl d hdc
        simp only [List.length_cons, List.length_nil] at this
        simp only [file, start, List.length_cons, List.length_nil] at *
        simp only [this, Bool.and_false, Bool.false_eq_true, if_false]
        exact hrecover
  · rw [hdropS]; exact take_len_append _ _

/-- bfd427f: a declared length whose end does not fit an `int64` is not probed; the stream is read
    exactly as if `/Length` were missing (recovery by the `endstream` search) -/
theorem length_overflow_is_unknown (file : Bytes) (pos d : Nat)
    (h : ∀ start, pos ≤ start → lengthFits start d = false) :
    readStreamData file pos (some d) = readStreamData file pos none := by
  simp only [readStreamData]
  split
  · rfl
  · split
    · rfl
    · rename_i k _
      simp only [h (pos + 6 + k) (by omega), Bool.false_and, Bool.false_eq_true, if_false]

theorem lengthFits_false (start d : Nat) (h : start + d > 9223372036854775807) : lengthFits start d = false := by
  unfold lengthFits
  simp only [decide_eq_false_iff_not]
  omega

example : (match readStreamData ("stream\nabc\nendstream".toList.map (·.toNat)) 0 (some 9223372036854775806) with
    | .ok e => e.start == 7 && e.len == 3 && e.after == 20 | _ => false) = true := by decide +kernel
example : (match readStreamData ("stream\nabc\nendstream".toList.map (·.toNat)) 0 (some 9223372036854775800) with
    | .ok e => e.start == 7 && e.len == 3 && e.after == 20 | _ => false) = true := by decide +kernel

-- non-vacuity: the body `a endstream\rb` (contains the keyword, a CR and ends in a regular byte),
-- CR LF before the real `endstream`, and a wrong `/Length 3`: hypotheses hold, extent is the body
def exPre : Bytes := [60, 60, 62, 62]
def exBody : Bytes := [97, 32] ++ kwEndstream ++ [13, 98]
def exFile : Bytes := exPre ++ kw_stream ++ [10] ++ exBody ++ [13, 10] ++ kwEndstream ++ [10]
example : endsInEol exBody = false ∧ findEolEndstream exBody = none
      ∧ endstreamAt exFile (exPre.length + 6 + 1 + 3) = false
      ∧ (match readStreamData exFile exPre.length (some 3) with
          | .ok e => e.start == 11 && e.len == exBody.length && e.after == 11 + 13 + 2 + 9
          | _ => false) = true := by
  decide +kernel

end PdfVerif.C04hisb

import PdfVerif.Props.C12ccf
/-!
# C12 (part 7) — `NewCodec` never panics

`AppendNodes` always returns (the `panic("unreachable")` is unreachable, also when the node
limit is exceeded); `newTree` on valid ranges never indexes a range out of bounds and never
recurses deeper than four levels.
-/
namespace PdfVerif.C12ccg
open PdfVerif PdfVerif.CC PdfVerif.C12cc PdfVerif.C12ccb PdfVerif.C12ccc PdfVerif.C12ccd PdfVerif.C12cce

/-! ## `NewCodec` never panics -/

mutual
theorem appendNodes_total (cs : List (Nat × Node)) (l : Lin) :
    ∃ l' idx, appendNodes l cs = .ok (l', idx) ∧ l.nodes.length + cs.length ≤ l'.nodes.length ∧
      (l'.nodes.length ≤ 65532 → idx = l.nodes.length) := by
  rw [appendNodes_eq]
  split
  · rename_i hov
    refine ⟨_, _, rfl, by simp, ?_⟩
    intro h; simp [Gen.cc_maxNodes] at hov h; omega
  · rename_i hov
    simp only [Gen.cc_maxNodes, Nat.not_lt] at hov
    obtain ⟨l', a, h1, h2, h3⟩ := fillKids_total cs { l with nodes := l.nodes ++ cs.map fun c => ⟨c.1, 0⟩ }
      l.nodes.length 0 (by simp)
    rw [h1]
    simp only [List.length_append, List.length_map] at h2
    cases a with
    | true =>
      refine ⟨l', 0, by simp, h2, ?_⟩
      intro h; have := h3 rfl; omega
    | false =>
      refine ⟨l', l.nodes.length % 65536, by simp, h2, ?_⟩
      intro _; apply Nat.mod_eq_of_lt; omega
termination_by (sizeOf cs, 1)
theorem fillKids_total (rest : List (Nat × Node)) (l : Lin) (base i : Nat)
    (hb : base + i + rest.length ≤ l.nodes.length) :
    ∃ l' a, fillKids l base i rest = .ok (l', a) ∧ l.nodes.length ≤ l'.nodes.length ∧
      (a = true → l'.nodes.length > 65532) := by
  match rest with
  | [] => exact ⟨l, false, by simp [fillKids], Nat.le_refl _, by simp⟩
  | (hi, n) :: rest' =>
    simp only [List.length_cons] at hb
    rw [fillKids_cons]
    cases hlk : lookupDesc n.desc l.done with
    | some idx =>
      simp only
      obtain ⟨l', a, h1, h2, h3⟩ := fillKids_total rest' { l with nodes := setChild l.nodes (base + i) idx } base (i + 1)
        (by simp only [setChild_length]; omega)
      simp only [setChild_length] at h2
      exact ⟨l', a, h1, h2, h3⟩
    | none =>
      simp only
      cases n with
      | valid =>
        obtain ⟨l1, cp, a1, a2, a3⟩ := appendNodes_total [] l
        simp only [Node.kids, a1]
        simp only [List.length_nil, Nat.add_zero] at a2
        split
        · rename_i hgt; exact ⟨l1, true, rfl, a2, fun _ => hgt⟩
        · rename_i hgt
          have hgt : l1.nodes.length ≤ 65532 := Nat.not_lt.mp hgt
          have hcp := a3 hgt
          have : ¬ (cp ≤ base + i) := by omega
          simp only [this, if_false]
          obtain ⟨l', a, h1, h2, h3⟩ := fillKids_total rest'
            { nodes := setChild l1.nodes (base + i) cp, done := (Node.valid.desc, cp) :: l1.done } base (i + 1)
            (by simp [setChild_length]; omega)
          simp [setChild_length] at h2
          exact ⟨l', a, h1, by omega, h3⟩
      | invalid k =>
        obtain ⟨l1, cp, a1, a2, a3⟩ := appendNodes_total [] l
        simp only [Node.kids, a1]
        simp only [List.length_nil, Nat.add_zero] at a2
        split
        · rename_i hgt; exact ⟨l1, true, rfl, a2, fun _ => hgt⟩
        · rename_i hgt
          have hgt : l1.nodes.length ≤ 65532 := Nat.not_lt.mp hgt
          have hcp := a3 hgt
          have : ¬ (cp ≤ base + i) := by omega
          simp only [this, if_false]
          obtain ⟨l', a, h1, h2, h3⟩ := fillKids_total rest'
            { nodes := setChild l1.nodes (base + i) cp, done := ((Node.invalid k).desc, cp) :: l1.done } base (i + 1)
            (by simp [setChild_length]; omega)
          simp [setChild_length] at h2
          exact ⟨l', a, h1, by omega, h3⟩
      | sub cs' =>
        obtain ⟨l1, cp, a1, a2, a3⟩ := appendNodes_total cs' l
        simp only [Node.kids, a1]
        split
        · rename_i hgt; exact ⟨l1, true, rfl, by omega, fun _ => hgt⟩
        · rename_i hgt
          have hgt : l1.nodes.length ≤ 65532 := Nat.not_lt.mp hgt
          have hcp := a3 hgt
          have : ¬ (cp ≤ base + i) := by omega
          simp only [this, if_false]
          obtain ⟨l', a, h1, h2, h3⟩ := fillKids_total rest'
            { nodes := setChild l1.nodes (base + i) cp, done := ((Node.sub cs').desc, cp) :: l1.done } base (i + 1)
            (by simp [setChild_length]; omega)
          simp [setChild_length] at h2
          exact ⟨l', a, h1, by omega, h3⟩
termination_by (sizeOf rest, 0)
end

theorem mapE_error {α β : Type} (f : α → Except CErr β) : ∀ (l : List α) (e : CErr), mapE f l = .error e →
    ∃ a ∈ l, f a = .error e := by
  intro l
  induction l with
  | nil => intro e h; simp [mapE] at h
  | cons a l ih =>
    intro e h
    simp only [mapE] at h
    split at h
    · rename_i e' he'
      injection h with h; subst h
      exact ⟨a, by simp, he'⟩
    · split at h
      · rename_i e' he'
        injection h with h; subst h
        obtain ⟨a', ha', h'⟩ := ih _ he'
        exact ⟨a', by simp [ha'], h'⟩
      · cases h

/-- `newTree` on valid ranges fails only with `errInvalidCodeSpaceRange`, never with a panic -/
theorem newTree_no_panic (csr : CSR) (hv : ∀ r ∈ csr, r.isValid = true) :
    ∀ (fuel d : Nat) (S : CSR), 1 ≤ fuel →
      (∀ r ∈ S, r ∈ csr ∧ d < r.low.length ∧ r.low.length ≤ d + fuel) →
      newTree fuel S d ≠ .error .panic := by
  intro fuel
  induction fuel with
  | zero => intro d S h; omega
  | succ fuel ih =>
    intro d S _ hS hpanic
    simp only [newTree] at hpanic
    have hguard : (S.all fun r => decide (d < r.low.length) && decide (d < r.high.length)) = true := by
      simp only [List.all_eq_true, Bool.and_eq_true, decide_eq_true_eq]
      intro r hr
      have h1 := hS r hr
      have h2 := isValid_parts r (hv r h1.1)
      omega
    simp only [hguard, Bool.not_true, Bool.false_eq_true, if_false] at hpanic
    obtain ⟨iv, _, hiv⟩ := mapE_error _ _ _ hpanic
    simp only [nodeFor] at hiv
    split at hiv
    · cases hiv
    · rename_i hne
      split at hiv
      · cases hiv
      · split at hiv
        · rename_i h0
          split at hiv
          · cases hiv
          · rename_i e he
            injection hiv with hiv; subst hiv
            have hnoleaf : ∀ r ∈ overlapping S d iv.1 iv.2, r.low.length ≠ d + 1 := by
              intro r hr hlen
              have : (List.filter (fun r => r.low.length == d + 1) (overlapping S d iv.1 iv.2)) = [] := by
                simpa [numLeaves] using h0
              rw [List.filter_eq_nil_iff] at this
              have := this r hr
              simp [hlen] at this
            have hsub : ∀ r ∈ overlapping S d iv.1 iv.2, r ∈ S := fun r hr => (List.mem_filter.mp hr).1
            have hex : ∃ r, r ∈ overlapping S d iv.1 iv.2 := by
              cases hl : overlapping S d iv.1 iv.2 with
              | nil => simp [hl] at hne
              | cons r _ => exact ⟨r, by simp⟩
            obtain ⟨r0, hr0⟩ := hex
            have hfuel : 1 ≤ fuel := by
              have := hnoleaf r0 hr0
              have := hS r0 (hsub r0 hr0)
              omega
            exact ih (d + 1) _ hfuel (by
              intro r hr
              have h2 := hS r (hsub r hr)
              have h3 := hnoleaf r hr
              exact ⟨h2.1, by omega, by omega⟩) he
        · cases hiv

/-- **`NewCodec` never panics**: on every input it returns a codec or `errInvalidCodeSpaceRange`
(no index out of range in `newTree`, the `panic("unreachable")` of `AppendNodes` is unreachable). -/
theorem newCodec_no_panic (csr : CSR) : newCodec csr ≠ .error .panic := by
  unfold newCodec
  split
  · simp
  · rename_i hv
    simp only [Bool.not_eq_true', Bool.not_eq_false, List.all_eq_true] at hv
    cases hT : newTree 4 csr 0 with
    | error e =>
      simp only
      intro h; injection h with h; subst h
      exact newTree_no_panic csr hv 4 0 csr (by omega) (by
        intro r hr
        have := isValid_parts r (hv r hr)
        exact ⟨hr, by omega, by omega⟩) hT
    | ok tree =>
      simp only
      obtain ⟨l', idx, h1, _, _⟩ := appendNodes_total tree newLin
      rw [h1]
      simp only
      split <;> simp

end PdfVerif.C12ccg

import PdfVerif.Props.C15cntt
import PdfVerif.Props.C15cntp
/-!
# C15 (and C05) — nesting depth of scanned operands

Complements `Props/C15cntt.lean` (`scan_total`): on arbitrary bytes every operand of an operator
returned by `Scan` (comments and operators; inline images are read by `readValueDepth` with its
own limit) has nesting depth at most `maxContentNestDepth` — `step_depth` (loop invariant: what
sits in a frame with `k` frames below it is at most `N − k − 1` deep), `scanLoop_depth`,
`scanOne_depth`.  Tokens are atomic (`scanToken_atomic`), the dictionary built at `>>` is no deeper
than the frame's contents (`depth_mkDict`).
-/
namespace PdfVerif.C15cntw
open PdfVerif PdfVerif.CNT PdfVerif.C15cntm PdfVerif.C15cntp PdfVerif.C15cntt

/-- tokens are not composite -/
def Atomic (t : Obj) : Prop :=
  match t with
  | .arr _ => False
  | .dict _ => False
  | _ => True

theorem atomic_depth (t : Obj) (h : Atomic t) : depthO t = 0 := by
  cases t <;> first | rfl | exact absurd h (by simp [Atomic])

theorem classify_atomic (tok : Bytes) : Atomic (classify tok) := by
  cases tok with
  | nil => simp [classify, kw_false, kw_true, kw_null, Atomic]
  | cons c tl =>
    cases hn : (if isNumStart c = true then parseNumber (c :: tl) else none) with
    | some o =>
      have hcl : classify (c :: tl) = o := by simp [classify, hn]
      have hp : parseNumber (c :: tl) = some o := by
        split at hn
        · exact hn
        · simp at hn
      rw [hcl]
      rcases parseNumber_kind _ _ hp with ⟨i, hi⟩ | hr
      · rw [hi]; trivial
      · rw [hr]; trivial
    | none =>
      have hcl : classify (c :: tl) =
          (if (c :: tl) == kw_false then Obj.bool false else if (c :: tl) == kw_true then .bool true
           else if (c :: tl) == kw_null then .null else .op (c :: tl)) := by
        simp [classify, hn]
      rw [hcl]
      split
      · trivial
      · split
        · trivial
        · split <;> trivial

theorem map_str_atomic (r : Res Bytes) (t : Obj) (rest : Bytes) (h : r.map Obj.str = .ok t rest) : Atomic t := by
  cases r <;> simp [Res.map] at h
  rw [← h.1]; trivial

theorem scanToken_atomic (inp rest : Bytes) (t : Obj) (h : scanToken inp = .ok t rest) : Atomic t := by
  unfold scanToken at h
  cases hsk : CNT.skipWS inp with
  | nil => simp [hsk] at h
  | cons c r =>
    rw [hsk] at h
    simp only [] at h
    split at h
    · split at h <;> simp at h
      rw [← h.1]; trivial
    · split at h
      · exact map_str_atomic _ _ _ h
      · split at h
        · cases r with
          | nil => exact map_str_atomic _ _ _ h
          | cons d r' =>
            simp only [] at h
            split at h
            · simp at h; rw [← h.1]; trivial
            · exact map_str_atomic _ _ _ h
        · split at h
          · simp at h; rw [← h.1]; trivial
          · cases hreg : cReg c with
            | true =>
              simp only [hreg, if_true] at h
              split at h
              · simp at h
              · simp at h; rw [← h.1]; exact classify_atomic _
            | false =>
              simp only [hreg, Bool.false_eq_true, if_false] at h
              simp at h; rw [← h.1]; exact classify_atomic _

abbrev N : Nat := Gen.content_maxContentNestDepth

/-- depth invariant of the composite stack: what sits in a frame with `k` frames below it has
depth at most `N - k - 1`, so that closing all frames yields operands of depth at most `N` -/
def FramesD : List Frame → Prop
  | [] => True
  | top :: below => (∀ o ∈ top.data, depthO o + below.length + 1 ≤ N) ∧ FramesD below

def ArgsD (args : List Obj) : Prop := ∀ a ∈ args, depthO a ≤ N

theorem mem_dictInsert (k : Bytes) (v : Obj) (acc : List (Bytes × Obj)) (e : Bytes × Obj)
    (h : e ∈ dictInsert k v acc) : e ∈ acc ∨ e = (k, v) := by
  induction acc with
  | nil => simp [dictInsert] at h; exact .inr h
  | cons x r ih =>
    obtain ⟨k', v'⟩ := x
    simp only [dictInsert] at h
    split at h
    · simp at h
      rcases h with h | h
      · exact .inr h
      · exact .inl (by simp [h])
    · simp at h
      rcases h with h | h
      · exact .inl (by simp [h])
      · rcases ih h with h' | h'
        · exact .inl (by simp [h'])
        · exact .inr h'

theorem mem_mkDict (data : List Obj) (acc : List (Bytes × Obj)) (e : Bytes × Obj)
    (h : e ∈ mkDict data acc) : e ∈ acc ∨ e.2 ∈ data := by
  fun_induction mkDict data acc
  · rename_i ih
    rcases ih h with h' | h'
    · exact .inl h'
    · exact .inr (by simp [h'])
  · rename_i ih
    rcases ih h with h' | h'
    · rcases mem_dictInsert _ _ _ _ h' with h'' | h''
      · exact .inl h''
      · exact .inr (by simp [h''])
    · exact .inr (by simp [h'])
  · rename_i ih
    rcases ih h with h' | h'
    · exact .inl h'
    · exact .inr (by simp [h'])
  · exact .inl h

/-- the dictionary built at `>>` is no deeper than what was in the frame -/
theorem depth_mkDict (data : List Obj) (n : Nat) (h : ∀ o ∈ data, depthO o ≤ n) : depthKV (mkDict data []) ≤ n := by
  rw [depthKV_le]
  intro e he
  rcases mem_mkDict data [] e he with h' | h'
  · simp at h'
  · exact h _ h'

/-- what the depth invariant demands of the outcome of one loop iteration -/
def StepD (s : Step) : Prop :=
  match s with
  | .cont stk' args' => FramesD stk' ∧ ArgsD args'
  | .emit _ args' => ArgsD args'
  | .image => True
  | .perr => True

theorem deliver_depth (stk : List Frame) (args : List Obj) (o : Obj) (hs : StkOK stk) (hf : FramesD stk)
    (ha : ArgsD args) (ho : depthO o + stk.length ≤ N) : StepD (deliver stk args o) := by
  unfold deliver
  cases stk with
  | cons top below =>
    simp only []
    by_cases hlt : top.data.length ≥ (if top.isDict then 2 * Gen.content_maxDictLen else Gen.content_maxArrayLen)
    · simp only [hlt, if_true]; trivial
    · simp only [hlt, if_false]
      obtain ⟨h1, h2⟩ := hf
      refine ⟨⟨?_, h2⟩, ha⟩
      intro x hx
      simp at hx
      rcases hx with hx | hx
      · exact h1 x hx
      · subst hx
        simp only [List.length_cons] at ho
        omega
  | nil =>
    have hother : ∀ (o : Obj), depthO o ≤ N →
        StepD (.cont [] (if args.length < Gen.content_maxOperatorArgs then args ++ [o] else args)) := by
      intro o hd
      refine ⟨trivial, ?_⟩
      split
      · intro a haa
        simp at haa
        rcases haa with haa | haa
        · exact ha a haa
        · subst haa; exact hd
      · exact ha
    have hd : depthO o ≤ N := by simpa using ho
    cases o with
    | op name =>
      simp only []
      split
      · exact ⟨trivial, by intro a haa; simp at haa⟩
      · split
        · trivial
        · exact ha
    | _ => exact hother _ hd

theorem framesD_tail (top : Frame) (below : List Frame) (h : FramesD (top :: below)) : FramesD below := h.2

/-- **The depth invariant is preserved by one iteration of the token loop.** -/
theorem step_depth (stk : List Frame) (args : List Obj) (tok : Obj) (hat : Atomic tok) (hs : StkOK stk)
    (hf : FramesD stk) (ha : ArgsD args) : StepD (step stk args tok) := by
  have htok : depthO tok + stk.length ≤ N := by rw [atomic_depth tok hat]; simpa using hs.1
  have push : ∀ (isDict : Bool), FramesD ({ isDict := isDict, data := [] } :: stk) := by
    intro isDict
    exact ⟨by intro o ho; simp at ho, hf⟩
  unfold step
  cases tok with
  | op name =>
    simp only []
    split
    · split
      · trivial
      · exact ⟨push true, ha⟩
    · split
      · cases stk with
        | nil => exact ⟨hf, ha⟩
        | cons top below =>
          simp only []
          split
          · exact ⟨hf, ha⟩
          · split
            · exact ⟨hf.2, ha⟩
            · apply deliver_depth below args _ (stkOK_tail top below hs) hf.2 ha
              have hd := depth_mkDict top.data (N - below.length - 1) (by
                intro o ho
                have := hf.1 o ho
                omega)
              have hlen : below.length + 1 ≤ N := by simpa using hs.1
              simp only [depthO]
              omega
      · split
        · split
          · trivial
          · exact ⟨push false, ha⟩
        · split
          · cases stk with
            | nil => exact ⟨hf, ha⟩
            | cons top below =>
              simp only []
              split
              · exact ⟨hf, ha⟩
              · apply deliver_depth below args _ (stkOK_tail top below hs) hf.2 ha
                have hd : depthL top.data ≤ N - below.length - 1 := by
                  rw [depthL_le]
                  intro o ho
                  have := hf.1 o ho
                  omega
                have hlen : below.length + 1 ≤ N := by simpa using hs.1
                simp only [depthO]
                omega
          · exact deliver_depth stk args _ hs hf ha htok
  | _ => exact deliver_depth stk args _ hs hf ha htok

theorem imageData_name (kv : List (Bytes × Obj)) (rest : Bytes) (op : Bytes × List Obj) (r : Bytes)
    (h : imageData kv rest = .ok op r) : op.1 = Gen.content_OpInlineImage := by
  unfold imageData at h
  simp only [] at h
  split at h
  · simp at h
  · split at h
    · split at h
      · simp at h
      · split at h
        · simp at h
        · split at h
          · simp at h
          · rw [iiFinish_data _ _ _ _ _ h]
    · split at h
      · simp at h
      · simp at h
      · rw [iiFinish_data _ _ _ _ _ h]

theorem readInlineImage_name (inp : Bytes) (op : Bytes × List Obj) (r : Bytes)
    (h : readInlineImage inp = .ok op r) : op.1 = Gen.content_OpInlineImage := by
  unfold readInlineImage at h
  split at h
  · simp at h
  · simp at h
  · simp at h
  · simp only [] at h
    split at h
    · simp at h
    · split at h
      · simp at h
      · exact imageData_name _ _ _ _ h

/-- **Operands are at most `maxContentNestDepth` deep.**  Every operator the token loop returns
(other than an inline image, whose dictionary is read by `readValueDepth` with its own limit
`maxValueDepth`) has operands of nesting depth at most `maxContentNestDepth`. -/
theorem scanLoop_depth : ∀ (f : Nat) (stk : List Frame) (args : List Obj) (inp : Bytes),
    StkOK stk → args.length ≤ Gen.content_maxOperatorArgs → FramesD stk → ArgsD args →
    ∀ op rest, scanLoop f stk args inp = .ok op rest → op.1 ≠ Gen.content_OpInlineImage → ArgsD op.2 := by
  intro f
  induction f with
  | zero => intro stk args inp _ _ _ _ op rest h; simp [scanLoop] at h
  | succ f ih =>
    intro stk args inp hs hal hf ha op rest h hne
    rw [scanLoop] at h
    cases htok : scanToken inp with
    | eof => simp [htok] at h
    | fuel => simp [htok] at h
    | perr r => simp [htok] at h
    | ok tok rest' =>
      rw [htok] at h
      simp only [] at h
      have hat := scanToken_atomic inp rest' tok htok
      have hc := step_caps stk args tok hs hal
      have hd := step_depth stk args tok hat hs hf ha
      cases hstep : step stk args tok with
      | cont stk' args' =>
        rw [hstep] at h hc hd
        simp only [] at h
        exact ih stk' args' rest' hc.1 hc.2 hd.1 hd.2 op rest h hne
      | emit name args' =>
        rw [hstep] at h hd
        simp at h
        rw [← h.1]
        exact hd
      | image =>
        rw [hstep] at h
        simp only [] at h
        exact absurd (readInlineImage_name rest' op rest h) hne
      | perr => rw [hstep] at h; simp at h


theorem framesD_nil : FramesD [] := trivial
theorem argsD_nil : ArgsD [] := by intro a ha; simp at ha

/-- **`Scan` returns operands of depth ≤ `maxContentNestDepth`** (comments and operators; inline
image dictionaries are bounded by `maxValueDepth` through `readValueDepth`). -/
theorem scanOne_depth (inp : Bytes) (op : Bytes × List Obj) (rest : Bytes) (h : scanOne inp = .ok op rest)
    (hne : op.1 ≠ Gen.content_OpInlineImage) : ∀ a ∈ op.2, depthO a ≤ Gen.content_maxContentNestDepth := by
  unfold scanOne at h
  cases hsk : skipSp inp with
  | nil => simp [hsk] at h
  | cons c r =>
    rw [hsk] at h
    simp only [] at h
    split at h
    · split at h
      · simp at h
      · simp at h
        rw [← h.1]
        intro a ha
        simp at ha
        subst ha
        exact Nat.zero_le _
    · exact scanLoop_depth _ [] [] (c :: r) stkOK_nil nil_args_ok framesD_nil argsD_nil op rest h hne

end PdfVerif.C15cntw

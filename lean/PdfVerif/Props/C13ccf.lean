import PdfVerif.Props.C13cce
/-!
# C13 (part 6) — `File.All` after `SetMapping`, including the `Decode` filter
-/
namespace PdfVerif.C13ccf
open PdfVerif PdfVerif.CC PdfVerif.C13cc PdfVerif.C13ccb PdfVerif.C13ccc PdfVerif.C13ccd

/-! ## `All` with its `Decode` filter -/

theorem decodeItems_spec {α : Type} (codec : Codec) :
    ∀ (items : List (Bytes × α)), (∀ it ∈ items, ∃ r, codec.decode it.1 = .ok r) →
    ∃ out, decodeItems codec items = .ok out ∧
      ∀ code v, (code, v) ∈ out ↔ ∃ bs, (bs, v) ∈ items ∧ codec.decode bs = .ok (code, bs.length, true) := by
  intro items
  induction items with
  | nil => intro _; exact ⟨[], rfl, by simp⟩
  | cons it items ih =>
    intro hdec
    obtain ⟨bs, w⟩ := it
    obtain ⟨⟨code0, k0, valid0⟩, hr⟩ := hdec (bs, w) (by simp)
    obtain ⟨out, ho, hm⟩ := ih (fun it hit => hdec it (by simp [hit]))
    simp only at hr
    simp only [decodeItems, hr, ho]
    by_cases hkeep : (!valid0 || k0 != bs.length) = true
    · refine ⟨out, by simp [hkeep], ?_⟩
      intro code v
      rw [hm]
      constructor
      · rintro ⟨bs', h1, h2⟩; exact ⟨bs', by simp [h1], h2⟩
      · rintro ⟨bs', h1, h2⟩
        rcases List.mem_cons.mp h1 with h1 | h1
        · injection h1 with e1 e2; subst e1 e2
          rw [hr] at h2; injection h2 with h2
          simp only [Prod.mk.injEq] at h2
          obtain ⟨_, e3, e4⟩ := h2
          subst e3 e4
          simp at hkeep
        · exact ⟨bs', h1, h2⟩
    · have hk : valid0 = true ∧ k0 = bs.length := by
        simp only [Bool.or_eq_true, Bool.not_eq_true', bne_iff_ne, ne_eq, not_or, Bool.not_eq_false,
          Decidable.not_not] at hkeep
        exact hkeep
      refine ⟨(code0, w) :: out, by simp [hkeep], ?_⟩
      intro code v
      simp only [List.mem_cons, Prod.mk.injEq, hm]
      constructor
      · rintro (⟨rfl, rfl⟩ | ⟨bs', h1, h2⟩)
        · exact ⟨bs, .inl ⟨rfl, rfl⟩, by rw [hr, hk.1, hk.2]⟩
        · exact ⟨bs', .inr h1, h2⟩
      · rintro ⟨bs', h1 | h1, h2⟩
        · obtain ⟨rfl, rfl⟩ := h1
          rw [hr] at h2; injection h2 with h2
          simp only [Prod.mk.injEq] at h2
          exact .inl ⟨h2.1.symm, rfl⟩
        · exact .inr ⟨bs', h1, h2⟩

/-- **`all_setMapping`.**  For a codec returned by `NewCodec` and the file built by `SetMapping`
(no parent, enumeration budget not exhausted), `File.All` yields exactly the pairs `(code, CID)`
of the map whose code is valid for the codec (`Decode(AppendCode(code))` returns the code as
valid): nothing else, and nothing of that missing. -/
theorem all_setMapping (csr : CSR) (f f' : CMapFile) (codec : Codec) (data : List (Nat × Nat))
    (hc : newCodec csr = .ok codec)
    (h : setMapping f [] codec data = .ok f')
    (hcid : ∀ p ∈ data, p.2 < 4294967296)
    (hb : rangesDemand f'.ranges + f'.singles.length ≤ Gen.limits_MaxCMapMappings) :
    ∃ out, cmapAll [f'] codec = .ok out ∧
      ∀ code v, (code, v) ∈ out ↔
        ∃ p ∈ data, p.2 = v ∧ ∃ bs, codec.appendCode p.1 = .ok bs ∧ codec.decode bs = .ok (code, bs.length, true) := by
  have hbytes : ∀ p ∈ data, ∀ bs, codec.appendCode p.1 = .ok bs → AllBytes bs := by
    intro p _ bs hbs
    obtain ⟨bs', _, h2, _, _, h3, _⟩ := C12ccd.append_then_decode csr codec hc p.1
    rw [hbs] at h2; injection h2 with h2; subst h2; exact h3
  have hmem := all_setMapping_bytes f f' codec data h hcid hbytes Gen.limits_MaxCMapMappings hb
    (by simp [Gen.limits_MaxCMapMappings, maxInt32])
  unfold cmapAll
  simp only [List.reverse_cons, List.reverse_nil, List.nil_append]
  obtain ⟨out, ho, hm⟩ := decodeItems_spec codec (allItemsFiles [f'] Gen.limits_MaxCMapMappings) (by
    intro it hit
    obtain ⟨p, hp, h1, _⟩ := (hmem it.1 it.2).mp hit
    have hab := hbytes p hp _ h1
    obtain ⟨code, n, v, hd, _⟩ := C12ccc.newCodec_decode_consumed csr codec hc it.1 hab
    exact ⟨_, hd⟩)
  refine ⟨out, ho, ?_⟩
  intro code v
  rw [hm]
  constructor
  · rintro ⟨bs, h1, h2⟩
    obtain ⟨p, hp, p1, p2⟩ := (hmem bs v).mp h1
    exact ⟨p, hp, p2, bs, p1, h2⟩
  · rintro ⟨p, hp, rfl, bs, h1, h2⟩
    exact ⟨bs, (hmem bs p.2).mpr ⟨p, hp, h1, rfl⟩, h2⟩

end PdfVerif.C13ccf

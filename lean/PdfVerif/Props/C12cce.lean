import PdfVerif.Props.C12ccd
/-!
# C12 (part 5) — which range sets are accepted

`newTree` (hence `NewCodec`, up to the node limit) accepts a set of valid ranges **iff** no code
of one range is a proper prefix of a code of another (`Spec.CodeSpace.PrefixFree`).
-/
namespace PdfVerif.C12cce
open PdfVerif PdfVerif.CC PdfVerif.C12cc PdfVerif.C12ccb PdfVerif.C12ccc PdfVerif.Spec.CodeSpace

/-! ## `newTree` accepts every valid prefix-free range set -/

theorem mapE_ok {α β : Type} (f : α → Except CErr β) : ∀ (l : List α), (∀ a ∈ l, ∃ b, f a = .ok b) →
    ∃ out, mapE f l = .ok out := by
  intro l
  induction l with
  | nil => intro _; exact ⟨[], rfl⟩
  | cons a l ih =>
    intro h
    obtain ⟨b, hb⟩ := h a (by simp)
    obtain ⟨out, hout⟩ := ih (fun a' ha' => h a' (by simp [ha']))
    exact ⟨b :: out, by simp [mapE, hb, hout]⟩

/-- every interval between consecutive breaks is non-empty, below 256, and free of breaks -/
theorem intervals_mem (p : Nat → Bool) (_h256 : p 256 = true) :
    ∀ n x lo, x + n = 257 → lo < x → (∀ y, lo < y → y < x → p y = false) →
    ∀ iv ∈ intervals (lo :: (List.range' x n).filter p),
      iv.1 ≤ iv.2 ∧ iv.2 < 256 ∧ (∀ y, iv.1 < y → y ≤ iv.2 → p y = false) := by
  intro n
  induction n with
  | zero => intro x lo _ _ _ iv hiv; simp [intervals] at hiv
  | succ n ihn =>
    intro x lo hx hlo hnb iv hiv
    rw [List.range'_succ, List.filter_cons] at hiv
    by_cases hp : p x = true
    · simp only [hp, if_true, intervals, List.mem_cons] at hiv
      rcases hiv with rfl | hiv
      · refine ⟨by simp; omega, by simp; omega, ?_⟩
        intro y h1 h2; exact hnb y h1 (by simp at h2; omega)
      · exact ihn (x + 1) x (by omega) (by omega) (by intro y h1 h2; omega) iv hiv
    · have hp' : p x = false := by simpa using hp
      simp only [hp', Bool.false_eq_true, if_false] at hiv
      exact ihn (x + 1) lo (by omega) (by omega)
        (by intro y h1 h2; by_cases h : y = x; subst h; exact hp'; exact hnb y h1 (by omega)) iv hiv

theorem leAll_iff (lo hi : Bytes) (h : lo.length = hi.length) :
    leAll lo hi = true ↔ ∀ i, i < lo.length → byteAt lo i ≤ byteAt hi i := by
  induction lo generalizing hi with
  | nil => simp [leAll]
  | cons a lo ih =>
    cases hi with
    | nil => simp at h
    | cons b hi =>
      simp only [leAll, Bool.and_eq_true, Bool.not_eq_true', decide_eq_false_iff_not, Nat.not_lt]
      rw [ih hi (by simpa using h)]
      constructor
      · rintro ⟨h1, h2⟩ i hi'
        cases i with
        | zero => simpa [byteAt] using h1
        | succ i => simpa [byteAt] using h2 i (by simpa using hi')
      · intro h'
        refine ⟨by simpa [byteAt] using h' 0 (by simp), ?_⟩
        intro i hi'
        simpa [byteAt] using h' (i + 1) (by simpa using hi')

/-- a partial match can be completed to a full code of a valid range -/
theorem withinFirst_extend (lo hi : Bytes) (hlen : lo.length = hi.length) (hle : leAll lo hi = true) :
    ∀ (k : Nat) (c : Bytes), c.length = k → k ≤ lo.length → withinFirst lo hi c k = true →
      withinFirst lo hi (c ++ lo.drop k) lo.length = true := by
  induction lo generalizing hi with
  | nil => intro k c _ _ _; simp [withinFirst]
  | cons a lo ih =>
    cases hi with
    | nil => simp at hlen
    | cons b hi =>
      simp only [leAll, Bool.and_eq_true, Bool.not_eq_true', decide_eq_false_iff_not, Nat.not_lt] at hle
      intro k c hc hk hw
      cases k with
      | zero =>
        have : c = [] := List.length_eq_zero_iff.mp hc
        subst this
        simp only [List.drop_zero, List.nil_append, List.length_cons, withinFirst, Bool.and_eq_true, decide_eq_true_eq]
        refine ⟨⟨Nat.le_refl _, hle.1⟩, ?_⟩
        have := ih hi (by simpa using hlen) hle.2 0 [] rfl (by omega) (by simp [withinFirst])
        simpa using this
      | succ k =>
        cases c with
        | nil => simp at hc
        | cons x c =>
          simp only [withinFirst, Bool.and_eq_true, decide_eq_true_eq] at hw
          simp only [List.drop_succ_cons, List.cons_append, List.length_cons, withinFirst, Bool.and_eq_true,
            decide_eq_true_eq]
          exact ⟨hw.1, ih hi (by simpa using hlen) hle.2 k c (by simpa using hc) (by simpa using hk) hw.2⟩

theorem isValid_parts (r : Range) (h : r.isValid = true) :
    r.low.length = r.high.length ∧ 1 ≤ r.low.length ∧ r.low.length ≤ 4 ∧ leAll r.low r.high = true := by
  have hl := isValid_len r h
  unfold Range.isValid at h
  split at h
  · cases h
  · rename_i hc
    simp at hc
    exact ⟨hc.1.1, hl.1, hl.2, h⟩

theorem newTree_ok_gen (csr : CSR) (hv : ∀ r ∈ csr, r.isValid = true) (hpf : PrefixFree (toSpec csr)) :
    ∀ (fuel d : Nat) (S : CSR) (p : Bytes), p.length = d → 1 ≤ fuel →
      (∀ r ∈ S, r ∈ csr ∧ M p d r = true ∧ d < r.low.length ∧ r.low.length ≤ d + fuel) →
      ∃ cs, newTree fuel S d = .ok cs := by
  intro fuel
  induction fuel with
  | zero => intro d S p _ h1; omega
  | succ fuel ih =>
    intro d S p hp _ hS
    simp only [newTree]
    have hguard : (S.all fun r => decide (d < r.low.length) && decide (d < r.high.length)) = true := by
      simp only [List.all_eq_true, Bool.and_eq_true, decide_eq_true_eq]
      intro r hr
      have h1 := hS r hr
      have h2 := isValid_parts r (hv r h1.1)
      omega
    simp only [hguard, Bool.not_true, Bool.false_eq_true, if_false]
    apply mapE_ok
    intro iv hiv
    have e : breaks S d = 0 :: (List.range' 1 256).filter (isBreak S d) := by
      have : isBreak S d 0 = true := by simp [isBreak]
      simp only [breaks, List.range_eq_range']
      rw [show (257 : Nat) = 256 + 1 from rfl, List.range'_succ, List.filter_cons]
      simp [this]
    rw [e] at hiv
    obtain ⟨h1, h2, h3⟩ := intervals_mem (isBreak S d) (by simp [isBreak]) 256 1 0 rfl (by omega)
      (by intro y a b; omega) iv hiv
    have hov := overlapping_eq S d iv.1 iv.2 iv.1 (Nat.le_refl _) h1 h3
    simp only [nodeFor, hov]
    -- membership in the selected set
    have hsel : ∀ r ∈ S.filter (containsAt d iv.1), r ∈ S ∧ M (p ++ [iv.1]) (d + 1) r = true := by
      intro r hr
      obtain ⟨hrS, hc⟩ := List.mem_filter.mp hr
      have hr' := hS r hrS
      have hvp := isValid_parts r (hv r hr'.1)
      refine ⟨hrS, ?_⟩
      simp only [M, withinFirst_succ]
      have hm : withinFirst r.low r.high (p ++ [iv.1]) d = true := by
        have := hr'.2.1
        simp only [M] at this
        -- the first d bytes are those of p
        have hgen : ∀ (lo hi q : Bytes) (k : Nat), q.length = k → withinFirst lo hi q k = true →
            withinFirst lo hi (q ++ [iv.1]) k = true := by
          intro lo hi q k
          induction k generalizing lo hi q with
          | zero => intro _ _; simp [withinFirst]
          | succ k ihk =>
            intro hq hw
            cases lo with
            | nil => simp [withinFirst] at hw
            | cons l lo =>
              cases hi with
              | nil => simp [withinFirst] at hw
              | cons hh hi =>
                cases q with
                | nil => simp at hq
                | cons b q =>
                  simp only [withinFirst, Bool.and_eq_true] at hw
                  simp only [List.cons_append, withinFirst, Bool.and_eq_true]
                  exact ⟨hw.1, ihk lo hi q (by simpa using hq) hw.2⟩
        exact hgen _ _ p d hp this
      have hb : byteAt (p ++ [iv.1]) d = iv.1 := by rw [← hp]; exact byteAt_append p iv.1 []
      simp only [containsAt, Bool.and_eq_true, decide_eq_true_eq] at hc
      have hl : d < (p ++ [iv.1]).length := by simp; omega
      simp [hm, hb, hc.1, hc.2, hl]
      omega
    split
    · exact ⟨_, rfl⟩
    · rename_i hne
      split
      · exact ⟨_, rfl⟩
      · rename_i hnl
        split
        · rename_i h0
          -- descend: all selected ranges are longer than d+1
          have hnoleaf : ∀ r ∈ S.filter (containsAt d iv.1), r.low.length ≠ d + 1 := by
            intro r hr hlen
            have : (List.filter (fun r => r.low.length == d + 1) (S.filter (containsAt d iv.1))) = [] := by
              simpa [numLeaves] using h0
            rw [List.filter_eq_nil_iff] at this
            have := this r hr
            simp [hlen] at this
          have hex : ∃ r, r ∈ S.filter (containsAt d iv.1) := by
            cases hl : S.filter (containsAt d iv.1) with
            | nil => simp [hl] at hne
            | cons r _ => exact ⟨r, by simp⟩
          obtain ⟨r0, hr0⟩ := hex
          have hr0S := hS r0 (hsel r0 hr0).1
          have hfuel : 1 ≤ fuel := by have := hnoleaf r0 hr0; omega
          obtain ⟨cs, hcs⟩ := ih (d + 1) (S.filter (containsAt d iv.1)) (p ++ [iv.1]) (by simp; omega) hfuel (by
            intro r hr
            have h1 := hsel r hr
            have h2 := hS r h1.1
            have h3 := hnoleaf r hr
            exact ⟨h2.1, h1.2, by omega, by omega⟩)
          rw [hcs]; exact ⟨_, rfl⟩
        · rename_i h0
          -- a leaf and a longer range share the selected interval: a code is a prefix of another
          exfalso
          have hex1 : ∃ r1 ∈ S.filter (containsAt d iv.1), r1.low.length = d + 1 := by
            cases hl : List.filter (fun r => r.low.length == d + 1) (S.filter (containsAt d iv.1)) with
            | nil => simp [numLeaves, hl] at h0
            | cons r1 _ =>
              have : r1 ∈ List.filter (fun r => r.low.length == d + 1) (S.filter (containsAt d iv.1)) := by rw [hl]; simp
              obtain ⟨a, b⟩ := List.mem_filter.mp this
              exact ⟨r1, a, by simpa using b⟩
          have hex2 : ∃ r2 ∈ S.filter (containsAt d iv.1), r2.low.length ≠ d + 1 := by
            apply Classical.byContradiction
            intro hall
            have : ∀ r ∈ S.filter (containsAt d iv.1), (fun r => r.low.length == d + 1) r = true := by
              intro r hr
              have : ¬ (r.low.length ≠ d + 1) := fun hc => hall ⟨r, hr, hc⟩
              simpa using this
            have := List.filter_eq_self.mpr this
            simp [numLeaves, this] at hnl
          obtain ⟨r1, hr1, hl1⟩ := hex1
          obtain ⟨r2, hr2, hl2⟩ := hex2
          have s1 := hsel r1 hr1
          have s2 := hsel r2 hr2
          have v1 := isValid_parts r1 (hv r1 (hS r1 s1.1).1)
          have v2 := isValid_parts r2 (hv r2 (hS r2 s2.1).1)
          have hl2' : d + 1 < r2.low.length := by have := (hS r2 s2.1).2.2.1; omega
          have hc1 : (toSpecR r1).isCode (p ++ [iv.1]) = true := by
            simp only [CodeRange.isCode, CodeRange.startsCode, CodeRange.matchesUpTo, CodeRange.len, toSpecR,
              Bool.and_eq_true, decide_eq_true_eq]
            refine ⟨by simp; omega, ?_⟩
            rw [hl1]; exact s1.2
          have hc2 : (toSpecR r2).isCode ((p ++ [iv.1]) ++ r2.low.drop (d + 1)) = true := by
            simp only [CodeRange.isCode, CodeRange.startsCode, CodeRange.matchesUpTo, CodeRange.len, toSpecR,
              Bool.and_eq_true, decide_eq_true_eq]
            refine ⟨by simp; omega, ?_⟩
            exact withinFirst_extend r2.low r2.high v2.1 v2.2.2.2 (d + 1) (p ++ [iv.1]) (by simp; omega) (by omega) s2.2
          have := hpf (toSpecR r1) (by simp [toSpec]; exact ⟨r1, (hS r1 s1.1).1, rfl⟩)
            (toSpecR r2) (by simp [toSpec]; exact ⟨r2, (hS r2 s2.1).1, rfl⟩) _ _ hc1 hc2 (List.prefix_append _ _)
          simp at this
          omega

/-- **No spurious rejection.**  Every range set whose ranges are valid and in which no code is
a proper prefix of another is accepted by `newTree` (so `NewCodec` can only reject it for
needing more than `maxNodes` nodes). -/
theorem newTree_ok_of_prefixFree (csr : CSR) (hv : ∀ r ∈ csr, r.isValid = true) (hpf : PrefixFree (toSpec csr)) :
    ∃ tree, newTree 4 csr 0 = .ok tree := by
  apply newTree_ok_gen csr hv hpf 4 0 csr [] rfl (by omega)
  intro r hr
  have := isValid_parts r (hv r hr)
  exact ⟨hr, by simp [M, withinFirst], by omega, by omega⟩


/-! ## … and only those -/

theorem withinFirst_prefix (lo hi : Bytes) : ∀ (k : Nat) (c1 c2 : Bytes), c1 <+: c2 → k ≤ c1.length →
    (withinFirst lo hi c2 k = withinFirst lo hi c1 k) := by
  induction lo generalizing hi with
  | nil => intro k c1 c2 _ _; cases k <;> simp [withinFirst]
  | cons a lo ih =>
    intro k c1 c2 hp hk
    cases k with
    | zero => simp [withinFirst]
    | succ k =>
      cases hi with
      | nil => simp [withinFirst]
      | cons b hi =>
        cases c1 with
        | nil => simp at hk
        | cons x c1 =>
          cases c2 with
          | nil => simp at hp
          | cons y c2 =>
            have hxy := List.cons_prefix_cons.mp hp
            simp only [withinFirst]
            rw [hxy.1, ih hi k c1 c2 hxy.2 (by simpa using hk)]

theorem filter_step (csr S : CSR) (d : Nat) (pre : Bytes) (b : Nat) (rest : Bytes) (hpre : pre.length = d)
    (hS : S = csr.filter (M (pre ++ b :: rest) d))
    (hguard : ∀ r ∈ S, d < r.low.length ∧ d < r.high.length) :
    S.filter (containsAt d b) = csr.filter (M (pre ++ b :: rest) (d + 1)) := by
  rw [hS, List.filter_filter]
  apply List.filter_congr
  intro r hr
  simp only [M, withinFirst_succ]
  cases hm : withinFirst r.low r.high (pre ++ b :: rest) d with
  | false => simp
  | true =>
    have hrS : r ∈ S := by rw [hS]; simp [List.mem_filter, hr, M, hm]
    have := hguard r hrS
    have hbd : byteAt (pre ++ b :: rest) d = b := by rw [← hpre]; exact byteAt_append pre b rest
    have hl : d < pre.length + (rest.length + 1) := by omega
    simp [containsAt, this.1, this.2, hbd, hl]

theorem isCode_parts (r : Range) (c : Bytes) (h : (toSpecR r).isCode c = true) :
    c.length = r.low.length ∧ withinFirst r.low r.high c r.low.length = true := by
  simp only [CodeRange.isCode, CodeRange.startsCode, CodeRange.matchesUpTo, CodeRange.len, toSpecR,
    Bool.and_eq_true] at h
  exact ⟨of_decide_eq_true h.1, h.2⟩

theorem prefixFree_gen (csr : CSR) (c1 c2 : Bytes) (r1 r2 : Range) (hr1 : r1 ∈ csr) (hr2 : r2 ∈ csr)
    (hc1 : (toSpecR r1).isCode c1 = true) (hc2 : (toSpecR r2).isCode c2 = true) (hp : c1 <+: c2) :
    ∀ (fuel d : Nat) (pre s : Bytes) (S : CSR) (cs : List (Nat × Node)),
      newTree fuel S d = .ok cs → pre.length = d → c2 = pre ++ s → AllBytes s → d < c1.length →
      S = csr.filter (M c2 d) → c1.length = c2.length := by
  have h1 := isCode_parts r1 c1 hc1
  have h2 := isCode_parts r2 c2 hc2
  have hle : c1.length ≤ c2.length := hp.length_le
  intro fuel
  induction fuel with
  | zero => intro d pre s S cs h; simp [newTree] at h
  | succ fuel ih =>
    intro d pre s S cs hT hpre hc2s hs hd hS
    cases s with
    | nil =>
      rw [hc2s] at hle; simp at hle; omega
    | cons b rest =>
      have hb : b < 256 := by simp [AllBytes] at hs; exact hs.1
      have hrest : AllBytes rest := by simp [AllBytes] at hs ⊢; exact hs.2
      obtain ⟨hguard, hcases⟩ := newTree_step fuel S d cs hT b hb
      have hS' := filter_step csr S d pre b rest hpre (by rw [← hc2s]; exact hS) hguard
      rw [← hc2s] at hS'
      have m1 : r1 ∈ S.filter (containsAt d b) := by
        rw [hS']; simp only [List.mem_filter, M]
        refine ⟨hr1, ?_⟩
        rw [withinFirst_prefix _ _ (d + 1) c1 c2 hp (by omega)]
        exact withinFirst_mono _ _ _ (d + 1) _ (by omega) h1.2
      have m2 : r2 ∈ S.filter (containsAt d b) := by
        rw [hS']; simp only [List.mem_filter, M]
        exact ⟨hr2, withinFirst_mono _ _ _ (d + 1) _ (by omega) h2.2⟩
      rcases hcases with h | h | ⟨_, _, h0, cs', hcs'⟩
      · have : S.filter (containsAt d b) = [] := by simpa using h
        rw [this] at m1; simp at m1
      · have hall := all_of_filter_length _ _ h
        have e1 : r1.low.length = d + 1 := by simpa using hall r1 m1
        have e2 : r2.low.length = d + 1 := by simpa using hall r2 m2
        omega
      · have hnoleaf : ∀ r ∈ S.filter (containsAt d b), r.low.length ≠ d + 1 := by
          intro r hr hlen
          have : (List.filter (fun r => r.low.length == d + 1) (S.filter (containsAt d b))) = [] := by
            simpa [numLeaves] using h0
          rw [List.filter_eq_nil_iff] at this
          have := this r hr
          simp [hlen] at this
        have := hnoleaf r1 m1
        exact ih (d + 1) (pre ++ [b]) rest _ cs' hcs' (by simp; omega) (by rw [hc2s]; simp) hrest (by omega) hS'

/-- **Only prefix-free sets are accepted.**  If `newTree` accepts a set of ranges with byte
bounds, no code of one range is a proper prefix of a code of another. -/
theorem prefixFree_of_newTree_ok (csr : CSR) (tree : List (Nat × Node)) (hT : newTree 4 csr 0 = .ok tree)
    (hbytes : ∀ r ∈ csr, AllBytes r.high) : PrefixFree (toSpec csr) := by
  intro r1 hr1 r2 hr2 c1 c2 hc1 hc2 hp
  simp only [toSpec, List.mem_map] at hr1 hr2
  obtain ⟨r1', hr1', rfl⟩ := hr1
  obtain ⟨r2', hr2', rfl⟩ := hr2
  -- the bytes of a code are bytes
  have h2 := isCode_parts r2' c2 hc2
  have hgen : ∀ (lo hi c : Bytes) (k : Nat), AllBytes hi → c.length = k → withinFirst lo hi c k = true → AllBytes c := by
    intro lo hi c k
    induction k generalizing lo hi c with
    | zero => intro _ hc _; have : c = [] := List.length_eq_zero_iff.mp hc; subst this; simp
    | succ k ihk =>
      intro hhi hc hw
      cases lo with
      | nil => simp [withinFirst] at hw
      | cons l lo =>
        cases hi with
        | nil => simp [withinFirst] at hw
        | cons hh hi =>
          cases c with
          | nil => simp at hc
          | cons x c =>
            simp only [withinFirst, Bool.and_eq_true, decide_eq_true_eq] at hw
            simp only [allBytes_cons] at hhi ⊢
            exact ⟨by omega, ihk lo hi c hhi.2 (by simpa using hc) hw.2⟩
  have hc2b : AllBytes c2 := hgen _ _ c2 _ (hbytes r2' hr2') h2.1 h2.2
  by_cases hc1e : c1 = []
  · -- an empty code would belong to a range of length 0, which `newTree` does not accept
    subst hc1e
    have h1 : r1'.low.length = 0 := by
      have := (isCode_parts r1' [] hc1).1
      simpa using this.symm
    cases c2 with
    | nil => rfl
    | cons b rest =>
      have hb : b < 256 := by simp [AllBytes] at hc2b; exact hc2b.1
      have := (newTree_step 3 csr 0 tree hT b hb).1 r1' hr1'
      omega
  · exact prefixFree_gen csr c1 c2 r1' r2' hr1' hr2' hc1 hc2 hp 4 0 [] c2 csr tree hT rfl rfl hc2b
      (by cases c1; exact absurd rfl hc1e; simp)
      (by rw [List.filter_eq_self.mpr]; intro r _; simp [M, withinFirst])


/-- **`NewCodec` accepts exactly the prefix-free sets** (of valid ranges with byte bounds; a
prefix-free set can only be rejected later for exceeding `maxNodes`). -/
theorem newTree_ok_iff (csr : CSR) (hv : ∀ r ∈ csr, r.isValid = true) (hbytes : ∀ r ∈ csr, AllBytes r.high) :
    (∃ tree, newTree 4 csr 0 = .ok tree) ↔ PrefixFree (toSpec csr) :=
  ⟨fun ⟨tree, hT⟩ => prefixFree_of_newTree_ok csr tree hT hbytes, newTree_ok_of_prefixFree csr hv⟩

theorem newCodec_prefixFree (csr : CSR) (c : Codec) (hC : newCodec csr = .ok c) (hbytes : ∀ r ∈ csr, AllBytes r.high) :
    (∀ r ∈ csr, r.isValid = true) ∧ PrefixFree (toSpec csr) := by
  obtain ⟨hv, tree, hT⟩ := newCodec_ok csr c hC
  exact ⟨hv, prefixFree_of_newTree_ok csr tree hT hbytes⟩

/-- non-vacuity: `<00>-<7F>` with `<7F00>-<7FFF>` is not prefix-free and is rejected -/
example : (match newTree 4 [⟨[0x00], [0x7f]⟩, ⟨[0x7f, 0x00], [0x7f, 0xff]⟩] 0 with
    | .ok _ => true | .error _ => false) = false := by decide +kernel

end PdfVerif.C12cce
